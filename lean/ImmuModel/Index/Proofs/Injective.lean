/-
C04 — helper lemmas and proofs: injective mappings (one live mapped key per row), the bound on the number of
KVTs of a bulk (`idx._kvs` is never overrun), and concrete histories used as non-vacuity examples.
-/
import ImmuModel.Index.Refines
namespace ImmuModel.Index.L.InjectiveAux
open ImmuModel ImmuModel.Index.L

/-! ### generic helpers -/

theorem rev_ind {α : Type} {P : List α → Prop} (nil : P [])
    (snoc : ∀ l a, P l → P (l ++ [a])) : ∀ l, P l := by
  intro l
  have h : ∀ m : List α, P m.reverse := by
    intro m
    induction m with
    | nil => simpa using nil
    | cons a m ih => rw [List.reverse_cons]; exact snoc _ _ ih
  simpa using h l.reverse

/-- does tx hold an indexable entry for row `r`? (the test of `prevTxOf`) -/
def hasRow (P r : Bytes) (tx : Tx) : Bool := tx.entries.any (fun e => e.inSource P && e.key == r)

theorem hasRow_iff (P r : Bytes) (tx : Tx) :
    hasRow P r tx = true ↔ ∃ e ∈ tx.entries, e.inSource P = true ∧ e.key = r := by
  simp [hasRow]

/-- last event with key `k` -/
def lastEv (evs : List (KVT IVal)) (k : Key) : Option (KVT IVal) :=
  (evs.filter (fun kv => kv.k = k)).getLast?

theorem lastEv_append (A B : List (KVT IVal)) (k : Key) :
    lastEv (A ++ B) k = (lastEv B k).or (lastEv A k) := by
  simp [lastEv, List.filter_append, List.getLast?_append]

theorem lastEv_some {evs : List (KVT IVal)} {k : Key} {ev : KVT IVal} (h : lastEv evs k = some ev) :
    ev ∈ evs ∧ ev.k = k := by
  have := List.mem_of_getLast? h
  simpa using this

theorem lastEv_none {evs : List (KVT IVal)} {k : Key} (h : lastEv evs k = none) :
    ∀ ev ∈ evs, ev.k ≠ k := by
  simpa [lastEv, List.getLast?_eq_none_iff, List.filter_eq_nil_iff] using h

theorem live_logView {sp : Spec} {env : Env} {txs : List Tx} {k : Key} (h : Live (LogView sp env txs k)) :
    ∃ ev, lastEv (logEvents sp env txs) k = some ev ∧ ev.v.md.deleted = false := by
  obtain ⟨t, v, older, hvs, hd⟩ := h
  have h1 : (LogView sp env txs k).head? = some (t, v) := by rw [hvs]; rfl
  unfold LogView at h1
  rw [List.head?_reverse, List.getLast?_map] at h1
  unfold lastEv
  cases hl : ((logEvents sp env txs).filter (fun kv => kv.k = k)).getLast? with
  | none => rw [hl] at h1; simp at h1
  | some ev =>
    rw [hl] at h1
    simp at h1
    exact ⟨ev, rfl, by rw [h1.2]; exact hd⟩

theorem idsAbove_iff (lo : Nat) (txs : List Tx) :
    IdsAbove lo txs ↔ (∀ x ∈ txs, lo < x.id) ∧ txs.Pairwise (fun a b => a.id < b.id) := by
  induction txs generalizing lo with
  | nil => simp [IdsAbove]
  | cons a l ih =>
    simp only [IdsAbove, ih, List.mem_cons, List.pairwise_cons, forall_eq_or_imp]
    constructor
    · rintro ⟨h1, h2, h3⟩; exact ⟨⟨h1, fun x hx => Nat.lt_trans h1 (h2 x hx)⟩, h2, h3⟩
    · rintro ⟨⟨h1, _⟩, h2, h3⟩; exact ⟨h1, h2, h3⟩

theorem find_id {txs : List Tx} (hp : txs.Pairwise (fun a b => a.id < b.id)) {tx : Tx} (h : tx ∈ txs) :
    txs.find? (fun x => x.id == tx.id) = some tx := by
  induction txs with
  | nil => simp at h
  | cons a l ih =>
    rw [List.pairwise_cons] at hp
    rcases List.mem_cons.mp h with rfl | h'
    · simp
    · have := hp.1 tx h'
      have hne : (a.id == tx.id) = false := by simp; omega
      rw [List.find?_cons, hne]; exact ih hp.2 h'

theorem find_key {es : List Entry} (hn : (es.map (fun e => e.key)).Nodup) {e : Entry} (h : e ∈ es) :
    es.find? (fun x => x.key == e.key) = some e := by
  induction es with
  | nil => simp at h
  | cons a l ih =>
    simp only [List.map_cons, List.nodup_cons] at hn
    rcases List.mem_cons.mp h with rfl | h'
    · simp
    · have hne : (a.key == e.key) = false := by
        simp only [beq_eq_false_iff_ne, ne_eq]
        intro heq; apply hn.1; rw [heq]; exact List.mem_map_of_mem h'
      rw [List.find?_cons, hne]; exact ih hn.2 h'

theorem entryOf_mem {txs : List Tx} (hp : txs.Pairwise (fun a b => a.id < b.id)) {tx : Tx} (h : tx ∈ txs)
    (k : Bytes) : entryOf txs tx.id k = tx.entries.find? (fun e => e.key == k) := by
  simp [entryOf, find_id hp h]

theorem prevTxOf_split (P r : Bytes) (done : List Tx) (tx : Tx) (rest : List Tx)
    (hp : (done ++ tx :: rest).Pairwise (fun a b => a.id < b.id)) (h0 : 0 < tx.id) :
    prevTxOf P (done ++ tx :: rest) (tx.id - 1) r
      = ((done.filter (hasRow P r)).getLast?).map (fun x => x.id) := by
  rw [List.pairwise_append] at hp
  obtain ⟨_, h2, h3⟩ := hp
  rw [List.pairwise_cons] at h2
  unfold prevTxOf
  rw [List.filter_append]
  have e1 : (tx :: rest).filter (fun tx' => decide (tx'.id ≤ tx.id - 1) &&
      tx'.entries.any (fun e => e.inSource P && e.key == r)) = [] := by
    rw [List.filter_eq_nil_iff]
    intro x hx
    have : tx.id ≤ x.id := by
      rcases List.mem_cons.mp hx with rfl | h
      · exact Nat.le_refl _
      · exact Nat.le_of_lt (h2.1 x h)
    have hd : decide (x.id ≤ tx.id - 1) = false := by simp; omega
    simp [hd]
  have e2 : done.filter (fun tx' => decide (tx'.id ≤ tx.id - 1) &&
      tx'.entries.any (fun e => e.inSource P && e.key == r)) = done.filter (hasRow P r) := by
    apply List.filter_congr
    intro x hx
    have := h3 x hx tx List.mem_cons_self
    have hd : decide (x.id ≤ tx.id - 1) = true := by simp; omega
    simp [hd, hasRow]
  rw [e1, e2, List.append_nil, List.getLast?_map]

/-! ### the events of one entry under an injective target mapper -/

section
variable {sp : Spec} {f : Mapper} (hinj : sp.injective = true) (hs : sp.smap = none) (ht : sp.tmap = some f)
include hinj hs ht

theorem mem_entryEvents {env : Env} {t a : Nat} {e : Entry} {ev : KVT IVal}
    (h : ev ∈ entryEvents sp env t a e) :
    e.inSource sp.srcPrefix = true ∧
    (ev = ⟨f e.key e.value, e.ival, t⟩ ∨
      ∃ p pe, env.srcPrev a e.key = some p ∧ env.readEntry p e.key = some pe ∧
        ev = ⟨f e.key pe.value, { vlen := pe.value.length, hval := pe.hval, md := tombMd pe.md }, t⟩) := by
  unfold entryEvents at h
  simp only [hinj, hs, ht, mapKey] at h
  split at h
  · simp at h
  split at h
  · simp at h
  rename_i h1 h2
  refine ⟨by simp [Entry.inSource] at h2 ⊢; simp [h1, h2], ?_⟩
  split at h
  · split at h
    · simp at h; exact Or.inl h
    · split at h
      · simp at h; exact Or.inl h
      · rename_i _ p hp _ pe hpe
        split at h
        · simp at h; exact Or.inl h
        · simp at h
          rcases h with h | h
          · exact Or.inl h
          · exact Or.inr ⟨p, pe, hp, hpe, h⟩
  · simp at h; exact Or.inl h

theorem main_mem (env : Env) (t a : Nat) {e : Entry} (hin : e.inSource sp.srcPrefix = true) :
    (⟨f e.key e.value, e.ival, t⟩ : KVT IVal) ∈ entryEvents sp env t a e := by
  simp only [Entry.inSource, Bool.and_eq_true, Bool.not_eq_true'] at hin
  unfold entryEvents
  simp only [hinj, hs, ht, mapKey, hin.1, hin.2]
  simp
  split
  · split
    · simp
    · split
      · simp
      · split <;> simp
  · simp

theorem tomb_mem {env : Env} {t a : Nat} {e : Entry} (hin : e.inSource sp.srcPrefix = true)
    (ha : 0 < a) {p : Nat} {pe : Entry} (hp : env.srcPrev a e.key = some p)
    (hpe : env.readEntry p e.key = some pe) (hne : f e.key e.value ≠ f e.key pe.value) :
    (⟨f e.key pe.value, { vlen := pe.value.length, hval := pe.hval, md := tombMd pe.md }, t⟩ : KVT IVal)
      ∈ entryEvents sp env t a e := by
  simp only [Entry.inSource, Bool.and_eq_true, Bool.not_eq_true'] at hin
  unfold entryEvents
  simp only [hinj, hs, ht, mapKey, hin.1, hin.2, hp, hpe]
  simp [ha, hne]

end

theorem inv (sp : Spec) (f : Mapper) (txs : List Tx)
    (hinj : sp.injective = true) (hs : sp.smap = none) (ht : sp.tmap = some f)
    (hids : IdsAbove 0 txs)
    (hrow : ∀ r r' v v', f r v = f r' v' → r = r')
    (hkeys : ∀ tx ∈ txs, (tx.entries.map (fun e => e.key)).Nodup)
    :
    ∀ done rest, txs = done ++ rest → ∀ r v ev,
      lastEv (logEvents sp (envOfLog sp.srcPrefix txs) done) (f r v) = some ev → ev.v.md.deleted = false →
      ∃ ctx cur, (done.filter (hasRow sp.srcPrefix r)).getLast? = some ctx ∧
        ctx.entries.find? (fun e => e.key == r) = some cur ∧ f r v = f r cur.value := by
  intro done
  induction done using rev_ind with
  | nil => intro rest _ r v ev h; simp [logEvents, lastEv] at h
  | snoc done tx ih =>
    intro rest htxs r v ev hlast hdel
    have htxs' : txs = done ++ tx :: rest := by simp [htxs]
    have IH := ih (tx :: rest) htxs'
    obtain ⟨hlo, hpw⟩ := (idsAbove_iff 0 txs).mp hids
    have htx_mem : tx ∈ txs := by simp [htxs']
    have hpw' := hpw
    rw [htxs'] at hpw'
    have hlt : ∀ x ∈ done, x.id < tx.id := by
      have := hpw'; rw [List.pairwise_append] at this
      exact fun x hx => this.2.2 x hx tx List.mem_cons_self
    rw [show logEvents sp (envOfLog sp.srcPrefix txs) (done ++ [tx])
          = logEvents sp (envOfLog sp.srcPrefix txs) done ++ txEvents sp (envOfLog sp.srcPrefix txs) tx by
        simp [logEvents], lastEv_append] at hlast
    cases hB : lastEv (txEvents sp (envOfLog sp.srcPrefix txs) tx) (f r v) with
    | some ev' =>
      rw [hB] at hlast
      simp at hlast
      subst hlast
      obtain ⟨hmem, hk⟩ := lastEv_some hB
      obtain ⟨e, he, hev⟩ := List.mem_flatMap.mp hmem
      obtain ⟨hin, hcase⟩ := mem_entryEvents hinj hs ht hev
      rcases hcase with rfl | ⟨p, pe, hp1, hp2, rfl⟩
      · have hk' : f e.key e.value = f r v := hk
        have hr : e.key = r := hrow _ _ _ _ hk'
        refine ⟨tx, e, ?_, ?_, ?_⟩
        · have : hasRow sp.srcPrefix r tx = true := (hasRow_iff _ _ _).mpr ⟨e, he, hin, hr⟩
          simp [List.filter_append, this]
        · rw [← hr]; exact find_key (hkeys tx htx_mem) he
        · rw [← hk', hr]
      · exfalso
        have hdel' : (tombMd pe.md).deleted = false := hdel
        simp [tombMd] at hdel'
    | none =>
      rw [hB] at hlast
      simp at hlast
      obtain ⟨ctx, cur, hctx, hcur, hfk⟩ := IH r v ev hlast hdel
      have hnone := lastEv_none hB
      by_cases hrowtx : hasRow sp.srcPrefix r tx = true
      · exfalso
        obtain ⟨e, he, hin, hr⟩ := (hasRow_iff _ _ _).mp hrowtx
        have hmain := hnone _ (List.mem_flatMap.mpr ⟨e, he, main_mem hinj hs ht (envOfLog sp.srcPrefix txs) tx.id (tx.id - 1) hin⟩)
        have hne : f e.key e.value ≠ f e.key cur.value := by
          intro h; apply hmain; show f e.key e.value = f r v; rw [h, hr, hfk]
        have hctx_mem : ctx ∈ done := (List.mem_filter.mp (List.mem_of_getLast? hctx)).1
        have hctx_txs : ctx ∈ txs := by rw [htxs']; exact List.mem_append_left _ hctx_mem
        have h1 : 0 < ctx.id := hlo ctx hctx_txs
        have h2 : ctx.id < tx.id := hlt ctx hctx_mem
        have hp : (envOfLog sp.srcPrefix txs).srcPrev (tx.id - 1) e.key = some ctx.id := by
          show prevTxOf sp.srcPrefix txs (tx.id - 1) e.key = some ctx.id
          rw [hr, htxs', prevTxOf_split _ _ _ _ _ hpw' (by omega), hctx]; rfl
        have hpe : (envOfLog sp.srcPrefix txs).readEntry ctx.id e.key = some cur := by
          show entryOf txs ctx.id e.key = some cur
          rw [entryOf_mem hpw hctx_txs, hr, hcur]
        have htomb := tomb_mem hinj hs ht (t := tx.id) hin (show 0 < tx.id - 1 by omega) hp hpe hne
        exact hnone _ (List.mem_flatMap.mpr ⟨e, he, htomb⟩) (by show f e.key cur.value = f r v; rw [hr, hfk])
      · refine ⟨ctx, cur, ?_, hcur, hfk⟩
        simp [List.filter_append, hrowtx, hctx]

theorem one_live_mapped_key_per_row (sp : Spec) (f : Mapper) (txs : List Tx)
    (hsp : sp.injective = true ∧ sp.smap = none ∧ sp.tmap = some f)
    (hids : IdsAbove 0 txs)
    (hrow : ∀ r r' v v', f r v = f r' v' → r = r')
    (hkeys : ∀ tx ∈ txs, (tx.entries.map (fun e => e.key)).Nodup)
    (r v1 v2 : Bytes)
    (h1 : Live (LogView sp (envOfLog sp.srcPrefix txs) txs (f r v1)))
    (h2 : Live (LogView sp (envOfLog sp.srcPrefix txs) txs (f r v2))) :
    f r v1 = f r v2 := by
  obtain ⟨hinj, hs, ht⟩ := hsp
  have I := inv sp f txs hinj hs ht hids hrow hkeys txs [] (by simp)
  obtain ⟨ev1, hl1, hd1⟩ := live_logView h1
  obtain ⟨ev2, hl2, hd2⟩ := live_logView h2
  obtain ⟨ctx1, cur1, hc1, he1, hf1⟩ := I r v1 ev1 hl1 hd1
  obtain ⟨ctx2, cur2, hc2, he2, hf2⟩ := I r v2 ev2 hl2 hd2
  rw [hc1] at hc2
  cases hc2
  rw [he1] at he2
  cases he2
  rw [hf1, hf2]

/-! ### `idx._kvs` is never overrun -/

theorem entryKVTs_length {sp : Spec} {env : Env} {start t : Nat} {e : Entry} {a : List (KVT IVal)}
    (h : entryKVTs sp env start t e = .ok a) : a.length ≤ 2 := by
  unfold entryKVTs at h
  dsimp only at h
  repeat' split at h
  all_goals (cases h; try simp)

theorem entriesKVTs_length {sp : Spec} {env : Env} {start t : Nat} :
    ∀ (es : List Entry) (a : List (KVT IVal)), entriesKVTs sp env start t es = .ok a → a.length ≤ 2 * es.length := by
  intro es
  induction es with
  | nil => intro a h; simp [entriesKVTs] at h; subst h; simp
  | cons e es ih =>
    intro a h
    unfold entriesKVTs at h
    cases h1 : entryKVTs sp env start t e with
    | error x => simp [h1] at h
    | ok a1 =>
      cases h2 : entriesKVTs sp env start t es with
      | error x => simp [h1, h2] at h
      | ok a2 =>
        simp [h1, h2] at h
        subst h
        have := entryKVTs_length h1
        have := ih a2 h2
        simp only [List.length_append, List.length_cons]
        omega

theorem txsKVTs_length {sp : Spec} {env : Env} {start : Nat} (E : Nat) :
    ∀ (txs : List Tx) (a : List (KVT IVal)), (∀ tx ∈ txs, tx.entries.length ≤ E) →
      txsKVTs sp env start txs = .ok a → a.length ≤ 2 * E * txs.length := by
  intro txs
  induction txs with
  | nil => intro a _ h; simp [txsKVTs] at h; subst h; simp
  | cons tx rest ih =>
    intro a hE h
    unfold txsKVTs at h
    cases h1 : entriesKVTs sp env start tx.id tx.entries with
    | error x => simp [h1] at h
    | ok a1 =>
      cases h2 : txsKVTs sp env start rest with
      | error x => simp [h1, h2] at h
      | ok a2 =>
        simp [h1, h2] at h
        subst h
        have l1 := entriesKVTs_length tx.entries a1 h1
        have l2 := ih a2 (fun x hx => hE x (List.mem_cons_of_mem _ hx)) h2
        have l3 := hE tx List.mem_cons_self
        simp only [List.length_append, List.length_cons, Nat.mul_add, Nat.mul_one]
        omega

theorem maxBulk_le (sp : Spec) (B : Nat) (hB : 1 ≤ B) : sp.maxBulk B ≤ B := by
  unfold Spec.maxBulk; split <;> omega

/-- with enough room in `_kvs` the bounded indexer is the unbounded one -/
theorem indexBulkCap_eq (cap : Nat) (sp : Spec) (env : Env) (tr : Tree IVal) (txs : List Tx)
    (h : ∀ kvts, txsKVTs sp env (match txs with | [] => 0 | tx0 :: _ => tx0.id) txs = .ok kvts → kvts.length ≤ cap) :
    indexBulkCap cap sp env tr txs = indexBulk sp env tr txs := by
  unfold indexBulkCap indexBulk
  cases txs with
  | nil => rfl
  | cons tx0 rest =>
    simp only
    cases hk : txsKVTs sp env tx0.id (tx0 :: rest) with
    | error x => rfl
    | ok kvts =>
      have := h kvts (by simpa using hk)
      simp [Nat.not_lt.mpr this]

theorem kvs_never_overflows (E B : Nat) (hB : 1 ≤ B) (sp : Spec) (env : Env) (tr : Tree IVal) (txs : List Tx)
    (hlen : txs.length ≤ sp.maxBulk B) (hent : ∀ tx ∈ txs, tx.entries.length ≤ E) :
    indexBulkCap (kvsLen E B) sp env tr txs = indexBulk sp env tr txs := by
  apply indexBulkCap_eq
  intro kvts hk
  have h1 := txsKVTs_length E txs kvts hent hk
  have h2 : txs.length ≤ B := Nat.le_trans hlen (maxBulk_le sp B hB)
  have h3 : 2 * E * txs.length ≤ 2 * E * B := Nat.mul_le_mul_left _ h2
  unfold kvsLen
  omega

/-! ### concrete histories (non-vacuity examples of Props/C04.lean) -/

/-- mapper of the examples: target prefix `9`, first value byte, row key -/
def fW : Mapper := fun k v => [9] ++ [v.headD 0] ++ k
def spW : Spec := { srcPrefix := [], tgtPrefix := [9], tmap := some fW, injective := true }
/-- a row updated by three consecutive transactions -/
def txsB : List Tx := [⟨1, [⟨[1], [10], [], {}⟩]⟩, ⟨2, [⟨[1], [20], [], {}⟩]⟩, ⟨3, [⟨[1], [30], [], {}⟩]⟩]
/-- a row whose first version carries an expiration, then updated -/
def txsE : List Tx := [⟨1, [⟨[1], [10], [], { expiresAt := some 1000 }⟩]⟩, ⟨2, [⟨[1], [20], [], {}⟩]⟩]
/-- two transactions that each update two rows: four KVTs for the second one -/
def txsK : List Tx :=
  [⟨1, [⟨[1], [10], [], {}⟩, ⟨[2], [10], [], {}⟩]⟩, ⟨2, [⟨[1], [20], [], {}⟩, ⟨[2], [20], [], {}⟩]⟩]

end ImmuModel.Index.L.InjectiveAux
