/-
C04 — helper lemmas and proofs: injective mappings (one live mapped key per row) and the concrete
witnesses of the defects of the code as it is.
-/
import ImmuModel.Index.Refines
namespace ImmuModel.Index.L.InjectiveAux
open ImmuModel ImmuModel.Index.L

/-! ### generic helpers -/

theorem rev_ind {α : Type} {P : List α → Prop} (nil : P [])
    (snoc : ∀ l a, P l → P (l ++ [a])) : ∀ l, P l := by
  intro l
  have h : ∀ m : List α, P m.reverse := by
    intro m
    induction m with
    | nil => simpa using nil
    | cons a m ih => rw [List.reverse_cons]; exact snoc _ _ ih
  simpa using h l.reverse

/-- does tx hold an indexable entry for row `r`? (the test of `prevTxOf`) -/
def hasRow (P r : Bytes) (tx : Tx) : Bool := tx.entries.any (fun e => e.inSource P && e.key == r)

theorem hasRow_iff (P r : Bytes) (tx : Tx) :
    hasRow P r tx = true ↔ ∃ e ∈ tx.entries, e.inSource P = true ∧ e.key = r := by
  simp [hasRow]

/-- last event with key `k` -/
def lastEv (evs : List (KVT IVal)) (k : Key) : Option (KVT IVal) :=
  (evs.filter (fun kv => kv.k = k)).getLast?

theorem lastEv_append (A B : List (KVT IVal)) (k : Key) :
    lastEv (A ++ B) k = (lastEv B k).or (lastEv A k) := by
  simp [lastEv, List.filter_append, List.getLast?_append]

theorem lastEv_some {evs : List (KVT IVal)} {k : Key} {ev : KVT IVal} (h : lastEv evs k = some ev) :
    ev ∈ evs ∧ ev.k = k := by
  have := List.mem_of_getLast? h
  simpa using this

theorem lastEv_none {evs : List (KVT IVal)} {k : Key} (h : lastEv evs k = none) :
    ∀ ev ∈ evs, ev.k ≠ k := by
  simpa [lastEv, List.getLast?_eq_none_iff, List.filter_eq_nil_iff] using h

theorem live_logView {sp : Spec} {env : Env} {txs : List Tx} {k : Key} (h : Live (LogView sp env txs k)) :
    ∃ ev, lastEv (logEvents sp env txs) k = some ev ∧ ev.v.md.deleted = false := by
  obtain ⟨t, v, older, hvs, hd⟩ := h
  have h1 : (LogView sp env txs k).head? = some (t, v) := by rw [hvs]; rfl
  unfold LogView at h1
  rw [List.head?_reverse, List.getLast?_map] at h1
  unfold lastEv
  cases hl : ((logEvents sp env txs).filter (fun kv => kv.k = k)).getLast? with
  | none => rw [hl] at h1; simp at h1
  | some ev =>
    rw [hl] at h1
    simp at h1
    exact ⟨ev, rfl, by rw [h1.2]; exact hd⟩

theorem idsAbove_iff (lo : Nat) (txs : List Tx) :
    IdsAbove lo txs ↔ (∀ x ∈ txs, lo < x.id) ∧ txs.Pairwise (fun a b => a.id < b.id) := by
  induction txs generalizing lo with
  | nil => simp [IdsAbove]
  | cons a l ih =>
    simp only [IdsAbove, ih, List.mem_cons, List.pairwise_cons, forall_eq_or_imp]
    constructor
    · rintro ⟨h1, h2, h3⟩; exact ⟨⟨h1, fun x hx => Nat.lt_trans h1 (h2 x hx)⟩, h2, h3⟩
    · rintro ⟨⟨h1, _⟩, h2, h3⟩; exact ⟨h1, h2, h3⟩

theorem find_id {txs : List Tx} (hp : txs.Pairwise (fun a b => a.id < b.id)) {tx : Tx} (h : tx ∈ txs) :
    txs.find? (fun x => x.id == tx.id) = some tx := by
  induction txs with
  | nil => simp at h
  | cons a l ih =>
    rw [List.pairwise_cons] at hp
    rcases List.mem_cons.mp h with rfl | h'
    · simp
    · have := hp.1 tx h'
      have hne : (a.id == tx.id) = false := by simp; omega
      rw [List.find?_cons, hne]; exact ih hp.2 h'

theorem find_key {es : List Entry} (hn : (es.map (fun e => e.key)).Nodup) {e : Entry} (h : e ∈ es) :
    es.find? (fun x => x.key == e.key) = some e := by
  induction es with
  | nil => simp at h
  | cons a l ih =>
    simp only [List.map_cons, List.nodup_cons] at hn
    rcases List.mem_cons.mp h with rfl | h'
    · simp
    · have hne : (a.key == e.key) = false := by
        simp only [beq_eq_false_iff_ne, ne_eq]
        intro heq; apply hn.1; rw [heq]; exact List.mem_map_of_mem h'
      rw [List.find?_cons, hne]; exact ih hn.2 h'

theorem entryOf_mem {txs : List Tx} (hp : txs.Pairwise (fun a b => a.id < b.id)) {tx : Tx} (h : tx ∈ txs)
    (k : Bytes) : entryOf txs tx.id k = tx.entries.find? (fun e => e.key == k) := by
  simp [entryOf, find_id hp h]

theorem prevTxOf_split (P r : Bytes) (done : List Tx) (tx : Tx) (rest : List Tx)
    (hp : (done ++ tx :: rest).Pairwise (fun a b => a.id < b.id)) (h0 : 0 < tx.id) :
    prevTxOf P (done ++ tx :: rest) (tx.id - 1) r
      = ((done.filter (hasRow P r)).getLast?).map (fun x => x.id) := by
  rw [List.pairwise_append] at hp
  obtain ⟨_, h2, h3⟩ := hp
  rw [List.pairwise_cons] at h2
  unfold prevTxOf
  rw [List.filter_append]
  have e1 : (tx :: rest).filter (fun tx' => decide (tx'.id ≤ tx.id - 1) &&
      tx'.entries.any (fun e => e.inSource P && e.key == r)) = [] := by
    rw [List.filter_eq_nil_iff]
    intro x hx
    have : tx.id ≤ x.id := by
      rcases List.mem_cons.mp hx with rfl | h
      · exact Nat.le_refl _
      · exact Nat.le_of_lt (h2.1 x h)
    have hd : decide (x.id ≤ tx.id - 1) = false := by simp; omega
    simp [hd]
  have e2 : done.filter (fun tx' => decide (tx'.id ≤ tx.id - 1) &&
      tx'.entries.any (fun e => e.inSource P && e.key == r)) = done.filter (hasRow P r) := by
    apply List.filter_congr
    intro x hx
    have := h3 x hx tx List.mem_cons_self
    have hd : decide (x.id ≤ tx.id - 1) = true := by simp; omega
    simp [hd, hasRow]
  rw [e1, e2, List.append_nil, List.getLast?_map]

/-! ### the events of one entry under an injective target mapper -/

section
variable {sp : Spec} {f : Mapper} (hinj : sp.injective = true) (hs : sp.smap = none) (ht : sp.tmap = some f)
include hinj hs ht

theorem mem_entryEvents {env : Env} {t a : Nat} {e : Entry} {ev : KVT IVal}
    (h : ev ∈ entryEvents sp env t a e) :
    e.inSource sp.srcPrefix = true ∧
    (ev = ⟨f e.key e.value, e.ival, t⟩ ∨
      ∃ p pe, env.srcPrev a e.key = some p ∧ env.readEntry p e.key = some pe ∧
        ev = ⟨f e.key pe.value, { vlen := pe.value.length, hval := pe.hval, md := sp.q.tomb pe.md }, t⟩) := by
  unfold entryEvents at h
  simp only [hinj, hs, ht, mapKey] at h
  split at h
  · simp at h
  split at h
  · simp at h
  rename_i h1 h2
  refine ⟨by simp [Entry.inSource] at h2 ⊢; simp [h1, h2], ?_⟩
  split at h
  · split at h
    · simp at h; exact Or.inl h
    · split at h
      · simp at h; exact Or.inl h
      · rename_i _ p hp _ pe hpe
        split at h
        · simp at h; exact Or.inl h
        · simp at h
          rcases h with h | h
          · exact Or.inl h
          · exact Or.inr ⟨p, pe, hp, hpe, h⟩
  · simp at h; exact Or.inl h

theorem main_mem (env : Env) (t a : Nat) {e : Entry} (hin : e.inSource sp.srcPrefix = true) :
    (⟨f e.key e.value, e.ival, t⟩ : KVT IVal) ∈ entryEvents sp env t a e := by
  simp only [Entry.inSource, Bool.and_eq_true, Bool.not_eq_true'] at hin
  unfold entryEvents
  simp only [hinj, hs, ht, mapKey, hin.1, hin.2]
  simp
  split
  · split
    · simp
    · split
      · simp
      · split <;> simp
  · simp

theorem tomb_mem {env : Env} {t a : Nat} {e : Entry} (hin : e.inSource sp.srcPrefix = true)
    (ha : 0 < a) {p : Nat} {pe : Entry} (hp : env.srcPrev a e.key = some p)
    (hpe : env.readEntry p e.key = some pe) (hne : f e.key e.value ≠ f e.key pe.value) :
    (⟨f e.key pe.value, { vlen := pe.value.length, hval := pe.hval, md := sp.q.tomb pe.md }, t⟩ : KVT IVal)
      ∈ entryEvents sp env t a e := by
  simp only [Entry.inSource, Bool.and_eq_true, Bool.not_eq_true'] at hin
  unfold entryEvents
  simp only [hinj, hs, ht, mapKey, hin.1, hin.2, hp, hpe]
  simp [ha, hne]

end

theorem tomb_deleted {P : Bytes} {txs : List Tx} (q : Quirks) (hpw : txs.Pairwise (fun a b => a.id < b.id))
    (hkeys : ∀ tx ∈ txs, (tx.entries.map (fun e => e.key)).Nodup)
    (hmd : q.tombKeepsPrevMd = true →
      ∀ tx ∈ txs, ∀ e ∈ tx.entries, e.inSource P = true → e.md.isEmpty = true ∨ e.md.deleted = true)
    {b : Nat} {r : Bytes} {p : Nat} {pe : Entry}
    (h1 : prevTxOf P txs b r = some p) (h2 : entryOf txs p r = some pe) :
    (q.tomb pe.md).deleted = true := by
  unfold Quirks.tomb
  by_cases hq : q.tombKeepsPrevMd = true
  case neg => simp [hq, tombMdIntended]
  simp only [hq, if_true]
  have hmd := hmd hq
  unfold prevTxOf at h1
  have hm := List.mem_of_getLast? h1
  rw [List.mem_map] at hm
  obtain ⟨tx', hf, rfl⟩ := hm
  rw [List.mem_filter] at hf
  obtain ⟨hmem, hc⟩ := hf
  simp only [Bool.and_eq_true] at hc
  have hr : hasRow P r tx' = true := hc.2
  obtain ⟨e0, he0, hin, hk⟩ := (hasRow_iff P r tx').mp hr
  rw [entryOf_mem hpw hmem, ← hk, find_key (hkeys tx' hmem) he0] at h2
  cases h2
  unfold tombMd
  split
  · rfl
  · rcases hmd tx' hmem pe he0 hin with h | h
    · contradiction
    · exact h

theorem inv (sp : Spec) (f : Mapper) (txs : List Tx)
    (hinj : sp.injective = true) (hs : sp.smap = none) (ht : sp.tmap = some f)
    (hids : IdsAbove 0 txs)
    (hrow : ∀ r r' v v', f r v = f r' v' → r = r')
    (hkeys : ∀ tx ∈ txs, (tx.entries.map (fun e => e.key)).Nodup)
    (hmd : sp.q.tombKeepsPrevMd = true →
      ∀ tx ∈ txs, ∀ e ∈ tx.entries, e.inSource sp.srcPrefix = true → e.md.isEmpty = true ∨ e.md.deleted = true) :
    ∀ done rest, txs = done ++ rest → ∀ r v ev,
      lastEv (logEvents sp (envOfLog sp.srcPrefix txs) done) (f r v) = some ev → ev.v.md.deleted = false →
      ∃ ctx cur, (done.filter (hasRow sp.srcPrefix r)).getLast? = some ctx ∧
        ctx.entries.find? (fun e => e.key == r) = some cur ∧ f r v = f r cur.value := by
  intro done
  induction done using rev_ind with
  | nil => intro rest _ r v ev h; simp [logEvents, lastEv] at h
  | snoc done tx ih =>
    intro rest htxs r v ev hlast hdel
    have htxs' : txs = done ++ tx :: rest := by simp [htxs]
    have IH := ih (tx :: rest) htxs'
    obtain ⟨hlo, hpw⟩ := (idsAbove_iff 0 txs).mp hids
    have htx_mem : tx ∈ txs := by simp [htxs']
    have hpw' := hpw
    rw [htxs'] at hpw'
    have hlt : ∀ x ∈ done, x.id < tx.id := by
      have := hpw'; rw [List.pairwise_append] at this
      exact fun x hx => this.2.2 x hx tx List.mem_cons_self
    rw [show logEvents sp (envOfLog sp.srcPrefix txs) (done ++ [tx])
          = logEvents sp (envOfLog sp.srcPrefix txs) done ++ txEvents sp (envOfLog sp.srcPrefix txs) tx by
        simp [logEvents], lastEv_append] at hlast
    cases hB : lastEv (txEvents sp (envOfLog sp.srcPrefix txs) tx) (f r v) with
    | some ev' =>
      rw [hB] at hlast
      simp at hlast
      subst hlast
      obtain ⟨hmem, hk⟩ := lastEv_some hB
      obtain ⟨e, he, hev⟩ := List.mem_flatMap.mp hmem
      obtain ⟨hin, hcase⟩ := mem_entryEvents hinj hs ht hev
      rcases hcase with rfl | ⟨p, pe, hp1, hp2, rfl⟩
      · have hk' : f e.key e.value = f r v := hk
        have hr : e.key = r := hrow _ _ _ _ hk'
        refine ⟨tx, e, ?_, ?_, ?_⟩
        · have : hasRow sp.srcPrefix r tx = true := (hasRow_iff _ _ _).mpr ⟨e, he, hin, hr⟩
          simp [List.filter_append, this]
        · rw [← hr]; exact find_key (hkeys tx htx_mem) he
        · rw [← hk', hr]
      · exfalso
        have hd := tomb_deleted sp.q hpw hkeys hmd hp1 hp2
        have hdel' : (sp.q.tomb pe.md).deleted = false := hdel
        rw [hd] at hdel'
        cases hdel'
    | none =>
      rw [hB] at hlast
      simp at hlast
      obtain ⟨ctx, cur, hctx, hcur, hfk⟩ := IH r v ev hlast hdel
      have hnone := lastEv_none hB
      by_cases hrowtx : hasRow sp.srcPrefix r tx = true
      · exfalso
        obtain ⟨e, he, hin, hr⟩ := (hasRow_iff _ _ _).mp hrowtx
        have hmain := hnone _ (List.mem_flatMap.mpr ⟨e, he, main_mem hinj hs ht (envOfLog sp.srcPrefix txs) tx.id (tx.id - 1) hin⟩)
        have hne : f e.key e.value ≠ f e.key cur.value := by
          intro h; apply hmain; show f e.key e.value = f r v; rw [h, hr, hfk]
        have hctx_mem : ctx ∈ done := (List.mem_filter.mp (List.mem_of_getLast? hctx)).1
        have hctx_txs : ctx ∈ txs := by rw [htxs']; exact List.mem_append_left _ hctx_mem
        have h1 : 0 < ctx.id := hlo ctx hctx_txs
        have h2 : ctx.id < tx.id := hlt ctx hctx_mem
        have hp : (envOfLog sp.srcPrefix txs).srcPrev (tx.id - 1) e.key = some ctx.id := by
          show prevTxOf sp.srcPrefix txs (tx.id - 1) e.key = some ctx.id
          rw [hr, htxs', prevTxOf_split _ _ _ _ _ hpw' (by omega), hctx]; rfl
        have hpe : (envOfLog sp.srcPrefix txs).readEntry ctx.id e.key = some cur := by
          show entryOf txs ctx.id e.key = some cur
          rw [entryOf_mem hpw hctx_txs, hr, hcur]
        have htomb := tomb_mem hinj hs ht (t := tx.id) hin (show 0 < tx.id - 1 by omega) hp hpe hne
        exact hnone _ (List.mem_flatMap.mpr ⟨e, he, htomb⟩) (by show f e.key cur.value = f r v; rw [hr, hfk])
      · refine ⟨ctx, cur, ?_, hcur, hfk⟩
        simp [List.filter_append, hrowtx, hctx]

theorem one_live_mapped_key_per_row (sp : Spec) (f : Mapper) (txs : List Tx)
    (hsp : sp.injective = true ∧ sp.smap = none ∧ sp.tmap = some f)
    (hids : IdsAbove 0 txs)
    (hrow : ∀ r r' v v', f r v = f r' v' → r = r')
    (hkeys : ∀ tx ∈ txs, (tx.entries.map (fun e => e.key)).Nodup)
    (hmd : sp.q.tombKeepsPrevMd = true →
      ∀ tx ∈ txs, ∀ e ∈ tx.entries, e.inSource sp.srcPrefix = true → e.md.isEmpty = true ∨ e.md.deleted = true)
    (r v1 v2 : Bytes)
    (h1 : Live (LogView sp (envOfLog sp.srcPrefix txs) txs (f r v1)))
    (h2 : Live (LogView sp (envOfLog sp.srcPrefix txs) txs (f r v2))) :
    f r v1 = f r v2 := by
  obtain ⟨hinj, hs, ht⟩ := hsp
  have I := inv sp f txs hinj hs ht hids hrow hkeys hmd txs [] (by simp)
  obtain ⟨ev1, hl1, hd1⟩ := live_logView h1
  obtain ⟨ev2, hl2, hd2⟩ := live_logView h2
  obtain ⟨ctx1, cur1, hc1, he1, hf1⟩ := I r v1 ev1 hl1 hd1
  obtain ⟨ctx2, cur2, hc2, he2, hf2⟩ := I r v2 ev2 hl2 hd2
  rw [hc1] at hc2
  cases hc2
  rw [he1] at he2
  cases he2
  rw [hf1, hf2]

/-! ### concrete witnesses -/

/-- mapper of the witnesses: target prefix `9`, first value byte, row key -/
def fW : Mapper := fun k v => [9] ++ [v.headD 0] ++ k
def spW : Spec := { srcPrefix := [], tgtPrefix := [9], tmap := some fW, injective := true }
def envA : Env := ⟨fun _ _ => none, fun _ _ => none⟩
def txsA : List Tx := [⟨1, [⟨[1], [10], [], {}⟩]⟩, ⟨2, [⟨[2], [20], [], {}⟩]⟩]
def txsB : List Tx := [⟨1, [⟨[1], [10], [], {}⟩]⟩, ⟨2, [⟨[1], [20], [], {}⟩]⟩, ⟨3, [⟨[1], [30], [], {}⟩]⟩]
def txsE : List Tx := [⟨1, [⟨[1], [10], [], { expiresAt := some 1000 }⟩]⟩, ⟨2, [⟨[1], [20], [], {}⟩]⟩]

theorem index_refines_log_fails_with_aliasing :
    ∃ (sp : Spec) (env : Env) (txs : List Tx) (k : Key),
      IdsAbove 0 txs ∧ (∀ tx ∈ txs, TxOk sp env tx) ∧ sp.injective = false ∧
      (∃ st, runBulksAliased sp env ({}, []) [txs] = .ok st ∧ versions st.1.m k ≠ LogView sp env txs k ∧
        storeGet st.1.m 0 k = .error .notFound ∧ LogView sp env txs k ≠ []) ∧
      (∃ st, runBulksAliased sp env ({}, []) (txs.map fun tx => [tx]) = .ok st ∧
        ∀ k', versions st.1.m k' = LogView sp env txs k') := by
  refine ⟨{}, envA, txsA, [1], ?_, ?_, rfl, ?_, ?_⟩
  · simp [IdsAbove, txsA]
  · intro tx htx
    simp [txsA] at htx
    rcases htx with rfl | rfl
    · refine ⟨?_, ?_, ?_⟩
      · simp [txEvents, entryEvents, hasPrefix, mapKey]
      · simp [txEvents, entryEvents, hasPrefix, mapKey]
      · simp
    · refine ⟨?_, ?_, ?_⟩
      · simp [txEvents, entryEvents, hasPrefix, mapKey]
      · simp [txEvents, entryEvents, hasPrefix, mapKey]
      · simp
  · -- one bulk: the value of tx 1 is filed under key [2]
    refine ⟨(⟨[([2], [(2, ⟨1, [], {}⟩), (1, ⟨1, [], {}⟩)])], 2⟩, [[2]]), rfl, ?_, rfl, ?_⟩
    · decide
    · decide
  · -- singleton bulks: correct
    refine ⟨(⟨[([1], [(1, ⟨1, [], {}⟩)]), ([2], [(2, ⟨1, [], {}⟩)])], 2⟩, [[2]]), rfl, ?_⟩
    intro k'
    simp [versions, LogView, logEvents, txsA, txEvents, entryEvents, hasPrefix, mapKey, Entry.ival]
    by_cases h1 : [1] = k'
    · subst h1; simp
    · by_cases h2 : [2] = k'
      · subst h2; simp
      · simp [h1, h2, List.filter]

theorem stale_mapped_key_in_bulk :
    ∃ (sp : Spec) (f : Mapper) (txs : List Tx) (r v1 v2 : Bytes) (tr : Tree IVal),
      sp.q.lookupAtBulkStart = true ∧
      sp.injective = true ∧ sp.tmap = some f ∧ IdsAbove 0 txs ∧
      runBulks sp (envOfLog sp.srcPrefix txs) {} [txs] = .ok tr ∧
      Live (versions tr.m (f r v1)) ∧ Live (versions tr.m (f r v2)) ∧ f r v1 ≠ f r v2 := by
  refine ⟨spW, fW, txsB, [1], [10], [30],
    ⟨[([9,10,1], [(1, ⟨1, [], {}⟩)]), ([9,20,1], [(2, ⟨1, [], {}⟩)]), ([9,30,1], [(3, ⟨1, [], {}⟩)])], 3⟩,
    rfl, rfl, rfl, ?_, ?_, ?_, ?_, ?_⟩
  · simp [IdsAbove, txsB]
  · rfl
  · exact ⟨1, ⟨1, [], {}⟩, [], rfl, rfl⟩
  · exact ⟨3, ⟨1, [], {}⟩, [], rfl, rfl⟩
  · decide

theorem stale_mapped_key_expirable_prev :
    ∃ (sp : Spec) (f : Mapper) (txs : List Tx) (r v1 v2 : Bytes) (tr : Tree IVal),
      sp.q.tombKeepsPrevMd = true ∧
      sp.injective = true ∧ sp.tmap = some f ∧ IdsAbove 0 txs ∧
      runBulks sp (envOfLog sp.srcPrefix txs) {} (txs.map fun tx => [tx]) = .ok tr ∧
      Live (versions tr.m (f r v1)) ∧ Live (versions tr.m (f r v2)) ∧ f r v1 ≠ f r v2 := by
  refine ⟨spW, fW, txsE, [1], [10], [20],
    ⟨[([9,10,1], [(2, ⟨1, [], { expiresAt := some 1000 }⟩), (1, ⟨1, [], { expiresAt := some 1000 }⟩)]),
      ([9,20,1], [(2, ⟨1, [], {}⟩)])], 2⟩, rfl, rfl, rfl, ?_, ?_, ?_, ?_, ?_⟩
  · simp [IdsAbove, txsE]
  · rfl
  · exact ⟨2, ⟨1, [], { expiresAt := some 1000 }⟩, _, rfl, rfl⟩
  · exact ⟨2, ⟨1, [], {}⟩, [], rfl, rfl⟩
  · decide

theorem snapshot_history_wrong_revisions :
    ∃ (vs : Vers IVal) (refs : List Ref) (good : List Ref) (hc : Nat),
      vs.snapHistory 1 false 2 = .ok (refs, hc) ∧ vs.storeHistory 1 false 2 = .ok (good, hc) ∧
      refs.map (fun r => r.hc) = [3, 2] ∧ good.map (fun r => r.hc) = [2, 3] :=
  ⟨[(3, ⟨0, [], {}⟩), (2, ⟨0, [], {}⟩), (1, ⟨0, [], {}⟩)],
   [⟨2, 3, ⟨0, [], {}⟩⟩, ⟨3, 2, ⟨0, [], {}⟩⟩], [⟨2, 2, ⟨0, [], {}⟩⟩, ⟨3, 3, ⟨0, [], {}⟩⟩], 3, rfl, rfl, rfl, rfl⟩

def txsK : List Tx :=
  [⟨1, [⟨[1], [10], [], {}⟩, ⟨[2], [10], [], {}⟩]⟩, ⟨2, [⟨[1], [20], [], {}⟩, ⟨[2], [20], [], {}⟩]⟩]

/-- `MaxTxEntries = 2`, `MaxBulkSize = 1` (so `len(_kvs) = 2`): a transaction that updates two rows of an
injective index needs four KVTs (two new keys, two tombstones) — the indexer panics. -/
theorem kvs_overflow_panics :
    ∃ (sp : Spec) (txs : List Tx) (tx : Tx) (tr : Tree IVal),
      sp.injective = true ∧ IdsAbove 0 txs ∧ tx ∈ txs ∧ tx.entries.length = 2 ∧
      indexBulkCap (2 * 1) sp (envOfLog sp.srcPrefix txs) tr [tx] = .error .panic := by
  refine ⟨spW, txsK, ⟨2, [⟨[1], [20], [], {}⟩, ⟨[2], [20], [], {}⟩]⟩, {}, rfl, ?_, ?_, rfl, ?_⟩
  · simp [IdsAbove, txsK]
  · simp [txsK]
  · rfl

/-- with enough room in `_kvs` the bounded indexer is the unbounded one -/
theorem indexBulkCap_eq (cap : Nat) (sp : Spec) (env : Env) (tr : Tree IVal) (txs : List Tx)
    (h : ∀ kvts, txsKVTs sp env (match txs with | [] => 0 | tx0 :: _ => tx0.id) txs = .ok kvts → kvts.length ≤ cap) :
    indexBulkCap cap sp env tr txs = indexBulk sp env tr txs := by
  unfold indexBulkCap indexBulk
  cases txs with
  | nil => rfl
  | cons tx0 rest =>
    simp only
    cases hk : txsKVTs sp env tx0.id (tx0 :: rest) with
    | error x => rfl
    | ok kvts =>
      have := h kvts (by simpa using hk)
      simp [Nat.not_lt.mpr this]

end ImmuModel.Index.L.InjectiveAux
