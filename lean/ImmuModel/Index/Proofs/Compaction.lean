/-
C04 — proofs about the compaction restart (`Index/Compaction.lean`): restarting the index from the dump of a
snapshot root preserves `index = comprehension of the log` exactly when the ts the dump claims does not exceed
what the dump covers.
-/
import ImmuModel.Index.Refines
import ImmuModel.Index.Compaction
import ImmuModel.Index.Proofs.Refine
namespace ImmuModel.Index.L.CompactionAux
open ImmuModel ImmuModel.Index.L ImmuModel.Index.L.RefineAux

theorem reopenDump_of_le (dump : Tree IVal) (c : Nat) (h : c ≤ dump.ts) : reopenDump dump c = dump := by
  unfold reopenDump
  have : ¬ dump.ts < c := by omega
  simp [this]

theorem reopenDump_of_lt (dump : Tree IVal) (c : Nat) (h : dump.ts < c) :
    reopenDump dump c = { dump with ts := c } := by
  unfold reopenDump
  simp [h]

theorem compactRestart_eq (dump : Tree IVal) (liveTs : Nat) : compactRestart dump liveTs = dump := by
  unfold compactRestart dumpTsFile
  exact reopenDump_of_le dump dump.ts (Nat.le_refl _)

theorem reopenDump_ts (dump : Tree IVal) (c : Nat) : (reopenDump dump c).ts = max dump.ts c := by
  unfold reopenDump
  by_cases h : dump.ts < c
  · simp [h]; omega
  · simp [h]; omega

/-- ids of `pre` are `≤ lastId pre`, ids of `rest` are above it -/
theorem split_ids (pre rest : List Tx) (hids : IdsAbove 0 (pre ++ rest)) :
    (∀ tx ∈ pre, tx.id ≤ lastId pre) ∧ (∀ tx ∈ rest, lastId pre < tx.id) := by
  rw [idsAbove_iff] at hids
  obtain ⟨hpos, hpw⟩ := hids
  rw [List.pairwise_append] at hpw
  obtain ⟨hp, _, hcross⟩ := hpw
  refine ⟨le_lastId pre hp, ?_⟩
  intro y hy
  by_cases hd : pre = []
  · subst hd
    exact hpos y (by simp [hy])
  · obtain ⟨x, hx, he⟩ := lastId_mem pre hd
    rw [he]
    exact hcross x hx y hy

/-- the resumed indexer of a tree at `ts = lastId pre` reads exactly `rest` -/
theorem pending_at_split (pre rest : List Tx) (hids : IdsAbove 0 (pre ++ rest)) :
    pending (lastId pre) (pre ++ rest) = rest := by
  obtain ⟨h1, h2⟩ := split_ids pre rest hids
  unfold pending
  rw [List.filter_append]
  have e1 : pre.filter (fun tx => decide (lastId pre < tx.id)) = [] := by
    rw [List.filter_eq_nil_iff]
    intro tx htx
    have := h1 tx htx
    simp
    omega
  have e2 : rest.filter (fun tx => decide (lastId pre < tx.id)) = rest := by
    rw [List.filter_eq_self]
    intro tx htx
    simpa using h2 tx htx
  rw [e1, e2]
  rfl

/-- a tree whose ts is `c > lastId pre` reads only the transactions above `c` -/
theorem pending_above_split (pre rest : List Tx) (c : Nat) (hids : IdsAbove 0 (pre ++ rest))
    (hc : lastId pre ≤ c) :
    pending c (pre ++ rest) = rest.filter (fun tx => decide (c < tx.id)) := by
  obtain ⟨h1, _⟩ := split_ids pre rest hids
  unfold pending
  rw [List.filter_append]
  have e1 : pre.filter (fun tx => decide (c < tx.id)) = [] := by
    rw [List.filter_eq_nil_iff]
    intro tx htx
    have := h1 tx htx
    simp
    omega
  rw [e1]
  rfl

/-- `indexBulk_step` with the weaker premise the restart needs: the tree's ts is below every transaction of
the bulk (it may exceed `lastId done`: a dump that claims more than it covers) -/
theorem indexBulk_step' (sp : Spec) (env : Env) (tr : Tree IVal) (done b : List Tx)
    (href : Refines tr sp env done) (hts : ∀ y ∈ b, tr.ts < y.id) (hb : b ≠ [])
    (hids : IdsAbove 0 (done ++ b)) (hok : ∀ tx ∈ b, TxOk sp env tx)
    (hpart : sp.injective = false ∨ b.length = 1) :
    ∃ tr1, indexBulk sp env tr b = .ok tr1 ∧ Refines tr1 sp env (done ++ b) ∧
      tr1.ts ≤ lastId (done ++ b) := by
  rw [indexBulk_eq sp env tr b hb hok hpart, lastId_append done b hb]
  rw [idsAbove_iff] at hids
  obtain ⟨_, hpw⟩ := hids
  rw [List.pairwise_append] at hpw
  obtain ⟨_, hpb, hcross⟩ := hpw
  obtain ⟨l, hl, hle⟩ := lastId_mem b hb
  have hEt : ∀ e ∈ logEvents sp env b, tr.ts < e.t ∧ e.t ≤ lastId b ∧ e.k ≠ [] := by
    intro e he
    obtain ⟨tx, htx, hin, ht⟩ := logEvents_mem sp env b e he
    refine ⟨?_, ?_, ((hok tx htx).1 e hin).1⟩
    · rw [ht]; exact hts tx htx
    · rw [ht]; exact le_lastId b hpb tx htx
  unfold applyKVTs
  by_cases hE : (logEvents sp env b).isEmpty = true
  · have hlt : ¬ lastId b ≤ tr.ts := by
      have := hts l hl
      omega
    have hnil : logEvents sp env b = [] := by simpa using hE
    refine ⟨{ tr with ts := lastId b }, by simp [hE, increaseTs, hlt], ?_, Nat.le_refl _⟩
    refine ⟨href.sorted, ?_, href.keys⟩
    intro k
    rw [logView_append, hnil]
    simpa using href.view k
  · have hany : (logEvents sp env b).any (fun kv => kv.k.isEmpty || decide (kv.t ≤ tr.ts)) = false := by
      rw [List.any_eq_false]
      intro e he
      obtain ⟨h1, _, h3⟩ := hEt e he
      have : ¬ e.t ≤ tr.ts := by omega
      simp [h3, this]
    have hlt : ∀ e ∈ logEvents sp env b, ∀ p ∈ versions tr.m e.k, p.1 < e.t := by
      intro e he p hp
      rw [href.view] at hp
      obtain ⟨x, hx, hpx⟩ := logView_mem sp env done e.k p hp
      obtain ⟨tx, htx, _, ht⟩ := logEvents_mem sp env b e he
      rw [hpx, ht]; exact hcross x hx tx htx
    obtain ⟨m', hm', hs', hn', hv'⟩ := insertAll_spec (logEvents sp env b) tr.m href.sorted href.keys
      (logEvents_pairwise sp env b hpb hok) hlt
    refine ⟨{ m := m', ts := maxT (logEvents sp env b) }, by simp [hE, bulkInsert, hany, hm'], ?_, ?_⟩
    · refine ⟨hs', ?_, hn'⟩
      intro k
      rw [logView_append, ← href.view k]
      exact hv' k
    · exact maxT_le _ _ (fun e he => (hEt e he).2.1)

/-- the indexer loop from a tree whose ts is below every transaction still to be read (but possibly above
`lastId done`): it never fails and the result holds `done ++` what was read -/
theorem runBulks_refines' (sp : Spec) (env : Env) (bulks : List (List Tx)) (tr : Tree IVal) (done : List Tx)
    (href : Refines tr sp env done) (hts : ∀ y ∈ bulks.flatten, tr.ts < y.id)
    (hne : ∀ b ∈ bulks, b ≠ [])
    (hids : IdsAbove 0 (done ++ bulks.flatten))
    (hok : ∀ tx ∈ bulks.flatten, TxOk sp env tx)
    (hpart : sp.injective = false ∨ ∀ b ∈ bulks, b.length = 1) :
    ∃ tr', runBulks sp env tr bulks = .ok tr' ∧ Refines tr' sp env (done ++ bulks.flatten) := by
  cases bulks with
  | nil => exact ⟨tr, rfl, by simpa using href⟩
  | cons b bs =>
    rw [List.flatten_cons, ← List.append_assoc] at hids
    have hids1 : IdsAbove 0 (done ++ b) := by
      rw [idsAbove_iff] at hids ⊢
      exact ⟨fun tx htx => hids.1 tx (List.mem_append_left _ htx), (List.pairwise_append.mp hids.2).1⟩
    obtain ⟨tr1, h1, href1, hts1⟩ := indexBulk_step' sp env tr done b href
      (fun y hy => hts y (by simp [hy])) (hne b List.mem_cons_self) hids1
      (fun tx htx => hok tx (by simp [htx]))
      (hpart.imp id (fun h => h b List.mem_cons_self))
    obtain ⟨tr', h2, href2, _⟩ := runBulks_refines sp env bs tr1 (done ++ b) href1 hts1
      (fun x hx => hne x (List.mem_cons_of_mem _ hx)) hids
      (fun tx htx => hok tx (by simp at htx ⊢; exact Or.inr htx))
      (hpart.imp id (fun h x hx => h x (List.mem_cons_of_mem _ hx)))
    refine ⟨tr', by simp [runBulks, h1, h2], ?_⟩
    rw [List.flatten_cons, ← List.append_assoc]; exact href2

/-- **The restart preserves the refinement when the dump does not claim more than it covers.** -/
theorem restart_refines (sp : Spec) (env : Env) (B : Nat) (pre rest : List Tx) (dump : Tree IVal) (c : Nat)
    (bulks : List (List Tx))
    (href : Refines dump sp env pre) (hts : dump.ts = lastId pre) (hc : c ≤ dump.ts)
    (hids : IdsAbove 0 (pre ++ rest)) (hok : ∀ tx ∈ rest, TxOk sp env tx)
    (hb : BulksOf sp B bulks)
    (hflat : bulks.flatten = pending (reopenDump dump c).ts (pre ++ rest)) :
    ∃ tr, runBulks sp env (reopenDump dump c) bulks = .ok tr ∧ Refines tr sp env (pre ++ rest) ∧
      tr.ts ≤ lastId (pre ++ rest) := by
  rw [reopenDump_of_le dump c hc] at hflat ⊢
  rw [hts, pending_at_split pre rest hids] at hflat
  have := runBulks_refines sp env bulks dump pre href (Nat.le_of_eq hts) (fun b h => (hb b h).1)
    (by rw [hflat]; exact hids) (by rw [hflat]; exact hok) (hpart_of_bulks hb)
  rw [hflat] at this
  exact this

/-- sub-log `pre ++ rest.filter p` keeps increasing ids -/
theorem idsAbove_filter (pre rest : List Tx) (p : Tx → Bool) (hids : IdsAbove 0 (pre ++ rest)) :
    IdsAbove 0 (pre ++ rest.filter p) := by
  rw [idsAbove_iff] at hids ⊢
  obtain ⟨hpos, hpw⟩ := hids
  refine ⟨?_, ?_⟩
  · intro tx htx
    rcases List.mem_append.mp htx with h | h
    · exact hpos tx (List.mem_append_left _ h)
    · exact hpos tx (List.mem_append_right _ (List.mem_filter.mp h).1)
  · exact hpw.sublist (List.Sublist.append (List.Sublist.refl pre) List.filter_sublist)

/-- **A dump that claims more than it covers loses every transaction in between, for good.**  The restarted
tree holds exactly the log WITHOUT the transactions `lastId pre < id ≤ c`; when one of them has an indexable
entry for this index, the tree does not hold the log, whatever the indexer does afterwards. -/
theorem restart_overclaim (sp : Spec) (env : Env) (B : Nat) (pre rest : List Tx) (dump : Tree IVal) (c : Nat)
    (bulks : List (List Tx))
    (href : Refines dump sp env pre) (hts : dump.ts = lastId pre) (hc : dump.ts < c)
    (hids : IdsAbove 0 (pre ++ rest)) (hok : ∀ tx ∈ rest, TxOk sp env tx)
    (hb : BulksOf sp B bulks)
    (hflat : bulks.flatten = pending (reopenDump dump c).ts (pre ++ rest)) :
    ∃ tr, runBulks sp env (reopenDump dump c) bulks = .ok tr ∧
      Refines tr sp env (pre ++ rest.filter (fun tx => decide (c < tx.id))) ∧
      ((∃ tx ∈ rest, tx.id ≤ c ∧ txEvents sp env tx ≠ []) → ¬ Refines tr sp env (pre ++ rest)) := by
  have hts' : (reopenDump dump c).ts = c := by rw [reopenDump_ts]; omega
  rw [hts', pending_above_split pre rest c hids (by omega)] at hflat
  have href' : Refines (reopenDump dump c) sp env pre := by
    rw [reopenDump_of_lt dump c hc]
    exact ⟨href.sorted, href.view, href.keys⟩
  obtain ⟨tr, hrun, hr⟩ := runBulks_refines' sp env bulks (reopenDump dump c) pre href'
    (by
      intro y hy
      rw [hflat] at hy
      rw [hts']
      simpa using (List.mem_filter.mp hy).2)
    (fun b h => (hb b h).1)
    (by rw [hflat]; exact idsAbove_filter pre rest _ hids)
    (by
      intro tx htx
      rw [hflat] at htx
      exact hok tx (List.mem_filter.mp htx).1)
    (hpart_of_bulks hb)
  rw [hflat] at hr
  refine ⟨tr, hrun, hr, ?_⟩
  rintro ⟨tx, htx, hle, hev⟩ hfull
  obtain ⟨kv, hkv⟩ := List.exists_mem_of_ne_nil _ hev
  have hkt : kv.t = tx.id := txEvents_t sp env tx kv hkv
  obtain ⟨_, hgt⟩ := split_ids pre rest hids
  -- the lost version is in the view of the whole log …
  have hin : (kv.t, kv.v) ∈ LogView sp env (pre ++ rest) kv.k := by
    unfold LogView
    rw [List.mem_reverse, List.mem_map]
    refine ⟨kv, List.mem_filter.mpr ⟨?_, by simp⟩, rfl⟩
    exact List.mem_flatMap.mpr ⟨tx, List.mem_append_right _ htx, hkv⟩
  -- … but every version of the tree stems from a transaction of `pre` or one above `c`
  rw [← hfull.view kv.k, hr.view kv.k] at hin
  obtain ⟨tx', htx', hid⟩ := logView_mem sp env _ kv.k _ hin
  have hid' : tx'.id = tx.id := by rw [← hid]; exact hkt
  rcases List.mem_append.mp htx' with h | h
  · have h1 := (split_ids pre rest hids).1 tx' h
    have h2 := hgt tx htx
    omega
  · have h1 : c < tx'.id := by simpa using (List.mem_filter.mp h).2
    omega

end ImmuModel.Index.L.CompactionAux
