/-
C04/C10 — a minimal multi-version ordered map (the logical content of `embedded/tbtree`).

`MVMap V` : association list sorted strictly by key (`bytes.Compare`), every key carries its
versions NEWEST FIRST as `(ts, value)` pairs.  The functions mirror the observable behaviour of

  * `leafNode.updateOnInsert`   (`pushVer`: older ts = error, equal ts = ignored, newer = prepended)
  * `TBtree.bulkInsert`         (`bulkInsert`: validation `T <= currTs`, sequential insert, new ts = max T)
  * `leafNode.get`, `leafValue.lastUpdateBetween`, `leafValue.history`, `TBtree.GetWithPrefix`,
    the `Reader` (as a list of keys, `scanKeys`).

Node structure, caches, flushing and the history log are C10's subject; here the tree is the
abstract map.  Core Lean only.
-/
import ImmuModel.Base.Lex
namespace ImmuModel.Index.L

abbrev Key := Bytes
/-- versions of one key, newest first -/
abbrev Vers (V : Type) := List (Nat × V)
abbrev MVMap (V : Type) := List (Key × Vers V)

/-- read errors (tbtree sentinel errors) -/
inductive RdErr
  | notFound | illegal | noMoreEntries | offsetOutOfRange
deriving DecidableEq, Repr

variable {V : Type}

/-- `hasPrefix` of immustore.go -/
def hasPrefix (key pfx : Bytes) : Bool :=
  decide (pfx.length ≤ key.length) && (key.take pfx.length == pfx)

/-! ### writes -/

/-- `leafNode.updateOnInsert` on the version list of one key. -/
def pushVer (t : Nat) (v : V) : Vers V → Option (Vers V)
  | [] => some [(t, v)]
  | (t0, v0) :: vs =>
    if t < t0 then none                                  -- "attempt to insert a value without an older timestamp"
    else if t0 < t then some ((t, v) :: (t0, v0) :: vs)
    else some ((t0, v0) :: vs)                           -- equal ts: ignored

/-- insertion of one KVT into the sorted association list -/
def insert1 (k : Key) (t : Nat) (v : V) : MVMap V → Option (MVMap V)
  | [] => some [(k, [(t, v)])]
  | (k', vs) :: rest =>
    if lexLt k k' then some ((k, [(t, v)]) :: (k', vs) :: rest)
    else if lexLt k' k then (insert1 k t v rest).map (fun r => (k', vs) :: r)
    else (pushVer t v vs).map (fun vs' => (k', vs') :: rest)

structure KVT (V : Type) where
  k : Key
  v : V
  t : Nat

def insertAll : MVMap V → List (KVT V) → Option (MVMap V)
  | m, [] => some m
  | m, kv :: rest => (insert1 kv.k kv.t kv.v m).bind (fun m' => insertAll m' rest)

/-- tree = map + logical time of the root -/
structure Tree (V : Type) where
  m : MVMap V := []
  ts : Nat := 0

def maxT : List (KVT V) → Nat
  | [] => 0
  | kv :: rest => max kv.t (maxT rest)

/-- `TBtree.bulkInsert`: empty bulk, empty key, `T <= currTs` are `ErrIllegalArguments`; a failing leaf
insert fails the whole bulk (the tree keeps its previous content).  `T = 0` ("current time plus one")
is not used by the indexer and is treated as illegal here. -/
def bulkInsert (tr : Tree V) (kvts : List (KVT V)) : Option (Tree V) :=
  if kvts.isEmpty then none
  else if kvts.any (fun kv => kv.k.isEmpty || decide (kv.t ≤ tr.ts)) then none
  else (insertAll tr.m kvts).map (fun m => { m := m, ts := maxT kvts })

/-- `TBtree.IncreaseTs` (`setTs`: a smaller or equal ts is rejected) -/
def increaseTs (tr : Tree V) (ts : Nat) : Option (Tree V) :=
  if ts ≤ tr.ts then none else some { tr with ts := ts }

/-! ### reads -/

def versions : MVMap V → Key → Vers V
  | [], _ => []
  | (k', vs) :: rest, k => if k' = k then vs else versions rest k

/-- `leafNode.get` : value, ts, history count -/
def Vers.get : Vers V → Except RdErr (V × Nat × Nat)
  | [] => .error .notFound
  | (t, v) :: vs => .ok (v, t, vs.length + 1)

/-- `leafValue.lastUpdateBetween` (in-node and history-log parts behave alike: the newest version is
always in the node, so the `finalTs == 0` shortcut can only fire on it). -/
def Vers.lastUpdateBetween (init fin : Nat) : Vers V → Except RdErr (V × Nat × Nat)
  | [] => .error .notFound
  | (t, v) :: vs =>
    if t < init then .error .notFound
    else if fin = 0 ∨ t ≤ fin then .ok (v, t, vs.length + 1)
    else Vers.lastUpdateBetween init fin vs

def Vers.getBetween (init fin : Nat) (vs : Vers V) : Except RdErr (V × Nat × Nat) :=
  match vs with
  | [] => .error .notFound
  | _ => if fin < init then .error .illegal else Vers.lastUpdateBetween init fin vs

/-- `TBtree.History` + `leafValue.history`: the slice (in the requested order) and the total count. -/
def Vers.history (offset : Nat) (desc : Bool) (limit : Nat) (vs : Vers V) : Except RdErr (Vers V × Nat) :=
  if limit < 1 then .error .illegal
  else match vs with
  | [] => .error .notFound
  | _ =>
    let hCount := vs.length
    if offset = hCount then .error .noMoreEntries
    else if hCount < offset then .error .offsetOutOfRange
    else
      let n := min limit (hCount - offset)
      if desc then .ok ((vs.drop offset).take n, hCount)
      else .ok ((vs.reverse.drop offset).take n, hCount)

def get (m : MVMap V) (k : Key) := (versions m k).get
def getBetween (m : MVMap V) (k : Key) (init fin : Nat) := (versions m k).getBetween init fin
def history (m : MVMap V) (k : Key) (offset : Nat) (desc : Bool) (limit : Nat) := (versions m k).history offset desc limit

/-- `findLeafNode(prefix, neq, asc)` over the whole tree: first key `> neq` (if given) and `>= prefix`. -/
def seekAsc (pfx neq : Bytes) : MVMap V → Option (Key × Vers V)
  | [] => none
  | (k, vs) :: rest =>
    if (!neq.isEmpty && !lexLt neq k) then seekAsc pfx neq rest      -- bytes.Compare(key, neq) <= 0 : skip
    else if !lexLt k pfx then some (k, vs)                          -- bytes.Compare(prefix, key) < 1
    else seekAsc pfx neq rest

/-- `TBtree.GetWithPrefix` -/
def getWithPrefix (m : MVMap V) (pfx neq : Bytes) : Except RdErr (Key × V × Nat × Nat) :=
  match seekAsc pfx neq m with
  | none => .error .notFound
  | some (k, vs) =>
    if k.length < pfx.length then .error .notFound
    else if hasPrefix k pfx then
      match vs.get with
      | .ok (v, t, hc) => .ok (k, v, t, hc)
      | .error e => .error e
    else .error .notFound

/-- key range of a reader -/
structure Range where
  seek : Bytes := []
  endK : Bytes := []
  pfx : Bytes := []
  inclSeek : Bool := false
  inclEnd : Bool := false
  desc : Bool := false

/-- Does the reader visit key `k`?  (`NewReader` clamps seek/end to the prefix range; with the prefix
test below the clamping is not observable for keys of legal length.)  Ascending: `seek <(=) k <(=) end`;
descending: `end <(=) k <(=) seek`; an empty bound is no bound. -/
def Range.visits (r : Range) (k : Key) : Bool :=
  let lo := if r.desc then r.endK else r.seek
  let loIncl := if r.desc then r.inclEnd else r.inclSeek
  let hi := if r.desc then r.seek else r.endK
  let hiIncl := if r.desc then r.inclSeek else r.inclEnd
  (lo.isEmpty || lexLt lo k || (loIncl && lo == k)) &&
  (hi.isEmpty || lexLt k hi || (hiIncl && hi == k)) &&
  hasPrefix k r.pfx

/-- the keys (with their versions) a `Reader` yields, in its order -/
def scanKeys (m : MVMap V) (r : Range) : MVMap V :=
  let xs := m.filter (fun kv => r.visits kv.1)
  if r.desc then xs.reverse else xs

end ImmuModel.Index.L
