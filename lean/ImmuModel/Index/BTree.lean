/-
C10 IMPLEMENTATION MODEL — the copy-on-write B+tree of embedded/tbtree/tbtree.go as a functional
tree (a persistent value IS copy-on-write: the old root keeps describing the old tree).

Mirrors: `leafNode.updateOnInsert` + `leafNode.split`, `innerNode.updateOnInsert` (entries grouped
per child, children updated independently, results spliced in, `_ts` raised by the new children) +
`innerNode.split`, `splitIndex`, the serialized-size formulas `leafNode.size`/`innerNode.size`
compared with `maxNodeSize`, root growth in `TBtree.bulkInsert`, `get` (descent by `indexOf`).

Modelled rather than mirrored: the two binary searches (`innerNode.indexOf`, `leafNode.indexOf`) are
linear scans (`route`: first child whose right neighbour's `minKey` is greater than the key;
`insertEntries`: first entry with key ≥ the key) — equal on sorted separators/keys; children are
updated sequentially instead of in goroutines (they do not share state); nodeRef/cache/offsets are
not represented. A split that cannot make progress (a single entry larger than the node) is Go's
unbounded recursion: here `none`.
Core Lean only.
-/
import ImmuModel.Index.MVMap

namespace ImmuModel.Index
open ImmuModel MVMap

abbrev KVT := Bytes × Bytes × Nat

inductive Node
  | leaf (vals : List Entry) (ts : Nat)
  | inner (cs : List Node) (ts : Nat)
deriving Repr

namespace Node

def ts : Node → Nat
  | .leaf _ t => t
  | .inner _ t => t

mutual
/-- `minKey()`: first key of the leftmost leaf (`nil` for an empty node). -/
def minKey : Node → Bytes
  | .leaf [] _ => []
  | .leaf (e :: _) _ => e.key
  | .inner cs _ => minKeyList cs
def minKeyList : List Node → Bytes
  | [] => []
  | c :: _ => c.minKey
end

mutual
/-- Abstraction: the entries of all leaves, left to right. -/
def abs : Node → List Entry
  | .leaf vs _ => vs
  | .inner cs _ => absList cs
def absList : List Node → List Entry
  | [] => []
  | c :: cs => c.abs ++ absList cs
end

mutual
def depth : Node → Nat
  | .leaf _ _ => 1
  | .inner cs _ => depthList cs + 1
def depthList : List Node → Nat
  | [] => 0
  | c :: cs => max c.depth (depthList cs)
end

/-- `leafNode.size()`: 1 (type) + 2 (count) + per value 2+|key| + 2+|value| + 8 (ts) + 8 (hOff) + 8 (hCount). -/
def leafSize (vs : List Entry) : Nat :=
  3 + (vs.map (fun e => 28 + e.key.length + e.cur.value.length)).sum

/-- `innerNode.size()`: 1 + 2 + per child 2+|minKey| + 8 (ts) + 8 (offset) + 8 (min offset). -/
def innerSize (cs : List Node) : Nat :=
  3 + (cs.map (fun c => 26 + c.minKey.length)).sum

def splitIndex (sz : Nat) : Nat := if sz % 2 = 0 then sz / 2 else sz / 2 + 1

/-- `leafNode.updateTs()` -/
def valsTs (vs : List Entry) : Nat := vs.foldl (fun a e => max a e.cur.ts) 0

/-- `innerNode.updateTs()` -/
def nodesTs (cs : List Node) : Nat := cs.foldl (fun a c => max a c.ts) 0

/-- The recursion shared by `leafNode.split()` and `innerNode.split()`: a node that fits stays as it is
(with the ts it has); otherwise it is cut at `splitIndex`, both halves get a recomputed ts and are split
recursively. Result: the parts with their ts. `none` = no progress possible (Go: unbounded recursion). -/
def splitParts {α : Type} (size : List α → Nat) (tsOf : List α → Nat) (maxNodeSize : Nat) :
    Nat → List α → Nat → Option (List (List α × Nat))
  | fuel, xs, ts =>
    if size xs ≤ maxNodeSize then some [(xs, ts)]
    else match fuel with
      | 0 => none
      | fuel + 1 =>
        let i := splitIndex xs.length
        match splitParts size tsOf maxNodeSize fuel (xs.take i) (tsOf (xs.take i)),
              splitParts size tsOf maxNodeSize fuel (xs.drop i) (tsOf (xs.drop i)) with
        | some a, some b => some (a ++ b)
        | _, _ => none

/-- `leafNode.split()`. -/
def splitLeaf (maxNodeSize fuel : Nat) (vs : List Entry) (ts : Nat) : Option (List Node) :=
  (splitParts leafSize valsTs maxNodeSize fuel vs ts).map (fun ps => ps.map (fun p => Node.leaf p.1 p.2))

/-- `innerNode.split()`. -/
def splitInner (maxNodeSize fuel : Nat) (cs : List Node) (ts : Nat) : Option (List Node) :=
  (splitParts innerSize nodesTs maxNodeSize fuel cs ts).map (fun ps => ps.map (fun p => Node.inner p.1 p.2))

/-- The loop of `leafNode.updateOnInsert` over the entries of the bulk that reach this leaf. -/
def insertAll : List Entry → List KVT → Except Err (List Entry)
  | vs, [] => .ok vs
  | vs, (k, v, t) :: rest =>
    match insertEntries k v t vs with
    | .ok vs' => insertAll vs' rest
    | .error x => .error x

/-- Entries of the bulk that `indexOf` sends to the child whose right neighbour starts at `nextMin`. -/
def goHere (nextMin : Bytes) (kvts : List KVT) : List KVT := kvts.filter (fun kvt => bcmp nextMin kvt.1 == .gt)
def goLater (nextMin : Bytes) (kvts : List KVT) : List KVT := kvts.filter (fun kvt => bcmp nextMin kvt.1 != .gt)

mutual
/-- `node.insert(kvts)`: the nodes that replace this node. -/
def insert (maxNodeSize : Nat) : Node → List KVT → Except Err (List Node)
  | .leaf vs ts, kvts =>
    match insertAll vs kvts with
    | .error x => .error x
    | .ok vs' =>
      match splitLeaf maxNodeSize vs'.length vs' (kvts.foldl (fun a kvt => max a kvt.2.2) ts) with
      | some ns => .ok ns
      | none => .error .other
  | .inner cs ts, kvts =>
    match insertChildren maxNodeSize cs kvts with
    | .error x => .error x
    | .ok (cs', newTs) =>
      match splitInner maxNodeSize cs'.length cs' (max ts newTs) with
      | some ns => .ok ns
      | none => .error .other
/-- Children left to right; each receives the entries `indexOf` routes to it (decided on the
separators BEFORE the insert). Returns the new child list and the greatest ts among the nodes that
replaced updated children. -/
def insertChildren (maxNodeSize : Nat) : List Node → List KVT → Except Err (List Node × Nat)
  | [], _ => .ok ([], 0)
  | [c], kvts =>
    if kvts.isEmpty then .ok ([c], 0)
    else match c.insert maxNodeSize kvts with
      | .ok ns => .ok (ns, nodesTs ns)
      | .error x => .error x
  | c :: c1 :: cs, kvts =>
    let here := goHere c1.minKey kvts
    let later := goLater c1.minKey kvts
    match (if here.isEmpty then (.ok ([c], 0) : Except Err (List Node × Nat))
           else match c.insert maxNodeSize here with
             | .ok ns => .ok (ns, nodesTs ns)
             | .error x => .error x) with
    | .error x => .error x
    | .ok (ns, t1) =>
      match insertChildren maxNodeSize (c1 :: cs) later with
      | .ok (rest, t2) => .ok (ns ++ rest, max t1 t2)
      | .error x => .error x
end

/-- `while len(nodes) > 1 { newRoot := inner(nodes, newTs); nodes = newRoot.split() }` -/
def growRoot (maxNodeSize newTs : Nat) : Nat → List Node → Option Node
  | _, [n] => some n
  | 0, _ => none
  | fuel + 1, ns =>
    match splitInner maxNodeSize ns.length ns newTs with
    | some ns' => growRoot maxNodeSize newTs fuel ns'
    | none => none

/-- `TBtree.bulkInsert` below the validation: new root. -/
def insertRoot (maxNodeSize : Nat) (root : Node) (kvts : List KVT) : Except Err Node :=
  match root.insert maxNodeSize kvts with
  | .error x => .error x
  | .ok ns =>
    match growRoot maxNodeSize (kvts.foldl (fun a kvt => max a kvt.2.2) 0) (ns.length + 1) ns with
    | some n => .ok n
    | none => .error .other

mutual
/-- `node.get(key)`: descend by `indexOf`, then look the key up in the leaf. -/
def find (k : Bytes) : Node → Option Entry
  | .leaf vs _ => vs.find? (fun e => decide (e.key = k))
  | .inner cs _ => findList k cs
def findList (k : Bytes) : List Node → Option Entry
  | [] => none
  | [c] => c.find k
  | c :: c1 :: cs => if bcmp c1.minKey k == .gt then c.find k else findList k (c1 :: cs)
end

def get (n : Node) (k : Bytes) : Except Err (Bytes × Nat × Nat) :=
  match n.find k with
  | none => .error .keyNotFound
  | some e => .ok (e.cur.value, e.cur.ts, e.hcount)

mutual
/-- What a flush does to the stored entries (see `MVMap.flush`); the shape is unchanged. -/
def flushT : Node → Node
  | .leaf vs ts => .leaf (vs.map flushEntry) ts
  | .inner cs ts => .inner (flushList cs) ts
def flushList : List Node → List Node
  | [] => []
  | c :: cs => c.flushT :: flushList cs
end

/-- A fresh tree: `&leafNode{mut: true}`. -/
def empty : Node := .leaf [] 0

end Node
end ImmuModel.Index
