/-
C04 — MODEL of `indexer.indexSince` (embedded/store/indexer.go) on the multi-version map.

`indexBulk sp env tr txs` mirrors one call of `indexSince(txID)` that gathered the transactions
`txs` (`txID` = id of the first one):

  `maxBulkSize := idx.maxBulkSize; if idx.spec.InjectiveMapping { maxBulkSize = 1 }` — `Spec.maxBulk`:
  an injective index gathers ONE transaction per call, any other index up to `MaxBulkSize`;
  for every tx, for every entry:  non-indexable → skip;  source prefix mismatch → skip;
  sourceKey/targetKey through the mappers;  target prefix mismatch → error (nothing inserted);
  KVT (copy of targetKey, indexed value, T = id of THAT tx);
  `if idx.spec.InjectiveMapping && txID > 1` — `txID` is the id of the first tx of the bulk, which for an
  injective index is the transaction being indexed — the previous version of the row is looked up in the
  source index as of `txID - 1` and, when it maps to another target key, a tombstone KVT is added
  (copy of the previous mapped key, previous metadata + deleted);
  finally `IncreaseTs(last id)` when nothing is indexable, else `BulkInsert`.

Every KVT owns its key bytes (`append(idx._kvs[i].K[:0], targetKey...)`), so the reuse of the `idx.tx`
entry buffers by the next `readTx` of the same bulk is not observable and is not modelled.
`idx._kvs` is pre-allocated with `2 * MaxTxEntries * MaxBulkSize` slots (`kvsLen`); `indexBulkCap` is the
indexer with that bound (an overrun would be a Go panic).
Core Lean only.
-/
import ImmuModel.Index.LogView
namespace ImmuModel.Index.L

inductive IdxErr
  | badTargetPrefix      -- "the target entry mapper has not generated a key with the specified target prefix"
  | readTxEntry          -- `ReadTxEntry(prevTxID, e.key())` failed
  | insert               -- `BulkInsert` / `IncreaseTs` rejected the bulk
  | panic                -- `idx._kvs[indexableEntries]`: index out of range (runtime panic in the indexer goroutine)
deriving DecidableEq, Repr

/-- KVTs of one entry of tx `t` inside a bulk whose first tx is `start`. -/
def entryKVTs (sp : Spec) (env : Env) (start t : Nat) (e : Entry) : Except IdxErr (List (KVT IVal)) :=
  if e.md.nonIndexable then .ok []
  else if !hasPrefix e.key sp.srcPrefix then .ok []
  else
    let sk := mapKey sp.smap e.key e.value
    let tk := mapKey sp.tmap sk e.value
    if !hasPrefix tk sp.tgtPrefix then .error .badTargetPrefix
    else
      let main : KVT IVal := ⟨tk, e.ival, t⟩
      -- `txID` of indexSince (first tx of the bulk), not `txID + i`: see `Spec.maxBulk`
      if sp.injective && decide (1 < start) then
        match env.srcPrev (start - 1) sk with
        | none => .ok [main]
        | some p =>
          match env.readEntry p e.key with
          | none => .error .readTxEntry
          | some pe =>
            let tpk := mapKey sp.tmap sk pe.value
            if tk = tpk then .ok [main]
            else if !hasPrefix tpk sp.tgtPrefix then .error .badTargetPrefix
            else .ok [main, ⟨tpk, { vlen := pe.value.length, hval := pe.hval, md := tombMd pe.md }, t⟩]
      else .ok [main]

def entriesKVTs (sp : Spec) (env : Env) (start t : Nat) : List Entry → Except IdxErr (List (KVT IVal))
  | [] => .ok []
  | e :: es =>
    match entryKVTs sp env start t e with
    | .error x => .error x
    | .ok a =>
      match entriesKVTs sp env start t es with
      | .error x => .error x
      | .ok b => .ok (a ++ b)

def txsKVTs (sp : Spec) (env : Env) (start : Nat) : List Tx → Except IdxErr (List (KVT IVal))
  | [] => .ok []
  | tx :: rest =>
    match entriesKVTs sp env start tx.id tx.entries with
    | .error x => .error x
    | .ok a =>
      match txsKVTs sp env start rest with
      | .error x => .error x
      | .ok b => .ok (a ++ b)

def lastId : List Tx → Nat
  | [] => 0
  | [tx] => tx.id
  | _ :: rest => lastId rest

/-- insertion step shared by both variants -/
def applyKVTs (tr : Tree IVal) (kvts : List (KVT IVal)) (last : Nat) : Except IdxErr (Tree IVal) :=
  if kvts.isEmpty then
    match increaseTs tr last with
    | none => .error .insert
    | some tr' => .ok tr'
  else
    match bulkInsert tr kvts with
    | none => .error .insert
    | some tr' => .ok tr'

/-- one `indexSince` call over the bulk `txs` (keys owned) -/
def indexBulk (sp : Spec) (env : Env) (tr : Tree IVal) (txs : List Tx) : Except IdxErr (Tree IVal) :=
  match txs with
  | [] => .ok tr
  | tx0 :: _ =>
    match txsKVTs sp env tx0.id txs with
    | .error x => .error x
    | .ok kvts => applyKVTs tr kvts (lastId txs)

/-- `maxBulkSize` of `indexSince`: an injective index takes one transaction per call (the lookup of the
previous row version as of `txID - 1` is only right for the first transaction of a bulk). -/
def Spec.maxBulk (sp : Spec) (maxBulkSize : Nat) : Nat := if sp.injective then 1 else maxBulkSize

/-- `len(idx._kvs)` as allocated by `newIndexer`: an injective mapping emits up to two KVTs per entry
(new mapped key + tombstone of the previous mapped key). -/
def kvsLen (maxTxEntries maxBulkSize : Nat) : Nat := 2 * maxTxEntries * maxBulkSize

/-- The KVTs of a bulk are written into the pre-allocated `idx._kvs` of `cap` slots; writing past it is a Go
panic ("index out of range") in the indexer goroutine.  `indexBulk` is the same function with an unbounded
buffer; `Props.C04.kvs_never_overflows` shows that `cap = kvsLen MaxTxEntries MaxBulkSize` is always enough. -/
def indexBulkCap (cap : Nat) (sp : Spec) (env : Env) (tr : Tree IVal) (txs : List Tx) : Except IdxErr (Tree IVal) :=
  match txs with
  | [] => .ok tr
  | tx0 :: _ =>
    match txsKVTs sp env tx0.id txs with
    | .error x => .error x
    | .ok kvts => if cap < kvts.length then .error .panic else applyKVTs tr kvts (lastId txs)

/-- the indexer loop over a given sequence of bulks -/
def runBulks (sp : Spec) (env : Env) : Tree IVal → List (List Tx) → Except IdxErr (Tree IVal)
  | tr, [] => .ok tr
  | tr, b :: bs =>
    match indexBulk sp env tr b with
    | .error x => .error x
    | .ok tr' => runBulks sp env tr' bs

end ImmuModel.Index.L
