/-
C04 — MODEL of `indexer.indexSince` (embedded/store/indexer.go) on the multi-version map.

`indexBulk sp env tr txs` mirrors one call of `indexSince(txID)` that gathered the transactions
`txs` (`txID` = id of the first one):

  for every tx, for every entry:  non-indexable → skip;  source prefix mismatch → skip;
  sourceKey/targetKey through the mappers;  target prefix mismatch → error (nothing inserted);
  KVT (targetKey, indexed value, T = id of THAT tx);
  `if idx.spec.InjectiveMapping && txID > 1` — NB `txID` is the id of the FIRST tx of the bulk —
  the previous version of the row is looked up in the source index as of `txID - 1`
  (again the first tx of the bulk) and, when it maps to another target key, a tombstone KVT is added;
  finally `IncreaseTs(last id)` when nothing is indexable, else `BulkInsert`.

Two variants of key ownership:
  * `indexBulk`        — every KVT owns its key bytes (what the code is meant to do);
  * `indexBulkAliased` — AS THE CODE IS: without mappers `targetKey` is `e.key()`, a slice of the `idx.tx`
    entry buffer number `j` (position of the entry in its tx).  `readTx` of the next tx of the same bulk
    overwrites that buffer, and `BulkInsert` (which copies the keys) only runs after the whole bulk was
    read.  The key finally inserted is `buffer_j[:len(original key)]`.
Core Lean only.
-/
import ImmuModel.Index.LogView
namespace ImmuModel.Index.L

inductive IdxErr
  | badTargetPrefix      -- "the target entry mapper has not generated a key with the specified target prefix"
  | readTxEntry          -- `ReadTxEntry(prevTxID, e.key())` failed
  | insert               -- `BulkInsert` / `IncreaseTs` rejected the bulk
  | panic                -- `idx._kvs[indexableEntries]`: index out of range (runtime panic in the indexer goroutine)
deriving DecidableEq, Repr

/-- KVTs of one entry of tx `t` inside a bulk whose first tx is `start`. -/
def entryKVTs (sp : Spec) (env : Env) (start t : Nat) (e : Entry) : Except IdxErr (List (KVT IVal)) :=
  if e.md.nonIndexable then .ok []
  else if !hasPrefix e.key sp.srcPrefix then .ok []
  else
    let sk := mapKey sp.smap e.key e.value
    let tk := mapKey sp.tmap sk e.value
    if !hasPrefix tk sp.tgtPrefix then .error .badTargetPrefix
    else
      let main : KVT IVal := ⟨tk, e.ival, t⟩
      -- AS THE CODE IS (`sp.q.lookupAtBulkStart`): `txID` of indexSince, not `txID + i`
      let cur := if sp.q.lookupAtBulkStart then start else t
      if sp.injective && decide (1 < cur) then
        match env.srcPrev (cur - 1) sk with
        | none => .ok [main]
        | some p =>
          match env.readEntry p e.key with
          | none => .error .readTxEntry
          | some pe =>
            let tpk := mapKey sp.tmap sk pe.value
            if tk = tpk then .ok [main]
            else if !hasPrefix tpk sp.tgtPrefix then .error .badTargetPrefix
            else .ok [main, ⟨tpk, { vlen := pe.value.length, hval := pe.hval, md := sp.q.tomb pe.md }, t⟩]
      else .ok [main]

def entriesKVTs (sp : Spec) (env : Env) (start t : Nat) : List Entry → Except IdxErr (List (KVT IVal))
  | [] => .ok []
  | e :: es =>
    match entryKVTs sp env start t e with
    | .error x => .error x
    | .ok a =>
      match entriesKVTs sp env start t es with
      | .error x => .error x
      | .ok b => .ok (a ++ b)

def txsKVTs (sp : Spec) (env : Env) (start : Nat) : List Tx → Except IdxErr (List (KVT IVal))
  | [] => .ok []
  | tx :: rest =>
    match entriesKVTs sp env start tx.id tx.entries with
    | .error x => .error x
    | .ok a =>
      match txsKVTs sp env start rest with
      | .error x => .error x
      | .ok b => .ok (a ++ b)

def lastId : List Tx → Nat
  | [] => 0
  | [tx] => tx.id
  | _ :: rest => lastId rest

/-- insertion step shared by both variants -/
def applyKVTs (tr : Tree IVal) (kvts : List (KVT IVal)) (last : Nat) : Except IdxErr (Tree IVal) :=
  if kvts.isEmpty then
    match increaseTs tr last with
    | none => .error .insert
    | some tr' => .ok tr'
  else
    match bulkInsert tr kvts with
    | none => .error .insert
    | some tr' => .ok tr'

/-- one `indexSince` call over the bulk `txs` (keys owned) -/
def indexBulk (sp : Spec) (env : Env) (tr : Tree IVal) (txs : List Tx) : Except IdxErr (Tree IVal) :=
  match txs with
  | [] => .ok tr
  | tx0 :: _ =>
    match txsKVTs sp env tx0.id txs with
    | .error x => .error x
    | .ok kvts => applyKVTs tr kvts (lastId txs)

/-- AS THE CODE IS: the KVTs of a bulk are written into the pre-allocated `idx._kvs`, whose length is
`maxTxEntries * MaxBulkSize` (`cap`).  An injective mapping yields up to TWO KVTs per entry (new key +
tombstone of the previous key), so the slice can be overrun: Go panics with "index out of range" in the
indexer goroutine, i.e. the process dies.  `indexBulk` is the same function with an unbounded buffer. -/
def indexBulkCap (cap : Nat) (sp : Spec) (env : Env) (tr : Tree IVal) (txs : List Tx) : Except IdxErr (Tree IVal) :=
  match txs with
  | [] => .ok tr
  | tx0 :: _ =>
    match txsKVTs sp env tx0.id txs with
    | .error x => .error x
    | .ok kvts => if cap < kvts.length then .error .panic else applyKVTs tr kvts (lastId txs)

/-- the indexer loop over a given sequence of bulks -/
def runBulks (sp : Spec) (env : Env) : Tree IVal → List (List Tx) → Except IdxErr (Tree IVal)
  | tr, [] => .ok tr
  | tr, b :: bs =>
    match indexBulk sp env tr b with
    | .error x => .error x
    | .ok tr' => runBulks sp env tr' bs

/-! ### the code as it is: keys alias the tx entry buffers -/

/-- `copy(buf, key)` into a buffer that is never shorter than any key written before -/
def overlay (key buf : Bytes) : Bytes := key ++ buf.drop key.length

/-- `readTx`: entry `j` of the tx is read into buffer `j` -/
def readInto : List Bytes → List Entry → List Bytes
  | bufs, [] => bufs
  | [], e :: es => e.key :: readInto [] es
  | b :: bufs, e :: es => overlay e.key b :: readInto bufs es

/-- a KVT whose key is still a slice `buffer_j[:len]` (`alias = some (j, len)`) or an owned key -/
structure PKVT where
  alias : Option (Nat × Nat)
  kvt : KVT IVal

def aliases (sp : Spec) : Bool := sp.smap.isNone && sp.tmap.isNone

/-- KVTs of one tx with the main KVT of entry `j` marked as aliasing buffer `j` when no mapper is configured -/
def entriesPKVTs (sp : Spec) (env : Env) (start t : Nat) : Nat → List Entry → Except IdxErr (List PKVT)
  | _, [] => .ok []
  | j, e :: es =>
    match entryKVTs sp env start t e with
    | .error x => .error x
    | .ok a =>
      match entriesPKVTs sp env start t (j + 1) es with
      | .error x => .error x
      | .ok b =>
        let a' : List PKVT := match a with
          | [] => []
          | main :: more =>
            ⟨if aliases sp then some (j, main.k.length) else none, main⟩ :: more.map (fun kv => ⟨none, kv⟩)
        .ok (a' ++ b)

def txsPKVTs (sp : Spec) (env : Env) (start : Nat) : List Bytes → List Tx → Except IdxErr (List PKVT × List Bytes)
  | bufs, [] => .ok ([], bufs)
  | bufs, tx :: rest =>
    let bufs' := readInto bufs tx.entries
    match entriesPKVTs sp env start tx.id 0 tx.entries with
    | .error x => .error x
    | .ok a =>
      match txsPKVTs sp env start bufs' rest with
      | .error x => .error x
      | .ok (b, bufsEnd) => .ok (a ++ b, bufsEnd)

/-- the key `BulkInsert` finally copies -/
def resolve (bufs : List Bytes) (p : PKVT) : KVT IVal :=
  match p.alias with
  | none => p.kvt
  | some (j, len) =>
    match bufs[j]? with
    | none => p.kvt
    | some b => { p.kvt with k := b.take len }

/-- one `indexSince` call as the code is; the buffers persist across calls -/
def indexBulkAliased (sp : Spec) (env : Env) (st : Tree IVal × List Bytes) (txs : List Tx) :
    Except IdxErr (Tree IVal × List Bytes) :=
  match txs with
  | [] => .ok st
  | tx0 :: _ =>
    match txsPKVTs sp env tx0.id st.2 txs with
    | .error x => .error x
    | .ok (ps, bufs) =>
      match applyKVTs st.1 (ps.map (resolve bufs)) (lastId txs) with
      | .error x => .error x
      | .ok tr => .ok (tr, bufs)

def runBulksAliased (sp : Spec) (env : Env) :
    Tree IVal × List Bytes → List (List Tx) → Except IdxErr (Tree IVal × List Bytes)
  | st, [] => .ok st
  | st, b :: bs =>
    match indexBulkAliased sp env st b with
    | .error x => .error x
    | .ok st' => runBulksAliased sp env st' bs

end ImmuModel.Index.L
