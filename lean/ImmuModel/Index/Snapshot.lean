/-
C10 — logical state machine of `tbtree.TBtree` above the multi-version map: which state a
snapshot pins, when a flush happens (it decides what `lastSnapRoot` is and therefore what a
snapshot sees and what a failing insert rolls back to), close/reopen, compaction.

Mirrors tbtree.go: `bulkInsert`, `IncreaseTs`, `flushTree` (only its logical effects),
`SnapshotMustIncludeTsWithRenewalPeriod` (with `renewalPeriod = 0`, the configuration used by the
harness: the wall-clock renewal is not modelled), `Compact`, `Close`, `Open`.
A snapshot is a captured `MVMap` VALUE; that the Go code never mutates a pinned tree is the
correspondence check's obligation (open snapshots are re-read after every later mutation).
Core Lean only.
-/
import ImmuModel.Index.MVMap

namespace ImmuModel.Index
open ImmuModel

structure Cfg where
  flushThld : Nat := 100000
  maxBuffered : Nat := 4194304
  cleanupNonzero : Bool := false   -- `t.cleanupPercentage != 0`
  maxActive : Nat := 100
  maxKeySize : Nat := 1024
  maxValueSize : Nat := 512
  compactionThld : Nat := 2
deriving Repr

structure TState where
  cfg : Cfg := {}
  cur : MVMap := {}
  /-- `t.root.mutated()`; a fresh tree starts with `&leafNode{mut: true}`. -/
  mutated : Bool := true
  /-- `t.lastSnapRoot`: nil only in a freshly CREATED tree; `Open` of a stored tree sets it to the root
  it loaded. -/
  lastSnap : Option MVMap := none
  insSinceFlush : Nat := 0
  insSinceCleanup : Nat := 0
  buffered : Nat := 0
  /-- `committedLogSize / cLogEntrySize` = `snapshotCount()`. -/
  clogCount : Nat := 0
  /-- content of the TIMESTAMP file of the loaded tree (absent = 0). -/
  tsFile : Nat := 0
  /-- id of the loaded `commit<id>` folder (0 = the initial `commit`). -/
  loadedId : Nat := 0
  /-- full dumps written by `Compact` since the last Open (folder id = the dump's ts). -/
  dumps : List MVMap := []
  /-- open snapshots by the harness' name. -/
  snaps : List (Nat × MVMap) := []
  closed : Bool := false
deriving Repr

namespace TState

/-- Logical effect of `flushTree(cleanupPercentageHint, _, forceCleanup)`; `pctNonzero` says whether
the hint is `≠ 0`. A flush that is not skipped persists the current root: it becomes unmutated and
becomes `lastSnapRoot`. -/
def flushTree (s : TState) (pctNonzero forceCleanup : Bool) : TState :=
  let cp := if !forceCleanup && s.insSinceCleanup < s.cfg.flushThld then false else pctNonzero
  if !s.mutated && !cp then s
  else
    let cur := s.cur.flush
    { s with cur := cur, mutated := false, lastSnap := some cur, insSinceFlush := 0, buffered := 0,
                insSinceCleanup := if cp then 0 else s.insSinceCleanup,
                clogCount := s.clogCount + 1 }

def estimateSize (kvts : List (Bytes × Bytes × Nat)) : Nat :=
  kvts.foldl (fun a kvt => a + kvt.1.length + kvt.2.1.length + 8) 0

/-- The validation loop of `bulkInsert` (first offending entry decides); `T = 0` becomes `currTs+1`. -/
def validate (cfg : Cfg) (currTs : Nat) : List (Bytes × Bytes × Nat) → Except Err (List (Bytes × Bytes × Nat))
  | [] => .ok []
  | (k, v, t) :: rest =>
    if k.isEmpty || v.isEmpty then .error .illegal
    else if k.length > cfg.maxKeySize then .error .maxKeySize
    else if v.length > cfg.maxValueSize then .error .maxValueSize
    else if t ≠ 0 ∧ t ≤ currTs then .error .illegal
    else match validate cfg currTs rest with
      | .ok r => .ok ((k, v, if t = 0 then currTs + 1 else t) :: r)
      | .error x => .error x

/-- `if t.bufferedDataSize > 0 && t.bufferedDataSize+entriesSize > t.maxBufferedDataSize { flushTree }`. -/
def preFlush (s : TState) (sz : Nat) : TState :=
  if s.buffered > 0 ∧ s.buffered + sz > s.cfg.maxBuffered then s.flushTree s.cfg.cleanupNonzero false else s

/-- `if t.insertionCountSinceFlush >= t.flushThld { flushTree }`. -/
def postFlush (s : TState) : TState :=
  if s.insSinceFlush ≥ s.cfg.flushThld then s.flushTree s.cfg.cleanupNonzero false else s

/-- A failing `root.insert` with a mutated root: back to `lastSnapRoot` (the last root stored on disk:
written by a flush or loaded by `Open`), or to a fresh empty tree when `lastSnapRoot == nil` (only in a
tree created from scratch that was never flushed: nothing is stored). An unmutated root was not touched. -/
def rollback (s : TState) : TState :=
  if s.mutated then
    match s.lastSnap with
    | none => { s with cur := {}, mutated := true }
    | some m => { s with cur := m, mutated := false }
  else s

/-- `TBtree.bulkInsert`. -/
def bulkInsert (s : TState) (kvts : List (Bytes × Bytes × Nat)) : TState × Except Err Unit :=
  if s.closed then (s, .error .closed)
  else if kvts.isEmpty then (s, .error .illegal)
  else
    let sz := estimateSize kvts
    let s1 := s.preFlush sz
    let s2 := { s1 with buffered := s1.buffered + sz }
    match validate s2.cfg s2.cur.ts kvts with
    | .error x => (s2, .error x)
    | .ok vs =>
      match s2.cur.bulkInsert vs with
      | .error x => (s2.rollback, .error x)
      | .ok m =>
        let n := vs.length
        (postFlush { s2 with cur := m, mutated := true, insSinceFlush := s2.insSinceFlush + n,
                             insSinceCleanup := s2.insSinceCleanup + n }, .ok ())

/-- `TBtree.IncreaseTs`. -/
def increaseTs (s : TState) (ts : Nat) : TState × Except Err Unit :=
  if s.closed then (s, .error .closed)
  else match s.cur.increaseTs ts with
    | .error x => (s, .error x)
    | .ok m =>
      (postFlush { s with cur := m, mutated := true, insSinceFlush := s.insSinceFlush + 1,
                          insSinceCleanup := s.insSinceCleanup + 1 }, .ok ())

/-- `FlushWith(pct, synced)`; `pct` in hundredths is enough to decide validity and `≠ 0`. -/
def flushWith (s : TState) (pctValid pctNonzero : Bool) : TState × Except Err Unit :=
  if s.closed then (s, .error .closed)
  else if !pctValid then (s, .error .illegal)
  else (s.flushTree pctNonzero true, .ok ())

/-- `Sync()`. -/
def sync (s : TState) : TState × Except Err Unit :=
  if s.closed then (s, .error .closed) else (s.flushTree false false, .ok ())

/-- First step of `SnapshotMustIncludeTsWithRenewalPeriod(ts, 0)`: flush when the root is mutated and
no stored root can be re-used (`lastSnapRoot == nil`, or it is older than both the current root and the
requested `ts`). -/
def needsRenewal (s : TState) (ts : Nat) : Bool :=
  s.mutated && (match s.lastSnap with
    | none => true
    | some l => decide (l.ts < s.cur.ts) && decide (l.ts < ts))

def renewRoot (s : TState) (ts : Nat) : TState :=
  if s.needsRenewal ts then s.flushTree s.cfg.cleanupNonzero false else s

/-- Second step: an unmutated root becomes `lastSnapRoot`. -/
def adoptRoot (s : TState) : TState :=
  if !s.mutated then { s with lastSnap := some s.cur } else s

def prepareSnap (s : TState) (ts : Nat) : TState := (s.renewRoot ts).adoptRoot

/-- `SnapshotMustIncludeTsWithRenewalPeriod(ts, 0)`; the snapshot gets `name`. Returns the
snapshot's `Ts()`. The snapshot pins `lastSnapRoot`, which may be OLDER than the current root. -/
def snapshot (s : TState) (name ts : Nat) : TState × Except Err Nat :=
  if s.closed then (s, .error .closed)
  else if ts > s.cur.ts then (s, .error .illegal)
  else if s.snaps.length = s.cfg.maxActive then (s, .error .tooManySnapshots)
  else
    let s1 := s.prepareSnap ts
    match s1.lastSnap with
    | none => (s1, .error .other)   -- unreachable: a mutated root with no lastSnapRoot is renewed
    | some m => ({ s1 with snaps := (name, m) :: s1.snaps }, .ok m.ts)

def snapOf (s : TState) (name : Nat) : Option MVMap := (s.snaps.find? (fun p => p.1 == name)).map (·.2)

def closeSnapshot (s : TState) (name : Nat) : TState × Except Err Unit :=
  match s.snapOf name with
  | none => (s, .error .closed)
  | some _ => ({ s with snaps := s.snaps.filter (fun p => p.1 != name) }, .ok ())

/-- `Compact()`: flush, then a full dump of the current root into `commit<ts>`. -/
def compact (s : TState) : TState × Except Err Nat :=
  if s.closed then (s, .error .closed)
  else if s.clogCount < s.cfg.compactionThld then (s, .error .thresholdNotReached)
  else
    let s := s.flushTree false false
    if s.cur.ts = s.loadedId ∨ s.dumps.any (fun d => d.ts == s.cur.ts) then
      (s, .error .other)   -- ErrTargetPathAlreadyExists, wrapped with %v
    else ({ s with dumps := s.cur :: s.dumps }, .ok s.cur.ts)

/-- `Close()`. -/
def close (s : TState) : TState × Except Err Unit :=
  if s.closed then (s, .error .closed)
  else if !s.snaps.isEmpty then (s, .error .snapshotsNotClosed)
  else
    let s := if s.cur.tsMutated then { s with tsFile := s.cur.ts } else s
    let s := s.flushTree false false
    ({ s with closed := true }, .ok ())

/-- The dump `Open` prefers: greatest folder id above the loaded one. -/
def bestDump (loadedId : Nat) : List MVMap → Option MVMap
  | [] => none
  | d :: ds =>
    match bestDump loadedId ds with
    | none => if d.ts > loadedId then some d else none
    | some b => if d.ts > b.ts then some d else some b

/-- `Open` on the directory left by a clean `Close`: the newest `commit<id>` folder wins (a dump
written by `Compact` replaces the tree it was taken from, including everything inserted into that
tree afterwards; older folders are discarded); root ts = content ts, raised to the TIMESTAMP
file's value if that is larger (`setTs`: a mutated copy). The root as loaded — before `setTs` — is
`lastSnapRoot`: a failing insert rolls back to it, a snapshot may re-use it. -/
def reopen (s : TState) : TState :=
  if !s.closed then s else
  let (base, tsf, id, cnt) :=
    match bestDump s.loadedId s.dumps with
    | some m => (m, m.ts, m.ts, 1)
    | none => (s.cur, s.tsFile, s.loadedId, s.clogCount)
  let c := base.contentTs
  { cfg := s.cfg, cur := { base with ts := if tsf > c then tsf else c }, mutated := decide (tsf > c),
    lastSnap := some { base with ts := c }, clogCount := cnt, tsFile := tsf, loadedId := id, dumps := [],
    snaps := s.snaps }   -- (`closed` implies `snaps = []`: `close` refuses otherwise)

/-- The operations of the harness / driver as one type (for statements over operation lists). -/
inductive Op
  | ins (kvts : List (Bytes × Bytes × Nat))
  | incTs (ts : Nat)
  | flush (pctValid pctNonzero : Bool)
  | sync
  | snap (name ts : Nat)
  | sclose (name : Nat)
  | compact
  | close
  | reopen

def apply (s : TState) : Op → TState
  | .ins kvts => (s.bulkInsert kvts).1
  | .incTs ts => (s.increaseTs ts).1
  | .flush v nz => (s.flushWith v nz).1
  | .sync => s.sync.1
  | .snap name ts => (s.snapshot name ts).1
  | .sclose name => (s.closeSnapshot name).1
  | .compact => s.compact.1
  | .close => s.close.1
  | .reopen => s.reopen

def run (s : TState) (ops : List Op) : TState := ops.foldl apply s

end TState
end ImmuModel.Index
