/-
C04 — SPEC: what the committed log says about every key of an index, and the store's read API
as functions of that view.

`LogView sp env txs k` is the list of versions (newest first) of target key `k` obtained by folding
the committed entries of `txs` in commit order through the index specification `sp`
(source prefix filter, non-indexable skip, key mappers, and — for injective mappings — the
tombstone of the previously mapped key).  It is written as a comprehension over the log and does
not mention bulks, buffers or trees.

The read API (`ImmuStore.Get/GetBetween/GetWithPrefix/History`, `Snapshot.NewKeyReader`) is modelled on
version lists / multi-version maps, mirroring `immustore.go` and `key_reader.go`:
filters `IgnoreExpired` then `IgnoreDeleted` for `Get`/`GetWithPrefix`, no filter for
`GetBetween`/`History`, caller-supplied filters for readers, revision numbering of `History`.
Core Lean only.
-/
import ImmuModel.Index.MVMapLite
namespace ImmuModel.Index.L

/-- KV metadata attributes (`KVMetadata`); `expiresAt` in unix seconds. An entry whose metadata has no
attribute is stored without metadata (`mdLen = 0`), so "metadata present" = `!isEmpty`. -/
structure KVMd where
  deleted : Bool := false
  expiresAt : Option Nat := none
  nonIndexable : Bool := false
deriving DecidableEq, Repr

def KVMd.isEmpty (md : KVMd) : Bool := !md.deleted && md.expiresAt.isNone && !md.nonIndexable

/-- `KVMetadata.ExpiredAt(now)`: `!expiresAt.After(now)` -/
def KVMd.expiredAt (md : KVMd) (now : Nat) : Bool :=
  match md.expiresAt with
  | none => false
  | some t => decide (t ≤ now)

/-- a committed entry: key, value bytes (the mappers read them), sha256 of the value (opaque), metadata -/
structure Entry where
  key : Bytes
  value : Bytes
  hval : Bytes
  md : KVMd
deriving DecidableEq, Repr

structure Tx where
  id : Nat
  entries : List Entry
deriving Repr

/-- indexed value (`serializeIndexableEntry`): value length, value hash, kv metadata.
(`vOff` and tx metadata are not observable through the compared answers and are left out.) -/
structure IVal where
  vlen : Nat
  hval : Bytes
  md : KVMd
deriving DecidableEq, Repr

def Entry.ival (e : Entry) : IVal := { vlen := e.value.length, hval := e.hval, md := e.md }

abbrev Mapper := Bytes → Bytes → Bytes

/-- `store.IndexSpec` -/
structure Spec where
  srcPrefix : Bytes := []
  tgtPrefix : Bytes := []
  smap : Option Mapper := none
  tmap : Option Mapper := none
  injective : Bool := false

/-- what the indexer of a mapped index asks the rest of the store:
`srcPrev b sk` = `sourceIndexer.index.GetBetween(sk, 1, b)` → tx of the newest version `<= b`
(`none`: no source index or key not found); `readEntry p k` = `ReadTxEntry(p, k)`. -/
structure Env where
  srcPrev : Nat → Bytes → Option Nat
  readEntry : Nat → Bytes → Option Entry

def mapKey (m : Option Mapper) (k v : Bytes) : Bytes :=
  match m with
  | none => k
  | some f => f k v

/-- metadata of the tombstone written for the previously mapped key.  MIRRORS THE CODE (indexer.go, injective
branch): `kvmd := NewKVMetadata()`, the attributes of `prevEntry.Metadata()` (read-only) are copied into it
(`unsafeReadFrom(prev.Bytes())`: expiration, non-indexable, deleted), then `kvmd.AsDeleted(true)`, error checked. -/
def tombMd (prev : KVMd) : KVMd := { prev with deleted := true }

/-- the events (target key, ts, indexed value) one committed entry contributes to the index,
`asOf` being the tx up to which the previous version of the row is looked up. -/
def entryEvents (sp : Spec) (env : Env) (t : Nat) (asOf : Nat) (e : Entry) : List (KVT IVal) :=
  if e.md.nonIndexable then []
  else if !hasPrefix e.key sp.srcPrefix then []
  else
    let sk := mapKey sp.smap e.key e.value
    let tk := mapKey sp.tmap sk e.value
    let main : KVT IVal := ⟨tk, e.ival, t⟩
    if sp.injective && decide (0 < asOf) then
      match env.srcPrev asOf sk with
      | none => [main]
      | some p =>
        match env.readEntry p e.key with
        | none => [main]
        | some pe =>
          let tpk := mapKey sp.tmap sk pe.value
          if tk = tpk then [main]
          else [main, ⟨tpk, { vlen := pe.value.length, hval := pe.hval, md := tombMd pe.md }, t⟩]
    else [main]

/-- SPEC: per transaction the previous version is the one as of `tx.id - 1`. -/
def txEvents (sp : Spec) (env : Env) (tx : Tx) : List (KVT IVal) :=
  tx.entries.flatMap (entryEvents sp env tx.id (tx.id - 1))

def logEvents (sp : Spec) (env : Env) (txs : List Tx) : List (KVT IVal) :=
  txs.flatMap (txEvents sp env)

/-- **The specification.** Versions of target key `k`, newest first. -/
def LogView (sp : Spec) (env : Env) (txs : List Tx) (k : Key) : Vers IVal :=
  (((logEvents sp env txs).filter (fun kv => kv.k = k)).map (fun kv => (kv.t, kv.v))).reverse

/-! ### the store's read API -/

inductive StErr
  | notFound | expired | illegal | noMoreEntries | offsetOutOfRange
deriving DecidableEq, Repr

def StErr.ofRd : RdErr → StErr
  | .notFound => .notFound
  | .illegal => .illegal
  | .noMoreEntries => .noMoreEntries
  | .offsetOutOfRange => .offsetOutOfRange

/-- `ValueRef`: tx, revision (`HC`), indexed value -/
structure Ref where
  tx : Nat
  hc : Nat
  v : IVal
deriving DecidableEq, Repr

inductive Filter | ignoreDeleted | ignoreExpired
deriving DecidableEq, Repr

/-- `IgnoreDeleted` / `IgnoreExpired` of key_reader.go -/
def Filter.apply (f : Filter) (now : Nat) (r : Ref) : Except StErr Unit :=
  match f with
  | .ignoreDeleted => if r.v.md.deleted then .error .notFound else .ok ()
  | .ignoreExpired => if r.v.md.expiredAt now then .error .expired else .ok ()

def applyFilters (fs : List Filter) (now : Nat) (r : Ref) : Except StErr Ref :=
  match fs with
  | [] => .ok r
  | f :: rest =>
    match f.apply now r with
    | .error e => .error e
    | .ok () => applyFilters rest now r

def liftRd {α : Type} : Except RdErr α → Except StErr α
  | .ok a => .ok a
  | .error e => .error (StErr.ofRd e)

/-- `ImmuStore.Get` = `GetWithFilters(IgnoreExpired, IgnoreDeleted)` on the version list of the key -/
def Vers.storeGet (now : Nat) (vs : Vers IVal) : Except StErr Ref :=
  match liftRd vs.get with
  | .error e => .error e
  | .ok (v, t, hc) => applyFilters [.ignoreExpired, .ignoreDeleted] now ⟨t, hc, v⟩

/-- `ImmuStore.GetBetween`: no filters -/
def Vers.storeGetBetween (init fin : Nat) (vs : Vers IVal) : Except StErr Ref :=
  match liftRd (vs.getBetween init fin) with
  | .error e => .error e
  | .ok (v, t, hc) => .ok ⟨t, hc, v⟩

/-- revisions handed out by `ImmuStore.History`: ascending `offset+1, offset+2, …`,
descending `hCount-offset, hCount-offset-1, …` -/
def numberRevs (desc : Bool) (rev : Nat) : Vers IVal → List Ref
  | [] => []
  | (t, v) :: rest => ⟨t, rev, v⟩ :: numberRevs desc (if desc then rev - 1 else rev + 1) rest

def Vers.storeHistory (offset : Nat) (desc : Bool) (limit : Nat) (vs : Vers IVal) : Except StErr (List Ref × Nat) :=
  match liftRd (vs.history offset desc limit) with
  | .error e => .error e
  | .ok (tvs, hCount) => .ok (numberRevs desc (if desc then hCount - offset else offset + 1) tvs, hCount)

/-- `Snapshot.History` of key_reader.go: its own copy of the revision arithmetic of `ImmuStore.History`
(`rev := offset + 1`, descending `hCount - offset`, then `rev++` / `rev--`). -/
def Vers.snapHistory (offset : Nat) (desc : Bool) (limit : Nat) (vs : Vers IVal) : Except StErr (List Ref × Nat) :=
  match liftRd (vs.history offset desc limit) with
  | .error e => .error e
  | .ok (tvs, hCount) => .ok (numberRevs desc (if desc then hCount - offset else offset + 1) tvs, hCount)

def storeGet (m : MVMap IVal) (now : Nat) (k : Key) := (versions m k).storeGet now
def storeGetBetween (m : MVMap IVal) (k : Key) (init fin : Nat) := (versions m k).storeGetBetween init fin
def storeHistory (m : MVMap IVal) (k : Key) (offset : Nat) (desc : Bool) (limit : Nat) :=
  (versions m k).storeHistory offset desc limit
def snapHistory (m : MVMap IVal) (k : Key) (offset : Nat) (desc : Bool) (limit : Nat) :=
  (versions m k).snapHistory offset desc limit

/-- `ImmuStore.GetWithPrefix` = tree lookup, then `IgnoreExpired`, `IgnoreDeleted` on THAT key
(a deleted first key is "not found", the lookup does not move on). -/
def storeGetWithPrefix (m : MVMap IVal) (now : Nat) (pfx neq : Bytes) : Except StErr (Key × Ref) :=
  match liftRd (getWithPrefix m pfx neq) with
  | .error e => .error e
  | .ok (k, v, t, hc) =>
    match applyFilters [.ignoreExpired, .ignoreDeleted] now ⟨t, hc, v⟩ with
    | .error e => .error e
    | .ok r => .ok (k, r)

def passes (fs : List Filter) (now : Nat) (r : Ref) : Bool :=
  match applyFilters fs now r with
  | .ok _ => true
  | .error _ => false

/-- `storeKeyReader.Read` until `ErrNoMoreEntries`, without history: latest version of every visited key,
filtered, then `offset` entries skipped. -/
def storeScan (m : MVMap IVal) (now : Nat) (r : Range) (fs : List Filter) (offset : Nat) : List (Key × Ref) :=
  (((scanKeys m r).filterMap (fun kv =>
      match kv.2 with
      | [] => none
      | (t, v) :: older =>
        let ref : Ref := ⟨t, older.length + 1, v⟩
        if passes fs now ref then some (kv.1, ref) else none))).drop offset

/-- with `IncludeHistory`: every version of every visited key (ascending: oldest first, revisions 1…;
descending: newest first, revisions hCount…1), filters are NOT applied, then `offset` skipped. -/
def storeScanHistory (m : MVMap IVal) (r : Range) (offset : Nat) : List (Key × Ref) :=
  ((scanKeys m r).flatMap (fun kv =>
      let vs := kv.2
      let refs := if r.desc then numberRevs true vs.length vs else numberRevs false 1 vs.reverse
      refs.map (fun ref => (kv.1, ref)))).drop offset

end ImmuModel.Index.L
