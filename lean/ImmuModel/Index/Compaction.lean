/-
C04 — MODEL of an index compaction interleaved with the indexer
(`TBtree.Compact` / `fullDump` / `OpenWith` in embedded/tbtree/tbtree.go, `indexer.CompactIndex` /
`restartIndex` / `doIndexing` in embedded/store/indexer.go).

  `Compact`:  under the tree lock `flushTree`, `snap := t.newSnapshot(0, t.root)`; then WITHOUT the lock
              `fullDump(snap)`: the nodes reachable from the snapshot root are written to `nodes<snap.Ts()>`,
              a commit entry to `commit<snap.Ts()>` and the file `TIMESTAMP<snap.Ts()>` with the ts the dump
              covers.  Meanwhile the indexer goes on inserting into the live tree (ts `live ≥ snap.Ts()`).
  `restartIndex`: the live tree is closed, `tbtree.Open` picks the newest dump; `OpenWith` reloads its root and,
              `if ts := t.readTsFile(); ts > t.root.ts()`, raises the root's ts to the value of the file.
  `doIndexing`: resumes with `indexSince(idx.index.Ts() + 1)`.

On the multi-version map the dump is the tree as of the snapshot root (`dump`), everything the live tree
gained during the dump is dropped, and the only thing the restart can get wrong is the ts the dump CLAIMS:
`dumpTsFile` is what `fullDump` writes (`snap.Ts()`; pinned to the source by
`Props.C04.compaction_facts_match_code`), `reopenDump` is `OpenWith`, `pending` the transactions the resumed
indexer still reads.  Core Lean only.
-/
import ImmuModel.Index.Indexer
namespace ImmuModel.Index.L

/-- the value `fullDump` writes into `TIMESTAMP<snap.Ts()>`: `snapTs` = ts of the dumped snapshot root,
`liveTs` = ts of the live tree when the dump ends (not used: `writeTsFile(t.path, tsFile, snap.Ts())`) -/
def dumpTsFile (snapTs _liveTs : Nat) : Nat := snapTs

/-- `OpenWith` on a dump: the reloaded root, its ts raised to the claimed one when that is larger -/
def reopenDump (dump : Tree IVal) (claimed : Nat) : Tree IVal :=
  if dump.ts < claimed then { dump with ts := claimed } else dump

/-- `CompactIndex` = `Compact` + `restartIndex`: the index continues from the dump; what the live tree
(ts `liveTs`) had indexed beyond the dump is gone and has to be indexed again -/
def compactRestart (dump : Tree IVal) (liveTs : Nat) : Tree IVal :=
  reopenDump dump (dumpTsFile dump.ts liveTs)

/-- the transactions the indexer loop still has to read when the tree is at `ts` (`indexSince(Ts()+1)`) -/
def pending (ts : Nat) (log : List Tx) : List Tx := log.filter (fun tx => decide (ts < tx.id))

end ImmuModel.Index.L
