/-
C16 — transliteration of /repo/embedded/store/tx_metadata.go (decoding side).

One Lean def per Go function, same checks in the same order.  `fx : Fix` selects which of the guards the
framework found missing are part of the code (one flag per guard; the guard lines are marked FIX):
`Fix.current` = the code that EXISTS (used by the driver and by the property theorems), `Fix.none` = the
code before the repairs (only serves the "guard is needed" witnesses in Props/C16.lean).
-/
import ImmuModel.Base.GoSlice
import ImmuModel.Gen.Consts
import ImmuModel.Gen.ConstsC16
namespace ImmuModel.Decode
open ImmuModel ImmuModel.Go ImmuModel.Gen

/-- `TxMetadata.attributes` (a map keyed by attribute code; two codes exist). -/
structure TxMetadata where
  truncatedUptoTx : Option Nat := none   -- truncatedUptoTxAttribute.txID
  extra : Option Bytes := none           -- extraAttribute.extra
  deriving DecidableEq, Repr, Inhabited

/-- a freshly created attribute object, selected by code -/
inductive TxAttrKind where
  | truncatedUptoTx
  | extra
  deriving DecidableEq, Repr

inductive TxAttr where
  | truncatedUptoTx (txID : Nat)
  | extra (e : Bytes)
  deriving DecidableEq, Repr

/--
```go
func (a *truncatedUptoTxAttribute) deserialize(b []byte) (int, error) {
	if len(b) < txIDSize { return 0, ErrCorruptedData }
	a.txID = binary.BigEndian.Uint64(b)
	return txIDSize, nil
}
``` -/
def truncatedUptoTxAttr_deserialize (b : Bytes) : M (TxAttr × Nat) :=
  if b.length < storeTxIDSize then M.fail .corruptedData
  else do
    let txID ← rdU64 b
    pure (.truncatedUptoTx txID, storeTxIDSize)

/--
```go
func (a *extraAttribute) deserialize(b []byte) (int, error) {
	if len(b) < sszSize { return 0, ErrCorruptedData }
	n := int(binary.BigEndian.Uint16(b))
	if n > maxExtraLen || len(b) < sszSize+n { return 0, ErrCorruptedData }     // FIX extraLen
	a.extra = make([]byte, n)
	copy(a.extra, b[sszSize:])
	return sszSize + len(a.extra), nil
}
```
Without the guard (`fx.extraLen = false`, the code before the repair) the declared length is NOT compared
with `len(b)` nor with `maxExtraLen`: the returned `n` can exceed the buffer. -/
def extraAttr_deserialize (fx : Fix) (b : Bytes) : M (TxAttr × Nat) :=
  if b.length < storeSszSize then M.fail .corruptedData
  else do
    let n ← rdU16 b
    -- FIX extraLen: if n > maxExtraLen || len(b) < sszSize+n { return 0, ErrCorruptedData }
    if fx.extraLen && (n > storeMaxExtraLen || b.length < storeSszSize + n) then M.fail .corruptedData
    else do
      let extra0 ← make n
      let src ← sliceFrom b storeSszSize
      let extra := copyFixed extra0.length src
      pure (.extra extra, storeSszSize + extra.length)

/-- `getAttributeFrom(attrCode)` -/
def getAttributeFrom (attrCode : Nat) : M TxAttrKind :=
  if attrCode = storeTruncatedUptoTxAttrCode then pure .truncatedUptoTx
  else if attrCode = storeExtraAttrCode then pure .extra
  else M.fail .corruptedData

/-- `attr.deserialize(b)` (interface dispatch) -/
def TxAttrKind.deserialize (fx : Fix) : TxAttrKind → Bytes → M (TxAttr × Nat)
  | .truncatedUptoTx, b => truncatedUptoTxAttr_deserialize b
  | .extra, b => extraAttr_deserialize fx b

/-- `md.attributes[attr.code()] = attr` -/
def TxMetadata.set (md : TxMetadata) : TxAttr → TxMetadata
  | .truncatedUptoTx t => { md with truncatedUptoTx := some t }
  | .extra e => { md with extra := some e }

/--
The `for { … }` loop of `TxMetadata.ReadFrom`:
```go
	for {
		if len(b) == i { break }
		if len(b[i:]) < attrCodeSize { return ErrCorruptedData }
		attrCode := attributeCode(b[i]); i += attrCodeSize
		attr, err := getAttributeFrom(attrCode); if err != nil { return err }
		n, err := attr.deserialize(b[i:]); if err != nil { return fmt.Errorf("…: %w", err) }
		i += n
		md.attributes[attr.code()] = attr
	}
```
`fuel` bounds the number of iterations (`len(b)+1` suffices: `txMetadata_readFrom_fuel`). -/
def TxMetadata.readFromLoop (fx : Fix) : Nat → Bytes → Nat → TxMetadata → M TxMetadata
  | 0, _, _, _ => M.fail .fuel
  | fuel+1, b, i, md =>
    if b.length = i then pure md
    else do
      let rest ← sliceFrom b i
      if rest.length < storeAttrCodeSize then M.fail .corruptedData
      else do
        let c ← idx b i
        let i := i + storeAttrCodeSize
        let attr ← getAttributeFrom c.toNat
        let s ← sliceFrom b i
        let (a, n) ← attr.deserialize fx s
        let i := i + n
        TxMetadata.readFromLoop fx fuel b i (md.set a)

/-- `func (md *TxMetadata) ReadFrom(b []byte) error` on a `NewTxMetadata()`. -/
def TxMetadata.readFrom (fx : Fix) (b : Bytes) : M TxMetadata :=
  if b.length > storeMaxTxMetadataLen then M.fail .corruptedData
  else TxMetadata.readFromLoop fx (b.length + 1) b 0 {}

/-! Encoding side, only what the decoders' callers need (`Bytes()` is called on decoded metadata by
`OngoingTx.validateAgainst` / `TxHeader.Alh`). -/

/--
```go
func (a *extraAttribute) serialize() []byte {
	var b [sszSize + maxExtraLen]byte
	binary.BigEndian.PutUint16(b[:], uint16(len(a.extra)))
	copy(b[sszSize:], a.extra)
	return b[:sszSize+len(a.extra)]
}
``` -/
def extraAttr_serialize (extra : Bytes) : M Bytes := do
  let b := ImmuModel.be16 extra.length ++ copyFixed storeMaxExtraLen extra
  sliceTo b (storeSszSize + extra.length)

def truncatedUptoTxAttr_serialize (txID : Nat) : Bytes := ImmuModel.be64 txID

/-- `func (md *TxMetadata) Bytes() []byte` -/
def TxMetadata.bytes (md : TxMetadata) : M Bytes := do
  let b1 := match md.truncatedUptoTx with
    | some t => UInt8.ofNat storeTruncatedUptoTxAttrCode :: truncatedUptoTxAttr_serialize t
    | none => []
  match md.extra with
  | some e => do
    let s ← extraAttr_serialize e
    pure (b1 ++ UInt8.ofNat storeExtraAttrCode :: s)
  | none => pure b1

end ImmuModel.Decode
