/-
C16 — transliteration of `TxHeader.ReadFrom` (/repo/embedded/store/tx.go).
-/
import ImmuModel.Decode.TxMetadata
namespace ImmuModel.Decode
open ImmuModel ImmuModel.Go ImmuModel.Gen

def sha256Size : Nat := 32

structure TxHeader where
  id : Nat := 0
  ts : Nat := 0                 -- raw uint64 (Go: int64(uint64))
  blTxID : Nat := 0
  blRoot : Bytes := List.replicate 32 0
  prevAlh : Bytes := List.replicate 32 0
  version : Nat := 0
  metadata : Option TxMetadata := none
  nentries : Nat := 0
  eh : Bytes := List.replicate 32 0
  deriving DecidableEq, Repr, Inhabited

/--
```go
func (hdr *TxHeader) ReadFrom(b []byte) error {
	if len(b) < txIDSize+sha256.Size+tsSize+2*sszSize+sha256.Size+txIDSize+sha256.Size { return ErrIllegalArguments }
	i := 0
	hdr.ID = binary.BigEndian.Uint64(b[i:]); i += txIDSize
	if hdr.ID < 1 { return ErrIllegalArguments (wrapped) }
	copy(hdr.PrevAlh[:], b[i:]); i += sha256.Size
	hdr.Ts = int64(binary.BigEndian.Uint64(b[i:])); i += tsSize
	hdr.Version = int(binary.BigEndian.Uint16(b[i:])); i += sszSize
	switch hdr.Version {
	case 0: hdr.NEntries = int(binary.BigEndian.Uint16(b[i:])); i += sszSize
	case 1:
		mdLen := int(binary.BigEndian.Uint16(b[i:])); i += sszSize
		if len(b) < i+mdLen+lszSize || mdLen > maxTxMetadataLen { return ErrCorruptedData }
		if mdLen > 0 {
			hdr.Metadata = NewTxMetadata()
			err := hdr.Metadata.ReadFrom(b[i : i+mdLen]); if err != nil { return err }
			i += mdLen
		}
		hdr.NEntries = int(binary.BigEndian.Uint32(b[i:])); i += lszSize
	default: return ErrNewerVersionOrCorruptedData
	}
	if hdr.NEntries < 1 { return ErrIllegalArguments (wrapped) }
	if len(b) < i+sha256.Size+txIDSize+sha256.Size { return ErrCorruptedData }        // FIX hdrTail
	copy(hdr.Eh[:], b[i:]); i += sha256.Size
	hdr.BlTxID = binary.BigEndian.Uint64(b[i:]); i += txIDSize
	if hdr.BlTxID >= hdr.ID { return ErrIllegalArguments (wrapped) }
	copy(hdr.BlRoot[:], b[i:]); i += sha256.Size
	return nil
}
```
The minimum-length test covers the v0 layout only; for version 1 only the guard marked FIX checks that
the 72 bytes after `NEntries` are present (`fx.hdrTail = false`: the code before the repair). -/
def TxHeader.readFrom (fx : Fix) (b : Bytes) : M TxHeader :=
  if b.length < storeTxIDSize + sha256Size + storeTsSize + 2*storeSszSize + sha256Size + storeTxIDSize + sha256Size then
    M.fail .illegalArguments
  else do
    let hdr : TxHeader := {}
    let i := 0
    let id ← be64At b i
    let hdr := { hdr with id := id }
    let i := i + storeTxIDSize
    if id < 1 then M.fail .illegalArguments
    else do
      let s ← sliceFrom b i
      let hdr := { hdr with prevAlh := copyFixed sha256Size s }
      let i := i + sha256Size
      let ts ← be64At b i
      let hdr := { hdr with ts := ts }
      let i := i + storeTsSize
      let version ← be16At b i
      let hdr := { hdr with version := version }
      let i := i + storeSszSize
      -- switch hdr.Version
      let (hdr, i) ← (
        if version = 0 then do
          let n ← be16At b i
          pure ({ hdr with nentries := n }, i + storeSszSize)
        else if version = 1 then do
          let mdLen ← be16At b i
          let i := i + storeSszSize
          if b.length < i + mdLen + storeLszSize || mdLen > storeMaxTxMetadataLen then M.fail .corruptedData
          else do
            let (hdr, i) ← (
              if mdLen > 0 then do
                let s ← slice b i (i + mdLen)
                let md ← TxMetadata.readFrom fx s
                pure ({ hdr with metadata := some md }, i + mdLen)
              else pure (hdr, i) : M (TxHeader × Nat))
            let n ← be32At b i
            pure ({ hdr with nentries := n }, i + storeLszSize)
        else M.fail .newerVersionOrCorruptedData : M (TxHeader × Nat))
      if hdr.nentries < 1 then M.fail .illegalArguments
      -- FIX hdrTail: if len(b) < i+sha256.Size+txIDSize+sha256.Size { return ErrCorruptedData }
      else if fx.hdrTail && b.length < i + sha256Size + storeTxIDSize + sha256Size then M.fail .corruptedData
      else do
        let s ← sliceFrom b i
        let hdr := { hdr with eh := copyFixed sha256Size s }
        let i := i + sha256Size
        let blTxID ← be64At b i
        let hdr := { hdr with blTxID := blTxID }
        let i := i + storeTxIDSize
        if hdr.blTxID ≥ hdr.id then M.fail .illegalArguments
        else do
          let s ← sliceFrom b i
          let hdr := { hdr with blRoot := copyFixed sha256Size s }
          pure hdr

end ImmuModel.Decode
