/-
C16 — transliteration of /repo/embedded/store/kv_metadata.go (decoding side).
-/
import ImmuModel.Base.GoSlice
import ImmuModel.Gen.Consts
import ImmuModel.Gen.ConstsC16
namespace ImmuModel.Decode
open ImmuModel ImmuModel.Go ImmuModel.Gen

/-- `KVMetadata.attributes` (map keyed by attribute code; three codes exist). -/
structure KVMetadata where
  deleted : Bool := false
  expiresAt : Option Nat := none    -- raw uint64 of the unix seconds
  nonIndexable : Bool := false
  deriving DecidableEq, Repr, Inhabited

inductive KVAttrKind where
  | deleted | expiresAt | nonIndexable
  deriving DecidableEq, Repr

inductive KVAttr where
  | deleted
  | expiresAt (ts : Nat)
  | nonIndexable
  deriving DecidableEq, Repr

/-- `deletedAttribute.deserialize`: `return 0, nil` -/
def deletedAttr_deserialize (_b : Bytes) : M (KVAttr × Nat) := pure (.deleted, 0)

/--
```go
func (a *expiresAtAttribute) deserialize(b []byte) (int, error) {
	if len(b) < tsSize { return 0, ErrCorruptedData }
	a.expiresAt = time.Unix(int64(binary.BigEndian.Uint64(b)), 0)
	return tsSize, nil
}
``` -/
def expiresAtAttr_deserialize (b : Bytes) : M (KVAttr × Nat) :=
  if b.length < storeTsSize then M.fail .corruptedData
  else do
    let ts ← rdU64 b
    pure (.expiresAt ts, storeTsSize)

/-- `nonIndexableAttribute.deserialize`: `return 0, nil` -/
def nonIndexableAttr_deserialize (_b : Bytes) : M (KVAttr × Nat) := pure (.nonIndexable, 0)

/-- `newAttribute(attrCode)` -/
def newAttribute (attrCode : Nat) : M KVAttrKind :=
  if attrCode = storeDeletedAttrCode then pure .deleted
  else if attrCode = storeExpiresAtAttrCode then pure .expiresAt
  else if attrCode = storeNonIndexableAttrCode then pure .nonIndexable
  else M.fail .corruptedData

def KVAttrKind.deserialize : KVAttrKind → Bytes → M (KVAttr × Nat)
  | .deleted, b => deletedAttr_deserialize b
  | .expiresAt, b => expiresAtAttr_deserialize b
  | .nonIndexable, b => nonIndexableAttr_deserialize b

def KVMetadata.set (md : KVMetadata) : KVAttr → KVMetadata
  | .deleted => { md with deleted := true }
  | .expiresAt t => { md with expiresAt := some t }
  | .nonIndexable => { md with nonIndexable := true }

/-- The `for { … }` loop of `KVMetadata.unsafeReadFrom` (same shape as `TxMetadata.ReadFrom`).
Zero-width attributes (`deleted`, `nonIndexable`) still consume their code byte, so `i` grows by
at least `attrCodeSize` per iteration. -/
def KVMetadata.unsafeReadFromLoop : Nat → Bytes → Nat → KVMetadata → M KVMetadata
  | 0, _, _, _ => M.fail .fuel
  | fuel+1, b, i, md =>
    if b.length = i then pure md
    else do
      let rest ← sliceFrom b i
      if rest.length < storeAttrCodeSize then M.fail .corruptedData
      else do
        let c ← idx b i
        let i := i + storeAttrCodeSize
        let attr ← newAttribute c.toNat
        let s ← sliceFrom b i
        let (a, n) ← attr.deserialize s
        let i := i + n
        KVMetadata.unsafeReadFromLoop fuel b i (md.set a)

/-- `func (md *KVMetadata) unsafeReadFrom(b []byte) error` on a fresh metadata object. -/
def KVMetadata.unsafeReadFrom (b : Bytes) : M KVMetadata :=
  if b.length > storeMaxKVMetadataLen then M.fail .corruptedData
  else KVMetadata.unsafeReadFromLoop (b.length + 1) b 0 {}

end ImmuModel.Decode
