/-
C16 — transliteration of `DecodeValueLength` / `decodeValue` (`DecodeValue`, `DecodeNullableValue`)
of /repo/embedded/sql/catalog.go (row-value decoding).  `json.Unmarshal` and `uuid.FromBytes` (which
cannot fail on 16 bytes) are outside the model: the JSON payload is returned raw.
-/
import ImmuModel.Base.GoSlice
import ImmuModel.Gen.Consts
namespace ImmuModel.Decode
open ImmuModel ImmuModel.Go ImmuModel.Gen

inductive SqlType where
  | varchar | integer | boolean | blob | json | uuid | timestamp | float64
  | other    -- any SQLValueType not handled by the switch (e.g. "ANY")
  deriving DecidableEq, Repr

inductive SqlVal where
  | null
  | varchar (v : Bytes)
  | integer (u : Nat)       -- raw uint64
  | bool (v : Bool)
  | blob (v : Bytes)
  | json (raw : Bytes)
  | uuid (v : Bytes)
  | timestamp (u : Nat)
  | float64 (bits : Nat)
  deriving DecidableEq, Repr

/--
```go
func DecodeValueLength(b []byte) (int, int, error) {
	if len(b) < EncLenLen { return 0, 0, ErrCorruptedData }
	vlen := int(binary.BigEndian.Uint32(b[:]))
	voff := EncLenLen
	if vlen < 0 || len(b) < voff+vlen { return 0, 0, ErrCorruptedData }
	return vlen, EncLenLen, nil
}
``` (`vlen < 0` cannot happen where `int` has 64 bits) -/
def decodeValueLength (b : Bytes) : M (Nat × Nat) :=
  if b.length < sqlEncLenLen then M.fail .corruptedData
  else do
    let vlen ← rdU32 b
    let voff := sqlEncLenLen
    if b.length < voff + vlen then M.fail .corruptedData
    else pure (vlen, sqlEncLenLen)

/-- `decodeValue(b, colType, nullable)` -/
def decodeValue (b : Bytes) (colType : SqlType) (nullable : Bool) : M (SqlVal × Nat) := do
  let (vlen, voff) ← decodeValueLength b
  if vlen = 0 && nullable then pure (.null, voff)
  else
    match colType with
    | .varchar => do
      let v ← slice b voff (voff + vlen)
      pure (.varchar v, voff + vlen)
    | .integer =>
      if vlen ≠ 8 then M.fail .corruptedData
      else do
        let v ← be64At b voff
        pure (.integer v, voff + vlen)
    | .boolean =>
      if vlen ≠ 1 then M.fail .corruptedData
      else do
        let x ← idx b voff
        pure (.bool (x.toNat = 1), voff + 1)
    | .blob => do
      let v ← slice b voff (voff + vlen)
      pure (.blob v, voff + vlen)
    | .json => do
      let v ← slice b voff (voff + vlen)
      pure (.json v, voff + vlen)
    | .uuid =>
      if vlen ≠ 16 then M.fail .corruptedData
      else do
        let v ← slice b voff (voff + 16)
        pure (.uuid v, voff + vlen)
    | .timestamp =>
      if vlen ≠ 8 then M.fail .corruptedData
      else do
        let v ← be64At b voff
        pure (.timestamp v, voff + vlen)
    | .float64 =>
      if vlen ≠ 8 then M.fail .corruptedData
      else do
        let v ← be64At b voff
        pure (.float64 v, voff + vlen)
    | .other => M.fail .corruptedData

end ImmuModel.Decode
