/-
C16 — proofs about the `TxHeader.ReadFrom` transliteration.
-/
import ImmuModel.Decode.Proofs.TxMetadata
import ImmuModel.Decode.TxHeader
namespace ImmuModel.Decode
open ImmuModel ImmuModel.Go ImmuModel.Gen

theorem txHeader_readFrom_fixed_noPanic (fx : Fix) (hmd : fx.extraLen = true) (htl : fx.hdrTail = true) (b : Bytes) :
    NoPanic (TxHeader.readFrom fx b) := by
  unfold TxHeader.readFrom
  c16_consts
  have h32 : sha256Size = 32 := rfl
  refine NoPanic.ite (fun _ => NoPanic.fail _) (fun hlen => ?_)
  simp (disch := omega) only [bind_eq, pure_eq, be64At_ok, be16At_ok, sliceFrom_ok, M.pure_bind]
  refine NoPanic.ite (fun _ => NoPanic.fail _) (fun _ => ?_)
  refine NoPanic.bind ?_ (fun r _ => ?_)
  · -- switch hdr.Version
    refine NoPanic.ite (fun _ => NoPanic.pure _) (fun _ => NoPanic.ite (fun _ => ?_) (fun _ => NoPanic.fail _))
    refine NoPanic.ite (fun _ => NoPanic.fail _) (fun hg => ?_)
    simp only [Bool.or_eq_true, decide_eq_true_eq, not_or] at hg
    refine (Post.bind (P := fun r => r.2 + 4 ≤ b.length) ?_ (fun r hr => ?_)).noPanic (P := fun _ => True)
    · refine Post.ite (fun _ => ?_) (fun _ => Post.pure (by simp only; omega))
      rw [slice_ok (by omega) (by omega)]
      simp only [M.pure_bind]
      refine Post.bind (Post.of_noPanic (txMetadata_readFrom_fixed_noPanic fx hmd _)) (fun md _ => ?_)
      exact Post.pure (by simp only; omega)
    · rw [be32At_ok (by omega)]
      simp only [M.pure_bind]
      exact Post.pure trivial
  · refine NoPanic.ite (fun _ => NoPanic.fail _) (fun _ => ?_)
    refine NoPanic.ite (fun _ => NoPanic.fail _) (fun hg => ?_)
    rw [htl] at hg
    simp only [Bool.true_and, decide_eq_true_eq] at hg
    have hg' : ¬ (b.length < r.2 + sha256Size + storeTxIDSize) := fun h => hg (by simpa using h)
    simp (disch := omega) only [be64At_ok, sliceFrom_ok, M.pure_bind]
    refine NoPanic.ite (fun _ => NoPanic.fail _) (fun _ => NoPanic.pure _)

/-- The code as it is behaves like the code with the tail guard (and the guarded metadata decoder),
or panics where that one returns an error. -/
theorem txHeader_readFrom_rel (b : Bytes) :
    PanicOr (TxHeader.readFrom Fix.none b) (TxHeader.readFrom Fix.all b) := by
  unfold TxHeader.readFrom
  c16_consts
  have h32 : sha256Size = 32 := rfl
  refine PanicOr.ite (fun _ => PanicOr.refl _) (fun hlen => ?_)
  simp (disch := omega) only [bind_eq, pure_eq, be64At_ok, be16At_ok, sliceFrom_ok, M.pure_bind]
  refine PanicOr.ite (fun _ => PanicOr.refl _) (fun _ => ?_)
  refine PanicOr.bind ?_ (fun r => ?_)
  · refine PanicOr.ite (fun _ => PanicOr.refl _) (fun _ => PanicOr.ite (fun _ => ?_) (fun _ => PanicOr.refl _))
    refine PanicOr.ite (fun _ => PanicOr.refl _) (fun hg => ?_)
    simp only [Bool.or_eq_true, decide_eq_true_eq, not_or] at hg
    refine PanicOr.bind ?_ (fun r => PanicOr.refl _)
    refine PanicOr.ite (fun _ => ?_) (fun _ => PanicOr.refl _)
    rw [slice_ok (by omega) (by omega)]
    simp only [M.pure_bind]
    exact PanicOr.bind (txMetadata_readFrom_rel _) (fun md => PanicOr.refl _)
  · refine PanicOr.ite (fun _ => PanicOr.refl _) (fun _ => ?_)
    simp only [Fix.none_hdrTail, Fix.all_hdrTail, Bool.false_and, Bool.false_eq_true, if_false, Bool.true_and, decide_eq_true_eq]
    refine PanicOr.guard (fun hg => ?_) (fun _ => PanicOr.refl _)
    by_cases hi : r.2 ≤ b.length
    · rw [sliceFrom_ok hi]
      simp only [M.pure_bind]
      exact M.bind_res_panic (be64At_panic (by omega))
    · rw [sliceFrom_panic (by omega)]
      simp

/-- Version-0 headers: the minimum-length test covers the whole layout, the code as it is never panics. -/
theorem txHeader_readFrom_v0_noPanic (b : Bytes) (hv : beVal ((b.drop 48).take 2) = 0) :
    NoPanic (TxHeader.readFrom Fix.none b) := by
  unfold TxHeader.readFrom
  c16_consts
  have h32 : sha256Size = 32 := rfl
  refine NoPanic.ite (fun _ => NoPanic.fail _) (fun hlen => ?_)
  simp (disch := omega) only [bind_eq, pure_eq, be64At_ok, be16At_ok, sliceFrom_ok, M.pure_bind]
  have h48 : 0 + storeTxIDSize + sha256Size + storeTsSize = 48 := by omega
  rw [h48, hv]
  refine NoPanic.ite (fun _ => NoPanic.fail _) (fun _ => ?_)
  simp only [if_true, M.pure_bind]
  refine NoPanic.ite (fun _ => NoPanic.fail _) (fun _ => ?_)
  simp (disch := omega) only [Fix.none_hdrTail, Bool.false_and, Bool.false_eq_true, if_false, be64At_ok, sliceFrom_ok, M.pure_bind]
  refine NoPanic.ite (fun _ => NoPanic.fail _) (fun _ => NoPanic.pure _)


/-- `TxHeader.ReadFrom` allocates only through the metadata decoder, whose input is at most
`maxTxMetadataLen` bytes. -/
theorem txHeader_readFrom_alloc (fx : Fix) (b : Bytes) :
    allocated (TxHeader.readFrom fx b) ≤ storeMaxTxMetadataLen + 65535 := by
  show AllocLe _ _
  unfold TxHeader.readFrom
  c16_consts
  have h32 : sha256Size = 32 := rfl
  refine AllocLe.ite (fun _ => AllocLe.fail _ _) (fun hlen => ?_)
  simp (disch := omega) only [bind_eq, pure_eq, be64At_ok, be16At_ok, sliceFrom_ok, M.pure_bind]
  refine AllocLe.ite (fun _ => AllocLe.fail _ _) (fun _ => ?_)
  refine AllocLe.bind (A := storeMaxTxMetadataLen + 65535) (B := 0) ?_ (fun r _ => ?_) (by omega)
  · refine AllocLe.ite (fun _ => AllocLe.pure _ _) (fun _ => AllocLe.ite (fun _ => ?_) (fun _ => AllocLe.fail _ _))
    refine AllocLe.ite (fun _ => AllocLe.fail _ _) (fun hg => ?_)
    simp only [Bool.or_eq_true, decide_eq_true_eq, not_or] at hg
    refine AllocLe.bind (A := storeMaxTxMetadataLen + 65535) (B := 0) ?_ (fun r _ => ?_) (by omega)
    · refine AllocLe.ite (fun _ => ?_) (fun _ => AllocLe.pure _ _)
      rw [slice_ok (by omega) (by omega)]
      simp only [M.pure_bind]
      refine AllocLe.bind (A := storeMaxTxMetadataLen + 65535) (B := 0) ?_ (fun _ _ => AllocLe.pure _ _) (by omega)
      have := txMetadata_readFrom_alloc fx
        (List.drop (0 + storeTxIDSize + sha256Size + storeTsSize + storeSszSize + storeSszSize)
          (List.take (0 + storeTxIDSize + sha256Size + storeTsSize + storeSszSize + storeSszSize +
            beVal (List.take 2 (List.drop (0 + storeTxIDSize + sha256Size + storeTsSize + storeSszSize) b))) b))
      unfold allocated at this
      unfold AllocLe
      simp only [List.length_drop, List.length_take] at this
      omega
    · exact AllocLe.bind0 (be32At_alloc _ _) (fun _ _ => AllocLe.pure _ _)
  · refine AllocLe.ite (fun _ => AllocLe.fail _ _) (fun _ => ?_)
    refine AllocLe.ite (fun _ => AllocLe.fail _ _) (fun _ => ?_)
    refine AllocLe.bind0 (sliceFrom_alloc _ _) (fun _ _ => ?_)
    refine AllocLe.bind0 (be64At_alloc _ _) (fun _ _ => ?_)
    refine AllocLe.ite (fun _ => AllocLe.fail _ _) (fun _ => ?_)
    exact AllocLe.bind0 (sliceFrom_alloc _ _) (fun _ _ => AllocLe.pure _ _)

end ImmuModel.Decode
