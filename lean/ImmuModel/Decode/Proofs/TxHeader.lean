/-
C16 — proofs about the `TxHeader.ReadFrom` transliteration.
-/
import ImmuModel.Decode.Proofs.TxMetadata
import ImmuModel.Decode.TxHeader
namespace ImmuModel.Decode
open ImmuModel ImmuModel.Go ImmuModel.Gen

theorem txHeader_readFrom_fixed_noPanic (fx : Fix) (hmd : fx.extraLen = true) (htl : fx.hdrTail = true) (b : Bytes) :
    NoPanic (TxHeader.readFrom fx b) := by
  unfold TxHeader.readFrom
  c16_consts
  have h32 : sha256Size = 32 := rfl
  refine NoPanic.ite (fun _ => NoPanic.fail _) (fun hlen => ?_)
  simp (disch := omega) only [bind_eq, pure_eq, be64At_ok, be16At_ok, sliceFrom_ok, M.pure_bind]
  refine NoPanic.ite (fun _ => NoPanic.fail _) (fun _ => ?_)
  refine NoPanic.bind ?_ (fun r _ => ?_)
  · -- switch hdr.Version
    refine NoPanic.ite (fun _ => NoPanic.pure _) (fun _ => NoPanic.ite (fun _ => ?_) (fun _ => NoPanic.fail _))
    refine NoPanic.ite (fun _ => NoPanic.fail _) (fun hg => ?_)
    simp only [Bool.or_eq_true, decide_eq_true_eq, not_or] at hg
    refine (Post.bind (P := fun r => r.2 + 4 ≤ b.length) ?_ (fun r hr => ?_)).noPanic (P := fun _ => True)
    · refine Post.ite (fun _ => ?_) (fun _ => Post.pure (by simp only; omega))
      rw [slice_ok (by omega) (by omega)]
      simp only [M.pure_bind]
      refine Post.bind (Post.of_noPanic (txMetadata_readFrom_fixed_noPanic fx hmd _)) (fun md _ => ?_)
      exact Post.pure (by simp only; omega)
    · rw [be32At_ok (by omega)]
      simp only [M.pure_bind]
      exact Post.pure trivial
  · refine NoPanic.ite (fun _ => NoPanic.fail _) (fun _ => ?_)
    refine NoPanic.ite (fun _ => NoPanic.fail _) (fun hg => ?_)
    rw [htl] at hg
    simp only [Bool.true_and, decide_eq_true_eq] at hg
    have hg' : ¬ (b.length < r.2 + sha256Size + storeTxIDSize + sha256Size) := fun h => hg (by simpa using h)
    simp (disch := omega) only [be64At_ok, sliceFrom_ok, M.pure_bind]
    refine NoPanic.ite (fun _ => NoPanic.fail _) (fun _ => NoPanic.pure _)

theorem copyFixed_of_le {n : Nat} {src : Bytes} (h : n ≤ src.length) : copyFixed n src = src.take n := by
  unfold copyFixed
  rw [Nat.sub_eq_zero_of_le h]
  simp

/-- With the tail guard an accepted header has all of `Eh`, `BlTxID`, `BlRoot` in the buffer: `Eh` and
`BlRoot` are the 32 bytes at their offsets (no partially copied, zero-padded digest). -/
theorem txHeader_readFrom_fixed_tail (fx : Fix) (htl : fx.hdrTail = true) (b : Bytes) :
    PostOk (TxHeader.readFrom fx b) (fun h => ∃ i, i + 72 ≤ b.length ∧
      h.eh = (b.drop i).take 32 ∧ h.blTxID = beVal ((b.drop (i + 32)).take 8) ∧ h.blRoot = (b.drop (i + 40)).take 32) := by
  unfold TxHeader.readFrom
  c16_consts
  have h32 : sha256Size = 32 := rfl
  refine PostOk.ite (fun _ => PostOk.fail) (fun hlen => ?_)
  simp (disch := omega) only [bind_eq, pure_eq, be64At_ok, be16At_ok, sliceFrom_ok, M.pure_bind]
  refine PostOk.ite (fun _ => PostOk.fail) (fun _ => ?_)
  refine PostOk.bind (fun r _ => ?_)
  refine PostOk.ite (fun _ => PostOk.fail) (fun _ => ?_)
  refine PostOk.ite (fun _ => PostOk.fail) (fun hg => ?_)
  rw [htl] at hg
  simp only [Bool.true_and, decide_eq_true_eq] at hg
  have hg' : ¬ (b.length < r.2 + sha256Size + storeTxIDSize + sha256Size) := fun h => hg (by simpa using h)
  simp (disch := omega) only [be64At_ok, sliceFrom_ok, M.pure_bind]
  refine PostOk.ite (fun _ => PostOk.fail) (fun _ => ?_)
  have h8 : storeTxIDSize = 8 := rfl
  refine PostOk.pure ⟨r.2, by omega, ?_, ?_, ?_⟩
  · simp only []
    rw [h32, copyFixed_of_le (by simp only [List.length_drop]; omega)]
  · simp only []
    rw [h32]
  · simp only []
    rw [h32, h8, copyFixed_of_le (by simp only [List.length_drop]; omega)]

/-- `TxHeader.ReadFrom` allocates only through the metadata decoder, whose input is at most
`maxTxMetadataLen` bytes. -/
theorem txHeader_readFrom_alloc (fx : Fix) (b : Bytes) :
    allocated (TxHeader.readFrom fx b) ≤ storeMaxTxMetadataLen + 65535 := by
  show AllocLe _ _
  unfold TxHeader.readFrom
  c16_consts
  have h32 : sha256Size = 32 := rfl
  refine AllocLe.ite (fun _ => AllocLe.fail _ _) (fun hlen => ?_)
  simp (disch := omega) only [bind_eq, pure_eq, be64At_ok, be16At_ok, sliceFrom_ok, M.pure_bind]
  refine AllocLe.ite (fun _ => AllocLe.fail _ _) (fun _ => ?_)
  refine AllocLe.bind (A := storeMaxTxMetadataLen + 65535) (B := 0) ?_ (fun r _ => ?_) (by omega)
  · refine AllocLe.ite (fun _ => AllocLe.pure _ _) (fun _ => AllocLe.ite (fun _ => ?_) (fun _ => AllocLe.fail _ _))
    refine AllocLe.ite (fun _ => AllocLe.fail _ _) (fun hg => ?_)
    simp only [Bool.or_eq_true, decide_eq_true_eq, not_or] at hg
    refine AllocLe.bind (A := storeMaxTxMetadataLen + 65535) (B := 0) ?_ (fun r _ => ?_) (by omega)
    · refine AllocLe.ite (fun _ => ?_) (fun _ => AllocLe.pure _ _)
      rw [slice_ok (by omega) (by omega)]
      simp only [M.pure_bind]
      refine AllocLe.bind (A := storeMaxTxMetadataLen + 65535) (B := 0) ?_ (fun _ _ => AllocLe.pure _ _) (by omega)
      have := txMetadata_readFrom_alloc fx
        (List.drop (0 + storeTxIDSize + sha256Size + storeTsSize + storeSszSize + storeSszSize)
          (List.take (0 + storeTxIDSize + sha256Size + storeTsSize + storeSszSize + storeSszSize +
            beVal (List.take 2 (List.drop (0 + storeTxIDSize + sha256Size + storeTsSize + storeSszSize) b))) b))
      unfold allocated at this
      unfold AllocLe
      simp only [List.length_drop, List.length_take] at this
      omega
    · exact AllocLe.bind0 (be32At_alloc _ _) (fun _ _ => AllocLe.pure _ _)
  · refine AllocLe.ite (fun _ => AllocLe.fail _ _) (fun _ => ?_)
    refine AllocLe.ite (fun _ => AllocLe.fail _ _) (fun _ => ?_)
    refine AllocLe.bind0 (sliceFrom_alloc _ _) (fun _ _ => ?_)
    refine AllocLe.bind0 (be64At_alloc _ _) (fun _ _ => ?_)
    refine AllocLe.ite (fun _ => AllocLe.fail _ _) (fun _ => ?_)
    exact AllocLe.bind0 (sliceFrom_alloc _ _) (fun _ _ => AllocLe.pure _ _)

end ImmuModel.Decode
