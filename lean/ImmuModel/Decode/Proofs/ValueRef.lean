/-
C16 — proofs about the `valueRefFrom` transliteration: its own bounds checks are complete, the only
way it can panic is through `TxMetadata.ReadFrom`.
-/
import ImmuModel.Decode.Proofs.TxMetadata
import ImmuModel.Decode.Proofs.KVMetadata
import ImmuModel.Decode.ValueRef
namespace ImmuModel.Decode
open ImmuModel ImmuModel.Go ImmuModel.Gen

theorem valueRefFrom_noPanic_of (fx : Fix) (b : Bytes)
    (hmd : ∀ s, NoPanic (TxMetadata.readFrom fx s)) : NoPanic (valueRefFrom fx b) := by
  unfold valueRefFrom
  c16_consts
  have h32 : sha256Size = 32 := rfl
  simp only []
  refine NoPanic.ite (fun _ => NoPanic.fail _) (fun hlen => ?_)
  simp (disch := omega) only [bind_eq, pure_eq, be64At_ok, be32At_ok, be16At_ok, sliceFrom_ok, M.pure_bind]
  refine NoPanic.bind ?_ (fun r _ => NoPanic.ite (fun _ => NoPanic.fail _) (fun _ => NoPanic.pure _))
  refine NoPanic.ite (fun _ => ?_) (fun _ => NoPanic.pure _)
  refine NoPanic.ite (fun _ => NoPanic.fail _) (fun h2 => ?_)
  refine NoPanic.ite (fun _ => NoPanic.fail _) (fun hg => ?_)
  simp only [Bool.or_eq_true, decide_eq_true_eq, not_or] at hg
  refine (Post.bind (P := fun r => r.2 + 2 ≤ b.length) (Q := fun _ => True) ?_ (fun r hr => ?_)).noPanic
  · refine Post.ite (fun _ => ?_) (fun _ => Post.pure (by simp only; omega))
    rw [slice_ok (by omega) (by omega)]
    simp only [M.pure_bind]
    exact Post.bind (Post.of_noPanic (hmd _)) (fun md _ => Post.pure (by simp only; omega))
  · rw [be16At_ok (by omega)]
    simp only [M.pure_bind]
    refine Post.ite (fun _ => Post.fail) (fun hg2 => ?_)
    simp only [Bool.or_eq_true, decide_eq_true_eq, not_or] at hg2
    refine Post.bind (P := fun _ => True) ?_ (fun _ _ => Post.pure trivial)
    refine Post.ite (fun _ => ?_) (fun _ => Post.pure trivial)
    rw [slice_ok (by omega) (by omega)]
    simp only [M.pure_bind]
    exact Post.bind (Post.of_noPanic (kvMetadata_unsafeReadFrom_noPanic _)) (fun _ _ => Post.pure trivial)

theorem valueRefFrom_fixed_noPanic (fx : Fix) (hmd : fx.extraLen = true) (b : Bytes) : NoPanic (valueRefFrom fx b) :=
  valueRefFrom_noPanic_of fx b (txMetadata_readFrom_fixed_noPanic fx hmd)

theorem valueRefFrom_alloc (fx : Fix) (b : Bytes) :
    allocated (valueRefFrom fx b) ≤ storeMaxTxMetadataLen + 65535 := by
  show AllocLe _ _
  unfold valueRefFrom
  c16_consts
  have h32 : sha256Size = 32 := rfl
  simp only []
  refine AllocLe.ite (fun _ => AllocLe.fail _ _) (fun hlen => ?_)
  simp (disch := omega) only [bind_eq, pure_eq, be64At_ok, be32At_ok, be16At_ok, sliceFrom_ok, M.pure_bind]
  refine AllocLe.bind (A := storeMaxTxMetadataLen + 65535) (B := 0) ?_
    (fun r _ => AllocLe.ite (fun _ => AllocLe.fail _ _) (fun _ => AllocLe.pure _ _)) (by omega)
  refine AllocLe.ite (fun _ => ?_) (fun _ => AllocLe.pure _ _)
  refine AllocLe.ite (fun _ => AllocLe.fail _ _) (fun h2 => ?_)
  refine AllocLe.ite (fun _ => AllocLe.fail _ _) (fun hg => ?_)
  simp only [Bool.or_eq_true, decide_eq_true_eq, not_or] at hg
  refine AllocLe.bind (A := storeMaxTxMetadataLen + 65535) (B := 0) ?_ (fun r _ => ?_) (by omega)
  · refine AllocLe.ite (fun _ => ?_) (fun _ => AllocLe.pure _ _)
    rw [slice_ok (by omega) (by omega)]
    simp only [M.pure_bind]
    refine AllocLe.bind (A := storeMaxTxMetadataLen + 65535) (B := 0) ?_ (fun _ _ => AllocLe.pure _ _) (by omega)
    have := txMetadata_readFrom_alloc fx
      (List.drop (0 + storeLszSize + storeOffsetSize + sha256Size + storeSszSize)
        (List.take (0 + storeLszSize + storeOffsetSize + sha256Size + storeSszSize +
          beVal (List.take 2 (List.drop (0 + storeLszSize + storeOffsetSize + sha256Size) b))) b))
    unfold allocated at this
    unfold AllocLe
    simp only [List.length_drop, List.length_take] at this
    omega
  · refine AllocLe.bind0 (be16At_alloc _ _) (fun kvmdLen _ => ?_)
    refine AllocLe.ite (fun _ => AllocLe.fail _ _) (fun _ => ?_)
    refine AllocLe.bind (A := 0) (B := 0) ?_ (fun _ _ => AllocLe.pure _ _) (by omega)
    refine AllocLe.ite (fun _ => ?_) (fun _ => AllocLe.pure _ _)
    refine AllocLe.bind0 (slice_alloc _ _ _) (fun s _ => ?_)
    exact AllocLe.bind0 (kvMetadata_unsafeReadFrom_all s).2.2 (fun _ _ => AllocLe.pure _ _)

end ImmuModel.Decode
