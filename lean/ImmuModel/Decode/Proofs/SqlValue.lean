import ImmuModel.Decode.Lemmas
import ImmuModel.Decode.SqlValue
namespace ImmuModel.Decode
open ImmuModel ImmuModel.Go ImmuModel.Gen

theorem decodeValueLength_post (b : Bytes) :
    Post (decodeValueLength b) (fun r => r.2 = 4 ∧ r.2 + r.1 ≤ b.length) := by
  unfold decodeValueLength
  have h4 : sqlEncLenLen = 4 := rfl
  refine Post.ite (fun _ => Post.fail) (fun h => ?_)
  rw [rdU32_ok (by omega)]
  simp only [bind_eq, pure_eq, M.pure_bind]
  refine Post.ite (fun _ => Post.fail) (fun h2 => ?_)
  exact Post.pure (by simp only; omega)

theorem decodeValueLength_alloc (b : Bytes) : (decodeValueLength b).alloc = 0 := by
  unfold decodeValueLength
  have h4 : sqlEncLenLen = 4 := rfl
  by_cases h : b.length < sqlEncLenLen
  · rw [if_pos h]; rfl
  · rw [if_neg h, rdU32_ok (by omega)]
    simp only [bind_eq, pure_eq, M.pure_bind]
    split <;> rfl

theorem decodeValue_noPanic' (b : Bytes) (t : SqlType) (nullable : Bool) : NoPanic (decodeValue b t nullable) := by
  unfold decodeValue
  simp only [bind_eq, pure_eq]
  refine ((decodeValueLength_post b).bind (Q := fun _ => True) (fun r hr => ?_)).noPanic
  obtain ⟨vlen, voff⟩ := r
  simp only at hr
  obtain ⟨h1, h2⟩ := hr
  subst h1
  refine Post.ite (fun _ => Post.pure trivial) (fun _ => ?_)
  cases t <;> simp only []
  · rw [slice_ok (by omega) (by omega)]; exact Post.pure trivial
  · refine Post.ite (fun _ => Post.fail) (fun h => ?_)
    rw [be64At_ok (by omega)]; exact Post.pure trivial
  · refine Post.ite (fun _ => Post.fail) (fun h => ?_)
    rw [idx_ok (by omega)]; exact Post.pure trivial
  · rw [slice_ok (by omega) (by omega)]; exact Post.pure trivial
  · rw [slice_ok (by omega) (by omega)]; exact Post.pure trivial
  · refine Post.ite (fun _ => Post.fail) (fun h => ?_)
    rw [slice_ok (by omega) (by omega)]; exact Post.pure trivial
  · refine Post.ite (fun _ => Post.fail) (fun h => ?_)
    rw [be64At_ok (by omega)]; exact Post.pure trivial
  · refine Post.ite (fun _ => Post.fail) (fun h => ?_)
    rw [be64At_ok (by omega)]; exact Post.pure trivial
  · exact Post.fail

end ImmuModel.Decode
