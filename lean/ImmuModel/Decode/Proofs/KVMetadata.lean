/-
C16 — proofs about the KVMetadata decoder transliteration (no defect: total).
-/
import ImmuModel.Decode.Lemmas
import ImmuModel.Decode.KVMetadata
namespace ImmuModel.Decode
open ImmuModel ImmuModel.Go ImmuModel.Gen

theorem expiresAtAttr_deserialize_post (b : Bytes) :
    Post (expiresAtAttr_deserialize b) (fun r => r.2 ≤ b.length) := by
  unfold expiresAtAttr_deserialize
  c16_consts
  refine Post.ite (fun _ => Post.fail) (fun h => ?_)
  rw [rdU64_ok (by omega)]
  simp only [bind_eq, pure_eq, M.pure_bind]
  exact Post.pure (by simp only; omega)

theorem expiresAtAttr_deserialize_alloc (b : Bytes) : (expiresAtAttr_deserialize b).alloc = 0 := by
  unfold expiresAtAttr_deserialize
  c16_consts
  by_cases h : b.length < storeTsSize
  · rw [if_pos h]; rfl
  · rw [if_neg h, rdU64_ok (by omega)]; rfl

theorem kvAttrKind_deserialize_post (k : KVAttrKind) (b : Bytes) :
    Post (k.deserialize b) (fun r => r.2 ≤ b.length) := by
  cases k with
  | deleted => exact Post.pure (by simp)
  | expiresAt => exact expiresAtAttr_deserialize_post b
  | nonIndexable => exact Post.pure (by simp)

theorem kvAttrKind_deserialize_alloc (k : KVAttrKind) (b : Bytes) : (k.deserialize b).alloc = 0 := by
  cases k with
  | deleted => rfl
  | expiresAt => exact expiresAtAttr_deserialize_alloc b
  | nonIndexable => rfl

theorem kvAttrKind_deserialize_err (k : KVAttrKind) (b : Bytes) (e : ErrClass)
    (h : (k.deserialize b).res = .err e) : e = .corruptedData := by
  cases k with
  | deleted => simp [KVAttrKind.deserialize, deletedAttr_deserialize] at h
  | nonIndexable => simp [KVAttrKind.deserialize, nonIndexableAttr_deserialize] at h
  | expiresAt =>
    simp only [KVAttrKind.deserialize, expiresAtAttr_deserialize] at h
    c16_consts
    by_cases hl : b.length < storeTsSize
    · rw [if_pos hl] at h; simp at h; exact h.symm
    · rw [if_neg hl, rdU64_ok (by omega)] at h; simp at h

theorem newAttribute_noPanic (c : Nat) : NoPanic (newAttribute c) := by
  unfold newAttribute
  repeat (first | exact NoPanic.pure _ | exact NoPanic.fail _ | split)

theorem newAttribute_alloc (c : Nat) : (newAttribute c).alloc = 0 := by
  unfold newAttribute
  repeat (first | rfl | split)

theorem newAttribute_err (c : Nat) (e : ErrClass) (h : (newAttribute c).res = .err e) : e = .corruptedData := by
  unfold newAttribute at h
  split at h
  · simp at h
  · split at h
    · simp at h
    · split at h
      · simp at h
      · simp at h; exact h.symm

/-- The loop never panics, never runs out of fuel and allocates nothing that depends on the input. -/
theorem kvMetadata_loop (fuel : Nat) (b : Bytes) (i : Nat) (md : KVMetadata)
    (hi : i ≤ b.length) (hf : b.length - i < fuel) :
    (KVMetadata.unsafeReadFromLoop fuel b i md).res ≠ .panic ∧
    (KVMetadata.unsafeReadFromLoop fuel b i md).res ≠ .err .fuel ∧
    (KVMetadata.unsafeReadFromLoop fuel b i md).alloc = 0 := by
  induction fuel generalizing i md with
  | zero => omega
  | succ fuel ih =>
    unfold KVMetadata.unsafeReadFromLoop
    by_cases hne : b.length = i
    · simp [hne]
    · have hlt : i < b.length := by omega
      c16_consts
      simp only [if_neg hne, sliceFrom_ok hi, bind_eq, M.pure_bind, List.length_drop]
      rw [if_neg (by omega), idx_ok hlt]
      simp only [M.pure_bind]
      have ha0 := newAttribute_alloc b[i].toNat
      cases hk : (newAttribute b[i].toNat).res with
      | panic => exact absurd hk (newAttribute_noPanic _)
      | err e =>
        have he := newAttribute_err _ _ hk
        subst he
        simp [M.bind, hk, ha0]
      | ok k =>
        rw [M.bind_res_ok hk, M.bind_alloc_ok hk, ha0]
        rw [sliceFrom_ok (by omega)]
        simp only [M.pure_bind]
        have hp := kvAttrKind_deserialize_post k (b.drop (i + storeAttrCodeSize))
        have hd0 := kvAttrKind_deserialize_alloc k (b.drop (i + storeAttrCodeSize))
        cases hd : (k.deserialize (b.drop (i + storeAttrCodeSize))).res with
        | panic => exact absurd hd hp.1
        | err e =>
          have he := kvAttrKind_deserialize_err _ _ _ hd
          subst he
          simp [M.bind, hd, hd0]
        | ok r =>
          rw [M.bind_res_ok hd, M.bind_alloc_ok hd, hd0]
          obtain ⟨a, n⟩ := r
          have := hp.2 (a, n) hd
          simp only [List.length_drop] at this
          have := ih (i + storeAttrCodeSize + n) (md.set a) (by omega) (by omega)
          simpa using this

theorem kvMetadata_unsafeReadFrom_all (b : Bytes) :
    (KVMetadata.unsafeReadFrom b).res ≠ .panic ∧ (KVMetadata.unsafeReadFrom b).res ≠ .err .fuel ∧
    (KVMetadata.unsafeReadFrom b).alloc = 0 := by
  unfold KVMetadata.unsafeReadFrom
  split
  · simp
  · exact kvMetadata_loop (b.length + 1) b 0 {} (by omega) (by omega)

theorem kvMetadata_unsafeReadFrom_noPanic (b : Bytes) : NoPanic (KVMetadata.unsafeReadFrom b) :=
  (kvMetadata_unsafeReadFrom_all b).1

end ImmuModel.Decode
