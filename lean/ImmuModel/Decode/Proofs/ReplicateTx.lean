/-
C16 — proofs about the transliteration of the framing part of `ReplicateTx`.
-/
import ImmuModel.Decode.Proofs.TxHeader
import ImmuModel.Decode.Proofs.KVMetadata
import ImmuModel.Decode.ReplicateTx
namespace ImmuModel.Decode
open ImmuModel ImmuModel.Go ImmuModel.Gen

theorem replicateEntries_fixed_noPanic (fx : Fix) (hv : fx.vLen = true) (b : Bytes) (todo i : Nat) (acc : List EntrySpec) :
    NoPanic (replicateEntries fx b todo i acc) := by
  induction todo generalizing i acc with
  | zero => exact NoPanic.pure _
  | succ todo ih =>
    unfold replicateEntries
    c16_consts
    refine NoPanic.ite (fun _ => NoPanic.fail _) (fun h1 => ?_)
    simp (disch := omega) only [bind_eq, pure_eq, be16At_ok, M.pure_bind]
    refine NoPanic.ite (fun _ => NoPanic.fail _) (fun h2 => ?_)
    refine NoPanic.bind (by simp [NoPanic, make_eq]) (fun key0 _ => ?_)
    simp (disch := omega) only [sliceFrom_ok, M.pure_bind]
    refine NoPanic.ite (fun _ => NoPanic.fail _) (fun h3 => ?_)
    refine (Post.bind (P := fun r => r.2 ≤ b.length) (Q := fun _ => True) ?_ (fun r hr => ?_)).noPanic
    · refine Post.ite (fun _ => ?_) (fun _ => Post.pure (by simp only; omega))
      rw [slice_ok (by omega) (by omega)]
      simp only [M.pure_bind]
      exact Post.bind (Post.of_noPanic (kvMetadata_unsafeReadFrom_noPanic _)) (fun _ _ => Post.pure (by simp only; omega))
    · refine Post.ite (fun _ => Post.fail) (fun h4 => ?_)
      rw [hv] at h4
      simp only [Bool.true_and, decide_eq_true_eq] at h4
      have h4' : ¬ (b.length < r.2 + storeLszSize) := fun h => h4 (by simpa using h)
      rw [be32At_ok (by omega)]
      simp only [M.pure_bind]
      refine Post.ite (fun _ => Post.fail) (fun h5 => ?_)
      rw [slice_ok (by omega) (by omega)]
      simp only [M.pure_bind]
      exact Post.of_noPanic (ih _ _)

theorem replicateTruncInfo_fixed_noPanic (fx : Fix) (ht : fx.tLen = true) (hz : fx.tZero = true) (b : Bytes) (i : Nat) :
    NoPanic (replicateTruncInfo fx b i) := by
  unfold replicateTruncInfo
  c16_consts
  refine NoPanic.ite (fun hi => ?_) (fun _ => NoPanic.pure _)
  refine NoPanic.ite (fun _ => NoPanic.fail _) (fun h1 => ?_)
  rw [ht] at h1
  simp only [Bool.true_and, decide_eq_true_eq] at h1
  have h1' : ¬ (b.length < i + storeSszSize) := fun h => h1 (by simpa using h)
  simp (disch := omega) only [bind_eq, pure_eq, be16At_ok, M.pure_bind]
  refine NoPanic.ite (fun _ => NoPanic.fail _) (fun h2 => ?_)
  rw [slice_ok (by omega) (by omega)]
  simp only [M.pure_bind]
  rw [hz]
  simp only [if_true]
  generalize List.drop (i + storeSszSize) (List.take (i + storeSszSize + beVal (List.take 2 (List.drop i b))) b) = v
  by_cases hv0 : v.length = 0
  · rw [if_pos hv0]
    simp only [M.pure_bind]
    exact NoPanic.ite (fun _ => NoPanic.fail _) (fun h => absurd trivial h)
  · rw [if_neg hv0, idx_ok (by omega)]
    simp only [M.pure_bind]
    refine NoPanic.ite (fun _ => NoPanic.fail _) (fun _ => NoPanic.pure _)

theorem replicateTxFraming_fixed_noPanic (fx : Fix) (hmd : fx.extraLen = true) (htl : fx.hdrTail = true)
    (hv : fx.vLen = true) (ht : fx.tLen = true) (hz : fx.tZero = true) (b : Bytes) :
    NoPanic (replicateTxFraming fx b) := by
  unfold replicateTxFraming
  c16_consts
  refine NoPanic.ite (fun _ => NoPanic.fail _) (fun h0 => ?_)
  simp only []
  refine NoPanic.ite (fun _ => NoPanic.fail _) (fun h1 => ?_)
  simp (disch := omega) only [bind_eq, pure_eq, be32At_ok, M.pure_bind]
  refine NoPanic.ite (fun _ => NoPanic.fail _) (fun h2 => ?_)
  rw [slice_ok (by omega) (by omega)]
  simp only [M.pure_bind]
  refine NoPanic.bind (txHeader_readFrom_fixed_noPanic fx hmd htl _) (fun hdr _ => ?_)
  refine NoPanic.bind (replicateEntries_fixed_noPanic fx hv _ _ _ _) (fun r _ => ?_)
  refine NoPanic.bind (replicateTruncInfo_fixed_noPanic fx ht hz _ _) (fun t _ => ?_)
  exact NoPanic.ite (fun _ => NoPanic.fail _) (fun _ => NoPanic.pure _)

/-! ### allocation -/

/-- The entries loop allocates the keys only; every key is part of the input. -/
theorem replicateEntries_alloc (fx : Fix) (b : Bytes) (todo i : Nat) (acc : List EntrySpec) :
    AllocLe (replicateEntries fx b todo i acc) (b.length - i) := by
  induction todo generalizing i acc with
  | zero => exact AllocLe.pure _ _
  | succ todo ih =>
    unfold replicateEntries
    c16_consts
    refine AllocLe.ite (fun _ => AllocLe.fail _ _) (fun h1 => ?_)
    simp (disch := omega) only [bind_eq, pure_eq, be16At_ok, M.pure_bind]
    refine AllocLe.ite (fun _ => AllocLe.fail _ _) (fun h2 => ?_)
    -- kLen bytes for the key, the rest of the iteration starts at least kLen+4 bytes further
    refine AllocLe.bind (A := beVal (List.take 2 (List.drop i b)))
      (B := b.length - (i + storeSszSize + beVal (List.take 2 (List.drop i b)) + storeSszSize))
      (by simp [AllocLe, make_eq]) (fun key0 _ => ?_) (by omega)
    simp (disch := omega) only [sliceFrom_ok, M.pure_bind]
    refine AllocLe.ite (fun _ => AllocLe.fail _ _) (fun h3 => ?_)
    have hblock : PostOk
        (if beVal (List.take 2 (List.drop (i + storeSszSize + beVal (List.take 2 (List.drop i b))) b)) > 0 then
          (slice b (i + storeSszSize + beVal (List.take 2 (List.drop i b)) + storeSszSize)
            (i + storeSszSize + beVal (List.take 2 (List.drop i b)) + storeSszSize +
              beVal (List.take 2 (List.drop (i + storeSszSize + beVal (List.take 2 (List.drop i b))) b)))).bind fun s =>
            (KVMetadata.unsafeReadFrom s).bind fun md =>
              M.pure (some md, i + storeSszSize + beVal (List.take 2 (List.drop i b)) + storeSszSize +
                beVal (List.take 2 (List.drop (i + storeSszSize + beVal (List.take 2 (List.drop i b))) b)))
        else M.pure (none, i + storeSszSize + beVal (List.take 2 (List.drop i b)) + storeSszSize))
        (fun r => i + storeSszSize + beVal (List.take 2 (List.drop i b)) + storeSszSize ≤ r.2) := by
      refine PostOk.ite (fun _ => ?_) (fun _ => PostOk.pure (by simp))
      exact PostOk.bind (fun _ _ => PostOk.bind (fun _ _ => PostOk.pure (by simp)))
    refine AllocLe.bind (A := 0)
      (B := b.length - (i + storeSszSize + beVal (List.take 2 (List.drop i b)) + storeSszSize)) ?_ (fun r hr => ?_) (by omega)
    · refine AllocLe.ite (fun _ => ?_) (fun _ => AllocLe.pure _ _)
      refine AllocLe.bind0 (slice_alloc _ _ _) (fun s _ => ?_)
      exact AllocLe.bind0 (kvMetadata_unsafeReadFrom_all s).2.2 (fun _ _ => AllocLe.pure _ _)
    · have hr2 := hblock r hr
      refine AllocLe.ite (fun _ => AllocLe.fail _ _) (fun _ => ?_)
      refine AllocLe.bind0 (be32At_alloc _ _) (fun vLen _ => ?_)
      refine AllocLe.ite (fun _ => AllocLe.fail _ _) (fun _ => ?_)
      refine AllocLe.bind0 (slice_alloc _ _ _) (fun v _ => ?_)
      exact (ih _ _).mono (by omega)

theorem replicateTruncInfo_alloc (fx : Fix) (b : Bytes) (i : Nat) : AllocLe (replicateTruncInfo fx b i) 0 := by
  unfold replicateTruncInfo
  refine AllocLe.ite (fun _ => ?_) (fun _ => AllocLe.pure _ _)
  refine AllocLe.ite (fun _ => AllocLe.fail _ _) (fun _ => ?_)
  simp only [bind_eq, pure_eq]
  refine AllocLe.bind0 (be16At_alloc _ _) (fun tLen _ => ?_)
  refine AllocLe.ite (fun _ => AllocLe.fail _ _) (fun _ => ?_)
  refine AllocLe.bind0 (slice_alloc _ _ _) (fun v _ => ?_)
  refine AllocLe.bind (A := 0) (B := 0) ?_ (fun bad _ => ?_) (by omega)
  · refine AllocLe.ite (fun _ => ?_) (fun _ => ?_)
    · refine AllocLe.ite (fun _ => AllocLe.pure _ _) (fun _ => ?_)
      exact AllocLe.bind0 (idx_alloc _ _) (fun _ _ => AllocLe.pure _ _)
    · refine AllocLe.ite (fun _ => ?_) (fun _ => AllocLe.pure _ _)
      exact AllocLe.bind0 (idx_alloc _ _) (fun _ _ => AllocLe.pure _ _)
  · refine AllocLe.ite (fun _ => AllocLe.fail _ _) (fun _ => ?_)
    exact AllocLe.bind0 (idx_alloc _ _) (fun _ _ => AllocLe.pure _ _)

/-- Memory allocated by the framing part of `ReplicateTx` from input-controlled sizes: linear in the
input plus the (bounded) extra-metadata buffer. -/
theorem replicateTxFraming_alloc (fx : Fix) (b : Bytes) :
    allocated (replicateTxFraming fx b) ≤ b.length + storeMaxTxMetadataLen + 65535 := by
  show AllocLe _ _
  unfold replicateTxFraming
  refine AllocLe.ite (fun _ => AllocLe.fail _ _) (fun h0 => ?_)
  simp only []
  refine AllocLe.ite (fun _ => AllocLe.fail _ _) (fun h1 => ?_)
  simp only [bind_eq, pure_eq]
  refine AllocLe.bind0 (be32At_alloc _ _) (fun hdrLen _ => ?_)
  refine AllocLe.ite (fun _ => AllocLe.fail _ _) (fun h2 => ?_)
  refine AllocLe.bind0 (slice_alloc _ _ _) (fun s _ => ?_)
  refine AllocLe.bind (A := storeMaxTxMetadataLen + 65535) (B := b.length) (txHeader_readFrom_alloc fx s) (fun hdr _ => ?_) (by omega)
  refine AllocLe.bind (A := b.length) (B := 0) ((replicateEntries_alloc fx b _ _ _).mono (by omega)) (fun r _ => ?_) (by omega)
  refine AllocLe.bind (A := 0) (B := 0) (replicateTruncInfo_alloc fx b _) (fun t _ => ?_) (by omega)
  exact AllocLe.ite (fun _ => AllocLe.fail _ _) (fun _ => AllocLe.pure _ _)

end ImmuModel.Decode
