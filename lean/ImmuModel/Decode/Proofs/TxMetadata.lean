/-
C16 — proofs about the TxMetadata decoder transliteration.
-/
import ImmuModel.Decode.Lemmas
import ImmuModel.Decode.TxMetadata
namespace ImmuModel.Decode
open ImmuModel ImmuModel.Go ImmuModel.Gen

theorem truncatedUptoTxAttr_deserialize_post (b : Bytes) :
    Post (truncatedUptoTxAttr_deserialize b) (fun r => r.2 = 8 ∧ 8 ≤ b.length) := by
  unfold truncatedUptoTxAttr_deserialize
  simp only [storeTxIDSize]
  refine Post.ite (fun _ => Post.fail) (fun h => ?_)
  · rw [rdU64_ok (by omega)]
    simp only [bind_eq, pure_eq, M.pure_bind]
    exact Post.pure ⟨rfl, by omega⟩

theorem extraAttr_deserialize_post (fx : Fix) (b : Bytes) :
    Post (extraAttr_deserialize fx b) (fun r => 2 ≤ r.2 ∧ (fx.extraLen = true → r.2 ≤ b.length)) := by
  unfold extraAttr_deserialize
  simp only [storeSszSize]
  refine Post.ite (fun _ => Post.fail) (fun h => ?_)
  · rw [rdU16_ok (by omega)]
    simp only [bind_eq, pure_eq, M.pure_bind]
    refine Post.ite (fun _ => Post.fail) (fun hg => ?_)
    · rw [sliceFrom_ok (by omega)]
      constructor
      · simp [M.bind, make_eq]
      · intro a ha
        simp [M.bind, make_eq] at ha
        subst ha
        simp only [copyFixed_length]
        refine ⟨by omega, fun hfx => ?_⟩
        rw [hfx] at hg
        simp only [Bool.true_and] at hg
        have hg' : ¬ (b.length < 2 + beVal (List.take 2 b)) := fun h => hg (decide_eq_true h)
        omega

theorem getAttributeFrom_noPanic (c : Nat) : NoPanic (getAttributeFrom c) := by
  unfold getAttributeFrom
  split
  · exact NoPanic.pure _
  · split
    · exact NoPanic.pure _
    · exact NoPanic.fail _

theorem txAttrKind_deserialize_post (fx : Fix) (k : TxAttrKind) (b : Bytes) :
    Post (k.deserialize fx b) (fun r => 1 ≤ r.2 ∧ (fx.extraLen = true → r.2 ≤ b.length)) := by
  cases k with
  | truncatedUptoTx =>
    exact (truncatedUptoTxAttr_deserialize_post b).weaken (fun r h => ⟨by omega, fun _ => by omega⟩)
  | extra =>
    exact (extraAttr_deserialize_post fx b).weaken (fun r h => ⟨by omega, h.2⟩)

/-- The repaired loop never panics and never runs out of fuel. -/
theorem txMetadata_loop_fixed (fx : Fix) (hfx : fx.extraLen = true) (fuel : Nat) (b : Bytes) (i : Nat) (md : TxMetadata)
    (hi : i ≤ b.length) (hf : b.length - i < fuel) :
    (TxMetadata.readFromLoop fx fuel b i md).res ≠ .panic ∧
    (TxMetadata.readFromLoop fx fuel b i md).res ≠ .err .fuel := by
  induction fuel generalizing i md with
  | zero => omega
  | succ fuel ih =>
    unfold TxMetadata.readFromLoop
    split
    · simp
    · rename_i hne
      have hlt : i < b.length := by omega
      rw [sliceFrom_ok hi]
      simp only [bind_eq, M.pure_bind, storeAttrCodeSize, List.length_drop]
      rw [if_neg (by omega), idx_ok hlt]
      simp only [M.pure_bind]
      cases hk : (getAttributeFrom b[i].toNat).res with
      | panic => exact absurd hk (getAttributeFrom_noPanic _)
      | err e =>
        have he : e = .corruptedData := by
          unfold getAttributeFrom at hk
          split at hk
          · simp at hk
          · split at hk
            · simp at hk
            · simp at hk; exact hk.symm
        simp [M.bind_res_err hk, he]
      | ok k =>
        rw [M.bind_res_ok hk]
        rw [sliceFrom_ok (by omega)]
        simp only [M.pure_bind]
        have hp := txAttrKind_deserialize_post fx k (b.drop (i + 1))
        cases hd : (k.deserialize fx (b.drop (i + 1))).res with
        | panic => exact absurd hd hp.1
        | err e =>
          have he : e = .corruptedData := by
            cases k with
            | truncatedUptoTx =>
              simp only [TxAttrKind.deserialize, truncatedUptoTxAttr_deserialize] at hd
              split at hd
              · simp at hd; exact hd.symm
              · rw [rdU64_ok (by simp only [storeTxIDSize] at *; omega)] at hd; simp at hd
            | extra =>
              simp only [TxAttrKind.deserialize, extraAttr_deserialize] at hd
              split at hd
              · simp at hd; exact hd.symm
              · rw [rdU16_ok (by simp only [storeSszSize] at *; omega)] at hd
                simp only [bind_eq, pure_eq, M.pure_bind] at hd
                split at hd
                · simp at hd; exact hd.symm
                · rw [sliceFrom_ok (by simp only [storeSszSize] at *; omega)] at hd
                  simp [M.bind, make_eq] at hd
          simp [M.bind_res_err hd, he]
        | ok r =>
          rw [M.bind_res_ok hd]
          obtain ⟨a, n⟩ := r
          have := hp.2 (a, n) hd
          simp only [List.length_drop] at this
          exact ih (i + 1 + n) (md.set a) (by have := this.2 hfx; omega) (by omega)

/-- One iteration of the loop entered beyond the end of the buffer panics (`b[i:]`, `i > len(b)`). -/
theorem txMetadata_loop_overrun (fx : Fix) (fuel : Nat) (b : Bytes) (i : Nat) (md : TxMetadata)
    (hi : b.length < i) : (TxMetadata.readFromLoop fx (fuel + 1) b i md).res = .panic := by
  unfold TxMetadata.readFromLoop
  rw [if_neg (by omega), sliceFrom_panic hi]
  simp

/-- The loop as it is vs the loop with the length guard in `extraAttribute.deserialize`. -/
theorem txMetadata_loop_rel (fuel : Nat) (b : Bytes) (i : Nat) (md : TxMetadata)
    (hi : i ≤ b.length) (hf : b.length - i < fuel) :
    PanicOr (TxMetadata.readFromLoop Fix.none fuel b i md) (TxMetadata.readFromLoop Fix.all fuel b i md) := by
  induction fuel generalizing i md with
  | zero => omega
  | succ fuel ih =>
    unfold TxMetadata.readFromLoop
    by_cases hne : b.length = i
    · simp only [hne, if_true]; exact PanicOr.refl _
    · have hlt : i < b.length := by omega
      simp only [if_neg hne, sliceFrom_ok hi, bind_eq, M.pure_bind, storeAttrCodeSize, List.length_drop]
      rw [if_neg (by omega), if_neg (by omega), idx_ok hlt]
      simp only [M.pure_bind]
      refine PanicOr.bind_right (fun k _ => ?_)
      rw [sliceFrom_ok (by omega)]
      simp only [M.pure_bind]
      cases k with
      | truncatedUptoTx =>
        simp only [TxAttrKind.deserialize]
        refine PanicOr.bind_right (fun r hr => ?_)
        have hp := (truncatedUptoTxAttr_deserialize_post (b.drop (i + 1))).2 r hr
        simp only [List.length_drop] at hp
        obtain ⟨a, n⟩ := r
        simp only at hp
        exact ih (i + 1 + n) (md.set a) (by omega) (by omega)
      | extra =>
        simp only [TxAttrKind.deserialize, extraAttr_deserialize, storeSszSize, List.length_drop]
        by_cases h2 : b.length - (i + 1) < 2
        · simp only [if_pos h2]; exact PanicOr.refl _
        · simp only [if_neg h2]
          rw [rdU16_ok (by simp only [List.length_drop]; omega)]
          simp only [bind_eq, pure_eq, M.pure_bind, Fix.none_extraLen, Fix.all_extraLen, Bool.false_and, Bool.true_and,
            Bool.false_eq_true, if_false, decide_eq_true_eq]
          rw [sliceFrom_ok (by simp only [List.length_drop]; omega)]
          simp only [M.pure_bind]
          by_cases hg : b.length - (i + 1) < 2 + beVal (List.take 2 (List.drop (i + 1) b))
          · -- the guard fires: the code as it is returns n > len(b[i:]) and the next iteration panics
            right
            constructor
            · obtain ⟨f', rfl⟩ : ∃ f', fuel = f' + 1 := ⟨fuel - 1, by omega⟩
              simp only [M.bind, make_eq, M.pure, copyFixed_length, List.length_replicate]
              exact txMetadata_loop_overrun Fix.none f' b _ _ (by omega)
            · exact ⟨.corruptedData, by simp [if_pos hg]⟩
          · simp only [if_neg hg]
            refine PanicOr.bind_right (fun r hr => ?_)
            obtain ⟨a, n⟩ := r
            simp [M.bind, make_eq, copyFixed_length] at hr
            obtain ⟨_, rfl⟩ := hr
            exact ih _ _ (by omega) (by omega)

theorem txMetadata_readFrom_fixed_noPanic (fx : Fix) (hfx : fx.extraLen = true) (b : Bytes) :
    NoPanic (TxMetadata.readFrom fx b) := by
  unfold TxMetadata.readFrom
  refine NoPanic.ite (fun _ => NoPanic.fail _) (fun _ => ?_)
  exact (txMetadata_loop_fixed fx hfx (b.length + 1) b 0 {} (by omega) (by omega)).1

theorem txMetadata_readFrom_rel (b : Bytes) :
    PanicOr (TxMetadata.readFrom Fix.none b) (TxMetadata.readFrom Fix.all b) := by
  unfold TxMetadata.readFrom
  refine PanicOr.ite (fun _ => PanicOr.refl _) (fun _ => ?_)
  exact txMetadata_loop_rel (b.length + 1) b 0 {} (by omega) (by omega)

/-- the loop only looks at the `extraLen` flag -/
theorem txMetadata_readFrom_congr (fx fx' : Fix) (h : fx.extraLen = fx'.extraLen) (b : Bytes) :
    TxMetadata.readFrom fx b = TxMetadata.readFrom fx' b := by
  have hloop : ∀ fuel i md, TxMetadata.readFromLoop fx fuel b i md = TxMetadata.readFromLoop fx' fuel b i md := by
    intro fuel
    induction fuel with
    | zero => intro i md; rfl
    | succ fuel ih =>
      intro i md
      unfold TxMetadata.readFromLoop
      have hd : ∀ k s, TxAttrKind.deserialize fx k s = TxAttrKind.deserialize fx' k s := by
        intro k s
        cases k with
        | truncatedUptoTx => rfl
        | extra => simp only [TxAttrKind.deserialize, extraAttr_deserialize, h]
      simp only [hd, ih]
  unfold TxMetadata.readFrom
  rw [hloop]

theorem txMetadata_readFrom_fuel (fx : Fix) (b : Bytes) : (TxMetadata.readFrom fx b).res ≠ .err .fuel := by
  have hfix : (TxMetadata.readFrom Fix.all b).res ≠ .err .fuel := by
    unfold TxMetadata.readFrom
    split
    · simp
    · exact (txMetadata_loop_fixed Fix.all rfl (b.length + 1) b 0 {} (by omega) (by omega)).2
  cases hx : fx.extraLen with
  | true => rw [txMetadata_readFrom_congr fx Fix.all (by simp [hx])]; exact hfix
  | false =>
    rw [txMetadata_readFrom_congr fx Fix.none (by simp [hx])]
    rcases txMetadata_readFrom_rel b with h | ⟨hp, _⟩
    · rw [h]; exact hfix
    · rw [hp]; simp

/-- every error of the decoder is `ErrCorruptedData` -/
theorem txMetadata_readFrom_noPanic_of_fixed_ok (b : Bytes)
    (h : ∀ e, (TxMetadata.readFrom Fix.all b).res ≠ .err e) : NoPanic (TxMetadata.readFrom Fix.none b) := by
  rcases txMetadata_readFrom_rel b with heq | ⟨_, e, he⟩
  · rw [heq]; exact txMetadata_readFrom_fixed_noPanic Fix.all rfl b
  · exact absurd he (h e)

/-! ### allocation -/

theorem getAttributeFrom_alloc (c : Nat) : (getAttributeFrom c).alloc = 0 := by
  unfold getAttributeFrom
  repeat (first | rfl | split)

theorem truncatedUptoTxAttr_deserialize_alloc (b : Bytes) : (truncatedUptoTxAttr_deserialize b).alloc = 0 := by
  unfold truncatedUptoTxAttr_deserialize
  c16_consts
  by_cases h : b.length < storeTxIDSize
  · rw [if_pos h]; rfl
  · rw [if_neg h, rdU64_ok (by omega)]; rfl

/-- what an attribute decoder allocates is covered by the bytes it claims to have consumed -/
theorem txAttrKind_deserialize_alloc (fx : Fix) (k : TxAttrKind) (b : Bytes) :
    (k.deserialize fx b).alloc ≤ 65535 ∧
    ∀ r, (k.deserialize fx b).res = .ok r → (k.deserialize fx b).alloc + 2 ≤ r.2 := by
  cases k with
  | truncatedUptoTx =>
    simp only [TxAttrKind.deserialize]
    rw [truncatedUptoTxAttr_deserialize_alloc]
    refine ⟨by omega, fun r hr => ?_⟩
    have := (truncatedUptoTxAttr_deserialize_post b).2 r hr
    omega
  | extra =>
    simp only [TxAttrKind.deserialize, extraAttr_deserialize]
    c16_consts
    by_cases h : b.length < storeSszSize
    · rw [if_pos h]; simp
    · rw [if_neg h, rdU16_ok (by omega)]
      simp only [bind_eq, pure_eq, M.pure_bind]
      have hn := beVal_take2_lt b
      split
      · simp
      · rw [sliceFrom_ok (by omega)]
        simp only [M.bind, make_eq, M.pure, copyFixed_length, List.length_replicate]
        refine ⟨by simp; omega, fun r hr => ?_⟩
        simp at hr
        subst hr
        simp
        omega

theorem txMetadata_loop_alloc_overrun (fx : Fix) (fuel : Nat) (b : Bytes) (i : Nat) (md : TxMetadata)
    (hi : b.length < i) : (TxMetadata.readFromLoop fx fuel b i md).alloc = 0 := by
  cases fuel with
  | zero => rfl
  | succ fuel =>
    unfold TxMetadata.readFromLoop
    rw [if_neg (by omega), sliceFrom_panic hi]
    simp

/-- Allocation of the loop as it is: linear in what is left of the buffer, plus at most one
over-declared extra attribute (after which the next iteration panics). -/
theorem txMetadata_loop_alloc (fx : Fix) (fuel : Nat) (b : Bytes) (i : Nat) (md : TxMetadata) :
    (TxMetadata.readFromLoop fx fuel b i md).alloc ≤ (b.length - i) + 65535 := by
  induction fuel generalizing i md with
  | zero => simp [TxMetadata.readFromLoop]
  | succ fuel ih =>
    by_cases hgt : b.length < i
    · rw [txMetadata_loop_alloc_overrun fx _ b i md hgt]; omega
    · unfold TxMetadata.readFromLoop
      c16_consts
      by_cases hne : b.length = i
      · simp [hne]
      · have hlt : i < b.length := by omega
        simp only [if_neg hne, sliceFrom_ok (Nat.le_of_lt hlt), bind_eq, M.pure_bind, List.length_drop]
        rw [if_neg (by omega), idx_ok hlt]
        simp only [M.pure_bind]
        refine AllocLe.bind (A := 0) (B := (b.length - i) + 65535) (by simp [AllocLe, getAttributeFrom_alloc])
          (fun k _ => ?_) (by omega)
        rw [sliceFrom_ok (by omega)]
        simp only [M.pure_bind]
        have hd := txAttrKind_deserialize_alloc fx k (b.drop (i + storeAttrCodeSize))
        unfold AllocLe
        cases hr : (k.deserialize fx (b.drop (i + storeAttrCodeSize))).res with
        | ok r =>
          rw [M.bind_alloc_ok hr]
          have h2 := hd.2 r hr
          obtain ⟨a, n⟩ := r
          simp only at h2 ⊢
          by_cases hfit : i + storeAttrCodeSize + n ≤ b.length
          · have := ih (i + storeAttrCodeSize + n) (md.set a)
            omega
          · rw [txMetadata_loop_alloc_overrun fx fuel b _ _ (by omega)]
            omega
        | err e => rw [M.bind_alloc_not_ok (by simp [hr])]; omega
        | panic => rw [M.bind_alloc_not_ok (by simp [hr])]; omega

theorem txMetadata_readFrom_alloc (fx : Fix) (b : Bytes) :
    allocated (TxMetadata.readFrom fx b) ≤ b.length + 65535 := by
  unfold TxMetadata.readFrom allocated
  split
  · simp
  · have := txMetadata_loop_alloc fx (b.length + 1) b 0 {}
    omega

/-- With the length guard the allocation is bounded by the input alone. -/
theorem txMetadata_loop_fixed_alloc (fx : Fix) (hfx : fx.extraLen = true) (fuel : Nat) (b : Bytes) (i : Nat) (md : TxMetadata) (hi : i ≤ b.length) :
    (TxMetadata.readFromLoop fx fuel b i md).alloc ≤ b.length - i := by
  induction fuel generalizing i md with
  | zero => simp [TxMetadata.readFromLoop]
  | succ fuel ih =>
    unfold TxMetadata.readFromLoop
    c16_consts
    by_cases hne : b.length = i
    · simp [hne]
    · have hlt : i < b.length := by omega
      simp only [if_neg hne, sliceFrom_ok hi, bind_eq, M.pure_bind, List.length_drop]
      rw [if_neg (by omega), idx_ok hlt]
      simp only [M.pure_bind]
      refine AllocLe.bind (A := 0) (B := b.length - i) (by simp [AllocLe, getAttributeFrom_alloc])
        (fun k _ => ?_) (by omega)
      rw [sliceFrom_ok (by omega)]
      simp only [M.pure_bind]
      have hd := txAttrKind_deserialize_alloc fx k (b.drop (i + storeAttrCodeSize))
      have hp := txAttrKind_deserialize_post fx k (b.drop (i + storeAttrCodeSize))
      unfold AllocLe
      cases hr : (k.deserialize fx (b.drop (i + storeAttrCodeSize))).res with
      | ok r =>
        rw [M.bind_alloc_ok hr]
        have h2 := hd.2 r hr
        have h3 := (hp.2 r hr).2 hfx
        simp only [List.length_drop] at h3
        obtain ⟨a, n⟩ := r
        simp only at h2 h3 ⊢
        have := ih (i + storeAttrCodeSize + n) (md.set a) (by omega)
        omega
      | err e =>
        rw [M.bind_alloc_not_ok (by simp [hr])]
        -- a failing attribute decoder has not allocated (the guard precedes `make`)
        cases k with
        | truncatedUptoTx => simp only [TxAttrKind.deserialize, truncatedUptoTxAttr_deserialize_alloc]; omega
        | extra =>
          simp only [TxAttrKind.deserialize, extraAttr_deserialize] at hr ⊢
          by_cases h : (b.drop (i + storeAttrCodeSize)).length < storeSszSize
          · rw [if_pos h]; simp
          · rw [if_neg h, rdU16_ok (by omega)] at hr ⊢
            simp only [bind_eq, pure_eq, M.pure_bind] at hr ⊢
            split
            · simp
            · rename_i hg
              rw [if_neg hg, sliceFrom_ok (by omega)] at hr
              simp [M.bind, make_eq] at hr
      | panic => exact absurd hr hp.1

theorem txMetadata_readFrom_fixed_alloc (fx : Fix) (hfx : fx.extraLen = true) (b : Bytes) :
    allocated (TxMetadata.readFrom fx b) ≤ b.length := by
  unfold TxMetadata.readFrom allocated
  split
  · simp
  · have := txMetadata_loop_fixed_alloc fx hfx (b.length + 1) b 0 {} (by omega)
    omega

end ImmuModel.Decode
