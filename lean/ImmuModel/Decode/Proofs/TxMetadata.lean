/-
C16 — proofs about the TxMetadata decoder transliteration.
-/
import ImmuModel.Decode.Lemmas
import ImmuModel.Decode.TxMetadata
namespace ImmuModel.Decode
open ImmuModel ImmuModel.Go ImmuModel.Gen

theorem truncatedUptoTxAttr_deserialize_post (b : Bytes) :
    Post (truncatedUptoTxAttr_deserialize b) (fun r => r.2 = 8 ∧ 8 ≤ b.length) := by
  unfold truncatedUptoTxAttr_deserialize
  simp only [storeTxIDSize]
  refine Post.ite (fun _ => Post.fail) (fun h => ?_)
  · rw [rdU64_ok (by omega)]
    simp only [bind_eq, pure_eq, M.pure_bind]
    exact Post.pure ⟨rfl, by omega⟩

theorem extraAttr_deserialize_post (fx : Fix) (b : Bytes) :
    Post (extraAttr_deserialize fx b) (fun r => 2 ≤ r.2 ∧ (fx.extraLen = true → r.2 ≤ b.length)) := by
  unfold extraAttr_deserialize
  simp only [storeSszSize]
  refine Post.ite (fun _ => Post.fail) (fun h => ?_)
  · rw [rdU16_ok (by omega)]
    simp only [bind_eq, pure_eq, M.pure_bind]
    refine Post.ite (fun _ => Post.fail) (fun hg => ?_)
    · rw [sliceFrom_ok (by omega)]
      constructor
      · simp [M.bind, make_eq]
      · intro a ha
        simp [M.bind, make_eq] at ha
        subst ha
        simp only [copyFixed_length]
        refine ⟨by omega, fun hfx => ?_⟩
        by_cases hc : b.length < 2 + beVal (List.take 2 b)
        · exact absurd (by simp [hfx, hc]) hg
        · omega

/-- With the guard, a decoded extra attribute has at most `maxExtraLen` bytes. -/
theorem extraAttr_deserialize_extraLe (fx : Fix) (hfx : fx.extraLen = true) (b : Bytes) :
    PostOk (extraAttr_deserialize fx b)
      (fun r => ∀ e, r.1 = TxAttr.extra e → e.length ≤ storeMaxExtraLen) := by
  unfold extraAttr_deserialize
  refine PostOk.ite (fun _ => PostOk.fail) (fun h => ?_)
  rw [rdU16_ok (by simp only [storeSszSize] at h; omega)]
  simp only [bind_eq, pure_eq, M.pure_bind]
  refine PostOk.ite (fun _ => PostOk.fail) (fun hg => ?_)
  have hle : beVal (List.take 2 b) ≤ storeMaxExtraLen := by
    by_cases hc : beVal (List.take 2 b) > storeMaxExtraLen
    · exact absurd (by simp [hfx, hc]) hg
    · omega
  rw [sliceFrom_ok (by simp only [storeSszSize] at *; omega)]
  intro a ha
  simp [M.bind, make_eq] at ha
  subst ha
  intro e he
  cases he
  simp only [copyFixed_length]
  exact hle

theorem getAttributeFrom_noPanic (c : Nat) : NoPanic (getAttributeFrom c) := by
  unfold getAttributeFrom
  split
  · exact NoPanic.pure _
  · split
    · exact NoPanic.pure _
    · exact NoPanic.fail _

theorem txAttrKind_deserialize_post (fx : Fix) (k : TxAttrKind) (b : Bytes) :
    Post (k.deserialize fx b) (fun r => 1 ≤ r.2 ∧ (fx.extraLen = true → r.2 ≤ b.length)) := by
  cases k with
  | truncatedUptoTx =>
    exact (truncatedUptoTxAttr_deserialize_post b).weaken (fun r h => ⟨by omega, fun _ => by omega⟩)
  | extra =>
    exact (extraAttr_deserialize_post fx b).weaken (fun r h => ⟨by omega, h.2⟩)

/-- The repaired loop never panics and never runs out of fuel. -/
theorem txMetadata_loop_fixed (fx : Fix) (hfx : fx.extraLen = true) (fuel : Nat) (b : Bytes) (i : Nat) (md : TxMetadata)
    (hi : i ≤ b.length) (hf : b.length - i < fuel) :
    (TxMetadata.readFromLoop fx fuel b i md).res ≠ .panic ∧
    (TxMetadata.readFromLoop fx fuel b i md).res ≠ .err .fuel := by
  induction fuel generalizing i md with
  | zero => omega
  | succ fuel ih =>
    unfold TxMetadata.readFromLoop
    split
    · simp
    · rename_i hne
      have hlt : i < b.length := by omega
      rw [sliceFrom_ok hi]
      simp only [bind_eq, M.pure_bind, storeAttrCodeSize, List.length_drop]
      rw [if_neg (by omega), idx_ok hlt]
      simp only [M.pure_bind]
      cases hk : (getAttributeFrom b[i].toNat).res with
      | panic => exact absurd hk (getAttributeFrom_noPanic _)
      | err e =>
        have he : e = .corruptedData := by
          unfold getAttributeFrom at hk
          split at hk
          · simp at hk
          · split at hk
            · simp at hk
            · simp at hk; exact hk.symm
        simp [M.bind_res_err hk, he]
      | ok k =>
        rw [M.bind_res_ok hk]
        rw [sliceFrom_ok (by omega)]
        simp only [M.pure_bind]
        have hp := txAttrKind_deserialize_post fx k (b.drop (i + 1))
        cases hd : (k.deserialize fx (b.drop (i + 1))).res with
        | panic => exact absurd hd hp.1
        | err e =>
          have he : e = .corruptedData := by
            cases k with
            | truncatedUptoTx =>
              simp only [TxAttrKind.deserialize, truncatedUptoTxAttr_deserialize] at hd
              split at hd
              · simp at hd; exact hd.symm
              · rw [rdU64_ok (by simp only [storeTxIDSize] at *; omega)] at hd; simp at hd
            | extra =>
              simp only [TxAttrKind.deserialize, extraAttr_deserialize] at hd
              split at hd
              · simp at hd; exact hd.symm
              · rw [rdU16_ok (by simp only [storeSszSize] at *; omega)] at hd
                simp only [bind_eq, pure_eq, M.pure_bind] at hd
                split at hd
                · simp at hd; exact hd.symm
                · rw [sliceFrom_ok (by simp only [storeSszSize] at *; omega)] at hd
                  simp [M.bind, make_eq] at hd
          simp [M.bind_res_err hd, he]
        | ok r =>
          rw [M.bind_res_ok hd]
          obtain ⟨a, n⟩ := r
          have := hp.2 (a, n) hd
          simp only [List.length_drop] at this
          exact ih (i + 1 + n) (md.set a) (by have := this.2 hfx; omega) (by omega)

/-- One iteration of the loop entered beyond the end of the buffer panics (`b[i:]`, `i > len(b)`). -/
theorem txMetadata_loop_overrun (fx : Fix) (fuel : Nat) (b : Bytes) (i : Nat) (md : TxMetadata)
    (hi : b.length < i) : (TxMetadata.readFromLoop fx (fuel + 1) b i md).res = .panic := by
  unfold TxMetadata.readFromLoop
  rw [if_neg (by omega), sliceFrom_panic hi]
  simp

theorem txMetadata_readFrom_fixed_noPanic (fx : Fix) (hfx : fx.extraLen = true) (b : Bytes) :
    NoPanic (TxMetadata.readFrom fx b) := by
  unfold TxMetadata.readFrom
  refine NoPanic.ite (fun _ => NoPanic.fail _) (fun _ => ?_)
  exact (txMetadata_loop_fixed fx hfx (b.length + 1) b 0 {} (by omega) (by omega)).1

theorem txMetadata_readFrom_fuel (fx : Fix) (hfx : fx.extraLen = true) (b : Bytes) :
    (TxMetadata.readFrom fx b).res ≠ .err .fuel := by
  unfold TxMetadata.readFrom
  split
  · simp
  · exact (txMetadata_loop_fixed fx hfx (b.length + 1) b 0 {} (by omega) (by omega)).2

/-! ### what the decoder accepts can be serialised again -/

/-- `extraAttribute.serialize` slices a `[sszSize+maxExtraLen]byte` array: fine up to `maxExtraLen`. -/
def TxMetadata.Serializable (md : TxMetadata) : Prop := ∀ e, md.extra = some e → e.length ≤ storeMaxExtraLen

theorem txMetadata_loop_serializable (fx : Fix) (hfx : fx.extraLen = true) (fuel : Nat) (b : Bytes) (i : Nat)
    (md : TxMetadata) (hmd : md.Serializable) :
    PostOk (TxMetadata.readFromLoop fx fuel b i md) TxMetadata.Serializable := by
  induction fuel generalizing i md with
  | zero => unfold TxMetadata.readFromLoop; exact PostOk.fail
  | succ fuel ih =>
    unfold TxMetadata.readFromLoop
    refine PostOk.ite (fun _ => PostOk.pure hmd) (fun _ => ?_)
    simp only [bind_eq]
    refine PostOk.bind (fun rest _ => ?_)
    refine PostOk.ite (fun _ => PostOk.fail) (fun _ => ?_)
    refine PostOk.bind (fun c _ => ?_)
    refine PostOk.bind (fun k _ => ?_)
    refine PostOk.bind (fun s _ => ?_)
    refine PostOk.bind (fun r hr => ?_)
    obtain ⟨a, n⟩ := r
    refine ih _ _ ?_
    cases k with
    | truncatedUptoTx =>
      simp only [TxAttrKind.deserialize, truncatedUptoTxAttr_deserialize] at hr
      split at hr
      · simp at hr
      · cases hu : (rdU64 s).res with
        | ok v =>
          rw [bind_eq, M.bind_res_ok hu] at hr
          simp at hr
          rw [← hr.1]
          intro e he
          exact hmd e he
        | err e => rw [bind_eq, M.bind_res_err hu] at hr; simp at hr
        | panic => rw [bind_eq, M.bind_res_panic hu] at hr; simp at hr
    | extra =>
      have := extraAttr_deserialize_extraLe fx hfx s (a, n) hr
      cases a with
      | truncatedUptoTx t => intro e he; exact hmd e he
      | extra x =>
        intro e he
        simp only [TxMetadata.set] at he
        cases he
        exact this x rfl

theorem txMetadata_readFrom_serializable (fx : Fix) (hfx : fx.extraLen = true) (b : Bytes) :
    PostOk (TxMetadata.readFrom fx b) TxMetadata.Serializable := by
  unfold TxMetadata.readFrom
  refine PostOk.ite (fun _ => PostOk.fail) (fun _ => ?_)
  exact txMetadata_loop_serializable fx hfx _ b 0 {} (by intro e he; cases he)

theorem txMetadata_bytes_noPanic (md : TxMetadata) (h : md.Serializable) : NoPanic md.bytes := by
  unfold TxMetadata.bytes
  simp only [bind_eq, pure_eq, M.pure_bind]
  cases he : md.extra with
  | none => exact NoPanic.pure _
  | some e =>
    have hl := h e he
    simp only []
    refine NoPanic.bind ?_ (fun _ _ => NoPanic.pure _)
    unfold extraAttr_serialize
    simp only [bind_eq, M.pure_bind]
    rw [sliceTo_ok (by
      simp only [List.length_append, copyFixed_length, ImmuModel.be16_length]
      have : storeSszSize = 2 := rfl
      omega)]
    exact NoPanic.pure _

/-! ### allocation -/

theorem getAttributeFrom_alloc (c : Nat) : (getAttributeFrom c).alloc = 0 := by
  unfold getAttributeFrom
  repeat (first | rfl | split)

theorem truncatedUptoTxAttr_deserialize_alloc (b : Bytes) : (truncatedUptoTxAttr_deserialize b).alloc = 0 := by
  unfold truncatedUptoTxAttr_deserialize
  c16_consts
  by_cases h : b.length < storeTxIDSize
  · rw [if_pos h]; rfl
  · rw [if_neg h, rdU64_ok (by omega)]; rfl

/-- what an attribute decoder allocates is covered by the bytes it claims to have consumed -/
theorem txAttrKind_deserialize_alloc (fx : Fix) (k : TxAttrKind) (b : Bytes) :
    (k.deserialize fx b).alloc ≤ 65535 ∧
    ∀ r, (k.deserialize fx b).res = .ok r → (k.deserialize fx b).alloc + 2 ≤ r.2 := by
  cases k with
  | truncatedUptoTx =>
    simp only [TxAttrKind.deserialize]
    rw [truncatedUptoTxAttr_deserialize_alloc]
    refine ⟨by omega, fun r hr => ?_⟩
    have := (truncatedUptoTxAttr_deserialize_post b).2 r hr
    omega
  | extra =>
    simp only [TxAttrKind.deserialize, extraAttr_deserialize]
    c16_consts
    by_cases h : b.length < storeSszSize
    · rw [if_pos h]; simp
    · rw [if_neg h, rdU16_ok (by omega)]
      simp only [bind_eq, pure_eq, M.pure_bind]
      have hn := beVal_take2_lt b
      split
      · simp
      · rw [sliceFrom_ok (by omega)]
        simp only [M.bind, make_eq, M.pure, copyFixed_length, List.length_replicate]
        refine ⟨by simp; omega, fun r hr => ?_⟩
        simp at hr
        subst hr
        simp
        omega

theorem txMetadata_loop_alloc_overrun (fx : Fix) (fuel : Nat) (b : Bytes) (i : Nat) (md : TxMetadata)
    (hi : b.length < i) : (TxMetadata.readFromLoop fx fuel b i md).alloc = 0 := by
  cases fuel with
  | zero => rfl
  | succ fuel =>
    unfold TxMetadata.readFromLoop
    rw [if_neg (by omega), sliceFrom_panic hi]
    simp

/-- Allocation of the loop as it is: linear in what is left of the buffer, plus at most one
over-declared extra attribute (after which the next iteration panics). -/
theorem txMetadata_loop_alloc (fx : Fix) (fuel : Nat) (b : Bytes) (i : Nat) (md : TxMetadata) :
    (TxMetadata.readFromLoop fx fuel b i md).alloc ≤ (b.length - i) + 65535 := by
  induction fuel generalizing i md with
  | zero => simp [TxMetadata.readFromLoop]
  | succ fuel ih =>
    by_cases hgt : b.length < i
    · rw [txMetadata_loop_alloc_overrun fx _ b i md hgt]; omega
    · unfold TxMetadata.readFromLoop
      c16_consts
      by_cases hne : b.length = i
      · simp [hne]
      · have hlt : i < b.length := by omega
        simp only [if_neg hne, sliceFrom_ok (Nat.le_of_lt hlt), bind_eq, M.pure_bind, List.length_drop]
        rw [if_neg (by omega), idx_ok hlt]
        simp only [M.pure_bind]
        refine AllocLe.bind (A := 0) (B := (b.length - i) + 65535) (by simp [AllocLe, getAttributeFrom_alloc])
          (fun k _ => ?_) (by omega)
        rw [sliceFrom_ok (by omega)]
        simp only [M.pure_bind]
        have hd := txAttrKind_deserialize_alloc fx k (b.drop (i + storeAttrCodeSize))
        unfold AllocLe
        cases hr : (k.deserialize fx (b.drop (i + storeAttrCodeSize))).res with
        | ok r =>
          rw [M.bind_alloc_ok hr]
          have h2 := hd.2 r hr
          obtain ⟨a, n⟩ := r
          simp only at h2 ⊢
          by_cases hfit : i + storeAttrCodeSize + n ≤ b.length
          · have := ih (i + storeAttrCodeSize + n) (md.set a)
            omega
          · rw [txMetadata_loop_alloc_overrun fx fuel b _ _ (by omega)]
            omega
        | err e => rw [M.bind_alloc_not_ok (by simp [hr])]; omega
        | panic => rw [M.bind_alloc_not_ok (by simp [hr])]; omega

theorem txMetadata_readFrom_alloc (fx : Fix) (b : Bytes) :
    allocated (TxMetadata.readFrom fx b) ≤ b.length + 65535 := by
  unfold TxMetadata.readFrom allocated
  split
  · simp
  · have := txMetadata_loop_alloc fx (b.length + 1) b 0 {}
    omega

/-- With the length guard the allocation is bounded by the input alone. -/
theorem txMetadata_loop_fixed_alloc (fx : Fix) (hfx : fx.extraLen = true) (fuel : Nat) (b : Bytes) (i : Nat) (md : TxMetadata) (hi : i ≤ b.length) :
    (TxMetadata.readFromLoop fx fuel b i md).alloc ≤ b.length - i := by
  induction fuel generalizing i md with
  | zero => simp [TxMetadata.readFromLoop]
  | succ fuel ih =>
    unfold TxMetadata.readFromLoop
    c16_consts
    by_cases hne : b.length = i
    · simp [hne]
    · have hlt : i < b.length := by omega
      simp only [if_neg hne, sliceFrom_ok hi, bind_eq, M.pure_bind, List.length_drop]
      rw [if_neg (by omega), idx_ok hlt]
      simp only [M.pure_bind]
      refine AllocLe.bind (A := 0) (B := b.length - i) (by simp [AllocLe, getAttributeFrom_alloc])
        (fun k _ => ?_) (by omega)
      rw [sliceFrom_ok (by omega)]
      simp only [M.pure_bind]
      have hd := txAttrKind_deserialize_alloc fx k (b.drop (i + storeAttrCodeSize))
      have hp := txAttrKind_deserialize_post fx k (b.drop (i + storeAttrCodeSize))
      unfold AllocLe
      cases hr : (k.deserialize fx (b.drop (i + storeAttrCodeSize))).res with
      | ok r =>
        rw [M.bind_alloc_ok hr]
        have h2 := hd.2 r hr
        have h3 := (hp.2 r hr).2 hfx
        simp only [List.length_drop] at h3
        obtain ⟨a, n⟩ := r
        simp only at h2 h3 ⊢
        have := ih (i + storeAttrCodeSize + n) (md.set a) (by omega)
        omega
      | err e =>
        rw [M.bind_alloc_not_ok (by simp [hr])]
        -- a failing attribute decoder has not allocated (the guard precedes `make`)
        cases k with
        | truncatedUptoTx => simp only [TxAttrKind.deserialize, truncatedUptoTxAttr_deserialize_alloc]; omega
        | extra =>
          simp only [TxAttrKind.deserialize, extraAttr_deserialize] at hr ⊢
          by_cases h : (b.drop (i + storeAttrCodeSize)).length < storeSszSize
          · rw [if_pos h]; simp
          · rw [if_neg h, rdU16_ok (by omega)] at hr ⊢
            simp only [bind_eq, pure_eq, M.pure_bind] at hr ⊢
            split
            · simp
            · rename_i hg
              rw [if_neg hg, sliceFrom_ok (by omega)] at hr
              simp [M.bind, make_eq] at hr
      | panic => exact absurd hr hp.1

theorem txMetadata_readFrom_fixed_alloc (fx : Fix) (hfx : fx.extraLen = true) (b : Bytes) :
    allocated (TxMetadata.readFrom fx b) ≤ b.length := by
  unfold TxMetadata.readFrom allocated
  split
  · simp
  · have := txMetadata_loop_fixed_alloc fx hfx (b.length + 1) b 0 {} (by omega)
    omega

end ImmuModel.Decode
