/-
C16 — proofs about the `appendable.Metadata.ReadFrom` / `readField` transliteration.
-/
import ImmuModel.Decode.Lemmas
import ImmuModel.Decode.AppMetadata
namespace ImmuModel.Decode
open ImmuModel ImmuModel.Go

theorem bufReader_read_noPanic (r : BufReader) (n : Nat) : (r.read n).1 ≠ .panic := by
  unfold BufReader.read
  repeat (first | split | simp)

theorem readField_noPanic (r : BufReader) : NoPanic (readField r) := by
  unfold readField
  have h1 := bufReader_read_noPanic r 4
  split
  · exact NoPanic.fail _
  · rename_i heq; rw [heq] at h1; exact absurd rfl h1
  · rename_i got r' heq
    simp only [bind_eq, pure_eq]
    rw [rdU32_ok (by simp [copyFixed_length])]
    simp only [M.pure_bind]
    refine NoPanic.bind (by simp [NoPanic, makeN]) (fun _ _ => ?_)
    have h2 := bufReader_read_noPanic r' (beVal (List.take 4 (copyFixed 4 got)))
    split
    · exact NoPanic.fail _
    · rename_i heq2; rw [heq2] at h2; exact absurd rfl h2
    · exact NoPanic.pure _

theorem appMetadataLoop_noPanic (todo : Nat) (r : BufReader) (acc : List (Field × Field)) :
    NoPanic (appMetadataLoop todo r acc) := by
  induction todo generalizing r acc with
  | zero => exact NoPanic.pure _
  | succ todo ih =>
    unfold appMetadataLoop
    simp only [bind_eq]
    refine NoPanic.bind (readField_noPanic _) (fun kr _ => ?_)
    refine NoPanic.bind (readField_noPanic _) (fun vr _ => ?_)
    exact ih _ _

theorem appMetadataReadFrom_fixed_noPanic (fx : Fix) (hc : fx.appCount = true) (b : Bytes) : NoPanic (appMetadataReadFrom fx b) := by
  unfold appMetadataReadFrom
  simp only [bind_eq, pure_eq]
  refine NoPanic.bind (readField_noPanic _) (fun fr _ => ?_)
  refine NoPanic.ite (fun _ => NoPanic.fail _) (fun hg => ?_)
  rw [hc] at hg
  simp only [Bool.true_and, decide_eq_true_eq] at hg
  refine NoPanic.bind ?_ (fun n _ => ?_)
  · unfold Field.rdU32
    rw [if_neg hg]
    exact NoPanic.pure _
  · exact NoPanic.bind (appMetadataLoop_noPanic _ _ _) (fun _ _ => NoPanic.pure _)

theorem appMetadataReadFrom_rel (b : Bytes) :
    PanicOr (appMetadataReadFrom Fix.none b) (appMetadataReadFrom Fix.all b) := by
  unfold appMetadataReadFrom
  simp only [bind_eq, pure_eq]
  refine PanicOr.bind_right (fun fr _ => ?_)
  simp only [Fix.none_appCount, Fix.all_appCount, Bool.false_and, Bool.false_eq_true, if_false, Bool.true_and, decide_eq_true_eq]
  refine PanicOr.guard (fun hg => ?_) (fun _ => PanicOr.refl _)
  unfold Field.rdU32
  rw [if_pos hg]
  simp

end ImmuModel.Decode
