/-
C16 — proofs about the `appendable.Metadata.ReadFrom` / `readField` transliteration.
-/
import ImmuModel.Decode.Lemmas
import ImmuModel.Decode.AppMetadata
namespace ImmuModel.Decode
open ImmuModel ImmuModel.Go

theorem bufReader_readFull_noPanic (r : BufReader) (n : Nat) : (r.readFull n).1 ≠ .panic := by
  unfold BufReader.readFull
  repeat (first | split | simp)

/-- a successful `io.ReadFull` of `n` bytes consumed exactly `n` bytes -/
theorem bufReader_readFull_ok {r r' : BufReader} {n : Nat} {got : Bytes}
    (h : r.readFull n = (.ok got, r')) : r'.rest.length + n = r.rest.length := by
  unfold BufReader.readFull at h
  split at h
  · rename_i h0; cases h; omega
  · split at h
    · cases h
    · split at h
      · cases h
      · rename_i hlt; cases h; simp only [List.length_drop]; omega

@[simp] theorem grown_res (got : Bytes) : (grown got).res = .ok () := rfl
@[simp] theorem grown_alloc (got : Bytes) : (grown got).alloc = got.length := rfl

theorem readField_noPanic (r : BufReader) : NoPanic (readField r) := by
  unfold readField
  have h1 := bufReader_readFull_noPanic r 4
  split
  · exact NoPanic.fail _
  · rename_i heq; rw [heq] at h1; exact absurd rfl h1
  · rename_i got r' heq
    simp only [bind_eq, pure_eq]
    rw [rdU32_ok (by simp [copyFixed_length])]
    simp only [M.pure_bind]
    refine NoPanic.bind (by simp [NoPanic]) (fun _ _ => ?_)
    exact NoPanic.ite (fun _ => NoPanic.fail _) (fun _ => NoPanic.pure _)

/-- `x >>= f` allocates at most `N` when `x` alone does and, where `x` succeeds, `x` and the rest together do -/
theorem alloc_bind_le {x : M α} {f : α → M β} {N : Nat} (hx : x.alloc ≤ N)
    (hf : ∀ a, x.res = .ok a → x.alloc + (f a).alloc ≤ N) : (M.bind x f).alloc ≤ N := by
  cases h : x.res with
  | ok a => rw [M.bind_alloc_ok h]; exact hf a h
  | err e => simp [M.bind, h]; exact hx
  | panic => simp [M.bind, h]; exact hx

/-- `readField` stores only bytes it has read: what it allocates plus what it leaves unread (plus the 4
length bytes) is at most what was unread before — also when it fails. -/
theorem readField_alloc (r : BufReader) :
    (readField r).alloc ≤ r.rest.length ∧
    ∀ f r', (readField r).res = .ok (f, r') → (readField r).alloc + r'.rest.length + 4 ≤ r.rest.length := by
  unfold readField
  split
  · exact ⟨by simp, fun f r' h => by simp at h⟩
  · exact ⟨by simp, fun f r' h => by simp at h⟩
  · rename_i got r1 heq
    have hc := bufReader_readFull_ok heq
    simp only [bind_eq, pure_eq]
    rw [rdU32_ok (by simp [copyFixed_length])]
    simp only [M.pure_bind]
    generalize beVal (List.take 4 (copyFixed 4 got)) = flen
    have h1 : (r1.readAllLimited flen).1.length = min flen r1.rest.length := by
      simp [BufReader.readAllLimited]
    have h2 : (r1.readAllLimited flen).2.rest.length = r1.rest.length - flen := by
      simp [BufReader.readAllLimited]
    generalize r1.readAllLimited flen = rd at h1 h2 ⊢
    have hg : (grown rd.1).res = .ok () := rfl
    by_cases hlt : rd.1.length < flen
    · rw [if_pos hlt]
      constructor
      · rw [M.bind_alloc_ok hg]
        simp only [grown_alloc, M.fail_alloc]; omega
      · intro f r' h
        rw [M.bind_res_ok hg] at h
        simp at h
    · rw [if_neg hlt]
      constructor
      · rw [M.bind_alloc_ok hg]
        simp only [grown_alloc, M.pure_alloc]; omega
      · intro f r' h
        rw [M.bind_res_ok hg] at h
        simp only [M.pure_res, R.ok.injEq, Prod.mk.injEq] at h
        obtain ⟨_, rfl⟩ := h
        rw [M.bind_alloc_ok hg]
        simp only [grown_alloc, M.pure_alloc]
        omega

theorem appMetadataLoop_noPanic (todo : Nat) (r : BufReader) (acc : List (Bytes × Bytes)) :
    NoPanic (appMetadataLoop todo r acc) := by
  induction todo generalizing r acc with
  | zero => exact NoPanic.pure _
  | succ todo ih =>
    unfold appMetadataLoop
    simp only [bind_eq]
    refine NoPanic.bind (readField_noPanic _) (fun kr _ => ?_)
    refine NoPanic.bind (readField_noPanic _) (fun vr _ => ?_)
    exact ih _ _

/-- the loop allocates at most the bytes it has not read yet, whatever count the input declared -/
theorem appMetadataLoop_alloc (todo : Nat) (r : BufReader) (acc : List (Bytes × Bytes)) :
    (appMetadataLoop todo r acc).alloc ≤ r.rest.length := by
  induction todo generalizing r acc with
  | zero => simp [appMetadataLoop]
  | succ todo ih =>
    unfold appMetadataLoop
    simp only [bind_eq]
    have hk := readField_alloc r
    refine alloc_bind_le hk.1 (fun kr hkr => ?_)
    obtain ⟨k, r1⟩ := kr
    have hk2 := hk.2 k r1 hkr
    have hv := readField_alloc r1
    have : (M.bind (readField r1) fun x => appMetadataLoop todo x.2 (acc ++ [(k, x.1)])).alloc ≤ r1.rest.length := by
      refine alloc_bind_le hv.1 (fun vr hvr => ?_)
      obtain ⟨v, r2⟩ := vr
      have hv2 := hv.2 v r2 hvr
      have := ih r2 (acc ++ [(k, v)])
      simp only
      omega
    simp only at this ⊢
    omega

/-- the decoder reads only `fx.appCount` -/
theorem appMetadataReadFrom_congr (fx fy : Fix) (h : fx.appCount = fy.appCount) (b : Bytes) :
    appMetadataReadFrom fx b = appMetadataReadFrom fy b := by
  unfold appMetadataReadFrom
  rw [h]

theorem appMetadataReadFrom_fixed_noPanic (fx : Fix) (hc : fx.appCount = true) (b : Bytes) : NoPanic (appMetadataReadFrom fx b) := by
  unfold appMetadataReadFrom
  simp only [bind_eq, pure_eq]
  refine NoPanic.bind (readField_noPanic _) (fun fr _ => ?_)
  refine NoPanic.ite (fun _ => NoPanic.fail _) (fun hg => ?_)
  rw [hc] at hg
  simp only [Bool.true_and, decide_eq_true_eq] at hg
  refine NoPanic.bind ?_ (fun n _ => ?_)
  · rw [rdU32_ok (by omega)]
    exact NoPanic.pure _
  · exact NoPanic.bind (appMetadataLoop_noPanic _ _ _) (fun _ _ => NoPanic.pure _)

/-- Memory: with or without the count guard, `ReadFrom` never holds more bytes than the input has. -/
theorem appMetadataReadFrom_alloc (fx : Fix) (b : Bytes) : (appMetadataReadFrom fx b).alloc ≤ b.length := by
  unfold appMetadataReadFrom
  simp only [bind_eq, pure_eq]
  have hc := readField_alloc { rest := b }
  refine alloc_bind_le hc.1 (fun fr hfr => ?_)
  obtain ⟨lenb, r1⟩ := fr
  have hc2 := hc.2 lenb r1 hfr
  simp only at hc2 ⊢
  split
  · simp only [M.fail_alloc]; omega
  · have : (M.bind (rdU32 lenb) fun len =>
        M.bind (appMetadataLoop len r1 []) fun kvs => M.pure (len, kvs)).alloc ≤ r1.rest.length := by
      refine alloc_bind_le (by simp only [rdU32_alloc]; omega) (fun len _ => ?_)
      rw [rdU32_alloc, Nat.zero_add]
      refine alloc_bind_le (appMetadataLoop_alloc _ _ _) (fun kvs _ => ?_)
      rw [M.pure_alloc, Nat.add_zero]
      exact appMetadataLoop_alloc _ _ _
    omega

/-- the count guard is the only difference between the code before and after the repair -/
theorem appMetadataReadFrom_rel (b : Bytes) :
    PanicOr (appMetadataReadFrom Fix.none b) (appMetadataReadFrom Fix.all b) := by
  unfold appMetadataReadFrom
  simp only [bind_eq, pure_eq]
  refine PanicOr.bind_right (fun fr _ => ?_)
  simp only [Fix.none_appCount, Fix.all_appCount, Bool.false_and, Bool.false_eq_true, if_false, Bool.true_and, decide_eq_true_eq]
  refine PanicOr.guard (fun hg => ?_) (fun _ => PanicOr.refl _)
  unfold rdU32
  rw [if_pos hg]
  simp

end ImmuModel.Decode
