/-
C16 — transliteration of the framing part of `ImmuStore.ReplicateTx`
(/repo/embedded/store/immustore.go): everything from the first statement up to (not including)
`txSpec.set(...)` / `s.precommit(...)`.  The framing part has no side effect on the store
(`NewWriteOnlyTx` only allocates an `OngoingTx`); all effects happen in `precommit`, which the
model takes as a parameter (`replicateTx`).
-/
import ImmuModel.Decode.TxHeader
import ImmuModel.Decode.KVMetadata
namespace ImmuModel.Decode
open ImmuModel ImmuModel.Go ImmuModel.Gen

structure EntrySpec where
  key : Bytes
  metadata : Option KVMetadata
  value : Bytes
  deriving DecidableEq, Repr

structure ExportedTx where
  hdr : TxHeader
  entries : List EntrySpec
  isTruncated : Bool
  deriving DecidableEq, Repr

/--
Body of `for e := 0; e < hdr.NEntries; e++ { … }`; the first argument is the number of iterations
still to run (`hdr.NEntries - e`).
```go
		if len(exportedTx) < i+2*sszSize+lszSize { return nil, ErrIllegalArguments }
		kLen := int(binary.BigEndian.Uint16(exportedTx[i:])); i += sszSize
		if len(exportedTx) < i+sszSize+lszSize+kLen { return nil, ErrIllegalArguments }
		key := make([]byte, kLen); copy(key, exportedTx[i:]); i += kLen
		mdLen := int(binary.BigEndian.Uint16(exportedTx[i:])); i += sszSize
		if len(exportedTx) < i+mdLen { return nil, ErrIllegalArguments }
		var md *KVMetadata
		if mdLen > 0 {
			md = newReadOnlyKVMetadata()
			err := md.unsafeReadFrom(exportedTx[i : i+mdLen]); if err != nil { return nil, err }
			i += mdLen
		}
		if len(exportedTx) < i+lszSize { return nil, ErrIllegalArguments }      // FIX vLen
		vLen := int(binary.BigEndian.Uint32(exportedTx[i:])); i += lszSize
		if len(exportedTx) < i+vLen { return nil, ErrIllegalArguments }
		entries = append(entries, &EntrySpec{Key: key, Metadata: md, Value: exportedTx[i : i+vLen]})
		i += vLen
``` -/
def replicateEntries (fx : Fix) (exportedTx : Bytes) : Nat → Nat → List EntrySpec → M (List EntrySpec × Nat)
  | 0, i, entries => pure (entries, i)
  | todo+1, i, entries =>
    if exportedTx.length < i + 2*storeSszSize + storeLszSize then M.fail .illegalArguments
    else do
      let kLen ← be16At exportedTx i
      let i := i + storeSszSize
      if exportedTx.length < i + storeSszSize + storeLszSize + kLen then M.fail .illegalArguments
      else do
        let key0 ← make kLen
        let src ← sliceFrom exportedTx i
        let key := copyFixed key0.length src
        let i := i + kLen
        let mdLen ← be16At exportedTx i
        let i := i + storeSszSize
        if exportedTx.length < i + mdLen then M.fail .illegalArguments
        else do
          let (md, i) ← (
            if mdLen > 0 then do
              let s ← slice exportedTx i (i + mdLen)
              let md ← KVMetadata.unsafeReadFrom s
              pure (some md, i + mdLen)
            else pure (none, i) : M (Option KVMetadata × Nat))
          -- FIX vLen: if len(exportedTx) < i+lszSize { return nil, ErrIllegalArguments }
          if fx.vLen && exportedTx.length < i + storeLszSize then M.fail .illegalArguments
          else do
            let vLen ← be32At exportedTx i
            let i := i + storeLszSize
            if exportedTx.length < i + vLen then M.fail .illegalArguments
            else do
              let value ← slice exportedTx i (i + vLen)
              let entries := entries ++ [{ key := key, metadata := md, value := value }]
              let i := i + vLen
              replicateEntries fx exportedTx todo i entries

/--
```go
	if i < len(exportedTx) {
		if len(exportedTx) < i+sszSize { return nil, ErrIllegalArguments }          // FIX tLen
		tLen := int(binary.BigEndian.Uint16(exportedTx[i:])); i += sszSize
		if len(exportedTx) < i+tLen { return nil, ErrIllegalArguments }
		v := exportedTx[i : i+tLen]
		if len(v) == 0 || v[0] > 1 { return nil, ErrIllegalTruncationArgument }    // FIX tZero
		isTruncated = v[0] == 1
		i += tLen
	}
```
Before the repair (`fx.tZero = false`) the test was `if len(v) > 0 && v[0] > 1`, which lets `tLen = 0`
through to `v[0]`. -/
def replicateTruncInfo (fx : Fix) (exportedTx : Bytes) (i : Nat) : M (Bool × Nat) :=
  if i < exportedTx.length then
    -- FIX tLen: if len(exportedTx) < i+sszSize { return nil, ErrIllegalArguments }
    if fx.tLen && exportedTx.length < i + storeSszSize then M.fail .illegalArguments
    else do
      let tLen ← be16At exportedTx i
      let i := i + storeSszSize
      if exportedTx.length < i + tLen then M.fail .illegalArguments
      else do
        let v ← slice exportedTx i (i + tLen)
        let bad ← (
          -- FIX tZero: `len(v) == 0 || v[0] > 1`
          if fx.tZero then
            (if v.length = 0 then pure true else do let x ← idx v 0; pure (decide (x.toNat > 1)) : M Bool)
          -- before the repair: `len(v) > 0 && v[0] > 1`
          else
            (if v.length > 0 then do let x ← idx v 0; pure (decide (x.toNat > 1)) else pure false : M Bool))
        if bad then M.fail .illegalTruncationArgument
        else do
          let x ← idx v 0
          pure (decide (x.toNat = 1), i + tLen)
  else pure (false, i)

/--
```go
func (s *ImmuStore) ReplicateTx(ctx, exportedTx []byte, …) (*TxHeader, error) {
	if len(exportedTx) == 0 { return nil, ErrIllegalArguments }
	i := 0
	if len(exportedTx) < lszSize { return nil, ErrIllegalArguments }
	hdrLen := int(binary.BigEndian.Uint32(exportedTx[i:])); i += lszSize
	if len(exportedTx) < i+hdrLen { return nil, ErrIllegalArguments }
	hdr := &TxHeader{}
	err := hdr.ReadFrom(exportedTx[i : i+hdrLen]); if err != nil { return nil, err }
	i += hdrLen
	txSpec, err := s.NewWriteOnlyTx(ctx) …
	for e := 0; e < hdr.NEntries; e++ { … }
	if i < len(exportedTx) { … }
	if i != len(exportedTx) { return nil, ErrIllegalArguments }
	…
``` -/
def replicateTxFraming (fx : Fix) (exportedTx : Bytes) : M ExportedTx :=
  if exportedTx.length = 0 then M.fail .illegalArguments
  else
    let i := 0
    if exportedTx.length < storeLszSize then M.fail .illegalArguments
    else do
      let hdrLen ← be32At exportedTx i
      let i := i + storeLszSize
      if exportedTx.length < i + hdrLen then M.fail .illegalArguments
      else do
        let s ← slice exportedTx i (i + hdrLen)
        let hdr ← TxHeader.readFrom fx s
        let i := i + hdrLen
        let (entries, i) ← replicateEntries fx exportedTx hdr.nentries i []
        let (isTruncated, i) ← replicateTruncInfo fx exportedTx i
        if i ≠ exportedTx.length then M.fail .illegalArguments
        else pure { hdr := hdr, entries := entries, isTruncated := isTruncated }

/-- `ReplicateTx` as a state transformer: the store state `σ` is only touched by `precommit`,
which runs after the framing succeeded. -/
def replicateTx {σ : Type} (precommit : σ → ExportedTx → σ × R TxHeader) (st : σ) (exportedTx : Bytes) :
    σ × R TxHeader :=
  match (replicateTxFraming Fix.current exportedTx).res with
  | .ok tx => precommit st tx
  | .err e => (st, .err e)
  | .panic => (st, .panic)

end ImmuModel.Decode
