/-
C16 — helper lemmas about the GoSlice DSL (proof side; no model definitions here).
-/
import ImmuModel.Base.GoSlice
import ImmuModel.Gen.Consts
import ImmuModel.Gen.ConstsC16
namespace ImmuModel.Go
open ImmuModel

/-! ### monad laws used for unfolding -/

@[simp] theorem bind_eq (x : M α) (f : α → M β) : (x >>= f) = M.bind x f := rfl
@[simp] theorem pure_eq (a : α) : (Pure.pure a : M α) = M.pure a := rfl

@[simp] theorem M.pure_bind (a : α) (f : α → M β) : M.bind (M.pure a) f = f a := by
  simp [M.bind, M.pure]
@[simp] theorem M.fail_bind (e : ErrClass) (f : α → M β) : M.bind (M.fail e) f = M.fail e := by
  simp [M.bind, M.fail]
@[simp] theorem M.panic_bind (f : α → M β) : M.bind (M.panic : M α) f = M.panic := by
  simp [M.bind, M.panic]

@[simp] theorem M.pure_res (a : α) : (M.pure a).res = .ok a := rfl
@[simp] theorem M.fail_res (e : ErrClass) : (M.fail e : M α).res = .err e := rfl
@[simp] theorem M.panic_res : (M.panic : M α).res = .panic := rfl
@[simp] theorem M.pure_alloc (a : α) : (M.pure a).alloc = 0 := rfl
@[simp] theorem M.fail_alloc (e : ErrClass) : (M.fail e : M α).alloc = 0 := rfl
@[simp] theorem M.panic_alloc : (M.panic : M α).alloc = 0 := rfl

theorem M.bind_res_ok {x : M α} {f : α → M β} {a : α} (h : x.res = .ok a) :
    (M.bind x f).res = (f a).res := by simp [M.bind, h]
theorem M.bind_alloc_ok {x : M α} {f : α → M β} {a : α} (h : x.res = .ok a) :
    (M.bind x f).alloc = x.alloc + (f a).alloc := by simp [M.bind, h]
theorem M.bind_res_err {x : M α} {f : α → M β} {e} (h : x.res = .err e) :
    (M.bind x f).res = .err e := by simp [M.bind, h]
theorem M.bind_res_panic {x : M α} {f : α → M β} (h : x.res = .panic) :
    (M.bind x f).res = .panic := by simp [M.bind, h]

theorem M.ext {x y : M α} (h1 : x.res = y.res) (h2 : x.alloc = y.alloc) : x = y := by
  cases x; cases y; simp_all

/-! ### NoPanic calculus -/

theorem NoPanic.pure (a : α) : NoPanic (M.pure a) := by simp [NoPanic]
theorem NoPanic.fail (e : ErrClass) : NoPanic (M.fail e : M α) := by simp [NoPanic]

theorem NoPanic.bind {x : M α} {f : α → M β} (hx : NoPanic x)
    (hf : ∀ a, x.res = .ok a → NoPanic (f a)) : NoPanic (M.bind x f) := by
  unfold NoPanic at *
  cases h : x.res with
  | ok a => rw [M.bind_res_ok h]; exact hf a h
  | err e => rw [M.bind_res_err h]; simp
  | panic => exact absurd h hx

theorem NoPanic.ite {c : Prop} [Decidable c] {a b : M α} (h1 : c → NoPanic a) (h2 : ¬c → NoPanic b) :
    NoPanic (if c then a else b) := by
  split
  · exact h1 ‹_›
  · exact h2 ‹_›

/-- does not panic, and every successful result satisfies `P` -/
def Post (m : M α) (P : α → Prop) : Prop := m.res ≠ .panic ∧ ∀ a, m.res = .ok a → P a

theorem Post.noPanic {m : M α} {P} (h : Post m P) : NoPanic m := h.1

theorem Post.bind {x : M α} {f : α → M β} {P : α → Prop} {Q : β → Prop} (hx : Post x P)
    (hf : ∀ a, P a → Post (f a) Q) : Post (M.bind x f) Q := by
  cases h : x.res with
  | ok a =>
    have := hf a (hx.2 a h)
    constructor
    · rw [M.bind_res_ok h]; exact this.1
    · intro b hb; rw [M.bind_res_ok h] at hb; exact this.2 b hb
  | err e => constructor <;> simp [M.bind_res_err h]
  | panic => exact absurd h hx.1

theorem Post.pure {a : α} {P : α → Prop} (h : P a) : Post (M.pure a) P := by
  constructor
  · simp
  · intro b hb; simp at hb; exact hb ▸ h

theorem Post.fail {e} {P : α → Prop} : Post (M.fail e : M α) P := by
  constructor <;> simp

theorem Post.ite {c : Prop} [Decidable c] {a b : M α} {P} (h1 : c → Post a P) (h2 : ¬c → Post b P) :
    Post (if c then a else b) P := by
  split
  · exact h1 ‹_›
  · exact h2 ‹_›

theorem Post.weaken {m : M α} {P Q : α → Prop} (h : Post m P) (hpq : ∀ a, P a → Q a) : Post m Q :=
  ⟨h.1, fun a ha => hpq a (h.2 a ha)⟩

theorem Post.of_noPanic {m : M α} (h : NoPanic m) : Post m (fun _ => True) := ⟨h, fun _ _ => trivial⟩

/-! ### primitives: when they succeed -/

theorem sliceFrom_ok {b : Bytes} {i : Nat} (h : i ≤ b.length) : sliceFrom b i = M.pure (b.drop i) := by
  simp [sliceFrom]; omega

theorem sliceFrom_panic {b : Bytes} {i : Nat} (h : b.length < i) : sliceFrom b i = M.panic := by
  simp [sliceFrom]; omega

theorem slice_ok {b : Bytes} {i j : Nat} (h1 : i ≤ j) (h2 : j ≤ b.length) :
    slice b i j = M.pure ((b.take j).drop i) := by
  simp [slice]; omega

theorem sliceTo_ok {b : Bytes} {j : Nat} (h : j ≤ b.length) : sliceTo b j = M.pure (b.take j) := by
  simp [sliceTo]; omega

theorem idx_ok {b : Bytes} {i : Nat} (h : i < b.length) : idx b i = M.pure b[i] := by
  simp [idx, h]

theorem idx_panic {b : Bytes} {i : Nat} (h : b.length ≤ i) : idx b i = M.panic := by
  simp [idx, h]

theorem rdU16_ok {b : Bytes} (h : 2 ≤ b.length) : rdU16 b = M.pure (beVal (b.take 2)) := by
  simp [rdU16]; omega
theorem rdU32_ok {b : Bytes} (h : 4 ≤ b.length) : rdU32 b = M.pure (beVal (b.take 4)) := by
  simp [rdU32]; omega
theorem rdU64_ok {b : Bytes} (h : 8 ≤ b.length) : rdU64 b = M.pure (beVal (b.take 8)) := by
  simp [rdU64]; omega

theorem be16At_ok {b : Bytes} {off : Nat} (h : off + 2 ≤ b.length) :
    be16At b off = M.pure (beVal ((b.drop off).take 2)) := by
  have h1 : off ≤ b.length := by omega
  simp only [be16At, bind_eq, sliceFrom_ok h1, M.pure_bind]
  exact rdU16_ok (by simp; omega)
theorem be32At_ok {b : Bytes} {off : Nat} (h : off + 4 ≤ b.length) :
    be32At b off = M.pure (beVal ((b.drop off).take 4)) := by
  have h1 : off ≤ b.length := by omega
  simp only [be32At, bind_eq, sliceFrom_ok h1, M.pure_bind]
  exact rdU32_ok (by simp; omega)
theorem be64At_ok {b : Bytes} {off : Nat} (h : off + 8 ≤ b.length) :
    be64At b off = M.pure (beVal ((b.drop off).take 8)) := by
  have h1 : off ≤ b.length := by omega
  simp only [be64At, bind_eq, sliceFrom_ok h1, M.pure_bind]
  exact rdU64_ok (by simp; omega)

theorem be16At_panic {b : Bytes} {off : Nat} (h : b.length < off + 2) : (be16At b off).res = .panic := by
  unfold be16At sliceFrom
  split
  · simp
  · simp only [bind_eq, M.pure_bind, rdU16]; rw [if_pos (by simp; omega)]; rfl
theorem be32At_panic {b : Bytes} {off : Nat} (h : b.length < off + 4) : (be32At b off).res = .panic := by
  unfold be32At sliceFrom
  split
  · simp
  · simp only [bind_eq, M.pure_bind, rdU32]; rw [if_pos (by simp; omega)]; rfl
theorem be64At_panic {b : Bytes} {off : Nat} (h : b.length < off + 8) : (be64At b off).res = .panic := by
  unfold be64At sliceFrom
  split
  · simp
  · simp only [bind_eq, M.pure_bind, rdU64]; rw [if_pos (by simp; omega)]; rfl


/-! ### relation between the code as it is (`x`) and the code with the missing guard (`y`) -/

/-- `x` behaves exactly like `y`, or `x` panics where `y` returns an error. -/
def PanicOr (x y : M α) : Prop := x = y ∨ (x.res = .panic ∧ ∃ e, y.res = .err e)

theorem PanicOr.refl (x : M α) : PanicOr x x := Or.inl rfl

theorem PanicOr.bind {x y : M α} {f g : α → M β} (hx : PanicOr x y) (hf : ∀ a, PanicOr (f a) (g a)) :
    PanicOr (M.bind x f) (M.bind y g) := by
  rcases hx with rfl | ⟨hp, e, he⟩
  · cases h : x.res with
    | ok a =>
      rcases hf a with heq | ⟨hp, e, he⟩
      · left
        apply M.ext
        · rw [M.bind_res_ok h, M.bind_res_ok h, heq]
        · rw [M.bind_alloc_ok h, M.bind_alloc_ok h, heq]
      · right
        exact ⟨by rw [M.bind_res_ok h]; exact hp, e, by rw [M.bind_res_ok h]; exact he⟩
    | err e => left; simp [M.bind, h]
    | panic => left; simp [M.bind, h]
  · right
    exact ⟨M.bind_res_panic hp, e, M.bind_res_err he⟩

theorem PanicOr.bind_right {x : M α} {f g : α → M β} (hf : ∀ a, x.res = .ok a → PanicOr (f a) (g a)) :
    PanicOr (M.bind x f) (M.bind x g) := by
  cases h : x.res with
  | ok a =>
    rcases hf a h with heq | ⟨hp, e, he⟩
    · left
      apply M.ext
      · rw [M.bind_res_ok h, M.bind_res_ok h, heq]
      · rw [M.bind_alloc_ok h, M.bind_alloc_ok h, heq]
    · right
      exact ⟨by rw [M.bind_res_ok h]; exact hp, e, by rw [M.bind_res_ok h]; exact he⟩
  | err e => left; simp [M.bind, h]
  | panic => left; simp [M.bind, h]

theorem PanicOr.ite {c : Prop} [Decidable c] {a b a' b' : M α} (h1 : c → PanicOr a a') (h2 : ¬c → PanicOr b b') :
    PanicOr (if c then a else b) (if c then a' else b') := by
  split
  · exact h1 ‹_›
  · exact h2 ‹_›

/-- the guard `g` (present only on the right) fires exactly where the left side panics -/
theorem PanicOr.guard {g : Prop} [Decidable g] {x y : M α} {e : ErrClass}
    (hg : g → x.res = .panic) (hn : ¬g → PanicOr x y) :
    PanicOr x (if g then M.fail e else y) := by
  split
  · right; exact ⟨hg ‹_›, e, rfl⟩
  · exact hn ‹_›

theorem PanicOr.noPanic_left {x y : M α} (h : PanicOr x y) (hy : NoPanic y) (hx : x.res = .panic) :
    ∃ e, y.res = .err e := by
  rcases h with rfl | ⟨_, e, he⟩
  · exact absurd hx hy
  · exact ⟨e, he⟩

/-! ### allocation calculus -/

/-- the allocation observable is at most `N` -/
def AllocLe (m : M α) (N : Nat) : Prop := m.alloc ≤ N

theorem AllocLe.pure (a : α) (N : Nat) : AllocLe (M.pure a) N := by simp [AllocLe]
theorem AllocLe.fail (e : ErrClass) (N : Nat) : AllocLe (M.fail e : M α) N := by simp [AllocLe]
theorem AllocLe.panic (N : Nat) : AllocLe (M.panic : M α) N := by simp [AllocLe]

theorem AllocLe.ite {c : Prop} [Decidable c] {a b : M α} {N : Nat} (h1 : c → AllocLe a N) (h2 : ¬c → AllocLe b N) :
    AllocLe (if c then a else b) N := by
  split
  · exact h1 ‹_›
  · exact h2 ‹_›

theorem AllocLe.bind {x : M α} {f : α → M β} {A B N : Nat} (hx : AllocLe x A)
    (hf : ∀ a, x.res = .ok a → AllocLe (f a) B) (hN : A + B ≤ N) : AllocLe (M.bind x f) N := by
  unfold AllocLe at *
  cases h : x.res with
  | ok a => rw [M.bind_alloc_ok h]; have := hf a h; omega
  | err e => simp [M.bind, h]; omega
  | panic => simp [M.bind, h]; omega

theorem AllocLe.mono {m : M α} {A B : Nat} (h : AllocLe m A) (hab : A ≤ B) : AllocLe m B :=
  Nat.le_trans h hab

theorem M.bind_alloc_not_ok {x : M α} {f : α → M β} (h : ∀ a, x.res ≠ .ok a) : (M.bind x f).alloc = x.alloc := by
  cases hx : x.res with
  | ok a => exact absurd hx (h a)
  | err e => simp [M.bind, hx]
  | panic => simp [M.bind, hx]

theorem AllocLe.bind0 {x : M α} {f : α → M β} {N : Nat} (hx : x.alloc = 0)
    (hf : ∀ a, x.res = .ok a → AllocLe (f a) N) : AllocLe (M.bind x f) N :=
  AllocLe.bind (A := 0) (B := N) (by simp [AllocLe, hx]) hf (by omega)

@[simp] theorem sliceFrom_alloc (b : Bytes) (i : Nat) : (sliceFrom b i).alloc = 0 := by
  unfold sliceFrom; split <;> rfl
@[simp] theorem slice_alloc (b : Bytes) (i j : Nat) : (slice b i j).alloc = 0 := by
  unfold slice; split <;> rfl
@[simp] theorem sliceTo_alloc (b : Bytes) (j : Nat) : (sliceTo b j).alloc = 0 := by
  unfold sliceTo; split <;> rfl
@[simp] theorem idx_alloc (b : Bytes) (i : Nat) : (idx b i).alloc = 0 := by
  unfold idx; split <;> rfl
@[simp] theorem rdU16_alloc (b : Bytes) : (rdU16 b).alloc = 0 := by unfold rdU16; split <;> rfl
@[simp] theorem rdU32_alloc (b : Bytes) : (rdU32 b).alloc = 0 := by unfold rdU32; split <;> rfl
@[simp] theorem rdU64_alloc (b : Bytes) : (rdU64 b).alloc = 0 := by unfold rdU64; split <;> rfl

theorem M.bind_alloc_zero {x : M α} {f : α → M β} (hx : x.alloc = 0) (hf : ∀ a, (f a).alloc = 0) :
    (M.bind x f).alloc = 0 := by
  cases h : x.res with
  | ok a => rw [M.bind_alloc_ok h, hx, hf a]
  | err e => simp [M.bind, h, hx]
  | panic => simp [M.bind, h, hx]

@[simp] theorem be16At_alloc (b : Bytes) (i : Nat) : (be16At b i).alloc = 0 :=
  M.bind_alloc_zero (sliceFrom_alloc b i) (fun s => rdU16_alloc s)
@[simp] theorem be32At_alloc (b : Bytes) (i : Nat) : (be32At b i).alloc = 0 :=
  M.bind_alloc_zero (sliceFrom_alloc b i) (fun s => rdU32_alloc s)
@[simp] theorem be64At_alloc (b : Bytes) (i : Nat) : (be64At b i).alloc = 0 :=
  M.bind_alloc_zero (sliceFrom_alloc b i) (fun s => rdU64_alloc s)

/-! ### partial correctness (whatever the code returns on success satisfies `P`) -/

def PostOk (m : M α) (P : α → Prop) : Prop := ∀ a, m.res = .ok a → P a

theorem PostOk.pure {a : α} {P : α → Prop} (h : P a) : PostOk (M.pure a) P := by
  intro b hb; simp at hb; exact hb ▸ h
theorem PostOk.fail {e} {P : α → Prop} : PostOk (M.fail e : M α) P := by
  intro b hb; simp at hb
theorem PostOk.ite {c : Prop} [Decidable c] {a b : M α} {P} (h1 : c → PostOk a P) (h2 : ¬c → PostOk b P) :
    PostOk (if c then a else b) P := by
  split
  · exact h1 ‹_›
  · exact h2 ‹_›
theorem PostOk.bind {x : M α} {f : α → M β} {Q : β → Prop} (hf : ∀ a, x.res = .ok a → PostOk (f a) Q) :
    PostOk (M.bind x f) Q := by
  intro b hb
  cases h : x.res with
  | ok a => rw [M.bind_res_ok h] at hb; exact hf a h b hb
  | err e => rw [M.bind_res_err h] at hb; simp at hb
  | panic => rw [M.bind_res_panic h] at hb; simp at hb

theorem make_eq (n : Nat) : make n = ⟨.ok (List.replicate n 0), n⟩ := rfl

theorem beVal_lt (b : Bytes) : beVal b < 256 ^ b.length := by
  induction b with
  | nil => simp [beVal]
  | cons x xs ih =>
    simp only [beVal, List.length_cons]
    have hx : x.toNat < 256 := UInt8.toNat_lt x
    have : 256 ^ (xs.length + 1) = 256 * 256 ^ xs.length := by rw [Nat.pow_succ, Nat.mul_comm]
    rw [this]
    have hpos : 0 < 256 ^ xs.length := Nat.pow_pos (by decide)
    calc x.toNat * 256 ^ xs.length + beVal xs
        < x.toNat * 256 ^ xs.length + 256 ^ xs.length := by omega
      _ = (x.toNat + 1) * 256 ^ xs.length := by rw [Nat.add_mul, Nat.one_mul]
      _ ≤ 256 * 256 ^ xs.length := Nat.mul_le_mul_right _ (by omega)

theorem beVal_take2_lt (b : Bytes) : beVal (b.take 2) < 65536 := by
  have := beVal_lt (b.take 2)
  have h2 : (b.take 2).length ≤ 2 := by simp; omega
  calc beVal (b.take 2) < 256 ^ (b.take 2).length := this
    _ ≤ 256 ^ 2 := Nat.pow_le_pow_right (by decide) h2


/-- bring the regenerated size constants into the context as equations (for `omega`); the constants
are NOT unfolded in the goal, so `if` conditions keep their `Decidable` instances. A change of a
constant in /repo breaks these `rfl`s. -/
macro "c16_consts" : tactic => `(tactic| (
  have hcTxID : ImmuModel.Gen.storeTxIDSize = 8 := rfl
  have hcTs : ImmuModel.Gen.storeTsSize = 8 := rfl
  have hcLsz : ImmuModel.Gen.storeLszSize = 4 := rfl
  have hcSsz : ImmuModel.Gen.storeSszSize = 2 := rfl
  have hcOff : ImmuModel.Gen.storeOffsetSize = 8 := rfl
  have hcAttr : ImmuModel.Gen.storeAttrCodeSize = 1 := rfl
  have hcMaxTxMd : ImmuModel.Gen.storeMaxTxMetadataLen = 268 := rfl
  have hcMaxKvMd : ImmuModel.Gen.storeMaxKVMetadataLen = 11 := rfl
  have hcMaxExtra : ImmuModel.Gen.storeMaxExtraLen = 256 := rfl))

end ImmuModel.Go
