/-
C16 — transliteration of `ImmuStore.valueRefFrom` (/repo/embedded/store/key_reader.go).
-/
import ImmuModel.Decode.TxMetadata
import ImmuModel.Decode.KVMetadata
import ImmuModel.Decode.TxHeader
namespace ImmuModel.Decode
open ImmuModel ImmuModel.Go ImmuModel.Gen

structure ValueRef where
  valLen : Nat
  vOff : Nat            -- raw uint64 (Go: int64(uint64))
  hVal : Bytes
  txmd : Option TxMetadata
  kvmd : Option KVMetadata
  deriving DecidableEq, Repr

/--
```go
func (st *ImmuStore) valueRefFrom(tx, hc uint64, indexedVal []byte) (ValueRef, error) {
	const valrLen = lszSize + offsetSize + sha256.Size
	if len(indexedVal) < valrLen { return nil, ErrCorruptedIndex }
	i := 0
	valLen := binary.BigEndian.Uint32(indexedVal[i:]); i += lszSize
	vOff := int64(binary.BigEndian.Uint64(indexedVal[i:])); i += offsetSize
	var hVal [sha256.Size]byte
	copy(hVal[:], indexedVal[i:]); i += sha256.Size
	var txmd *TxMetadata; var kvmd *KVMetadata
	if len(indexedVal) > i {
		if len(indexedVal) < i+2*sszSize { return nil, ErrCorruptedIndex }
		txmdLen := int(binary.BigEndian.Uint16(indexedVal[i:])); i += sszSize
		if txmdLen > maxTxMetadataLen || len(indexedVal) < i+txmdLen+sszSize { return nil, ErrCorruptedIndex }
		if txmdLen > 0 {
			txmd = NewTxMetadata()
			err := txmd.ReadFrom(indexedVal[i : i+txmdLen]); if err != nil { return nil, err }
			i += txmdLen
		}
		kvmdLen := int(binary.BigEndian.Uint16(indexedVal[i:])); i += sszSize
		if kvmdLen > maxKVMetadataLen || len(indexedVal) < i+kvmdLen { return nil, ErrCorruptedIndex }
		if kvmdLen > 0 {
			kvmd = newReadOnlyKVMetadata()
			err := kvmd.unsafeReadFrom(indexedVal[i : i+kvmdLen]); if err != nil { return nil, err }
			i += kvmdLen
		}
	}
	if len(indexedVal) > i { return nil, ErrCorruptedIndex }
	return &valueRef{…}, nil
}
``` -/
def valueRefFrom (fx : Fix) (indexedVal : Bytes) : M ValueRef :=
  let valrLen := storeLszSize + storeOffsetSize + sha256Size
  if indexedVal.length < valrLen then M.fail .corruptedIndex
  else do
    let i := 0
    let valLen ← be32At indexedVal i
    let i := i + storeLszSize
    let vOff ← be64At indexedVal i
    let i := i + storeOffsetSize
    let s ← sliceFrom indexedVal i
    let hVal := copyFixed sha256Size s
    let i := i + sha256Size
    let (txmd, kvmd, i) ← (
      if indexedVal.length > i then
        if indexedVal.length < i + 2*storeSszSize then M.fail .corruptedIndex
        else do
          let txmdLen ← be16At indexedVal i
          let i := i + storeSszSize
          if txmdLen > storeMaxTxMetadataLen || indexedVal.length < i + txmdLen + storeSszSize then M.fail .corruptedIndex
          else do
            let (txmd, i) ← (
              if txmdLen > 0 then do
                let s ← slice indexedVal i (i + txmdLen)
                let md ← TxMetadata.readFrom fx s
                pure (some md, i + txmdLen)
              else pure (none, i) : M (Option TxMetadata × Nat))
            let kvmdLen ← be16At indexedVal i
            let i := i + storeSszSize
            if kvmdLen > storeMaxKVMetadataLen || indexedVal.length < i + kvmdLen then M.fail .corruptedIndex
            else do
              let (kvmd, i) ← (
                if kvmdLen > 0 then do
                  let s ← slice indexedVal i (i + kvmdLen)
                  let md ← KVMetadata.unsafeReadFrom s
                  pure (some md, i + kvmdLen)
                else pure (none, i) : M (Option KVMetadata × Nat))
              pure (txmd, kvmd, i)
      else pure (none, none, i) : M (Option TxMetadata × Option KVMetadata × Nat))
    if indexedVal.length > i then M.fail .corruptedIndex
    else pure { valLen := valLen, vOff := vOff, hVal := hVal, txmd := txmd, kvmd := kvmd }

end ImmuModel.Decode
