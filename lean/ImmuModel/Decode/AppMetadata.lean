/-
C16 — transliteration of `appendable.Metadata.ReadFrom` / `readField`
(/repo/embedded/appendable/metadata.go) reading through the reader that `NewMetadata` builds:
`bufio.NewReader(bytes.NewBuffer(b))`.

`readField` reads with `io.ReadFull` (the 4 length bytes) and `io.ReadAll(io.LimitReader(r, len))`
(the data): both loop over `Read` until the request is complete or the reader is exhausted, so the
4096-byte buffer of the `bufio.Reader` is not observable — the reader is just the unread input.
A field is the bytes actually read; a field shorter than its declared length is an error
(`io.ErrUnexpectedEOF`), nothing is allocated from the declared length.
-/
import ImmuModel.Base.GoSlice
namespace ImmuModel.Decode
open ImmuModel ImmuModel.Go

/-- `bufio.Reader` over a `bytes.Buffer`: the unread bytes (buffered or not). -/
structure BufReader where
  rest : Bytes
  deriving Repr

/-- `io.ReadFull(r, p)` with `len(p) = n`, `r` a `bufio.Reader` over a `bytes.Buffer`.
```go
func ReadAtLeast(r Reader, buf []byte, min int) (n int, err error) {   // ReadFull: min = len(buf)
	for n < min && err == nil { var nn int; nn, err = r.Read(buf[n:]); n += nn }
	if n >= min { err = nil } else if n > 0 && err == EOF { err = ErrUnexpectedEOF }
	return
}
```
`(*bufio.Reader).Read` on a non-empty `p` returns `n > 0, nil` while bytes are left (buffered or in
the `bytes.Buffer`) and `0, io.EOF` afterwards. -/
def BufReader.readFull (r : BufReader) (n : Nat) : R Bytes × BufReader :=
  if n = 0 then (.ok [], r)
  else if r.rest.isEmpty then (.err .eof, r)
  else if r.rest.length < n then (.err .unexpectedEof, { rest := [] })
  else (.ok (r.rest.take n), { rest := r.rest.drop n })

/-- `io.ReadAll(io.LimitReader(r, n))`: the next `min n (bytes left)` bytes; `io.EOF` of either reader
ends the loop and is not reported.
```go
func (l *LimitedReader) Read(p []byte) (n int, err error) {
	if l.N <= 0 { return 0, EOF }
	if int64(len(p)) > l.N { p = p[0:l.N] }
	n, err = l.R.Read(p); l.N -= int64(n); return
}
func ReadAll(r Reader) ([]byte, error) {
	b := make([]byte, 0, 512)
	for {
		n, err := r.Read(b[len(b):cap(b)]); b = b[:len(b)+n]
		if err != nil { if err == EOF { err = nil }; return b, err }
		if len(b) == cap(b) { b = append(b, 0)[:len(b)] }            // grows with the bytes READ
	}
}
``` -/
def BufReader.readAllLimited (r : BufReader) (n : Nat) : Bytes × BufReader :=
  (r.rest.take n, { rest := r.rest.drop n })

/-- The buffer of `io.ReadAll` is grown by `append` while data arrives: its size follows the number of
bytes READ (amortised, at most `max 512 (2·got)`), not the declared length.  The allocation observable
counts the bytes stored. -/
def grown (got : Bytes) : M Unit := ⟨.ok (), got.length⟩

/--
```go
func readField(r io.Reader) ([]byte, error) {
	var lenb [4]byte
	_, err := io.ReadFull(r, lenb[:]); if err != nil { return nil, err }
	flen := binary.BigEndian.Uint32(lenb[:])
	// the declared length is not trusted: the buffer grows as data is actually read
	fb, err := io.ReadAll(io.LimitReader(r, int64(flen))); if err != nil { return nil, err }
	if uint32(len(fb)) < flen { return nil, io.ErrUnexpectedEOF }
	return fb, nil
}
``` -/
def readField (r : BufReader) : M (Bytes × BufReader) :=
  match r.readFull 4 with
  | (.err e, _) => M.fail e
  | (.panic, _) => M.panic
  | (.ok got, r) => do
    let lenb := copyFixed 4 got
    let flen ← rdU32 lenb
    let rd := r.readAllLimited flen
    grown rd.1
    if rd.1.length < flen then M.fail .unexpectedEof
    else pure (rd.1, rd.2)

/-- `for i := 0; i < len; i++ { k := readField; v := readField; m.data[string(k)] = v }`
(first argument: iterations still to run). -/
def appMetadataLoop : Nat → BufReader → List (Bytes × Bytes) → M (List (Bytes × Bytes))
  | 0, _, acc => pure acc
  | todo+1, r, acc => do
    let (k, r) ← readField r
    let (v, r) ← readField r
    appMetadataLoop todo r (acc ++ [(k, v)])

/--
```go
func (m *Metadata) ReadFrom(r io.Reader) (int64, error) {
	lenb, err := readField(r); if err != nil { return 0, err }
	if len(lenb) < 4 { return 0, ErrCorruptedMetadata }          // guard `appCount`
	len := int(binary.BigEndian.Uint32(lenb))          // <- len(lenb) is whatever the input declared
	for i := 0; i < len; i++ { … }
	return int64(len), nil
}
```
The result is the list of `(key, value)` insertions in order (later ones override earlier ones in
the Go map) and the returned count.  `fx.appCount = false` is the code WITHOUT the guard (the code
before the repair; kept to show that the guard is necessary, see `appMetadata_readFrom_guard_necessary` in Props/C16.lean). -/
def appMetadataReadFrom (fx : Fix) (b : Bytes) : M (Nat × List (Bytes × Bytes)) := do
  let r : BufReader := { rest := b }
  let (lenb, r) ← readField r
  if fx.appCount && lenb.length < 4 then M.fail .corruptedMetadata
  else do
    let len ← rdU32 lenb
    let kvs ← appMetadataLoop len r []
    pure (len, kvs)

end ImmuModel.Decode
