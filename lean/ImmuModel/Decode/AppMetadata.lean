/-
C16 — transliteration of `appendable.Metadata.ReadFrom` / `readField`
(/repo/embedded/appendable/metadata.go) reading through the reader that `NewMetadata` builds:
`bufio.NewReader(bytes.NewBuffer(b))` (default buffer size 4096).

`Read` is a SINGLE read (not `io.ReadFull`): short reads are silently accepted by `readField`,
the rest of the destination stays zero.  Field contents are therefore represented as
`data ++ 0^pad` without materialising the padding (a declared length can be 2^32-1).
-/
import ImmuModel.Base.GoSlice
namespace ImmuModel.Decode
open ImmuModel ImmuModel.Go

def bufioDefaultBufSize : Nat := 4096

/-- `bufio.Reader` over a `bytes.Buffer`: unread buffered bytes and unread underlying bytes. -/
structure BufReader where
  buf : Bytes := []
  rest : Bytes
  deriving Repr

/-- `(*bufio.Reader).Read(p)` with `len(p) = n`: the bytes stored into `p` (possibly fewer than `n`)
or `io.EOF`.
```go
	n = len(p)
	if n == 0 { if b.Buffered() > 0 { return 0, nil }; return 0, b.readErr() }
	if b.r == b.w {
		if b.err != nil { return 0, b.readErr() }
		if len(p) >= len(b.buf) { n, b.err = b.rd.Read(p); …; return n, b.readErr() }   // direct read
		b.r = 0; b.w = 0
		n, b.err = b.rd.Read(b.buf)
		if n == 0 { return 0, b.readErr() }
		b.w += n
	}
	n = copy(p, b.buf[b.r:b.w]); b.r += n
	return n, nil
```
`bytes.Buffer.Read` returns `(0, io.EOF)` when empty (and `len(p) > 0`), else copies `min`. -/
def BufReader.read (r : BufReader) (n : Nat) : R Bytes × BufReader :=
  if n = 0 then (.ok [], r)
  else if r.buf.isEmpty then
    if r.rest.isEmpty then (.err .eof, r)
    else if n ≥ bufioDefaultBufSize then (.ok (r.rest.take n), { r with rest := r.rest.drop n })
    else
      let buf := r.rest.take bufioDefaultBufSize
      let rest := r.rest.drop bufioDefaultBufSize
      (.ok (buf.take n), { buf := buf.drop n, rest := rest })
  else (.ok (r.buf.take n), { r with buf := r.buf.drop n })

/-- contents of a destination slice: `data ++ 0^pad` -/
structure Field where
  data : Bytes
  pad : Nat
  deriving DecidableEq, Repr

def Field.len (f : Field) : Nat := f.data.length + f.pad

/-- `binary.BigEndian.Uint32(f)`: panics iff `len(f) < 4`. -/
def Field.rdU32 (f : Field) : M Nat :=
  if f.len < 4 then M.panic else M.pure (beVal (copyFixed 4 f.data))

/-- `make([]byte, n)` followed by a `Read` that stored `got`: only the size is observable here. -/
def makeN (n : Nat) : M Unit := ⟨.ok (), n⟩

/--
```go
func readField(r io.Reader) ([]byte, error) {
	var lenb [4]byte
	_, err := r.Read(lenb[:]); if err != nil { return nil, err }
	len := binary.BigEndian.Uint32(lenb[:])
	fb := make([]byte, len)
	_, err = r.Read(fb); if err != nil { return nil, err }
	return fb, nil
}
``` -/
def readField (r : BufReader) : M (Field × BufReader) :=
  match r.read 4 with
  | (.err e, _) => M.fail e
  | (.panic, _) => M.panic
  | (.ok got, r) => do
    let lenb := copyFixed 4 got
    let len ← rdU32 lenb
    makeN len
    match r.read len with
    | (.err e, _) => M.fail e
    | (.panic, _) => M.panic
    | (.ok got, r) => pure ({ data := got, pad := len - got.length }, r)

/-- `for i := 0; i < len; i++ { k := readField; v := readField; m.data[string(k)] = v }`
(first argument: iterations still to run). -/
def appMetadataLoop : Nat → BufReader → List (Field × Field) → M (List (Field × Field))
  | 0, _, acc => pure acc
  | todo+1, r, acc => do
    let (k, r) ← readField r
    let (v, r) ← readField r
    appMetadataLoop todo r (acc ++ [(k, v)])

/--
```go
func (m *Metadata) ReadFrom(r io.Reader) (int64, error) {
	lenb, err := readField(r); if err != nil { return 0, err }
	len := int(binary.BigEndian.Uint32(lenb))          // <- len(lenb) is whatever the input declared
	for i := 0; i < len; i++ { … }
	return int64(len), nil
}
```
The result is the list of `(key, value)` insertions in order (later ones override earlier ones in
the Go map) and the returned count. -/
def appMetadataReadFrom (fx : Fix) (b : Bytes) : M (Nat × List (Field × Field)) := do
  let r : BufReader := { rest := b }
  let (lenb, r) ← readField r
  -- FIX (absent in the code): if len(lenb) < 4 { return 0, ErrCorruptedMetadata }
  if fx.appCount && lenb.len < 4 then M.fail .corruptedMetadata
  else do
    let len ← lenb.rdU32
    let kvs ← appMetadataLoop len r []
    pure (len, kvs)

end ImmuModel.Decode
