/-
Byte strings are `List UInt8` in all models.  Big-endian fixed-width encoders
mirror `binary.BigEndian.PutUintNN`.
-/
namespace ImmuModel

abbrev Bytes := List UInt8

namespace Bytes

def hexDigit (n : Nat) : Char :=
  if n < 10 then Char.ofNat (48 + n) else Char.ofNat (87 + n)

def toHex (bs : Bytes) : String :=
  String.ofList (bs.flatMap fun b => [hexDigit (b.toNat / 16), hexDigit (b.toNat % 16)])

def hexVal (c : Char) : Option Nat :=
  if '0' ≤ c ∧ c ≤ '9' then some (c.toNat - 48)
  else if 'a' ≤ c ∧ c ≤ 'f' then some (c.toNat - 87)
  else if 'A' ≤ c ∧ c ≤ 'F' then some (c.toNat - 55)
  else none

def ofHexChars : List Char → Option Bytes
  | [] => some []
  | [_] => none
  | a :: b :: rest => do
    let x ← hexVal a
    let y ← hexVal b
    let r ← ofHexChars rest
    pure (UInt8.ofNat (16 * x + y) :: r)

/-- "-" denotes the empty byte string on the wire (tokens cannot be empty). -/
def ofHex (s : String) : Option Bytes :=
  if s == "-" then some [] else ofHexChars s.toList

def toHexTok (bs : Bytes) : String := if bs.isEmpty then "-" else toHex bs

end Bytes

/-- Big-endian encoding of `n mod 256^w` on exactly `w` bytes. -/
def beN : (w : Nat) → Nat → Bytes
  | 0, _ => []
  | w+1, n => UInt8.ofNat (n / 256 ^ w % 256) :: beN w n

def be16 (n : Nat) : Bytes := beN 2 n
def be32 (n : Nat) : Bytes := beN 4 n
def be64 (n : Nat) : Bytes := beN 8 n

/-- Big-endian decoding of a byte list. -/
def beVal : Bytes → Nat
  | [] => 0
  | b :: bs => b.toNat * 256 ^ bs.length + beVal bs

@[simp] theorem beN_length (w n : Nat) : (beN w n).length = w := by
  induction w with
  | zero => rfl
  | succ w ih => simp [beN, ih]

@[simp] theorem be16_length (n : Nat) : (be16 n).length = 2 := beN_length 2 n
@[simp] theorem be32_length (n : Nat) : (be32 n).length = 4 := beN_length 4 n
@[simp] theorem be64_length (n : Nat) : (be64 n).length = 8 := beN_length 8 n

theorem beVal_beN (w n : Nat) : beVal (beN w n) = n % 256 ^ w := by
  induction w with
  | zero => simp [beN, beVal, Nat.mod_one]
  | succ w ih =>
    simp only [beN, beVal, beN_length, ih]
    have h256 : (UInt8.ofNat (n / 256 ^ w % 256)).toNat = n / 256 ^ w % 256 := by
      simp [UInt8.toNat_ofNat']
    rw [h256]
    have : 256 ^ (w+1) = 256 ^ w * 256 := by rw [Nat.pow_succ]
    rw [this, Nat.mod_mul, Nat.mul_comm]
    omega

theorem beN_inj (w a b : Nat) (ha : a < 256 ^ w) (hb : b < 256 ^ w)
    (h : beN w a = beN w b) : a = b := by
  have h1 := beVal_beN w a
  have h2 := beVal_beN w b
  rw [h] at h1
  rw [Nat.mod_eq_of_lt ha] at h1
  rw [Nat.mod_eq_of_lt hb] at h2
  omega

end ImmuModel
