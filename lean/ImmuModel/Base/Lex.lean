/-
Lexicographic order on byte strings (`bytes.Compare` in Go) and the generic lemmas used by the
key-encoding order theorems (C15): trichotomy, common prefixes, concatenation of "decisive"
(prefix-free) encodings, big-endian fixed-width numbers, zero padding.
Core Lean only.
-/
import ImmuModel.Base.Bytes
namespace ImmuModel

/-- `bytes.Compare(a, b) < 0`: the first differing byte decides, a proper prefix is smaller. -/
def lexLt : Bytes → Bytes → Bool
  | [], [] => false
  | [], _ :: _ => true
  | _ :: _, [] => false
  | a :: as, b :: bs => if a < b then true else if b < a then false else lexLt as bs

/-- `bytes.Compare(a, b)` ∈ {-1, 0, 1}. -/
def bytesCompare (a b : Bytes) : Int :=
  if lexLt a b then -1 else if lexLt b a then 1 else 0

@[simp] theorem lexLt_nil_nil : lexLt [] [] = false := rfl
@[simp] theorem lexLt_nil_cons (b : UInt8) (bs : Bytes) : lexLt [] (b :: bs) = true := rfl
@[simp] theorem lexLt_cons_nil (a : UInt8) (as : Bytes) : lexLt (a :: as) [] = false := rfl
theorem lexLt_cons_cons (a b : UInt8) (as bs : Bytes) :
    lexLt (a :: as) (b :: bs) = if a < b then true else if b < a then false else lexLt as bs := rfl

@[simp] theorem lexLt_nil_right (a : Bytes) : lexLt a [] = false := by
  cases a <;> rfl

theorem u8_lt_irrefl (a : UInt8) : ¬ a < a := by
  simp

theorem u8_eq_of_not_lt {a b : UInt8} (h1 : ¬ a < b) (h2 : ¬ b < a) : a = b := by
  apply UInt8.toNat_inj.mp
  simp [UInt8.lt_iff_toNat_lt] at h1 h2
  omega

theorem u8_lt_asymm {a b : UInt8} (h : a < b) : ¬ b < a := by
  simp [UInt8.lt_iff_toNat_lt] at *
  omega

@[simp] theorem lexLt_cons_same (a : UInt8) (as bs : Bytes) :
    lexLt (a :: as) (a :: bs) = lexLt as bs := by
  simp [lexLt_cons_cons]

theorem lexLt_cons_lt {a b : UInt8} (h : a < b) (as bs : Bytes) :
    lexLt (a :: as) (b :: bs) = true := by
  simp [lexLt_cons_cons, h]

theorem lexLt_cons_gt {a b : UInt8} (h : b < a) (as bs : Bytes) :
    lexLt (a :: as) (b :: bs) = false := by
  simp [lexLt_cons_cons, h, u8_lt_asymm h]

@[simp] theorem lexLt_irrefl (a : Bytes) : lexLt a a = false := by
  induction a with
  | nil => rfl
  | cons x xs ih => simp [ih]

theorem lexLt_asymm : ∀ {a b : Bytes}, lexLt a b = true → lexLt b a = false
  | [], [], h => by simp at h
  | [], _ :: _, _ => rfl
  | _ :: _, [], h => by simp at h
  | x :: xs, y :: ys, h => by
    rw [lexLt_cons_cons] at h
    rw [lexLt_cons_cons]
    by_cases h1 : x < y
    · simp [h1, u8_lt_asymm h1]
    · by_cases h2 : y < x
      · simp [h1, h2] at h
      · simp [h1, h2] at h ⊢
        exact lexLt_asymm h

/-- Trichotomy: two byte strings that are not ordered either way are equal. -/
theorem lexLt_connex : ∀ {a b : Bytes}, lexLt a b = false → lexLt b a = false → a = b
  | [], [], _, _ => rfl
  | [], _ :: _, h, _ => by simp at h
  | _ :: _, [], _, h => by simp at h
  | x :: xs, y :: ys, h1, h2 => by
    rw [lexLt_cons_cons] at h1 h2
    by_cases c1 : x < y
    · simp [c1] at h1
    · by_cases c2 : y < x
      · simp [c2] at h2
      · simp [c1, c2] at h1 h2
        have := u8_eq_of_not_lt c1 c2
        subst this
        rw [lexLt_connex h1 h2]

theorem lexLt_trans : ∀ {a b c : Bytes}, lexLt a b = true → lexLt b c = true → lexLt a c = true
  | [], _, [], _, h2 => by simp at h2
  | [], _, _ :: _, _, _ => rfl
  | _ :: _, [], _, h1, _ => by simp at h1
  | _ :: _, _ :: _, [], _, h2 => by simp at h2
  | x :: xs, y :: ys, z :: zs, h1, h2 => by
    rw [lexLt_cons_cons] at h1 h2
    rw [lexLt_cons_cons]
    by_cases c1 : x < y
    · by_cases c2 : y < z
      · have : x < z := by
          simp [UInt8.lt_iff_toNat_lt] at *
          omega
        simp [this]
      · by_cases c3 : z < y
        · simp [c2, c3] at h2
        · have := u8_eq_of_not_lt c2 c3
          subst this
          simp [c1]
    · by_cases c1' : y < x
      · simp [c1, c1'] at h1
      · have e := u8_eq_of_not_lt c1 c1'
        subst e
        simp [c1] at h1
        by_cases c2 : x < z
        · simp [c2]
        · by_cases c3 : z < x
          · simp [c2, c3] at h2
          · simp [c2, c3] at h2 ⊢
            exact lexLt_trans h1 h2

/-- A common prefix does not influence the order. -/
@[simp] theorem lexLt_append_left (p a b : Bytes) : lexLt (p ++ a) (p ++ b) = lexLt a b := by
  induction p with
  | nil => rfl
  | cons x xs ih => simp [ih]

/-- Two encodings are *decisive* when comparing them settles the comparison of any extensions
unless they are equal (i.e. neither is a proper prefix of the other). Concatenations of pairwise
decisive encodings order like tuples. -/
def Decisive (x y : Bytes) : Prop :=
  ∀ s t : Bytes, lexLt (x ++ s) (y ++ t) = (lexLt x y || (decide (x = y) && lexLt s t))

theorem decisive_of_length_eq : ∀ {x y : Bytes}, x.length = y.length → Decisive x y
  | [], [], _ => by intro s t; simp
  | [], _ :: _, h => by simp at h
  | _ :: _, [], h => by simp at h
  | a :: as, b :: bs, h => by
    intro s t
    have ih := decisive_of_length_eq (x := as) (y := bs) (by simpa using h) s t
    simp only [List.cons_append, lexLt_cons_cons]
    by_cases c1 : a < b
    · simp [c1]
    · by_cases c2 : b < a
      · have : a ≠ b := by intro e; subst e; exact u8_lt_irrefl _ c2
        simp [c1, c2, this]
      · have e := u8_eq_of_not_lt c1 c2
        subst e
        simp [c1, ih]

theorem decisive_of_head_ne {a b : UInt8} (h : a ≠ b) (as bs : Bytes) :
    Decisive (a :: as) (b :: bs) := by
  intro s t
  simp only [List.cons_append, lexLt_cons_cons]
  by_cases c1 : a < b
  · simp [c1]
  · by_cases c2 : b < a
    · simp [c1, c2, h]
    · exact absurd (u8_eq_of_not_lt c1 c2) h

theorem decisive_refl (x : Bytes) : Decisive x x := decisive_of_length_eq rfl

/-- Same-length blocks: the first block decides unless equal. -/
theorem lexLt_append_of_length_eq {x y : Bytes} (h : x.length = y.length) (s t : Bytes) :
    lexLt (x ++ s) (y ++ t) = (lexLt x y || (decide (x = y) && lexLt s t)) :=
  decisive_of_length_eq h s t

-- ---------------------------------------------------------------- bytesCompare

theorem bytesCompare_eq_neg_one {a b : Bytes} : bytesCompare a b = -1 ↔ lexLt a b = true := by
  unfold bytesCompare
  by_cases h : lexLt a b = true
  · simp [h]
  · by_cases h2 : lexLt b a = true <;> simp [h, h2]

theorem bytesCompare_eq_one {a b : Bytes} : bytesCompare a b = 1 ↔ lexLt b a = true := by
  unfold bytesCompare
  by_cases h : lexLt a b = true
  · have := lexLt_asymm h
    simp [h, this]
  · by_cases h2 : lexLt b a = true <;> simp [h, h2]

theorem bytesCompare_eq_zero {a b : Bytes} : bytesCompare a b = 0 ↔ a = b := by
  unfold bytesCompare
  by_cases h : lexLt a b = true
  · simp [h]
    intro e; subst e; simp at h
  · by_cases h2 : lexLt b a = true
    · simp [h, h2]
      intro e; subst e; simp at h2
    · simp [h, h2]
      exact lexLt_connex (by simpa using h) (by simpa using h2)

@[simp] theorem bytesCompare_self (a : Bytes) : bytesCompare a a = 0 :=
  bytesCompare_eq_zero.mpr rfl

theorem bytesCompare_append_left (p a b : Bytes) :
    bytesCompare (p ++ a) (p ++ b) = bytesCompare a b := by
  simp [bytesCompare]

theorem bytesCompare_cons_same (x : UInt8) (a b : Bytes) :
    bytesCompare (x :: a) (x :: b) = bytesCompare a b := by
  simp [bytesCompare]

/-- Concatenation of decisive blocks compares like the pair. -/
theorem bytesCompare_append_decisive {x y : Bytes} (h : Decisive x y) (h' : Decisive y x)
    (s t : Bytes) :
    bytesCompare (x ++ s) (y ++ t) = if bytesCompare x y = 0 then bytesCompare s t else bytesCompare x y := by
  by_cases e : x = y
  · subst e
    simp [bytesCompare_append_left]
  · have hne : bytesCompare x y ≠ 0 := fun h0 => e (bytesCompare_eq_zero.mp h0)
    have e' : ¬ y = x := fun h0 => e h0.symm
    simp only [hne, if_false]
    unfold bytesCompare
    rw [h s t, h' t s]
    simp [e, e']

-- ---------------------------------------------------------------- big-endian numbers

theorem u8_ofNat_lt {a b : Nat} (ha : a < 256) (hb : b < 256) :
    (UInt8.ofNat a < UInt8.ofNat b) ↔ a < b := by
  simp [UInt8.lt_iff_toNat_lt, UInt8.toNat_ofNat', Nat.mod_eq_of_lt ha, Nat.mod_eq_of_lt hb]

theorem beN_mod (w n : Nat) : beN w (n % 256 ^ w) = beN w n := by
  induction w generalizing n with
  | zero => rfl
  | succ w ih =>
    simp only [beN]
    have hp : 256 ^ (w + 1) = 256 ^ w * 256 := by rw [Nat.pow_succ]
    have h1 : n % 256 ^ (w + 1) / 256 ^ w % 256 = n / 256 ^ w % 256 := by
      rw [hp, Nat.mod_mul_right_div_self, Nat.mod_mod]
    have h2 : beN w (n % 256 ^ (w + 1)) = beN w n := by
      rw [← ih (n % 256 ^ (w + 1)), ← ih n, hp, Nat.mod_mul_right_mod]
    rw [h1, h2]

/-- Pure arithmetic: comparing `P*qa+ra` with `P*qb+rb` (remainders below `P`). -/
theorem lt_of_quot_lt {P qa qb ra rb : Nat} (hb : rb < P) (ha : ra < P) (h : qa < qb) :
    P * qa + ra < P * qb + rb := by
  have : P * (qa + 1) ≤ P * qb := Nat.mul_le_mul_left P h
  rw [Nat.mul_succ] at this
  omega

/-- Fixed-width big-endian encodings order like the numbers. -/
theorem lexLt_beN (w : Nat) : ∀ (a b : Nat), a < 256 ^ w → b < 256 ^ w →
    (lexLt (beN w a) (beN w b) = true ↔ a < b) := by
  induction w with
  | zero => intro a b ha hb; simp at ha hb; subst ha; subst hb; simp [beN]
  | succ w ih =>
    intro a b ha hb
    have hp : 256 ^ (w + 1) = 256 ^ w * 256 := by rw [Nat.pow_succ]
    have hpos : 0 < 256 ^ w := Nat.pow_pos (by decide)
    have hqa : a / 256 ^ w < 256 := by
      apply Nat.div_lt_of_lt_mul; rw [Nat.mul_comm]; omega
    have hqb : b / 256 ^ w < 256 := by
      apply Nat.div_lt_of_lt_mul; rw [Nat.mul_comm]; omega
    have da := Nat.div_add_mod a (256 ^ w)
    have db := Nat.div_add_mod b (256 ^ w)
    have ma := Nat.mod_lt a hpos
    have mb := Nat.mod_lt b hpos
    simp only [beN, lexLt_cons_cons, Nat.mod_eq_of_lt hqa, Nat.mod_eq_of_lt hqb,
      u8_ofNat_lt hqa hqb, u8_ofNat_lt hqb hqa]
    by_cases c1 : a / 256 ^ w < b / 256 ^ w
    · have := lt_of_quot_lt mb ma c1
      simp only [c1, if_true, true_iff]
      omega
    · by_cases c2 : b / 256 ^ w < a / 256 ^ w
      · have := lt_of_quot_lt ma mb c2
        simp only [c1, c2, if_true, if_false]
        constructor
        · intro h; cases h
        · intro h; omega
      · simp only [c1, c2, if_false]
        have e : a / 256 ^ w = b / 256 ^ w := by omega
        rw [← beN_mod w a, ← beN_mod w b, ih _ _ ma mb]
        rw [e] at da
        omega

theorem bytesCompare_beN (w a b : Nat) (ha : a < 256 ^ w) (hb : b < 256 ^ w) :
    bytesCompare (beN w a) (beN w b) = if a < b then -1 else if b < a then 1 else 0 := by
  unfold bytesCompare
  by_cases c1 : a < b
  · simp [c1, (lexLt_beN w a b ha hb).mpr c1]
  · have n1 : lexLt (beN w a) (beN w b) = false := by
      cases h : lexLt (beN w a) (beN w b) with
      | false => rfl
      | true => exact absurd ((lexLt_beN w a b ha hb).mp h) c1
    by_cases c2 : b < a
    · simp [c1, c2, n1, (lexLt_beN w b a hb ha).mpr c2]
    · have n2 : lexLt (beN w b) (beN w a) = false := by
        cases h : lexLt (beN w b) (beN w a) with
        | false => rfl
        | true => exact absurd ((lexLt_beN w b a hb ha).mp h) c2
      simp [c1, c2, n1, n2]

-- ---------------------------------------------------------------- zero padding

/-- Nothing is below a string of zero bytes of the same length. -/
theorem not_lexLt_zeros : ∀ (x : Bytes), lexLt x (List.replicate x.length 0) = false
  | [] => rfl
  | a :: as => by
    simp only [List.length_cons, List.replicate_succ, lexLt_cons_cons]
    have h0 : ¬ a < 0 := by simp [UInt8.lt_iff_toNat_lt]
    by_cases c : (0 : UInt8) < a
    · simp [h0, c]
    · simp [h0, c, not_lexLt_zeros as]

/-- A string is either all zeros or strictly above the zeros of its length. -/
theorem zeros_or_lexLt : ∀ (x : Bytes), x = List.replicate x.length 0 ∨ lexLt (List.replicate x.length 0) x = true := by
  intro x
  cases h : lexLt (List.replicate x.length 0) x with
  | true => exact Or.inr rfl
  | false => exact Or.inl (lexLt_connex (not_lexLt_zeros x) h)

end ImmuModel
