/-
Go fixed-width integer conversions used by the codec models (C15):
`uint64(int64)`, `int64(uint64)`, int64 wrap-around, `time.Unix` normalisation.
Core Lean only.
-/
import ImmuModel.Base.Bytes
namespace ImmuModel.GoInt

/-- Decidable equality of `Except` results (for `decide`-checked witnesses); named and kept in
this namespace so that it cannot clash with another module's derived instance. -/
instance exceptDecEq {ε α : Type} [DecidableEq ε] [DecidableEq α] : DecidableEq (Except ε α)
  | .ok a, .ok b => if h : a = b then isTrue (by rw [h]) else isFalse (fun e => by cases e; exact h rfl)
  | .error a, .error b => if h : a = b then isTrue (by rw [h]) else isFalse (fun e => by cases e; exact h rfl)
  | .ok _, .error _ => isFalse (fun e => by cases e)
  | .error _, .ok _ => isFalse (fun e => by cases e)

def two63 : Nat := 9223372036854775808
def two64 : Nat := 18446744073709551616

/-- `uint64(i)` for an `int64`/`int` value (two's complement reinterpretation). -/
def u64 (i : Int) : Nat := (i % (two64 : Int)).toNat

/-- `int64(u)` for a `uint64` value. -/
def i64 (u : Nat) : Int :=
  if u % two64 < two63 then ((u % two64 : Nat) : Int) else ((u % two64 : Nat) : Int) - (two64 : Int)

/-- The value an `int64` variable holds after an arithmetic result `i` (wraps modulo 2^64). -/
def wrap64 (i : Int) : Int := i64 (u64 i)

def InI64 (i : Int) : Prop := -(two63 : Int) ≤ i ∧ i < (two63 : Int)

instance (i : Int) : Decidable (InI64 i) := by unfold InI64; exact inferInstance

theorem u64_lt (i : Int) : u64 i < two64 := by
  unfold u64 two64
  omega

theorem u64_of_nonneg {i : Int} (h0 : 0 ≤ i) (h1 : i < (two63 : Int)) : u64 i = i.toNat := by
  unfold u64 two64; unfold two63 at h1
  omega

theorem u64_of_neg {i : Int} (h0 : i < 0) (h1 : -(two63 : Int) ≤ i) :
    u64 i = (i + (two64 : Int)).toNat := by
  unfold u64 two64; unfold two63 at h1
  omega

theorem i64_u64 {i : Int} (h : InI64 i) : i64 (u64 i) = i := by
  unfold InI64 two63 at h
  unfold i64 u64 two64 two63
  split <;> omega

theorem wrap64_of_in {i : Int} (h : InI64 i) : wrap64 i = i := i64_u64 h

theorem i64_in (u : Nat) : InI64 (i64 u) := by
  unfold InI64 i64 two63 two64
  split <;> omega

theorem u64_i64 {u : Nat} (h : u < two64) : u64 (i64 u) = u := by
  unfold two64 at h
  unfold i64 u64 two64 two63
  split <;> omega

/-- `time.Unix(sec, nsec)`: normalises `nsec` into `[0, 1e9)` (Go: truncated division, then one
correction step). Returns the instant as (seconds since the epoch, nanoseconds). -/
def timeUnix (sec nsec : Int) : Int × Nat :=
  if nsec < 0 ∨ nsec ≥ 1000000000 then
    let n := Int.tdiv nsec 1000000000
    let sec1 := sec + n
    let nsec1 := nsec - n * 1000000000
    if nsec1 < 0 then (sec1 - 1, (nsec1 + 1000000000).toNat) else (sec1, nsec1.toNat)
  else (sec, nsec.toNat)

theorem tdiv_nonneg_eq {a : Int} (h : 0 ≤ a) (b : Int) : Int.tdiv a b = a / b := by
  by_cases hb : 0 ≤ b
  · exact Int.tdiv_eq_ediv_of_nonneg h
  · rw [Int.tdiv_eq_ediv]; simp [h]

/-- `time.Unix` is floor division by 1e9. -/
theorem timeUnix_eq (sec nsec : Int) :
    timeUnix sec nsec = (sec + nsec / 1000000000, (nsec % 1000000000).toNat) := by
  unfold timeUnix
  by_cases h : nsec < 0 ∨ nsec ≥ 1000000000
  · rw [if_pos h]
    by_cases hn : 0 ≤ nsec
    · have e : Int.tdiv nsec 1000000000 = nsec / 1000000000 := Int.tdiv_eq_ediv_of_nonneg hn
      simp only [e]
      split
      · omega
      · congr 1 <;> omega
    · have hneg : nsec < 0 := by omega
      have e : Int.tdiv nsec 1000000000 = -((-nsec) / 1000000000) := by
        have : nsec = -(-nsec) := by omega
        rw [this, Int.neg_tdiv, Int.tdiv_eq_ediv_of_nonneg (by omega)]
        simp
      simp only [e]
      split
      · congr 1 <;> omega
      · congr 1 <;> omega
  · rw [if_neg h]
    congr 1 <;> omega

end ImmuModel.GoInt
