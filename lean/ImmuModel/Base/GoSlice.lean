/-
A tiny DSL for transliterating Go byte-slice decoders statement by statement (C16).

`R α` is the outcome of a Go call: a value, a returned error (by CLASS), or a run-time panic.
`M α` additionally carries the number of bytes allocated by `make` calls whose size came from
the input (the "allocation observable"), accumulated over the statements executed so far —
also on the error and panic paths (an allocation that precedes a returned error has happened).

Every partial Go operation goes through this file and panics EXACTLY when Go does:
  b[i:j]   -> `slice b i j`      panics iff i > j or j > len(b)     (see note on cap below)
  b[i:]    -> `sliceFrom b i`    panics iff i > len(b)
  b[:j]    -> `sliceTo b j`      panics iff j > len(b)
  b[i]     -> `idx b i`          panics iff i ≥ len(b)
  binary.BigEndian.UintNN(b[off:]) -> `beNNAt b off`   panics iff off + NN/8 > len(b)
  binary.BigEndian.UintNN(b)       -> `rdUNN b`        panics iff len(b) < NN/8
  copy(dst, src)  -> `copyFixed n src` (dst = zeroed array/slice of length n); never panics
  make([]byte, n) -> `make n`  (result all zero; allocation observable += n)

Note on cap: Go checks the upper bound of a two-index slice expression against cap(b), not
len(b).  The harness passes inputs with cap = len, and every two-index slice expression in the
modelled decoders is preceded by an explicit `len` guard, so the stricter `len` rule never
differs from Go on them (the correspondence run would show it otherwise).

Core Lean only (this file is linked into the driver executable).
-/
import ImmuModel.Base.Bytes
namespace ImmuModel.Go

/-- Error classes (Go sentinel errors, matched with `errors.Is` on the Go side). -/
inductive ErrClass where
  | illegalArguments            -- store.ErrIllegalArguments
  | corruptedData               -- store.ErrCorruptedData
  | newerVersionOrCorruptedData -- store.ErrNewerVersionOrCorruptedData
  | corruptedIndex              -- store.ErrCorruptedIndex
  | illegalTruncationArgument   -- store.ErrIllegalTruncationArgument (wraps ErrIllegalArguments)
  | eof                         -- io.EOF
  | corruptedMetadata           -- singleapp.ErrCorruptedMetadata / appendable.ErrCorruptedMetadata
  | unexpectedEof               -- io.ErrUnexpectedEOF
  | other                       -- any other returned error
  | fuel                        -- MODEL ARTEFACT: loop fuel exhausted (proved unreachable)
  deriving DecidableEq, Repr, Inhabited

def ErrClass.toString : ErrClass → String
  | .illegalArguments => "illegal"
  | .corruptedData => "corrupted"
  | .newerVersionOrCorruptedData => "newer"
  | .corruptedIndex => "corrupted-index"
  | .illegalTruncationArgument => "illegal-truncation"
  | .eof => "eof"
  | .corruptedMetadata => "corrupted-metadata"
  | .unexpectedEof => "unexpected-eof"
  | .other => "other"
  | .fuel => "FUEL"

/-- Outcome of a Go call. -/
inductive R (α : Type) where
  | ok (a : α)
  | err (e : ErrClass)
  | panic
  deriving Repr

instance [DecidableEq α] : DecidableEq (R α) := fun a b =>
  match a, b with
  | .ok x, .ok y => if h : x = y then isTrue (by rw [h]) else isFalse (by intro h'; cases h'; exact h rfl)
  | .err x, .err y => if h : x = y then isTrue (by rw [h]) else isFalse (by intro h'; cases h'; exact h rfl)
  | .panic, .panic => isTrue rfl
  | .ok _, .err _ => isFalse (by intro h; cases h)
  | .ok _, .panic => isFalse (by intro h; cases h)
  | .err _, .ok _ => isFalse (by intro h; cases h)
  | .err _, .panic => isFalse (by intro h; cases h)
  | .panic, .ok _ => isFalse (by intro h; cases h)
  | .panic, .err _ => isFalse (by intro h; cases h)

def R.isPanic : R α → Bool
  | .panic => true
  | _ => false

def R.isOk : R α → Bool
  | .ok _ => true
  | _ => false

def R.isErr : R α → Bool
  | .err _ => true
  | _ => false

/-- Outcome + bytes allocated from input-controlled sizes so far. -/
structure M (α : Type) where
  res : R α
  alloc : Nat := 0
  deriving Repr

namespace M

@[inline] def pure (a : α) : M α := ⟨.ok a, 0⟩
/-- `return err` -/
@[inline] def fail (e : ErrClass) : M α := ⟨.err e, 0⟩
/-- a run-time panic -/
@[inline] def panic : M α := ⟨.panic, 0⟩

@[inline] def bind (x : M α) (f : α → M β) : M β :=
  match x.res with
  | .ok a => let y := f a; ⟨y.res, x.alloc + y.alloc⟩
  | .err e => ⟨.err e, x.alloc⟩
  | .panic => ⟨.panic, x.alloc⟩

instance : Monad M where
  pure := M.pure
  bind := M.bind

end M

/-- The allocation observable. -/
def allocated (m : M α) : Nat := m.alloc

/-- "does not panic" -/
def NoPanic (m : M α) : Prop := m.res ≠ .panic

/-! ### slice primitives -/

/-- `b[i:j]` -/
def slice (b : Bytes) (i j : Nat) : M Bytes :=
  if i > j ∨ j > b.length then M.panic else M.pure ((b.take j).drop i)

/-- `b[i:]` -/
def sliceFrom (b : Bytes) (i : Nat) : M Bytes :=
  if i > b.length then M.panic else M.pure (b.drop i)

/-- `b[:j]` -/
def sliceTo (b : Bytes) (j : Nat) : M Bytes :=
  if j > b.length then M.panic else M.pure (b.take j)

/-- `b[i]` -/
def idx (b : Bytes) (i : Nat) : M UInt8 :=
  match b[i]? with
  | some x => M.pure x
  | none => M.panic

/-- `binary.BigEndian.Uint16(b)` : panics iff len(b) < 2 -/
def rdU16 (b : Bytes) : M Nat :=
  if b.length < 2 then M.panic else M.pure (beVal (b.take 2))
def rdU32 (b : Bytes) : M Nat :=
  if b.length < 4 then M.panic else M.pure (beVal (b.take 4))
def rdU64 (b : Bytes) : M Nat :=
  if b.length < 8 then M.panic else M.pure (beVal (b.take 8))

/-- `binary.BigEndian.Uint16(b[off:])` : the slice expression panics iff off > len(b), the read iff
fewer than 2 bytes remain. -/
def be16At (b : Bytes) (off : Nat) : M Nat := do let s ← sliceFrom b off; rdU16 s
def be32At (b : Bytes) (off : Nat) : M Nat := do let s ← sliceFrom b off; rdU32 s
def be64At (b : Bytes) (off : Nat) : M Nat := do let s ← sliceFrom b off; rdU64 s

/-- `make([]byte, n)`; the allocation observable grows by `n`. -/
def make (n : Nat) : M Bytes := ⟨.ok (List.replicate n 0), n⟩

/-- `copy(dst, src)` into a zeroed destination of length `n` (an array field such as `[32]byte`, or a
fresh `make`): copies `min n len(src)` bytes, never panics. -/
def copyFixed (n : Nat) (src : Bytes) : Bytes :=
  src.take n ++ List.replicate (n - src.length) 0

theorem copyFixed_length (n : Nat) (src : Bytes) : (copyFixed n src).length = n := by
  simp [copyFixed]; omega


/-- One flag per guard that the framework found MISSING in /repo (model lines marked FIX).  A flag that is
`true` = the guard is part of the code.  `Fix.current` is the code that EXISTS in /repo (what the driver
runs and what the property theorems are about): the flags of the guards that have been added since
(`fix:` commits) are on.  `Fix.none` is the code before any of these repairs (kept for the
"guard is needed" witnesses), `Fix.all` the code with every guard.  A repair of a single function in
/repo is mirrored by flipping a single flag in `Fix.current`. -/
structure Fix where
  /-- `extraAttribute.deserialize`: `if n > maxExtraLen || len(b) < sszSize+n { return 0, ErrCorruptedData }`
  before the `make` (PRESENT in /repo) -/
  extraLen : Bool := false
  /-- `TxHeader.ReadFrom`: `if len(b) < i+sha256.Size+txIDSize+sha256.Size { return ErrCorruptedData }`
  before `Eh` (PRESENT in /repo) -/
  hdrTail : Bool := false
  /-- `ReplicateTx`: `if len(exportedTx) < i+lszSize { … }` before `vLen` (PRESENT in /repo) -/
  vLen : Bool := false
  /-- `ReplicateTx`: `if len(exportedTx) < i+sszSize { … }` before `tLen` (PRESENT in /repo) -/
  tLen : Bool := false
  /-- `ReplicateTx`: `if len(v) == 0 || v[0] > 1 { … }` instead of `if len(v) > 0 && v[0] > 1 { … }`
  before `v[0]` (PRESENT in /repo) -/
  tZero : Bool := false
  /-- `appendable.Metadata.ReadFrom`: `if len(lenb) < 4 { return 0, ErrCorruptedMetadata }` before
  `Uint32(lenb)` (PRESENT in /repo) -/
  appCount : Bool := false
  deriving DecidableEq, Repr

def Fix.none : Fix := {}
def Fix.all : Fix := ⟨true, true, true, true, true, true⟩
/-- The code as it stands in /repo. -/
def Fix.current : Fix := { extraLen := true, hdrTail := true, vLen := true, tLen := true, tZero := true, appCount := true }

@[simp] theorem Fix.none_extraLen : Fix.none.extraLen = false := rfl
@[simp] theorem Fix.none_hdrTail : Fix.none.hdrTail = false := rfl
@[simp] theorem Fix.none_vLen : Fix.none.vLen = false := rfl
@[simp] theorem Fix.none_tLen : Fix.none.tLen = false := rfl
@[simp] theorem Fix.none_tZero : Fix.none.tZero = false := rfl
@[simp] theorem Fix.none_appCount : Fix.none.appCount = false := rfl
@[simp] theorem Fix.all_extraLen : Fix.all.extraLen = true := rfl
@[simp] theorem Fix.all_hdrTail : Fix.all.hdrTail = true := rfl
@[simp] theorem Fix.all_vLen : Fix.all.vLen = true := rfl
@[simp] theorem Fix.all_tLen : Fix.all.tLen = true := rfl
@[simp] theorem Fix.all_tZero : Fix.all.tZero = true := rfl
@[simp] theorem Fix.all_appCount : Fix.all.appCount = true := rfl
@[simp] theorem Fix.current_extraLen : Fix.current.extraLen = true := rfl
@[simp] theorem Fix.current_hdrTail : Fix.current.hdrTail = true := rfl
@[simp] theorem Fix.current_vLen : Fix.current.vLen = true := rfl
@[simp] theorem Fix.current_tLen : Fix.current.tLen = true := rfl
@[simp] theorem Fix.current_tZero : Fix.current.tZero = true := rfl
@[simp] theorem Fix.current_appCount : Fix.current.appCount = true := rfl

end ImmuModel.Go
