/-
C10 — Timed B-tree equals a multi-version ordered map; snapshots are immutable.

ONLY property theorems and their non-vacuity examples live here; helper lemmas are in
ImmuModel/Index/{MVMapLemmas,SnapshotLemmas,BTreeLemmas}.lean.

What is proved, for ALL inputs / operation lists:
* the specification `MVMap` (Index/MVMap.lean — the functions the driver executes against the real
  tbtree) is a multi-version ORDERED map: keys stay strictly sorted, versions strictly decreasing in
  ts, `get`/`history`/readers return exactly what the map defines (declarative range predicate,
  both directions, offset), flush does not change any of these;
* a snapshot is a captured value: no later operation list changes what it returns, and it is never
  older than the ts it was asked to include;
* `GetBetween`/`ReadBetween` equal their specification for EVERY key, map and range: the newest
  version `≤ t2` if its ts is `≥ t1`, walking the key's OWN versions only (`getBetween_spec`); a flush is
  not observable through them (`flush_preserves_getBetween`);
* two repaired defects stay pinned as regression statements on their original inputs:
  `getBetween_never_returns_foreign_version` (the history-log chain walk used to overrun into another
  key's block) and `failed_insert_after_reopen_keeps_loaded_tree` (the rollback of a rejected insert
  after `Open` used to install an empty tree).
-/
import ImmuModel.Index.MVMap
import ImmuModel.Index.Snapshot
import ImmuModel.Index.MVMapLemmas
import ImmuModel.Index.SnapshotLemmas
import ImmuModel.Index.BTree
import ImmuModel.Index.BTreeLemmas

namespace ImmuModel.Props.C10
open ImmuModel ImmuModel.Index ImmuModel.Index.MVMap

/-! ## The map is a map -/

/-- After a successful insert, `get k` returns the inserted version (a new key, or a newer ts), and
an insert with the SAME ts as the newest version is ignored (the code's `updateOnInsert`). -/
theorem insert_get (m m' : MVMap) (k v : Bytes) (t : Nat) (hs : Sorted m.entries)
    (h : m.insert k v t = .ok m') :
    m'.get k = match m.find k with
      | none => .ok (v, t, 1)
      | some e => if e.cur.ts < t then .ok (v, t, e.hcount + 1) else .ok (e.cur.value, e.cur.ts, e.hcount) := by
  unfold MVMap.insert at h
  split at h
  · rename_i es hes
    simp only [Except.ok.injEq] at h
    subst h
    have hf := insertEntries_find_self hs hes
    unfold findE at hf
    unfold MVMap.get MVMap.find
    simp only
    rw [hf]
    cases hfe : List.find? (fun e => decide (e.key = k)) m.entries with
    | none => simp [upd, Entry.hcount, Entry.older]
    | some e =>
      simp only [upd]
      split
      · simp [Entry.hcount, Entry.older]
      · rfl
  · simp at h

/-- An insert for key `k` does not change what is stored under any other key (hence none of
`get`, `getBetween`, `history` of other keys). -/
theorem insert_other_key_unchanged (m m' : MVMap) (k v k' : Bytes) (t : Nat) (hne : k' ≠ k)
    (h : m.insert k v t = .ok m') : m'.find k' = m.find k' := by
  unfold MVMap.insert at h
  split at h
  · rename_i es hes
    simp only [Except.ok.injEq] at h
    subst h
    exact insertEntries_find_other hne hes
  · simp at h

/-- A rejected insert is exactly an attempt to add a version OLDER than the newest one of its key. -/
theorem insert_error_iff_older (m : MVMap) (k v : Bytes) (t : Nat) (hs : Sorted m.entries) :
    (∃ x, m.insert k v t = .error x) ↔ ∃ e, m.find k = some e ∧ t < e.cur.ts := by
  unfold MVMap.insert MVMap.find
  revert hs
  generalize m.entries = es
  intro hs
  induction es with
  | nil => simp [insertEntries]
  | cons e rest ih =>
    have hs' := List.pairwise_cons.mp hs
    have ih' := ih hs'.2
    simp only [insertEntries]
    cases hc : bcmp k e.key with
    | lt =>
      have hnone : findE k (e :: rest) = none := by
        apply findE_none_of_lt
        intro y hy
        simp at hy
        rcases hy with rfl | hy
        · exact hc
        · exact bcmp_lt_trans hc (hs'.1 y hy)
      unfold findE at hnone
      simp [hnone]
    | eq =>
      have hk : k = e.key := (bcmp_eq_iff _ _).mp hc
      simp only [List.find?_cons, hk, decide_true]
      by_cases h1 : t < e.cur.ts
      · simp [h1]
      · by_cases h2 : e.cur.ts < t
        · simp [h1, h2]
        · simp [h1, h2]
    | gt =>
      have hne : ¬ e.key = k := by
        intro he; rw [← he, bcmp_refl] at hc; simp at hc
      simp only [List.find?_cons, hne, decide_false]
      cases hr : insertEntries k v t rest with
      | ok r =>
        rw [hr] at ih'
        simp only at ih' ⊢
        simpa using ih'
      | error x =>
        rw [hr] at ih'
        simp only at ih' ⊢
        simpa using ih'

/-- Keys stay STRICTLY sorted under single inserts, bulk inserts, time advances and flushes — every
map reachable from the empty tree by any operation list is sorted. -/
theorem keys_sorted_invariant (m : MVMap) (h : Reachable m) : Sorted m.entries :=
  (reachable_wf h).sorted

theorem bulkInsert_keeps_sorted (m m' : MVMap) (kvts : List (Bytes × Bytes × Nat))
    (hs : Sorted m.entries) (hd : VersionsDec m.entries) (hb : BlocksNonempty m.entries)
    (h : m.bulkInsert kvts = .ok m') : Sorted m'.entries :=
  (bulkInsert_wf ⟨hs, hd, hb⟩ h).sorted

/-- The versions of every key are strictly decreasing in ts (newest first) in every reachable map. -/
theorem versions_ts_strictly_decreasing (m : MVMap) (h : Reachable m) (e : Entry) (he : e ∈ m.entries) :
    e.versions.Pairwise (fun a b => a.ts > b.ts) :=
  (reachable_wf h).versionsDec e he

/-- `History(k, offset, desc, limit)` lists ALL versions in the requested time direction and returns
the window `[offset, offset+limit)` of that list, together with the total count. -/
theorem history_lists_all_versions_in_order (m : MVMap) (k : Bytes) (off : Nat) (desc : Bool) (limit : Int)
    (rows : List TV) (n : Nat) (h : m.history k off desc limit = .ok (rows, n)) :
    ∃ e, m.find k = some e ∧ n = e.versions.length ∧ off < n ∧ 1 ≤ limit ∧
      rows = ((if desc then e.versions else e.versions.reverse).drop off).take limit.toNat := by
  unfold MVMap.history at h
  split at h
  · simp at h
  · rename_i hl
    split at h
    · simp at h
    · rename_i e he
      obtain ⟨h1, h2, h3⟩ := historyOf_spec _ _ _ _ _ _ h
      exact ⟨e, he, h1, by omega, by omega, h3⟩

/-- The error classes of `History`: unknown key, offset equal to / beyond the number of versions. -/
theorem history_errors (m : MVMap) (k : Bytes) (off : Nat) (desc : Bool) (limit : Int) (hl : 1 ≤ limit) :
    m.history k off desc limit =
      match m.find k with
      | none => .error .keyNotFound
      | some e =>
        if off = e.versions.length then .error .noMoreEntries
        else if off > e.versions.length then .error .offsetOutOfRange
        else .ok (((if desc then e.versions else e.versions.reverse).drop off).take limit.toNat, e.versions.length) := by
  unfold MVMap.history
  have : ¬ limit < 1 := by omega
  simp only [this, if_false]
  cases hf : m.find k with
  | none => rfl
  | some e =>
    simp only
    cases hh : historyOf e.versions off desc limit.toNat with
    | error x =>
      unfold historyOf at hh
      simp only at hh
      split at hh
      · rename_i h1; simp [h1]; simpa using hh.symm
      · rename_i h1
        split at hh
        · rename_i h2; simp [h1, h2]; simpa using hh.symm
        · split at hh <;> simp at hh
    | ok p =>
      obtain ⟨rows, n⟩ := p
      obtain ⟨h1, h2, h3⟩ := historyOf_spec _ _ _ _ _ _ hh
      have ha : ¬ off = e.versions.length := by omega
      have hb : ¬ off > e.versions.length := by omega
      simp [ha, hb, h1, h3]

/-! ## Readers -/

/-- **Readers are exact.** On a sorted map a reader (its spec already adjusted by `newReader`) selects
EXACTLY the keys satisfying the declarative range predicate `inRange` (right side of the seek key,
right side of the end key, has the prefix), in ascending order — or, for `descOrder`, in descending
order — minus the first `offset` of them. -/
theorem scan_sorted_and_exact (m : MVMap) (r : ReaderSpec) (hs : Sorted m.entries) :
    selected m r = (((if r.descOrder then m.entries.reverse else m.entries).filter (inRange r))).drop r.offset ∧
    Travel r.descOrder (selected m r) := by
  have h1 : selected m r =
      (((if r.descOrder then m.entries.reverse else m.entries).filter (inRange r))).drop r.offset := by
    rw [selected_eq m r hs]
    congr 1
    apply List.filter_congr
    intro e _
    exact keep_beforeStart_eq_inRange r e
  refine ⟨h1, ?_⟩
  rw [h1]
  exact List.Pairwise.sublist
    ((List.drop_sublist _ _).trans List.filter_sublist) (travel_of_sorted hs r.descOrder)

/-- The descending reader visits the mirror image of the ascending order. -/
theorem scan_desc_is_reverse (m : MVMap) (r : ReaderSpec) (hs : Sorted m.entries) (hd : r.descOrder = true)
    (hoff : r.offset = 0) :
    selected m r = (m.entries.filter (inRange r)).reverse := by
  rw [(scan_sorted_and_exact m r hs).1, hd, hoff]
  simp [List.filter_reverse]

/-- Rows of a plain reader: one row per selected key with its newest version and version count. -/
theorem scan_rows_plain (m : MVMap) (maxKeySize : Nat) (s r : ReaderSpec) (hr : newReader maxKeySize s = .ok r)
    (hh : r.includeHistory = false) :
    m.scan maxKeySize s = .ok ((selected m r).map (fun e => (e.key, e.cur.value, e.cur.ts, e.hcount))) := by
  unfold MVMap.scan
  rw [hr]
  simp only [Except.ok.injEq]
  rw [hh]
  induction selected m r with
  | nil => rfl
  | cons e rest ih => simp [List.flatMap_cons, entryRows, ih]

/-! ## Flush does not change the map -/

/-- A flush moves versions from the node to the history log; it changes no key, no version list, no
`get`, no `history`, no reader selection (and no `getBetween`: `flush_preserves_getBetween`). -/
theorem flush_preserves_reads (m : MVMap) (k : Bytes) :
    m.flush.get k = m.get k ∧
    (∀ off desc limit, m.flush.history k off desc limit = m.history k off desc limit) ∧
    (m.flush.entries.map Entry.key = m.entries.map Entry.key) ∧
    (m.flush.entries.map Entry.versions = m.entries.map Entry.versions) ∧ m.flush.ts = m.ts := by
  refine ⟨?_, ?_, ?_, ?_, rfl⟩
  · unfold MVMap.get
    rw [flush_find]
    cases m.find k with
    | none => rfl
    | some e => simp [flushEntry_cur, flushEntry_hcount]
  · intro off desc limit
    unfold MVMap.history
    rw [flush_find]
    cases m.find k with
    | none => rfl
    | some e => simp [flushEntry_versions]
  · simp [MVMap.flush, List.map_map, Function.comp_def, flushEntry_key]
  · simp [MVMap.flush, List.map_map, Function.comp_def, flushEntry_versions]

/-! ## GetBetween -/

/-- **`GetBetween` specification.** For every map, key and range, `lastUpdateBetween` — in-node
versions first, then the key's chain of history-log blocks, however many versions each flush moved
into one block — returns what the walk over all versions OF THAT KEY returns… -/
theorem getBetween_spec (m : MVMap) (k : Bytes) (e : Entry) (t1 t2 : Nat) (hf : m.find k = some e) :
    m.getBetween k t1 t2 = if t1 > t2 then .error .illegal else betweenAux t1 t2 e.versions := by
  unfold MVMap.getBetween
  rw [hf]
  exact lastUpdateBetween_eq_spec e t1 t2

/-- …and that walk returns the NEWEST version with `ts ≤ t2` (no upper bound for `t2 = 0`), provided
its ts is `≥ t1`, with the number of versions not newer than it… -/
theorem getBetween_spec_ok (t1 t2 : Nat) (vs : List TV) (hd : vs.Pairwise (fun a b => a.ts > b.ts))
    (v : Bytes) (ts hc : Nat) (h : betweenAux t1 t2 vs = .ok (v, ts, hc)) :
    (⟨v, ts⟩ : TV) ∈ vs ∧ t1 ≤ ts ∧ (t2 = 0 ∨ ts ≤ t2) ∧
    (∀ tv ∈ vs, tv.ts > ts → ¬ (t2 = 0 ∨ tv.ts ≤ t2)) ∧
    hc = (vs.filter (fun tv => decide (tv.ts ≤ ts))).length :=
  betweenAux_ok t1 t2 vs hd v ts hc h

/-- …and fails (always with "key not found") only if NO version lies in `[t1, t2]`. -/
theorem getBetween_spec_notFound (t1 t2 : Nat) (vs : List TV) (hd : vs.Pairwise (fun a b => a.ts > b.ts))
    (x : Err) (h : betweenAux t1 t2 vs = .error x) :
    x = .keyNotFound ∧ ∀ tv ∈ vs, ¬ (t1 ≤ tv.ts ∧ (t2 = 0 ∨ tv.ts ≤ t2)) :=
  betweenAux_notFound t1 t2 vs hd x h

/-- A flush (versions move from the node into one new history-log block per key) is not observable
through `GetBetween`. -/
theorem flush_preserves_getBetween (m : MVMap) (k : Bytes) (t1 t2 : Nat) :
    m.flush.getBetween k t1 t2 = m.getBetween k t1 t2 := by
  unfold MVMap.getBetween
  rw [flush_find]
  cases m.find k with
  | none => rfl
  | some e => simp [lastUpdateBetween_eq_spec, flushEntry_versions]

/-- The input of the repaired defect: `a` gets versions at ts 1,2 (flush), `b` at ts 3,4,5 (flush). -/
def overrunWitness : Except Err MVMap :=
  runOps MVMap.empty [ .ins [([0x61], [1], 1), ([0x61], [2], 2)], .flush,
                       .ins [([0x62], [3], 3), ([0x62], [4], 4), ([0x62], [5], 5)], .flush ]

/-- The value of `overrunWitness`, written out: `b`'s only history-log block holds TWO versions. -/
def overrunEntryB : Entry := { key := [0x62], cur := ⟨[5], 5⟩, blocks := [[⟨[4], 4⟩, ⟨[3], 3⟩]] }
def overrunMap : MVMap :=
  { entries := [{ key := [0x61], cur := ⟨[2], 2⟩, blocks := [[⟨[1], 1⟩]] }, overrunEntryB], ts := 5 }

/-- **Regression statement of a repaired defect.** `lastUpdateBetween` used to bound its loop over
history-log BLOCKS by the number of VERSIONS; on this map `GetBetween(b, 1, 2)` — `b` has no version in
`[1,2]` — followed `prevOff = 0` past `b`'s only block into the block at offset 0 of the history log and
returned `a`'s version `([1], 1)` with counter 0. The walk now ends with the key's chain: not found.
And in general a successful `GetBetween` returns a version of the requested key. -/
theorem getBetween_never_returns_foreign_version :
    (overrunWitness = .ok overrunMap ∧ overrunMap.find [0x62] = some overrunEntryB ∧
      overrunMap.getBetween [0x62] 1 2 = .error .keyNotFound ∧
      overrunMap.getBetween [0x62] 1 4 = .ok ([4], 4, 2) ∧ overrunMap.getBetween [0x62] 1 3 = .ok ([3], 3, 1)) ∧
    (∀ (m : MVMap) (k : Bytes) (e : Entry) (t1 t2 : Nat) (v : Bytes) (ts hc : Nat), m.find k = some e →
      m.getBetween k t1 t2 = .ok (v, ts, hc) → (⟨v, ts⟩ : TV) ∈ e.versions) := by
  refine ⟨⟨rfl, rfl, rfl, rfl, rfl⟩, ?_⟩
  intro m k e t1 t2 v ts hc hf h
  rw [getBetween_spec m k e t1 t2 hf] at h
  split at h
  · simp at h
  · exact betweenAux_mem t1 t2 e.versions v ts hc h

/-! ## Snapshots -/

/-- **Snapshots are immutable.** Whatever operations follow (inserts — accepted or rejected with
rollback —, time advances, flushes with or without cleanup, syncs, other snapshots being opened and
closed, compaction, close attempts), a snapshot that is not itself closed keeps pinning the SAME map
value, hence every read on it returns what it returned when it was created. -/
theorem snapshot_immutable (s : TState) (name : Nat) (m : MVMap) (ops : List TState.Op)
    (h : s.snapOf name = some m)
    (hops : ∀ op ∈ ops, op ≠ .sclose name ∧ ∀ ts, op ≠ .snap name ts) :
    (s.run ops).snapOf name = some m := by
  rw [TState.run_snapOf s ops name hops]; exact h

/-- A snapshot reflects a state not older than the ts it was asked to include, and it is the value
registered under its name. -/
theorem snapshot_includes_ts (s s' : TState) (name ts t : Nat) (h : s.snapshot name ts = (s', .ok t)) :
    ts ≤ t ∧ ∃ m, s'.snapOf name = some m ∧ m.ts = t := by
  have := TState.snapshot_includes_ts s s' name ts t h
  exact ⟨this.1, this.2.2⟩

/-- The program of the witness below (default options: nothing is flushed by thresholds). -/
def reopenWitness : TState :=
  TState.run {} [ .ins [([0x6b, 0x31], [1], 0), ([0x6b, 0x32], [2], 0)], .close, .reopen,
                  .ins [([0x6b, 0x33], [3], 0)],
                  .ins [([0x6b, 0x34], [4], 9), ([0x6b, 0x34], [5], 8)] ]

/-- **Regression statement of a repaired defect.** insert k1,k2; Close; Open; insert k3 (accepted); a
REJECTED bulk (same key twice with decreasing ts). `lastSnapRoot` used to be nil after `Open`, so the
rollback installed a fresh EMPTY root (ts 0). `Open` now records the loaded root: the rollback returns
to the last flushed state — the two persisted keys at ts 1 (the unflushed k3 is dropped, as after any
failed insert on a flushed tree). -/
theorem failed_insert_after_reopen_keeps_loaded_tree :
    reopenWitness.cur.entries.map Entry.key = [[0x6b, 0x31], [0x6b, 0x32]] ∧ reopenWitness.cur.ts = 1 ∧
    reopenWitness.cur.get [0x6b, 0x31] = .ok ([1], 1, 1) ∧
    (TState.run {} [ .ins [([0x6b, 0x31], [1], 0), ([0x6b, 0x32], [2], 0)], .close, .reopen,
                     .ins [([0x6b, 0x33], [3], 0)] ]).cur.entries.length = 3 := by
  refine ⟨by decide, by decide, rfl, by decide⟩

/-- After `Open` of a stored tree there is always a root to roll back to, and it holds exactly the
keys and versions that were loaded. -/
theorem reopen_sets_lastSnapRoot (s : TState) (h : s.closed = true) :
    ∃ m, s.reopen.lastSnap = some m ∧ m.entries = s.reopen.cur.entries := by
  unfold TState.reopen
  simp only [h]
  cases TState.bestDump s.loadedId s.dumps <;> exact ⟨_, rfl, rfl⟩

/-- The program of the witness below: a stored tree whose TIMESTAMP file (5) is ahead of its root (1) is
opened, one insert is accepted, the next bulk is REJECTED inside the leaf. -/
def staleTsWitness : TState :=
  TState.run {} [ .ins [([1], [1], 0)], .incTs 5, .close, .reopen,
                  .ins [([2], [2], 0)], .ins [([3], [3], 9), ([3], [4], 8)] ]

/-- **Finding (witness; the code as it is).** The rollback of the rejected bulk installs the LOADED root,
whose ts is its content ts (1): `Ts()` drops from 6 to 1. That root is not mutated, so `Close` does not
rewrite the TIMESTAMP file, and the next `Open` applies the value written by the EARLIER close again:
the tree that was closed at ts 1 re-opens at ts 5 with the same content — `Ts()` is not preserved by
close/reopen (harness signature `C10:reopen:ts-restored-from-stale-timestamp-file-after-rollback`). -/
theorem reopen_after_rollback_restores_stale_ts :
    staleTsWitness.cur.ts = 1 ∧ staleTsWitness.tsFile = 5 ∧
    (staleTsWitness.run [.close, .reopen]).cur.ts = 5 ∧
    (staleTsWitness.run [.close, .reopen]).cur.entries = staleTsWitness.cur.entries := by
  refine ⟨by decide, by decide, by decide, by decide⟩

/-! ## The B+tree implementation model refines the map -/

/-- The map a tree stands for (the tree time is the root's, kept outside the nodes of the model). -/
def treeMap (n : Node) (ts : Nat) : MVMap := { entries := n.abs, ts := ts }

/-- **Insert refinement.** For every node size, every tree satisfying the invariant (sorted leaves,
no empty child — any depth, any shape) and every `(k, v, t)`: inserting through the root — leaf
update, splits by serialized size at every level, root growth — yields a tree whose abstraction is
EXACTLY `MVMap.insert` of the old abstraction, and the invariant holds again; the implementation
fails exactly when the specification fails, with the same error class (or with `.other` = the split
that cannot make progress because one entry alone exceeds `maxNodeSize`, which `Options.Validate`
excludes by `requiredNodeSize`).

NOT proved (kept as the target statement): `bulkInsert_refines` — the same for a bulk of SEVERAL
entries in one call, where `innerNode.updateOnInsert` groups the entries per child: it needs the
commutation of inserts that go to different children. The model executes it (`Node.insert` takes the
whole bulk); the correspondence with the code for multi-entry bulks is carried by the tie only. -/
theorem insert_refines (maxNodeSize : Nat) (root : Node) (ts : Nat) (k v : Bytes) (t : Nat)
    (hinv : Node.Inv root) :
    match Node.insertRoot maxNodeSize root [(k, v, t)] with
    | .ok root' => (treeMap root ts).insert k v t = .ok (treeMap root' (max ts t)) ∧ Node.Inv root'
    | .error x => x = .other ∨ (treeMap root ts).insert k v t = .error x := by
  have h := Node.insertRoot_refines maxNodeSize root k v t hinv
  cases hr : Node.insertRoot maxNodeSize root [(k, v, t)] with
  | ok root' =>
    rw [hr] at h
    simp only at h ⊢
    refine ⟨?_, h.2⟩
    simp [MVMap.insert, treeMap, h.1]
  | error x =>
    rw [hr] at h
    simp only at h ⊢
    rcases h with h | h
    · left; exact h
    · right; simp [MVMap.insert, treeMap, h]

/-- The proved part of the design's `bulkInsert_refines` (full statement: for EVERY bulk `kvts`,
`Inv t → abs (insertRoot t kvts) = MVMap.bulkInsert (abs t) kvts ∧ Inv …`): bulks of ONE entry.
Missing: bulks of several entries (per-child grouping ⇒ commutation of inserts into different children). -/
theorem bulkInsert_refines_partial (maxNodeSize : Nat) (root : Node) (ts : Nat) (k v : Bytes) (t : Nat)
    (hinv : Node.Inv root) :
    match Node.insertRoot maxNodeSize root [(k, v, t)] with
    | .ok root' => (treeMap root ts).bulkInsert [(k, v, t)] = .ok (treeMap root' (max ts t)) ∧ Node.Inv root'
    | .error x => x = .other ∨ (treeMap root ts).bulkInsert [(k, v, t)] = .error x := by
  have h := insert_refines maxNodeSize root ts k v t hinv
  cases hr : Node.insertRoot maxNodeSize root [(k, v, t)] with
  | ok root' =>
    rw [hr] at h
    simp only at h ⊢
    simp [MVMap.bulkInsert, h.1, h.2]
  | error x =>
    rw [hr] at h
    simp only at h ⊢
    rcases h with h | h
    · left; exact h
    · right; simp [MVMap.bulkInsert, h]

/-- **Get refinement.** The descent by separators finds exactly what the map holds. -/
theorem get_refines (root : Node) (ts : Nat) (k : Bytes) (hinv : Node.Inv root) :
    root.get k = (treeMap root ts).get k := by
  unfold Node.get MVMap.get MVMap.find treeMap
  rw [Node.find_refines root k hinv.1 hinv.2]
  rfl

/-- Trees built from the empty tree by single inserts (any node size). -/
inductive TreeReach (maxNodeSize : Nat) : Node → Prop
  | empty : TreeReach maxNodeSize Node.empty
  | insert {n n' : Node} {k v : Bytes} {t : Nat} :
      TreeReach maxNodeSize n → Node.insertRoot maxNodeSize n [(k, v, t)] = .ok n' → TreeReach maxNodeSize n'

/-- Every such tree satisfies the invariant. -/
theorem tree_inv (maxNodeSize : Nat) (n : Node) (h : TreeReach maxNodeSize n) : Node.Inv n := by
  induction h with
  | empty => exact ⟨by simp [Node.empty, Node.abs, Sorted], by simp [Node.empty, Node.Kids]⟩
  | @insert n0 n1 k v t _ hi ih =>
    have := Node.insertRoot_refines maxNodeSize n0 k v t ih
    rw [hi] at this
    exact this.2

/-! ## Non-vacuity -/

/-- A reachable, sorted two-key map with two versions of one key. -/
example : ∃ m, MVMap.empty.bulkInsert [([2], [1], 1), ([1], [1], 2), ([2], [7], 3)] = .ok m ∧
    m.entries.map Entry.key = [[1], [2]] ∧ m.get [2] = .ok ([7], 3, 2) ∧ m.ts = 3 := ⟨_, rfl, rfl, rfl, rfl⟩

/-- `insert_get`/`insert_error_iff_older` hypotheses are satisfiable: equal and older ts. -/
example : (do let m ← MVMap.empty.insert [1] [1] 5; let m ← m.insert [1] [2] 5; m.get [1]) = .ok ([1], 5, 1) := rfl
example : (do let m ← MVMap.empty.insert [1] [1] 5; m.insert [1] [2] 4) = .error .illegal := rfl

/-- A reader with a prefix, exclusive seek and offset selects what `inRange` says. -/
example : (do
    let m ← MVMap.empty.bulkInsert [([1], [1], 1), ([1, 0], [1], 2), ([1, 5], [1], 3), ([2], [1], 4)]
    m.scan 4 ⟨[1], [], [1], false, false, false, false, 1⟩) = .ok [([1, 5], [1], 3, 1)] := rfl

/-- `getBetween_spec`: one version per flush, the newest version ≤ t2 is returned… -/
example : (do
    let m ← MVMap.empty.insert [1] [1] 1
    let m ← m.flush.insert [1] [2] 4
    let m ← m.flush.insert [1] [3] 9
    m.flush.getBetween [1] 2 8) = .ok ([2], 4, 2) := rfl

/-- …and so it is with several versions per flush (one block of three versions below the newest). -/
example : (do
    let m ← MVMap.empty.bulkInsert [([1], [1], 1), ([1], [2], 4), ([1], [3], 9), ([1], [4], 12)]
    m.flush.getBetween [1] 2 8) = .ok ([2], 4, 2) := rfl

/-- `snapshot_immutable`: a snapshot taken before later inserts still holds the old value. -/
example : ((TState.run {} [.ins [([1], [1], 0)], .snap 7 0, .ins [([2], [2], 0)], .flush true true, .sync]).snapOf 7).map
    (fun m => m.entries.map Entry.key) = some [[1]] := rfl

/-- `snapshot_immutable` on the copy-on-write sequence of the small-tree cases (`c10_cow.go`, seeded change
c10-a): the root is stored, pinned by a snapshot, the live tree leaves it through a ts advance (no insert),
then the EXISTING key is updated and stored again — the snapshot still reads version 1 with one version,
the live tree reads the new one with two. -/
def cowWitness : TState :=
  TState.run {} [.ins [([1], [1], 0)], .flush true false, .snap 7 0, .incTs 5, .ins [([1], [2], 0)], .flush true false]

example : ((cowWitness.snapOf 7).map fun m => m.get [1]) = some (.ok ([1], 1, 1)) := rfl
example : cowWitness.cur.get [1] = .ok ([2], 6, 2) := rfl

/-- The refinement theorems are not vacuous: with 80-byte nodes five keys give a tree of depth 3
(leaf splits, an inner split and two root growths), satisfying the invariant. -/
def fiveKeys (maxNodeSize : Nat) : Except Err Node := do
  let n ← Node.insertRoot maxNodeSize Node.empty [([1], [1], 1)]
  let n ← Node.insertRoot maxNodeSize n [([2], [1], 2)]
  let n ← Node.insertRoot maxNodeSize n [([3], [1], 3)]
  let n ← Node.insertRoot maxNodeSize n [([4], [1], 4)]
  Node.insertRoot maxNodeSize n [([5], [1], 5)]

example : (fiveKeys 80).map (fun n => (n.depth, n.abs.map Entry.key)) = .ok (3, [[1], [2], [3], [4], [5]]) := rfl

end ImmuModel.Props.C10
