/-
C16 — Decoders/parsers are total: malformed input gives an error, never a crash.

ONLY property theorems and non-vacuity examples live here; the models are the statement-by-statement
transliterations in ImmuModel/Decode/*.lean (Go slice semantics: ImmuModel/Base/GoSlice.lean), helper
lemmas are in ImmuModel/Decode/Lemmas.lean and ImmuModel/Decode/Proofs/*.lean.

Every decoder takes `fx : Fix` (one Boolean per guard the framework found MISSING, GoSlice.lean): a flag set to
`true` = that guard is part of the code (lines marked FIX in the model files).  `Fix.current` = the code that
EXISTS in /repo (this is what the driver runs and what the correspondence check compares with the real code):
the guards of `extraAttribute.deserialize`, `TxHeader.ReadFrom`, `ReplicateTx` and
`appendable.Metadata.ReadFrom` have all been added to /repo (`fix:` commits), i.e. every flag is on.
`Fix.none` = the code before these repairs, `Fix.all` = every guard.  When a guard is added to or removed from
/repo, flip its flag in `Fix.current`: the `…_fixed_noPanic` theorems are stated for ANY flag set containing
the needed guards.  (`appendable.readField` was repaired as well — it no longer allocates from the declared
length —: there the model changed with the code, no flag.)
For each decoder:

  * `…_noPanic`             the code as it is never panics, for every input
  * `…_rejects_…`           the inputs on which the code panicked before its repair are now rejected with an error
  * `…_guard_needed`        without the guard (`Fix.none`) the model panics on that input: the oracle input that
                            must keep failing if the guard is ever removed (replayed by the harness)
  * `…_guard_necessary`     (appendable metadata) the same, plus: on EVERY input the unguarded code either behaves
                            exactly like the guarded code or panics where the guarded code returns an error
  * `…_fixed_noPanic`       with the guard the decoder never panics, for every input and every other flag
  * `…_alloc`               bound on the bytes allocated from input-controlled length fields
  * `…_fuel`                the loop bound of the model is never reached (termination: each iteration
                            consumes at least one input byte)
-/
import ImmuModel.Decode.Proofs.TxMetadata
import ImmuModel.Decode.Proofs.KVMetadata
import ImmuModel.Decode.Proofs.TxHeader
import ImmuModel.Decode.Proofs.ValueRef
import ImmuModel.Decode.Proofs.ReplicateTx
import ImmuModel.Decode.Proofs.AppMetadata
import ImmuModel.Decode.Proofs.SqlValue

namespace ImmuModel.Props.C16
open ImmuModel ImmuModel.Go ImmuModel.Gen ImmuModel.Decode

/-! ## tx metadata (`embedded/store/tx_metadata.go`) -/

/-- `truncatedUptoTxAttribute.deserialize` never panics. -/
theorem truncatedUptoTxAttr_deserialize_noPanic (b : Bytes) : NoPanic (truncatedUptoTxAttr_deserialize b) :=
  (truncatedUptoTxAttr_deserialize_post b).noPanic

/-- `extraAttribute.deserialize` itself never panics (with or without the guard) … -/
theorem extraAttr_deserialize_noPanic (fx : Fix) (b : Bytes) : NoPanic (extraAttr_deserialize fx b) :=
  (extraAttr_deserialize_post fx b).noPanic

/-- … and allocates at most 65535 bytes. -/
theorem extraAttr_deserialize_alloc (fx : Fix) (b : Bytes) : allocated (extraAttr_deserialize fx b) ≤ 65535 :=
  (txAttrKind_deserialize_alloc fx .extra b).1

/-- What it reports as consumed lies inside the buffer, and the decoded attribute has at most
`maxExtraLen` bytes (what `WithExtra` / `serialize` allow). -/
theorem extraAttr_deserialize_inBounds (b : Bytes) (a : TxAttr) (n : Nat)
    (h : (extraAttr_deserialize Fix.current b).res = .ok (a, n)) :
    n ≤ b.length ∧ ∀ e, a = .extra e → e.length ≤ storeMaxExtraLen :=
  ⟨((extraAttr_deserialize_post Fix.current b).2 (a, n) h).2 rfl,
   extraAttr_deserialize_extraLe Fix.current rfl b (a, n) h⟩

/-- Guard needed: without it the attribute decoder reports more consumed bytes than the buffer holds. -/
theorem extraAttr_deserialize_guard_needed :
    ∃ b a n, (extraAttr_deserialize Fix.none b).res = .ok (a, n) ∧ b.length < n :=
  ⟨[0, 5], .extra [0, 0, 0, 0, 0], 7, by decide, by decide⟩

/-- With the length guard in `extraAttribute.deserialize` the decoder is total. -/
theorem txMetadata_readFrom_fixed_noPanic (fx : Fix) (h : fx.extraLen = true) (bs : Bytes) :
    NoPanic (TxMetadata.readFrom fx bs) :=
  Decode.txMetadata_readFrom_fixed_noPanic fx h bs

/-- **`TxMetadata.ReadFrom` never panics** (the code as it stands). -/
theorem txMetadata_readFrom_noPanic (bs : Bytes) : NoPanic (TxMetadata.readFrom Fix.current bs) :=
  Decode.txMetadata_readFrom_fixed_noPanic Fix.current rfl bs

/-- The former witness `01 00 05` (extra attribute declaring 5 bytes, none present) is rejected … -/
theorem txMetadata_readFrom_rejects_overrun : (TxMetadata.readFrom Fix.current [1, 0, 5]).res = .err .corruptedData := by
  decide

/-- … and the guard is what rejects it: without it `i` overshoots `len(b)` and the next `b[i:]` panics. -/
theorem txMetadata_readFrom_guard_needed : (TxMetadata.readFrom Fix.none [1, 0, 5]).res = .panic := by
  decide

example : (TxMetadata.readFrom Fix.current [0, 0, 0, 0, 0, 0, 0, 0, 9, 1, 0, 2, 7, 8]).res
    = .ok { truncatedUptoTx := some 9, extra := some [7, 8] } := by decide

/-- Termination: the iteration bound `len(b)+1` of the model loop is never reached. -/
theorem txMetadata_readFrom_fuel (bs : Bytes) : (TxMetadata.readFrom Fix.current bs).res ≠ .err .fuel :=
  Decode.txMetadata_readFrom_fuel Fix.current rfl bs

/-- Allocation for any flag set: the input length plus at most one over-declared extra attribute. -/
theorem txMetadata_readFrom_alloc (fx : Fix) (bs : Bytes) :
    allocated (TxMetadata.readFrom fx bs) ≤ bs.length + 65535 :=
  Decode.txMetadata_readFrom_alloc fx bs

/-- Allocation of the code as it is (the guard precedes the `make`): never more than the input. -/
theorem txMetadata_readFrom_fixed_alloc (fx : Fix) (h : fx.extraLen = true) (bs : Bytes) :
    allocated (TxMetadata.readFrom fx bs) ≤ bs.length :=
  Decode.txMetadata_readFrom_fixed_alloc fx h bs

/-- **Whatever `ReadFrom` accepts can be serialised again**: `Bytes()` (called on decoded metadata by
`OngoingTx.validateAgainst` during `ReplicateTx` and by `TxHeader.Alh`/`innerHash` on every tx read) does
not panic. -/
theorem txMetadata_accepted_serializable (bs : Bytes) (md : TxMetadata)
    (h : (TxMetadata.readFrom Fix.current bs).res = .ok md) : NoPanic md.bytes :=
  txMetadata_bytes_noPanic md (txMetadata_readFrom_serializable Fix.current rfl bs md h)

/-- The former witness: an extra attribute of 257 bytes (> `maxExtraLen` = 256) that fits its buffer is
rejected … -/
theorem txMetadata_readFrom_rejects_long_extra :
    (TxMetadata.readFrom Fix.current ([1, 1, 1] ++ List.replicate 257 0)).res = .err .corruptedData := by
  decide +kernel

/-- … a 256-byte extra attribute (the maximum `WithExtra` allows) is still read … -/
theorem txMetadata_readFrom_accepts_max_extra :
    (TxMetadata.readFrom Fix.current ([1, 1, 0] ++ List.replicate 256 7)).res
      = .ok { extra := some (List.replicate 256 7) } := by
  decide +kernel

/-- … and without the guard the 257-byte attribute was ACCEPTED and `Bytes()` of the accepted value
panicked (`b[:sszSize+len(a.extra)]` on a 258-byte array). -/
theorem txMetadata_long_extra_guard_needed :
    ∃ bs md, (TxMetadata.readFrom Fix.none bs).res = .ok md ∧ md.bytes.res = .panic :=
  ⟨[1, 1, 1] ++ List.replicate 257 0, { extra := some (List.replicate 257 0) }, by decide +kernel, by decide +kernel⟩

/-! ## kv metadata (`embedded/store/kv_metadata.go`) -/

/-- `expiresAtAttribute.deserialize` never panics. -/
theorem expiresAtAttr_deserialize_noPanic (b : Bytes) : NoPanic (expiresAtAttr_deserialize b) :=
  (expiresAtAttr_deserialize_post b).noPanic

/-- `KVMetadata.unsafeReadFrom` is total: never panics, … -/
theorem kvMetadata_unsafeReadFrom_noPanic (bs : Bytes) : NoPanic (KVMetadata.unsafeReadFrom bs) :=
  Decode.kvMetadata_unsafeReadFrom_noPanic bs

/-- … terminates within the model's iteration bound, … -/
theorem kvMetadata_unsafeReadFrom_fuel (bs : Bytes) : (KVMetadata.unsafeReadFrom bs).res ≠ .err .fuel :=
  (kvMetadata_unsafeReadFrom_all bs).2.1

/-- … and allocates nothing whose size depends on the input. -/
theorem kvMetadata_unsafeReadFrom_alloc (bs : Bytes) : allocated (KVMetadata.unsafeReadFrom bs) = 0 :=
  (kvMetadata_unsafeReadFrom_all bs).2.2

example : (KVMetadata.unsafeReadFrom [0, 1, 0, 0, 0, 0, 0, 0, 0, 9, 2]).res
    = .ok { deleted := true, expiresAt := some 9, nonIndexable := true } := by decide

/-! ## tx header (`embedded/store/tx.go`) -/

/-- the 124-byte version-1 header used by the witness: ID 2, Ts 99, mdLen 29, metadata `01 00 1a` + 26
zero bytes, NEntries 1, then only 39 of the 72 trailing bytes -/
def shortV1Header : Bytes :=
  [0, 0, 0, 0, 0, 0, 0, 2] ++ List.replicate 32 0 ++ [0, 0, 0, 0, 0, 0, 0, 99] ++ [0, 1] ++ [0, 29] ++
  ([1, 0, 26] ++ List.replicate 26 0) ++ [0, 0, 0, 1] ++ List.replicate 39 0

/-- With the tail guard (and the guarded metadata decoder) `TxHeader.ReadFrom` is total. -/
theorem txHeader_readFrom_fixed_noPanic (fx : Fix) (hmd : fx.extraLen = true) (htl : fx.hdrTail = true) (bs : Bytes) :
    NoPanic (TxHeader.readFrom fx bs) :=
  Decode.txHeader_readFrom_fixed_noPanic fx hmd htl bs

/-- **`TxHeader.ReadFrom` never panics** (the code as it stands; versions 0 and 1, any metadata). -/
theorem txHeader_readFrom_noPanic (bs : Bytes) : NoPanic (TxHeader.readFrom Fix.current bs) :=
  Decode.txHeader_readFrom_fixed_noPanic Fix.current rfl rfl bs

/-- An accepted header has `Eh`, `BlTxID` and `BlRoot` completely inside the buffer: the digests are the 32
bytes at their offsets, never a partially copied, zero-padded prefix. -/
theorem txHeader_readFrom_tail_complete (bs : Bytes) (h : TxHeader) (hok : (TxHeader.readFrom Fix.current bs).res = .ok h) :
    ∃ i, i + 72 ≤ bs.length ∧ h.eh = (bs.drop i).take 32 ∧ h.blTxID = beVal ((bs.drop (i + 32)).take 8) ∧
      h.blRoot = (bs.drop (i + 40)).take 32 :=
  txHeader_readFrom_fixed_tail Fix.current rfl bs h hok

/-- The former witness (124-byte version-1 header whose metadata pushes `BlTxID` beyond the end) is rejected … -/
theorem txHeader_readFrom_rejects_short_tail :
    shortV1Header.length = 124 ∧ (TxHeader.readFrom Fix.current shortV1Header).res = .err .corruptedData :=
  ⟨by decide +kernel, by decide +kernel⟩

/-- … so is the same header with 71 of the 72 trailing bytes (formerly accepted with a partial `BlRoot`) … -/
theorem txHeader_readFrom_rejects_partial_blRoot :
    (TxHeader.readFrom Fix.current (shortV1Header ++ List.replicate 32 0)).res = .err .corruptedData ∧
    (TxHeader.readFrom Fix.none (shortV1Header ++ List.replicate 32 0)).res.isOk = true :=
  ⟨by decide +kernel, by decide +kernel⟩

/-- … and the guard is needed: without it the short header panics (the minimum-length test only covers the
version-0 layout). -/
theorem txHeader_readFrom_guard_needed : (TxHeader.readFrom Fix.none shortV1Header).res = .panic := by
  decide +kernel

example : (TxHeader.readFrom Fix.current (shortV1Header ++ List.replicate 33 0)).res.isOk = true := by
  decide +kernel
example : (TxHeader.readFrom Fix.current (List.replicate 7 0 ++ [1] ++ List.replicate 43 0 ++ [1] ++ List.replicate 72 0)).res.isOk = true := by
  decide +kernel

/-- `TxHeader.ReadFrom` allocates only inside the (length-limited) metadata decoder. -/
theorem txHeader_readFrom_alloc (fx : Fix) (bs : Bytes) :
    allocated (TxHeader.readFrom fx bs) ≤ storeMaxTxMetadataLen + 65535 :=
  Decode.txHeader_readFrom_alloc fx bs

/-! ## index values (`embedded/store/key_reader.go`) -/

/-- `valueRefFrom`'s own bounds checks are complete: it can only panic through `TxMetadata.ReadFrom`. -/
theorem valueRefFrom_noPanic_of_txMetadata (fx : Fix) (bs : Bytes)
    (hmd : ∀ s, NoPanic (TxMetadata.readFrom fx s)) : NoPanic (valueRefFrom fx bs) :=
  Decode.valueRefFrom_noPanic_of fx bs hmd

theorem valueRefFrom_fixed_noPanic (fx : Fix) (hmd : fx.extraLen = true) (bs : Bytes) : NoPanic (valueRefFrom fx bs) :=
  Decode.valueRefFrom_fixed_noPanic fx hmd bs

/-- **`valueRefFrom` never panics** (the code as it stands). -/
theorem valueRefFrom_noPanic (bs : Bytes) : NoPanic (valueRefFrom Fix.current bs) :=
  Decode.valueRefFrom_fixed_noPanic Fix.current rfl bs

/-- The former witness (51-byte index value carrying the 3-byte metadata `01 00 05`) is rejected; without the
guard in `extraAttribute.deserialize` it panics. -/
theorem valueRefFrom_rejects_overrun :
    (valueRefFrom Fix.current (List.replicate 44 0 ++ [0, 3, 1, 0, 5, 0, 0])).res = .err .corruptedData := by
  decide +kernel

theorem valueRefFrom_guard_needed :
    (valueRefFrom Fix.none (List.replicate 44 0 ++ [0, 3, 1, 0, 5, 0, 0])).res = .panic := by
  decide +kernel

theorem valueRefFrom_alloc (fx : Fix) (bs : Bytes) :
    allocated (valueRefFrom fx bs) ≤ storeMaxTxMetadataLen + 65535 :=
  Decode.valueRefFrom_alloc fx bs

example : (valueRefFrom Fix.current (List.replicate 44 0 ++ [0, 0, 0, 1, 0])).res.isOk = true := by decide +kernel

/-! ## `ReplicateTx` framing (`embedded/store/immustore.go`) -/

/-- `00 00 00 7c` + a valid 124-byte version-0 header (ID 1, NEntries 1) -/
def replHdr : Bytes :=
  [0, 0, 0, 124] ++ ([0, 0, 0, 0, 0, 0, 0, 1] ++ List.replicate 32 0 ++ List.replicate 8 0 ++ [0, 0] ++ [0, 1] ++
    List.replicate 72 0)

/-- With the three guards (and the guarded header decoder) the framing part of `ReplicateTx` is total. -/
theorem replicateTxFraming_fixed_noPanic (fx : Fix) (hmd : fx.extraLen = true) (htl : fx.hdrTail = true)
    (hv : fx.vLen = true) (ht : fx.tLen = true) (hz : fx.tZero = true) (bs : Bytes) :
    NoPanic (replicateTxFraming fx bs) :=
  Decode.replicateTxFraming_fixed_noPanic fx hmd htl hv ht hz bs

/-- **The framing part of `ReplicateTx` never panics** (the code as it stands). -/
theorem replicateTxFraming_noPanic (bs : Bytes) : NoPanic (replicateTxFraming Fix.current bs) :=
  Decode.replicateTxFraming_fixed_noPanic Fix.current rfl rfl rfl rfl rfl bs

/-- Former witness: entry with a 1-byte kv-metadata followed by only 3 bytes (`vLen` was read without a
bounds check after `i += mdLen`): rejected; panics without the guard. -/
theorem replicateTx_rejects_vLen :
    (replicateTxFraming Fix.current (replHdr ++ [0, 1, 97, 0, 1, 0] ++ [0, 0, 0])).res = .err .illegalArguments := by
  decide +kernel
theorem replicateTx_vLen_guard_needed :
    (replicateTxFraming { Fix.current with vLen := false } (replHdr ++ [0, 1, 97, 0, 1, 0] ++ [0, 0, 0])).res = .panic := by
  decide +kernel

/-- Former witness: a single trailing byte where the 2-byte `tLen` is expected. -/
theorem replicateTx_rejects_tLen :
    (replicateTxFraming Fix.current (replHdr ++ [0, 1, 97, 0, 0, 0, 0, 0, 0] ++ [0])).res = .err .illegalArguments := by
  decide +kernel
theorem replicateTx_tLen_guard_needed :
    (replicateTxFraming { Fix.current with tLen := false } (replHdr ++ [0, 1, 97, 0, 0, 0, 0, 0, 0] ++ [0])).res = .panic := by
  decide +kernel

/-- Former witness: `tLen = 0`, then `v[0]` on the empty slice. -/
theorem replicateTx_rejects_tZero :
    (replicateTxFraming Fix.current (replHdr ++ [0, 1, 97, 0, 0, 0, 0, 0, 0] ++ [0, 0])).res
      = .err .illegalTruncationArgument := by
  decide +kernel
theorem replicateTx_tZero_guard_needed :
    (replicateTxFraming { Fix.current with tZero := false } (replHdr ++ [0, 1, 97, 0, 0, 0, 0, 0, 0] ++ [0, 0])).res = .panic := by
  decide +kernel

example : (replicateTxFraming Fix.current (replHdr ++ [0, 1, 97, 0, 0, 0, 0, 0, 0] ++ [0, 1, 0])).res.isOk = true := by decide +kernel

example : Fix.all.extraLen = true ∧ Fix.all.hdrTail = true ∧ Fix.all.vLen = true ∧ Fix.all.tLen = true ∧
    Fix.all.tZero = true ∧ Fix.all.appCount = true := by decide

/-- Memory: keys are the only buffers sized by the input, and they are part of it. -/
theorem replicateTxFraming_alloc (fx : Fix) (bs : Bytes) :
    allocated (replicateTxFraming fx bs) ≤ bs.length + storeMaxTxMetadataLen + 65535 :=
  Decode.replicateTxFraming_alloc fx bs

/-- No partial effect: when the framing fails the store state is returned unchanged —
`precommit`, the only step that touches the state, runs after the whole input has been parsed. -/
theorem replicateTx_failure_no_effect {σ : Type} (precommit : σ → ExportedTx → σ × R TxHeader) (st : σ)
    (bs : Bytes) (h : (replicateTxFraming Fix.current bs).res.isOk = false) :
    (replicateTx precommit st bs).1 = st := by
  unfold replicateTx
  cases hr : (replicateTxFraming Fix.current bs).res with
  | ok tx => rw [hr] at h; simp [R.isOk] at h
  | err e => rfl
  | panic => rfl

/-- … and if `precommit` itself leaves the state alone when it fails, so does `ReplicateTx`. -/
theorem replicateTx_error_no_effect {σ : Type} (precommit : σ → ExportedTx → σ × R TxHeader)
    (hpre : ∀ st tx, (precommit st tx).2.isOk = false → (precommit st tx).1 = st) (st : σ) (bs : Bytes)
    (h : (replicateTx precommit st bs).2.isOk = false) : (replicateTx precommit st bs).1 = st := by
  unfold replicateTx at h ⊢
  cases hr : (replicateTxFraming Fix.current bs).res with
  | ok tx => rw [hr] at h; simp only at h ⊢; exact hpre st tx h
  | err e => rfl
  | panic => rfl

example : (replicateTxFraming Fix.current []).res.isOk = false := by decide

/-! ## appendable metadata (`embedded/appendable/metadata.go`)

The count guard (`Fix.appCount`) is part of the code (`Fix.current.appCount = true`): the driver runs the
model with the flag on.  `readField` no longer allocates from the declared length (model changed with the
code, no flag). -/

/-- `readField` never panics … -/
theorem readField_noPanic (r : BufReader) : NoPanic (readField r) := Decode.readField_noPanic r

/-- With the count guard `Metadata.ReadFrom` is total, for every input. -/
theorem appMetadata_readFrom_fixed_noPanic (fx : Fix) (h : fx.appCount = true) (bs : Bytes) :
    NoPanic (appMetadataReadFrom fx bs) :=
  appMetadataReadFrom_fixed_noPanic fx h bs

/-- **`Metadata.ReadFrom` (and `NewMetadata`) never panics** (the code as it stands). -/
theorem appMetadata_readFrom_noPanic (bs : Bytes) : NoPanic (appMetadataReadFrom Fix.current bs) :=
  appMetadataReadFrom_fixed_noPanic Fix.current rfl bs

/-- Memory: the bytes held by `ReadFrom` never exceed the input length, whatever lengths and count the
input declares (the former finding: `ff ff ff ff` requested 2^32-1 bytes). -/
theorem appMetadata_readFrom_alloc (fx : Fix) (bs : Bytes) : allocated (appMetadataReadFrom fx bs) ≤ bs.length :=
  appMetadataReadFrom_alloc fx bs

/-- The input of the repaired defect, `00 00 00 00` (count field of length 0), is rejected with
`ErrCorruptedMetadata` … -/
theorem appMetadata_readFrom_rejects_short_count (fx : Fix) (h : fx.appCount = true) :
    (appMetadataReadFrom fx [0, 0, 0, 0]).res = .err .corruptedMetadata := by
  rw [appMetadataReadFrom_congr fx Fix.all (by rw [h]; rfl)]
  decide

/-- … and the guard is what rejects it: the same code without it panics there (`Uint32` of an empty
slice), and that is the only difference the guard makes, on every input. -/
theorem appMetadata_readFrom_guard_necessary :
    (∃ bs, (appMetadataReadFrom Fix.none bs).res = .panic) ∧
    ∀ bs, appMetadataReadFrom Fix.none bs = appMetadataReadFrom Fix.all bs ∨
      ((appMetadataReadFrom Fix.none bs).res = .panic ∧ ∃ e, (appMetadataReadFrom Fix.all bs).res = .err e) :=
  ⟨⟨[0, 0, 0, 0], by decide⟩, appMetadataReadFrom_rel⟩

/-- The inputs of the repaired allocation defect: a declared length of 2^32-1 (resp. 0x09000000) with no
data behind it is an `io.ErrUnexpectedEOF` and nothing is allocated for it. -/
theorem appMetadata_readFrom_declared_length_not_allocated (fx : Fix) :
    (appMetadataReadFrom fx [255, 255, 255, 255]).res = .err .unexpectedEof ∧
    allocated (appMetadataReadFrom fx [255, 255, 255, 255]) = 0 ∧
    (appMetadataReadFrom fx [9]).res = .err .unexpectedEof ∧ allocated (appMetadataReadFrom fx [9]) = 0 := by
  cases hfx : fx.appCount
  · rw [appMetadataReadFrom_congr fx Fix.none (by rw [hfx]; rfl), appMetadataReadFrom_congr fx Fix.none (by rw [hfx]; rfl)]
    decide
  · rw [appMetadataReadFrom_congr fx Fix.all (by rw [hfx]; rfl), appMetadataReadFrom_congr fx Fix.all (by rw [hfx]; rfl)]
    decide

example : (appMetadataReadFrom Fix.current [0, 0, 0, 4, 0, 0, 0, 1, 0, 0, 0, 1, 107, 0, 0, 0, 1, 118]).res
    = .ok (1, [([107], [118])]) := by
  decide
example : Fix.current.appCount = true := rfl
example : (appMetadataReadFrom Fix.current [0, 0, 0, 0]).res = .err .corruptedMetadata :=
  appMetadata_readFrom_rejects_short_count Fix.current rfl

/-! ## SQL row values (`embedded/sql/catalog.go`) -/

/-- `DecodeValueLength` never panics and its result stays inside the buffer. -/
theorem decodeValueLength_noPanic (bs : Bytes) : NoPanic (decodeValueLength bs) :=
  (decodeValueLength_post bs).noPanic

theorem decodeValueLength_inBounds (bs : Bytes) (vlen voff : Nat)
    (h : (decodeValueLength bs).res = .ok (vlen, voff)) : voff + vlen ≤ bs.length :=
  ((decodeValueLength_post bs).2 (vlen, voff) h).2

/-- `DecodeValue` / `DecodeNullableValue` never panic, for every column type (framing only:
`json.Unmarshal` is outside the model). -/
theorem decodeValue_noPanic (bs : Bytes) (t : SqlType) (nullable : Bool) : NoPanic (decodeValue bs t nullable) :=
  decodeValue_noPanic' bs t nullable

example : (decodeValue [0, 0, 0, 1, 1] .boolean false).res = .ok (.bool true, 5) := by decide
example : (decodeValue [0, 0, 0, 0] .integer true).res = .ok (.null, 4) := by decide

end ImmuModel.Props.C16
