/-
C06 — the key-value API is linearizable; conditional writes are atomic.
ONLY property theorems and non-vacuity examples; helper lemmas are in ImmuModel/Mvcc/Proofs/Lin.lean.
Model: ImmuModel/Mvcc/Linearize.lean — pkg/database operations decomposed into the atomic steps the code performs
(writes: precommit with the preconditions evaluated inside the `s.mutex` critical section ; commit ; wait indexed.
reads: c := committed ; wait idxTs ≥ c ; observe the index;  `GetAll`: c := committed ; wait ; take a snapshot ; ONE STEP PER
KEY looking the key up in the index the code passes to `d.get` (extracted: the snapshot) ; return).  The schedule (`List DbStep`)
is arbitrary.
-/
import ImmuModel.Mvcc.Spec
import ImmuModel.Mvcc.Proofs.Lin

namespace ImmuModel.Props.C06
open ImmuModel ImmuModel.Mvcc ImmuModel.Mvcc.LinAux

/-- one-step form of `precondition_iff`: under `s.mutex` the write is appended iff every precondition holds on the
view the LIVE INDEX gives after `WaitForIndexingUpto(last precommitted)`.  As long as no compaction has thrown the
index back (`d.hub = d.idx`) that is the view of ALL transactions precommitted so far; the id is `log.length + 1`. -/
theorem precondition_iff_step (cfg : Cfg) (d : Db) (c : Nat) (cl : Client) (ws : WriteSet) (pre : List Pre)
    (hcl : d.clients[c]? = some cl) (hph : cl.phase = .wInvoked) (hop : cl.op = .write ws pre)
    (hhub : d.hub = d.idx) (h1 : d.idx ≤ d.committed) (h2 : d.committed ≤ d.log.length) :
    (dbStepCore cfg d (.precommit c)).log =
      if presHold d.log d.log.length pre then d.log ++ [ws] else d.log := by
  unfold dbStepCore
  simp only [hcl, hph, hop]
  by_cases hp : pre.isEmpty
  · have : pre = [] := by simpa using hp
    subst this
    simp [presHold, setClient]
  · simp only [hp]
    have hidx' : (if d.log.length ≤ d.hub then d.idx else d.log.length) = d.log.length := by
      split
      · omega
      · rfl
    simp only [hidx', Bool.false_eq_true, ↓reduceIte]
    by_cases hh : presHold d.log d.log.length pre
    · simp [hh, setClient]
    · simp [hh, finish, setClient]

/-- **conditional writes are atomic**, for every schedule without a completed index compaction (`noCompact`; necessary:
`compaction_breaks_conditional_write`): a write that returned as APPLIED with id `n` is entry
`n` of the log and all its preconditions hold on `LogView(n-1)`; a write that returned `ErrPreconditionFailed`
observed a version `v` of the log on which its preconditions do not all hold. -/
theorem precondition_iff (cfg : Cfg) (n : Nat) (sched : List DbStep) (hnc : noCompact sched)
    (r : OpRec) (ws : WriteSet) (pre : List Pre)
    (hr : r ∈ (dbRun cfg (dbInit n) sched).hist) (hop : r.op = .write ws pre) :
    (∀ id, r.out = .applied id →
        (dbRun cfg (dbInit n) sched).log[id - 1]? = some ws ∧ 1 ≤ id ∧
        presHold (dbRun cfg (dbInit n) sched).log (id - 1) pre = true) ∧
    (∀ v, r.out = .rejected v → presHold (dbRun cfg (dbInit n) sched).log v pre = false) := by
  have hinv := dinv_run cfg sched _ hnc (dinv_init cfg n)
  have h := (hinv.hist r hr).2
  unfold ResOK at h
  rw [hop] at h
  constructor
  · intro id ho; rw [ho] at h; simp only [] at h; exact ⟨h.2.2.1, h.1, h.2.2.2⟩
  · intro v ho; rw [ho] at h; simp only [] at h; exact h.2

/-- **read-after-write** (schedules without a completed index compaction; necessary: `compaction_breaks_read_after_write`): a read (or a rejected conditional write) invoked after a write returned observes a
version that contains that write — also the FIRST observation of a `Get` that goes through a reference. -/
theorem read_sees_completed_writes (cfg : Cfg) (n : Nat) (sched : List DbStep) (hnc : noCompact sched) (w r : OpRec)
    (hw : w ∈ (dbRun cfg (dbInit n) sched).hist) (hr : r ∈ (dbRun cfg (dbInit n) sched).hist)
    (id : Nat) (hwo : w.out = .applied id) (hro : r.out.isWrite = false) (hrf : r.out ≠ .failed) (hlt : w.resp < r.inv) :
    id ≤ r.out.version ∧ (∀ v1 v2 q, r.out = .answer2 v1 v2 q → id ≤ v1) :=
  read_sees_of_inv cfg _ (dinv_run cfg sched _ hnc (dinv_init cfg n)) w r hw hr id hwo hro hrf hlt

/-- **linearizable**, for every schedule without a completed index compaction and every completed operation of the history the model records:
(R1) results are those of the sequential KV object at the operation's version (an applied write creates version
     `id` = its position; every other operation observes one version) — for every operation except a `Get` that
     went through a reference (two observations in the code: see `ref_get_torn`);
(R2) real-time order is respected by the versions (`a` returned before `b` was invoked ⇒ `a` is ordered before `b`);
(LP) the explicit linearization point (applied write: the step that made it committed; rejected write: its
     precommit step; read of version `t`: its invocation if `t` was the committed frontier then, else the step
     that made `t` committed) lies between invocation and response.
Since an applied write returns its position, every linearization orders the writes by id; (R1)+(R2) are then
equivalent to the existence of a legal sequential order (order the operations by (version, writes first) —
this last, purely order-theoretic step is not formalised here). -/
theorem linearizable (cfg : Cfg) (n : Nat) (sched : List DbStep) (hnc : noCompact sched) :
    let d := dbRun cfg (dbInit n) sched
    (∀ r ∈ d.hist, (∀ a b q, r.out ≠ .answer2 a b q) → resultOK cfg d.log r) ∧
    (∀ a ∈ d.hist, ∀ b ∈ d.hist, orderOK a b) ∧
    (∀ r ∈ d.hist, r.inv ≤ linPoint d.cmt r ∧ linPoint d.cmt r ≤ r.resp) := by
  intro d
  have hinv : DInv cfg d := dinv_run cfg sched _ hnc (dinv_init cfg n)
  refine ⟨?_, ?_, ?_⟩
  · intro r hr hn; exact resultOK_of_ResOK (hinv.hist r hr).2 hn
  · intro a ha b hb; exact orderOK_of_inv cfg d hinv a b ha hb
  · intro r hr; exact linPoint_in_interval cfg d hinv r hr

/-- **a multi-key read returns the state of ONE instant**, for every schedule without a completed index compaction: whatever a
read (`GetAll`, `Scan`, `History`, `Count`; also a `Get` that met no reference) answers is the answer of the sequential object on
the log prefix of ONE version `v` — the same `v` for every key of the answer — and `v` lies between the committed frontier at
the invocation and the committed frontier at the response.  For `GetAll` this is a statement about the DECOMPOSED execution
(snapshot step, one lookup step per key, return step, with arbitrary commits and indexing in between): it holds because every
lookup reads the snapshot (`LinAux.getAllSrc_snap`, i.e. the extracted fact `Gen.dbGetAllLooksUpInSnapshot`); with lookups on
the live index it is false (`getall_needs_the_snapshot`). -/
theorem multi_key_read_one_instant (cfg : Cfg) (n : Nat) (sched : List DbStep) (hnc : noCompact sched)
    (r : OpRec) (q : Query) (v : Nat) (res : QRes)
    (hr : r ∈ (dbRun cfg (dbInit n) sched).hist) (hop : r.op = .read q) (hout : r.out = .answer v res) :
    res = evalQuery cfg (dbRun cfg (dbInit n) sched).log v q ∧
    cmtAt (dbRun cfg (dbInit n) sched) r.inv ≤ v ∧ v ≤ cmtAt (dbRun cfg (dbInit n) sched) r.resp := by
  have hinv := dinv_run cfg sched _ hnc (dinv_init cfg n)
  obtain ⟨ht, hres⟩ := hinv.hist r hr
  unfold ResOK at hres
  rw [hop, hout] at hres
  simp only [] at hres
  obtain ⟨_, _, h3⟩ := ht
  rw [hout] at h3
  simp only [] at h3
  exact ⟨hres.2, h3⟩

/-! ## finding: `Get` through a re-pointed reference is not atomic -/

def k1 : Bytes := [0, 107, 49]
def k2 : Bytes := [0, 107, 50]
def kr : Bytes := [0, 114]
def refTo (k : Bytes) : Bytes := 1 :: 0 :: 0 :: 0 :: 0 :: 0 :: 0 :: 0 :: 0 :: k
def tcfg : Cfg := { idxs := [[]], U := [k1, k2, kr] }
def wr (ws : WriteSet) (upto : Nat) : List DbStep :=
  [.invoke 0 (.write ws []), .precommit 0, .sync upto, .index upto, .wdone 0]
def tsched : List DbStep :=
  wr [⟨k1, [0, 1], false⟩] 1 ++ wr [⟨k2, [0, 2], false⟩] 2 ++ wr [⟨kr, refTo k1, false⟩] 3 ++
  [.invoke 1 (.read (.get kr)), .rdone 1 0] ++                 -- the reference is read at ts 3 …
  wr [⟨kr, refTo k2, false⟩] 4 ++ wr [⟨k1, [0, 9], false⟩] 5 ++  -- … re-pointed by tx 4, old target updated by tx 5 …
  [.rdone 1 0]                                                  -- … and resolved at ts 5

/-- FINDING. `db.Get` reads the reference and the referenced key with two separate reads of the live index.
In this schedule it answers "k1 = value of tx 5, referenced by the reference of tx 3": at no version of the log
does `Get(r)` give that answer (versions ≤ 2: not found; 3: k1 of tx 1; 4, 5: k2 of tx 2). -/
theorem ref_get_torn :
    let d := dbRun tcfg (dbInit 2) tsched
    d.hist.getLast?.map (·.out) = some (.answer2 3 5 (.entry k1 ⟨5, [0, 9], false⟩ 3)) ∧
    ∀ v, v ≤ 5 → evalQuery tcfg d.log v (.get kr) ≠ .entry k1 ⟨5, [0, 9], false⟩ 3 := by decide

/-! ## why `GetAll` must look every key up in its snapshot -/

/-- the loop of `GetAll` with the lookups on the LIVE index (`getAllSrc` when the code does not pass the snapshot to `d.get`):
k1 is looked up when the index is at ts 1, then tx 2 — which rewrites k1 AND k2 — is indexed, then k2 is looked up.
The collected answer (k1 of tx 1, k2 of tx 2) is the answer of `GetAll [k1, k2]` at NO version of the log. -/
theorem getall_needs_the_snapshot :
    let log : Log := [[⟨k1, [0, 1], false⟩, ⟨k2, [0, 1], false⟩], [⟨k1, [0, 2], false⟩, ⟨k2, [0, 2], false⟩]]
    let torn := getAllLookup log 2 k2 (getAllLookup log 1 k1 [])
    torn = [(k1, ⟨1, [0, 1], false⟩), (k2, ⟨2, [0, 2], false⟩)] ∧
    ∀ v, v ≤ 2 → getAllEntries log v [k1, k2] ≠ torn := by decide

/-! ## finding: an index compaction throws the index back while `WaitForIndexingUpto` still reports the old ts -/

def csched : List DbStep :=
  wr [⟨k1, [0, 1], false⟩] 1 ++ wr [⟨k1, [0, 2], false⟩] 2 ++   -- k1 written by tx 1 and tx 2, both Sets returned
  [.compact 1,                                                    -- CompactIndex reopens the dump taken at ts 1
   .invoke 1 (.read (.get k1)), .rdone 1 0,                       -- Get(k1): WaitForIndexingUpto(2) is satisfied at once
   .invoke 0 (.write [⟨k2, [0, 3], false⟩] [.notModifiedAfter k1 1]), .precommit 0]

/-- FINDING. After the compaction the Get answers the value of tx 1 although the Set of tx 2 had returned. -/
theorem compaction_breaks_read_after_write :
    let d := dbRun tcfg (dbInit 2) csched
    d.hist.map (·.out) = [.applied 1, .applied 2, .answer 1 (.entry k1 ⟨1, [0, 1], false⟩ 0)] ∧
    d.hist.map (fun r => (r.inv, r.resp)) = [(0, 4), (5, 9), (11, 12)] := by decide

/-- FINDING. The conditional write `KeyNotModifiedAfterTx(k1, 1)` is evaluated on the regressed index and APPLIED
(it becomes tx 3) although k1 was modified by tx 2: the preconditions do not hold on `LogView(3 - 1)`. -/
theorem compaction_breaks_conditional_write :
    let d := dbRun tcfg (dbInit 2) csched
    d.log.length = 3 ∧ d.log[2]? = some [⟨k2, [0, 3], false⟩] ∧
    presHold d.log 2 [.notModifiedAfter k1 1] = false := by decide

/-! ## non-vacuity -/

/-- a conditional write is rejected, another one applied, a read sees the applied one. -/
example :
    let d := dbRun tcfg (dbInit 2)
      (wr [⟨k1, [0, 1], false⟩] 1 ++
       [.invoke 0 (.write [⟨k1, [0, 7], false⟩] [.mustNotExist k1]), .precommit 0,
        .invoke 0 (.write [⟨k1, [0, 8], false⟩] [.notModifiedAfter k1 1]), .precommit 0, .sync 2, .index 2, .wdone 0,
        .invoke 1 (.read (.get k1)), .rdone 1 0])
    d.hist.map (·.out) = [.applied 1, .rejected 1, .applied 2, .answer 2 (.entry k1 ⟨2, [0, 8], false⟩ 0)] := by decide

/-- a multi-key transaction is committed AND indexed between two lookups of one `GetAll` (snapshot taken at ts 1, k1 looked up,
tx 2 rewrites k1 and k2 and its `Set` returns, k2 looked up): the answer is the state of ts 1 for both keys. -/
example :
    let d := dbRun tcfg (dbInit 2)
      (wr [⟨k1, [0, 1], false⟩, ⟨k2, [0, 1], false⟩] 1 ++
       [.invoke 1 (.read (.getAll [k1, k2])), .rdone 1 0, .rdone 1 0] ++
       wr [⟨k1, [0, 2], false⟩, ⟨k2, [0, 2], false⟩] 2 ++
       [.rdone 1 0, .rdone 1 0])
    d.idx = 2 ∧
    d.hist.map (·.out) = [.applied 1, .applied 2, .answer 1 (.entries [(k1, ⟨1, [0, 1], false⟩), (k2, ⟨1, [0, 1], false⟩)])] := by decide

end ImmuModel.Props.C06
