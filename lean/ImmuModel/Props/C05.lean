/-
C05 — read-write transactions are serializable in commit order (MVCC).
ONLY property theorems and non-vacuity examples; helper lemmas are in ImmuModel/Mvcc/Proofs/*.
Model: ImmuModel/Mvcc/Model.lean (mirror of ongoing_tx.go / ongoing_tx_keyreader.go / precommit),
side conditions: ImmuModel/Mvcc/Spec.lean.
-/
import ImmuModel.Mvcc.Spec
import ImmuModel.Mvcc.Proofs.Misc

namespace ImmuModel.Props.C05
open ImmuModel ImmuModel.Mvcc

/-! ## validation soundness (`checkPreconditions` ok ⇒ every recorded read re-executed on
`LogView(last) ⊕ own writes` returns the recorded result), per read shape.

`base` is the ts of the snapshot the read was made on, `last` the last precommitted tx at validation
(the log may be longer than `last`: only `viewGet log last` is consulted). -/

/-- point reads (`GetWithFilters`), incl. not-found and filtered-deleted: same tx id ⇒ same value/metadata. -/
theorem validation_sound_get (log : Log) (base last : Nat) (k : Bytes) (ignDel : Bool)
    (hv : valGet (viewGet log last) ⟨k, ignDel, ((getF (viewGet log base) k ignDel).map (·.tx)).getD 0⟩ = true) :
    getF (viewGet log last) k ignDel = getF (viewGet log base) k ignDel :=
  Mvcc.validation_sound_get log base last k ignDel hv

/-- prefix reads with exclusion key (`GetWithPrefixAndFilters`) that were NOT answered by a write of the
transaction itself — such a call records nothing: `serializable_fails_prefix_get_own_write`. -/
theorem validation_sound_pget (U : List Bytes) (hU : U.Nodup) (log : Log) (base last : Nat) (hb : base ≤ last)
    (own : WriteSet) (p neq : Bytes) (ignDel : Bool) (r : Option (Bytes × Ver))
    (hr : pgetF U (rawLook log base own) p neq ignDel = r)
    (hno : ∀ k v, r = some (k, v) → v.tx ≠ 0)
    (hv : valPGet U (viewGet log last) ⟨p, neq, ignDel, (r.map (·.1)).getD [], (r.map (·.2.tx)).getD 0⟩ = true) :
    pgetF U (rawLook log last own) p neq ignDel = r :=
  Mvcc.validation_sound_pget U hU log base last hb own p neq ignDel r hr hno hv

/-- readers (ascending / descending, seek / end bounds, prefix, offset, filter, `Reset`, early stop): rows,
recorded reads and the `skipped` counter of every segment are reproduced, PROVIDED no segment ends on a row
written by the transaction itself (`goodTail`; necessary: `serializable_fails_scan_own_write_tail`). -/
theorem validation_sound_scan (cfg : Cfg) (hU : cfg.U.Nodup) (log : Log) (base last : Nat) (own : WriteSet)
    (spec : ScanSpec) (segs : List Nat)
    (hv : valReader cfg (viewGet log last)
        ⟨spec, (readSegs spec.ignDel spec.offset (rawScan cfg.U cfg.maxKey spec (txLook log base own)) segs 0).2⟩ = true)
    (ht : (readSegs spec.ignDel spec.offset (rawScan cfg.U cfg.maxKey spec (txLook log base own)) segs 0).2.all goodTail = true) :
    readSegs spec.ignDel spec.offset (rawScan cfg.U cfg.maxKey spec (txLook log last own)) segs 0
      = readSegs spec.ignDel spec.offset (rawScan cfg.U cfg.maxKey spec (txLook log base own)) segs 0 :=
  Mvcc.validation_sound_scan cfg hU log base last own spec segs hv ht

/-- prefix fingerprints (`MarkPrefixScanned`; sha256 idealised as the list of (key, tx) pairs). -/
theorem validation_sound_fp (cfg : Cfg) (hU : cfg.U.Nodup) (log : Log) (base last : Nat) (own : WriteSet) (spec : ScanSpec)
    (hv : valFP cfg (viewGet log last) ⟨spec, keyTx (rawScan cfg.U cfg.maxKey spec (txLook log base own))⟩ = true) :
    rawScan cfg.U cfg.maxKey spec (txLook log last own) = rawScan cfg.U cfg.maxKey spec (txLook log base own) :=
  Mvcc.validation_sound_fp cfg hU log base last own spec hv

/-! ## `checkPreconditions` validates every snapshot of the transaction -/

/-- the loop over `tx.snapshots` (after the repair of DESIGN K8: `continue`, not `return nil`): when it reports no
conflict, EVERY snapshot the transaction holds — whatever the order of acquisition and however stale — is either
taken at the last precommitted transaction (nothing was committed since) or has been validated against the
up-to-date index. -/
theorem commit_validates_every_snapshot (cfg : Cfg) (look : Bytes → Option Ver) (last : Nat) (rs : ReadSet)
    (snaps : List Snap) (hb : ∀ s ∈ snaps, s.base ≤ last)
    (hc : checkSnaps cfg look last rs snaps = true) :
    ∀ s ∈ snaps, s.base = last ∨ valSnap cfg look rs s.pfx = true :=
  SerialAux.checkSnaps_validates cfg look last rs snaps hb hc

/-! ## serializability in commit order

FULL statement (`serializable`, FALSE for the code as it is — two witnesses below):
  ∀ cfg progs sched i tx n prog mi, cfg.U.Nodup → progs[i]? = some (prog, mi) →
    (run cfg (initSys cfg progs) sched).txs[i]? = some tx → tx.status = .committed n →
    tx.trace = soloTrace cfg (run cfg (initSys cfg progs) sched).log (n - 1) prog
What is proved: the same statement for EVERY schedule (arbitrary interleaving of API calls of any number of
transactions, write-only commits and indexer progress, snapshots arbitrarily stale and acquired in any order,
any `SnapshotMustIncludeTxID`) under two decidable side conditions on the committed transaction, each of which
excludes exactly one of the findings: `noOwnTail` (no reader segment ended on an own write), `pgetOwnFree`
(no prefix get was answered by an own write).
(Until the repair of DESIGN K8 a third condition was needed, `snapMonotone`: later-acquired snapshots are not
older.  `checkPreconditions` now validates every snapshot and the hypothesis is gone.) -/
theorem serializable_partial (cfg : Cfg) (hU : cfg.U.Nodup) (progs : List (List Op × Option Nat)) (sched : List Step)
    (i n : Nat) (tx : TxSt) (prog : List Op) (mi : Option Nat)
    (hp : progs[i]? = some (prog, mi))
    (hi : (run cfg (initSys cfg progs) sched).txs[i]? = some tx)
    (hc : tx.status = .committed n)
    (htail : noOwnTail tx.rs = true)
    (hpg : pgetOwnFree prog tx.trace = true) :
    tx.trace = soloTrace cfg (run cfg (initSys cfg progs) sched).log (n - 1) prog :=
  serializable_of_inv cfg hU progs sched i n tx prog mi hp hi hc htail hpg

/-! ## aborted / cancelled transactions leave no trace -/

/-- the step that ends a transaction with a read conflict, a cancel or "no entries" changes neither the log nor
any other transaction. -/
theorem aborted_no_trace_step (cfg : Cfg) (s : Sys) (i c : Nat) (tx' : TxSt)
    (h : (step cfg s (.op i c)).txs[i]? = some tx')
    (hs : tx'.status = .conflict ∨ tx'.status = .cancelled ∨ tx'.status = .noEntries) :
    (step cfg s (.op i c)).log = s.log ∧ ∀ j, j ≠ i → (step cfg s (.op i c)).txs[j]? = s.txs[j]? :=
  MiscAux.abort_step cfg s i c tx' h hs

/-- a transaction that is not active never changes anything again. -/
theorem closed_tx_inert (cfg : Cfg) (s : Sys) (i c : Nat) (tx : TxSt) (h : s.txs[i]? = some tx)
    (hs : tx.status ≠ .active) : step cfg s (.op i c) = s :=
  SerialAux.step_inactive cfg s i c tx h hs

/-- for every schedule: every write set in the log is that of a write-only commit of the schedule or the write
set of a transaction whose status is `committed` with exactly that id. -/
theorem aborted_no_trace (cfg : Cfg) (progs : List (List Op × Option Nat)) (sched : List Step) (n : Nat) (ws : WriteSet)
    (h : (run cfg (initSys cfg progs) sched).log[n]? = some ws) :
    (∃ (j : Nat) (tx : TxSt), (run cfg (initSys cfg progs) sched).txs[j]? = some tx ∧
        tx.status = .committed (n + 1) ∧ tx.own = ws) ∨ Step.wcommit ws ∈ sched := by
  have hj : MiscAux.Just (initSys cfg progs) (fun _ => False) := by
    intro n ws hn; simp [initSys] at hn
  rcases MiscAux.just_run cfg sched _ _ hj n ws h with h1 | h1 | h1
  · exact Or.inl h1
  · exact absurd h1 id
  · exact Or.inr h1

/-! ## read your own writes -/

/-- a point read of a key the transaction has written returns that write and records nothing. -/
theorem read_your_own_writes (log : Log) (tx : TxSt) (pfx : Bytes) (nb : Nat) (k : Bytes) (ign : Bool) (e : Entry)
    (h : wsGet tx.own k = some e) :
    (execGet log tx pfx nb k ign).2 = Res.found k ⟨0, e.val, e.del⟩ ∧ (execGet log tx pfx nb k ign).1.rs = tx.rs :=
  MiscAux.ryow_get log tx pfx nb k ign e h

/-- after `Set(k, v)` the write is the one a later read finds. -/
theorem read_your_own_writes_set (ws : WriteSet) (e : Entry) : wsGet (upsert ws e) e.key = some e :=
  MiscAux.wsGet_upsert_self ws e

/-- an own write in range is a row of every reader of the transaction. -/
theorem read_your_own_writes_scan (cfg : Cfg) (log : Log) (base : Nat) (own : WriteSet) (spec : ScanSpec) (k : Bytes) (e : Entry)
    (hk : k ∈ cfg.U) (hr : inRange cfg.maxKey spec k = true) (h : wsGet own k = some e) :
    (k, (⟨0, e.val, e.del⟩ : Ver)) ∈ rawScan cfg.U cfg.maxKey spec (txLook log base own) :=
  MiscAux.ryow_scan cfg log base own spec k e hk hr h

/-! ## atomic visibility -/

/-- a snapshot (= `LogView base`) contains all or none of the entries of transaction `n`.
(By construction in this model: the index is a view of a log prefix; that the real index is one is C04/C10's
theorem and is probed by the harness with concurrent snapshot readers.) -/
theorem atomic_visibility (log : Log) (n base : Nat) (ws : WriteSet) (hn : 1 ≤ n) (h : log[n - 1]? = some ws) :
    (n ≤ base → ∀ e ∈ ws, ∃ v, viewGet log base e.key = some v ∧ n ≤ v.tx) ∧
    (base < n → ∀ k v, viewGet log base k = some v → v.tx < n) := by
  refine ⟨fun hb e he => MiscAux.visible_from log n ws hn h e he base hb, ?_⟩
  intro hb k v hv
  have := (ViewLemmas.viewGet_spec log base k v hv).2.1
  omega

/-! ## findings: the full serializability statement is FALSE for the code as it is.

`serializable` (full statement, NOT provable):
  ∀ cfg progs sched i tx n, (run cfg (initSys cfg progs) sched).txs[i]? = some tx → tx.status = .committed n →
    tx.trace = soloTrace cfg (run …).log (n-1) progᵢ
Two independent counterexamples, each reproduced on the real store by the harness (a third one, DESIGN K8, has
been repaired: `later_snapshot_validated`). -/

def fcfg1 : Cfg := { idxs := [[107]], U := [[107,97],[107,99],[107,109],[107,122]] }
def fprog1 : List Op := [.set [107,109] [1], .scan { pfx := [107] } [2], .commit]
def fsched1 : List Step :=
  [.wcommit [⟨[107,97], [1], false⟩, ⟨[107,122], [9], false⟩], .op 0 0, .op 0 0, .wcommit [⟨[107,99], [7], false⟩], .op 0 0]

/-- FINDING (scan, own-write tail). A transaction writes `km`, scans prefix `k` and stops after two rows
(`ka`, its own `km`); a concurrent transaction inserts `kc`; the transaction still commits (id 3) although
alone on the state before it the scan returns `ka, kc`.  `checkPreconditions` keeps the row `kc` it read in
`key` when the expected read is the own write `km`, and the loop ends without comparing it. -/
theorem serializable_fails_scan_own_write_tail :
    let s := run fcfg1 (initSys fcfg1 [(fprog1, none)]) fsched1
    s.txs.map (·.status) = [.committed 3] ∧
    s.txs.map (·.trace) ≠ [soloTrace fcfg1 s.log 2 fprog1] := by decide

def fcfg2 : Cfg := { idxs := [[97], [98]], U := [[97,49],[97,50],[98,49]] }
def fprog2 : List Op := [.set [97,50] [7], .get [98,49] true, .commit]
def fsched2 : List Step :=
  [.wcommit [⟨[97,49], [1], false⟩, ⟨[98,49], [1], false⟩], .index 1 1, .wcommit [⟨[98,49], [2], false⟩],
   .index 0 2, .index 1 2, .op 0 2, .op 0 1, .op 0 0]

/-- REPAIRED (DESIGN K8, two indexes; was the witness `serializable_fails_later_snapshot_unvalidated`).
`SnapshotMustIncludeTxID = 0`: the snapshot of index `a` is fresh (ts 2) and written to
(`Ts() = 3 > LastPrecommittedTxID() = 2`), the snapshot of index `b`, acquired later, is the re-used root of ts 1.
`checkPreconditions` used to `return nil` at the first snapshot and the stale read of `b1` (tx 1, overwritten by
tx 2) was committed with id 3; it now skips only that snapshot, validates the one of `b` and the transaction is
rejected with a read conflict, leaving no trace in the log. -/
theorem later_snapshot_validated :
    let s := run fcfg2 (initSys fcfg2 [(fprog2, some 0)]) fsched2
    s.txs.map (·.status) = [.conflict] ∧ s.log.length = 2 ∧
    s.txs.map (·.snaps.map (fun sn => (sn.pfx, sn.base, sn.wrote))) = [[([97], 2, true), ([98], 1, false)]] := by decide

def fcfg3 : Cfg := { idxs := [[107]], U := [[107,97],[107,109],[107,122]] }
def fprog3 : List Op := [.set [107,109] [1], .getPrefix [107] [] true, .commit]
def fsched3 : List Step :=
  [.wcommit [⟨[107,122], [9], false⟩], .op 0 0, .op 0 0, .wcommit [⟨[107,97], [7], false⟩], .op 0 0]

/-- FINDING (prefix get answered by an own write). `GetWithPrefix("k")` returns the transaction's own `km`
and records nothing (`valRef.Tx() = 0`); a concurrent insert of `ka` is not noticed. -/
theorem serializable_fails_prefix_get_own_write :
    let s := run fcfg3 (initSys fcfg3 [(fprog3, none)]) fsched3
    s.txs.map (·.status) = [.committed 3] ∧
    s.txs.map (·.trace) ≠ [soloTrace fcfg3 s.log 2 fprog3] := by decide

/-! ## non-vacuity -/

def ecfg : Cfg := { idxs := [[107]], U := [[107,97],[107,98],[107,99]] }
def eprog : List Op := [.get [107,97] true, .scan { pfx := [107] } [100], .set [107,99] [5], .commit]
def esched : List Step := [.wcommit [⟨[107,97], [1], false⟩], .op 0 0, .wcommit [⟨[107,98], [2], false⟩], .index 0 1, .op 0 0, .op 0 0, .op 0 0]

/-- a phantom (kb inserted after the exhaustive scan) is rejected with a read conflict. -/
example : let s := run ecfg (initSys ecfg [(eprog, none)]) esched
    s.txs.map (·.status) = [.conflict] := by decide

/-- a transaction that read from a stale snapshot (ts 1 while tx 2 was committed) and still commits, with all
side conditions of `serializable_partial` satisfied. -/
def eprog2 : List Op := [.get [107,97] true, .set [107,99] [5], .commit]
def esched2 : List Step := [.wcommit [⟨[107,97], [1], false⟩], .index 0 1, .op 0 1, .wcommit [⟨[107,98], [2], false⟩], .op 0 0, .op 0 0]
example : let s := run ecfg (initSys ecfg [(eprog2, some 0)]) esched2
    s.txs.map (·.status) = [.committed 3] ∧
    s.txs.all (fun t => noOwnTail t.rs && pgetOwnFree eprog2 t.trace) = true ∧
    s.txs.map (·.snaps.map (·.base)) = [[1]] := by decide

end ImmuModel.Props.C05
