/-
C18 — Access control: every operation is gated by the caller's database permission.
ONLY property theorems and their non-vacuity examples live here; the model is ImmuModel/Auth/Matrix.lean
(getDBFromCtx mirrored branch by branch; permission tables, RPC list and per-handler gate names REGENERATED from
/repo on every run), helper lemmas and the Bool table checkers are in ImmuModel/Auth/MatrixLemmas.lean.

Every `by decide` below evaluates a checker over the WHOLE regenerated tables: a new RPC, a changed permission row,
a handler that stops calling getDBFromCtx or a new maintenance method re-opens the corresponding theorem.
The theorems quantify over every caller (any permission code, any credential state) and every configuration with
authentication enabled; `Caller` is what the SERVER holds about the credential (see DESIGN "C18 — as built").
-/
import ImmuModel.Auth.MatrixLemmas
import ImmuModel.Auth.Streams

namespace ImmuModel.Props.C18
open ImmuModel ImmuModel.Auth

/-! ### completeness of the tables -/

/-- Every RPC of every served gRPC service has a line in the specification table. -/
theorem every_rpc_classified : ∀ r ∈ Gen.rpcs, (effect? r.handler).isSome = true := by
  have h : Gen.rpcs.all (fun r => (effect? r.handler).isSome) = true := by decide
  exact fun r hr => List.all_eq_true.mp h r hr

/-- Every RPC has a handler on `*ImmuServer` that either calls `getDBFromCtx` with names that all have a row in
`methodsPermissions`, or is in the reviewed list of session/admin-level handlers AND its body mentions the primitives
that list entry relies on. An RPC added without such an entry breaks this theorem. -/
theorem every_rpc_gated : ∀ r ∈ Gen.rpcs, gatedOk r = true := by
  have h : Gen.rpcs.all gatedOk = true := by decide
  exact fun r hr => List.all_eq_true.mp h r hr

/-- The hand-written tables contain no row for something that is not an RPC handler (they cannot rot silently). -/
theorem tables_have_no_stale_rows :
    (∀ ne ∈ effectTable, ∃ r ∈ Gen.rpcs, r.handler = ne.1) ∧
    (∀ nk ∈ specialTable, ∃ r ∈ Gen.rpcs, r.handler = nk.1) := by
  have h1 : effectTable.all (fun ne => Gen.rpcs.any (fun r => r.handler == ne.1)) = true := by decide
  have h2 : specialTable.all (fun nk => Gen.rpcs.any (fun r => r.handler == nk.1)) = true := by decide
  constructor
  · intro ne hne
    have := List.all_eq_true.mp h1 ne hne
    obtain ⟨r, hr, he⟩ := List.any_eq_true.mp this
    exact ⟨r, hr, by simpa using he⟩
  · intro nk hnk
    have := List.all_eq_true.mp h2 nk hnk
    obtain ⟨r, hr, he⟩ := List.any_eq_true.mp this
    exact ⟨r, hr, by simpa using he⟩

/-! ### the matrix -/

/-- **Writes need RW.** If an RPC that changes database contents passes the gate, the caller is the sysadmin or holds
RW/Admin/SysAdmin on the SELECTED database. -/
theorem write_needs_rw (cfg : Config) (c : Caller) (r : Gen.Rpc) (ha : cfg.auth = true)
    (he : effect? r.handler = some .writesData) (h : rpcGate cfg c r = .allow) :
    c.sysadmin = true ∨ c.permSel = Gen.permissionRW ∨ c.permSel = Gen.permissionAdmin ∨
      c.permSel = Gen.permissionSysAdmin := by
  have hchk : effectTable.all (fun ne => writeRowOk ne.1 ne.2) = true := by decide
  have hrow := effect_row (P := writeRowOk) hchk he
  obtain ⟨_, hd, hh, hg⟩ := rpcGate_allow h
  have fin : ∀ p, p ∈ rwCodes → p = Gen.permissionRW ∨ p = Gen.permissionAdmin ∨ p = Gen.permissionSysAdmin := by
    intro p hp; simpa [rwCodes] using hp
  simp only [writeRowOk, hh] at hrow
  cases hgs : hd.dbGates with
  | nil =>
    simp [hgs] at hrow
    obtain ⟨k, hk, hs⟩ := handlerGate_nil hgs hg
    rw [hrow] at hk; cases hk
    -- TxSQLExec: session transaction, statement checked by the SQL engine
    have hsql : sqlStmtGate cfg c true = .allow := by
      simp only [specialGate] at hs
      repeat' (split at hs)
      all_goals (first | (exact absurd hs (by decide)) | exact hs)
    obtain ⟨_, hq, hw⟩ := sqlStmt_allow hsql
    rcases (getDB_allow ha hq).2.2.2.1 with hs | hp
    · exact Or.inl hs
    · have hqr : permsWithin "SQLQuery" rCodes = true := by decide
      have hm := permsWithin_spec hqr hp
      rcases hw rfl with hs | hne
      · exact Or.inl hs
      · have hne' : c.permSel ≠ Gen.permissionR := by simpa using hne
        simp [rCodes] at hm
        rcases hm with h1 | h1 | h1 | h1
        · exact absurd h1 hne'
        · exact Or.inr (Or.inl h1)
        · exact Or.inr (Or.inr (Or.inl h1))
        · exact Or.inr (Or.inr (Or.inr h1))
  | cons g gs =>
    simp [hgs] at hrow
    rcases (getDB_allow ha (handlerGate_first hgs hg)).2.2.2.1 with hs | hp
    · exact Or.inl hs
    · exact Or.inr (fin _ (permsWithin_spec hrow hp))

/-- **Reads need R.** If an RPC that returns database contents passes the gate, the caller is the sysadmin or holds
at least R on the SELECTED database. -/
theorem read_needs_r (cfg : Config) (c : Caller) (r : Gen.Rpc) (ha : cfg.auth = true)
    (he : effect? r.handler = some .readsData) (h : rpcGate cfg c r = .allow) :
    c.sysadmin = true ∨ c.permSel = Gen.permissionR ∨ c.permSel = Gen.permissionRW ∨
      c.permSel = Gen.permissionAdmin ∨ c.permSel = Gen.permissionSysAdmin := by
  have hchk : effectTable.all (fun ne => readRowOk ne.1 ne.2) = true := by decide
  have hrow := effect_row (P := readRowOk) hchk he
  obtain ⟨_, hd, hh, hg⟩ := rpcGate_allow h
  have fin : ∀ p, p ∈ rCodes → p = Gen.permissionR ∨ p = Gen.permissionRW ∨ p = Gen.permissionAdmin ∨
      p = Gen.permissionSysAdmin := by
    intro p hp; simpa [rCodes] using hp
  simp only [readRowOk, hh] at hrow
  cases hgs : hd.dbGates with
  | nil =>
    simp [hgs] at hrow
    obtain ⟨k, hk, hs⟩ := handlerGate_nil hgs hg
    rw [hrow] at hk; cases hk
    have hsql : sqlStmtGate cfg c false = .allow := by
      simp only [specialGate] at hs
      repeat' (split at hs)
      all_goals (first | (exact absurd hs (by decide)) | exact hs)
    obtain ⟨_, hq, _⟩ := sqlStmt_allow hsql
    rcases (getDB_allow ha hq).2.2.2.1 with hs | hp
    · exact Or.inl hs
    · have hqr : permsWithin "SQLQuery" rCodes = true := by decide
      exact Or.inr (fin _ (permsWithin_spec hqr hp))
  | cons g gs =>
    simp [hgs] at hrow
    rcases (getDB_allow ha (handlerGate_first hgs hg)).2.2.2.1 with hs | hp
    · exact Or.inl hs
    · exact Or.inr (fin _ (permsWithin_spec hrow hp))

/-- **Administration needs admin rights.** User, database-lifecycle and index administration passes the gate only for
the sysadmin, an Admin of the selected database, an Admin of the database named in the request, or (password/status
changes) an Admin of some database. -/
theorem admin_needs_admin (cfg : Config) (c : Caller) (r : Gen.Rpc) (ha : cfg.auth = true)
    (he : effect? r.handler = some .admin) (h : rpcGate cfg c r = .allow) :
    c.sysadmin = true ∨ c.permSel = Gen.permissionAdmin ∨ c.permSel = Gen.permissionSysAdmin ∨
      c.permNamed = Gen.permissionAdmin ∨ c.anyAdmin = true := by
  have hchk : effectTable.all (fun ne => adminRowOk ne.1 ne.2) = true := by decide
  have hrow := effect_row (P := adminRowOk) hchk he
  obtain ⟨_, hd, hh, hg⟩ := rpcGate_allow h
  simp only [adminRowOk, hh] at hrow
  cases hgs : hd.dbGates with
  | nil =>
    simp [hgs] at hrow
    obtain ⟨k, hk, hs⟩ := handlerGate_nil hgs hg
    simp [hk] at hrow
    rcases special_admin ha hrow hs with h1 | h1 | h1
    · exact Or.inl h1
    · exact Or.inr (Or.inr (Or.inr (Or.inl h1)))
    · exact Or.inr (Or.inr (Or.inr (Or.inr h1)))
  | cons g gs =>
    simp [hgs] at hrow
    rcases (getDB_allow ha (handlerGate_first hgs hg)).2.2.2.1 with hs | hp
    · exact Or.inl hs
    · have hm := permsWithin_spec hrow hp
      simp [adminCodes] at hm
      rcases hm with h1 | h1
      · exact Or.inr (Or.inl h1)
      · exact Or.inr (Or.inr (Or.inl h1))

/-- **Settings need Admin.** Changing the settings or the loaded state of a database passes the gate only for the
sysadmin or an Admin of the database NAMED IN THE REQUEST (stronger than the RW the property asks for). -/
theorem settings_need_admin (cfg : Config) (c : Caller) (r : Gen.Rpc) (ha : cfg.auth = true)
    (he : effect? r.handler = some .changesSettings) (h : rpcGate cfg c r = .allow) :
    c.sysadmin = true ∨ c.permNamed = Gen.permissionAdmin := by
  have hchk : effectTable.all (fun ne => settingsRowOk ne.1 ne.2) = true := by decide
  have hrow := effect_row (P := settingsRowOk) hchk he
  obtain ⟨_, hd, hh, hg⟩ := rpcGate_allow h
  simp only [settingsRowOk, hh] at hrow
  cases hgs : hd.dbGates with
  | nil =>
    simp [hgs] at hrow
    obtain ⟨k, hk, hs⟩ := handlerGate_nil hgs hg
    simp [hk] at hrow
    cases k <;> simp at hrow
    exact special_dbAdmin ha hs
  | cons g gs => simp [hgs] at hrow

/-- **No credentials, no service.** With authentication enabled (the server refuses to start with authentication AND
maintenance mode), a request whose credential the server does not accept — none at all, an unknown/closed/expired
session id, a token of a user who is not in the logged-in list, an expired token — is refused by every real RPC that
is not explicitly classified `unauthenticatedOk`. -/
theorem unauth_refused (cfg : Config) (c : Caller) (r : Gen.Rpc) (e : Effect) (hr : r ∈ Gen.rpcs)
    (ha : cfg.auth = true) (hm : cfg.maint = false) (hc : credsOk c = false)
    (he : effect? r.handler = some e) (hne : e ≠ .unauthenticatedOk) :
    rpcGate cfg c r ≠ .allow := by
  intro h
  have hchk : effectTable.all (fun ne => unauthRowOk ne.1 ne.2) = true := by decide
  have hrow := effect_row (P := unauthRowOk) hchk he
  have hka : Gen.rpcs.all keepAliveCovered = true := by decide
  have hkr := List.all_eq_true.mp hka r hr
  obtain ⟨hi, hd, hh, hg⟩ := rpcGate_allow h
  have hname := handler?_name hh
  simp only [unauthRowOk, hh] at hrow
  have hne' : (e == Effect.unauthenticatedOk) = false := by
    cases e <;> simp at hne ⊢
  simp only [hne', Bool.false_or] at hrow
  cases hgs : hd.dbGates with
  | nil =>
    obtain ⟨k, hk, hs⟩ := handlerGate_nil hgs hg
    simp [hgs, hk] at hrow
    rcases special_needs_creds ha hm hc hs with h1 | h1 | ⟨h1, h2⟩
    · subst h1; simp at hrow
    · subst h1; simp at hrow
    · -- KeepAlive with a session id the manager does not know: refused by the session interceptor
      subst h1
      rw [hname] at hk
      simp only [keepAliveCovered, hk] at hkr
      have hst : (c.state != CredState.valid) = true := by
        unfold credsOk at hc
        simp [h2] at hc
        simpa using hc
      unfold interceptorRefuses at hi
      simp [h2, hst] at hi hkr
      rcases hkr with ⟨h3, h4⟩
      simp [h3] at hi
      rcases h4 with h4 | h4
      · exact h4 hi.1
      · exact h4 hi.2
  | cons g gs =>
    have := (getDB_allow ha (handlerGate_first hgs hg)).1
    rw [hc] at this; cases this

/-! ### the system database -/

/-- **Intended property, FALSE for the code as it is**: "with the system database selected no data-writing RPC passes
the gate". Refuted by `sysdb_writable_witness`; what does hold is `sysdb_not_writable_partial` + `sysdb_exceptions_exact`.

  theorem sysdb_not_writable (cfg) (c) (r) (ha : cfg.auth = true) (hs : c.db = .system)
      (he : effect? r.handler = some .writesData) : rpcGate cfg c r ≠ .allow
-/
theorem sysdb_writable_witness :
    ∃ (c : Caller) (r : Gen.Rpc), r ∈ Gen.rpcs ∧ effect? r.handler = some .writesData ∧ c.db = .system ∧
      rpcGate authOnCfg c r = .allow :=
  ⟨sysadminOnSystemDb, ⟨"DocumentService", "InsertDocuments", "InsertDocuments", false⟩,
    by decide, by decide, rfl, by decide⟩

/-- With the system database selected, every data-writing RPC OUTSIDE the explicit exception list is refused, for
every caller (also the sysadmin). -/
theorem sysdb_not_writable_partial (cfg : Config) (c : Caller) (r : Gen.Rpc) (ha : cfg.auth = true)
    (hs : c.db = .system) (he : effect? r.handler = some .writesData)
    (hx : r.handler ∉ sysdbWriteExceptions) : rpcGate cfg c r ≠ .allow := by
  intro h
  have hchk : effectTable.all (fun ne => sysdbRowOk ne.1 ne.2) = true := by decide
  have hrow := effect_row (P := sysdbRowOk) hchk he
  obtain ⟨_, hd, hh, hg⟩ := rpcGate_allow h
  have hx' : sysdbWriteExceptions.contains r.handler = false := by
    cases hcn : sysdbWriteExceptions.contains r.handler
    · rfl
    · exact absurd (by simpa using hcn) hx
  simp only [sysdbRowOk, hh, hx'] at hrow
  cases hgs : hd.dbGates with
  | nil => simp [hgs] at hrow
  | cons g gs =>
    simp [hgs] at hrow
    have := (getDB_allow ha (handlerGate_first hgs hg)).2.2.2.2 hs
    rw [hrow] at this; cases this

/-- The exception list is exact: each entry is a data-writing RPC that the gate really lets the sysadmin call with the
system database selected (one finding per entry; confirmed on the real server by the harness for the document RPCs
and the session SQL transaction). -/
theorem sysdb_exceptions_exact :
    ∀ n ∈ sysdbWriteExceptions, effect? n = some .writesData ∧
      ∃ r ∈ Gen.rpcs, r.handler = n ∧ rpcGate authOnCfg sysadminOnSystemDb r = .allow := by
  have h : sysdbWriteExceptions.all sysdbExceptionWitnessed = true := by decide
  intro n hn
  have := List.all_eq_true.mp h n hn
  simp only [sysdbExceptionWitnessed, Bool.and_eq_true] at this
  obtain ⟨h1, h2⟩ := this
  refine ⟨by simpa using h1, ?_⟩
  obtain ⟨r, hr, hrr⟩ := List.any_eq_true.mp h2
  simp only [Bool.and_eq_true] at hrr
  exact ⟨r, hr, by simpa using hrr.1, by simpa using hrr.2⟩

/-! ### long-lived streams: the gate of every REQUEST, not only of the call

`Gen/Streams.lean` (regenerated) records where each streaming handler evaluates `getDBFromCtx`: unconditionally at entry
and/or unconditionally in every iteration of the loop that receives from the stream. A handler that takes more than one
request per stream (`multiRequest`: bidirectional, or answering inside its receive loop) must evaluate the gate for EVERY
received request: hoisting it out of the loop, caching its result, or putting it under a condition empties `loopGates`
and re-opens the theorems below. -/

/-- Every streaming RPC of the served descriptors has a row of gate-position facts, and no row is stale. -/
theorem every_stream_has_gate_facts :
    (∀ r ∈ Gen.rpcs, r.stream = true → (streamGate? r.handler).isSome = true) ∧
    (∀ g ∈ Gen.streamGates, ∃ r ∈ Gen.rpcs, r.stream = true ∧ r.handler = g.handler) := by
  have h1 : Gen.rpcs.all (fun r => !r.stream || (streamGate? r.handler).isSome) = true := by decide
  have h2 : Gen.streamGates.all (fun g => Gen.rpcs.any (fun r => r.stream && r.handler == g.handler)) = true := by decide
  constructor
  · intro r hr hs
    have := List.all_eq_true.mp h1 r hr
    simpa [hs] using this
  · intro g hg
    obtain ⟨r, hr, he⟩ := List.any_eq_true.mp (List.all_eq_true.mp h2 g hg)
    simp only [Bool.and_eq_true] at he
    exact ⟨r, hr, he.1, by simpa using he.2⟩

/-- Every streaming handler that uses `getDBFromCtx` evaluates it UNCONDITIONALLY before it serves anything: before the
first receive/send/loop, or in every iteration of its receive loop. -/
theorem stream_gated_before_serving : ∀ g ∈ Gen.streamGates, streamEntryOk g = true := by
  have h : Gen.streamGates.all streamEntryOk = true := by decide
  exact fun g hg => List.all_eq_true.mp h g hg

/-- **Every handler that receives more than one request per stream gates every request**: its receive loop evaluates,
on the unconditional path between the receive and the answer, a non-empty list of `getDBFromCtx` gates, each with a row in
`methodsPermissions` and each one of the gates of that handler. -/
theorem multi_request_stream_gates_every_request :
    ∀ g ∈ Gen.streamGates, multiRequest g = true →
      g.recvLoop = true ∧ g.loopGates ≠ [] ∧ ∀ n ∈ g.loopGates, (permsOf n).isSome = true := by
  have h : Gen.streamGates.all streamRowOk = true := by decide
  intro g hg hm
  have hok := List.all_eq_true.mp h g hg
  simp only [streamRowOk, hm, Bool.not_true, Bool.false_or, Bool.and_eq_true] at hok
  obtain ⟨⟨hl, hne⟩, hall⟩ := hok
  refine ⟨hl, ?_, ?_⟩
  · intro he; simp [he] at hne
  · intro n hn
    have := List.all_eq_true.mp hall n hn
    simp only [Bool.and_eq_true] at this
    exact this.1

/-- **Withdrawal reaches open streams.** A further request on an open multi-request stream is served only if the
credential is one the server accepts NOW, a database is selected, and the caller is the sysadmin or holds NOW a
permission that `methodsPermissions` lists for one of the handler's gates — whatever held when the stream was opened. -/
theorem stream_request_needs_current_permission (cfg : Config) (c : Caller) (g : Gen.StreamGate)
    (hg : g ∈ Gen.streamGates) (hm : multiRequest g = true) (ha : cfg.auth = true)
    (h : streamNextGate cfg c g = .allow) :
    credsOk c = true ∧ c.db ≠ .none ∧
      ∃ n ∈ g.loopGates, c.sysadmin = true ∨ hasPermissionForMethod c.permSel n = true := by
  have hall : Gen.streamGates.all streamRowOk = true := by decide
  obtain ⟨n, hn, _, hv⟩ := streamNextGate_allow (List.all_eq_true.mp hall g hg) hm h
  have := getDB_allow ha hv
  exact ⟨this.1, this.2.1, n, hn, this.2.2.2.1⟩

/-- … and for a multi-request stream that returns / changes database contents that permission is at least R / RW. -/
theorem stream_request_effect_permission (cfg : Config) (c : Caller) (g : Gen.StreamGate)
    (hg : g ∈ Gen.streamGates) (hm : multiRequest g = true) (ha : cfg.auth = true)
    (h : streamNextGate cfg c g = .allow) :
    (effect? g.handler = some .readsData → c.sysadmin = true ∨ c.permSel ∈ rCodes) ∧
    (effect? g.handler = some .writesData → c.sysadmin = true ∨ c.permSel ∈ rwCodes) := by
  have hall : Gen.streamGates.all streamRowOk = true := by decide
  have heff : Gen.streamGates.all streamEffectOk = true := by decide
  obtain ⟨n, hn, _, hv⟩ := streamNextGate_allow (List.all_eq_true.mp hall g hg) hm h
  have hp := (getDB_allow ha hv).2.2.2.1
  have he := List.all_eq_true.mp heff g hg
  simp only [streamEffectOk, hm, Bool.not_true, Bool.false_or] at he
  have hrow := List.all_eq_true.mp he n hn
  constructor
  · intro hr
    rcases hp with hs | hp
    · exact Or.inl hs
    · simp only [hr] at hrow
      exact Or.inr (permsWithin_spec hrow hp)
  · intro hw
    rcases hp with hs | hp
    · exact Or.inl hs
    · simp only [hw] at hrow
      exact Or.inr (permsWithin_spec hrow hp)

/-! ### non-vacuity: the hypotheses are satisfiable and the gate really distinguishes -/

private def rSet : Gen.Rpc := ⟨"ImmuService", "Set", "Set", false⟩
private def rGet : Gen.Rpc := ⟨"ImmuService", "Get", "Get", false⟩
private def user (p : Nat) : Caller :=
  { kind := .token, state := .valid, db := .user, sysadmin := false, permSel := p, permNamed := p,
    anyAdmin := false, tx := false, multiLogin := false, sqlPriv := true }

example : rSet ∈ Gen.rpcs ∧ effect? rSet.handler = some .writesData := by decide
example : rpcGate authOnCfg (user Gen.permissionRW) rSet = .allow := by decide
example : rpcGate authOnCfg (user Gen.permissionR) rSet = .denyPerm := by decide
example : rpcGate authOnCfg (user Gen.permissionR) rGet = .allow := by decide
example : rpcGate authOnCfg (user Gen.permissionNone) rGet = .denyPerm := by decide
example : rpcGate authOnCfg { user Gen.permissionRW with state := .stale } rSet = .denyAuth := by decide
example : rpcGate authOnCfg { user Gen.permissionRW with db := .system } rSet = .denyPerm := by decide
example : rpcGate authOnCfg { user Gen.permissionAdmin with db := .none }
    ⟨"ImmuService", "UnloadDatabase", "UnloadDatabase", false⟩ = .allow := by decide
example : rpcGate authOnCfg (user Gen.permissionRW)
    ⟨"ImmuService", "UnloadDatabase", "UnloadDatabase", false⟩ = .denyPerm := by decide
example : credsOk { user 2 with kind := .none } = false := rfl

-- streams: a multi-request stream exists, and its per-request gate follows the CURRENT credential
private def gExp : Gen.StreamGate := ⟨"StreamExportTx", true, true, true, true, ["ExportTx"], []⟩
example : gExp ∈ Gen.streamGates ∧ multiRequest gExp = true := by decide
example : streamNextGate authOnCfg (user Gen.permissionAdmin) gExp = .allow := by decide
example : streamNextGate authOnCfg (user Gen.permissionR) gExp = .denyPerm := by decide
example : streamNextGate authOnCfg { user Gen.permissionAdmin with state := .stale } gExp = .denyAuth := by decide
example : ∃ g ∈ Gen.streamGates, multiRequest g = false ∧
    streamNextGate authOnCfg { user Gen.permissionRW with state := .stale } g = .allow := by decide

end ImmuModel.Props.C18
