/-
C07 — Replication reproduces exactly the primary's history, nothing else.
ONLY property theorems + non-vacuity examples.  `hs : Hs D` is an ARBITRARY hash with a fixed-width
injective digest encoding; nothing is assumed about `H`: security conclusions are `… ∨ HColl hs`.

Models (they mirror the code that exists, error classes and order of checks included):
  ImmuModel/Tx/Export.lean      the wire format: `ExportTx` writer, `ReplicateTx` parser (every length field
                                behind its own check since the repair of the framing: no run-time panic left,
                                `replicateTx_parser_never_panics`)
  ImmuModel/Store/Replica.lean  the replica store: `ReplicateTx` → `precommit` with a supplied header →
                                `performPrecommit`, `sync`/`mayCommit`, `DiscardPrecommittedTxsSince`,
                                `AllowCommitUpto` (store and database level), close/reopen with re-loading
  ImmuModel/Store/SyncRepl.lean the acknowledgement protocol of synchronous replication
                                (`mayUpdateReplicaState`, `ExportTxByID` state checks, one `fetchNextTx` round)
  ImmuModel/Store/ReplicaSpec.lean  vocabulary: operation sequences, genuine history, `SameTx`.
  ImmuModel/Store/ReplicaDisk.lean  the replica store WITH ITS DISK: which tx-log records are fsynced (`fs`), the
                                watermark wait (`durableReached`), close/reopen and power loss (`crash`) on that
                                disk, and `AckOnDisk`: the acknowledged prefix (first `durable` records of the chain
                                = what `PrecommittedAlh()` reports to the primary, what `ReplicateTx` returned for)
                                consists of committed and FSYNCED live records.

THE PROPERTY SENTENCE "an exported transaction … whose content was altered is rejected without
effect" IS NOT TRUE OF THE CODE AS WRITTEN and is therefore not a theorem here.  What IS proved:
altered entries are rejected when the integrity check is on (`replica_rejects_altered_entries`),
non-extending deliveries are rejected without effect (`replica_rejects_nonextending`), bytes that do
not parse are rejected without effect and never make the parser panic (`replica_rejects_unparsable`,
`replicateTx_parser_never_panics`; the malformed framings that DID panic before the repair of
`ReplicateTx` are the rejected inputs of `replica_rejects_malformed_trailer` and
`replica_rejects_cut_value_length`); what is
proved FALSE (witness theorems, each confirmed on the real code by the harness and registered in
known_findings.json): a delivery with an altered timestamp / tx metadata is accepted locally
(`altered_ts_accepted`, `altered_txmd_accepted`; design finding K3), with `skipIntegrityCheck` the
supplied `Eh` is ignored (`skip_integrity_ignores_eh`), the values-stripped form of a transaction
is accepted with the SAME accumulated hash (`values_stripped_accepted_same_alh`), a discard does not
lower a granted commit allowance (`allowance_survives_discard`).  (A transaction with `BlTxID = 0`
used to be stored with the `BlRoot` left in the pooled `Tx`; since the repair of `performPrecommit`
it gets the zero root, `replica_prefix` holds without a hypothesis on the pool and the former
counterexample run is `rereplication_from_genesis_restores_tx1`.)  The proved part of "altered
header is detected" is `altered_header_detected_partial`.

ACKNOWLEDGEMENTS ONLY COVER DURABLE STATE (section 6).  Proved: `AckOnDisk` is an invariant of every
operation sequence without close/reopen on a Synced store, from the empty store and from any state
that satisfies it (`ack_covers_only_fsynced_records`, `ack_on_disk_preserved` — `discardSince` has to
recede the watermark for this), close/reopen keeps it when everything written had been fsynced
(`restart_after_full_sync_keeps_ack_on_disk`), a power loss keeps the acknowledged prefix when no
discarded record lies in the fsynced part of the tx log (`acked_prefix_survives_crash_partial`), the
id-level protocol never reports more than the replica holds (`replica_reports_within_held`).  Proved
FALSE of the code as written (witnesses, both confirmed on the real store by the harness and
registered as known findings): close/reopen marks re-loaded records durable that were never fsynced
(`restart_marks_unfsynced_precommit_durable`), and after a discard + re-replication a power loss
brings the DISCARDED transaction back under the acknowledged id
(`discarded_record_shadows_acked_after_crash`).

SEVERAL EXPORTERS ON ONE PRIMARY (section 7; model `ImmuModel/Store/ExportConc.lean`).  A primary serves all its
replicas at once: N `ExportTx` calls on one store while clients commit.  Proved: the export is a function of the
committed transaction alone and determines it (`exports_of_same_tx_equal`, `export_determines_tx`); with one call =
one atomic read of the committed history, every answer of every exporter under every interleaving with commits is
the sequential answer (`concurrent_exports_match_sequential`); and for the one piece of `ExportTx` that is shared
between calls — the store-wide scratch buffer `_valBs` under `_valBsMux`, modelled statement by statement — any number
of calls under any schedule only ever write the values of their OWN transaction
(`scratch_buffer_export_delivers_own_values`); the same loop with the `Unlock` moved in front of the copy hands out
another call's value (`early_unlock_exports_foreign_value`).
-/
import ImmuModel.Tx.Proofs.ExportRT
import ImmuModel.Store.Proofs.ReplicaHdr
import ImmuModel.Store.Proofs.ReplicaEntries
import ImmuModel.Store.Proofs.ReplicaPrefix
import ImmuModel.Store.Proofs.SyncProofs
import ImmuModel.Store.Proofs.ReplicaMisc
import ImmuModel.Store.Proofs.ReplicaChain
import ImmuModel.Store.Proofs.AckDurable
import ImmuModel.Store.Proofs.AckCrash
import ImmuModel.Store.Proofs.SyncAck
import ImmuModel.Store.Proofs.ExportConcProofs

namespace ImmuModel.Props.C07
open ImmuModel ImmuModel.Tx ImmuModel.Merkle ImmuModel.GoInt ImmuModel.Replica ImmuModel.SyncRepl

variable {D : Type}

-- =============================================================== 1. wire format

/-- **Export/parse round trip.** What `ExportTx` writes for a transaction (values present, values
empty, or every value replaced by its digest with the truncation flag) is parsed back by
`ReplicateTx` to exactly that transaction (empty tx metadata is read back as nil), for every
header version, any metadata, any number and size of entries. -/
theorem export_parse_roundtrip (x : Parsed) (hw : x.wf = true) :
    ∃ b, exportTx x = .ok b ∧ parseExported b = .ok { x with hdr := x.hdr.norm } :=
  export_parse_roundtrip_aux x hw

/-- The trailer is optional for the parser (exports of older versions): without it the same
transaction is read, not truncated. -/
theorem export_trailer_optional (x : Parsed) (hw : x.wf = true) (ht : x.truncated = false) :
    ∃ hb, hdrBytes x.hdr = .ok hb ∧
      parseExported (beN Gen.storeLszSize hb.length ++ hb ++ x.entries.flatMap entryBytes) =
        .ok { x with hdr := x.hdr.norm } :=
  parse_without_trailer_aux x hw ht

-- =============================================================== 2. the replica holds a prefix of the primary's history

/-- **Replication reproduces the primary's history, whatever the schedule.**  From an
empty replica (same limits as the primary), after ANY sequence of operations in which every
delivered byte string is an export — with values or by digest — of some transaction of the genuine
history `P` (any order, duplicates, retries, with or without `skipIntegrityCheck`), interleaved
arbitrarily with syncs, `DiscardPrecommittedTxsSince`, `AllowCommitUpto` and close/reopen (which
re-loads discarded precommitted transactions): the transactions the replica holds, committed then
precommitted, are position by position the first transactions of `P` — same header (id, Ts, BlTxID,
BlRoot, PrevAlh, version, metadata, NEntries, Eh), same accumulated hash, same entries (with their
values, or without when replicated by digest).
(Before the repair of `performPrecommit` — `tx.header.BlRoot` was assigned only when `BlTxID > 0` and a
transaction with `BlTxID = 0` kept the `BlRoot` the pooled `Tx` held — this was provable only under a
hypothesis on the pool, `replica_prefix_partial`.) -/
theorem replica_prefix (hs : Hs D) (cfg : RCfg) (P : List (RRec D)) (hP : Genuine hs cfg P)
    (ops : List Op) (hops : DeliversOnly P ops) :
    ((RSt.init cfg : RSt D).run hs ops).chain.length ≤ P.length ∧
    ∀ i (h : i < ((RSt.init cfg : RSt D).run hs ops).chain.length) (h' : i < P.length),
      SameTx ((((RSt.init cfg : RSt D).run hs ops).chain)[i]) (P[i]) :=
  replica_prefix_aux (fun x hw => export_parse_roundtrip_aux x hw) hs cfg P hP ops hops

/-- **Re-replication from genesis restores transaction 1 (the former counterexample run).**
Deliver tx 1 and tx 2 of a genuine history (external commit allowance: both stay precommitted),
`DiscardPrecommittedTxsSince(1)` — what the replicator does when told "precommit state diverged" with
nothing committed yet — deliver tx 1 again: the replica holds exactly the primary's transaction 1
(header with `BlTxID = 0` and the zero `BlRoot`, accumulated hash, entries).  Before the repair the
stored record carried the `BlRoot` OF TRANSACTION 2, left in the pooled `Tx`. -/
theorem rereplication_from_genesis_restores_tx1 (hs : Hs D) (cfg : RCfg) (P : List (RRec D)) (hP : Genuine hs cfg P)
    (h2 : 2 ≤ P.length)
    (hcfg : cfg.synced = false ∧ cfg.extAllowance = true ∧ 2 ≤ cfg.maxActive)
    (b0 b1 : Bytes) (e0 : exportOf (P[0]'(by omega)) false = .ok b0) (e1 : exportOf (P[1]'(by omega)) false = .ok b1) :
    let st := (RSt.init cfg : RSt D).run hs [.deliver b0 false, .deliver b1 false, .discard 1, .deliver b0 false]
    ∃ r, st.chain = [r] ∧ SameTx r (P[0]'(by omega)) ∧ r.hdr.blTxID = 0 ∧ r.hdr.blRoot = zeros32 :=
  rereplication_from_genesis (fun x hw => export_parse_roundtrip_aux x hw) hs cfg P hP h2 hcfg b0 b1 e0 e1

/-- **The next genuine export is accepted** (the checks are complete): a replica holding the first
`n` transactions of `P` accepts the export of transaction `n+1`, in either form, with or without
`skipIntegrityCheck`, when the call does not have to wait for a predecessor, the precommit buffer
has a free slot and the window of active transactions is not exhausted; it then holds `n+1`. -/
theorem replica_accepts_next (hs : Hs D) (cfg : RCfg) (P : List (RRec D)) (hP : Genuine hs cfg P)
    (st : RSt D) (n : Nat) (hn : n < P.length) (tr skip : Bool)
    (hcfg : st.cfg.maxKeyLen = cfg.maxKeyLen ∧ st.cfg.maxValueLen = cfg.maxValueLen ∧ st.cfg.maxTxEntries = cfg.maxTxEntries)
    (hpre : HoldsPrefix st P n) (hwait : n ≤ st.waitDone) (hbuf : st.pre.length < st.bufCap)
    (hwin : st.cfg.synced = true → n < st.committed.length + st.cfg.maxActive)
    (hact : 0 < st.cfg.maxActive)
    (hallow : st.cfg.extAllowance = true → st.allowed ≤ n + 1)
    (b : Bytes) (hb : exportOf (P[n]) tr = .ok b) :
    ∃ r, (replicate hs st b skip).out = .ok r ∧ SameTx r (P[n]) ∧
      HoldsPrefix (replicate hs st b skip).st P (n + 1) :=
  replica_accepts_next_aux (fun x hw => export_parse_roundtrip_aux x hw) hs cfg P hP st n hn tr skip
    hcfg hpre hwait hbuf hwin hact hallow b hb

/-- **Whatever it is fed, a replica holds a well-formed chain.** For ANY sequence of operations with
ARBITRARY delivered bytes (any `skipIntegrityCheck`), interleaved with syncs, discards, allowances
and restarts, the committed-then-precommitted transactions form a well-formed chain (`ChainOK`: dense
ids, `PrevAlh` chained, `Alh` the header hash, `BlRoot` the reference Merkle root of the chain's own
accumulated hashes, `Eh` the hash of the stored entries) — or a collision of `H` is exhibited (the
alternative is only needed for restarts, which re-load records accepted on an earlier chain). -/
theorem replica_holds_wellformed_chain (hs : Hs D) (cfg : RCfg) (hk : cfg.maxKeyLen < 65536) (ops : List Op) :
    ChainOK hs ((RSt.init cfg : RSt D).run hs ops).chain ∨ HColl hs :=
  replica_chain_ok hs cfg hk ops

/-- **A matching accumulated hash means the same history (adversarial deliveries).** If, after ANY
sequence of operations with arbitrary deliveries, the accumulated hash the replica holds at position
`n` equals the one of the genuine history `P` — the comparison `db.AllowCommitUpto(txID, alh)` and
the state checks of `ExportTxByID` make — then the replica's first `n` transactions are `P`'s:
same header content (id, PrevAlh, Ts, version, metadata, NEntries, Eh, BlTxID, BlRoot), same
accumulated hashes, same entries (keys, serialised kv-metadata, value hashes) — or a collision of
`H` is exhibited.  Together with `values_stripped_accepted_same_alh`: everything EXCEPT the
presence of the values. -/
theorem replica_agrees_upto_matching_alh (hs : Hs D) (cfg : RCfg) (hk : cfg.maxKeyLen < 65536)
    (P : List (RRec D)) (hP : Genuine hs cfg P) (ops : List Op) (n : Nat) (h0 : 0 < n)
    (hnR : n ≤ ((RSt.init cfg : RSt D).run hs ops).chain.length) (hnP : n ≤ P.length)
    (heq : ((((RSt.init cfg : RSt D).run hs ops).chain)[n - 1]'(by omega)).alh = (P[n - 1]'(by omega)).alh) :
    (∀ i (h : i < n),
        HdrSame ((((RSt.init cfg : RSt D).run hs ops).chain)[i]'(by omega)).hdr (P[i]'(by omega)).hdr ∧
        ((((RSt.init cfg : RSt D).run hs ops).chain)[i]'(by omega)).alh = (P[i]'(by omega)).alh ∧
        ((((RSt.init cfg : RSt D).run hs ops).chain)[i]'(by omega)).entries.map REntry.dcore =
          (P[i]'(by omega)).entries.map REntry.dcore)
      ∨ HColl hs :=
  replica_agrees_upto_matching_alh_aux hs cfg hk P hP ops n h0 hnR hnP heq

-- =============================================================== 3. what is rejected, without effect

/-- **A delivery that does not extend the replica's chain is rejected without effect**: another id
than `precommitted + 1`, another `PrevAlh` than the replica's last accumulated hash, or another
`BlRoot` than the replica's binary-linking root at `BlTxID` ⇒ an error, and NOTHING changes. -/
theorem replica_rejects_nonextending (hs : Hs D) (st : RSt D) (b : Bytes) (skip : Bool) (p : Parsed)
    (hp : parseExported b = .ok p) (h : NonExtending hs st p) :
    (∃ e, (replicate hs st b skip).out = .error e) ∧ (replicate hs st b skip).st = st :=
  replicate_rejects_nonextending hs st b skip p hp h

/-- Bytes that do not parse are rejected without effect. -/
theorem replica_rejects_unparsable (hs : Hs D) (st : RSt D) (b : Bytes) (skip : Bool) (e : XErr)
    (hp : parseExported b = .error e) :
    (replicate hs st b skip).out = .error e ∧ (replicate hs st b skip).st = st :=
  replicate_rejects_unparsable hs st b skip e hp

/-- **The framing parser of `ReplicateTx` never panics**, whatever the bytes: together with
`replica_rejects_unparsable`, a delivery that does not parse is an error and nothing else.
(Before the repair of the framing three malformed shapes ended in a Go run-time panic; they are the
next two theorems.) -/
theorem replicateTx_parser_never_panics (b : Bytes) : parseExported b ≠ .error .panic :=
  parseExported_never_panics b

/-- **Malformed trailer: rejected without effect.** A genuine export whose trailer is replaced by ONE
byte (`Uint16` of a 1-byte slice, formerly a panic) is `ErrIllegalArguments`; replaced by a trailer of
length 0 (`00 00 …`: `v[0]` of an empty slice, formerly a panic) it is `ErrIllegalTruncationArgument`.
In both cases NOTHING changes on the replica. -/
theorem replica_rejects_malformed_trailer (hs : Hs D) (st : RSt D) (skip : Bool) (x : Parsed) (hw : x.wf = true)
    (y : UInt8) (more : Bytes) :
    ∃ hb, hdrBytes x.hdr = .ok hb ∧
      ((replicate hs st (beN Gen.storeLszSize hb.length ++ hb ++ x.entries.flatMap entryBytes ++ [y]) skip).out
          = .error .illegal ∧
       (replicate hs st (beN Gen.storeLszSize hb.length ++ hb ++ x.entries.flatMap entryBytes ++ [y]) skip).st = st) ∧
      ((replicate hs st (beN Gen.storeLszSize hb.length ++ hb ++ x.entries.flatMap entryBytes ++ 0 :: 0 :: more) skip).out
          = .error .illegalTruncation ∧
       (replicate hs st (beN Gen.storeLszSize hb.length ++ hb ++ x.entries.flatMap entryBytes ++ 0 :: 0 :: more) skip).st = st) := by
  obtain ⟨hb, h1, h2, h3⟩ := parse_malformed_trailer_aux x hw y more
  exact ⟨hb, h1, replicate_rejects_unparsable hs st _ skip _ h2, replicate_rejects_unparsable hs st _ skip _ h3⟩

/-- **Export cut inside a value length: rejected without effect.** A genuine export cut inside the
`vLen` field of its last entry, that entry carrying kv-metadata (the bound checked before the key does
not account for the metadata: `Uint32(exportedTx[i:])` read past the end, formerly a panic), is
`ErrIllegalArguments` and NOTHING changes on the replica. -/
theorem replica_rejects_cut_value_length (hs : Hs D) (st : RSt D) (skip : Bool) (x : Parsed) (hw : x.wf = true)
    (es : List PEntry) (e : PEntry) (m : KVMd) (hx : x.entries = es ++ [e]) (hm : e.md = some m)
    (cut : Bytes) (hc : cut.length < Gen.storeLszSize) :
    ∃ hb, hdrBytes x.hdr = .ok hb ∧
      (replicate hs st (beN Gen.storeLszSize hb.length ++ hb ++ es.flatMap entryBytes ++
        (beN Gen.storeSszSize e.key.length ++ e.key ++
         beN Gen.storeSszSize (kvmdBytes m).length ++ kvmdBytes m ++ cut)) skip).out = .error .illegal ∧
      (replicate hs st (beN Gen.storeLszSize hb.length ++ hb ++ es.flatMap entryBytes ++
        (beN Gen.storeSszSize e.key.length ++ e.key ++
         beN Gen.storeSszSize (kvmdBytes m).length ++ kvmdBytes m ++ cut)) skip).st = st := by
  obtain ⟨hb, h1, h2⟩ := parse_cut_value_length_aux x hw es e m hx hm cut hc
  exact ⟨hb, h1, replicate_rejects_unparsable hs st _ skip _ h2⟩

/-- Every rejection leaves the state untouched, EXCEPT the two errors raised after the record was
already written to the tx log: `ErrBufferIsFull` (`cLogBuf.put`; the record is re-loaded by the
next open — `buffer_full_rejection_is_reloaded`) and a failing `mayCommit`. -/
theorem replica_rejection_keeps_state (hs : Hs D) (st : RSt D) (b : Bytes) (skip : Bool) (e : XErr)
    (he : (replicate hs st b skip).out = .error e) (h1 : e ≠ .bufferFull) (h2 : e ≠ .bufferConsumed) :
    (replicate hs st b skip).st = st :=
  replicate_error_keeps_state hs st b skip e he h1 h2

/-- **Witness: a delivery rejected with ErrBufferIsFull is not without effect.** It leaves the
in-memory state unchanged but the record is in the tx log; after close/reopen it is a precommitted
transaction (shown for a tx log holding nothing else after the last committed transaction). -/
theorem buffer_full_rejection_is_reloaded (hs : Hs D) (st : RSt D) (b : Bytes) (skip : Bool) (p : Parsed)
    (r : RRec D) (hp : parseExported b = .ok p) (hok : precommit hs st p skip = .ok r)
    (hfull : st.pre.length ≥ st.bufCap) (hlog : st.log = []) :
    (replicate hs st b skip).out = .error .bufferFull ∧
    (replicate hs st b skip).st.lastPre = st.lastPre ∧
    (restart hs (replicate hs st b skip).st).pre = [r] := by
  obtain ⟨h1, h2⟩ := replicate_buffer_full hs st b skip p r hp hok hfull
  have hf := precommit_stored_fields hs st p skip r hok
  refine ⟨h1, by rw [h2]; rfl, ?_⟩
  rw [h2]
  have hpre0 : st.pre = [] := by simp [RSt.pre, hlog]
  have hl : st.lastPre = st.committed.length := by simp [RSt.lastPre, hpre0]
  have hch : st.chain = st.committed := by simp [RSt.chain, hpre0]
  refine (restart_reloads_ghost hs { st with ghost := some r } r hlog rfl ?_ ?_).1
  · show r.hdr.id = st.committed.length + 1
    rw [hf.1, hl]
  · show r.hdr.prevAlh = hs.enc (lastAlh hs st.committed)
    rw [hf.2.2.2.2.2.2.2.1]
    show hs.enc (lastAlh hs st.chain) = _
    rw [hch]

/-- **`Eh` binds the entries.** -/
theorem entries_hash_binds_entries (hs : Hs D) (v : Int) (es es' : List REntry) (eh : D)
    (hl : es.length = es'.length) (hf : ∀ e ∈ es, e.Fits) (hf' : ∀ e ∈ es', e.Fits)
    (h1 : ehOf hs v es = .ok eh) (h2 : ehOf hs v es' = .ok eh) :
    es.map REntry.dcore = es'.map REntry.dcore ∨ HColl hs :=
  ehOf_binds hs v es es' eh hl hf hf' h1 h2

theorem value_hash_binds_value (hs : Hs D) (v v' : Bytes) (h : hs.enc (hs.H v) = hs.enc (hs.H v')) :
    v = v' ∨ HColl hs :=
  hval_binds_value hs v v' h

/-- **Altered entries are rejected (integrity check on).** If the supplied header's `Eh` is the
entries hash of the entries `es0` the primary committed and the delivery is ACCEPTED with
`skipIntegrityCheck = false`, the stored entries have exactly the keys, serialised kv-metadata and
value hashes of `es0`, in the same order (or a collision of `H` is exhibited).  Contrapositive: an
export with an altered, added, removed or reordered key / kv-metadata / value (a value is bound by
its hash: `value_hash_binds_value`) or another `NEntries` is rejected — and then without effect
(`replica_rejection_keeps_state`: the rejecting error is `ErrIllegalArguments`). -/
theorem replica_rejects_altered_entries (hs : Hs D) (st : RSt D) (p : Parsed) (r : RRec D)
    (es0 : List REntry) (eh0 : D)
    (h0 : ehOf hs p.hdr.version es0 = .ok eh0) (hEh : p.hdr.eh = hs.enc eh0)
    (hn : p.hdr.nentries = (es0.length : Int)) (hf0 : ∀ e ∈ es0, e.Fits)
    (hkey : st.cfg.maxKeyLen < 65536)
    (hok : precommit hs st p false = .ok r) :
    r.entries.map REntry.dcore = es0.map REntry.dcore ∨ HColl hs :=
  precommit_binds_entries hs st p r es0 eh0 h0 hEh hn hf0 hkey hok

-- =============================================================== 4. altered headers (K3)

/-- **The accumulated hash binds the whole header** (id, PrevAlh, Ts, version, metadata, NEntries,
Eh, BlTxID, BlRoot), or exhibits a collision: this is why comparing accumulated hashes
(`AllowCommitUpto(txID, alh)`, the state checks of `ExportTxByID`) detects any header alteration. -/
theorem accumulated_hash_binds_header (hs : Hs D) (h h' : TxHdr) (a : D) (hf : HdrFits h) (hf' : HdrFits h')
    (e1 : alhH hs h = .ok a) (e2 : alhH hs h' = .ok a) : HdrSame h h' ∨ HColl hs :=
  alhH_binds hs h h' a hf hf' e1 e2

/-- **K3 witness (the negation of "altered ⇒ rejected").** Whenever a delivery is accepted, the same
delivery with ANY other timestamp in its header is accepted too, and the altered timestamp is what
the replica stores. -/
theorem altered_ts_accepted (hs : Hs D) (st : RSt D) (p : Parsed) (skip : Bool) (ts' : Int) (r : RRec D)
    (hok : precommit hs st p skip = .ok r) :
    ∃ r', precommit hs st { p with hdr := { p.hdr with ts := ts' } } skip = .ok r' ∧
      r'.hdr = { r.hdr with ts := ts' } ∧ r'.entries = r.entries :=
  precommit_ts_irrelevant hs st p skip ts' r hok

/-- K3 witness for the transaction metadata: any serialisable metadata is accepted. -/
theorem altered_txmd_accepted (hs : Hs D) (st : RSt D) (p : Parsed) (skip : Bool) (md' : Option TxMd)
    (b' : Bytes) (r : RRec D) (hn : p.hdr.nentries ≠ 0) (hmd : mdBytesOpt md' = .ok b')
    (hok : precommit hs st p skip = .ok r) :
    ∃ r', precommit hs st { p with hdr := { p.hdr with md := md' } } skip = .ok r' ∧
      r'.hdr = { r.hdr with md := md' } ∧ r'.entries = r.entries :=
  precommit_txmd_irrelevant hs st p skip md' b' r hn hmd hok

/-- An altered timestamp changes the accumulated hash (or exhibits a collision). -/
theorem altered_header_changes_alh (hs : Hs D) (h : TxHdr) (ts' : Int) (a a' : D) (hf : HdrFits h)
    (hts' : InI64 ts') (hne : ts' ≠ h.ts) (e1 : alhH hs h = .ok a)
    (e2 : alhH hs { h with ts := ts' } = .ok a') : a ≠ a' ∨ HColl hs :=
  alhH_ts_changes hs h ts' a a' hf hts' hne e1 e2

/-- **The provable part of "an altered header is detected".**  FULL STATEMENT OF THE PROPERTY (not
provable, refuted by `altered_ts_accepted`): "an exported transaction whose content was altered is
rejected without effect".  PROVED: if the genuine delivery `p` would be accepted as record `r`
(what the primary holds), the delivery with an altered timestamp is accepted LOCALLY as `r'`, but
(1) its accumulated hash differs from the primary's (or a collision is exhibited); consequently,
once `r'` is the replica's precommitted transaction, (2) the primary's announcement
`AllowCommitUpto(id, primary's Alh)` is refused with ErrIllegalState and changes nothing — with
synchronous replication the altered transaction is never committed — and (3) every delivery whose
`PrevAlh` is the primary's accumulated hash, i.e. the genuine successor, is rejected.
MISSING for the full statement: rejection at delivery time; without the external commit allowance
(asynchronous replication) `r'` is committed at once. -/
theorem altered_header_detected_partial (hs : Hs D) (st : RSt D) (p : Parsed) (skip : Bool) (ts' : Int)
    (r : RRec D) (hok : precommit hs st p skip = .ok r) (hf : HdrFits r.hdr) (hts : InI64 ts')
    (hne : ts' ≠ p.hdr.ts) :
    ∃ r', precommit hs st { p with hdr := { p.hdr with ts := ts' } } skip = .ok r' ∧
      ((r'.alh ≠ r.alh ∧
        (∀ st' : RSt D, st'.committed.length < r'.hdr.id → st'.chain[r'.hdr.id - 1]? = some r' →
          (dbAllowCommitUpto hs st' r'.hdr.id (hs.enc r.alh)).out = .error .illegalState ∧
          (dbAllowCommitUpto hs st' r'.hdr.id (hs.enc r.alh)).st = st') ∧
        (∀ (st' : RSt D) (q : Parsed) (sk : Bool), st'.preAlh hs = r'.alh → q.hdr.prevAlh = hs.enc r.alh →
          ∃ e, precommit hs st' q sk = .error e))
       ∨ HColl hs) := by
  obtain ⟨r', h1, h2, _⟩ := precommit_ts_irrelevant hs st p skip ts' r hok
  refine ⟨r', h1, ?_⟩
  have ha := precommit_alh hs st p skip r hok
  have ha' := precommit_alh hs st _ skip r' h1
  have hts0 : r.hdr.ts = p.hdr.ts := (precommit_stored_fields hs st p skip r hok).2.2.1
  rw [h2] at ha'
  rcases alhH_ts_changes hs r.hdr ts' r.alh r'.alh hf hts (by rw [hts0]; exact hne) ha ha' with hd | hc
  · left
    have hd' : r'.alh ≠ r.alh := fun e => hd e.symm
    have henc : hs.enc r'.alh ≠ hs.enc r.alh := fun e => hd' (hs.enc_inj _ _ e)
    refine ⟨hd', ?_, ?_⟩
    · intro st' hc' hr
      exact dbAllow_refuses_other_alh hs st' r'.hdr.id (hs.enc r.alh) r' hc' hr henc
    · intro st' q sk hpa hq
      apply precommit_rejects_nonextending
      right; left
      rw [hq, hpa]
      exact fun e => henc e.symm
  · exact Or.inr hc

-- =============================================================== 5. further witnesses of accepted alterations

/-- **Witness: `skipIntegrityCheck` disables the entries check** — the supplied `Eh` plays no role. -/
theorem skip_integrity_ignores_eh (hs : Hs D) (st : RSt D) (p : Parsed) (eh' : Bytes) (r : RRec D)
    (hok : precommit hs st p true = .ok r) :
    precommit hs st { p with hdr := { p.hdr with eh := eh' } } true = .ok r :=
  precommit_skip_ignores_eh hs st p eh' r hok

/-- **Witness: values can be stripped in transit.** The export of the same transaction with every
value replaced by its digest and the truncation flag set (the form a primary uses after
`TruncateUptoTx`) is accepted whenever the with-values export is, with the SAME stored header and
the SAME accumulated hash: the replica then holds the transaction without values and no Alh
comparison can tell. -/
theorem values_stripped_accepted_same_alh (hs : Hs D) (st : RSt D) (p : Parsed) (skip : Bool) (r : RRec D)
    (ht : p.truncated = false) (hok : precommit hs st p skip = .ok r) :
    ∃ r', precommit hs st (stripValues hs p) skip = .ok r' ∧ r'.hdr = r.hdr ∧ r'.alh = r.alh ∧
      r'.entries = r.entries.map REntry.strip :=
  precommit_stripped_same hs st p skip r ht hok

/-- **Witness: a discard does not lower a granted allowance.** `DiscardPrecommittedTxsSince` leaves
`commitAllowedUpToTxID` as it is, so on a Synced store (where `AllowCommitUpto` only records the
allowance) the allowance can point beyond what is precommitted; transactions precommitted later
under those ids are committed without a new allowance. -/
theorem allowance_survives_discard (st : RSt D) (txID : Nat) :
    (discardSince st txID).st.allowed = st.allowed := by
  unfold discardSince
  split
  · rfl
  · split
    · rfl
    · split <;> rfl

-- =============================================================== 6. synchronous replication

/-- **The primary commits only what enough replicas durably hold.** In every reachable state of the
acknowledgement protocol — any interleaving of client writes, primary commits, fetch rounds of the
replicas in any order (with or without replicating), replica syncs and discards — a transaction
`n` beyond the initial commit point is committed on the primary only if at least `syncAcks`
DISTINCT replicas have informed the primary of a durably precommitted id `≥ n`. -/
theorem primary_commit_needs_acks (s0 : Sys) (c0 : Nat) (h0 : s0.Init c0) (evs : List Ev) (n : Nat)
    (h1 : c0 < n) (h2 : n ≤ (s0.run evs).prim.committed) :
    Acked (s0.run evs).reports n (s0.run evs).prim.syncAcks :=
  primary_commit_needs_acks_aux s0 c0 h0 evs n h1 h2

/-- **A replica commits only after the primary did**: what a replica has committed never exceeds
its allowance, and its allowance never exceeds what the primary has committed. -/
theorem replica_commit_after_primary (s0 : Sys) (c0 : Nat) (h0 : s0.Init c0) (evs : List Ev) :
    ∀ r ∈ (s0.run evs).repls, r.committed ≤ r.allowed ∧ r.allowed ≤ (s0.run evs).prim.committed :=
  replica_commit_after_primary_aux s0 c0 h0 evs

/-- The primary commits within its allowance and within what it has precommitted. -/
theorem primary_commit_within_allowance (s0 : Sys) (c0 : Nat) (h0 : s0.Init c0) (evs : List Ev) :
    (s0.run evs).prim.committed ≤ (s0.run evs).prim.allowed ∧ (s0.run evs).prim.allowed ≤ (s0.run evs).prim.pre :=
  primary_commit_within_allowance_aux s0 c0 h0 evs

/-- What replicas inform never exceeds what the primary has precommitted. -/
theorem reports_bounded (s0 : Sys) (c0 : Nat) (h0 : s0.Init c0) (evs : List Ev) :
    ∀ x ∈ (s0.run evs).reports, x.2 ≤ (s0.run evs).prim.pre :=
  reports_bounded_aux s0 c0 h0 evs

-- =============================================================== 6. acknowledgements only cover durable state

/-- **The watermark never runs ahead of the disk.** On a Synced store, after ANY sequence of
deliveries of arbitrary bytes, syncs, discards, allowances and power losses (no close/reopen, see
`restart_marks_unfsynced_precommit_durable`), the acknowledged prefix of the chain — its first
`durable` records: what `PrecommittedAlh()` reports to the primary, what `ReplicateTx` has returned
for, what `WaitForTx(id, allowPrecommitted)` lets pass — lies between the committed and the
in-memory precommitted state and consists of committed records and FSYNCED live records of the tx
log.  In particular after a discard and the re-replication of the same ids the new records are not
acknowledged before the next fsync. -/
theorem ack_covers_only_fsynced_records (hs : Hs D) (cfg : RCfg) (hsy : cfg.synced = true) (ops : List DOp)
    (hno : DOp.restart ∉ ops) : AckOnDisk ((DSt.init cfg : DSt D).run hs ops) :=
  AckDurableAux.ackOnDisk_of_num (AckDurableAux.num_run hs ops _ hsy (AckDurableAux.num_init cfg) hno).1

/-- The same as a step property, from ANY state that satisfies it. -/
theorem ack_on_disk_preserved (hs : Hs D) (d : DSt D) (hsy : d.st.cfg.synced = true) (h : AckOnDisk d)
    (op : DOp) (hop : op ≠ .restart) : AckOnDisk (d.apply hs op) :=
  AckDurableAux.ackOnDisk_of_num (AckDurableAux.num_apply hs d hsy (AckDurableAux.num_of_ackOnDisk h) op hop).1

/-- The wait inside `ReplicateTx` / `WaitForTx(id, allowPrecommitted)` passes exactly for the ids
the watermark has reached. -/
theorem wait_passes_iff_within_watermark (st : RSt D) (id : Nat) :
    st.durableReached id = true ↔ id ≤ st.durable := by
  unfold RSt.durableReached
  exact decide_eq_true_iff

/-- Close/reopen keeps the invariant when every record written so far had been fsynced. -/
theorem restart_after_full_sync_keeps_ack_on_disk (hs : Hs D) (d : DSt D) (hfs : d.fs = d.st.log.length)
    (hg : d.st.ghost = none ∨ d.gfs = true) : AckOnDisk (d.restart hs) :=
  AckDurableAux.ackOnDisk_of_num (AckDurableAux.num_restart_of_synced hs d hfs hg)

/-- **Finding (witness of the negation for close/reopen).** A precommitted record that was written
and never fsynced, then `Close()` + `Open()`: `Open` re-loads it and marks it durable
(`durablePrecommitWHub.DoneUpto(precommittedTxID)`) although `Close` only flushed — the replica now
acknowledges a transaction a power loss would lose. -/
theorem restart_marks_unfsynced_precommit_durable (hs : Hs D) (d : DSt D) (r : RRec D)
    (hlog : d.st.log = [(r, true)]) (hg : d.st.ghost = none) (hfs : d.fs = 0)
    (hid : r.hdr.id = d.st.committed.length + 1) (hprev : r.hdr.prevAlh = hs.enc (d.st.committedAlh hs)) :
    (d.restart hs).st.durable = d.st.committed.length + 1 ∧ (d.restart hs).fs = 0 ∧ ¬ AckOnDisk (d.restart hs) :=
  AckCrashAux.restart_marks_unfsynced_durable hs d r hlog hg hfs hid hprev

/-- **A power loss keeps what was acknowledged** — PARTIAL: under the hypothesis that no discarded
record lies in the fsynced part of the tx log (e.g. no discard since the last open).  The chain is
well-formed (`replica_holds_wellformed_chain`).  The full statement (no hypothesis `hlive`) is FALSE
of the code: `discarded_record_shadows_acked_after_crash`. -/
theorem acked_prefix_survives_crash_partial (hs : Hs D) (d : DSt D) (h : AckOnDisk d) (hch : ChainOK hs d.st.chain)
    (hlive : ∀ x ∈ d.st.log.take d.fs, x.2 = true) :
    (d.crash hs).st.chain.take d.st.durable = d.st.chain.take d.st.durable ∧
    d.st.durable ≤ (d.crash hs).st.durable :=
  AckCrashAux.crash_keeps_acked hs d h hch hlive

/-- **Finding (witness).** The tx log holds, both fsynced, a DISCARDED record `ra` and behind it the
live record `rb` that was replicated under the same id afterwards (discard + re-replication + sync);
the watermark covers `rb`: the replica has acknowledged `rb`.  After a power loss `Open` re-loads
`ra` (it chains after the committed state) and stops at `rb`: the replica holds, and reports as
durably precommitted, the discarded transaction under the acknowledged id. -/
theorem discarded_record_shadows_acked_after_crash (hs : Hs D) (d : DSt D) (ra rb : RRec D)
    (hlog : d.st.log = [(ra, false), (rb, true)]) (hfs : d.fs = 2)
    (hdur : d.st.durable = d.st.committed.length + 1)
    (hid : ra.hdr.id = d.st.committed.length + 1) (hprev : ra.hdr.prevAlh = hs.enc (d.st.committedAlh hs)) :
    d.st.chain.take d.st.durable = d.st.committed ++ [rb] ∧
    (d.crash hs).st.chain.take d.st.durable = d.st.committed ++ [ra] ∧
    d.st.durable ≤ (d.crash hs).st.durable :=
  AckCrashAux.discarded_record_shadows_acked hs d ra rb hlog hfs hdur hid hprev

/-- Id level (all interleavings of the protocol): what a replica reports as durably precommitted
never exceeds what it holds — also after a discard. -/
theorem replica_reports_within_held (s0 : Sys) (c0 : Nat) (h0 : s0.Init c0) (evs : List Ev) :
    ∀ r ∈ (s0.run evs).repls, r.durable ≤ r.pre :=
  SyncAckAux.held_run evs (SyncAckAux.held_init h0)

-- =============================================================== 7. several exporters on one primary

/-- **Any two exports of the same committed transaction are the same bytes.** The writer is a function of the
committed transaction (header, entries with their values or digests, truncation flag) — of nothing else: not of the
caller, its `Tx` holder, the other calls in flight or a cache.  This is the obligation the real `ExportTx` is held to
by the harness: every answer of N concurrent exporters is compared with the sequential answer and with `exportTx` of
the committed transaction (`c15 xp.enc`). -/
theorem exports_of_same_tx_equal (x : Parsed) (b b' : Bytes) (h : exportTx x = .ok b) (h' : exportTx x = .ok b') :
    b = b' :=
  Except.ok.inj (h.symm.trans h')

/-- **The exported bytes determine the transaction**: two well-formed transactions with the same export have the same
entries — keys, kv-metadata, VALUES (or digests) —, the same truncation flag and the same header (empty tx metadata
read as nil).  Hence an export whose value bytes are another entry's is the export of ANOTHER transaction: whatever
the replica does with it, it is not reproducing the primary's. -/
theorem export_determines_tx (x y : Parsed) (hx : x.wf = true) (hy : y.wf = true) (b : Bytes)
    (ex : exportTx x = .ok b) (ey : exportTx y = .ok b) :
    x.entries = y.entries ∧ x.truncated = y.truncated ∧ x.hdr.norm = y.hdr.norm := by
  obtain ⟨bx, e1, p1⟩ := export_parse_roundtrip_aux x hx
  obtain ⟨by', e2, p2⟩ := export_parse_roundtrip_aux y hy
  have hbx : bx = b := Except.ok.inj (e1.symm.trans ex)
  have hby : by' = b := Except.ok.inj (e2.symm.trans ey)
  subst hbx
  subst hby
  have h := Except.ok.inj (p1.symm.trans p2)
  have h1 := congrArg (fun p : Parsed => p.entries) h
  have h2 := congrArg (fun p : Parsed => p.truncated) h
  have h3 := congrArg (fun p : Parsed => p.hdr) h
  exact ⟨h1, h2, h3⟩

/-- **Every answer a concurrent exporter gets is the sequential answer.** Any number of exporters asking for any tx ids
(overlapping, repeated, ids not yet committed), interleaved in ANY order with the commits of further transactions,
from any history: each answer other than "tx not found" equals what `ExportTx(id)` answers afterwards, when nothing
else runs, on the final history — because the history only grows and the answer is `exportTx` of the committed
transaction.  (One call = one atomic step: the specification of what a call may depend on.  The part of the real call
that is shared between calls is the subject of the next theorem.) -/
theorem concurrent_exports_match_sequential (P : List Parsed) (evs : List ExportConc.Ev) (g id : Nat)
    (a : Except Fault Bytes) (h : (g, id, some a) ∈ (ExportConc.run P evs).2) :
    ExportConc.exportAt (ExportConc.run P evs).1 id = some a :=
  ExportConc.ExportConcAux.answers_match_final evs P g id a h

/-- **The scratch buffer never leaks between exports (the loop as written).** `ExportTx` reads each value into the
store-wide buffer `s._valBs` and copies it from there into its own export; `s._valBsMux` is held from before the read
until after the copy.  For ANY number of concurrent calls, ANY values (longer than the scratch buffer or not) and ANY
schedule of their statements: the values a call has written to its export are always a prefix of the values of ITS
transaction, in order, and a call that has finished has written exactly those; and at most the holder of the mutex is
inside the critical section. -/
theorem scratch_buffer_export_delivers_own_values (cap : Nat) (vals : Nat → List Bytes) (sched : List Nat) (i : Nat) :
    let s := (ExportConc.Sys.init cap vals).run sched
    (s.ths i).out <+: vals i ∧
    ((s.ths i).pc = .idle → (s.ths i).todo = [] → (s.ths i).out = vals i) ∧
    ((s.ths i).pc ≠ .idle → s.owner = some i) := by
  intro s
  have hinv := ExportConc.ExportConcAux.inv_run vals sched _ (ExportConc.ExportConcAux.inv_init cap vals)
  refine ⟨⟨_, hinv.acc i⟩, fun hpc htodo => ?_, hinv.own i⟩
  have := hinv.acc i
  have hpc' : (((ExportConc.Sys.init cap vals).run sched).ths i).pc = .idle := hpc
  have htodo' : (((ExportConc.Sys.init cap vals).run sched).ths i).todo = [] := htodo
  simp only [ExportConc.ExportConcAux.rem, hpc', htodo', List.append_nil] at this
  exact this

/-- **Witness: with the mutex released before the copy, a call exports another call's value.** The same loop with
`Unlock()` moved in front of `buf.Write(valBuf)`: call 0 exports the one-byte value `01`, call 1 the value `02`;
schedule: 0 locks, reads, unlocks; 1 locks, reads (the scratch buffer now holds `02`); 0 copies.  Call 0 has finished
and its export carries `02`.  The position of the `Unlock` is what `scratch_buffer_export_delivers_own_values` hangs on. -/
theorem early_unlock_exports_foreign_value :
    let vals : Nat → List Bytes := fun i => if i = 0 then [[1]] else if i = 1 then [[2]] else []
    let s := (ExportConc.Sys.init 4096 vals).runEarlyUnlock [0, 0, 0, 1, 1, 0]
    (s.ths 0).pc = .idle ∧ (s.ths 0).todo = [] ∧ (s.ths 0).out = [[2]] ∧ (s.ths 0).out ≠ vals 0 := by
  decide

-- =============================================================== non-vacuity

/-- The empty Synced store satisfies `AckOnDisk`; the hypotheses of the two witnesses are satisfiable
(a store holding exactly the records they name). -/
example (cfg : RCfg) : AckOnDisk (DSt.init cfg : DSt D) := AckDurableAux.ackOnDisk_of_num (AckDurableAux.num_init cfg)
example (hs : Hs D) (cfg : RCfg) (r : RRec D) (hid : r.hdr.id = 1) (hp : r.hdr.prevAlh = hs.enc (hs.H [])) :
    let d : DSt D := { st := { cfg := cfg, log := [(r, true)] } }
    d.st.log = [(r, true)] ∧ d.st.ghost = none ∧ d.fs = 0 ∧ r.hdr.id = d.st.committed.length + 1 ∧
      r.hdr.prevAlh = hs.enc (d.st.committedAlh hs) := ⟨rfl, rfl, rfl, hid, hp⟩
example (hs : Hs D) (cfg : RCfg) (ra rb : RRec D) (hid : ra.hdr.id = 1) (hp : ra.hdr.prevAlh = hs.enc (hs.H [])) :
    let d : DSt D := { st := { cfg := cfg, log := [(ra, false), (rb, true)], durable := 1 }, fs := 2 }
    d.st.log = [(ra, false), (rb, true)] ∧ d.fs = 2 ∧ d.st.durable = d.st.committed.length + 1 ∧
      ra.hdr.id = d.st.committed.length + 1 ∧ ra.hdr.prevAlh = hs.enc (d.st.committedAlh hs) ∧ AckOnDisk d :=
  ⟨rfl, rfl, rfl, hid, hp, AckDurableAux.ackOnDisk_of_num ⟨Nat.le_refl _, Nat.zero_le _, by simp [RSt.lastPre, RSt.pre], by simp [ReplicaPrefixAux.live]⟩⟩

/-- The empty history is genuine; an empty replica holds its empty prefix. -/
example (hs : Hs D) (cfg : RCfg) : Genuine hs cfg ([] : List (RRec D)) := ⟨fun i h => absurd h (Nat.not_lt_zero i)⟩
example (hs : Hs D) (cfg : RCfg) : HoldsPrefix (RSt.init cfg : RSt D) ([] : List (RRec D)) 0 :=
  ⟨rfl, Nat.le_refl 0, fun i h => absurd h (Nat.not_lt_zero i)⟩

/-- A well-formed one-entry transaction whose entry carries kv-metadata (`deleted`): the hypotheses of
`replica_rejects_malformed_trailer` / `replica_rejects_cut_value_length` are satisfiable, and the
three formerly panicking shapes are rejected by the parser model as the theorems say. -/
def demoTx : Parsed :=
  { hdr := { id := 1, version := 1, nentries := 1 },
    entries := [{ key := [107], md := some { deleted := true }, payload := [118] }], truncated := false }

example : demoTx.wf = true := by decide
example : demoTx.entries = [] ++ [{ key := [107], md := some { deleted := true }, payload := [118] }] := rfl
example : ∃ hb, hdrBytes demoTx.hdr = .ok hb ∧
    parseExported (beN Gen.storeLszSize hb.length ++ hb ++ demoTx.entries.flatMap entryBytes ++ [0]) = .error .illegal ∧
    parseExported (beN Gen.storeLszSize hb.length ++ hb ++ demoTx.entries.flatMap entryBytes ++ [0, 0]) = .error .illegalTruncation ∧
    parseExported (beN Gen.storeLszSize hb.length ++ hb ++ [0, 1, 107, 0, 1, 0, 0, 0, 0]) = .error .illegal :=
  ⟨_, rfl, by decide +kernel, by decide +kernel, by decide +kernel⟩

/-- The ack protocol run: one Synced replica, 3 writes; the replica replicates, syncs, informs; the
primary commits 3; the replica is allowed 3, discards from 2: its allowance (3) exceeds what it
holds (1) — the state of `allowance_survives_discard`; the hypotheses of the sync theorems hold. -/
def demoSys : Sys :=
  { prim := { syncAcks := 1, pre := 3 }, repls := [{ uuid := "a", synced := true }] }

def demoEvs : List Ev :=
  [.fetch 0 true, .fetch 0 true, .fetch 0 true, .rSync 0, .fetch 0 false, .pCommit, .fetch 0 false, .rDiscard 0 2]

example : demoSys.Init 0 := by
  refine ⟨rfl, rfl, Nat.zero_le _, rfl, rfl, ?_⟩
  intro r hr
  simp [demoSys] at hr
  subst hr
  exact ⟨Nat.le_refl _, rfl, Nat.le_refl _, Nat.le_refl _⟩

example : ((demoSys.run demoEvs).repls.map (fun r => (r.pre, r.allowed, r.committed)), (demoSys.run demoEvs).prim.committed)
    = ([(1, 3, 0)], 3) := by decide

/-- Two concurrent exports of the loop as written, values on both sides of the scratch-buffer size (cap 2): a schedule
in which both calls finish; an event sequence with two exporters, a commit in between and an id asked for too early. -/
example :
    let vals : Nat → List Bytes := fun i => if i = 0 then [[1], [1, 2, 3]] else if i = 1 then [[2, 2]] else []
    let s := (ExportConc.Sys.init 2 vals).run [0, 1, 0, 0, 1, 0, 1, 1, 0, 1, 1, 0, 0, 0, 0]
    (s.ths 0).out = vals 0 ∧ (s.ths 1).out = vals 1 ∧ s.owner = none := by decide
example : (ExportConc.run [demoTx] [.export 0 1, .export 1 2, .commit demoTx, .export 1 2, .export 0 1]).2.map (fun a => (a.1, a.2.1, a.2.2.isSome))
    = [(0, 1, true), (1, 2, false), (1, 2, true), (0, 1, true)] := by decide

end ImmuModel.Props.C07
