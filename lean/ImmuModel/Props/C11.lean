/-
C11 — SQL query results do not depend on the physical plan (FRAGMENT model).

ONLY property theorems and non-vacuity examples live here; helper lemmas are in
ImmuModel/Sql/Proofs/Query*.lean.  Model: ImmuModel/Sql/Query.lean (mirror of predicate evaluation,
`selectorRanges`, `keyReaderSpecFrom`, index scan, OFFSET/LIMIT), vocabulary: Sql/QuerySpec.lean.
The fragment: one table, `SELECT * … USE INDEX ON (idx) WHERE p [ORDER BY idx₀ DESC] [LIMIT] [OFFSET]`,
`p` built from comparisons with constants of the column's type, IN lists, IS [NOT] NULL, boolean
columns, NOT/AND/OR.  Everything else (joins, grouping, subqueries, file sort, …) is covered by the
metamorphic oracle of the harness only.
-/
import ImmuModel.Sql.Proofs.QueryMain
import ImmuModel.Sql.Proofs.SelectPlanMain

namespace ImmuModel.Props.C11
open ImmuModel ImmuModel.Sql

/-- **Range soundness.** Whatever `selectorRanges` derives from a well-typed predicate bounds every
row on which the predicate is TRUE. -/
theorem range_sound_fragment (cols : List Col) (p : Pred) (row : Row) (m : RangeMap)
    (hp : p.wt cols = true) (hpl : p.plain = true) (hrow : rowOK cols row = true)
    (hr : p.ranges [] = .ok m) (he : p.eval row = .ok (some true)) :
    m.bounds row :=
  QueryMainAux.range_sound cols p row m hp hpl hrow hr he

/-- **Window soundness.** The key of such a row in ANY index lies inside the key window that
`keyReaderSpecFrom` builds for that index. -/
theorem window_sound_fragment (t : Table) (idx : List Nat) (p : Pred) (row : Row) (m : RangeMap)
    (lo hi k : Bytes)
    (ht : t.wf = true) (hi' : idxOK t idx = true) (hmem : row ∈ t.rows)
    (hp : p.wt t.cols = true) (hpl : p.plain = true)
    (hr : p.ranges [] = .ok m) (hb : keyBounds t.cols m idx [] [] false false = .ok (lo, hi))
    (hk : indexKey t idx row = .ok k) (he : p.eval row = .ok (some true)) :
    inWindow lo hi k = true := by
  have _ := hi'
  exact QueryMainAux.window_sound t idx p row m lo hi k ht hmem hp hpl hr hb hk he

/-- **Plan independence (range scan vs full scan of the same index).** When the predicate evaluates
without error on the table, the range-restricted scan returns exactly the list the unrestricted scan
of the same index returns — for every LIMIT/OFFSET and both directions. -/
theorem plan_independent_fragment (t : Table) (q : Query)
    (ht : t.wf = true) (hi : idxOK t q.idx = true)
    (hp : q.where_.wt t.cols = true) (hpl : q.where_.plain = true)
    (hne : noEvalErr q.where_ t.rows) (rows : List Row)
    (hfull : runFull t q = .ok rows) :
    runIndex t q = .ok rows := by
  have _ := hi
  exact QueryMainAux.plan_independent t q ht hp hpl hne rows hfull

/-- **Plan independence across indexes.** Without LIMIT/OFFSET two indexes return the same multiset:
both are permutations of the rows kept by the predicate. -/
theorem plan_independent_perm_fragment (t : Table) (p : Pred) (i1 i2 : List Nat) (d1 d2 : Bool)
    (r1 r2 : List Row)
    (h1 : runFull t { idx := i1, desc := d1, limit := 0, offset := 0, where_ := p } = .ok r1)
    (h2 : runFull t { idx := i2, desc := d2, limit := 0, offset := 0, where_ := p } = .ok r2) :
    r1.Perm r2 ∧ r1.Perm (rowsWhere p t.rows) := by
  have p1 := QueryMainAux.runFull_all_perm t p i1 d1 r1 h1
  have p2 := QueryMainAux.runFull_all_perm t p i2 d2 r2 h2
  exact ⟨p1.trans p2.symm, p1⟩

/-- **ORDER BY output is sorted.** The rows of an ascending scan come in non-decreasing order of their
index keys; a descending scan in non-increasing order. -/
theorem order_by_sorted_fragment (t : Table) (q : Query) (rows : List Row)
    (h : runIndex t q = .ok rows) :
    rows.Pairwise (fun a b => ∃ ka kb, indexKey t q.idx a = .ok ka ∧ indexKey t q.idx b = .ok kb ∧
      (if q.desc then lexLt ka kb = false else lexLt kb ka = false)) :=
  QueryMainAux.order_by_sorted t q rows h

/-- **Partition.** For a two-valued `P` (every comparison is, in this engine), splitting a query by
`P`, `NOT P` and `(P) IS NULL` partitions its result. -/
theorem partition_fragment (q P : Pred) (rows : List Row)
    (hq : twoValued q rows) (hP : twoValued P rows) :
    (rowsWhere (.and q P) rows ++ rowsWhere (.and q (.not P)) rows ++ rowsWhere (.and q (.isNullE P)) rows).Perm
      (rowsWhere q rows) :=
  QueryMainAux.partition q P rows hq hP

/-- **LIMIT/OFFSET is a slice** of the unlimited result. -/
theorem limit_offset_fragment (t : Table) (q : Query) (all : List Row)
    (hne : noEvalErr q.where_ t.rows)
    (h0 : runFull t { q with limit := 0, offset := 0 } = .ok all) :
    runFull t q = .ok (limitTake q.limit (all.drop q.offset)) := by
  have _ := hne
  exact QueryMainAux.limit_offset t q all h0


-- =============================================================== the planner (`genScanSpecs`)
-- Model: ImmuModel/Sql/SelectPlan.lean (flagged ranges, `coversOrdCols`, `selectSortingIndex`, INLJ fallback,
-- sort step), vocabulary: Sql/SelectPlanSpec.lean, helper lemmas: Sql/Proofs/SelectPlan{Range,Order,Main}.lean.

/-- **The flagged range walk is the range walk.** Forgetting the `inclusive` flags of what the planner
derives (`Pred.rangesF`) gives exactly what the scan derives (`Pred.ranges`), for every predicate and
accumulator; errors correspond too. -/
theorem rangesF_erase_fragment (p : Pred) (mF : RangeMapF) :
    (match p.rangesF mF with
      | .ok m => Except.ok m.erase
      | .error e => .error e) = p.ranges mF.erase :=
  SelectPlanMainAux.rangesF_erase_match p mF

/-- **The planner's needs-sort decision is sound.** Whatever index is chosen (hint, sorting index, primary,
equality-lookup fallback) and whether or not the sort step is dropped, the output of the planned query is
sorted by the ORDER BY list.  (`hpk`, `hsecs`, `hhint` are not used by the proof: a successful run on a
non-empty table already implies that the chosen index is over columns of the table.) -/
theorem order_by_sorted_plan_fragment (t : Table) (secs : List (List Nat)) (q : PQuery) (pl : Plan)
    (rows : List Row)
    (ht : t.wf = true) (hpk : idxOK t t.pk = true) (hsecs : ∀ ix ∈ secs, idxOK t ix = true)
    (hhint : ∀ h, q.hint = some h → idxOK t h = true)
    (hord : ∀ o ∈ q.order, o.col < t.cols.length)
    (hp : q.where_.wt t.cols = true) (hpl : q.where_.plain = true)
    (h : runPlan t secs q = .ok (pl, rows)) :
    rows.Pairwise (ordLe q.order) := by
  have _ := hpk
  have _ := hsecs
  have _ := hhint
  exact SelectPlanMainAux.order_by_sorted_plan t secs q pl rows ht hord hp hpl h

/-- **The planned query returns the rows the predicate keeps.** Without LIMIT/OFFSET the result of the
auto-chosen plan is a permutation of the rows of the table on which WHERE is TRUE.  (`noEvalErr` is not
needed: a successful run evaluated the predicate on every row inside the window, and rows outside the
window are not kept.) -/
theorem plan_rows_perm_fragment (t : Table) (secs : List (List Nat)) (q : PQuery) (pl : Plan)
    (rows : List Row)
    (ht : t.wf = true) (hp : q.where_.wt t.cols = true) (hpl : q.where_.plain = true)
    (hl : q.limit = 0) (ho : q.offset = 0)
    (h : runPlan t secs q = .ok (pl, rows)) :
    rows.Perm (rowsWhere q.where_ t.rows) :=
  SelectPlanMainAux.plan_rows_perm t secs q pl rows ht hp hpl hl ho h

/-- **The hint does not change the result.** Two runs of the same query that differ only in
`USE INDEX ON` return permutations of each other. -/
theorem plan_hint_independent_fragment (t : Table) (secs : List (List Nat)) (q : PQuery)
    (hint1 hint2 : Option (List Nat)) (pl1 pl2 : Plan) (r1 r2 : List Row)
    (ht : t.wf = true) (hp : q.where_.wt t.cols = true) (hpl : q.where_.plain = true)
    (hl : q.limit = 0) (ho : q.offset = 0)
    (h1 : runPlan t secs { q with hint := hint1 } = .ok (pl1, r1))
    (h2 : runPlan t secs { q with hint := hint2 } = .ok (pl2, r2)) :
    r1.Perm r2 :=
  SelectPlanMainAux.plan_hint_independent t secs { q with hint := hint1 } { q with hint := hint2 } pl1 pl2 r1 r2
    ht hp hpl rfl hl ho hl ho h1 h2

/-- **LIMIT/OFFSET of a planned query is a slice** of the unlimited result of the same plan (with or
without the sort step). -/
theorem plan_limit_offset_fragment (t : Table) (secs : List (List Nat)) (q : PQuery) (pl : Plan)
    (all : List Row) (h0 : runPlan t secs q.unlimited = .ok (pl, all)) :
    runPlan t secs q = .ok (pl, limitRows q.limit (all.drop q.offset)) :=
  SelectPlanMainAux.plan_limit_offset t secs q pl all h0

-- =============================================================== non-vacuity

/-- `CREATE TABLE t (id INTEGER, a INTEGER, s VARCHAR[4], PRIMARY KEY id)` with five rows, one of them
with `a IS NULL` -/
def cols0 : List Col := [⟨.integer, 8⟩, ⟨.integer, 8⟩, ⟨.varchar, 4⟩]

def tbl0 : Table :=
  { cols := cols0, pk := [0],
    rows := [[.int 1, .int 5, .str [0x62]], [.int 2, .int 1, .str [0x61]], [.int 3, .int 9, .null],
      [.int 4, .null, .str [0x63]], [.int 5, .int 5, .str []]] }

/-- `a >= 1 AND a <= 5` -/
def pred0 : Pred := .and (.cmp 1 .ge false (.int 1)) (.cmp 1 .le false (.int 5))

/-- `a IN (9, 1) OR a IS NULL` -/
def pred1 : Pred := .or (.inList 1 false [.int 9, .int 1]) (Pred.isNull 1)

/-- `USE INDEX ON (a)` -/
def q0 : Query := { idx := [1], desc := false, limit := 0, offset := 0, where_ := pred0 }
/-- `USE INDEX ON (a) … ORDER BY a DESC LIMIT 2 OFFSET 1` -/
def q0d : Query := { idx := [1], desc := true, limit := 2, offset := 1, where_ := pred0 }
/-- `USE INDEX ON (s, a)` -/
def q1 : Query := { idx := [2, 1], desc := false, limit := 0, offset := 0, where_ := pred1 }

example : tbl0.wf = true := by decide
example : idxOK tbl0 q0.idx = true ∧ idxOK tbl0 q1.idx = true := by decide
example : pred0.wt cols0 = true ∧ pred0.plain = true := by decide
example : pred1.wt cols0 = true ∧ pred1.plain = true := by decide

-- derived ranges and windows are not trivial
example : pred0.ranges [] = .ok [(1, { lo := some (.int 1), hi := some (.int 5) })] := rfl
example : pred1.ranges [] = .ok [(1, { lo := some .null, hi := some (.int 9) })] := rfl
example : keyBounds cols0 [(1, { lo := some (.int 1), hi := some (.int 5) })] [1] [] [] false false =
    .ok ([0x80, 0x80, 0, 0, 0, 0, 0, 0, 1], [0x80, 0x80, 0, 0, 0, 0, 0, 0, 5, 0xFF]) := by decide

-- hypotheses and conclusion of `range_sound_fragment` / `window_sound_fragment` on a TRUE row
example : rowOK cols0 [.int 2, .int 1, .str [0x61]] = true ∧
    pred0.eval [.int 2, .int 1, .str [0x61]] = .ok (some true) := by decide
example : indexKey tbl0 [1] [.int 2, .int 1, .str [0x61]] =
    .ok [0x80, 0x80, 0, 0, 0, 0, 0, 0, 1, 0x80, 0x80, 0, 0, 0, 0, 0, 0, 2] := by decide
-- a row outside the window exists (the window does restrict the scan)
example : ∃ k, indexKey tbl0 [1] [.int 3, .int 9, .null] = .ok k ∧
    inWindow [0x80, 0x80, 0, 0, 0, 0, 0, 0, 1] [0x80, 0x80, 0, 0, 0, 0, 0, 0, 5, 0xFF] k = false :=
  ⟨[0x80, 0x80, 0, 0, 0, 0, 0, 0, 9, 0x80, 0x80, 0, 0, 0, 0, 0, 0, 3], by decide, by decide⟩

-- all hypotheses of `range_sound_fragment` / `window_sound_fragment` hold jointly on the instance
example : RangeMap.bounds [(1, { lo := some (.int 1), hi := some (.int 5) })] [.int 2, .int 1, .str [0x61]] :=
  range_sound_fragment cols0 pred0 _ _ (by decide) (by decide) (by decide) rfl (by decide)

example : inWindow [0x80, 0x80, 0, 0, 0, 0, 0, 0, 1] [0x80, 0x80, 0, 0, 0, 0, 0, 0, 5, 0xFF]
    [0x80, 0x80, 0, 0, 0, 0, 0, 0, 1, 0x80, 0x80, 0, 0, 0, 0, 0, 0, 2] = true :=
  window_sound_fragment tbl0 [1] pred0 [.int 2, .int 1, .str [0x61]] _ _ _ _ (by decide) (by decide)
    (by decide) (by decide) (by decide) rfl (by decide) (by decide) (by decide)

-- two different indexes, two directions: `plan_independent_perm_fragment` applies
example : [[Val.int 2, .int 1, .str [0x61]], [.int 1, .int 5, .str [0x62]], [.int 5, .int 5, .str []]].Perm
    [[Val.int 1, .int 5, .str [0x62]], [.int 2, .int 1, .str [0x61]], [.int 5, .int 5, .str []]] :=
  (plan_independent_perm_fragment tbl0 pred0 [1] [2, 1] false true _ _ (by decide) (by decide)).1

-- the predicates evaluate without error on every row
example : noEvalErr pred0 tbl0.rows ∧ noEvalErr pred1 tbl0.rows := by
  constructor <;> intro row h <;> simp only [tbl0, List.mem_cons, List.not_mem_nil, or_false] at h <;>
    rcases h with rfl | rfl | rfl | rfl | rfl <;> exact ⟨_, rfl⟩

-- the scans themselves
example : runFull tbl0 q0 = .ok [[.int 2, .int 1, .str [0x61]], [.int 1, .int 5, .str [0x62]],
    [.int 5, .int 5, .str []]] := by decide
example : runIndex tbl0 q0 = .ok [[.int 2, .int 1, .str [0x61]], [.int 1, .int 5, .str [0x62]],
    [.int 5, .int 5, .str []]] := by decide
example : runIndex tbl0 q0d = .ok [[.int 1, .int 5, .str [0x62]], [.int 2, .int 1, .str [0x61]]] := by decide
example : runFull tbl0 q1 = .ok [[.int 3, .int 9, .null], [.int 2, .int 1, .str [0x61]],
    [.int 4, .null, .str [0x63]]] := by decide

-- the theorems apply to the instance: all hypotheses of `plan_independent_fragment` hold
example : runIndex tbl0 q1 = .ok [[.int 3, .int 9, .null], [.int 2, .int 1, .str [0x61]],
    [.int 4, .null, .str [0x63]]] := by
  have hne : noEvalErr pred1 tbl0.rows := by
    intro row h
    simp only [tbl0, List.mem_cons, List.not_mem_nil, or_false] at h
    rcases h with rfl | rfl | rfl | rfl | rfl <;> exact ⟨_, rfl⟩
  exact plan_independent_fragment tbl0 q1 (by decide) (by decide) (by decide) (by decide) hne _
    (by decide)

-- … and of `limit_offset_fragment`
example : runFull tbl0 q0d = .ok [[.int 1, .int 5, .str [0x62]], [.int 2, .int 1, .str [0x61]]] := by
  have hne : noEvalErr pred0 tbl0.rows := by
    intro row h
    simp only [tbl0, List.mem_cons, List.not_mem_nil, or_false] at h
    rcases h with rfl | rfl | rfl | rfl | rfl <;> exact ⟨_, rfl⟩
  exact limit_offset_fragment tbl0 q0d [[.int 5, .int 5, .str []], [.int 1, .int 5, .str [0x62]],
    [.int 2, .int 1, .str [0x61]]] hne (by decide)

-- `twoValued` holds for comparisons (hypotheses of `partition_fragment`)
example : twoValued pred0 tbl0.rows ∧ twoValued (.cmp 2 .lt false (.str [0x62])) tbl0.rows := by
  constructor <;> intro row h <;> simp only [tbl0, List.mem_cons, List.not_mem_nil, or_false] at h <;>
    rcases h with rfl | rfl | rfl | rfl | rfl <;> exact ⟨_, rfl⟩

example : rowsWhere pred0 tbl0.rows = [[.int 1, .int 5, .str [0x62]], [.int 2, .int 1, .str [0x61]],
    [.int 5, .int 5, .str []]] := by decide


-- --------------------------------------------------------------- non-vacuity: the planner

/-- `CREATE TABLE p (id INTEGER, k INTEGER, s INTEGER, PRIMARY KEY id)`, `CREATE INDEX ON p(k, s)` -/
def colsP : List Col := [⟨.integer, 8⟩, ⟨.integer, 8⟩, ⟨.integer, 8⟩]

def rowP (id k s : Int) : Row := [.int id, .int k, .int s]

def tblP : Table :=
  { cols := colsP, pk := [0],
    rows := [rowP 1 1 50, rowP 2 1 40, rowP 3 2 30, rowP 4 1 20, rowP 5 1 10] }

def secsP : List (List Nat) := [[1, 2]]

/-- `k = 1` -/
def predK : Pred := .cmp 1 .eq false (.int 1)

/-- `WHERE k = 1 ORDER BY id` -/
def qId : PQuery := { hint := none, order := [⟨0, false⟩], limit := 0, offset := 0, where_ := predK }
/-- `WHERE k = 1 ORDER BY s` -/
def qS : PQuery := { hint := none, order := [⟨2, false⟩], limit := 0, offset := 0, where_ := predK }
/-- `WHERE k = 1 ORDER BY s DESC` -/
def qSd : PQuery := { hint := none, order := [⟨2, true⟩], limit := 0, offset := 0, where_ := predK }
/-- `ORDER BY id` -/
def qAll : PQuery := { hint := none, order := [⟨0, false⟩], limit := 0, offset := 0, where_ := .const true }
/-- no WHERE, no ORDER BY -/
def qNo : PQuery := { hint := none, order := [], limit := 0, offset := 0, where_ := .const true }
/-- `USE INDEX ON (k, s) WHERE k = 1 ORDER BY id LIMIT 2 OFFSET 1` -/
def qLim : PQuery := { hint := some [1, 2], order := [⟨0, false⟩], limit := 2, offset := 1, where_ := predK }

example : tblP.wf = true := by decide
example : idxOK tblP tblP.pk = true ∧ (∀ ix ∈ secsP, idxOK tblP ix = true) := by decide
example : predK.wt colsP = true ∧ predK.plain = true := by decide

-- the flagged walk: `k = 1` gives a unitary range, and erasing the flags gives the scan's range
example : predK.rangesF [] = .ok [(1, { lo := some ⟨.int 1, true⟩, hi := some ⟨.int 1, true⟩ })] := rfl
example : RangeMapF.unitaryAt [(1, { lo := some ⟨.int 1, true⟩, hi := some ⟨.int 1, true⟩ })] 1 = true := by
  decide
example : predK.ranges [] = .ok [(1, { lo := some (.int 1), hi := some (.int 1) })] := rfl
-- `k < 1` is not unitary: the flags matter for the planner
example : RangeMapF.unitaryAt [(1, { lo := some ⟨.int 1, true⟩, hi := some ⟨.int 1, false⟩ })] 1 = false := by
  decide

-- `WHERE k = 1 ORDER BY id`: the primary index covers the ORDER BY, but the equality-lookup fallback
-- replaces it by (k, s), which does not: the sort step must stay — and the rows come out in id order
example : runPlan tblP secsP qId =
    .ok ({ idx := [1, 2], desc := false, sort := true }, [rowP 1 1 50, rowP 2 1 40, rowP 4 1 20, rowP 5 1 10]) := by
  decide
-- `WHERE k = 1 ORDER BY s`: (k, s) is sortable using the unitary range on k: no sort step
example : runPlan tblP secsP qS =
    .ok ({ idx := [1, 2], desc := false, sort := false }, [rowP 5 1 10, rowP 4 1 20, rowP 2 1 40, rowP 1 1 50]) := by
  decide
-- `WHERE k = 1 ORDER BY s DESC`: the same index, scanned backwards
example : runPlan tblP secsP qSd =
    .ok ({ idx := [1, 2], desc := true, sort := false }, [rowP 1 1 50, rowP 2 1 40, rowP 4 1 20, rowP 5 1 10]) := by
  decide
-- `ORDER BY id` without WHERE: primary index, no sort step
example : runPlan tblP secsP qAll =
    .ok ({ idx := [0], desc := false, sort := false },
      [rowP 1 1 50, rowP 2 1 40, rowP 3 2 30, rowP 4 1 20, rowP 5 1 10]) := by
  decide
-- without the sort step the scan of (k, s) is NOT in id order: the decision matters
example : ¬ [rowP 5 1 10, rowP 4 1 20, rowP 2 1 40, rowP 1 1 50].Pairwise (ordLe qId.order) := by
  intro h
  obtain ⟨c, hc, hle⟩ := (List.pairwise_cons.mp h).1 (rowP 4 1 20) (by simp)
  have : ordCmp qId.order (rowP 5 1 10) (rowP 4 1 20) = .ok 1 := by decide
  rw [this] at hc
  cases hc
  omega

-- all hypotheses of `order_by_sorted_plan_fragment` hold jointly; the theorem applies (sort step kept)
example : [rowP 1 1 50, rowP 2 1 40, rowP 4 1 20, rowP 5 1 10].Pairwise (ordLe [⟨0, false⟩]) :=
  order_by_sorted_plan_fragment tblP secsP qId { idx := [1, 2], desc := false, sort := true } _
    (by decide) (by decide) (by decide) (by intro h hh; cases hh) (by decide) (by decide) (by decide)
    (by decide)

-- … and with the sort step dropped, descending
example : [rowP 1 1 50, rowP 2 1 40, rowP 4 1 20, rowP 5 1 10].Pairwise (ordLe [⟨2, true⟩]) :=
  order_by_sorted_plan_fragment tblP secsP qSd { idx := [1, 2], desc := true, sort := false } _
    (by decide) (by decide) (by decide) (by intro h hh; cases hh) (by decide) (by decide) (by decide)
    (by decide)

-- `plan_rows_perm_fragment` / `plan_hint_independent_fragment` apply
example : [rowP 5 1 10, rowP 4 1 20, rowP 2 1 40, rowP 1 1 50].Perm (rowsWhere predK tblP.rows) :=
  plan_rows_perm_fragment tblP secsP qS { idx := [1, 2], desc := false, sort := false } _ (by decide) (by decide) (by decide) rfl rfl (by decide)

example : rowsWhere predK tblP.rows = [rowP 1 1 50, rowP 2 1 40, rowP 4 1 20, rowP 5 1 10] := by decide

-- no ORDER BY, no WHERE: the hint changes the order of the rows, not the rows
example : [rowP 1 1 50, rowP 2 1 40, rowP 3 2 30, rowP 4 1 20, rowP 5 1 10].Perm
    [rowP 5 1 10, rowP 4 1 20, rowP 2 1 40, rowP 1 1 50, rowP 3 2 30] :=
  plan_hint_independent_fragment tblP secsP qNo none (some [1, 2])
    { idx := [0], desc := false, sort := false } { idx := [1, 2], desc := false, sort := false } _ _
    (by decide) (by decide) (by decide) rfl rfl (by decide) (by decide)

-- `plan_limit_offset_fragment` applies: LIMIT 2 OFFSET 1 after the sort step
example : runPlan tblP secsP qLim =
    .ok ({ idx := [1, 2], desc := false, sort := true }, [rowP 2 1 40, rowP 4 1 20]) :=
  plan_limit_offset_fragment tblP secsP qLim _ [rowP 1 1 50, rowP 2 1 40, rowP 4 1 20, rowP 5 1 10]
    (by decide)

end ImmuModel.Props.C11
