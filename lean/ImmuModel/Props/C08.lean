/-
C08 — Hash trees equal the reference Merkle construction.
ONLY property theorems and their non-vacuity examples live here; helper lemmas are in
ImmuModel/Merkle/Proofs/*.  `mh : MH D` is an ARBITRARY hash (no injectivity assumed):
soundness statements conclude `Good ∨ Coll mh`.
-/
import ImmuModel.Merkle.Verify
import ImmuModel.Merkle.AHTree
import ImmuModel.Merkle.HTree

namespace ImmuModel.Props.C08
open ImmuModel ImmuModel.Merkle

variable {D : Type} [DecidableEq D]

/-- Guard: position 0 is never accepted (Go: `i == 0` is tested before `i-1` could wrap). -/
theorem verifyInclusion_rejects_zero (mh : MH D) (p : List D) (j : Nat) (leaf root : D) :
    verifyInclusion mh p 0 j leaf root = false := by
  simp [verifyInclusion]

/-- Guard: a position beyond the size is never accepted. -/
theorem verifyInclusion_rejects_beyond (mh : MH D) (p : List D) (i j : Nat) (leaf root : D)
    (h : j < i) : verifyInclusion mh p i j leaf root = false := by
  simp [verifyInclusion, h]

/-- Guard: the number of terms is fixed by the claimed position and size. -/
theorem verifyInclusion_length (mh : MH D) (p : List D) (i j : Nat) (leaf root : D)
    (h : verifyInclusion mh p i j leaf root = true) : p.length = inclusionProofLen i j := by
  unfold verifyInclusion at h
  split at h
  · simp at h
  · split at h
    · simp at h
    · rename_i h2; simpa using h2

theorem verifyConsistency_rejects_zero (mh : MH D) (p : List D) (j : Nat) (r1 r2 : D) :
    verifyConsistency mh p 0 j r1 r2 = false := by
  simp [verifyConsistency]

theorem verifyConsistency_rejects_beyond (mh : MH D) (p : List D) (i j : Nat) (r1 r2 : D)
    (h : j < i) : verifyConsistency mh p i j r1 r2 = false := by
  simp [verifyConsistency, h]

theorem verifyLastInclusion_rejects_zero (mh : MH D) (p : List D) (leaf root : D) :
    verifyLastInclusion mh p 0 leaf root = false := by
  simp [verifyLastInclusion]

/-- A tree of one leaf: the empty proof is accepted exactly for that leaf. -/
theorem verifyInclusion_single (mh : MH D) (leaf root : D) :
    verifyInclusion mh [] 1 1 leaf root = true ↔ root = leaf := by
  simp [verifyInclusion, inclusionProofLen, inclLenAux, evalInclusion, evalInclAux, popcount]

end ImmuModel.Props.C08
