/-
C08 — Hash trees equal the reference Merkle construction.
ONLY property theorems and their non-vacuity examples live here; helper lemmas are in
ImmuModel/Merkle/Proofs/*.  `mh : MH D` is an ARBITRARY hash (no injectivity assumed):
soundness statements conclude `Good ∨ Coll mh`.
-/
import ImmuModel.Merkle.Verify
import ImmuModel.Merkle.AHTree
import ImmuModel.Merkle.HTree
import ImmuModel.Merkle.Proofs.InclSound
import ImmuModel.Merkle.Proofs.Roots
import ImmuModel.Merkle.Proofs.AhtComplete
import ImmuModel.Merkle.Proofs.ConsSound
import ImmuModel.Merkle.Proofs.HTreeProofs
import ImmuModel.Merkle.Proofs.Extra
import ImmuModel.Merkle.Proofs.History
import ImmuModel.Merkle.MthLemmas

namespace ImmuModel.Props.C08
open ImmuModel ImmuModel.Merkle

variable {D : Type} [DecidableEq D]

/-- Guard: position 0 is never accepted (Go: `i == 0` is tested before `i-1` could wrap). -/
theorem verifyInclusion_rejects_zero (mh : MH D) (p : List D) (j : Nat) (leaf root : D) :
    verifyInclusion mh p 0 j leaf root = false := by
  simp [verifyInclusion]

/-- Guard: a position beyond the size is never accepted. -/
theorem verifyInclusion_rejects_beyond (mh : MH D) (p : List D) (i j : Nat) (leaf root : D)
    (h : j < i) : verifyInclusion mh p i j leaf root = false := by
  simp [verifyInclusion, h]

/-- Guard: the number of terms is fixed by the claimed position and size. -/
theorem verifyInclusion_length (mh : MH D) (p : List D) (i j : Nat) (leaf root : D)
    (h : verifyInclusion mh p i j leaf root = true) : p.length = inclusionProofLen i j := by
  unfold verifyInclusion at h
  split at h
  · simp at h
  · split at h
    · simp at h
    · rename_i h2; simpa using h2

theorem verifyConsistency_rejects_zero (mh : MH D) (p : List D) (j : Nat) (r1 r2 : D) :
    verifyConsistency mh p 0 j r1 r2 = false := by
  simp [verifyConsistency]

theorem verifyConsistency_rejects_beyond (mh : MH D) (p : List D) (i j : Nat) (r1 r2 : D)
    (h : j < i) : verifyConsistency mh p i j r1 r2 = false := by
  simp [verifyConsistency, h]

theorem verifyLastInclusion_rejects_zero (mh : MH D) (p : List D) (leaf root : D) :
    verifyLastInclusion mh p 0 leaf root = false := by
  simp [verifyLastInclusion]

/-- A tree of one leaf: the empty proof is accepted exactly for that leaf. -/
theorem verifyInclusion_single (mh : MH D) (leaf root : D) :
    verifyInclusion mh [] 1 1 leaf root = true ↔ root = leaf := by
  simp [verifyInclusion, inclusionProofLen, inclLenAux, evalInclusion, evalInclAux, popcount]

/-- **Inclusion soundness.** If `VerifyInclusion` accepts `(i, j, leaf)` against a root that
really is the reference root of the `j` leaves `xs`, then `leaf` is the `i`-th leaf — for every
tree size, position and (adversarial) proof — or the accepted input exhibits a hash collision.
(Before the repair 22ec930 this was false: `internal/witness` in Props/C08Witness.lean.) -/
theorem inclusion_sound (mh : MH D) (p : List D) (i j : Nat) (leaf : D) (xs : List D)
    (hlen : xs.length = j) (hv : verifyInclusion mh p i j leaf (mth mh xs) = true) :
    xs[i - 1]? = some leaf ∨ Coll mh :=
  verifyInclusion_sound mh p i j leaf xs hlen hv

/-- **Last-inclusion soundness.** -/
theorem lastInclusion_sound (mh : MH D) (p : List D) (i : Nat) (leaf : D) (xs : List D)
    (hlen : xs.length = i) (hv : verifyLastInclusion mh p i leaf (mth mh xs) = true) :
    xs.getLast? = some leaf ∨ Coll mh :=
  verifyLastInclusion_sound mh p i leaf xs hlen hv

/-- **Entry tree root.** `htree.BuildWith` (bottom-up pairing, odd node promoted) computes the
reference root over the leaf-wrapped digests, for every width. -/
theorem htree_root (mh : MH D) (enc : D → Bytes) (ds : List D) :
    (HTree.build mh enc ds).root = mth mh (ds.map (fun d => mh.leafH (enc d))) :=
  htree_root_eq_mth mh enc ds

/-- **Appending is total** from the empty tree and stores exactly the payloads. -/
theorem aht_append_total (mh : MH D) (ds : List Bytes) :
    ∃ t, AHT.appendAll mh AHT.empty ds = some t ∧ t.payloads = ds :=
  aht_appendAll_total mh ds

/-- **Incremental roots.** After any number of appends, the root reported for every historical
size `n` is the reference Merkle root of the first `n` leaves. -/
theorem aht_root (mh : MH D) (ds : List Bytes) (t : AHT D) (n : Nat)
    (ht : AHT.appendAll mh AHT.empty ds = some t) (h1 : 1 ≤ n) (h2 : n ≤ ds.length) :
    AHT.rootAt t n = .ok (mth mh ((ds.take n).map mh.leafH)) :=
  aht_rootAt_eq_mth mh ds t n ht h1 h2

/-- **Roll back and re-append** equals building from scratch over the kept prefix. -/
theorem aht_rollback (mh : MH D) (xs ys : List Bytes) (t t' : AHT D) (m : Nat)
    (ht : AHT.appendAll mh AHT.empty xs = some t) (hm : m ≤ xs.length)
    (hr : AHT.resetSize t m = some t') :
    AHT.appendAll mh t' ys = AHT.appendAll mh AHT.empty (xs.take m ++ ys) :=
  aht_reset_append mh xs ys t t' m ht hm hr

/-- **Operations that fail leave the tree as it was** (tree level).  A history is any interleaving of
successful appends, appends that returned an error (a flush / fsync / write / set-offset / read of the
payload, digest or commit log failed – before or inside the threshold-triggered sync), resets, failed resets
and failed syncs.  Running it on the tree model from the empty tree succeeds exactly when every reset is
within the current size, and yields the tree built from scratch over the SURVIVING payloads
(`AHT.survivors`: failed operations contribute nothing, a reset keeps a prefix). -/
theorem aht_history_with_failures (mh : MH D) (ops : List AHT.Op) :
    AHT.run mh AHT.empty ops = (AHT.survivors [] ops).bind (AHT.appendAll mh AHT.empty) :=
  aht_run_eq_survivors mh ops

/-- … so every historical root after such a history is the reference Merkle root of the surviving payloads;
`appendAll … ys = some t` makes `inclusion_complete`, `consistency_complete`, `lastInclusion_complete` and
`aht_rollback` applicable to the resulting tree. -/
theorem aht_history_roots (mh : MH D) (ops : List AHT.Op) (ys : List Bytes)
    (hs : AHT.survivors [] ops = some ys) :
    ∃ t, AHT.run mh AHT.empty ops = some t ∧ AHT.appendAll mh AHT.empty ys = some t ∧ t.payloads = ys ∧
      ∀ n, 1 ≤ n → n ≤ ys.length → AHT.rootAt t n = .ok (mth mh ((ys.take n).map mh.leafH)) :=
  ImmuModel.Merkle.aht_history_roots mh ops ys hs

/-- The same at the level the driver executes (`AHTFile`: tree + what the commit log durably holds, with
the sync threshold): after any history of `append / appendFail / reset / resetFail / sync / syncFail` the
current tree is the one built from the surviving payloads of the projected history. -/
theorem ahtfile_history_roots (mh : MH D) (thld : Nat) (fops : List AHTFile.FOp) (f : AHTFile D)
    (hf : AHTFile.runF mh (AHTFile.new thld) fops = some f) :
    ∃ ys, AHT.survivors [] (fops.filterMap AHTFile.FOp.toOp) = some ys ∧
      AHT.appendAll mh AHT.empty ys = some f.cur ∧
      ∀ n, 1 ≤ n → n ≤ ys.length → AHT.rootAt f.cur n = .ok (mth mh ((ys.take n).map mh.leafH)) :=
  ImmuModel.Merkle.ahtfile_history_roots mh thld fops f hf

/-- non-vacuity: a history with a failed append, a rollback and a failed sync; two payloads survive -/
example : AHT.survivors [] [.append [1], .appendFail [2], .append [3], .reset 1, .syncFail,
    .appendFail [4], .resetFail 0, .append [5]] = some [[1], [5]] := by decide

/-- **Consistency soundness.** If `VerifyConsistency` accepts `(i, j, r1, r2)` and `r2` really
is the reference root of the `j` leaves `ys`, then `r1` is the reference root of the first `i`
of them, for every pair of sizes and every (adversarial) proof — or a collision is exhibited.
(False before the repair 22ec930, e.g. proof(5,6) accepted for i=4.) -/
theorem consistency_sound (mh : MH D) (p : List D) (i j : Nat) (r1 : D) (ys : List D)
    (hlen : ys.length = j) (hv : verifyConsistency mh p i j r1 (mth mh ys) = true) :
    r1 = mth mh (ys.take i) ∨ Coll mh :=
  verifyConsistency_sound mh p i j r1 ys hlen hv

/-- Same size: acceptance means the two claimed roots are equal (no collision alternative). -/
theorem consistency_same_size (mh : MH D) (p : List D) (i : Nat) (r1 r2 : D)
    (hv : verifyConsistency mh p i i r1 r2 = true) : r1 = r2 :=
  verifyConsistency_sound_eq mh p i r1 r2 hv

/-- **Inclusion completeness.** For every history of appends and every `1 ≤ i ≤ j ≤ n` the
prover returns a proof that the (repaired, length-checking) verifier accepts. -/
theorem inclusion_complete (mh : MH D) (ds : List Bytes) (t : AHT D) (i j : Nat)
    (ht : AHT.appendAll mh AHT.empty ds = some t) (h1 : 1 ≤ i) (h2 : i ≤ j) (h3 : j ≤ ds.length) :
    ∃ p, AHT.inclusionProofAPI t i j = .ok p ∧
      verifyInclusion mh p i j (mh.leafH (ds[i-1]'(by omega))) (mth mh ((ds.take j).map mh.leafH)) = true :=
  aht_inclusion_complete mh ds t i j ht h1 h2 h3

/-- **Last-inclusion completeness.** -/
theorem lastInclusion_complete (mh : MH D) (ds : List Bytes) (t : AHT D) (j : Nat)
    (ht : AHT.appendAll mh AHT.empty ds = some t) (h1 : 1 ≤ j) (h3 : j ≤ ds.length) :
    ∃ p, AHT.inclusionProofAPI t j j = .ok p ∧
      verifyLastInclusion mh p j (mh.leafH (ds[j-1]'(by omega))) (mth mh ((ds.take j).map mh.leafH)) = true :=
  aht_lastInclusion_complete mh ds t j ht h1 h3

/-- **Consistency completeness.** -/
theorem consistency_complete (mh : MH D) (ds : List Bytes) (t : AHT D) (i j : Nat)
    (ht : AHT.appendAll mh AHT.empty ds = some t) (h1 : 1 ≤ i) (h2 : i ≤ j) (h3 : j ≤ ds.length) :
    ∃ p, AHT.consistencyProofAPI t i j = .ok p ∧
      verifyConsistency mh p i j (mth mh ((ds.take i).map mh.leafH)) (mth mh ((ds.take j).map mh.leafH)) = true :=
  aht_consistency_complete mh ds t i j ht h1 h2 h3

/-- **Entry-tree inclusion soundness (membership).** An accepted entry proof against the true
entry-tree root proves that the digest is one of the transaction's entry digests, whatever
leaf index / width / terms the untrusted proof carries — or exhibits an explicit collision. -/
theorem htree_inclusion_sound (mh : MH D) (enc : D → Bytes) (henc : Function.Injective enc)
    (pr : HProof D) (dg : D) (ds : List D) (hne : ds ≠ [])
    (hv : hVerifyInclusion mh enc pr dg (mth mh (ds.map (fun d => mh.leafH (enc d)))) = true) :
    dg ∈ ds ∨ Coll mh :=
  hVerifyInclusion_sound mh enc henc pr dg ds hne hv

/-- **Entry-tree completeness.** For every width and every leaf index the produced proof
carries that index and width and verifies against the built root. -/
theorem htree_inclusion_complete (mh : MH D) (enc : D → Bytes) (ds : List D) (i : Nat)
    (hi : i < ds.length) :
    ∃ pr, HTree.inclusionProof (HTree.build mh enc ds) i = some pr ∧
      pr.leaf = i ∧ pr.width = ds.length ∧
      hVerifyInclusion mh enc pr (ds[i]) (HTree.build mh enc ds).root = true :=
  hInclusionProof_complete mh enc ds i hi

/-- **Entry-tree position binding.** When the claimed width is the true width and the claimed leaf
index is in range, an accepted proof pins the digest to exactly that leaf — although the number of
terms is not checked, the final `i == r` test makes any other length fail (both range hypotheses are
necessary: out-of-range / negative `Leaf` values admit accepts for other leaves, see Extra.lean). -/
theorem htree_inclusion_position_sound (mh : MH D) (enc : D → Bytes) (henc : Function.Injective enc)
    (pr : HProof D) (dg : D) (ds : List D) (hne : ds ≠ [])
    (hw : pr.width = (ds.length : Int)) (hl0 : 0 ≤ pr.leaf) (hl1 : pr.leaf < pr.width)
    (hv : hVerifyInclusion mh enc pr dg (mth mh (ds.map (fun d => mh.leafH (enc d)))) = true) :
    ds[pr.leaf.toNat]? = some dg ∨ Coll mh :=
  hVerifyInclusion_position_sound mh enc henc pr dg ds hne hw hl0 hl1 hv

/-- **Flat digest-log layout.** Go's `nodesUpto(n)` (offset of the digest group of leaf n+1 in the
digest log) equals `n + Σ_{k<n} popcount k`: the grouped model and the flat file layout agree, the
group of leaf `n+1` holding `1 + popcount n = 1 + levelsAt(n+1)` digests. -/
theorem aht_flat_layout (n : Nat) :
    AHT.nodesUpto n = n + ((List.range n).map popcount).sum ∧
    AHT.nodesUpto (n + 1) = AHT.nodesUpto n + 1 + AHT.levelsAt (n + 1) :=
  ⟨nodesUpto_closed n, nodesUpto_succ_levelsAt n⟩

/-! Non-vacuity: a free (collision-free) hash over a term algebra; the hypotheses of
`inclusion_sound` are met by a genuine proof in a 3-leaf tree. -/
inductive T | l (n : Nat) | n (a b : T) | e
  deriving DecidableEq

def freeMH : MH T := { leafH := fun b => T.l b.length, nodeH := T.n, emptyH := T.e }

theorem mth_three : mth freeMH [T.l 0, T.l 1, T.l 2] = T.n (T.n (T.l 0) (T.l 1)) (T.l 2) := by
  rw [mth_triple]; rfl

example : verifyInclusion freeMH [T.l 0, T.l 2] 2 3 (T.l 1)
    (mth freeMH [T.l 0, T.l 1, T.l 2]) = true := by
  rw [mth_three]
  simp [verifyInclusion, inclusionProofLen, inclLenAux, popcount, evalInclusion, evalInclAux, freeMH]

/-- The pre-repair acceptance `([n12], i=2, j=3, leaf3)` is now rejected by the length guard. -/
example : verifyInclusion freeMH [T.n (T.l 0) (T.l 1)] 2 3 (T.l 2)
    (mth freeMH [T.l 0, T.l 1, T.l 2]) = false := by
  simp [verifyInclusion, inclusionProofLen, inclLenAux, popcount]

end ImmuModel.Props.C08
