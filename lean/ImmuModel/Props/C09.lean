/-
C09 — Corruption of stored data is detected, never served as valid.
ONLY property theorems and non-vacuity examples; helper lemmas are in Tx/RecordProofs.lean.

`hs : HsD D` is an ARBITRARY hash with a fixed-width digest encoding (no injectivity of `H`
assumed): authenticity statements conclude `Good ∨ HColl hs` with an explicit collision.

What acceptance by the integrity-checked parser (`ReadTx`, `ReadTxHeader`, `ReadTxEntry`,
`ExportTx`, `TxReader`, indexer, `Open`) gives, and what it does NOT give:
  * per-record SELF-authentication: the trailing Alh equals the Alh of the parsed content
    (`parse_authentic`), so any alteration that keeps the Alh the rest of the system knows
    leaves everything the Alh commits to unchanged, or exhibits a collision
    (`flip_detected_partial`);
  * `vLen` and `vOff` are not committed to; a value read is authenticated by `hVal`
    (`value_authentic_partial`) EXCEPT when the stored `vLen` is 0 (`value_vlen_zero_unchecked`,
    finding);
  * an alteration that also rewrites the trailing Alh consistently is accepted by
    single-record reads (`consistent_rewrite_accepted`, documented limit K2);
  * the read path never panics (`parse_never_panics`, `value_read_never_panics`); the former panic
    witnesses are rejected inputs (`fetchVLog_bad_id_rejected`, `txmd_extra_overrun_rejected`,
    `txmd_extra_too_long_rejected`) since the repairs of `fetchVLog` and
    `extraAttribute.deserialize`; a stored `vLen` above `MaxValueLen` is rejected before any
    allocation (`value_len_bounded`).
-/
import ImmuModel.Tx.RecordProofs
import ImmuModel.Tx.RecordLayout
import ImmuModel.Tx.ScanProofs
import ImmuModel.Tx.ConcreteD

namespace ImmuModel.Props.C09
open ImmuModel ImmuModel.Tx ImmuModel.Tx.Rec ImmuModel.Merkle

variable {D : Type} [DecidableEq D]

/-- **Tie of the layout to the source (regenerated on every run).** The writes into the tx
buffer in `performPrecommit` and the reads of `readHeader` / `readEntry` /
`buildAndValidateHtree`, as extracted from /repo, have exactly the field order and widths of
the model (`serializeTx` / `parseTx`), with the widths given by the regenerated size constants. -/
theorem layout_matches_source :
    Gen.txPrecommitWrites = Layout.recordFields ∧ Gen.txReadHeaderReads = Layout.headerFields ∧
    Gen.txReadEntryReads = Layout.entryFields ∧ Gen.txTrailerReads = Layout.trailerFields := by
  decide

/-- **Round trip.** What `performPrecommit` writes is parsed back to exactly the same record,
whatever follows it in the tx log. -/
theorem parse_serialize (hs : HsD D) (lim : Limits) (r : Record D) (bs rest : Bytes)
    (wf : Record.WF hs lim r) (hser : serializeTx hs r = some bs) :
    parseTx hs lim (bs ++ rest) = .ok r :=
  parse_serialize_thm hs lim r bs rest wf hser

/-- Well-formed records are serialisable (the Go `panic` on an unknown version is excluded). -/
theorem serialize_total (hs : HsD D) (lim : Limits) (r : Record D) (wf : Record.WF hs lim r) :
    ∃ bs, serializeTx hs r = some bs :=
  serialize_some_thm hs lim r wf

/-- **What acceptance implies.** Any byte stream accepted by the integrity-checked parser
yields a record whose trailing Alh is the Alh of the parsed header, whose `Eh` is the
reference Merkle root (RFC 6962 shape, C08) of the version-dependent entry digests, and
whose entry count is the declared one. -/
theorem parse_authentic (hs : HsD D) (lim : Limits) (bs : Bytes) (r : Record D)
    (h : parseTx hs lim bs = .ok r) :
    alh hs.toHs r.hdr = some r.storedAlh ∧
    r.hdr.eh = mth hs.toHs.mhH ((r.entries.map (entryDigest hs r.hdr.version)).map
                 fun d => hs.toHs.mhH.leafH (hs.enc d)) ∧
    r.hdr.nentries = r.entries.length :=
  parse_authentic_thm hs lim bs r h

/-- **Alterations that keep the known Alh are harmless or collisions.**  `r` is the record as
originally read, `r'` what is read from ARBITRARILY altered bytes `bs'` (any number of bits,
any offsets, also the bytes of following records the parser may run into).  If `r'` is
accepted and carries the Alh known for that transaction (commit log, next transaction's
`PrevAlh`, the AHT leaf, a trusted client state), then everything the Alh commits to — id,
timestamp, version, tx metadata, number of entries, BlTxID, BlRoot, PrevAlh and per entry the
key, kv metadata and value hash — is unchanged, or the two inputs exhibit a collision of `H`.

`_partial`: the FULL property ("every alteration is rejected or returns the original
content") does not hold for the code as it is:
  (1) `vLen`/`vOff` are not covered (see `value_*` below);
  (2) the hypothesis `r'.storedAlh = r.storedAlh` is NOT checked by single-record reads:
      `consistent_rewrite_accepted` (K2). -/
theorem flip_detected_partial (hs : HsD D) (lim lim' : Limits) (bs bs' : Bytes) (r r' : Record D)
    (h : parseTx hs lim bs = .ok r) (h' : parseTx hs lim' bs' = .ok r')
    (ha : r'.storedAlh = r.storedAlh) :
    covered r' = covered r ∨ HColl hs.toHs :=
  alh_binds_covered_thm hs lim lim' bs bs' r r' h h' ha

/-- The same, with the original given as a well-formed record (what the writer produced). -/
theorem flip_detected_wf_partial (hs : HsD D) (lim lim' : Limits) (bs' : Bytes) (r r' : Record D)
    (wf : Record.WF hs lim r) (h' : parseTx hs lim' bs' = .ok r')
    (ha : r'.storedAlh = r.storedAlh) :
    covered r' = covered r ∨ HColl hs.toHs := by
  obtain ⟨bs, hser⟩ := serialize_some_thm hs lim r wf
  have h := parse_serialize_thm hs lim r bs [] wf hser
  exact alh_binds_covered_thm hs lim lim' (bs ++ []) bs' r r' h h' ha

/-- **Values.** A value returned by `ReadValue` for an entry with a non-zero stored length
has exactly that length and the value hash of the entry — whatever the (possibly altered)
`vOff`, `vLen`, value-log or tx-log bytes are.
`_partial`: false without `e.vLen ≠ 0`, see `value_vlen_zero_unchecked`. -/
theorem value_authentic_partial (hs : Hs D) (cfg : VCfg) (vlogs : List Bytes) (txLog : Bytes)
    (e : Entry D) (v : Bytes) (hne : e.vLen ≠ 0)
    (h : readValue hs cfg vlogs txLog e = .ok v) :
    hs.H v = e.hVal ∧ v.length = e.vLen := by
  unfold readValue at h
  simp only [hne, if_false] at h
  split at h
  · cases h
  split at h
  · cases h
  · split at h
    · cases h
    · split at h
      · cases h
      · split at h
        · rename_i hle
          split at h
          · rename_i hH
            cases h
            refine ⟨hH, ?_⟩
            simp only [List.length_take, List.length_drop]; omega
          · cases h
        · cases h

/-- Consequence: with the entry's `hVal` authentic (it is covered by the Alh), altered value
bytes / `vOff` / non-zero `vLen` yield an error, the original value, or a collision. -/
theorem value_flip_detected (hs : Hs D) (cfg : VCfg) (vlogs : List Bytes) (txLog : Bytes)
    (e : Entry D) (v orig : Bytes) (hne : e.vLen ≠ 0) (horig : hs.H orig = e.hVal)
    (h : readValue hs cfg vlogs txLog e = .ok v) :
    v = orig ∨ HColl hs := by
  have hv := (value_authentic_partial hs cfg vlogs txLog e v hne h).1
  by_cases heq : v = orig
  · exact .inl heq
  · exact .inr ⟨v, orig, heq, by rw [hv, horig]⟩

/-- **Finding (negation of full value authenticity).** `vLen` is not covered by the Alh and
`ReadValue`/`valueRef.Resolve` return an empty value BEFORE any validation when the stored
`vLen` is 0: altering the 4 `vLen` bytes of an entry to zero makes every integrity-checked
read succeed and serve the empty value, whatever `hVal` says. -/
theorem value_vlen_zero_unchecked (hs : Hs D) (cfg : VCfg) (vlogs : List Bytes) (txLog : Bytes)
    (e : Entry D) (h0 : e.vLen = 0) :
    readValue hs cfg vlogs txLog e = .ok [] := by
  simp [readValue, h0]

/-- … hence full value authenticity is refutable as soon as some digest differs from `H ""`. -/
theorem value_authentic_full_fails (hs : Hs D) (cfg : VCfg) (vlogs : List Bytes) (txLog : Bytes)
    (d : D) (hd : d ≠ hs.H []) :
    ¬ ∀ (e : Entry D) (v : Bytes), readValue hs cfg vlogs txLog e = .ok v → hs.H v = e.hVal := by
  intro hall
  have := hall ⟨[], [], 0, 0, d⟩ [] (value_vlen_zero_unchecked hs cfg vlogs txLog _ rfl)
  exact hd this.symm

/-! ### Value reads through the value-log cache, after lenient accesses

`readValueAtC` (`Tx/ValueCache.lean`) is `readValueAt` with `s.vLogCache` as an explicit state and the
`skipIntegrityCheck` flag: the cache is keyed by the encoded offset, a miss stores what it read BEFORE any
validation — also for a lenient `ExportTx(skipIntegrityCheck=true)` — and the length/digest comparison runs
on cache hits and misses alike. The theorems quantify over EVERY cache content. -/

/-- **A checked value read through the cache is authentic, whatever the cache holds** (bytes left by
a lenient export of an altered value log, by a read of another entry with the same offset, after any
eviction): a successful `ReadValue` of an entry with `vLen ≠ 0` returns bytes with the entry's digest
and length. `_partial` for the same reason as `value_authentic_partial` (`vLen = 0`). -/
theorem cached_value_authentic_partial (hs : Hs D) (cfg : VCfg) (vlogs : List Bytes) (txLog : Bytes)
    (cache cache' : Option VCache) (e : Entry D) (v : Bytes) (hne : e.vLen ≠ 0)
    (h : readValueC hs cfg vlogs txLog cache e = (cache', .ok v)) :
    hs.H v = e.hVal ∧ v.length = e.vLen :=
  readValueC_checked_thm hs cfg vlogs txLog cache cache' e v hne h

/-- … hence an altered value is never served from the cache: error, the original, or a collision. -/
theorem cached_value_flip_detected (hs : Hs D) (cfg : VCfg) (vlogs : List Bytes) (txLog : Bytes)
    (cache cache' : Option VCache) (e : Entry D) (v orig : Bytes) (hne : e.vLen ≠ 0)
    (horig : hs.H orig = e.hVal)
    (h : readValueC hs cfg vlogs txLog cache e = (cache', .ok v)) :
    v = orig ∨ HColl hs := by
  have hv := (cached_value_authentic_partial hs cfg vlogs txLog cache cache' e v hne h).1
  by_cases heq : v = orig
  · exact .inl heq
  · exact .inr ⟨v, orig, heq, by rw [hv, horig]⟩

/-- **Read sequences.** On one store instance, starting from any cache content, in ANY sequence of
value accesses — lenient exports (`skip = true`, which fill the cache with unvalidated bytes), checked
exports, `ReadValue`s — every CHECKED access that succeeds returns bytes with the digest of its entry
and the expected length (`ReadValue`: `vLen`, for `vLen ≠ 0`; `ExportTx`: the buffer it was given, also
for `vLen = 0`). -/
theorem cached_reads_authentic (hs : Hs D) (cfg : VCfg) (vlogs : List Bytes) (txLog : Bytes)
    (cache : Option VCache) (ops : List (VRead D)) (i : Nat) (v : Bytes)
    (h : (runReads hs cfg vlogs txLog cache ops)[i]? = some (.ok v)) :
    (∀ e, ops[i]? = some (.readValue e) → e.vLen ≠ 0 → hs.H v = e.hVal ∧ v.length = e.vLen) ∧
    (∀ e buf, ops[i]? = some (.exportRead e buf false) → hs.H v = e.hVal ∧ v.length = buf.length) :=
  runReads_checked_thm hs cfg vlogs txLog ops cache i v h

/-- Cache off (`VLogCacheSize = 0`, the default): the cached model is `readValue`. -/
theorem cached_read_cache_off (hs : Hs D) (cfg : VCfg) (vlogs : List Bytes) (txLog : Bytes) (e : Entry D) :
    readValueC hs cfg vlogs txLog none e = (none, readValue hs cfg vlogs txLog e) :=
  readValueC_cache_off_thm hs cfg vlogs txLog e

/-- **Transparency.** While the logs do not change, a cache filled by reads of these logs (`Coherent`,
preserved by every read: `cache_coherent_preserved`) does not change any answer — checked or lenient —
provided the offset is not cached with ANOTHER length (the tie skips exactly those reads). -/
theorem cached_read_transparent (hs : Hs D) (cfg : VCfg) (vlogs : List Bytes) (txLog : Bytes)
    (c : VCache) (b : Bytes) (vOff : Nat) (hVal : D) (skip : Bool)
    (hc : c.Coherent cfg vlogs txLog)
    (hlen : ∀ bs, c.get vOff = some bs → bs.length = b.length) :
    (readValueAtC hs cfg vlogs txLog (some c) b vOff hVal skip).2 =
    (readValueAtC hs cfg vlogs txLog none b vOff hVal skip).2 :=
  cached_read_transparent_thm hs cfg vlogs txLog c b vOff hVal skip hc hlen

theorem cache_coherent_preserved (hs : Hs D) (cfg : VCfg) (vlogs : List Bytes) (txLog : Bytes)
    (c c' : VCache) (b : Bytes) (vOff : Nat) (hVal : D) (skip : Bool)
    (hc : c.Coherent cfg vlogs txLog)
    (h : (readValueAtC hs cfg vlogs txLog (some c) b vOff hVal skip).1 = some c') :
    c'.Coherent cfg vlogs txLog :=
  coherent_preserved_thm hs cfg vlogs txLog c c' b vOff hVal skip hc h

/-- **Truncation evicts what it made unreadable.** `TruncateUptoTx` removes from the value cache, right
after `vlog.DiscardUpto(upto)` and with that log still held, every cached value of the log stored before
`upto` (`VCache.evictUpto`): afterwards such an offset is not in the cache, so a read of it — checked or
lenient, `ReadValue` or `ExportTx` — answers exactly what the same read answers without a cache (the disk:
`io.EOF` once the chunk is gone), whatever was cached before.  (Before the repair the cache kept serving
truncated values and the answer of `ExportTx` depended on what happened to be cached: former finding
`C07:ExportTx:value-cache-serves-truncated-values`.) -/
theorem truncated_values_not_served_from_cache (hs : Hs D) (cfg : VCfg) (vlogs : List Bytes) (txLog : Bytes)
    (c : VCache) (vlog upto : Nat) (b : Bytes) (vOff : Nat) (hVal : D) (skip : Bool)
    (h1 : vOff / 2 ^ 56 % 256 = vlog) (h2 : vOff % 2 ^ 55 < upto) :
    (c.evictUpto vlog upto).get vOff = none ∧
    (readValueAtC hs cfg vlogs txLog (some (c.evictUpto vlog upto)) b vOff hVal skip).2 =
    (readValueAtC hs cfg vlogs txLog none b vOff hVal skip).2 :=
  ⟨evictUpto_get_below_thm c vlog upto vOff h1 h2,
   evicted_read_from_disk_thm hs cfg vlogs txLog c vlog upto b vOff hVal skip h1 h2⟩

/-- … and nothing else is touched: values of other logs and values at or after the discard offset stay
cached, and a coherent cache stays coherent. -/
theorem truncation_eviction_keeps_the_rest (cfg : VCfg) (vlogs : List Bytes) (txLog : Bytes)
    (c : VCache) (vlog upto : Nat) :
    (∀ k, k / 2 ^ 56 % 256 ≠ vlog ∨ upto ≤ k % 2 ^ 55 → (c.evictUpto vlog upto).get k = c.get k) ∧
    (c.Coherent cfg vlogs txLog → (c.evictUpto vlog upto).Coherent cfg vlogs txLog) :=
  ⟨fun k h => evictUpto_get_other_thm c vlog upto k h, evictUpto_coherent_thm cfg vlogs txLog c vlog upto⟩

/-- **K2 (documented limit).** Per-record self-authentication only: replace the entries of a
well-formed record by ANY other well-formed entries (different keys, metadata, value hashes,
even a different count) and recompute `NEntries`, `Eh` and the trailing Alh: the resulting
bytes are accepted by the integrity-checked single-record parser, as the altered record. -/
theorem consistent_rewrite_accepted (hs : HsD D) (lim : Limits) (r r' : Record D) (es : List (Entry D))
    (rest : Bytes) (wf : Record.WF hs lim r) (hes : ∀ e ∈ es, Entry.WF r.hdr.version lim e)
    (hmax : es.length ≤ lim.maxEntries) (hfit0 : r.hdr.version = 0 → es.length < 2 ^ 16)
    (hfit : es.length < 2 ^ 32) (hr : reseal hs r.hdr es = some r') :
    ∃ bs', serializeTx hs r' = some bs' ∧ parseTx hs lim (bs' ++ rest) = .ok r' ∧ r'.entries = es := by
  have wf' := reseal_wf_thm hs lim r r' es wf hes hmax hfit0 hfit hr
  obtain ⟨bs', hser⟩ := serialize_some_thm hs lim r' wf'
  refine ⟨bs', hser, parse_serialize_thm hs lim r' bs' rest wf' hser, ?_⟩
  unfold reseal at hr
  simp only [Option.map_eq_some_iff] at hr
  obtain ⟨a, _, rfl⟩ := hr
  rfl

/-- **The integrity-checked parser never panics.** Whatever the bytes are (flipped bits, a
truncated log, the following records), `ReadTx` / `ReadTxHeader` / `ExportTx` / `TxReader` /
the indexer / `Open` get a record or an error from the tx parser. -/
theorem parse_never_panics (hs : HsD D) (lim : Limits) (bs : Bytes) : parseTx hs lim bs ≠ .error .panic :=
  parseTx_noPanic_thm hs lim bs

/-- **Value reads never panic** on an opened store (non-embedded stores hold
`MaxIOConcurrency ≥ 1` value logs), whatever `vLen` / `vOff` say. -/
theorem value_read_never_panics (hs : Hs D) (cfg : VCfg) (vlogs : List Bytes) (txLog : Bytes) (e : Entry D)
    (hlogs : cfg.embedded = false → 0 < vlogs.length) :
    readValue hs cfg vlogs txLog e ≠ .error .panic :=
  readValue_noPanic_thm hs cfg vlogs txLog e hlogs

/-- The former finding F6a: with `MaxIOConcurrency > 1` a value offset whose vlog id (top byte of
the uncovered `vOff`) is outside `1..MaxIOConcurrency` made `fetchVLog` dereference a nil map
entry; the id is now validated and the read returns `ErrUnexpectedError`. -/
theorem fetchVLog_bad_id_rejected (hs : Hs D) (cfg : VCfg) (vlogs : List Bytes) (txLog : Bytes)
    (e : Entry D) (hne : e.vLen ≠ 0) (hlen : e.vLen ≤ cfg.maxValueLen) (hemb : cfg.embedded = false)
    (hio : cfg.maxIO ≠ 1) (hid : vlogs.length < e.vOff / 2 ^ 56 % 256) :
    readValue hs cfg vlogs txLog e = .error .unexpected := by
  have hid0 : e.vOff / 2 ^ 56 % 256 ≠ 0 := by omega
  have hl : ¬ (e.vLen > cfg.maxValueLen) := by omega
  simp [readValue, fetchVLog, hne, hl, hemb, hio, hid0, hid]

/-- The former finding F6b (`make([]byte, vLen)` with the stored, uncovered `vLen`): a length
above `MaxValueLen` is rejected before anything is allocated or read, so a returned value — and
the buffer allocated for it — never exceeds `MaxValueLen`. -/
theorem value_len_bounded (hs : Hs D) (cfg : VCfg) (vlogs : List Bytes) (txLog : Bytes) (e : Entry D) :
    (e.vLen > cfg.maxValueLen → readValue hs cfg vlogs txLog e = .error .corruptedData) ∧
    (∀ v, readValue hs cfg vlogs txLog e = .ok v → v.length ≤ cfg.maxValueLen) := by
  constructor
  · intro h
    have h0 : e.vLen ≠ 0 := by omega
    simp [readValue, h0, h]
  · intro v hv
    by_cases h0 : e.vLen = 0
    · simp [readValue, h0] at hv; subst hv; simp
    · have hl := (value_authentic_partial hs cfg vlogs txLog e v h0 hv).2
      by_cases hgt : e.vLen > cfg.maxValueLen
      · simp [readValue, h0, hgt] at hv
      · omega

/-- The former finding (tx-metadata parser): a version-1 header whose tx metadata declares an
`extra` attribute longer than the metadata bytes present made `TxMetadata.ReadFrom` slice out
of range; it is rejected with `ErrCorruptedData`.  Concrete input: 3 metadata bytes `01 00 05`. -/
theorem txmd_extra_overrun_rejected (hs : HsD D) (lim : Limits) (blRoot prevAlh : D) (rest : Bytes) :
    parseTx hs lim
      (beN 8 1 ++ (beN 8 0 ++ (beN 8 0 ++ (hs.enc blRoot ++ (hs.enc prevAlh ++ (beN 2 1 ++
       (beN 2 3 ++ ([1, 0, 5] ++ rest)))))))) = .error .corruptedData :=
  txmd_overrun_thm hs lim blRoot prevAlh rest

/-- The former finding (tx-metadata serialiser): `TxMetadata.ReadFrom` accepted an `extra`
attribute longer than `maxExtraLen` (anything that fits into `maxTxMetadataLen`), on which
`extraAttribute.serialize` panicked when the header's Alh was computed; it is rejected with
`ErrCorruptedData`.  Concrete input: 260 metadata bytes `01 01 01 ‖ x` with `|x| = 257`. -/
theorem txmd_extra_too_long_rejected (hs : HsD D) (lim : Limits) (a b c : D) (x rest : Bytes)
    (hx : x.length = 257) :
    parseTx hs lim
      (beN 8 1 ++ (beN 8 0 ++ (beN 8 0 ++ (hs.enc a ++ (hs.enc b ++ (beN 2 1 ++
       (beN 2 260 ++ ((1 :: 1 :: 1 :: x) ++ (beN 4 0 ++ (hs.enc c ++ rest)))))))))) = .error .corruptedData :=
  txmd_too_long_thm hs lim a b c x rest hx

/-- **Sequential scans chain the records.** A successful ascending `TxReader` scan returns
one accepted record per transaction and every `PrevAlh` is the Alh of the record read before. -/
theorem scan_chain (hs : HsD D) (lim : Limits) (ss : List Bytes) (rs : List (Record D))
    (h : scanAsc hs lim none ss = .ok rs) :
    rs.length = ss.length ∧ Linked rs ∧ ∀ r ∈ rs, ∃ s ∈ ss, parseTx hs lim s = .ok r :=
  scanAsc_linked_thm hs lim ss rs h

/-- **What a full scan adds to K2.** Two successful ascending scans over the same number of
transactions that END in the same Alh (the one the commit log / the trusted state holds for
the last transaction) agree on everything the Alhs commit to for EVERY transaction of the
range, or exhibit a collision: a consistent rewrite of an inner record (K2) is caught by a
scan that continues to a transaction whose Alh is known.
`_partial`: needs the scan to reach a known Alh; `vLen`/`vOff` stay uncovered. -/
theorem scan_binds_partial (hs : HsD D) (lim lim' : Limits) (ss ss' : List Bytes) (rs rs' : List (Record D))
    (h : scanAsc hs lim none ss = .ok rs) (h' : scanAsc hs lim' none ss' = .ok rs')
    (hlen : rs'.length = rs.length)
    (hlast : (rs'.getLast?).map (·.storedAlh) = (rs.getLast?).map (·.storedAlh)) :
    rs'.map covered = rs.map covered ∨ HColl hs.toHs := by
  obtain ⟨_, hl, hacc⟩ := scanAsc_linked_thm hs lim ss rs h
  obtain ⟨_, hl', hacc'⟩ := scanAsc_linked_thm hs lim' ss' rs' h'
  refine linked_binds_thm hs lim lim' rs rs' ?_ ?_ hl hl' hlen hlast
  · intro r hr; obtain ⟨s, _, hs'⟩ := hacc r hr; exact ⟨s, hs'⟩
  · intro r hr; obtain ⟨s, _, hs'⟩ := hacc' r hr; exact ⟨s, hs'⟩

/-! ### The two entry digest functions (`Tx/EntryDigest.lean`)

`TxEntryDigest_v1_1` (header version 0, data written by immudb ≤ 1.1) hashes only key and value
hash and REFUSES entries carrying kv metadata; `TxEntryDigest_v1_2` (version 1) hashes the
metadata.  Either way the metadata of every entry is authenticated by `Eh`, hence by the Alh:
for version 0 "must be empty", for version 1 "these bytes". -/

/-- **The legacy digest accepts an entry iff NO kv-metadata attribute is set.**  The Go guard is on
the serialised length (`len(e.md.Bytes()) > 0`), which is non-zero for `deleted`, for `expiresAt`,
for `nonIndexable` and for every combination (a guard enumerating attributes has to list them all). -/
theorem legacy_digest_accepts_iff_no_attribute (hs : HsD D) (m : Option KVMd) (key : Bytes)
    (vLen vOff : Nat) (hVal : D) :
    (∃ d, entryDigestV11 hs (Entry.ofKVMd m key vLen vOff hVal) = .ok d) ↔ (m = none ∨ m = some {}) :=
  EDAux.v11_accepts_iff hs m key vLen vOff hVal

/-- **Under each digest function, equal digests mean equal entries INCLUDING the metadata** (key,
kv metadata, value hash), or a collision of `H` is exhibited.  `v` is the header version the
digest function is selected by (`hdr.TxEntryDigest()`); the bounds are those of the 16-bit length
fields of the record. -/
theorem digest_binds_entry (hs : HsD D) (v : Nat) (e e' : Entry D) (d : D)
    (hfit : e.key.length < 2 ^ 16 ∧ e.md.length < 2 ^ 16)
    (hfit' : e'.key.length < 2 ^ 16 ∧ e'.md.length < 2 ^ 16)
    (h : digestFunc hs v e = .ok d) (h' : digestFunc hs v e' = .ok d) :
    (e.md, e.key, e.hVal) = (e'.md, e'.key, e'.hVal) ∨ HColl hs.toHs :=
  EDAux.digestFunc_binds hs v e e' d hfit hfit' h h'

/-- **… and equal `Eh` means equal entry lists including the metadata**: two entry lists of the
same length (the count is a header field, covered by the Alh) for which the checked computation
(`readEntry` digests + `htree.BuildWith`, or `Tx.BuildHashTree`) yields the same root agree on
key, kv metadata and value hash of every entry, or a collision of `H` is exhibited. -/
theorem eh_binds_entries (hs : HsD D) (v : Nat) (es es' : List (Entry D)) (d : D)
    (hfit : ∀ e ∈ es, e.key.length < 2 ^ 16 ∧ e.md.length < 2 ^ 16)
    (hfit' : ∀ e ∈ es', e.key.length < 2 ^ 16 ∧ e.md.length < 2 ^ 16)
    (hlen : es.length = es'.length)
    (h : ehChecked hs v es = .ok d) (h' : ehChecked hs v es' = .ok d) :
    es.map (fun e => (e.md, e.key, e.hVal)) = es'.map (fun e => (e.md, e.key, e.hVal)) ∨ HColl hs.toHs :=
  EDAux.ehChecked_binds hs v es es' d hfit hfit' hlen h h'

/-- The parser uses exactly these functions: the `Eh` of an accepted record is `ehChecked` of its
entries under its header version (so no accepted entry was refused by its digest function). -/
theorem parse_eh_checked (hs : HsD D) (lim : Limits) (bs : Bytes) (r : Record D)
    (h : parseTx hs lim bs = .ok r) : ehChecked hs r.hdr.version r.entries = .ok r.hdr.eh :=
  parseTx_eh_checked_thm hs lim bs r h

/-- **Structure-aware insertion of kv metadata into a legacy record is refused.**  Take a record
as the writer produced it with header version 0, give ANY entry ANY non-empty kv metadata
(`deleted`, `expiresAt`, `nonIndexable`, any combination) and re-serialise it with every length
field consistent — with the original trailing Alh (no hash changes: `v1_1` does not hash the
metadata) or any other: every integrity-checked read answers `ErrMetadataUnsupported`, whatever
follows the record in the log. -/
theorem legacy_metadata_insertion_rejected (hs : HsD D) (lim : Limits) (r : Record D)
    (pre post : List (Entry D)) (e : Entry D) (k : KVMd) (a : D) (bs rest : Bytes)
    (wf : Record.WF hs lim r) (hv : r.hdr.version = 0) (hes : r.entries = pre ++ e :: post)
    (kwf : k.WF) (hk : k ≠ {})
    (hser : serializeTx hs ⟨r.hdr, pre ++ { e with md := k.bytes } :: post, a⟩ = some bs) :
    parseTx hs lim (bs ++ rest) = .error .mdUnsupported :=
  v0_md_insertion_rejected_thm hs lim r pre post e k a bs rest wf hv hes kwf hk hser

/-! ## Non-vacuity: the hypotheses are satisfiable (toy constant hash, concrete record) -/

section Examples

private def z : Digest := Digest.ofBytes []
private def lim0 : Limits := ⟨4, 16⟩
private def e0 : Entry Digest := ⟨[], [107], 3, 2 ^ 56, z⟩
private def e1 : Entry Digest := ⟨[], [108], 3, 2 ^ 56, z⟩
private def h0 : TxHeader Digest := ⟨1, 5, 0, z, z, 1, [], 1, ehOf constHsD 1 [e0]⟩
private def r0 : Record Digest := ⟨h0, [e0], z⟩

private theorem kv0_wf : KVMd.WF {} := by
  intro t h; cases h

private theorem e0_wf : Entry.WF 1 lim0 e0 :=
  { md := ⟨{}, ⟨kv0_wf, rfl⟩⟩, md_v0 := (by decide), key_max := (by decide), key_fit := (by decide),
    vLen_fit := (by decide), vOff_fit := (by decide) }

private theorem e1_wf : Entry.WF 1 lim0 e1 :=
  { md := ⟨{}, ⟨kv0_wf, rfl⟩⟩, md_v0 := (by decide), key_max := (by decide), key_fit := (by decide),
    vLen_fit := (by decide), vOff_fit := (by decide) }

private theorem txmd0_wf : TxMd.WF {} :=
  ⟨(by intro t h; cases h), (by intro x h; cases h)⟩

private theorem r0_wf : Record.WF constHsD lim0 r0 :=
  { id_pos := (by decide), id_fit := (by decide), ts_fit := (by decide), bl_fit := (by decide), ver := .inr rfl,
    md_v0 := (by intro h; cases h),
    md := ⟨{}, ⟨txmd0_wf, rfl⟩⟩,
    ne := rfl, ne_max := (by decide), ne_fit0 := (by intro h; cases h), ne_fit := (by decide),
    entries := (by intro e he; simp [r0] at he; subst he; exact e0_wf),
    eh := rfl, alh := rfl }

/-- `parse_serialize`, `serialize_total`, `flip_detected_wf_partial`: a well-formed record exists. -/
example : ∃ r : Record Digest, Record.WF constHsD lim0 r ∧ r.entries ≠ [] := ⟨r0, r0_wf, by simp [r0]⟩

/-- `parse_authentic`, `flip_detected_partial`: accepted byte streams exist. -/
example : ∃ bs r, parseTx constHsD lim0 bs = .ok (r : Record Digest) := by
  obtain ⟨bs, hser⟩ := serialize_total constHsD lim0 r0 r0_wf
  exact ⟨bs ++ [], r0, parse_serialize constHsD lim0 r0 bs [] r0_wf hser⟩

/-- `consistent_rewrite_accepted`: entries with a DIFFERENT key, re-sealed, are accepted. -/
example : ∃ r' bs', reseal constHsD r0.hdr [e1] = some r' ∧ serializeTx constHsD r' = some bs' ∧
    parseTx constHsD lim0 (bs' ++ []) = .ok r' ∧ r'.entries ≠ r0.entries := by
  have hr : reseal constHsD r0.hdr [e1] = some ⟨{ r0.hdr with nentries := 1, eh := ehOf constHsD 1 [e1] }, [e1], z⟩ := rfl
  obtain ⟨bs', hser, hp, hes⟩ := consistent_rewrite_accepted constHsD lim0 r0 _ [e1] [] r0_wf
    (by intro e he; simp at he; subst he; exact e1_wf) (by decide) (by intro h; cases h) (by decide) hr
  refine ⟨_, bs', hr, hser, hp, ?_⟩
  simp [r0, e0, e1]

/-- `value_authentic_partial` / `value_flip_detected`: successful non-empty value reads exist. -/
example : readValue constHsD.toHs ⟨false, 1, 16⟩ [[9, 8, 7, 6]] [] ⟨[], [107], 3, 2 ^ 56 + 1, z⟩ = .ok [8, 7, 6] := by
  rfl

/-- `cached_value_authentic_partial` / `cached_reads_authentic`: a lenient export followed by a checked
`ReadValue` that is answered FROM THE CACHE (the log given to the second read is empty) exists. -/
example : runReads constHsD.toHs ⟨false, 1, 16⟩ [[9, 8, 7, 6]] [] (some [])
    [.exportRead ⟨[], [107], 3, 2 ^ 56 + 1, z⟩ [0, 0, 0] true, .readValue ⟨[], [107], 3, 2 ^ 56 + 1, z⟩] =
    [.ok [8, 7, 6], .ok [8, 7, 6]] ∧
    readValueC constHsD.toHs ⟨false, 1, 16⟩ [[]] [] (some [(2 ^ 56 + 1, [8, 7, 6])]) ⟨[], [107], 3, 2 ^ 56 + 1, z⟩ =
    (some [(2 ^ 56 + 1, [8, 7, 6])], .ok [8, 7, 6]) := by
  constructor <;> rfl

/-- `cached_read_transparent` needs its length hypothesis: the offset cached with ANOTHER length (a lenient
export of a record whose uncovered `vLen` was altered to 2 ran first) makes the checked read of the intact
entry fail with `ErrCorruptedData` although the value on disk is fine (availability, not integrity). -/
example : readValueC constHsD.toHs ⟨false, 1, 16⟩ [[9, 8, 7, 6]] [] (some [(2 ^ 56 + 1, [8, 7])]) ⟨[], [107], 3, 2 ^ 56 + 1, z⟩ =
    (some [(2 ^ 56 + 1, [8, 7])], .error .corruptedData) ∧
    VCache.Coherent ⟨false, 1, 16⟩ [[9, 8, 7, 6]] [] [(2 ^ 56 + 1, [8, 7])] := by
  constructor
  · rfl
  · intro off bs hm
    simp at hm
    obtain ⟨rfl, rfl⟩ := hm
    rfl

/-- `value_vlen_zero_unchecked`: the same entry with `vLen := 0` is served as the empty value. -/
example : readValue constHsD.toHs ⟨false, 1, 16⟩ [[9, 8, 7, 6]] [] ⟨[], [107], 0, 2 ^ 56 + 1, z⟩ = .ok [] :=
  value_vlen_zero_unchecked _ _ _ _ _ rfl

/-- `fetchVLog_bad_id_rejected`: three value logs, vlog id 4 in the offset. -/
example : readValue constHsD.toHs ⟨false, 3, 16⟩ [[1], [2], [3]] [] ⟨[], [107], 1, 4 * 2 ^ 56, z⟩ = .error .unexpected :=
  fetchVLog_bad_id_rejected _ _ _ _ _ (by decide) (by decide) rfl (by decide) (by decide)

/-- `value_len_bounded`: a stored length above `MaxValueLen`. -/
example : readValue constHsD.toHs ⟨false, 1, 2⟩ [[9, 8, 7, 6]] [] ⟨[], [107], 3, 2 ^ 56 + 1, z⟩ = .error .corruptedData := by
  rfl

/-- `scan_chain` / `scan_binds_partial`: successful scans exist. -/
example : ∃ ss rs, scanAsc constHsD lim0 none ss = .ok (rs : List (Record Digest)) ∧ rs ≠ [] := by
  obtain ⟨bs, hser⟩ := serialize_total constHsD lim0 r0 r0_wf
  have hp := parse_serialize constHsD lim0 r0 bs [] r0_wf hser
  have hp' : parseTx constHsD lim0 bs = .ok r0 := by simpa using hp
  exact ⟨[bs], [r0], by simp [scanAsc, scanStepAsc, hp'], by simp⟩

/-- `legacy_metadata_insertion_rejected`: a well-formed version-0 record exists, and its entry
re-serialised with the non-indexable attribute (`mdLen = 1`, `md = 02`) is refused. -/
private def h0v : TxHeader Digest := ⟨1, 5, 0, z, z, 0, [], 1, ehOf constHsD 0 [e0]⟩
private def r0v : Record Digest := ⟨h0v, [e0], z⟩

private theorem e0_wf0 : Entry.WF 0 lim0 e0 :=
  { md := ⟨{}, ⟨kv0_wf, rfl⟩⟩, md_v0 := (fun _ => rfl), key_max := (by decide), key_fit := (by decide),
    vLen_fit := (by decide), vOff_fit := (by decide) }

private theorem r0v_wf : Record.WF constHsD lim0 r0v :=
  { id_pos := (by decide), id_fit := (by decide), ts_fit := (by decide), bl_fit := (by decide), ver := .inl rfl,
    md_v0 := (fun _ => rfl),
    md := ⟨{}, ⟨txmd0_wf, rfl⟩⟩,
    ne := rfl, ne_max := (by decide), ne_fit0 := (by intro _; decide), ne_fit := (by decide),
    entries := (by intro e he; simp [r0v] at he; subst he; exact e0_wf0),
    eh := rfl, alh := rfl }

example : ∃ bs, serializeTx constHsD ⟨r0v.hdr, [] ++ { e0 with md := ({ nonIndexable := true } : KVMd).bytes } :: [], z⟩ = some bs ∧
    parseTx constHsD lim0 (bs ++ []) = .error .mdUnsupported := by
  have hs : ∃ bs, serializeTx constHsD ⟨r0v.hdr, [] ++ { e0 with md := ({ nonIndexable := true } : KVMd).bytes } :: [], z⟩ = some bs := by
    simp [serializeTx, serializeHeader, r0v, h0v]
  obtain ⟨bs, hser⟩ := hs
  exact ⟨bs, hser, legacy_metadata_insertion_rejected constHsD lim0 r0v [] [] e0 { nonIndexable := true } z bs []
    r0v_wf rfl rfl (by intro t h; cases h) (by decide) hser⟩

/-- `legacy_digest_accepts_iff_no_attribute`: refused for each single attribute, accepted without. -/
example : entryDigestV11 constHsD (Entry.ofKVMd (some { nonIndexable := true }) [107] 3 0 z) = .error .mdUnsupported ∧
    entryDigestV11 constHsD (Entry.ofKVMd (some { deleted := true }) [107] 3 0 z) = .error .mdUnsupported ∧
    entryDigestV11 constHsD (Entry.ofKVMd (some { expiresAt := some 7 }) [107] 3 0 z) = .error .mdUnsupported ∧
    (∃ d, entryDigestV11 constHsD (Entry.ofKVMd none [107] 3 0 z) = .ok d) := by
  refine ⟨rfl, rfl, rfl, _, rfl⟩

/-- `digest_binds_entry` / `eh_binds_entries` / `parse_eh_checked`: successful evaluations exist for both functions. -/
example : (∃ d, digestFunc constHsD 0 e0 = .ok d) ∧ (∃ d, digestFunc constHsD 1 { e0 with md := [2] } = .ok d) ∧
    (∃ d, ehChecked constHsD 0 [e0, e1] = .ok d) ∧ (∃ d, ehChecked constHsD 1 [e0, { e1 with md := [0] }] = .ok d) :=
  ⟨⟨_, rfl⟩, ⟨_, rfl⟩, ⟨_, rfl⟩, ⟨_, rfl⟩⟩

end Examples

end ImmuModel.Props.C09
