/-
C15 — Codecs round-trip, and key encodings preserve SQL order.

ONLY property theorems and their non-vacuity examples live here; helper lemmas are in
ImmuModel/Base/Lex.lean, ImmuModel/Sql/Proofs/*, ImmuModel/Tx/Proofs/*.

Models (mirrors of the code in /repo, tied to it by the C15 correspondence run):
  Sql/KeyEnc.lean      EncodeRawValueAsKey / DecodeValueFromKey, the `Compare` methods, composite keys
  Sql/ValueCodec.lean  EncodeRawValue / decodeValue (row values; nullable variant of the file sorter)
  Tx/Metadata.lean     TxMetadata.Bytes/ReadFrom, KVMetadata.Bytes/unsafeReadFrom
  Tx/HeaderCodec.lean  TxHeader.Bytes/ReadFrom
  Tx/Export.lean       ExportTx (writer) / the parsing part of ReplicateTx — the exported-transaction frame

Hypotheses are decidable predicates: `validKey ty maxLen v`, `orderSafe a b`, `validValue …`,
`TxMd.wf`, `KVMd.wf`, `TxHdr.wf`.  All statements are for every value, length and byte suffix.

Where the code does NOT have the intended property the negation is proved on a concrete
witness: `negzero_encodes_differently`, `nan_order_violated`, `nan_compare_irreflexive`,
`timestamp_order_violated_outside_nano_range`, `nullable_empty_varchar_decodes_null`,
`nullable_empty_blob_decodes_null`.  The store decoders no longer have such a witness: after the
repairs of `extraAttribute.deserialize` / `TxHeader.ReadFrom` the former one is the theorem
`txmd_readable_is_serializable` (+ `txmd_readFrom_no_panic`, `txheader_readFrom_no_panic`).
-/
import ImmuModel.Sql.Proofs.KeyMain
import ImmuModel.Sql.Proofs.ValueRT
import ImmuModel.Tx.Proofs.MdRT
import ImmuModel.Tx.Proofs.HdrRT
import ImmuModel.Tx.Proofs.ExportRT

namespace ImmuModel.Props.C15
open ImmuModel ImmuModel.GoInt ImmuModel.Sql ImmuModel.Tx

-- =============================================================== 1. index keys: round trip

/-- The key encoder accepts every valid value of the column. -/
theorem key_encode_total (ty : SqlType) (n : Int) (v : Val) (h : validKey ty n v = true) :
    ∃ e k, encodeKey v ty n = .ok (e, k) :=
  ⟨_, _, encodeKey_eq h⟩

/-- **Key round trip.** `DecodeValueFromKey` applied to an encoded key — followed by arbitrary
further bytes, as inside a composite index key — returns the value and consumes exactly the
key. For every type, NULL included. -/
theorem key_roundtrip (ty : SqlType) (n : Int) (v : Val) (e : Bytes) (k : Nat)
    (h : validKey ty n v = true) (he : encodeKey v ty n = .ok (e, k)) (rest : Bytes) :
    decodeKey (e ++ rest) ty n = .ok (v, e.length) := by
  rw [encodeKey_eq h] at he
  cases he
  exact decodeKey_keyForm h rest

/-- **Fixed width.** All non-NULL keys of a column `(ty, maxLen)` have the same length. -/
theorem key_width_fixed (ty : SqlType) (n : Int) (v : Val) (e : Bytes) (k : Nat)
    (h : validKey ty n v = true) (hv : v ≠ .null) (he : encodeKey v ty n = .ok (e, k)) :
    e.length = keyWidth ty n := by
  rw [encodeKey_eq h] at he
  cases he
  exact keyForm_length h hv

/-- Equal keys come from equal values (no exclusions: also NaNs and both zeros). -/
theorem key_injective (ty : SqlType) (n : Int) (a b : Val) (e : Bytes) (ka kb : Nat)
    (ha : validKey ty n a = true) (hb : validKey ty n b = true)
    (ea : encodeKey a ty n = .ok (e, ka)) (eb : encodeKey b ty n = .ok (e, kb)) : a = b := by
  have h1 := key_roundtrip ty n a e ka ha ea []
  have h2 := key_roundtrip ty n b e kb hb eb []
  rw [h1] at h2
  cases h2
  rfl

-- =============================================================== 2. index keys: order

/-- **Order.** For two valid values of one column — any type, NULLs included — the result of
the SQL `Compare` is exactly `bytes.Compare` of their keys (all three outcomes), except for the
pairs excluded by `orderSafe`: a float NaN operand, and the pair {+0.0, −0.0}. -/
theorem key_order (ty : SqlType) (n : Int) (a b : Val) (ea eb : Bytes) (ka kb : Nat)
    (ha : validKey ty n a = true) (hb : validKey ty n b = true) (hs : orderSafe a b = true)
    (hea : encodeKey a ty n = .ok (ea, ka)) (heb : encodeKey b ty n = .ok (eb, kb)) :
    sqlCompare a b = .ok (bytesCompare ea eb) := by
  rw [encodeKey_eq ha] at hea
  rw [encodeKey_eq hb] at heb
  cases hea
  cases heb
  exact keyForm_order ha hb hs

/-- `a < b` in SQL iff the key of `a` is lexicographically smaller. -/
theorem key_order_lt (ty : SqlType) (n : Int) (a b : Val) (ea eb : Bytes) (ka kb : Nat)
    (ha : validKey ty n a = true) (hb : validKey ty n b = true) (hs : orderSafe a b = true)
    (hea : encodeKey a ty n = .ok (ea, ka)) (heb : encodeKey b ty n = .ok (eb, kb)) :
    sqlCompare a b = .ok (-1) ↔ lexLt ea eb = true := by
  rw [key_order ty n a b ea eb ka kb ha hb hs hea heb]
  constructor
  · intro h; cases h' : bytesCompare ea eb <;> simp_all [bytesCompare_eq_neg_one.mp]
    all_goals exact bytesCompare_eq_neg_one.mp (by simp_all)
  · intro h; rw [bytesCompare_eq_neg_one.mpr h]

/-- Equal in SQL iff identical key bytes. -/
theorem key_equal_iff (ty : SqlType) (n : Int) (a b : Val) (ea eb : Bytes) (ka kb : Nat)
    (ha : validKey ty n a = true) (hb : validKey ty n b = true) (hs : orderSafe a b = true)
    (hea : encodeKey a ty n = .ok (ea, ka)) (heb : encodeKey b ty n = .ok (eb, kb)) :
    sqlCompare a b = .ok 0 ↔ ea = eb := by
  rw [key_order ty n a b ea eb ka kb ha hb hs hea heb]
  constructor
  · intro h
    have : bytesCompare ea eb = 0 := by injection h
    exact bytesCompare_eq_zero.mp this
  · intro h; rw [bytesCompare_eq_zero.mpr h]

/-- **NULL first.** The key of NULL sorts strictly before the key of every non-NULL value. -/
theorem null_first (ty : SqlType) (n : Int) (v : Val) (e0 e : Bytes) (k0 k : Nat)
    (h : validKey ty n v = true) (hv : v ≠ .null)
    (h0 : encodeKey .null ty n = .ok (e0, k0)) (he : encodeKey v ty n = .ok (e, k)) :
    lexLt e0 e = true := by
  have hn : validKey ty n .null = true := by
    have := validKey_guards h
    cases ty <;> simp [validKey, this.1, this.2]
  have hs : orderSafe .null v = true := by cases v <;> rfl
  have hc : sqlCompare .null v = .ok (-1) := by cases v <;> first | exact absurd rfl hv | rfl
  exact (key_order_lt ty n .null v e0 e k0 k hn h hs h0 he).mp hc

/-- Per-type reading of `key_order`: `int64`. -/
theorem integer_order (i j : Int) (hi : InI64 i) (hj : InI64 j) (ei ej : Bytes) (ki kj : Nat)
    (h1 : encodeKey (.int i) .integer 8 = .ok (ei, ki)) (h2 : encodeKey (.int j) .integer 8 = .ok (ej, kj)) :
    bytesCompare ei ej = intCompare i j := by
  have := key_order .integer 8 (.int i) (.int j) ei ej ki kj (by simp [validKey, hi]; decide)
    (by simp [validKey, hj]; decide) rfl h1 h2
  simp only [sqlCompare] at this
  injection this with this
  exact this.symm

/-- Per-type reading of `key_order`: VARCHAR[n] (also for strings containing NUL bytes, the
empty string and strings of maximal length). -/
theorem varchar_order (n : Int) (s t : Bytes) (hn : 0 < n) (hk : n ≤ (Gen.sqlMaxKeyLen : Int))
    (hs : s.length ≤ n.toNat) (ht : t.length ≤ n.toNat) (es et : Bytes) (ks kt : Nat)
    (h1 : encodeKey (.str s) .varchar n = .ok (es, ks)) (h2 : encodeKey (.str t) .varchar n = .ok (et, kt)) :
    bytesCompare es et = bytesCompare s t := by
  have := key_order .varchar n (.str s) (.str t) es et ks kt (by simp [validKey, hn, hk, hs])
    (by simp [validKey, hn, hk, ht]) rfl h1 h2
  simp only [sqlCompare] at this
  injection this with this
  exact this.symm

/-- Per-type reading of `key_order`: timestamps inside the `UnixNano` range. -/
theorem timestamp_order (s1 s2 : Int) (n1 n2 : Nat) (h1 : n1 < 1000000000) (h2 : n2 < 1000000000)
    (r1 : InI64 (s1 * 1000000000 + (n1 : Int))) (r2 : InI64 (s2 * 1000000000 + (n2 : Int)))
    (e1 e2 : Bytes) (k1 k2 : Nat)
    (he1 : encodeKey (.ts s1 n1) .timestamp 8 = .ok (e1, k1))
    (he2 : encodeKey (.ts s2 n2) .timestamp 8 = .ok (e2, k2)) :
    bytesCompare e1 e2 = tsCompare s1 n1 s2 n2 := by
  have := key_order .timestamp 8 (.ts s1 n1) (.ts s2 n2) e1 e2 k1 k2
    (by simp [validKey, h1, r1]; decide) (by simp [validKey, h2, r2]; decide) rfl he1 he2
  simp only [sqlCompare] at this
  injection this with this
  exact this.symm

/-- Per-type reading of `key_order`: floats that are not NaN and not the pair {+0.0, −0.0}. -/
theorem float_order (a b : Nat) (ha : a < two64) (hb : b < two64)
    (hs : orderSafe (.float a) (.float b) = true) (ea eb : Bytes) (ka kb : Nat)
    (h1 : encodeKey (.float a) .float64 8 = .ok (ea, ka))
    (h2 : encodeKey (.float b) .float64 8 = .ok (eb, kb)) :
    bytesCompare ea eb = floatCompare a b := by
  have := key_order .float64 8 (.float a) (.float b) ea eb ka kb (by simp [validKey, ha]; decide)
    (by simp [validKey, hb]; decide) hs h1 h2
  simp only [sqlCompare] at this
  injection this with this
  exact this.symm

/-- Without any exclusion: the float key bytes realise the IEEE-754 total order of the bit
patterns (−NaN < −Inf < … < −0.0 < +0.0 < … < +Inf < +NaN). -/
theorem float_total_order (a b : Nat) (ha : a < two64) (hb : b < two64) (ea eb : Bytes) (ka kb : Nat)
    (h1 : encodeKey (.float a) .float64 8 = .ok (ea, ka))
    (h2 : encodeKey (.float b) .float64 8 = .ok (eb, kb)) :
    lexLt ea eb = true ↔ floatTotalKey a < floatTotalKey b := by
  have va : validKey .float64 8 (.float a) = true := by simp [validKey, ha]; decide
  have vb : validKey .float64 8 (.float b) = true := by simp [validKey, hb]; decide
  rw [encodeKey_eq va] at h1
  rw [encodeKey_eq vb] at h2
  cases h1
  cases h2
  simp only [keyForm, lexLt_cons_same, be64]
  have fa := fenc_lt ha
  have fb := fenc_lt hb
  rw [← two64_eq] at fa fb
  rw [lexLt_beN 8 _ _ fa fb]
  exact fenc_lt_iff ha hb

/-- **Finding (F5).** −0.0 and +0.0 compare equal in SQL but have different keys (the key of
−0.0 is smaller): "equal values encode identically" fails for this pair. -/
theorem negzero_encodes_differently :
    ∃ ea eb, encodeKey (.float 0x8000000000000000) .float64 8 = .ok (ea, 8) ∧
      encodeKey (.float 0) .float64 8 = .ok (eb, 8) ∧
      sqlCompare (.float 0x8000000000000000) (.float 0) = .ok 0 ∧ ea ≠ eb ∧ lexLt ea eb = true :=
  ⟨[0x80, 0x7f, 0xff, 0xff, 0xff, 0xff, 0xff, 0xff, 0xff], [0x80, 0x80, 0, 0, 0, 0, 0, 0, 0],
    by decide, by decide, by decide, by decide, by decide⟩

/-- **Finding.** A NaN compares "less than" 1.0 (`Compare` returns −1 for any NaN operand) but
its key sorts after the key of 1.0. -/
theorem nan_order_violated :
    ∃ ea eb, encodeKey (.float 0x7FF8000000000000) .float64 8 = .ok (ea, 8) ∧
      encodeKey (.float 0x3FF0000000000000) .float64 8 = .ok (eb, 8) ∧
      sqlCompare (.float 0x7FF8000000000000) (.float 0x3FF0000000000000) = .ok (-1) ∧
      lexLt eb ea = true :=
  ⟨[0x80, 0xff, 0xf8, 0, 0, 0, 0, 0, 0], [0x80, 0xbf, 0xf0, 0, 0, 0, 0, 0, 0],
    by decide, by decide, by decide, by decide⟩

/-- **Finding.** `Compare(NaN, NaN) = −1`: the SQL comparison is not reflexive on NaN although
the two keys are identical. -/
theorem nan_compare_irreflexive :
    sqlCompare (.float 0x7FF8000000000000) (.float 0x7FF8000000000000) = .ok (-1) := by decide

/-- **Finding.** The timestamp key uses `UnixNano()`: one nanosecond after
2262-04-11T23:47:16.854775807Z the int64 wraps and the later instant gets the smaller key. -/
theorem timestamp_order_violated_outside_nano_range :
    ∃ e1 e2, encodeKey (.ts 9223372036 854775807) .timestamp 8 = .ok (e1, 8) ∧
      encodeKey (.ts 9223372036 854775808) .timestamp 8 = .ok (e2, 8) ∧
      sqlCompare (.ts 9223372036 854775807) (.ts 9223372036 854775808) = .ok (-1) ∧
      lexLt e2 e1 = true :=
  ⟨[0x80, 0xff, 0xff, 0xff, 0xff, 0xff, 0xff, 0xff, 0xff], [0x80, 0, 0, 0, 0, 0, 0, 0, 0],
    by decide, by decide, by decide, by decide⟩

-- =============================================================== 3. composite keys

/-- **Composite keys order lexicographically by column**: the byte order of the concatenated
column keys equals the row order "first differing column decides" (NULLs first), because
the keys of one column are pairwise prefix-free (same width, or distinguished by the tag byte). -/
theorem composite_lex (cols : List Col) (as bs : List Val) (ea eb : Bytes)
    (ha : validTuple cols as = true) (hb : validTuple cols bs = true)
    (hs : orderSafeTuple as bs = true)
    (hea : encodeTuple cols as = .ok ea) (heb : encodeTuple cols bs = .ok eb) :
    tupleCompare as bs = .ok (bytesCompare ea eb) := by
  rw [encodeTuple_eq ha] at hea
  rw [encodeTuple_eq hb] at heb
  cases hea
  cases heb
  exact tuple_order ha hb hs

/-- A composite key decodes column by column back to the row (trailing bytes untouched). -/
theorem composite_roundtrip (cols : List Col) (vs : List Val) (e : Bytes)
    (h : validTuple cols vs = true) (he : encodeTuple cols vs = .ok e) (rest : Bytes) :
    decodeTuple cols (e ++ rest) = .ok vs := by
  rw [encodeTuple_eq h] at he
  cases he
  exact decodeTuple_eq h rest

-- =============================================================== 4. row values

/-- **Row value round trip.** `decodeValue (EncodeRawValue v)` — followed by arbitrary further
bytes, as inside a row — gives back `v` (timestamps truncated to microseconds, the stored
precision) and consumes exactly the encoding. With `nullable = true` the empty string/blob is
excluded (see the next theorem). -/
theorem value_roundtrip (ty : SqlType) (maxLen : Int) (v : Val) (nullable : Bool)
    (hv : validValue ty maxLen v = true) (hnull : v = .null → nullable = true)
    (hamb : nullable = true → nullAmbiguous v = false) (rest : Bytes) :
    ∃ e, encodeValue v ty maxLen nullable = .ok e ∧
      decodeValue (e ++ rest) ty nullable = .ok (truncMicros v, e.length) :=
  decode_encode_value hv hnull hamb rest

/-- Microsecond-precision timestamps are reproduced exactly. -/
theorem value_roundtrip_timestamp_micros (sec : Int) (nsec : Nat) (h : nsec % 1000 = 0) :
    truncMicros (.ts sec nsec) = .ts sec nsec := by
  simp only [truncMicros]
  congr 1
  omega

/-- **Finding.** With `nullable = true` (`EncodeNullableValue`/`DecodeNullableValue`, the codec
of the file sorter) the empty string is encoded like NULL and decodes as NULL. -/
theorem nullable_empty_varchar_decodes_null :
    encodeValue (.str []) .varchar (-1) true = .ok [0, 0, 0, 0] ∧
    decodeValue [0, 0, 0, 0] .varchar true = .ok (.null, 4) := by decide

theorem nullable_empty_blob_decodes_null :
    encodeValue (.blob []) .blob (-1) true = .ok [0, 0, 0, 0] ∧
    decodeValue [0, 0, 0, 0] .blob true = .ok (.null, 4) := by decide

-- =============================================================== 5. transaction / entry metadata, header

/-- **TxMetadata round trip**: `ReadFrom (Bytes md) = md`, the serialisation never panics for
metadata within the API limits and stays within `maxTxMetadataLen`. -/
theorem txmd_roundtrip (md : TxMd) (h : md.wf = true) :
    ∃ bs, txmdBytes md = .ok bs ∧ bs.length ≤ Gen.storeMaxTxMetadataLen ∧ txmdReadFrom bs = .ok md := by
  obtain ⟨bs, h1, h2, _, h4⟩ := txmd_roundtrip_aux md h
  exact ⟨bs, h1, h2, h4⟩

/-- **KVMetadata round trip** (expiration at the serialised precision: `Unix()` seconds). -/
theorem kvmd_roundtrip (md : KVMd) (h : md.wf = true) :
    (kvmdBytes md).length ≤ Gen.storeMaxKVMetadataLen ∧ kvmdReadFrom (kvmdBytes md) = .ok md :=
  kvmd_roundtrip_aux md h

/-- **TxHeader round trip**: `ReadFrom (Bytes h) = h` for every well-formed header of version
0 and 1, with any metadata (nil and empty metadata are both read back as nil). -/
theorem txheader_roundtrip (h : TxHdr) (hw : h.wf = true) :
    ∃ bs, hdrBytes h = .ok bs ∧ hdrReadFrom bs = .ok h.norm :=
  hdr_roundtrip_aux h hw

/-- **The store decoders never panic.** `TxMetadata.ReadFrom` and `TxHeader.ReadFrom` return a value
or an error on every byte string (the `Fault.panic` outcomes of the models — `b[i:]` beyond the
buffer after a lying `extra` length, `b[i:]`/`Uint64` on a version-1 header with a short tail —
are excluded by the length checks of `extraAttribute.deserialize` and `TxHeader.ReadFrom`). -/
theorem txmd_readFrom_no_panic (bs : Bytes) : txmdReadFrom bs ≠ .error .panic := by
  have h := txmdReadFrom_spec bs
  cases hr : txmdReadFrom bs with
  | ok md => simp
  | error f => rw [hr] at h; simpa [OkWf] using h

theorem txheader_readFrom_no_panic (bs : Bytes) : hdrReadFrom bs ≠ .error .panic :=
  hdrReadFrom_noPanic bs

/-- **Whatever `TxMetadata.ReadFrom` accepts is within the API limits and round-trips**: the value
is well formed (`extra` of at most `maxExtraLen` bytes), `Bytes()` serialises it without panic and
`ReadFrom` of those bytes gives the same value again. -/
theorem txmd_readable_is_serializable (bs : Bytes) (md : TxMd) (h : txmdReadFrom bs = .ok md) :
    md.wf = true ∧ ∃ out, txmdBytes md = .ok out ∧ txmdReadFrom out = .ok md := by
  have hs := txmdReadFrom_spec bs
  rw [h] at hs
  have hw : md.wf = true := by simpa [OkWf] using hs
  obtain ⟨out, h1, _, _, h4⟩ := txmd_roundtrip_aux md hw
  exact ⟨hw, out, h1, h4⟩

set_option maxRecDepth 100000 in
/-- The former finding (C16/F3 class): an `extra` attribute of 257 bytes, which fits
`maxTxMetadataLen` but on which `Bytes()` would panic (`extraAttribute.serialize` slices a
`[258]byte` array to 259), is rejected by `ReadFrom`; 256 bytes, the maximum `WithExtra` allows,
are still read. -/
theorem txmd_long_extra_rejected :
    txmdReadFrom (codeU8 1 :: 1 :: 1 :: List.replicate 257 0) = .error .corrupted ∧
    txmdBytes { extra := some (List.replicate 257 0) } = .error .panic ∧
    txmdReadFrom (codeU8 1 :: 1 :: 0 :: List.replicate 256 7) = .ok { extra := some (List.replicate 256 7) } :=
  ⟨by decide, by decide, by decide⟩

/-- The former findings `TxMetadata.ReadFrom([1,0,5,0xaa])` (declared length beyond the buffer)
and the version-1 header with a short tail are rejected. -/
theorem txmd_overrun_rejected : txmdReadFrom [1, 0, 5, 0xaa] = .error .corrupted := by decide

-- =============================================================== 6. exported transactions (ExportTx / ReplicateTx)

/-- **Export round trip.** For every transaction `ExportTx` can be given — ANY list of entries, each
with its own optional KV metadata (absent, or any well-formed non-empty metadata), any key and
value/digest, either header version, values present or replaced by digests — the writer succeeds and
the parsing part of `ReplicateTx` returns exactly that transaction (the header up to `norm`: an empty
tx-metadata is read back as `nil`). -/
theorem export_roundtrip (x : Parsed) (hw : x.wf = true) :
    ∃ b, exportTx x = .ok b ∧ parseExported b = .ok { x with hdr := x.hdr.norm } :=
  export_parse_roundtrip_aux x hw

/-- **Entry frames round-trip for every entry list**, whatever follows them: the entry loop of
`ReplicateTx` applied to the concatenated frames of `es` (entries with and without metadata in any
order) followed by arbitrary bytes returns `es` and leaves exactly those bytes. -/
theorem export_entries_roundtrip (es : List PEntry) (hes : es.all PEntry.wf = true) (tail : Bytes) :
    parseEntries es.length (es.flatMap entryBytes ++ tail) = .ok (es, tail) :=
  ExportRTAux.parseEntries_all es hes tail

/-- **The frame of an entry does not depend on its neighbours**: the exported bytes are the header
frame, the per-entry frames one after the other, and the trailer — splitting the entry list anywhere
splits the bytes there (in particular what is written for an entry without metadata is the same
whether or not an earlier entry carried some). -/
theorem export_entry_frames_independent (x : Parsed) (es1 es2 : List PEntry) (hb : Bytes)
    (hh : hdrBytes x.hdr = .ok hb) (he : x.entries = es1 ++ es2) :
    exportTx x = .ok (beN Gen.storeLszSize hb.length ++ hb ++
      (es1.flatMap entryBytes ++ es2.flatMap entryBytes) ++ trailerBytes x.truncated) := by
  simp [exportTx, hh, he, List.flatMap_append]

/-- **Per entry, what was committed is what a replica reads**: key, metadata (absent stays absent,
present stays the same value) and value/digest of every entry, in order, and the truncation flag. -/
theorem export_entries_preserved (x : Parsed) (hw : x.wf = true) (b : Bytes) (hb : exportTx x = .ok b) :
    ∃ y, parseExported b = .ok y ∧ y.entries = x.entries ∧ y.truncated = x.truncated ∧
      y.entries.map (·.md) = x.entries.map (·.md) := by
  obtain ⟨b', h1, h2⟩ := export_parse_roundtrip_aux x hw
  rw [hb] at h1
  cases h1
  exact ⟨_, h2, rfl, rfl, rfl⟩

/-- **The export is injective**: two transactions with the same exported bytes have the same
entries, the same truncation flag and the same header (up to the `nil`/empty tx-metadata). -/
theorem export_injective (x y : Parsed) (hx : x.wf = true) (hy : y.wf = true) (b : Bytes)
    (h1 : exportTx x = .ok b) (h2 : exportTx y = .ok b) :
    x.entries = y.entries ∧ x.truncated = y.truncated ∧ x.hdr.norm = y.hdr.norm := by
  obtain ⟨bx, ex, px⟩ := export_parse_roundtrip_aux x hx
  obtain ⟨by', ey, py⟩ := export_parse_roundtrip_aux y hy
  rw [h1] at ex
  rw [h2] at ey
  cases ex
  cases ey
  rw [px] at py
  have h : ({ x with hdr := x.hdr.norm } : Parsed) = { y with hdr := y.hdr.norm } := Except.ok.inj py
  obtain ⟨hh, he, ht⟩ := Parsed.mk.inj h
  exact ⟨he, ht, hh⟩

/-- Why `PEntry.wf` asks for NON-EMPTY metadata bytes: a non-nil `KVMetadata` without attributes is
written with `mdLen = 0` and read back as `nil` (the tx log stores it the same way, so a committed
transaction never carries one). -/
theorem export_empty_metadata_reads_back_absent :
    parseEntries 1 (entryBytes { key := [0x6b], md := some {}, payload := [7] }) =
      .ok ([{ key := [0x6b], md := none, payload := [7] }], []) := by
  set_option maxRecDepth 100000 in
  decide

-- =============================================================== non-vacuity

example : validKey .integer 8 (.int (-9223372036854775808)) = true := by decide
example : validKey .varchar 3 (.str [0x61, 0x00]) = true := by decide
example : validKey .timestamp 8 (.ts (-1) 999999000) = true := by decide
example : validKey .float64 8 (.float 0xFFF0000000000000) = true := by decide
example : orderSafe (.float 0x8000000000000000) (.float 1) = true := by decide
example : orderSafe (.float 0x8000000000000000) (.float 0) = false := by decide
example : validTuple [⟨.integer, 8⟩, ⟨.varchar, 4⟩, ⟨.boolean, 1⟩]
    [.int 7, .null, .bool true] = true := by decide
example : encodeKey (.str [0x61]) .varchar 3 = .ok ([0x80, 0x61, 0, 0, 0, 0, 0, 1], 1) := by decide
example : validValue .timestamp 0 (.ts (-1) 999999000) = true := by decide
example : (⟨some 5, some [1, 2, 3]⟩ : TxMd).wf = true := by decide
example : (⟨true, some (-1), true⟩ : KVMd).wf = true := by decide
example : ({ id := 2, ts := -5, blTxID := 1, version := 1, md := some ⟨some 1, none⟩, nentries := 70000 } : TxHdr).wf = true := by
  decide

/-- a transaction mixing entries with and without metadata, in both orders -/
example : ({ hdr := { id := 2, ts := 5, blTxID := 1, version := 1, nentries := 4 },
             entries := [⟨[1], some ⟨true, none, false⟩, [9]⟩, ⟨[2], none, []⟩,
                         ⟨[3], some ⟨false, some 1700000000, true⟩, [8, 8]⟩, ⟨[4], none, [7]⟩],
             truncated := false } : Parsed).wf = true := by decide


end ImmuModel.Props.C15
