/-
C03 — Crash durability: acknowledged commits survive; recovery is a consistent prefix.
ONLY property theorems and their non-vacuity examples live here; the model is in
ImmuModel/Store/Crash.lean + Recover.lean, helper lemmas in ImmuModel/Store/Proofs/Crash*.lean.

Quantification: `Reach .code allow s` = every state reachable from the empty store by ANY sequence of
micro-steps of the commit/sync protocol in the code's order (value-log append, tx-log SetOffset+Append,
sync(): vlog sync, tx-log sync, commit-log SetOffset, Append, Sync, acknowledgement; external commit
allowance; buffer-full auto-syncs of any single log at any time) and ANY number of crash+restart cycles;
`c : Choice` = every crash image (per log: any prefix of the un-fsynced cells, optionally a torn next
cell; stale cells past a rewound end re-appear).
-/
import ImmuModel.Store.Proofs.CrashInv
import ImmuModel.Store.Proofs.CrashValues
import ImmuModel.Store.RecoverUnlocked
import ImmuModel.Store.Proofs.IndexInv

namespace ImmuModel.Props.C03
open ImmuModel.Store.Crash

variable {allow : Option Nat} {s : St}

/-- the external commit allowance, when enabled, starts at the committed tx id (0 for the empty store) -/
def AllowInit (allow : Option Nat) : Prop := ∀ a, allow = some a → a = 0

/-- **Recovery never fails**: on every crash image of every reachable state `OpenWith` succeeds
(the last committed tx is in the tx log, readable, and its Alh equals the commit-log copy). -/
theorem recover_total (ha : AllowInit allow) (hr : Reach .code allow s) (c : Choice) :
    ∃ r, recover (crashImage s c) = .ok r :=
  ⟨_, recover_ok s (inv_reach ha hr) c⟩

/-- **Acknowledged commits survive**: the recovered committed frontier is at least the highest acknowledged id,
all acknowledged txs are there, and their records are identical to what was acknowledged. -/
theorem recover_acked_prefix (ha : AllowInit allow) (hr : Reach .code allow s) (c : Choice) (r : Recovered)
    (e : recover (crashImage s c) = .ok r) :
    s.acked ≤ r.committed ∧ s.ackLog.length = s.acked ∧ s.ackLog <+: r.tx.durable.take r.committed := by
  have h := inv_reach ha hr
  obtain ⟨e1, e2, _, _, _⟩ := recovered_durable s h c r e
  have hn := nCl_le_durable s h c
  have hackn : s.acked ≤ nCl s c := by
    have := h.acked_le; have := h.committed_le; unfold nCl; omega
  have hDn : (s.tx.durable.take (nCl s c)).length = nCl s c := by rw [List.length_take]; omega
  refine ⟨by omega, ?_, ?_⟩
  · rw [h.ackLog_eq, List.length_take]; omega
  · rw [e1, e2, take_append_len _ _ _ hDn, h.ackLog_eq]
    refine ⟨(s.tx.durable.take (nCl s c)).drop s.acked, ?_⟩
    have : s.tx.durable.take s.acked = (s.tx.durable.take (nCl s c)).take s.acked := by
      rw [List.take_take, Nat.min_eq_left hackn]
    rw [this, List.take_append_drop]

/-- **Nothing invented**: every recovered tx (committed or re-loaded as precommitted) is a record that was
precommitted before the crash. -/
theorem recover_extends (ha : AllowInit allow) (hr : Reach .code allow s) (c : Choice) (r : Recovered)
    (e : recover (crashImage s c) = .ok r) :
    ∀ x ∈ r.tx.durable, x ∈ s.ever := by
  have h := inv_reach ha hr
  obtain ⟨_, e2, _, _, _⟩ := recovered_durable s h c r e
  intro x hx
  rw [e2] at hx
  have hv := scan_all_ok (recovered_valid s h c) x hx
  apply h.ever_ok x _ hv
  rcases List.mem_append.mp hx with h1 | h1
  · simp [List.mem_of_mem_take h1]
  · have hm := reload_mem _ _ _ _ x h1
    have hm' : x ∈ (crashImage s c).tx := List.mem_of_mem_drop hm
    obtain ⟨rest, eimg, hrest⟩ := image_tx_eq s.tx c.kt c.tt
    have etx : (crashImage s c).tx = s.tx.durable ++ rest := eimg
    rw [etx] at hm'
    rcases List.mem_append.mp hm' with h2 | h2
    · simp [h2]
    · rcases hrest x h2 hv with h3 | h3 <;> simp [h3]

/-- When no stale tail is on disk (e.g. before the first restart): the recovered history
(committed ++ precommitted) is a PREFIX of what had been precommitted. -/
theorem recover_extends_prefix (ha : AllowInit allow) (hr : Reach .code allow s) (c : Choice) (r : Recovered)
    (e : recover (crashImage s c) = .ok r) (hs : s.tx.stale = []) :
    r.tx.durable <+: s.tx.content := by
  have h := inv_reach ha hr
  obtain ⟨_, e2, _, _, _⟩ := recovered_durable s h c r e
  rw [e2]
  exact accepted_prefix_nostale s c hs (nCl_le_durable s h c)

/-- **The recovered history is a chain**: ids are dense from 1, every record parses, `PrevAlh` links hold,
the recovered `(committedTxID, committedAlh)` and `(precommittedTxID, precommittedAlh)` are positions in it. -/
theorem recover_chain (ha : AllowInit allow) (hr : Reach .code allow s) (c : Choice) (r : Recovered)
    (e : recover (crashImage s c) = .ok r) :
    r.committed ≤ r.pre ∧ r.pre = r.tx.durable.length ∧
    r.committedAlh = lastAlh alh0 (r.tx.durable.take r.committed) ∧
    r.preAlh = lastAlh alh0 r.tx.durable ∧
    ∀ i (hi : i < r.tx.durable.length),
      (r.tx.durable[i]).ok = true ∧ (r.tx.durable[i]).id = i + 1 ∧
      (r.tx.durable[i]).prevAlh = lastAlh alh0 (r.tx.durable.take i) := by
  have h := inv_reach ha hr
  obtain ⟨e1, e2, e3, e4, e5⟩ := recovered_durable s h c r e
  have hn := nCl_le_durable s h c
  have hDn : (s.tx.durable.take (nCl s c)).length = nCl s c := by rw [List.length_take]; omega
  refine ⟨by omega, ?_, ?_, ?_, ?_⟩
  · rw [e3, e2, List.length_append, hDn]
  · rw [e4, e1, e2, take_append_len _ _ _ hDn]
  · rw [e5, e2, lastAlh_append]
  · intro i hi
    have hv : scan 0 alh0 r.tx.durable = r.tx.durable := by rw [e2]; exact recovered_valid s h c
    have := scan_getElem hv i hi
    simpa using this

/-- **Crash during / right after recovery**: recovery writes nothing (it only moves logical ends), so recovering any
crash image of the recovered store gives the same result. -/
theorem recover_idempotent (ha : AllowInit allow) (hr : Reach .code allow s) (c c' : Choice) (r : Recovered)
    (e : recover (crashImage s c) = .ok r) :
    recover (crashImage (ofRecovered s r) c') = .ok r := by
  have h := inv_reach ha hr
  have := recovered_eq s h c r e
  rw [this, crashImage_ofRecovered _ _ _ _ _ rfl, ← this]
  exact e

/-- the states the restart leads to are reachable states again: all theorems above apply after any number of crashes -/
theorem restart_reachable (hr : Reach .code allow s) (c : Choice) (s' : St) (e : restart s c = .ok s') :
    Reach .code allow s' := Reach.restart c hr e

/-! ### necessity of the write ordering (the mutations the tie must catch) -/

/-- tx 1 fully committed and acknowledged, tx 2 precommitted, then `sync()` with the commit-log append+sync BEFORE the tx-log sync -/
def swappedTrace : List Step :=
  [.valAppend, .txAppend 7, .syncBegin, .clSetOffset, .clAppend, .clSync, .syncTx, .ack,
   .valAppend, .txAppend 8, .syncBegin, .clSetOffset, .clAppend, .clSync]

/-- **Swapped order loses acknowledged txs**: with "commit-log append+sync" before "tx-log sync" there is a reachable
crash image on which the store does not open any more (commit log ahead of the tx log), although tx 1 was acknowledged. -/
theorem swapped_order_loses_acked :
    ∃ s c, Reach .swapped none s ∧ 1 ≤ s.acked ∧ recover (crashImage s c) = .error Err.txLogTooSmall := by
  refine ⟨((run .swapped {} swappedTrace).getD {}), {}, ?_, ?_, ?_⟩
  · exact reach_run swappedTrace (Reach.init false) (by rfl)
  · decide
  · rfl

def earlyAckTrace : List Step :=
  [.valAppend, .txAppend 7, .syncBegin, .syncTx, .clSetOffset, .clAppend, .ack]

/-- **Acknowledging before the commit-log sync loses acknowledged txs**: the store re-opens with
committed id 0 although tx 1 was acknowledged. -/
theorem early_ack_loses_acked :
    ∃ s c r, Reach .earlyAck none s ∧ s.acked = 1 ∧ recover (crashImage s c) = .ok r ∧ r.committed = 0 := by
  refine ⟨((run .earlyAck {} earlyAckTrace).getD {}), {}, _, ?_, ?_, rfl, ?_⟩
  · exact reach_run earlyAckTrace (Reach.init false) (by rfl)
  · decide
  · decide

/-- the same crash points are harmless under the code's order (sanity of the two witnesses) -/
example : ∃ s, run .code {} [.valAppend, .txAppend 7, .syncBegin, .syncTx, .clSetOffset, .clAppend, .clSync, .ack,
    .valAppend, .txAppend 8, .syncBegin, .syncTx, .clSetOffset, .clAppend] = some s ∧ s.acked = 1 ∧
    (recover (crashImage s {})).toOption.map (fun r => (r.committed, r.pre)) = some (1, 2) := ⟨_, rfl, by decide, by decide⟩

/-- tx 1 precommitted; `sync()` fsyncs the value log; a second committer appends its value and its tx record (tx 2) before
`sync()` goes on; `sync()` fsyncs the tx log, writes and fsyncs the commit-log entries of BOTH txs and acknowledges them -/
def unlockedTrace : List Step :=
  [.valAppend, .txAppend 7, .syncBegin, .valAppend, .txAppend 8, .syncTx, .clSetOffset, .clAppend, .clSync, .ack]

/-- **The value-log fsync must be inside the commit lock**: when a tx record can be appended between the value-log fsync and
the tx-log fsync of one `sync()` (`stepUnlocked`, seeded change c03-b), tx 2 is acknowledged, every crash image recovers it
as committed, and its value cell is in no crash image that lost the un-fsynced writes (harness:
`C03:ordering:acked-tx-values-not-durable`, `C03:recovery:acked-tx-lost`). -/
theorem unlocked_vlog_sync_loses_acked_values :
    ∃ s r x, runUnlocked {} unlockedTrace = some s ∧ s.acked = 2 ∧ recover (crashImage s {}) = .ok r ∧ r.committed = 2 ∧
      x ∈ s.ackLog ∧ x.id = 2 ∧ (crashImage s {}).vl[x.vpos]? = none := by
  refine ⟨((runUnlocked {} unlockedTrace).getD {}), _, { id := 2, prevAlh := [(1, 7)], body := 8, vpos := 1 }, rfl, ?_, rfl, ?_, ?_, rfl, ?_⟩
  · decide
  · decide
  · decide
  · decide

/-- the code's protocol does not admit that interleaving at all (`txAppend` is enabled only outside `sync()`): this is the
line the correspondence answers with "disabled" -/
example : run .code {} (unlockedTrace.take 4) ≠ none ∧ run .code {} (unlockedTrace.take 5) = none := by decide

/-! ### DESIGN K7 as a theorem about the code's protocol (a finding, reproduced on the implementation by the harness) -/

/-- **A recovered tx may have no values**: the tx log is fsynced alone when its write buffer fills (autoSync) while the
values are still in the value-log buffer; after a crash the tx is re-loaded as precommitted (it is never looked up in the
value log) and will be committed, but its value cell does not exist. -/
def k7Trace : List Step := [.valAppend, .txAppend 7, .autoSync .tx]

theorem autosync_recovers_tx_without_values :
    ∃ s c r, Reach .code none s ∧ recover (crashImage s c) = .ok r ∧
      ∃ x ∈ r.tx.durable, (crashImage s c).vl[x.vpos]? = none := by
  refine ⟨((run .code {} k7Trace).getD {}), {}, _, ?_, rfl, ?_⟩
  · exact reach_run k7Trace (Reach.init false) (by rfl)
  · decide

/-- **Values of acknowledged txs are durable — partial**: proved for states reached WITHOUT a restart (`Reach1`).
FULL statement (false of the current code, witness `autosync_recovers_tx_without_values` + harness finding
`C03:recovery:recovered-tx-values-unreadable`):
  `Reach .code allow s → ∀ c, ∀ r ∈ s.ackLog, (crashImage s c).vl[r.vpos]? = some true`
what is missing: after a restart that re-loaded a tx whose values never reached the value log, the syncer commits that tx;
recovery would have to validate the value log (or the tx log must not be fsynced ahead of the value logs). -/
theorem acked_values_durable_partial (ha : AllowInit allow) (hr : Reach1 allow s) (c : Choice) :
    ∀ r ∈ s.ackLog, (crashImage s c).vl[r.vpos]? = some true :=
  acked_values_in_image ha hr c

/-! ### recovery of an index (embedded/tbtree `OpenWith`): the walk over the index commit log

`es` = what the walk sees of the commit log, oldest entry first: per entry the synced flag and the outcome of the checksum
validation of its nodes / history ranges on the crash image.  `walk es` = the number of snapshots kept.  The three theorems
hold for EVERY list (every crash image, any number of crashes, stale and torn entries included). -/

open ImmuModel.Store.IndexRecover ImmuModel.Store.IndexStore in
/-- **Fsynced snapshots are never discarded**: a valid entry with the synced flag is kept. -/
theorem index_walk_keeps_fsynced (es : List Ent) (j : Nat) (e : Ent) (h : es[j]? = some e)
    (hv : e.valid = true) (hs : e.synced = true) : j < walk es :=
  (WalkAux.walk_post es).anchorKept j e h hv hs

open ImmuModel.Store.IndexRecover ImmuModel.Store.IndexStore in
/-- **An invalid snapshot invalidates every newer one**: every kept entry at or above the newest valid fsynced entry is valid
(the walk keeps a valid PREFIX of that window; below that entry nothing is validated, the data was fsynced before the entry
was written). -/
theorem index_walk_kept_valid (es : List Ent) (i : Nat) (e : Ent) (hi : i < walk es) (he : es[i]? = some e)
    (hno : ∀ j e', i < j → es[j]? = some e' → ¬(e'.valid = true ∧ e'.synced = true)) : e.valid = true :=
  (WalkAux.walk_post es).valid i e hi he hno

open ImmuModel.Store.IndexRecover ImmuModel.Store.IndexStore in
/-- **Nothing valid is discarded without need**: the walk keeps the LONGEST valid prefix: the entry right above the kept ones,
if any, is invalid. -/
theorem index_walk_maximal (es : List Ent) :
    walk es ≤ es.length ∧ ∀ e, es[walk es]? = some e → e.valid = false :=
  ⟨(WalkAux.walk_post es).le, (WalkAux.walk_post es).maximal⟩

open ImmuModel.Store.IndexRecover ImmuModel.Store.IndexStore in
/-- On every disk image: every kept snapshot at or above the newest valid fsynced one has its own nodes range and its own
history range on disk with the recorded content. -/
theorem index_recover_kept_validate (img : IImage) (i : Nat) (e : CEntry) (hi : i < walk (ents img))
    (he : (trim img.cl)[i]? = some e)
    (hno : ∀ j e', i < j → (trim img.cl)[j]? = some e' → ¬(entryValid img.nl img.hl e' = true ∧ e'.synced = true)) :
    entryValid img.nl img.hl e = true := by
  have := index_walk_kept_valid (ents img) i { synced := e.synced, valid := entryValid img.nl img.hl e } hi
    (by simp [ents, he])
    (by
      intro j e' hij hj
      simp only [ents, List.getElem?_map] at hj
      cases hc : (trim img.cl)[j]? with
      | none => rw [hc] at hj; cases hj
      | some x =>
        rw [hc] at hj; cases hj
        exact hno j x hij hc)
  exact this

open ImmuModel.Store.IndexRecover ImmuModel.Store.IndexStore in
/-- **One life of an index directory — partial**: for every state reached by flushes (any mix of fsynced and un-fsynced
ones, crash in the middle of a flush included) WITHOUT a restart and every crash image (per log any prefix of the un-fsynced
cells, torn cells), the snapshot `OpenWith` selects is a snapshot of the flush history, the commit log it keeps is a prefix
of the logical one, and below the ends of the snapshot both data logs hold exactly what they held when it was written: the
recovered index is the index after a prefix of the flush history and references no lost data.
FULL statement (false of the current code, witness `index_stale_entry_revalidates`, harness known finding 6
`C03:recovery:index-inconsistent:stale-commit-entry-revalidated`):
  `Reach s → selected walk (crashImage s c) = some e → Consistent (crashImage s c) e`
what is missing: after a recovery that discarded snapshots the commit log holds their entries past its logical end
(`SetOffset` does not truncate) and an entry is validated only by the checksums of its own ranges: the log would have to be
truncated, or an entry tied to its predecessor. -/
theorem index_recover_one_life_partial {s : ISt} (hr : Reach1 s) (c : IChoice) (e : CEntry)
    (h : selected walk (crashImage s c) = some e) :
    Consistent (crashImage s c) e ∧
    ∃ k, s.cl.content[k]? = some e ∧ (trim (crashImage s c).cl).take (k + 1) = s.cl.content.take (k + 1) :=
  InvAux.first_life (InvAux.inv1_reach hr) c e h

/-- life 1: three un-fsynced snapshots, the second appends history; crash: the history write is lost (snapshot 2 does not
validate, snapshot 3 — empty history range — does), recovery keeps snapshot 1 and rewinds; life 2: one new snapshot in the
slot of snapshot 2 -/
def staleEntryTrace : List (ImmuModel.Store.IndexStore.IStep ⊕ ImmuModel.Store.IndexStore.IChoice) :=
  ImmuModel.Store.IndexStore.flush [1] [] false ++ ImmuModel.Store.IndexStore.flush [2] [9] false ++
  ImmuModel.Store.IndexStore.flush [3] [] false ++ [.inr { kn := 3, kh := 0, kc := 3 }] ++
  ImmuModel.Store.IndexStore.flush [7] [8] false

open ImmuModel.Store.IndexRecover ImmuModel.Store.IndexStore in
/-- **A stale commit entry validates again** (finding): after the second crash — every written cell survives — the commit log
reads [snapshot 1, the new snapshot, snapshot 3 of life 1]; all validate, the stale one is the newest and is selected; the
nodes log below its end is not what it was when it was written, and it is no snapshot of the current flush history. -/
theorem index_stale_entry_revalidates :
    ∃ s c e, Reach s ∧ selected walk (crashImage s c) = some e ∧ ¬ Consistent (crashImage s c) e ∧ e ∉ s.cl.content := by
  refine ⟨((run {} staleEntryTrace).getD {}), { kn := 1, kh := 1, kc := 1 },
    { synced := false, nFrom := 2, nTo := 3, root := 1, nSum := [3], hFrom := 1, hTo := 1, hSum := [], nAll := [1, 2, 3], hAll := [9] },
    InvAux.reach_run staleEntryTrace Reach.init (by rfl), by decide, by decide, by decide⟩

/-- life 1: two un-fsynced snapshots; crash: the second commit entry is lost, its node and history cells are not (they stay
past the rewound ends); life 2: snapshot A (appends history), snapshot B (appends none) -/
def keepNewestTrace : List (ImmuModel.Store.IndexStore.IStep ⊕ ImmuModel.Store.IndexStore.IChoice) :=
  ImmuModel.Store.IndexStore.flush [1] [] false ++ ImmuModel.Store.IndexStore.flush [2] [9] false ++
  [.inr { kn := 2, kh := 1, kc := 1 }] ++
  ImmuModel.Store.IndexStore.flush [5] [8] false ++ ImmuModel.Store.IndexStore.flush [6] [] false

open ImmuModel.Store.IndexRecover ImmuModel.Store.IndexStore in
/-- **Keeping the newest valid snapshot above an invalid one references lost data** (seeded change `c03-d`): crash image of
life 2 in which the history write of A is lost (the stale cell of life 1 is there instead) and everything else survived.
The walk of the code discards A and B and selects a consistent snapshot; the walk that discards only A selects B, whose
history log below its end is not what B was written over (`History(k)` reads the stale cell). -/
theorem index_keep_newest_references_lost_data :
    ∃ s c e e', Reach s ∧
      selected walkKeepNewest (crashImage s c) = some e ∧ ¬ Consistent (crashImage s c) e ∧
      selected walk (crashImage s c) = some e' ∧ Consistent (crashImage s c) e' := by
  refine ⟨((run {} keepNewestTrace).getD {}), { kn := 2, kh := 0, kc := 2 },
    { synced := false, nFrom := 2, nTo := 3, root := 1, nSum := [6], hFrom := 1, hTo := 1, hSum := [], nAll := [1, 5, 6], hAll := [8] },
    { synced := false, nFrom := 0, nTo := 1, root := 1, nSum := [1], hFrom := 0, hTo := 0, hSum := [], nAll := [1], hAll := [] },
    InvAux.reach_run keepNewestTrace Reach.init (by rfl), by decide, by decide, by decide, by decide⟩

open ImmuModel.Store.IndexRecover ImmuModel.Store.IndexStore in
/-- **A commit entry torn over a stale entry validates** (finding, harness known finding 5): the slot holds the nodes half of
the new entry `e` and the history half of the stale entry `o`; when the new nodes are on disk and the history log still
holds what `o` recorded, the entry passes `OpenWith`'s validation although it was never written. -/
theorem index_spliced_entry_validates (nl hl : List Nat) (e o : CEntry)
    (hok : e.ok = true) (hf : e.fieldsOK = true) (hh : e.hFrom ≤ o.hTo)
    (hn : rangeOK nl e.nFrom e.nTo e.nSum = true) (ho : rangeOK hl e.hFrom o.hTo o.hSum = true) :
    entryValid nl hl (splice e o) = true := by
  unfold CEntry.fieldsOK at hf
  simp only [Bool.and_eq_true, decide_eq_true_eq] at hf
  simp [entryValid, splice, CEntry.fieldsOK, hok, hf.1.1.1, hf.1.1.2, hf.1.2, hh, hn, ho]

/-! ### non-vacuity -/

/-- one life: an fsynced snapshot, then two un-fsynced ones (the first of them appends history) -/
def oneLifeTrace : List ImmuModel.Store.IndexStore.IStep :=
  [.write [1] [] true, .syncData, .entry, .syncEntry, .write [2] [9] false, .entry, .write [3] [] false, .entry]

open ImmuModel.Store.IndexRecover ImmuModel.Store.IndexStore in
/-- a crash image of that life that keeps both un-fsynced commit entries and loses the node cell of the last snapshot:
recovery selects the second snapshot (hypotheses of `index_recover_one_life_partial` are satisfiable) -/
example : ∃ s c e, Reach1 s ∧ selected walk (crashImage s c) = some e ∧ e.nTo = 2 ∧
    s.cl.durable.length = 1 ∧ s.cl.volatile.length = 2 :=
  ⟨((run {} (oneLifeTrace.map Sum.inl)).getD {}), { kn := 1, kh := 1, kc := 2 },
    { synced := false, nFrom := 1, nTo := 2, root := 1, nSum := [2], hFrom := 0, hTo := 1, hSum := [9], nAll := [1, 2], hAll := [9] },
    InvAux.reach1_run oneLifeTrace Reach1.init (by rfl), by decide, by decide, by decide, by decide⟩

open ImmuModel.Store.IndexRecover ImmuModel.Store.IndexStore in
/-- the walk on [fsynced valid, valid, invalid, valid]: the second entry is kept, the fourth is discarded with the third;
the variant of the seeded change keeps the fourth -/
example : walk [⟨true, true⟩, ⟨false, true⟩, ⟨false, false⟩, ⟨false, true⟩] = 2 ∧
    walkKeepNewest [⟨true, true⟩, ⟨false, true⟩, ⟨false, false⟩, ⟨false, true⟩] = 4 := by decide

def backlogTrace : List Step :=
  [.valAppend, .txAppend 1, .valAppend, .txAppend 2, .allowUpto 1,
   .syncBegin, .syncTx, .clSetOffset, .clAppend, .clSync, .ack, .valAppend, .txAppend 3, .allowUpto 2,
   .syncBegin, .syncTx, .clSetOffset, .clAppend]

/-- a reachable state with an acknowledged tx, a durable precommitted backlog and a volatile commit-log entry -/
example : ∃ s, Reach .code (some 0) s ∧ s.acked = 1 ∧ s.pre = 3 ∧ s.cl.volatile.length = 1 :=
  ⟨((run .code { allow := some 0 } backlogTrace).getD {}), reach_run backlogTrace (Reach.init false) (by rfl), by decide, by decide, by decide⟩

/-- a restart-free reachable state with an acknowledged tx (hypotheses of `acked_values_durable_partial`) -/
example : ∃ s, Reach1 (some 0) s ∧ s.ackLog.length = 1 :=
  ⟨((run .code { allow := some 0 } backlogTrace).getD {}), reach1_run backlogTrace (Reach1.init false) (by rfl), by decide⟩

example : AllowInit none ∧ AllowInit (some 0) :=
  ⟨(by intro a h; cases h), (by intro a h; cases h; rfl)⟩

/-- a crash image with a torn tx record and a partial commit-log entry is recovered to (1 committed, 1 precommitted) -/
example : (recover { vl := [true], tx := [{ id := 1, prevAlh := alh0, body := 5 }, { id := 2, prevAlh := [(1, 5)], body := 6, ok := false }],
                     cl := [{ alh := [(1, 5)] }, { alh := [], ok := false }] }).toOption.map (fun r => (r.committed, r.pre)) = some (1, 1) := by decide

end ImmuModel.Props.C03
