/-
C19 — Document collections store and find documents faithfully.
ONLY the property theorems and non-vacuity examples live here; helper lemmas are in
ImmuModel/Doc/Proofs.lean.  The theorems are about the model `ImmuModel/Doc/Doc.lean`, which mirrors
embedded/document (typed view computed at upsert time, NULL smallest, amd64 float→int64) and is tied to the
real engine by the `c19 …` driver operations replayed by the harness.

Fragment: fields of type STRING / BOOLEAN / INTEGER / DOUBLE (and the id column), comparisons
EQ NE LT LE GT GE in disjunctive normal form, ORDER BY, OFFSET, LIMIT, count, audit, replace, delete.
Outside (oracle only): UUID fields, LIKE / NOT_LIKE, secondary and unique indexes, proofs.
-/
import ImmuModel.Doc.Doc
import ImmuModel.Doc.Proofs

namespace ImmuModel.Props.C19
open ImmuModel ImmuModel.Doc ImmuModel.Doc.ProofsAux

/-- (a) insert then get by id: the stored payload is the document itself — what comes back is exactly the
document given plus the `_id` key (hex of the id), every other key is untouched, the entry has one revision
and its row is the typed view of that document under the schema at insertion time. -/
theorem insert_get_roundtrip (c c' : Coll) (id : Bytes) (doc : JObj)
    (hfresh : ∀ d ∈ c.docs, d.id ≠ id) (h : insert c id doc = .ok c') :
    get c' id = some (withId doc id) ∧
    assoc idField (withId doc id) = some (.str (hexEncode id)) ∧
    (∀ k, k ≠ idField → assoc k (withId doc id) = assoc k doc) ∧
    ∃ r, toRow c.fields (withId doc id) = .ok r ∧
      findDoc c' id = some { id := id, revs := [{ doc := some (withId doc id), row := r }] } := by
  obtain ⟨r, hr, hc⟩ := insert_ok c c' id doc h
  have hf := find_insertEntry { id := id, revs := [{ doc := some (withId doc id), row := r }] } c.docs hfresh
  refine ⟨?_, assoc_setKey_same _ _ _, fun k hk => assoc_setKey_other _ _ _ _ hk, r, hr, ?_⟩
  · subst hc
    unfold Doc.get findDoc
    simp only [hf]
    simp [liveHit, lastRev]
  · subst hc
    unfold findDoc
    exact hf

/-- (b) a document is returned by a search exactly when it is live and its STORED typed view satisfies the
filter (no limit, no offset).  With `insert_get_roundtrip`, for a document written under the current schema the
stored view is `toRow fields doc`: INTEGER fields are compared after `f2i`, NULL is the smallest value. -/
theorem search_exact (c : Coll) (q : CQuery) (hl : q.limit = 0) (id : Bytes) :
    id ∈ search c q 0 ↔
      ∃ d ∈ c.docs, ∃ h, liveHit d = some h ∧ h.id = id ∧ rowMatches q.exprs h.row = true := by
  unfold search searchHits
  rw [hl, window_nolimit]
  simp only [List.mem_map]
  have hm : ∀ h, h ∈ matchesSorted c q ↔ (h ∈ liveHits c ∧ rowMatches q.exprs h.row = true) := by
    intro h
    unfold matchesSorted
    split
    · simp [List.mem_filter]
    · rw [mem_isort]; simp [List.mem_filter]
  constructor
  · rintro ⟨h, hh, rfl⟩
    rw [hm] at hh
    obtain ⟨hlive, hmt⟩ := hh
    unfold liveHits at hlive
    rw [List.mem_filterMap] at hlive
    obtain ⟨d, hd, hdh⟩ := hlive
    exact ⟨d, hd, h, hdh, rfl, hmt⟩
  · rintro ⟨d, hd, h, hdh, hid, hmt⟩
    refine ⟨h, ?_, hid⟩
    rw [hm]
    refine ⟨?_, hmt⟩
    unfold liveHits
    rw [List.mem_filterMap]
    exact ⟨d, hd, hdh⟩

/-- nothing that does not satisfy the filter is ever returned, whatever the paging -/
theorem search_sound (c : Coll) (q : CQuery) (offset : Nat) (id : Bytes) (hin : id ∈ search c q offset) :
    ∃ d ∈ c.docs, ∃ h, liveHit d = some h ∧ h.id = id ∧ rowMatches q.exprs h.row = true := by
  unfold search searchHits at hin
  simp only [List.mem_map] at hin
  obtain ⟨h, hh, rfl⟩ := hin
  have hh := mem_window hh
  have hm : h ∈ liveHits c ∧ rowMatches q.exprs h.row = true := by
    unfold matchesSorted at hh
    split at hh
    · simpa [List.mem_filter] using hh
    · rw [mem_isort] at hh; simpa [List.mem_filter] using hh
  obtain ⟨hlive, hmt⟩ := hm
  unfold liveHits at hlive
  rw [List.mem_filterMap] at hlive
  obtain ⟨d, hd, hdh⟩ := hlive
  exact ⟨d, hd, h, hdh, rfl, hmt⟩

/-- (b) order: consecutive results are in ORDER BY order (`ordCmp ≤ 0`), for every offset and limit, provided
no stored DOUBLE is a NaN (`(*Float64).Compare` is not antisymmetric on NaN — C15 finding).  Stated for
adjacent results; NULLs sort first (ASC), ties keep the scan order in the model. -/
theorem search_sorted (c : Coll) (q : CQuery) (offset : Nat)
    (hnan : ∀ h ∈ liveHits c, ∀ f, NoNaN (rowGet h.row f)) :
    AdjSorted (hitLe q.order) (searchHits c q offset) := by
  unfold searchHits
  apply adjSorted_window
  unfold matchesSorted
  split
  · rename_i he
    apply adjSorted_of_true
    intro a b
    have : q.order = [] := by simpa using he
    simp [hitLe, this, ordCmp]
  · apply adjSorted_isort
    intro a ha b hb
    have ha' := (List.mem_filter.mp ha).1
    have hb' := (List.mem_filter.mp hb).1
    have := ordCmp_antisymm q.order a.row b.row (hnan a ha') (hnan b hb')
    unfold hitLe
    simp only [decide_eq_true_eq]
    omega

/-- (b) paging: the pages of size `p` at offsets 0, p, 2p, … concatenate to the first `n·p` results of the
unpaged search — no gaps and no document on two pages beyond what the unpaged list itself contains. -/
theorem paging_partition (c : Coll) (q : CQuery) (p n : Nat) (hp : 0 < p) :
    (List.range n).flatMap (fun k => search c { q with limit := p } (k * p))
      = (search c { q with limit := 0 } 0).take (n * p) := by
  unfold search searchHits
  have h1 : matchesSorted c { q with limit := p } = matchesSorted c { q with limit := 0 } := rfl
  simp only [h1, window_nolimit]
  rw [← List.map_take, ← pages_concat p hp _ n, List.map_flatMap]

/-- the unpaged result has no duplicate ids when the collection's ids are distinct (so, with
`paging_partition`, neither have the pages) -/
theorem search_nodup (c : Coll) (q : CQuery) (offset : Nat) (hnd : (c.docs.map (·.id)).Nodup) :
    (search c q offset).Nodup := by
  unfold search searchHits
  have hlive : ((liveHits c).map (·.id)).Sublist (c.docs.map (·.id)) := by
    unfold liveHits
    generalize c.docs = ds
    induction ds with
    | nil => simp
    | cons d t ih =>
      simp only [List.filterMap_cons, List.map_cons]
      cases hd : liveHit d with
      | none => simp only; exact List.Sublist.cons _ ih
      | some h =>
        simp only [List.map_cons]
        rw [liveHit_id d h hd]
        exact List.Sublist.cons_cons _ ih
  have hms : ((matchesSorted c q).map (·.id)).Nodup := by
    have hf : (((liveHits c).filter (fun h => rowMatches q.exprs h.row)).map (·.id)).Nodup :=
      (((List.filter_sublist).map _).trans hlive).nodup hnd
    unfold matchesSorted
    split
    · exact hf
    · exact ((perm_isort _ _).map _).nodup_iff.mpr hf
  have hw : ((window offset q.limit (matchesSorted c q)).map (·.id)).Sublist ((matchesSorted c q).map (·.id)) := by
    apply List.Sublist.map
    unfold window
    split
    · exact List.drop_sublist _ _
    · exact (List.take_sublist _ _).trans (List.drop_sublist _ _)
  exact hw.nodup hms

/-- (c) CountDocuments = number of documents the same query returns -/
theorem count_eq_length (c : Coll) (q : CQuery) (offset : Nat) :
    count c q offset = (search c q offset).length := by
  unfold count search searchHits
  rw [sum_ones, List.length_map]

/-- (f) the audit lists every revision, numbered 1, 2, … in the order they were written (ascending), and the
same list reversed when asked in descending order. -/
theorem audit_lists_all_revisions_in_order (c : Coll) (id : Bytes) (d : DocEntry)
    (hd : findDoc c id = some d) (hne : d.revs ≠ []) :
    ∃ l, audit c id false 0 d.revs.length = .ok l ∧
      l.map (·.1) = List.range' 1 d.revs.length ∧
      l.map (·.2) = d.revs.map (·.doc) ∧
      audit c id true 0 d.revs.length = .ok l.reverse := by
  have hlen : (history d).length = d.revs.length := by simp [history, numberFrom_length]
  have hpos : 0 < d.revs.length := List.length_pos_iff.mpr hne
  refine ⟨history d, ?_, ?_, ?_, ?_⟩
  · unfold audit
    simp only [hd, Bool.false_eq_true, if_false, hlen]
    have : ¬ (0 ≥ d.revs.length) := by omega
    simp only [this, if_false, List.drop_zero]
    rw [← hlen, List.take_length]
  · simp [history, numberFrom_fst]
  · simp [history, numberFrom_snd]
  · unfold audit
    simp only [hd, if_true, List.length_reverse, hlen]
    have : ¬ (0 ≥ d.revs.length) := by omega
    simp only [this, if_false, List.drop_zero]
    rw [← hlen, ← List.length_reverse, List.take_length]

/-- (a)/(f) a replacement adds exactly one revision: the new content with the next revision number; the
earlier revisions stay as they were; get returns the new content. -/
theorem replace_adds_revision (c c' : Coll) (id : Bytes) (full : JObj) (d : DocEntry)
    (hd : findDoc c id = some d) (h : replaceOne c id full = .ok c') :
    ∃ r, toRow c.fields full = .ok r ∧
      findDoc c' id = some { d with revs := d.revs ++ [{ doc := some full, row := r }] } ∧
      history { d with revs := d.revs ++ [{ doc := some full, row := r }] }
        = history d ++ [(d.revs.length + 1, some full)] ∧
      get c' id = some full := by
  unfold replaceOne at h
  simp only [hd] at h
  split at h
  · simp at h
  · rename_i r hr
    split at h
    · simp at h
    · injection h with h
      subst h
      have hf := find_appendRev_same id { doc := some full, row := r } c.docs d hd
      refine ⟨r, hr, hf, ?_, ?_⟩
      · simp [history, numberFrom_append, Nat.add_comm]
      · unfold Doc.get
        unfold findDoc at hf ⊢
        simp only [hf]
        simp [liveHit, lastRev]

/-- (f) deletion: the document disappears from every search (whatever the filter, order and paging) but not
from the audit: its history gains one revision marked deleted (no content), earlier revisions are intact, and
other documents are untouched. -/
theorem delete_removes_from_search_not_from_audit (c : Coll) (id : Bytes) (d : DocEntry)
    (hnd : (c.docs.map (·.id)).Nodup) (hd : findDoc c id = some d) :
    (∀ q offset, id ∉ search (deleteOne c id) q offset) ∧
    findDoc (deleteOne c id) id = some { d with revs := d.revs ++ [{ doc := none, row := [] }] } ∧
    history { d with revs := d.revs ++ [{ doc := none, row := [] }] }
      = history d ++ [(d.revs.length + 1, none)] ∧
    (∀ id', id' ≠ id → findDoc (deleteOne c id) id' = findDoc c id') := by
  refine ⟨?_, ?_, ?_, ?_⟩
  · intro q offset hin
    obtain ⟨d', hd', h, hh, hid, _⟩ := search_sound (deleteOne c id) q offset id hin
    have hid' : d'.id = id := by rw [← liveHit_id d' h hh]; exact hid
    obtain ⟨d0, _, _, heq⟩ := appendRev_mem id { doc := none, row := [] } c.docs hnd d' hd' hid'
    rw [heq] at hh
    simp [liveHit, lastRev] at hh
  · exact find_appendRev_same id _ c.docs d hd
  · simp [history, numberFrom_append, Nat.add_comm]
  · intro id' hne
    exact find_appendRev_other id id' _ c.docs hne

/-- the typed view mirrors the engine's float→integer conversion: fractions are truncated toward zero and a
value outside the int64 range (here 1e308) becomes −2^63 (amd64) — which is why such a document matches
`n < 0` and not `n > 5` (finding `integer-out-of-range`). -/
theorem typed_view_integer_conversion :
    f2i 0x4005999999999999 = 2 ∧ f2i 0xC005999999999999 = -2 ∧
    f2i 0x7FE1CCF385EBC8A0 = -9223372036854775808 ∧ f2i 0x43E0000000000000 = -9223372036854775808 ∧
    f2i 0xC3E0000000000000 = -9223372036854775808 ∧ f2i 0x43DFFFFFFFFFFFFF = 9223372036854774784 := by
  decide

-- ------------------------------------------------------------------ non-vacuity

/-- a one-field collection, two documents: the hypotheses of the theorems above are satisfiable -/
def exFields : List Field := [{ name := [110], ty := .int }]   -- "n" INTEGER
def exColl0 : Coll := { fields := exFields, docs := [] }
def exDoc (bits : Nat) : JObj := [([110], .num bits)]

example : (match insert exColl0 [1] (exDoc 0x4005999999999999) with
    | .ok c' => (search c' { exprs := [[{ field := [110], op := .eq, val := .int 2 }]], order := [], limit := 0 } 0 == [[1]])
    | .error _ => false) = true := by decide

example : (match insert exColl0 [1] (exDoc 0x7FE1CCF385EBC8A0) with
    | .ok c' => (search c' { exprs := [[{ field := [110], op := .lt, val := .int 0 }]], order := [], limit := 0 } 0 == [[1]])
    | .error _ => false) = true := by decide

example : ∀ d ∈ exColl0.docs, d.id ≠ [1] := by simp [exColl0]

end ImmuModel.Props.C19
