/-
C19 — Document collections store and find documents faithfully.
ONLY the property theorems and non-vacuity examples live here; helper lemmas are in
ImmuModel/Doc/Proofs.lean.  The theorems are about the model `ImmuModel/Doc/Doc.lean`, which mirrors
embedded/document (typed view computed at upsert time, NULL smallest, amd64 float→int64) and is tied to the
real engine by the `c19 …` driver operations replayed by the harness.

Fragment: fields of type STRING / BOOLEAN / INTEGER / DOUBLE (and the id column), comparisons
EQ NE LT LE GT GE in disjunctive normal form, ORDER BY, OFFSET, LIMIT, count, audit, replace, delete.
Outside (oracle only): UUID fields, LIKE / NOT_LIKE, secondary and unique indexes.
Document proofs: `ImmuModel/Doc/Verify.lean` mirrors `pkg/verification.VerifyDocument`; the theorems
`verifyDocument_sound` / `verifyDocument_entry_in_tx` (end of this file) say what an accepted proof establishes.
-/
import ImmuModel.Doc.Doc
import ImmuModel.Doc.Proofs
import ImmuModel.Doc.VerifyProofs
import ImmuModel.Tx.Concrete

namespace ImmuModel.Props.C19
open ImmuModel ImmuModel.Doc ImmuModel.Doc.ProofsAux

/-- (a) insert then get by id: the stored payload is the document itself — what comes back is exactly the
document given plus the `_id` key (hex of the id), every other key is untouched, the entry has one revision
and its row is the typed view of that document under the schema at insertion time. -/
theorem insert_get_roundtrip (c c' : Coll) (id : Bytes) (doc : JObj)
    (hfresh : ∀ d ∈ c.docs, d.id ≠ id) (h : insert c id doc = .ok c') :
    get c' id = some (withId doc id) ∧
    assoc idField (withId doc id) = some (.str (hexEncode id)) ∧
    (∀ k, k ≠ idField → assoc k (withId doc id) = assoc k doc) ∧
    ∃ r, toRow c.fields (withId doc id) = .ok r ∧
      findDoc c' id = some { id := id, revs := [{ doc := some (withId doc id), row := r }] } := by
  obtain ⟨r, hr, hc⟩ := insert_ok c c' id doc h
  have hf := find_insertEntry { id := id, revs := [{ doc := some (withId doc id), row := r }] } c.docs hfresh
  refine ⟨?_, assoc_setKey_same _ _ _, fun k hk => assoc_setKey_other _ _ _ _ hk, r, hr, ?_⟩
  · subst hc
    unfold Doc.get findDoc
    simp only [hf]
    simp [liveHit, lastRev]
  · subst hc
    unfold findDoc
    exact hf

/-- (b) a document is returned by a search exactly when it is live and its STORED typed view satisfies the
filter (no limit, no offset).  With `insert_get_roundtrip`, for a document written under the current schema the
stored view is `toRow fields doc`: INTEGER fields are compared after `f2i`, NULL is the smallest value. -/
theorem search_exact (c : Coll) (q : CQuery) (hl : q.limit = 0) (id : Bytes) :
    id ∈ search c q 0 ↔
      ∃ d ∈ c.docs, ∃ h, liveHit d = some h ∧ h.id = id ∧ rowMatches q.exprs h.row = true := by
  unfold search searchHits
  rw [hl, window_nolimit]
  simp only [List.mem_map]
  have hm : ∀ h, h ∈ matchesSorted c q ↔ (h ∈ liveHits c ∧ rowMatches q.exprs h.row = true) := by
    intro h
    unfold matchesSorted
    split
    · simp [List.mem_filter]
    · rw [mem_isort]; simp [List.mem_filter]
  constructor
  · rintro ⟨h, hh, rfl⟩
    rw [hm] at hh
    obtain ⟨hlive, hmt⟩ := hh
    unfold liveHits at hlive
    rw [List.mem_filterMap] at hlive
    obtain ⟨d, hd, hdh⟩ := hlive
    exact ⟨d, hd, h, hdh, rfl, hmt⟩
  · rintro ⟨d, hd, h, hdh, hid, hmt⟩
    refine ⟨h, ?_, hid⟩
    rw [hm]
    refine ⟨?_, hmt⟩
    unfold liveHits
    rw [List.mem_filterMap]
    exact ⟨d, hd, hdh⟩

/-- nothing that does not satisfy the filter is ever returned, whatever the paging -/
theorem search_sound (c : Coll) (q : CQuery) (offset : Nat) (id : Bytes) (hin : id ∈ search c q offset) :
    ∃ d ∈ c.docs, ∃ h, liveHit d = some h ∧ h.id = id ∧ rowMatches q.exprs h.row = true := by
  unfold search searchHits at hin
  simp only [List.mem_map] at hin
  obtain ⟨h, hh, rfl⟩ := hin
  have hh := mem_window hh
  have hm : h ∈ liveHits c ∧ rowMatches q.exprs h.row = true := by
    unfold matchesSorted at hh
    split at hh
    · simpa [List.mem_filter] using hh
    · rw [mem_isort] at hh; simpa [List.mem_filter] using hh
  obtain ⟨hlive, hmt⟩ := hm
  unfold liveHits at hlive
  rw [List.mem_filterMap] at hlive
  obtain ⟨d, hd, hdh⟩ := hlive
  exact ⟨d, hd, h, hdh, rfl, hmt⟩

/-- (b) order: consecutive results are in ORDER BY order (`ordCmp ≤ 0`), for every offset and limit, provided
no stored DOUBLE is a NaN (`(*Float64).Compare` is not antisymmetric on NaN — C15 finding).  Stated for
adjacent results; NULLs sort first (ASC), ties keep the scan order in the model. -/
theorem search_sorted (c : Coll) (q : CQuery) (offset : Nat)
    (hnan : ∀ h ∈ liveHits c, ∀ f, NoNaN (rowGet h.row f)) :
    AdjSorted (hitLe q.order) (searchHits c q offset) := by
  unfold searchHits
  apply adjSorted_window
  unfold matchesSorted
  split
  · rename_i he
    apply adjSorted_of_true
    intro a b
    have : q.order = [] := by simpa using he
    simp [hitLe, this, ordCmp]
  · apply adjSorted_isort
    intro a ha b hb
    have ha' := (List.mem_filter.mp ha).1
    have hb' := (List.mem_filter.mp hb).1
    have := ordCmp_antisymm q.order a.row b.row (hnan a ha') (hnan b hb')
    unfold hitLe
    simp only [decide_eq_true_eq]
    omega

/-- (b) paging: the pages of size `p` at offsets 0, p, 2p, … concatenate to the first `n·p` results of the
unpaged search — no gaps and no document on two pages beyond what the unpaged list itself contains. -/
theorem paging_partition (c : Coll) (q : CQuery) (p n : Nat) (hp : 0 < p) :
    (List.range n).flatMap (fun k => search c { q with limit := p } (k * p))
      = (search c { q with limit := 0 } 0).take (n * p) := by
  unfold search searchHits
  have h1 : matchesSorted c { q with limit := p } = matchesSorted c { q with limit := 0 } := rfl
  simp only [h1, window_nolimit]
  rw [← List.map_take, ← pages_concat p hp _ n, List.map_flatMap]

/-- the unpaged result has no duplicate ids when the collection's ids are distinct (so, with
`paging_partition`, neither have the pages) -/
theorem search_nodup (c : Coll) (q : CQuery) (offset : Nat) (hnd : (c.docs.map (·.id)).Nodup) :
    (search c q offset).Nodup := by
  unfold search searchHits
  have hlive : ((liveHits c).map (·.id)).Sublist (c.docs.map (·.id)) := by
    unfold liveHits
    generalize c.docs = ds
    induction ds with
    | nil => simp
    | cons d t ih =>
      simp only [List.filterMap_cons, List.map_cons]
      cases hd : liveHit d with
      | none => simp only; exact List.Sublist.cons _ ih
      | some h =>
        simp only [List.map_cons]
        rw [liveHit_id d h hd]
        exact List.Sublist.cons_cons _ ih
  have hms : ((matchesSorted c q).map (·.id)).Nodup := by
    have hf : (((liveHits c).filter (fun h => rowMatches q.exprs h.row)).map (·.id)).Nodup :=
      (((List.filter_sublist).map _).trans hlive).nodup hnd
    unfold matchesSorted
    split
    · exact hf
    · exact ((perm_isort _ _).map _).nodup_iff.mpr hf
  have hw : ((window offset q.limit (matchesSorted c q)).map (·.id)).Sublist ((matchesSorted c q).map (·.id)) := by
    apply List.Sublist.map
    unfold window
    split
    · exact List.drop_sublist _ _
    · exact (List.take_sublist _ _).trans (List.drop_sublist _ _)
  exact hw.nodup hms

/-- (c) CountDocuments = number of documents the same query returns -/
theorem count_eq_length (c : Coll) (q : CQuery) (offset : Nat) :
    count c q offset = (search c q offset).length := by
  unfold count search searchHits
  rw [sum_ones, List.length_map]

/-- (f) the audit lists every revision, numbered 1, 2, … in the order they were written (ascending), and the
same list reversed when asked in descending order. -/
theorem audit_lists_all_revisions_in_order (c : Coll) (id : Bytes) (d : DocEntry)
    (hd : findDoc c id = some d) (hne : d.revs ≠ []) :
    ∃ l, audit c id false 0 d.revs.length = .ok l ∧
      l.map (·.1) = List.range' 1 d.revs.length ∧
      l.map (·.2) = d.revs.map (·.doc) ∧
      audit c id true 0 d.revs.length = .ok l.reverse := by
  have hlen : (history d).length = d.revs.length := by simp [history, numberFrom_length]
  have hpos : 0 < d.revs.length := List.length_pos_iff.mpr hne
  refine ⟨history d, ?_, ?_, ?_, ?_⟩
  · unfold audit
    simp only [hd, Bool.false_eq_true, if_false, hlen]
    have : ¬ (0 ≥ d.revs.length) := by omega
    simp only [this, if_false, List.drop_zero]
    rw [← hlen, List.take_length]
  · simp [history, numberFrom_fst]
  · simp [history, numberFrom_snd]
  · unfold audit
    simp only [hd, if_true, List.length_reverse, hlen]
    have : ¬ (0 ≥ d.revs.length) := by omega
    simp only [this, if_false, List.drop_zero]
    rw [← hlen, ← List.length_reverse, List.take_length]

/-- (a)/(f) a replacement adds exactly one revision: the new content with the next revision number; the
earlier revisions stay as they were; get returns the new content. -/
theorem replace_adds_revision (c c' : Coll) (id : Bytes) (full : JObj) (d : DocEntry)
    (hd : findDoc c id = some d) (h : replaceOne c id full = .ok c') :
    ∃ r, toRow c.fields full = .ok r ∧
      findDoc c' id = some { d with revs := d.revs ++ [{ doc := some full, row := r }] } ∧
      history { d with revs := d.revs ++ [{ doc := some full, row := r }] }
        = history d ++ [(d.revs.length + 1, some full)] ∧
      get c' id = some full := by
  unfold replaceOne at h
  simp only [hd] at h
  split at h
  · simp at h
  · rename_i r hr
    split at h
    · simp at h
    · injection h with h
      subst h
      have hf := find_appendRev_same id { doc := some full, row := r } c.docs d hd
      refine ⟨r, hr, hf, ?_, ?_⟩
      · simp [history, numberFrom_append, Nat.add_comm]
      · unfold Doc.get
        unfold findDoc at hf ⊢
        simp only [hf]
        simp [liveHit, lastRev]

/-- (f) deletion: the document disappears from every search (whatever the filter, order and paging) but not
from the audit: its history gains one revision marked deleted (no content), earlier revisions are intact, and
other documents are untouched. -/
theorem delete_removes_from_search_not_from_audit (c : Coll) (id : Bytes) (d : DocEntry)
    (hnd : (c.docs.map (·.id)).Nodup) (hd : findDoc c id = some d) :
    (∀ q offset, id ∉ search (deleteOne c id) q offset) ∧
    findDoc (deleteOne c id) id = some { d with revs := d.revs ++ [{ doc := none, row := [] }] } ∧
    history { d with revs := d.revs ++ [{ doc := none, row := [] }] }
      = history d ++ [(d.revs.length + 1, none)] ∧
    (∀ id', id' ≠ id → findDoc (deleteOne c id) id' = findDoc c id') := by
  refine ⟨?_, ?_, ?_, ?_⟩
  · intro q offset hin
    obtain ⟨d', hd', h, hh, hid, _⟩ := search_sound (deleteOne c id) q offset id hin
    have hid' : d'.id = id := by rw [← liveHit_id d' h hh]; exact hid
    obtain ⟨d0, _, _, heq⟩ := appendRev_mem id { doc := none, row := [] } c.docs hnd d' hd' hid'
    rw [heq] at hh
    simp [liveHit, lastRev] at hh
  · exact find_appendRev_same id _ c.docs d hd
  · simp [history, numberFrom_append, Nat.add_comm]
  · intro id' hne
    exact find_appendRev_other id id' _ c.docs hne

/-- the typed view mirrors the engine's float→integer conversion: fractions are truncated toward zero and a
value outside the int64 range (here 1e308) becomes −2^63 (amd64) — which is why such a document matches
`n < 0` and not `n > 5` (finding `integer-out-of-range`). -/
theorem typed_view_integer_conversion :
    f2i 0x4005999999999999 = 2 ∧ f2i 0xC005999999999999 = -2 ∧
    f2i 0x7FE1CCF385EBC8A0 = -9223372036854775808 ∧ f2i 0x43E0000000000000 = -9223372036854775808 ∧
    f2i 0xC3E0000000000000 = -9223372036854775808 ∧ f2i 0x43DFFFFFFFFFFFFF = 9223372036854774784 := by
  decide

-- ------------------------------------------------------------------ document proofs (VerifyDocument)

section DocumentProofs
open ImmuModel.Tx ImmuModel.Merkle ImmuModel.Store ImmuModel.DocVerify
variable {D : Type} [DecidableEq D]

/-- (g) What an accepted `VerifyDocument` establishes.  There is a header `hdr` of the dual proof — its source or
its target — with the SAME id and the SAME accumulated hash as the header shipped with the entries
(`alh txHdr = alh hdr = provenAlh`, the hash the dual proof was verified with on that side); exactly one entry
carries the document's key and every such entry carries `H(EncodedDocument)`; the presented document equals the
decoded one; the entries hash to `txHdr.eh`; the client's known state is one end of the proof with its hash (or
there is none and the proof starts at tx 1); `VerifyDualProofV2` accepted the proof between the two ends (so the
C01 dual-proof theorems apply); the new state is the target with its hash and passes the signature predicate. -/
theorem verifyDocument_sound (hs : Hs D) (sigOk : Client.State D → Bool) (encKey : Bytes) (dc : DocCheck)
    (known : Client.State D) (p : Proof D) (ns : Client.State D)
    (h : verifyDocument hs sigOk encKey dc known p = some (.ok ns)) :
    ∃ sh th sAlh tAlh hdr provenAlh,
      p.dual.sourceTxHeader = some sh ∧ p.dual.targetTxHeader = some th ∧ sh.id ≤ th.id ∧
      alh hs sh = some sAlh ∧ alh hs th = some tAlh ∧
      ((hdr = sh ∧ provenAlh = sAlh) ∨ (hdr = th ∧ provenAlh = tAlh)) ∧
      p.txHdr.id = hdr.id ∧ alh hs p.txHdr = some provenAlh ∧ alh hs hdr = some provenAlh ∧
      countKey hs encKey p.encDoc p.entries 0 = .ok 1 ∧
      (∃ e ∈ p.entries, e.key = encKey ∧ e.hValue = hs.H p.encDoc) ∧
      (∀ e ∈ p.entries, e.key = encKey → e.hValue = hs.H p.encDoc) ∧
      dc = .same ∧
      (HTree.build hs.mhH hs.enc (p.entries.map (entryDigest hs p.txHdr.version))).root = p.txHdr.eh ∧
      (known.txId = 0 → sh.id = 1) ∧
      (known.txId ≠ 0 → (known.txId = sh.id ∧ known.txHash = sAlh) ∨ (known.txId = th.id ∧ known.txHash = tAlh)) ∧
      verifyDualProofV2 hs (some p.dual) sh.id th.id sAlh tAlh = some (.ok ()) ∧
      ns = ⟨th.id, tAlh⟩ ∧ sigOk ns = true := by
  obtain ⟨sh, th, sAlh, tAlh, xAlh, hcnt, hdc, -, hroot, hsh, hth, hle, hsa, hta, hxa, hb, hk, hdual, hns, hsig⟩ :=
    VerifyAux.verifyDocument_inv hs sigOk encKey dc known p ns h
  obtain ⟨k0, k1⟩ := VerifyAux.knownOk_inv known sh.id th.id sAlh tAlh hk
  have hfound := VerifyAux.countKey_found hs encKey p.encDoc p.entries 0 1 hcnt (by omega)
  have hall := VerifyAux.countKey_all hs encKey p.encDoc p.entries 0 1 hcnt
  have hknown : known.txId ≠ 0 →
      (known.txId = sh.id ∧ known.txHash = sAlh) ∨ (known.txId = th.id ∧ known.txHash = tAlh) := by
    intro hne
    obtain ⟨hor, hs', ht'⟩ := k1 hne
    rcases hor with e | e
    · exact Or.inl ⟨e, hs' e⟩
    · exact Or.inr ⟨e, ht' e⟩
  rcases VerifyAux.bound_inv _ _ _ _ _ _ hb with ⟨hid, ha⟩ | ⟨hid, ha⟩
  · exact ⟨sh, th, sAlh, tAlh, sh, sAlh, hsh, hth, hle, hsa, hta, Or.inl ⟨rfl, rfl⟩, hid, by rw [hxa, ha], hsa,
      hcnt, hfound, hall, hdc, hroot, k0, hknown, hdual, hns, hsig⟩
  · exact ⟨sh, th, sAlh, tAlh, th, tAlh, hsh, hth, hle, hsa, hta, Or.inr ⟨rfl, rfl⟩, hid, by rw [hxa, ha], hta,
      hcnt, hfound, hall, hdc, hroot, k0, hknown, hdual, hns, hsig⟩

/-- (g) End-to-end for header version 1.  If the header of the dual proof that has the id of the shipped header is
the GENUINE header of that transaction — its entries digest is the reference tree over the digests of the
transaction's entries `es` — then an accepted proof shows that (kv-metadata, document key, H(EncodedDocument)) IS one
of the transaction's entries, or a collision of H is exhibited.  (Field-width hypotheses `HdrOK`/`Fits`: what the
wire format can carry.)  A header that merely has the right id (the seeded change c19-a) gives no such conclusion. -/
theorem verifyDocument_entry_in_tx (hs : Hs D) (sigOk : Client.State D → Bool) (encKey : Bytes) (dc : DocCheck)
    (known : Client.State D) (p : Proof D) (ns : Client.State D)
    (hv1 : p.txHdr.version = 1)
    (h : verifyDocument hs sigOk encKey dc known p = some (.ok ns))
    (es : List (EntryV1 D)) (hne : es ≠ []) (hfs : ∀ x ∈ es, x.Fits)
    (hfit : ∀ e ∈ p.entries, e.md.length < 65536 ∧ e.key.length < 65536)
    (hok : Rec.Auth.HdrOK p.txHdr)
    (hes : ∀ hdr, (p.dual.sourceTxHeader = some hdr ∨ p.dual.targetTxHeader = some hdr) → hdr.id = p.txHdr.id →
        Rec.Auth.HdrOK hdr ∧
        hdr.eh = mth hs.mhH ((es.map (EntryV1.digest hs)).map (fun d => hs.mhH.leafH (hs.enc d)))) :
    (∃ md, (⟨md, encKey, hs.H p.encDoc⟩ : EntryV1 D) ∈ es) ∨ HColl hs := by
  obtain ⟨sh, th, sAlh, tAlh, hdr, provenAlh, hsh, hth, -, -, -, hside, hid, hxa, hha, -, ⟨e, hemem, hek, hev⟩, -, -,
    hroot, -⟩ := verifyDocument_sound hs sigOk encKey dc known p ns h
  have hhdr : p.dual.sourceTxHeader = some hdr ∨ p.dual.targetTxHeader = some hdr := by
    rcases hside with ⟨x, -⟩ | ⟨x, -⟩
    · rw [x]; exact Or.inl hsh
    · rw [x]; exact Or.inr hth
  obtain ⟨hokh, heh⟩ := hes hdr hhdr hid.symm
  rcases Rec.Auth.alh_inj_or_coll hs p.txHdr hdr hok hokh provenAlh hxa hha with heq | hc
  · -- the shipped header IS the proven one: its eh is the genuine entries digest
    have heh' : p.txHdr.eh = mth hs.mhH ((es.map (EntryV1.digest hs)).map (fun d => hs.mhH.leafH (hs.enc d))) := by
      rw [heq]; exact heh
    -- the document entry sits at some index of the shipped entries
    obtain ⟨i, hi, hget⟩ := List.getElem_of_mem hemem
    let ds := p.entries.map (entryDigest hs p.txHdr.version)
    have hlen : i < ds.length := by simp [ds]; exact hi
    obtain ⟨pr, -, -, -, hver⟩ := hInclusionProof_complete hs.mhH hs.enc ds i hlen
    have hdi : ds[i] = EntryV1.digest hs ⟨e.md, e.key, e.hValue⟩ := by
      simp only [ds, List.getElem_map, hget, entryDigest, hv1]
      rw [if_neg (by decide)]
      rfl
    have hroot' : (HTree.build hs.mhH hs.enc ds).root =
        mth hs.mhH ((es.map (EntryV1.digest hs)).map (fun d => hs.mhH.leafH (hs.enc d))) :=
      hroot.trans heh'
    rw [hdi, hroot'] at hver
    rcases entry_inclusion_sound hs pr ⟨e.md, e.key, e.hValue⟩ es hne (hfit e hemem) hfs hver with hin | hc
    · left
      refine ⟨e.md, ?_⟩
      rw [← hek, ← hev]
      exact hin
    · exact Or.inr hc
  · exact Or.inr hc

/-- REPAIRED (was the finding `C19:proof:panic:encoded-row-cut+hvalue+eh`: the unchecked slice expressions
`proof.EncodedDocument[voff:]` panicked; the model answered `none` = panic).  An `EncodedDocument` shorter than one
of the two offsets at which it is sliced is refused with `ErrInvalidProof`, for every proof (in particular when the
sender has adjusted the entry's `HValue` and the header's `Eh` to the cut row) and every known state: the verifying
client returns an error, it neither panics nor accepts. -/
theorem verifyDocument_short_row_rejected (hs : Hs D) (sigOk : Client.State D → Bool) (encKey : Bytes)
    (known : Client.State D) (p : Proof D) :
    verifyDocument hs sigOk encKey .outOfRange known p = some (.error .invalidProof) :=
  VerifyAux.verifyDocument_outOfRange hs sigOk encKey known p

/-- The header binding is by id AND accumulated hash on BOTH sides: a shipped header that only carries the id of the
source header is refused (the decision the seeded change c19-a weakened). -/
theorem bound_requires_alh (xId : Nat) (xAlh : D) (sId tId : Nat) (sAlh tAlh : D)
    (hid : xId = sId) (hne : xAlh ≠ sAlh) : bound xId xAlh sId tId sAlh tAlh = false := by
  unfold bound
  rw [if_neg (by intro ⟨a, _⟩; exact a hid), if_pos ⟨hid, hne⟩]

end DocumentProofs

-- ------------------------------------------------------------------ non-vacuity

/-- a one-field collection, two documents: the hypotheses of the theorems above are satisfiable -/
def exFields : List Field := [{ name := [110], ty := .int }]   -- "n" INTEGER
def exColl0 : Coll := { fields := exFields, docs := [] }
def exDoc (bits : Nat) : JObj := [([110], .num bits)]

example : (match insert exColl0 [1] (exDoc 0x4005999999999999) with
    | .ok c' => (search c' { exprs := [[{ field := [110], op := .eq, val := .int 2 }]], order := [], limit := 0 } 0 == [[1]])
    | .error _ => false) = true := by decide

example : (match insert exColl0 [1] (exDoc 0x7FE1CCF385EBC8A0) with
    | .ok c' => (search c' { exprs := [[{ field := [110], op := .lt, val := .int 0 }]], order := [], limit := 0 } 0 == [[1]])
    | .error _ => false) = true := by decide

example : ∀ d ∈ exColl0.docs, d.id ≠ [1] := by simp [exColl0]

/-- document proofs: an accepting run of `verifyDocument` exists (toy hash = pad/truncate to 32 bytes — nothing is
assumed about `H`; first use, one transaction holding one entry, the shipped header is both ends of the proof), and
the same proof with another `prevAlh` in the shipped header only (same id, other Alh) is refused.  Accepting
runs on real proofs with SHA-256 are produced by every harness run (`c19 vdoc`, genuine rounds). -/
def toyHs : Hs Digest where
  H b := Digest.ofBytes b
  enc d := d.val
  enc_len d := d.property
  enc_inj _ _ h := Subtype.ext h
def exEnc : Bytes := [1, 2, 3]
def exEntry : DocVerify.TxEntry Digest := ⟨[7], [], toyHs.H exEnc⟩
def exHdr : Tx.TxHeader Digest :=
  { id := 1, ts := 0, blTxID := 0, blRoot := Digest.ofBytes [], prevAlh := Digest.ofBytes [], version := 1, md := [],
    nentries := 1, eh := (Merkle.HTree.build toyHs.mhH toyHs.enc [DocVerify.entryDigest toyHs 1 exEntry]).root }
def exProof : DocVerify.Proof Digest := ⟨exEnc, [exEntry], exHdr, ⟨some exHdr, some exHdr, [], []⟩⟩
def exForged : DocVerify.Proof Digest :=
  ⟨exEnc, [exEntry], { exHdr with prevAlh := Digest.ofBytes [1] }, ⟨some exHdr, some exHdr, [], []⟩⟩

example : (match DocVerify.verifyDocument toyHs (fun _ => true) [7] .same ⟨0, Digest.ofBytes []⟩ exProof with
    | some (.ok ns) => ns.txId == 1
    | _ => false) = true := by decide

example : (match DocVerify.verifyDocument toyHs (fun _ => true) [7] .same ⟨0, Digest.ofBytes []⟩ exForged with
    | some (.error .invalidProof) => true
    | _ => false) = true := by decide

end ImmuModel.Props.C19
