/-
C19 — Document collections store and find documents faithfully.
ONLY the property theorems and non-vacuity examples live here; helper lemmas are in
ImmuModel/Doc/Proofs.lean.  The theorems are about the model `ImmuModel/Doc/Doc.lean`, which mirrors
embedded/document (typed view computed at upsert time, NULL smallest, amd64 float→int64) and is tied to the
real engine by the `c19 …` driver operations replayed by the harness.

Fragment: fields of type STRING / BOOLEAN / INTEGER / DOUBLE (and the id column), comparisons
EQ NE LT LE GT GE in disjunctive normal form, ORDER BY, OFFSET, LIMIT, count, audit, replace, delete.
Outside (oracle only): UUID fields, LIKE / NOT_LIKE, unique-index violations.
Secondary indexes: `Doc/SqlBridge.lean` translates a compiled query into the single-table SELECT the engine issues
and runs it through the SQL planner model of C11 (`Sql/SelectPlan.lean`) over ANY set of secondary indexes; the
theorems `search_through_any_index…` (helper lemmas: `Doc/SqlBridgeProofs.lean`) say the answer is the one of the
index-free specification.
Document proofs: `ImmuModel/Doc/Verify.lean` mirrors `pkg/verification.VerifyDocument`; the theorems
`verifyDocument_sound` / `verifyDocument_entry_in_tx` (end of this file) say what an accepted proof establishes.
-/
import ImmuModel.Doc.Doc
import ImmuModel.Doc.Proofs
import ImmuModel.Doc.VerifyProofs
import ImmuModel.Doc.SqlBridgeProofs
import ImmuModel.Tx.Concrete

namespace ImmuModel.Props.C19
open ImmuModel ImmuModel.Doc ImmuModel.Doc.ProofsAux

/-- (a) insert then get by id: the stored payload is the document itself — what comes back is exactly the
document given plus the `_id` key (hex of the id), every other key is untouched, the entry has one revision
and its row is the typed view of that document under the schema at insertion time. -/
theorem insert_get_roundtrip (c c' : Coll) (id : Bytes) (doc : JObj)
    (hfresh : ∀ d ∈ c.docs, d.id ≠ id) (h : insert c id doc = .ok c') :
    get c' id = some (withId doc id) ∧
    assoc idField (withId doc id) = some (.str (hexEncode id)) ∧
    (∀ k, k ≠ idField → assoc k (withId doc id) = assoc k doc) ∧
    ∃ r, toRow c.fields (withId doc id) = .ok r ∧
      findDoc c' id = some { id := id, revs := [{ doc := some (withId doc id), row := r }] } := by
  obtain ⟨r, hr, hc⟩ := insert_ok c c' id doc h
  have hf := find_insertEntry { id := id, revs := [{ doc := some (withId doc id), row := r }] } c.docs hfresh
  refine ⟨?_, assoc_setKey_same _ _ _, fun k hk => assoc_setKey_other _ _ _ _ hk, r, hr, ?_⟩
  · subst hc
    unfold Doc.get findDoc
    simp only [hf]
    simp [liveHit, lastRev]
  · subst hc
    unfold findDoc
    exact hf

/-- (b) a document is returned by a search exactly when it is live and its STORED typed view satisfies the
filter (no limit, no offset).  With `insert_get_roundtrip`, for a document written under the current schema the
stored view is `toRow fields doc`: INTEGER fields are compared after `f2i`, NULL is the smallest value. -/
theorem search_exact (c : Coll) (q : CQuery) (hl : q.limit = 0) (id : Bytes) :
    id ∈ search c q 0 ↔
      ∃ d ∈ c.docs, ∃ h, liveHit d = some h ∧ h.id = id ∧ rowMatches q.exprs h.row = true := by
  unfold search searchHits
  rw [hl, window_nolimit]
  simp only [List.mem_map]
  have hm : ∀ h, h ∈ matchesSorted c q ↔ (h ∈ liveHits c ∧ rowMatches q.exprs h.row = true) := by
    intro h
    unfold matchesSorted
    split
    · simp [List.mem_filter]
    · rw [mem_isort]; simp [List.mem_filter]
  constructor
  · rintro ⟨h, hh, rfl⟩
    rw [hm] at hh
    obtain ⟨hlive, hmt⟩ := hh
    unfold liveHits at hlive
    rw [List.mem_filterMap] at hlive
    obtain ⟨d, hd, hdh⟩ := hlive
    exact ⟨d, hd, h, hdh, rfl, hmt⟩
  · rintro ⟨d, hd, h, hdh, hid, hmt⟩
    refine ⟨h, ?_, hid⟩
    rw [hm]
    refine ⟨?_, hmt⟩
    unfold liveHits
    rw [List.mem_filterMap]
    exact ⟨d, hd, hdh⟩

/-- nothing that does not satisfy the filter is ever returned, whatever the paging -/
theorem search_sound (c : Coll) (q : CQuery) (offset : Nat) (id : Bytes) (hin : id ∈ search c q offset) :
    ∃ d ∈ c.docs, ∃ h, liveHit d = some h ∧ h.id = id ∧ rowMatches q.exprs h.row = true := by
  unfold search searchHits at hin
  simp only [List.mem_map] at hin
  obtain ⟨h, hh, rfl⟩ := hin
  have hh := mem_window hh
  have hm : h ∈ liveHits c ∧ rowMatches q.exprs h.row = true := by
    unfold matchesSorted at hh
    split at hh
    · simpa [List.mem_filter] using hh
    · rw [mem_isort] at hh; simpa [List.mem_filter] using hh
  obtain ⟨hlive, hmt⟩ := hm
  unfold liveHits at hlive
  rw [List.mem_filterMap] at hlive
  obtain ⟨d, hd, hdh⟩ := hlive
  exact ⟨d, hd, h, hdh, rfl, hmt⟩

/-- (b) order: consecutive results are in ORDER BY order (`ordCmp ≤ 0`), for every offset and limit, provided
no stored DOUBLE is a NaN (`(*Float64).Compare` is not antisymmetric on NaN — C15 finding).  Stated for
adjacent results; NULLs sort first (ASC), ties keep the scan order in the model. -/
theorem search_sorted (c : Coll) (q : CQuery) (offset : Nat)
    (hnan : ∀ h ∈ liveHits c, ∀ f, NoNaN (rowGet h.row f)) :
    AdjSorted (hitLe q.order) (searchHits c q offset) := by
  unfold searchHits
  apply adjSorted_window
  unfold matchesSorted
  split
  · rename_i he
    apply adjSorted_of_true
    intro a b
    have : q.order = [] := by simpa using he
    simp [hitLe, this, ordCmp]
  · apply adjSorted_isort
    intro a ha b hb
    have ha' := (List.mem_filter.mp ha).1
    have hb' := (List.mem_filter.mp hb).1
    have := ordCmp_antisymm q.order a.row b.row (hnan a ha') (hnan b hb')
    unfold hitLe
    simp only [decide_eq_true_eq]
    omega

/-- (b) paging: the pages of size `p` at offsets 0, p, 2p, … concatenate to the first `n·p` results of the
unpaged search — no gaps and no document on two pages beyond what the unpaged list itself contains. -/
theorem paging_partition (c : Coll) (q : CQuery) (p n : Nat) (hp : 0 < p) :
    (List.range n).flatMap (fun k => search c { q with limit := p } (k * p))
      = (search c { q with limit := 0 } 0).take (n * p) := by
  unfold search searchHits
  have h1 : matchesSorted c { q with limit := p } = matchesSorted c { q with limit := 0 } := rfl
  simp only [h1, window_nolimit]
  rw [← List.map_take, ← pages_concat p hp _ n, List.map_flatMap]

/-- the unpaged result has no duplicate ids when the collection's ids are distinct (so, with
`paging_partition`, neither have the pages) -/
theorem search_nodup (c : Coll) (q : CQuery) (offset : Nat) (hnd : (c.docs.map (·.id)).Nodup) :
    (search c q offset).Nodup := by
  unfold search searchHits
  have hlive : ((liveHits c).map (·.id)).Sublist (c.docs.map (·.id)) := by
    unfold liveHits
    generalize c.docs = ds
    induction ds with
    | nil => simp
    | cons d t ih =>
      simp only [List.filterMap_cons, List.map_cons]
      cases hd : liveHit d with
      | none => simp only; exact List.Sublist.cons _ ih
      | some h =>
        simp only [List.map_cons]
        rw [liveHit_id d h hd]
        exact List.Sublist.cons_cons _ ih
  have hms : ((matchesSorted c q).map (·.id)).Nodup := by
    have hf : (((liveHits c).filter (fun h => rowMatches q.exprs h.row)).map (·.id)).Nodup :=
      (((List.filter_sublist).map _).trans hlive).nodup hnd
    unfold matchesSorted
    split
    · exact hf
    · exact ((perm_isort _ _).map _).nodup_iff.mpr hf
  have hw : ((window offset q.limit (matchesSorted c q)).map (·.id)).Sublist ((matchesSorted c q).map (·.id)) := by
    apply List.Sublist.map
    unfold window
    split
    · exact List.drop_sublist _ _
    · exact (List.take_sublist _ _).trans (List.drop_sublist _ _)
  exact hw.nodup hms

/-- (c) CountDocuments = number of documents the same query returns -/
theorem count_eq_length (c : Coll) (q : CQuery) (offset : Nat) :
    count c q offset = (search c q offset).length := by
  unfold count search searchHits
  rw [sum_ones, List.length_map]

/-- (f) the audit lists every revision, numbered 1, 2, … in the order they were written (ascending), and the
same list reversed when asked in descending order. -/
theorem audit_lists_all_revisions_in_order (c : Coll) (id : Bytes) (d : DocEntry)
    (hd : findDoc c id = some d) (hne : d.revs ≠ []) :
    ∃ l, audit c id false 0 d.revs.length = .ok l ∧
      l.map (·.1) = List.range' 1 d.revs.length ∧
      l.map (·.2) = d.revs.map (·.doc) ∧
      audit c id true 0 d.revs.length = .ok l.reverse := by
  have hlen : (history d).length = d.revs.length := by simp [history, numberFrom_length]
  have hpos : 0 < d.revs.length := List.length_pos_iff.mpr hne
  refine ⟨history d, ?_, ?_, ?_, ?_⟩
  · unfold audit
    simp only [hd, Bool.false_eq_true, if_false, hlen]
    have : ¬ (0 ≥ d.revs.length) := by omega
    simp only [this, if_false, List.drop_zero]
    rw [← hlen, List.take_length]
  · simp [history, numberFrom_fst]
  · simp [history, numberFrom_snd]
  · unfold audit
    simp only [hd, if_true, List.length_reverse, hlen]
    have : ¬ (0 ≥ d.revs.length) := by omega
    simp only [this, if_false, List.drop_zero]
    rw [← hlen, ← List.length_reverse, List.take_length]

/-- (a)/(f) a replacement adds exactly one revision: the new content with the next revision number; the
earlier revisions stay as they were; get returns the new content. -/
theorem replace_adds_revision (c c' : Coll) (id : Bytes) (full : JObj) (d : DocEntry)
    (hd : findDoc c id = some d) (h : replaceOne c id full = .ok c') :
    ∃ r, toRow c.fields full = .ok r ∧
      findDoc c' id = some { d with revs := d.revs ++ [{ doc := some full, row := r }] } ∧
      history { d with revs := d.revs ++ [{ doc := some full, row := r }] }
        = history d ++ [(d.revs.length + 1, some full)] ∧
      get c' id = some full := by
  unfold replaceOne at h
  simp only [hd] at h
  split at h
  · simp at h
  · rename_i r hr
    split at h
    · simp at h
    · injection h with h
      subst h
      have hf := find_appendRev_same id { doc := some full, row := r } c.docs d hd
      refine ⟨r, hr, hf, ?_, ?_⟩
      · simp [history, numberFrom_append, Nat.add_comm]
      · unfold Doc.get
        unfold findDoc at hf ⊢
        simp only [hf]
        simp [liveHit, lastRev]

/-- (f) deletion: the document disappears from every search (whatever the filter, order and paging) but not
from the audit: its history gains one revision marked deleted (no content), earlier revisions are intact, and
other documents are untouched. -/
theorem delete_removes_from_search_not_from_audit (c : Coll) (id : Bytes) (d : DocEntry)
    (hnd : (c.docs.map (·.id)).Nodup) (hd : findDoc c id = some d) :
    (∀ q offset, id ∉ search (deleteOne c id) q offset) ∧
    findDoc (deleteOne c id) id = some { d with revs := d.revs ++ [{ doc := none, row := [] }] } ∧
    history { d with revs := d.revs ++ [{ doc := none, row := [] }] }
      = history d ++ [(d.revs.length + 1, none)] ∧
    (∀ id', id' ≠ id → findDoc (deleteOne c id) id' = findDoc c id') := by
  refine ⟨?_, ?_, ?_, ?_⟩
  · intro q offset hin
    obtain ⟨d', hd', h, hh, hid, _⟩ := search_sound (deleteOne c id) q offset id hin
    have hid' : d'.id = id := by rw [← liveHit_id d' h hh]; exact hid
    obtain ⟨d0, _, _, heq⟩ := appendRev_mem id { doc := none, row := [] } c.docs hnd d' hd' hid'
    rw [heq] at hh
    simp [liveHit, lastRev] at hh
  · exact find_appendRev_same id _ c.docs d hd
  · simp [history, numberFrom_append, Nat.add_comm]
  · intro id' hne
    exact find_appendRev_other id id' _ c.docs hne

/-- the typed view mirrors the engine's float→integer conversion: fractions are truncated toward zero and a
value outside the int64 range (here 1e308) becomes −2^63 (amd64) — which is why such a document matches
`n < 0` and not `n > 5` (finding `integer-out-of-range`). -/
theorem typed_view_integer_conversion :
    f2i 0x4005999999999999 = 2 ∧ f2i 0xC005999999999999 = -2 ∧
    f2i 0x7FE1CCF385EBC8A0 = -9223372036854775808 ∧ f2i 0x43E0000000000000 = -9223372036854775808 ∧
    f2i 0xC3E0000000000000 = -9223372036854775808 ∧ f2i 0x43DFFFFFFFFFFFFF = 9223372036854774784 := by
  decide

-- ------------------------------------------------------------------ document proofs (VerifyDocument)

section DocumentProofs
open ImmuModel.Tx ImmuModel.Merkle ImmuModel.Store ImmuModel.DocVerify
variable {D : Type} [DecidableEq D]

/-- (g) What an accepted `VerifyDocument` establishes.  There is a header `hdr` of the dual proof — its source or
its target — with the SAME id and the SAME accumulated hash as the header shipped with the entries
(`alh txHdr = alh hdr = provenAlh`, the hash the dual proof was verified with on that side); exactly one entry
carries the document's key and every such entry carries `H(EncodedDocument)`; the presented document equals the
decoded one; the entries hash to `txHdr.eh`; the client's known state is one end of the proof with its hash (or
there is none and the proof starts at tx 1); `VerifyDualProofV2` accepted the proof between the two ends (so the
C01 dual-proof theorems apply); the new state is the target with its hash and passes the signature predicate. -/
theorem verifyDocument_sound (hs : Hs D) (sigOk : Client.State D → Bool) (encKey : Bytes) (dc : DocCheck)
    (known : Client.State D) (p : Proof D) (ns : Client.State D)
    (h : verifyDocument hs sigOk encKey dc known p = some (.ok ns)) :
    ∃ sh th sAlh tAlh hdr provenAlh,
      p.dual.sourceTxHeader = some sh ∧ p.dual.targetTxHeader = some th ∧ sh.id ≤ th.id ∧
      alh hs sh = some sAlh ∧ alh hs th = some tAlh ∧
      ((hdr = sh ∧ provenAlh = sAlh) ∨ (hdr = th ∧ provenAlh = tAlh)) ∧
      p.txHdr.id = hdr.id ∧ alh hs p.txHdr = some provenAlh ∧ alh hs hdr = some provenAlh ∧
      countKey hs encKey p.encDoc p.entries 0 = .ok 1 ∧
      (∃ e ∈ p.entries, e.key = encKey ∧ e.hValue = hs.H p.encDoc) ∧
      (∀ e ∈ p.entries, e.key = encKey → e.hValue = hs.H p.encDoc) ∧
      dc = .same ∧
      (HTree.build hs.mhH hs.enc (p.entries.map (entryDigest hs p.txHdr.version))).root = p.txHdr.eh ∧
      (known.txId = 0 → sh.id = 1) ∧
      (known.txId ≠ 0 → (known.txId = sh.id ∧ known.txHash = sAlh) ∨ (known.txId = th.id ∧ known.txHash = tAlh)) ∧
      verifyDualProofV2 hs (some p.dual) sh.id th.id sAlh tAlh = some (.ok ()) ∧
      ns = ⟨th.id, tAlh⟩ ∧ sigOk ns = true := by
  obtain ⟨sh, th, sAlh, tAlh, xAlh, hcnt, hdc, -, hroot, hsh, hth, hle, hsa, hta, hxa, hb, hk, hdual, hns, hsig⟩ :=
    VerifyAux.verifyDocument_inv hs sigOk encKey dc known p ns h
  obtain ⟨k0, k1⟩ := VerifyAux.knownOk_inv known sh.id th.id sAlh tAlh hk
  have hfound := VerifyAux.countKey_found hs encKey p.encDoc p.entries 0 1 hcnt (by omega)
  have hall := VerifyAux.countKey_all hs encKey p.encDoc p.entries 0 1 hcnt
  have hknown : known.txId ≠ 0 →
      (known.txId = sh.id ∧ known.txHash = sAlh) ∨ (known.txId = th.id ∧ known.txHash = tAlh) := by
    intro hne
    obtain ⟨hor, hs', ht'⟩ := k1 hne
    rcases hor with e | e
    · exact Or.inl ⟨e, hs' e⟩
    · exact Or.inr ⟨e, ht' e⟩
  rcases VerifyAux.bound_inv _ _ _ _ _ _ hb with ⟨hid, ha⟩ | ⟨hid, ha⟩
  · exact ⟨sh, th, sAlh, tAlh, sh, sAlh, hsh, hth, hle, hsa, hta, Or.inl ⟨rfl, rfl⟩, hid, by rw [hxa, ha], hsa,
      hcnt, hfound, hall, hdc, hroot, k0, hknown, hdual, hns, hsig⟩
  · exact ⟨sh, th, sAlh, tAlh, th, tAlh, hsh, hth, hle, hsa, hta, Or.inr ⟨rfl, rfl⟩, hid, by rw [hxa, ha], hta,
      hcnt, hfound, hall, hdc, hroot, k0, hknown, hdual, hns, hsig⟩

/-- (g) End-to-end for header version 1.  If the header of the dual proof that has the id of the shipped header is
the GENUINE header of that transaction — its entries digest is the reference tree over the digests of the
transaction's entries `es` — then an accepted proof shows that (kv-metadata, document key, H(EncodedDocument)) IS one
of the transaction's entries, or a collision of H is exhibited.  (Field-width hypotheses `HdrOK`/`Fits`: what the
wire format can carry.)  A header that merely has the right id (the seeded change c19-a) gives no such conclusion. -/
theorem verifyDocument_entry_in_tx (hs : Hs D) (sigOk : Client.State D → Bool) (encKey : Bytes) (dc : DocCheck)
    (known : Client.State D) (p : Proof D) (ns : Client.State D)
    (hv1 : p.txHdr.version = 1)
    (h : verifyDocument hs sigOk encKey dc known p = some (.ok ns))
    (es : List (EntryV1 D)) (hne : es ≠ []) (hfs : ∀ x ∈ es, x.Fits)
    (hfit : ∀ e ∈ p.entries, e.md.length < 65536 ∧ e.key.length < 65536)
    (hok : Rec.Auth.HdrOK p.txHdr)
    (hes : ∀ hdr, (p.dual.sourceTxHeader = some hdr ∨ p.dual.targetTxHeader = some hdr) → hdr.id = p.txHdr.id →
        Rec.Auth.HdrOK hdr ∧
        hdr.eh = mth hs.mhH ((es.map (EntryV1.digest hs)).map (fun d => hs.mhH.leafH (hs.enc d)))) :
    (∃ md, (⟨md, encKey, hs.H p.encDoc⟩ : EntryV1 D) ∈ es) ∨ HColl hs := by
  obtain ⟨sh, th, sAlh, tAlh, hdr, provenAlh, hsh, hth, -, -, -, hside, hid, hxa, hha, -, ⟨e, hemem, hek, hev⟩, -, -,
    hroot, -⟩ := verifyDocument_sound hs sigOk encKey dc known p ns h
  have hhdr : p.dual.sourceTxHeader = some hdr ∨ p.dual.targetTxHeader = some hdr := by
    rcases hside with ⟨x, -⟩ | ⟨x, -⟩
    · rw [x]; exact Or.inl hsh
    · rw [x]; exact Or.inr hth
  obtain ⟨hokh, heh⟩ := hes hdr hhdr hid.symm
  rcases Rec.Auth.alh_inj_or_coll hs p.txHdr hdr hok hokh provenAlh hxa hha with heq | hc
  · -- the shipped header IS the proven one: its eh is the genuine entries digest
    have heh' : p.txHdr.eh = mth hs.mhH ((es.map (EntryV1.digest hs)).map (fun d => hs.mhH.leafH (hs.enc d))) := by
      rw [heq]; exact heh
    -- the document entry sits at some index of the shipped entries
    obtain ⟨i, hi, hget⟩ := List.getElem_of_mem hemem
    let ds := p.entries.map (entryDigest hs p.txHdr.version)
    have hlen : i < ds.length := by simp [ds]; exact hi
    obtain ⟨pr, -, -, -, hver⟩ := hInclusionProof_complete hs.mhH hs.enc ds i hlen
    have hdi : ds[i] = EntryV1.digest hs ⟨e.md, e.key, e.hValue⟩ := by
      simp only [ds, List.getElem_map, hget, entryDigest, hv1]
      rw [if_neg (by decide)]
      rfl
    have hroot' : (HTree.build hs.mhH hs.enc ds).root =
        mth hs.mhH ((es.map (EntryV1.digest hs)).map (fun d => hs.mhH.leafH (hs.enc d))) :=
      hroot.trans heh'
    rw [hdi, hroot'] at hver
    rcases entry_inclusion_sound hs pr ⟨e.md, e.key, e.hValue⟩ es hne (hfit e hemem) hfs hver with hin | hc
    · left
      refine ⟨e.md, ?_⟩
      rw [← hek, ← hev]
      exact hin
    · exact Or.inr hc
  · exact Or.inr hc

/-- REPAIRED (was the finding `C19:proof:panic:encoded-row-cut+hvalue+eh`: the unchecked slice expressions
`proof.EncodedDocument[voff:]` panicked; the model answered `none` = panic).  An `EncodedDocument` shorter than one
of the two offsets at which it is sliced is refused with `ErrInvalidProof`, for every proof (in particular when the
sender has adjusted the entry's `HValue` and the header's `Eh` to the cut row) and every known state: the verifying
client returns an error, it neither panics nor accepts. -/
theorem verifyDocument_short_row_rejected (hs : Hs D) (sigOk : Client.State D → Bool) (encKey : Bytes)
    (known : Client.State D) (p : Proof D) :
    verifyDocument hs sigOk encKey .outOfRange known p = some (.error .invalidProof) :=
  VerifyAux.verifyDocument_outOfRange hs sigOk encKey known p

/-- The header binding is by id AND accumulated hash on BOTH sides: a shipped header that only carries the id of the
source header is refused (the decision the seeded change c19-a weakened). -/
theorem bound_requires_alh (xId : Nat) (xAlh : D) (sId tId : Nat) (sAlh tAlh : D)
    (hid : xId = sId) (hne : xAlh ≠ sAlh) : bound xId xAlh sId tId sAlh tAlh = false := by
  unfold bound
  rw [if_neg (by intro ⟨a, _⟩; exact a hid), if_pos ⟨hid, hne⟩]

end DocumentProofs

-- ------------------------------------------------------------------ non-vacuity

/-- a one-field collection, two documents: the hypotheses of the theorems above are satisfiable -/
def exFields : List Field := [{ name := [110], ty := .int }]   -- "n" INTEGER
def exColl0 : Coll := { fields := exFields, docs := [] }
def exDoc (bits : Nat) : JObj := [([110], .num bits)]

example : (match insert exColl0 [1] (exDoc 0x4005999999999999) with
    | .ok c' => (search c' { exprs := [[{ field := [110], op := .eq, val := .int 2 }]], order := [], limit := 0 } 0 == [[1]])
    | .error _ => false) = true := by decide

example : (match insert exColl0 [1] (exDoc 0x7FE1CCF385EBC8A0) with
    | .ok c' => (search c' { exprs := [[{ field := [110], op := .lt, val := .int 0 }]], order := [], limit := 0 } 0 == [[1]])
    | .error _ => false) = true := by decide

example : ∀ d ∈ exColl0.docs, d.id ≠ [1] := by simp [exColl0]

/-- document proofs: an accepting run of `verifyDocument` exists (toy hash = pad/truncate to 32 bytes — nothing is
assumed about `H`; first use, one transaction holding one entry, the shipped header is both ends of the proof), and
the same proof with another `prevAlh` in the shipped header only (same id, other Alh) is refused.  Accepting
runs on real proofs with SHA-256 are produced by every harness run (`c19 vdoc`, genuine rounds). -/
def toyHs : Hs Digest where
  H b := Digest.ofBytes b
  enc d := d.val
  enc_len d := d.property
  enc_inj _ _ h := Subtype.ext h
def exEnc : Bytes := [1, 2, 3]
def exEntry : DocVerify.TxEntry Digest := ⟨[7], [], toyHs.H exEnc⟩
def exHdr : Tx.TxHeader Digest :=
  { id := 1, ts := 0, blTxID := 0, blRoot := Digest.ofBytes [], prevAlh := Digest.ofBytes [], version := 1, md := [],
    nentries := 1, eh := (Merkle.HTree.build toyHs.mhH toyHs.enc [DocVerify.entryDigest toyHs 1 exEntry]).root }
def exProof : DocVerify.Proof Digest := ⟨exEnc, [exEntry], exHdr, ⟨some exHdr, some exHdr, [], []⟩⟩
def exForged : DocVerify.Proof Digest :=
  ⟨exEnc, [exEntry], { exHdr with prevAlh := Digest.ofBytes [1] }, ⟨some exHdr, some exHdr, [], []⟩⟩

example : (match DocVerify.verifyDocument toyHs (fun _ => true) [7] .same ⟨0, Digest.ofBytes []⟩ exProof with
    | some (.ok ns) => ns.txId == 1
    | _ => false) = true := by decide

example : (match DocVerify.verifyDocument toyHs (fun _ => true) [7] .same ⟨0, Digest.ofBytes []⟩ exForged with
    | some (.error .invalidProof) => true
    | _ => false) = true := by decide

-- ------------------------------------------------------------------ searches through secondary indexes

/-- Every query `compile` accepts is TYPED — each comparison is over an existing field and its constant is NULL or
has the kind of the field's type (`structValueToSqlValue` never returns a value of another kind) — and has a
translation into the single-table SELECT (`docPQuery` does not fail): the typing hypothesis of
`search_through_any_index` holds for every query the engine accepts. -/
theorem compiled_query_typed (fields : List Field) (q : Query) (cq : CQuery) (offset : Nat)
    (h : compile fields q = .ok cq) :
    typedExprs fields cq.exprs = true ∧ ∃ pq, docPQuery fields cq offset = some pq :=
  SqlBridgeAux.compiled_translates fields q cq offset h

/-- The translated WHERE clause means what the index-free specification means: on the SQL row of every live
document it evaluates to `rowMatches` (never NULL, never an error), so the rows the SQL specification keeps are
exactly the rows of the documents the document specification keeps. -/
theorem translated_filter_faithful (c : Coll) (es : List (List CCmp)) (p : Sql.Pred)
    (hwf : (docTable c).wf = true) (hid : idsConsistent c = true)
    (ht : typedExprs c.fields es = true) (hp : toPred c.fields es = some p) :
    (∀ h ∈ liveHits c, p.eval (toSqlRow c.fields h) = .ok (some (rowMatches es h.row))) ∧
    Sql.rowsWhere p (docTable c).rows =
      ((liveHits c).filter (fun h => rowMatches es h.row)).map (toSqlRow c.fields) :=
  ⟨fun h hh => SqlBridgeAux.eval_toPred c.fields h (SqlBridgeAux.goodHits_of_wf c hwf hid h hh) es p ht hp,
    SqlBridgeAux.rowsWhere_docTable c es p hwf hid ht hp⟩

/-- **Whatever indexes exist, the same documents are found.**  The document query, translated to the SELECT that
`embedded/document` issues and answered by the SQL planner model over ANY list of secondary indexes `secs` —
whichever index `genScanSpecs` picks (ORDER BY coverage, equality-lookup fallback), whatever key window
`keyReaderSpecFrom` builds for it, with or without the sort step — returns, as a multiset, exactly the ids of the
index-free specification `search`.  Hypotheses (all decidable): the stored typed views fit their columns and hold
no NaN / −0.0 (`(docTable c).wf`), each carries its document's id (`idsConsistent`), the query is typed (always
true for compiled queries: `compiled_query_typed`), its constants fit their columns and are not NaN / −0.0
(`plainExprs`), no LIMIT. -/
theorem search_through_any_index (c : Coll) (secs : List (List Bytes)) (q : CQuery) (pl : Sql.Plan)
    (ids : List Bytes)
    (hwf : (docTable c).wf = true) (hid : idsConsistent c = true)
    (ht : typedExprs c.fields q.exprs = true) (hpl : plainExprs q.exprs = true) (hl : q.limit = 0)
    (h : ixSearch c secs q 0 = .ok (pl, ids)) :
    ids.Perm (search c q 0) :=
  SqlBridgeAux.search_any_index c secs q pl ids hwf hid ht hpl hl h

/-- **… in ORDER BY order**, for every LIMIT and OFFSET: the SQL rows behind the returned ids are sorted by the
translated ORDER BY whether or not the planner dropped the sort step; they are the rows of live documents `hits`
that satisfy the filter, `ids` are their ids in that order, and consecutive — indeed all — pairs are in the
document model's order (`ordCmp ≤ 0`). -/
theorem search_through_any_index_sorted (c : Coll) (secs : List (List Bytes)) (q : CQuery) (offset : Nat)
    (pl : Sql.Plan) (ids : List Bytes)
    (hwf : (docTable c).wf = true) (hid : idsConsistent c = true)
    (ht : typedExprs c.fields q.exprs = true) (hpl : plainExprs q.exprs = true)
    (h : ixSearch c secs q offset = .ok (pl, ids)) :
    ∃ (pq : Sql.PQuery) (ss : List (List Nat)) (rows : List Sql.Row) (hits : List Hit),
      docPQuery c.fields q offset = some pq ∧ toSecs c.fields secs = some ss ∧
      Sql.runPlan (docTable c) ss pq = .ok (pl, rows) ∧ rows.Pairwise (Sql.ordLe pq.order) ∧
      rows = hits.map (toSqlRow c.fields) ∧ ids = hits.map (·.id) ∧
      (∀ x ∈ hits, x ∈ liveHits c ∧ rowMatches q.exprs x.row = true) ∧
      hits.Pairwise (fun a b => ordCmp q.order a.row b.row ≤ 0) :=
  SqlBridgeAux.search_any_index_sorted c secs q offset pl ids hwf hid ht hpl h

/-- **… and LIMIT / OFFSET is a slice**: with paging the answer is the window of the unpaged answer of the SAME
plan (stream cut short without the sort step, cut after it with it). -/
theorem search_through_any_index_paged (c : Coll) (secs : List (List Bytes)) (q : CQuery) (offset : Nat)
    (pl : Sql.Plan) (all : List Bytes)
    (h0 : ixSearch c secs { q with limit := 0 } 0 = .ok (pl, all)) :
    ixSearch c secs q offset = .ok (pl, window offset q.limit all) :=
  SqlBridgeAux.search_any_index_paged c secs q offset pl all h0

-- non-vacuity: fields a, b INTEGER, composite index (a, b), `a <= 3 AND b >= 2 ORDER BY a`
def ixA : Bytes := [97]
def ixB : Bytes := [98]
def ixFields : List Field := [⟨ixA, .int⟩, ⟨ixB, .int⟩]
def ixDoc (id : UInt8) (a b : Int) : DocEntry :=
  { id := [id], revs := [{ doc := some [], row := [(idField, .id [id]), (ixA, .int a), (ixB, .int b)] }] }
def ixColl : Coll :=
  { fields := ixFields, docs := [ixDoc 1 1 5, ixDoc 2 1 1, ixDoc 3 2 2, ixDoc 4 3 3, ixDoc 5 4 4, ixDoc 6 0 9] }
def ixQ : CQuery := { exprs := [[⟨ixA, .le, .int 3⟩, ⟨ixB, .ge, .int 2⟩]], order := [(ixA, false)], limit := 0 }

example : (docTable ixColl).wf = true ∧ idsConsistent ixColl = true ∧
    typedExprs ixColl.fields ixQ.exprs = true ∧ plainExprs ixQ.exprs = true := by decide

def ixPQ : Sql.PQuery :=
  { hint := none, order := [⟨1, false⟩], limit := 0, offset := 0,
    where_ := .and (.cmp 1 .le false (.int 3)) (.cmp 2 .ge false (.int 2)) }

example : docPQuery ixFields ixQ 0 = some ixPQ := rfl

example : ixSearch ixColl [[ixA, ixB]] ixQ 0 =
    .ok ({ idx := [1, 2], desc := false, sort := false }, [[6], [1], [3], [4]]) := by decide

example : search ixColl ixQ 0 = [[6], [1], [3], [4]] := by decide


-- all hypotheses of `search_through_any_index` hold jointly on the instance; the theorem applies
example : [[6], [1], [3], [4]].Perm (search ixColl ixQ 0) :=
  search_through_any_index ixColl [[ixA, ixB]] ixQ { idx := [1, 2], desc := false, sort := false } _
    (by decide) (by decide) (by decide) (by decide) rfl (by decide)

-- the same query without the index: primary scan + sort step, the same ids
example : ixSearch ixColl [] ixQ 0 =
    .ok ({ idx := [0], desc := false, sort := true }, [[6], [1], [3], [4]]) := by decide

-- with an index on b only: not usable for the ORDER BY, primary scan + sort step again
example : ixSearch ixColl [[ixB]] ixQ 0 =
    .ok ({ idx := [0], desc := false, sort := true }, [[6], [1], [3], [4]]) := by decide

-- `search_through_any_index_paged` applies: LIMIT 2 OFFSET 1 through the composite index
example : ixSearch ixColl [[ixA, ixB]] { ixQ with limit := 2 } 1 =
    .ok ({ idx := [1, 2], desc := false, sort := false }, [[1], [3]]) :=
  search_through_any_index_paged ixColl [[ixA, ixB]] { ixQ with limit := 2 } 1 _ [[6], [1], [3], [4]] (by decide)

-- the key window of the composite index for this query: `a`'s column has only an upper bound, so NO lower
-- bound is written at all (`b >= 2` must not end up at `a`'s position) …
example : (Sql.Pred.and (.cmp 1 .le false (.int 3)) (.cmp 2 .ge false (.int 2))).ranges [] =
    .ok [(1, { hi := some (.int 3) }), (2, { lo := some (.int 2) })] := rfl

example : Sql.keyBounds (docCols ixFields) [(1, { hi := some (.int 3) }), (2, { lo := some (.int 2) })] [1, 2] [] []
    false false = .ok ([], [0x80, 0x80, 0, 0, 0, 0, 0, 0, 3, 0xFF]) := by decide

-- … the document (a = 1, b = 5) satisfies the filter, lies inside that window, and would be lost if the encoded
-- bound of `b` (2) were used as the lower key; (a = 4, b = 4) is outside the window (the window does restrict)
example : (match Sql.indexKey (docTable ixColl) [1, 2] [.blob [1], .int 1, .int 5] with
    | .ok k => Sql.inWindow [] [0x80, 0x80, 0, 0, 0, 0, 0, 0, 3, 0xFF] k &&
        !Sql.inWindow [0x80, 0x80, 0, 0, 0, 0, 0, 0, 2] [0x80, 0x80, 0, 0, 0, 0, 0, 0, 3, 0xFF] k
    | .error _ => false) = true := by decide

example : (match Sql.indexKey (docTable ixColl) [1, 2] [.blob [5], .int 4, .int 4] with
    | .ok k => !Sql.inWindow [] [0x80, 0x80, 0, 0, 0, 0, 0, 0, 3, 0xFF] k
    | .error _ => false) = true := by decide

-- a query on the id column and one with OR / NULL: the bridge hypotheses hold and the answers agree
def ixQ2 : CQuery :=
  { exprs := [[⟨idField, .gt, .id [2]⟩, ⟨ixB, .lt, .int 9⟩], [⟨ixA, .eq, .null⟩]], order := [(ixB, true)], limit := 0 }

example : typedExprs ixColl.fields ixQ2.exprs = true ∧ plainExprs ixQ2.exprs = true := by decide
example : ixSearch ixColl [[ixA, ixB], [ixB]] ixQ2 0 =
    .ok ({ idx := [2], desc := true, sort := false }, [[5], [4], [3]]) := by decide
example : search ixColl ixQ2 0 = [[5], [4], [3]] := by decide

-- `compiled_query_typed`: a query as the API sends it compiles, and then it is typed
def ixRawQ : Query :=
  { exprs := [[⟨ixA, .le, .num 0x4008000000000000⟩, ⟨ixB, .ge, .num 0x4000000000000000⟩]],
    order := [(ixA, false)], limit := 0 }

example : (match compile ixFields ixRawQ with
    | .ok cq => cq.exprs == ixQ.exprs && typedExprs ixFields cq.exprs
    | .error _ => false) = true := by decide

end ImmuModel.Props.C19
