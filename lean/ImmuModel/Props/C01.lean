/-
C01 — Verified reads/writes: proofs are complete and sound (tamper evidence).
ONLY property theorems + non-vacuity examples.  `hs : Hs D` is an ARBITRARY hash with a
fixed-width injective digest encoding; nothing is assumed about `H`: every security
conclusion is `… ∨ HColl hs` (an explicit collision of `H`).
Models: ImmuModel/Tx/Header.lean (Alh), ImmuModel/Store/Proofs.lean (the verifiers of
embedded/store/verification.go, branch by branch), ImmuModel/Store/History.lean.
-/
import ImmuModel.Store.Proofs.C01Proofs
import ImmuModel.Store.Proofs.C01Complete
import ImmuModel.Client.Proofs.Flow
import ImmuModel.Client.Proofs.SqlFlow

namespace ImmuModel.Props.C01
open ImmuModel ImmuModel.Tx ImmuModel.Merkle ImmuModel.Store

variable {D : Type} [DecidableEq D]

/-- **Linear proofs are exact.** `VerifyLinearProof` accepts iff the target accumulated hash is
reached from the source one by `t - s` applications of `advanceLinearHash`. -/
theorem linearProof_sound (hs : Hs D) (p : LinearProof D) (s t : Nat) (sa ta : D)
    (hv : verifyLinearProof hs (some p) s t sa ta = true) : 1 ≤ s ∧ s ≤ t ∧ LinExt hs s sa t ta :=
  verifyLinearProof_sound hs p s t sa ta hv

theorem linearProof_complete (hs : Hs D) (s t : Nat) (sa ta : D) (h1 : 1 ≤ s)
    (hl : LinExt hs s sa t ta) : ∃ p, verifyLinearProof hs (some p) s t sa ta = true :=
  verifyLinearProof_complete hs s t sa ta h1 hl

/-- **The accumulated hash commits to the past**: two chains ending in the same accumulated hash of
tx `t` start from the same accumulated hash of tx `s` (or exhibit a collision). -/
theorem chain_commits_to_past (hs : Hs D) (s t : Nat) (a a' c : D) (ht : t < 2 ^ 64)
    (h1 : LinExt hs s a t c) (h2 : LinExt hs s a' t c) : a = a' ∨ HColl hs :=
  linExt_backward_unique hs s t a a' c ht h1 h2

/-- **Completeness.** For every well-formed history with ANY binary-linking lag (monotone between
the two headers) and every `1 ≤ s ≤ t ≤ n`, the proof the store generates (model of
`ImmuStore.DualProof`, tied byte-exact to the code by the correspondence) is accepted by the
verifier for the genuine states. -/
theorem dualProof_completeness [Inhabited D] (hs : Hs D) (hdrs : List (TxHeader D)) (alhs : List D) (aht : AHT D)
    (H : Hist hs hdrs alhs) (ha : buildAht hs alhs = some aht)
    (s t : Nat) (h1 : 1 ≤ s) (h2 : s ≤ t) (h3 : t ≤ alhs.length)
    (hmono : (hdrs[s-1]'(by rw [H.len]; omega)).blTxID ≤ (hdrs[t-1]'(by rw [H.len]; omega)).blTxID) :
    ∃ p, dualProof hs ⟨hdrs, alhs, aht⟩ s t = some p ∧
      verifyDualProof hs (some p) s t (alhs[s-1]'(by omega)) (alhs[t-1]'(by omega)) = some true :=
  dualProof_complete hs hdrs alhs aht H ha s t h1 h2 h3 hmono

/-- **Tree binding (no forged leaf at the trusted position).**  For an ARBITRARY (possibly
malicious) target header and proof: if `VerifyDualProof` accepts, then whatever list of accumulated
hashes `L` the target's binary-linking root opens to, its element at the trusted position `s` is
the trusted accumulated hash — for `s < BlTxID` through the inclusion proof, for `s = BlTxID`
through the guard added by repair 991a435 (before it the statement was false: the harness's
`attack-forged-last-leaf` template was accepted by the real verifier). -/
theorem dualProof_tree_binding (hs : Hs D) (p : DualProof D) (sh th : TxHeader D)
    (s t : Nat) (sa ta : D) (L : List D)
    (hsh : p.sourceTxHeader = some sh) (hth : p.targetTxHeader = some th)
    (hv : verifyDualProof hs (some p) s t sa ta = some true)
    (hL : th.blRoot = mth hs.mh (treeLeaves hs L)) (hLen : L.length = th.blTxID)
    (hs_le : s ≤ th.blTxID) :
    L[s - 1]? = some sa ∨ HColl hs :=
  verifyDualProof_tree_binding hs p sh th s t sa ta L hsh hth hv hL hLen hs_le

/-- **Chain binding.** An accepted dual proof fixes both headers (they hash to the two states,
carry the claimed ids) and links the states linearly: from `s` when the target tree is not newer
than `s`, otherwise from the last leaf of the target tree. -/
theorem dualProof_chain_binding (hs : Hs D) (p : DualProof D) (sh th : TxHeader D)
    (s t : Nat) (sa ta : D)
    (hsh : p.sourceTxHeader = some sh) (hth : p.targetTxHeader = some th)
    (hv : verifyDualProof hs (some p) s t sa ta = some true) :
    alh hs sh = some sa ∧ alh hs th = some ta ∧ sh.id = s ∧ th.id = t ∧ 1 ≤ s ∧ s ≤ t ∧
    (th.blTxID ≤ s → LinExt hs s sa t ta) ∧
    (s < th.blTxID → LinExt hs th.blTxID p.targetBlTxAlh t ta) :=
  verifyDualProof_chain hs p sh th s t sa ta hsh hth hv

/-- **Tree extension.** The tree the trusted source committed to is a prefix of the tree the
accepted target commits to. -/
theorem dualProof_tree_extends (hs : Hs D) (p : DualProof D) (sh th : TxHeader D)
    (s t : Nat) (sa ta : D) (L : List D)
    (hsh : p.sourceTxHeader = some sh) (hth : p.targetTxHeader = some th)
    (hv : verifyDualProof hs (some p) s t sa ta = some true)
    (hL : th.blRoot = mth hs.mh (treeLeaves hs L)) (hLen : L.length = th.blTxID)
    (hpos : 0 < sh.blTxID) :
    sh.blTxID ≤ th.blTxID ∧ (sh.blRoot = mth hs.mh (treeLeaves hs (L.take sh.blTxID)) ∨ HColl hs) :=
  verifyDualProof_tree_extends hs p sh th s t sa ta L hsh hth hv hL hLen hpos

/-- **Fork consistency (no re-ordered or forked history verifies).** A client trusting state `s` of
a well-formed history `A` accepts state `t` of a well-formed history `B` only if `A` and `B` agree
on every accumulated hash up to `s` — for ANY binary-linking lag of either history. -/
theorem fork_consistency (hs : Hs D) (p : DualProof D)
    (hA hB : List (TxHeader D)) (aA aB : List D) (HA : Hist hs hA aA) (HB : Hist hs hB aB)
    (s t : Nat) (h1 : 1 ≤ s) (hsA : s ≤ aA.length) (htB : t ≤ aB.length) (ht1 : 1 ≤ t) (ht64 : t < 2 ^ 64)
    (hth : p.targetTxHeader = some (hB[t-1]'(by rw [HB.len]; omega)))
    (hsh : p.sourceTxHeader = some (hA[s-1]'(by rw [HA.len]; omega)))
    (hv : verifyDualProof hs (some p) s t (aA[s-1]'(by omega)) (aB[t-1]'(by omega)) = some true) :
    aA.take s = aB.take s ∨ HColl hs :=
  verifyDualProof_fork_consistent hs p hA hB aA aB HA HB s t h1 hsA htB ht1 ht64 hth hsh hv

/-- **DualProofV2 tree binding** (documents): unconditional inclusion of the trusted state. -/
theorem dualProofV2_tree_binding (hs : Hs D) (p : DualProofV2 D) (sh th : TxHeader D)
    (s t : Nat) (sa ta : D) (L : List D)
    (hsh : p.sourceTxHeader = some sh) (hth : p.targetTxHeader = some th)
    (hv : verifyDualProofV2 hs (some p) s t sa ta = some (.ok ()))
    (hL : th.blRoot = mth hs.mh (treeLeaves hs L)) (hLen : L.length = th.blTxID) (hlt : s < t) :
    L[s - 1]? = some sa ∨ HColl hs :=
  verifyDualProofV2_tree_binding hs p sh th s t sa ta L hsh hth hv hL hLen hlt

/-- Same id ⇒ same state (guard added by repair 991a435). -/
theorem dualProofV2_same_id (hs : Hs D) (p : DualProofV2 D) (s : Nat) (sa ta : D)
    (hv : verifyDualProofV2 hs (some p) s s sa ta = some (.ok ())) : sa = ta :=
  verifyDualProofV2_same_id hs p s sa ta hv

/-- **No altered entry verifies.** An accepted entry-inclusion proof against the entries digest of
a transaction whose entries are `es` proves that the (metadata, key, value-hash) triple is one of
them, whatever index/width/terms the proof carries. -/
theorem entry_sound (hs : Hs D) (pr : HProof D) (e : EntryV1 D) (es : List (EntryV1 D))
    (hne : es ≠ []) (hf : e.Fits) (hfs : ∀ x ∈ es, x.Fits)
    (hv : hVerifyInclusion hs.mhH hs.enc pr (e.digest hs)
            (mth hs.mhH ((es.map (EntryV1.digest hs)).map (fun d => hs.mhH.leafH (hs.enc d)))) = true) :
    e ∈ es ∨ HColl hs :=
  entry_inclusion_sound hs pr e es hne hf hfs hv

/-- The entry digest is injective on (metadata, key, value hash) within the uint16 length fields. -/
theorem entryDigest_injective (hs : Hs D) (e e' : EntryV1 D) (hf : e.Fits) (hf' : e'.Fits)
    (h : e.digest hs = e'.digest hs) : e = e' ∨ HColl hs :=
  entryDigestV1_inj hs e e' hf hf' h

/-- **Client flow (pkg/client verifiedGet).** What an accepted verified read establishes when the
client holds a state: the header on the proven side hashes to the proven state and carries the proven
tx id, the digest of the spec built from the REQUESTED key is included under that header's entries
digest, the dual proof between old and new state was accepted (so every theorem above applies), the
new state is the proven tx when it is not older than the local one and the local state otherwise. The
model `Client.verifiedGet` is tied to the real SDK by the `cget` correspondence (real pkg/client over
bufconn, tampered responses included). -/
theorem client_verifiedGet_sound (hs : Hs D) (sigOk : Client.State D → Bool) (st : Client.State D)
    (reqKey : Bytes) (atTx : Nat) (r : Client.GetResp D) (ns : Client.State D) (hpos : 0 < st.txId)
    (h : Client.verifiedGet hs sigOk st reqKey atTx r = some (.ok ns)) :
    ∃ vTx spec dg hdr provenAlh sId sAlh tId tAlh,
      Client.getTarget reqKey atTx r.entry = some (vTx, spec) ∧
      Client.specDigest hs r.version spec = some dg ∧
      ((st.txId ≤ vTx ∧ r.dual.targetTxHeader = some hdr ∧ sId = st.txId ∧ sAlh = st.txHash ∧ tId = vTx ∧ tAlh = provenAlh) ∨
       (vTx < st.txId ∧ r.dual.sourceTxHeader = some hdr ∧ sId = vTx ∧ sAlh = provenAlh ∧ tId = st.txId ∧ tAlh = st.txHash)) ∧
      alh hs hdr = some provenAlh ∧ hdr.id = vTx ∧
      hVerifyInclusion hs.mhH hs.enc r.inclusion dg hdr.eh = true ∧
      verifyDualProof hs (some r.dual) sId tId sAlh tAlh = some true ∧
      ns = ⟨tId, tAlh⟩ ∧ sigOk ns = true :=
  Client.verifiedGet_sound hs sigOk st reqKey atTx r ns hpos h

/-- A plain (non-reference) entry that is accepted carries the requested key and the proven tx
(repair bd31762), trust-on-first-use included. -/
theorem client_plain_entry_is_requested (hs : Hs D) (sigOk : Client.State D → Bool) (st : Client.State D)
    (reqKey : Bytes) (atTx : Nat) (r : Client.GetResp D) (ns : Client.State D) (href : r.entry.ref = none)
    (h : Client.verifiedGet hs sigOk st reqKey atTx r = some (.ok ns)) :
    r.entry.key = reqKey ∧ (atTx ≠ 0 → r.entry.tx = atTx) ∧
    Client.getTarget reqKey atTx r.entry = some (r.entry.tx, Client.entrySpec reqKey r.entry.md r.entry.value) :=
  Client.verifiedGet_plain_entry hs sigOk st reqKey atTx r ns href h

/-- **End to end (header v1).** If the proven transaction's entries are `es`, an accepted plain verified
read returns a (metadata, key, value) that IS one of that transaction's entries — or exhibits a collision. -/
theorem client_returned_entry_is_in_tx (hs : Hs D) (sigOk : Client.State D → Bool) (st : Client.State D)
    (reqKey : Bytes) (atTx : Nat) (r : Client.GetResp D) (ns : Client.State D) (hpos : 0 < st.txId)
    (hv1 : r.version = 1) (href : r.entry.ref = none)
    (h : Client.verifiedGet hs sigOk st reqKey atTx r = some (.ok ns))
    (es : List (EntryV1 D)) (hne : es ≠ []) (hfs : ∀ x ∈ es, x.Fits)
    (hfit : r.entry.md.length < 65536 ∧ (Client.wrapKey reqKey).length < 65536)
    (hes : ∀ hdr, (r.dual.targetTxHeader = some hdr ∨ r.dual.sourceTxHeader = some hdr) → hdr.id = r.entry.tx →
        hdr.eh = mth hs.mhH ((es.map (EntryV1.digest hs)).map (fun d => hs.mhH.leafH (hs.enc d)))) :
    (⟨r.entry.md, Client.wrapKey reqKey, hs.H (UInt8.ofNat Gen.dbPlainValuePrefix :: r.entry.value)⟩ : EntryV1 D) ∈ es ∨ HColl hs :=
  Client.verifiedGet_entry_in_tx hs sigOk st reqKey atTx r ns hpos hv1 href h es hne hfs hfit hes

/-- **Client flow (pkg/client VerifyRow).** What an accepted `VerifyRow` establishes when the client holds
a state: the sql-encoded row of the response decodes, the column-by-column comparison of the PRESENTED row
with the decoded row passed, the digest of the entry `(pkKey, no metadata, SqlEntry.Value)` — `pkKey` built
from the caller's primary-key values — is included under the entries digest of the header that hashes to the
proven state and carries the proven tx id, and the dual proof between old and new state was accepted (so the
theorems above apply).  The model `Client.verifyRow` is tied to the real SDK by the `vrow` correspondence
(real pkg/client over bufconn; rows and responses tampered).  The catalog part of the response (`colIds`,
`colTypes`, `maxColId`) is NOT covered by any proof: known finding `catalog-metadata-unauthenticated`. -/
theorem client_verifyRow_sound (hs : Hs D) (sigOk : Client.State D → Bool) (st : Client.State D) (pkCountOk : Bool)
    (pkKey : Except Client.RowErr Bytes) (row : List (Bytes × Option Client.RowVal)) (r : Client.SqlGetResp D)
    (ns : Client.State D) (hpos : 0 < st.txId)
    (h : Client.verifyRow hs sigOk st pkCountOk pkKey row r = some (.ok ns)) :
    ∃ key decoded dg hdr provenAlh sId sAlh tId tAlh,
      pkKey = .ok key ∧ Client.decodeRow r.value r.colTypes r.maxColId = .ok decoded ∧
      Client.verifyRowAgainst decoded r.colIds row = .ok () ∧
      Client.specDigest hs r.version (key, [], r.value) = some dg ∧
      ((st.txId ≤ r.tx ∧ r.dual.targetTxHeader = some hdr ∧ sId = st.txId ∧ sAlh = st.txHash ∧ tId = r.tx ∧ tAlh = provenAlh) ∨
       (r.tx < st.txId ∧ r.dual.sourceTxHeader = some hdr ∧ sId = r.tx ∧ sAlh = provenAlh ∧ tId = st.txId ∧ tAlh = st.txHash)) ∧
      alh hs hdr = some provenAlh ∧ hdr.id = r.tx ∧
      hVerifyInclusion hs.mhH hs.enc r.inclusion dg hdr.eh = true ∧
      verifyDualProof hs (some r.dual) sId tId sAlh tAlh = some true ∧
      ns = ⟨tId, tAlh⟩ ∧ sigOk ns = true :=
  Client.verifyRow_sound hs sigOk st pkCountOk pkKey row r ns hpos h

/-- **The presented row IS the proven row, column by column** (seeded change c01-e).  Every column of a row
accepted by `VerifyRow` is a column of the response's table map; a presented NULL means the decoded proven
row holds NO value for that column (NULLs are not stored in the encoded row), a presented non-NULL value is
the decoded proven value (floats: `==` of float64, i.e. equal and not NaN). -/
theorem client_verifyRow_presented_row_is_proven_row (hs : Hs D) (sigOk : Client.State D → Bool) (st : Client.State D)
    (pkCountOk : Bool) (pkKey : Except Client.RowErr Bytes) (row : List (Bytes × Option Client.RowVal))
    (r : Client.SqlGetResp D) (ns : Client.State D) (hpos : 0 < st.txId)
    (h : Client.verifyRow hs sigOk st pkCountOk pkKey row r = some (.ok ns)) :
    ∃ decoded, Client.decodeRow r.value r.colTypes r.maxColId = .ok decoded ∧
      ∀ p ∈ row, ∃ id v, Client.lookupName r.colIds p.1 = some id ∧ p.2 = some v ∧
        ((v = .null ∧ Client.lookupId decoded id = none) ∨
         (v ≠ .null ∧ ∃ d, Client.lookupId decoded id = some d ∧
           (v = d ∨ ∃ a b, v = .f a ∧ d = .f b ∧ Client.floatEq a b = true))) :=
  Client.verifyRow_presented_row_is_proven_row hs sigOk st pkCountOk pkKey row r ns hpos h

/-- `verifyRowAgainst` is EXACT: it accepts iff every presented column is a known column carrying a value
and either claims NULL for a column absent from the proven row, or compares equal to the proven value. -/
theorem client_verifyRowAgainst_exact (decoded : List (Nat × Client.RowVal)) (colIds : List (Bytes × Nat))
    (row : List (Bytes × Option Client.RowVal)) :
    Client.verifyRowAgainst decoded colIds row = .ok () ↔
    ∀ p ∈ row, ∃ id v, Client.lookupName colIds p.1 = some id ∧ p.2 = some v ∧
      ((v = .null ∧ Client.lookupId decoded id = none) ∨
       (∃ d, Client.lookupId decoded id = some d ∧ Client.rowValEqual v d = .ok true)) :=
  Client.verifyRowAgainst_iff decoded colIds row

/-- A NULL claim is accepted only for a column the proven row has no value for (the decoded proven row never
contains NULL values: `decodeRow_no_null`). -/
theorem client_verifyRow_null_claim_means_absent (enc : Bytes) (colTypes : List (Nat × Option Sql.SqlType))
    (maxColId : Nat) (decoded : List (Nat × Client.RowVal)) (colIds : List (Bytes × Nat))
    (row : List (Bytes × Option Client.RowVal))
    (hd : Client.decodeRow enc colTypes maxColId = .ok decoded)
    (h : Client.verifyRowAgainst decoded colIds row = .ok ()) :
    ∀ name, (name, some Client.RowVal.null) ∈ row →
      ∃ id, Client.lookupName colIds name = some id ∧ Client.lookupId decoded id = none :=
  Client.verifyRowAgainst_null_means_absent decoded colIds row
    (Client.decodeRow_no_null enc colTypes maxColId decoded hd) h

/-- **Necessity of the order of the two checks** (the regression c01-e): the variant that takes the
"value is NULL ⇒ continue" shortcut BEFORE looking the column up in the proven row accepts a NULL claim for a
column committed as `1000`; the code as it is rejects it. -/
theorem client_verifyRow_earlyNull_variant_unsound :
    Client.verifyRowAgainstEarlyNull [(1, Client.RowVal.n 1000)] [([99], 1)] [([99], some Client.RowVal.null)] = .ok () ∧
    Client.verifyRowAgainst [(1, Client.RowVal.n 1000)] [([99], 1)] [([99], some Client.RowVal.null)] = .error .corrupted :=
  Client.earlyNull_accepts_null_for_committed_value

/-! Non-vacuity: a well-formed one-transaction history exists for every hash, and its state
verifies against itself (so the hypotheses of the theorems above are satisfiable). -/
example (hs : Hs D) (d : D) : LinExt hs 1 d 1 d := LinExt.refl

example (hs : Hs D) (d : D) : ∃ p, verifyLinearProof hs (some p) 1 1 d d = true :=
  verifyLinearProof_complete hs 1 1 d d (by omega) LinExt.refl

/-- An honest row (a value, a genuine NULL) is accepted: the hypotheses of the VerifyRow theorems are satisfiable. -/
example : Client.verifyRowAgainst [(1, Client.RowVal.n 1000)] [([99], 1), ([98], 2)]
    [([99], some (Client.RowVal.n 1000)), ([98], some Client.RowVal.null)] = .ok () := by decide

end ImmuModel.Props.C01
