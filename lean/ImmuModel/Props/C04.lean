/-
C04 — Reads reflect exactly the committed log (index agrees with history).

ONLY property theorems and non-vacuity examples; helper lemmas live in `ImmuModel/Index/Proofs/*`.

Reading guide
* SPEC  `LogView sp env txs k`   (Index/LogView.lean): versions of target key `k`, newest first, as a
  comprehension over the committed entries of `txs` — no bulks, no buffers, no tree.
* MODEL `runBulks sp env {} bulks` (Index/Indexer.lean): the indexer loop `indexSince` over an arbitrary
  sequence of bulks, inserting into the multi-version map (Index/MVMapLite.lean).  `sp.q : Quirks` selects the
  variant of the injective-mapping branch: the default is the code AS IT IS (lookup of the previous row
  version as of the FIRST tx of the bulk; tombstone not marked deleted when the previous entry carries
  metadata); the theorems are stated for every setting, with the extra hypotheses exactly where a defect bites.
  `runBulksAliased` additionally mirrors the key aliasing of the code as it is (finding F1), `indexBulkCap`
  the bounded `_kvs` buffer.
* Which model matches /repo as it is: `runBulksAliased` with default quirks (checked exactly by the
  correspondence on backlog scenarios, see harness c04; the harness detects the variant at every run).  The
  main theorems are about `runBulks`, i.e. the code after the one-line repair "copy the key";
  `index_refines_log_fails_with_aliasing` shows the refinement is FALSE for the aliased model already on a
  two-transaction bulk.
-/
import ImmuModel.Index.Refines
import ImmuModel.Gen.C04
import ImmuModel.Index.Proofs.Refine
import ImmuModel.Index.Proofs.Reads
import ImmuModel.Index.Proofs.Injective

namespace ImmuModel.Props.C04
open ImmuModel ImmuModel.Index.L

/-- **Index = log, for every partition into bulks.**  Index the transactions `bulks.flatten` (ids strictly
increasing, e.g. `1..n`) in ANY grouping into non-empty bulks: the indexer never fails and the tree holds,
for every key, exactly the versions the log prescribes.  For injective mappings ON THE CODE AS IT IS
(`sp.q.lookupAtBulkStart`) the grouping must be into single transactions (see `stale_mapped_key_in_bulk`
for why); once the lookup uses the transaction being indexed, any grouping is fine there too. -/
theorem index_refines_log (sp : Spec) (env : Env) (bulks : List (List Tx))
    (hne : ∀ b ∈ bulks, b ≠ [])
    (hids : IdsAbove 0 bulks.flatten)
    (hok : ∀ tx ∈ bulks.flatten, TxOk sp env tx)
    (hpart : sp.injective = false ∨ sp.q.lookupAtBulkStart = false ∨ ∀ b ∈ bulks, b.length = 1) :
    ∃ tr, runBulks sp env {} bulks = .ok tr ∧ Refines tr sp env bulks.flatten ∧ tr.ts ≤ lastId bulks.flatten :=
  RefineAux.index_refines_log sp env bulks hne hids hok hpart

/-- **Bulk-partition independence**: two groupings of the same log give the same index content. -/
theorem bulk_partition_independent (sp : Spec) (env : Env) (b1 b2 : List (List Tx))
    (hflat : b1.flatten = b2.flatten)
    (hne1 : ∀ b ∈ b1, b ≠ []) (hne2 : ∀ b ∈ b2, b ≠ [])
    (hids : IdsAbove 0 b1.flatten)
    (hok : ∀ tx ∈ b1.flatten, TxOk sp env tx)
    (hinj : sp.injective = false ∨ sp.q.lookupAtBulkStart = false) :
    ∃ t1 t2, runBulks sp env {} b1 = .ok t1 ∧ runBulks sp env {} b2 = .ok t2 ∧
      ∀ k, versions t1.m k = versions t2.m k :=
  RefineAux.bulk_partition_independent sp env b1 b2 hflat hne1 hne2 hids hok hinj

/-- one bulk `a ++ b` = bulk `a` followed by bulk `b` -/
theorem indexBulk_append (sp : Spec) (env : Env) (a b : List Tx)
    (ha : a ≠ []) (hb : b ≠ [])
    (hids : IdsAbove 0 (a ++ b))
    (hok : ∀ tx ∈ a ++ b, TxOk sp env tx)
    (hinj : sp.injective = false ∨ sp.q.lookupAtBulkStart = false) :
    ∃ t1 t2, runBulks sp env {} [a ++ b] = .ok t1 ∧ runBulks sp env {} [a, b] = .ok t2 ∧
      ∀ k, versions t1.m k = versions t2.m k :=
  RefineAux.indexBulk_append sp env a b ha hb hids hok hinj

/-- The newest version in the view is the LAST committed event for the key (nothing later touches it),
and every older version has a smaller tx id. -/
theorem logview_latest (sp : Spec) (env : Env) (txs : List Tx) (k : Key)
    (hids : IdsAbove 0 txs) (hok : ∀ tx ∈ txs, TxOk sp env tx)
    (t : Nat) (v : IVal) (older : Vers IVal)
    (hv : LogView sp env txs k = (t, v) :: older) :
    (∃ pre post, logEvents sp env txs = pre ++ ⟨k, v, t⟩ :: post ∧ ∀ kv ∈ post, kv.k ≠ k) ∧
    ∀ x ∈ older, x.1 < t :=
  ReadsAux.logview_latest sp env txs k hids hok t v older hv

/-- **Get returns the latest committed version** (value ref, metadata, tx id, revision = number of versions). -/
theorem get_latest {tr : Tree IVal} {sp : Spec} {env : Env} {txs : List Tx}
    (h : Refines tr sp env txs) (now : Nat) (k : Key) (t : Nat) (v : IVal) (older : Vers IVal)
    (hv : LogView sp env txs k = (t, v) :: older)
    (hexp : v.md.expiredAt now = false) (hdel : v.md.deleted = false) :
    storeGet tr.m now k = .ok ⟨t, older.length + 1, v⟩ :=
  ReadsAux.get_latest h now k t v older hv hexp hdel

/-- a key never written is not found -/
theorem get_absent_notfound {tr : Tree IVal} {sp : Spec} {env : Env} {txs : List Tx}
    (h : Refines tr sp env txs) (now : Nat) (k : Key) (hv : LogView sp env txs k = []) :
    storeGet tr.m now k = .error .notFound :=
  ReadsAux.get_absent_notfound h now k hv

/-- **Logical delete ⇒ not found** (unless it is also expired: `IgnoreExpired` runs first). -/
theorem get_deleted_notfound {tr : Tree IVal} {sp : Spec} {env : Env} {txs : List Tx}
    (h : Refines tr sp env txs) (now : Nat) (k : Key) (t : Nat) (v : IVal) (older : Vers IVal)
    (hv : LogView sp env txs k = (t, v) :: older)
    (hexp : v.md.expiredAt now = false) (hdel : v.md.deleted = true) :
    storeGet tr.m now k = .error .notFound :=
  ReadsAux.get_deleted_notfound h now k t v older hv hexp hdel

/-- **Expired ⇒ `ErrExpiredEntry`** (an `ErrKeyNotFound`). -/
theorem get_expired_notfound {tr : Tree IVal} {sp : Spec} {env : Env} {txs : List Tx}
    (h : Refines tr sp env txs) (now : Nat) (k : Key) (t : Nat) (v : IVal) (older : Vers IVal)
    (hv : LogView sp env txs k = (t, v) :: older)
    (hexp : v.md.expiredAt now = true) :
    storeGet tr.m now k = .error .expired :=
  ReadsAux.get_expired_notfound h now k t v older hv hexp

/-- **GetBetween** returns the newest version with `init <= tx <= fin` together with its revision
(= its position in commit order), or not-found when there is none. -/
theorem getBetween_exact {tr : Tree IVal} {sp : Spec} {env : Env} {txs : List Tx}
    (h : Refines tr sp env txs) (hids : IdsAbove 0 txs) (hok : ∀ tx ∈ txs, TxOk sp env tx)
    (k : Key) (init fin : Nat) (hif : init ≤ fin) (hfin : 0 < fin) :
    match storeGetBetween tr.m k init fin with
    | .ok r =>
        (LogView sp env txs k).reverse[r.hc - 1]? = some (r.tx, r.v) ∧ 1 ≤ r.hc ∧ init ≤ r.tx ∧ r.tx ≤ fin ∧
        ∀ x ∈ LogView sp env txs k, x.1 ≤ fin → x.1 ≤ r.tx
    | .error e => e = .notFound ∧ ∀ x ∈ LogView sp env txs k, ¬ (init ≤ x.1 ∧ x.1 ≤ fin) :=
  ReadsAux.getBetween_exact h hids hok k init fin hif hfin

/-- **History lists every committed version in commit order with consecutive revision numbers.**
The `i`-th returned reference has revision `offset+1+i` (ascending) or `hCount-offset-i` (descending),
and the reference with revision `r` IS the `r`-th committed version of the key. -/
theorem history_consecutive_revisions {tr : Tree IVal} {sp : Spec} {env : Env} {txs : List Tx}
    (h : Refines tr sp env txs) (k : Key) (offset : Nat) (desc : Bool) (limit : Nat)
    (refs : List Ref) (hc : Nat)
    (hres : storeHistory tr.m k offset desc limit = .ok (refs, hc)) :
    hc = (LogView sp env txs k).length ∧ refs.length = min limit (hc - offset) ∧ offset < hc ∧
    ∀ i, (hi : i < refs.length) →
      let rev := if desc then hc - offset - i else offset + 1 + i
      refs[i].hc = rev ∧ 1 ≤ rev ∧ rev ≤ hc ∧
      (LogView sp env txs k).reverse[rev - 1]? = some (refs[i].tx, refs[i].v) :=
  ReadsAux.history_consecutive_revisions h k offset desc limit refs hc hres

/-- the error classes of History -/
theorem history_errors {tr : Tree IVal} {sp : Spec} {env : Env} {txs : List Tx}
    (h : Refines tr sp env txs) (k : Key) (offset : Nat) (desc : Bool) (limit : Nat) (hl : 1 ≤ limit) :
    let n := (LogView sp env txs k).length
    (n = 0 → storeHistory tr.m k offset desc limit = .error .notFound) ∧
    (0 < n → offset = n → storeHistory tr.m k offset desc limit = .error .noMoreEntries) ∧
    (0 < n → n < offset → storeHistory tr.m k offset desc limit = .error .offsetOutOfRange) :=
  ReadsAux.history_errors h k offset desc limit hl

/-- **Scans return exactly the matching live keys, in key order.**  Without offset the reader yields a
strictly sorted list (reversed when descending); a pair `(k, ref)` is in it iff `k` is in the range, has
the prefix, its newest version passes the filters and `ref` is that newest version with its revision;
an offset just drops that many results. -/
theorem scan_exact_sorted {tr : Tree IVal} {sp : Spec} {env : Env} {txs : List Tx}
    (h : Refines tr sp env txs) (now : Nat) (r : Range) (fs : List Filter) (offset : Nat) :
    let out := storeScan tr.m now r fs 0
    (out.map (fun kr => kr.1)).Pairwise (fun a b => if r.desc then lexLt b a = true else lexLt a b = true) ∧
    (∀ k ref, (k, ref) ∈ out ↔
        (r.visits k = true ∧ ∃ t v older, LogView sp env txs k = (t, v) :: older ∧
          ref = ⟨t, older.length + 1, v⟩ ∧ passes fs now ref = true)) ∧
    storeScan tr.m now r fs offset = out.drop offset :=
  ReadsAux.scan_exact_sorted h now r fs offset

/-- **Prefix lookup**: `GetWithPrefix(prefix, neq)` answers with the smallest written key that has the
prefix and is `> neq` — if that key's newest version is live; it does NOT move on to the next key. -/
theorem prefix_lookup_exact {tr : Tree IVal} {sp : Spec} {env : Env} {txs : List Tx}
    (h : Refines tr sp env txs) (now : Nat) (pfx neq : Bytes) (k : Key) (ref : Ref)
    (hres : storeGetWithPrefix tr.m now pfx neq = .ok (k, ref)) :
    hasPrefix k pfx = true ∧ (neq = [] ∨ lexLt neq k = true) ∧
    (∃ older, LogView sp env txs k = (ref.tx, ref.v) :: older ∧ ref.hc = older.length + 1) ∧
    ref.v.md.deleted = false ∧ ref.v.md.expiredAt now = false ∧
    ∀ k', LogView sp env txs k' ≠ [] → hasPrefix k' pfx = true → (neq = [] ∨ lexLt neq k' = true) →
      k' = k ∨ lexLt k k' = true :=
  ReadsAux.prefix_lookup_exact h now pfx neq k ref hres

/-- **Injective mapping: at most one live mapped key per row.**  Secondary index `sp` (target mapper `f`,
no source mapper) over the rows of the plain index on `sp.srcPrefix`; the mapped key determines its row;
on the code as it is (`sp.q.tombKeepsPrevMd`) previous row versions must carry no metadata or be deletes
(see `stale_mapped_key_expirable_prev` for the other case).  Then, after any history, two live mapped keys
of the same row coincide.
PARTIAL w.r.t. the design statement: source mappers (two-level SQL shape) are exercised by the
correspondence only. -/
theorem one_live_mapped_key_per_row_partial (sp : Spec) (f : Mapper) (txs : List Tx)
    (hsp : sp.injective = true ∧ sp.smap = none ∧ sp.tmap = some f)
    (hids : IdsAbove 0 txs)
    (hrow : ∀ r r' v v', f r v = f r' v' → r = r')
    (hkeys : ∀ tx ∈ txs, (tx.entries.map (fun e => e.key)).Nodup)
    (hmd : sp.q.tombKeepsPrevMd = true →
      ∀ tx ∈ txs, ∀ e ∈ tx.entries, e.inSource sp.srcPrefix = true → e.md.isEmpty = true ∨ e.md.deleted = true)
    (r v1 v2 : Bytes)
    (h1 : Live (LogView sp (envOfLog sp.srcPrefix txs) txs (f r v1)))
    (h2 : Live (LogView sp (envOfLog sp.srcPrefix txs) txs (f r v2))) :
    f r v1 = f r v2 :=
  InjectiveAux.one_live_mapped_key_per_row sp f txs hsp hids hrow hkeys hmd r v1 v2 h1 h2

/-! ### witnesses of what goes wrong in the code as it is -/

/-- **F1.** With the keys aliasing the tx entry buffers, already a bulk of two single-key transactions
loses the first key: the aliased indexer does NOT refine the log (while the owning indexer does, and a
bulk size of 1 hides the defect). -/
theorem index_refines_log_fails_with_aliasing :
    ∃ (sp : Spec) (env : Env) (txs : List Tx) (k : Key),
      IdsAbove 0 txs ∧ (∀ tx ∈ txs, TxOk sp env tx) ∧ sp.injective = false ∧
      (∃ st, runBulksAliased sp env ({}, []) [txs] = .ok st ∧ versions st.1.m k ≠ LogView sp env txs k ∧
        storeGet st.1.m 0 k = .error .notFound ∧ LogView sp env txs k ≠ []) ∧
      (∃ st, runBulksAliased sp env ({}, []) (txs.map fun tx => [tx]) = .ok st ∧
        ∀ k', versions st.1.m k' = LogView sp env txs k') :=
  InjectiveAux.index_refines_log_fails_with_aliasing

/-- **Injective mapping + bulk of two transactions**: the previous mapped key is looked up as of the first
tx of the bulk, so a row updated twice inside one bulk keeps two live mapped keys. -/
theorem stale_mapped_key_in_bulk :
    ∃ (sp : Spec) (f : Mapper) (txs : List Tx) (r v1 v2 : Bytes) (tr : Tree IVal),
      sp.q.lookupAtBulkStart = true ∧
      sp.injective = true ∧ sp.tmap = some f ∧ IdsAbove 0 txs ∧
      runBulks sp (envOfLog sp.srcPrefix txs) {} [txs] = .ok tr ∧
      Live (versions tr.m (f r v1)) ∧ Live (versions tr.m (f r v2)) ∧ f r v1 ≠ f r v2 :=
  InjectiveAux.stale_mapped_key_in_bulk

/-- **Injective mapping, previous version with metadata** (e.g. an expiration): the tombstone of the
previous mapped key is not marked deleted — even with bulk size 1 two mapped keys of the row stay live. -/
theorem stale_mapped_key_expirable_prev :
    ∃ (sp : Spec) (f : Mapper) (txs : List Tx) (r v1 v2 : Bytes) (tr : Tree IVal),
      sp.q.tombKeepsPrevMd = true ∧
      sp.injective = true ∧ sp.tmap = some f ∧ IdsAbove 0 txs ∧
      runBulks sp (envOfLog sp.srcPrefix txs) {} (txs.map fun tx => [tx]) = .ok tr ∧
      Live (versions tr.m (f r v1)) ∧ Live (versions tr.m (f r v2)) ∧ f r v1 ≠ f r v2 :=
  InjectiveAux.stale_mapped_key_expirable_prev

/-- **Indexer panic.** `idx._kvs` has `MaxTxEntries * MaxBulkSize` slots but an injective mapping emits up to
two KVTs per entry: a transaction within the entry limit overruns the slice (Go: index out of range in the
indexer goroutine — the process dies). -/
theorem kvs_overflow_panics :
    ∃ (sp : Spec) (txs : List Tx) (tx : Tx) (tr : Tree IVal),
      sp.injective = true ∧ IdsAbove 0 txs ∧ tx ∈ txs ∧ tx.entries.length = 2 ∧
      indexBulkCap (2 * 1) sp (envOfLog sp.srcPrefix txs) tr [tx] = .error .panic :=
  InjectiveAux.kvs_overflow_panics

/-- … and with enough room the bounded indexer is exactly the indexer of the main theorems. -/
theorem indexBulkCap_eq_of_room (cap : Nat) (sp : Spec) (env : Env) (tr : Tree IVal) (txs : List Tx)
    (h : ∀ kvts, txsKVTs sp env (match txs with | [] => 0 | tx0 :: _ => tx0.id) txs = .ok kvts → kvts.length ≤ cap) :
    indexBulkCap cap sp env tr txs = indexBulk sp env tr txs :=
  InjectiveAux.indexBulkCap_eq cap sp env tr txs h

/-- `Snapshot.History` (key_reader.go) numbers revisions `hCount - i` whatever the offset and order:
ascending from offset 1 over three versions it reports revisions 3,2 for the 2nd and 3rd version. -/
theorem snapshot_history_wrong_revisions :
    ∃ (vs : Vers IVal) (refs : List Ref) (good : List Ref) (hc : Nat),
      vs.snapHistory 1 false 2 = .ok (refs, hc) ∧ vs.storeHistory 1 false 2 = .ok (good, hc) ∧
      refs.map (fun r => r.hc) = [3, 2] ∧ good.map (fun r => r.hc) = [2, 3] :=
  InjectiveAux.snapshot_history_wrong_revisions

/-! ### facts regenerated from /repo at every run -/

/-- name of a filter in key_reader.go -/
def filterGoName : Filter → String
  | .ignoreDeleted => "IgnoreDeleted"
  | .ignoreExpired => "IgnoreExpired"

/-- The filters (and their order — an expired entry answers `ErrExpiredEntry` even when it is also deleted)
that the read model applies are the ones the code passes: `ImmuStore.Get`, `ImmuStore.GetWithPrefix`,
`Snapshot.Get`, `db.Scan` (`db.Count` passes none today — `Gen.C04.dbCountFilters`, a reported finding, is
deliberately not pinned here; the harness follows whatever the code does).  The right-hand sides are extracted from the source tree
(`extract/c04.go`); a change there breaks this theorem. -/
theorem read_filters_match_code :
    (∀ now vs, Vers.storeGet now vs =
      (match liftRd vs.get with
       | .error e => .error e
       | .ok (v, t, hc) => applyFilters [.ignoreExpired, .ignoreDeleted] now ⟨t, hc, v⟩)) ∧
    [Filter.ignoreExpired, Filter.ignoreDeleted].map filterGoName = Gen.C04.storeGetFilters ∧
    [Filter.ignoreExpired, Filter.ignoreDeleted].map filterGoName = Gen.C04.storeGetWithPrefixFilters ∧
    [Filter.ignoreExpired, Filter.ignoreDeleted].map filterGoName = Gen.C04.snapshotGetFilters ∧
    [Filter.ignoreExpired, Filter.ignoreDeleted].map filterGoName = Gen.C04.dbScanFilters :=
  ⟨fun _ _ => rfl, by decide, by decide, by decide, by decide⟩

/-! ### non-vacuity -/

section Examples

private def ex_sp : Spec := {}
private def ex_env : Env := { srcPrev := fun _ _ => none, readEntry := fun _ _ => none }
private def ex_e (k v : UInt8) : Entry := { key := [k], value := [v], hval := [v], md := {} }
private def ex_txs : List Tx := [⟨1, [ex_e 1 10, ex_e 2 20]⟩, ⟨2, [ex_e 1 11]⟩, ⟨3, [ex_e 3 30]⟩]

/-- the hypotheses of `index_refines_log` are satisfiable with a non-trivial grouping -/
example : IdsAbove 0 ex_txs ∧ (∀ tx ∈ ex_txs, TxOk ex_sp ex_env tx) := by
  refine ⟨by simp [ex_txs, IdsAbove], ?_⟩
  intro tx htx
  simp [ex_txs] at htx
  rcases htx with rfl | rfl | rfl <;>
    simp [TxOk, txEvents, entryEvents, ex_sp, ex_env, ex_e, hasPrefix, mapKey]

example : ∃ tr, runBulks ex_sp ex_env {} [[ex_txs[0], ex_txs[1]], [ex_txs[2]]] = .ok tr ∧
    versions tr.m [1] = LogView ex_sp ex_env ex_txs [1] ∧ (LogView ex_sp ex_env ex_txs [1]).length = 2 := by
  refine ⟨_, rfl, ?_⟩
  decide

end Examples

end ImmuModel.Props.C04
