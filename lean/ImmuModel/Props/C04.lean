/-
C04 — Reads reflect exactly the committed log (index agrees with history).

ONLY property theorems and non-vacuity examples; helper lemmas live in `ImmuModel/Index/Proofs/*`.

Reading guide
* SPEC  `LogView sp env txs k`   (Index/LogView.lean): versions of target key `k`, newest first, as a
  comprehension over the committed entries of `txs` — no bulks, no buffers, no tree.
* MODEL `runBulks sp env {} bulks` (Index/Indexer.lean): the indexer loop `indexSince` over a sequence of
  bulks, inserting into the multi-version map (Index/MVMapLite.lean).  `BulksOf sp B bulks` says that the
  grouping is one the code can form with `MaxBulkSize = B`: non-empty bulks of at most `sp.maxBulk B`
  transactions, i.e. ONE transaction for an injective index (`indexSince` caps `maxBulkSize` there, because
  the previous row version is looked up as of the first transaction of the bulk) and up to `B` otherwise.
  Every KVT owns a copy of its key; `indexBulkCap` is the indexer with the pre-allocated `_kvs` buffer.
* COMPACTION (Index/Compaction.lean): `CompactIndex` dumps a snapshot root (ts `s`) while the indexer goes on
  (live ts `t ≥ s`), restarts the index from the dump — `reopenDump dump c`, `c` = the ts the dump claims in its
  TIMESTAMP file — and the indexer resumes with `pending ts log` (`indexSince(Ts()+1)`).  The refinement survives iff
  the claim does not exceed what the dump covers: `compaction_restart_preserves_refinement` (`c = s`, what
  `fullDump` writes), `restart_preserves_refinement_of_claim_le`, `restart_with_overclaimed_ts_loses_transactions`.
* The model is the code as it stands after the repairs of the defects this property found (key aliasing
  across the transactions of a bulk, lookup at the bulk start, tombstone without the deleted flag, `_kvs`
  overrun, `Snapshot.History` revisions — see `known_findings.json`, section `fixed`).  The harness still
  probes every one of them at every run and reports it under its old signature should it come back.
-/
import ImmuModel.Index.Refines
import ImmuModel.Gen.C04
import ImmuModel.Index.Proofs.Refine
import ImmuModel.Index.Proofs.Reads
import ImmuModel.Index.Proofs.Injective
import ImmuModel.Index.Compaction
import ImmuModel.Index.Proofs.Compaction

namespace ImmuModel.Props.C04
open ImmuModel ImmuModel.Index.L

/-- **Index = log, for every partition into bulks the indexer can form.**  Index the transactions
`bulks.flatten` (ids strictly increasing, e.g. `1..n`) in ANY grouping into non-empty bulks of at most
`MaxBulkSize = B` transactions — one transaction for an injective index, as `indexSince` does: the indexer never
fails and the tree holds, for every key, exactly the versions the log prescribes. -/
theorem index_refines_log (sp : Spec) (env : Env) (B : Nat) (bulks : List (List Tx))
    (hb : BulksOf sp B bulks)
    (hids : IdsAbove 0 bulks.flatten)
    (hok : ∀ tx ∈ bulks.flatten, TxOk sp env tx) :
    ∃ tr, runBulks sp env {} bulks = .ok tr ∧ Refines tr sp env bulks.flatten ∧ tr.ts ≤ lastId bulks.flatten :=
  RefineAux.index_refines_log_bulks sp env B bulks hb hids hok

/-- **Bulk-partition independence**: two groupings of the same log, formed under any two settings of
`MaxBulkSize`, give the same index content. -/
theorem bulk_partition_independent (sp : Spec) (env : Env) (B1 B2 : Nat) (b1 b2 : List (List Tx))
    (hflat : b1.flatten = b2.flatten)
    (h1 : BulksOf sp B1 b1) (h2 : BulksOf sp B2 b2)
    (hids : IdsAbove 0 b1.flatten)
    (hok : ∀ tx ∈ b1.flatten, TxOk sp env tx) :
    ∃ t1 t2, runBulks sp env {} b1 = .ok t1 ∧ runBulks sp env {} b2 = .ok t2 ∧
      ∀ k, versions t1.m k = versions t2.m k :=
  RefineAux.bulk_partition_independent sp env B1 B2 b1 b2 hflat h1 h2 hids hok

/-- one bulk `a ++ b` = bulk `a` followed by bulk `b` (non-injective index: an injective one never gathers
two transactions) -/
theorem indexBulk_append (sp : Spec) (env : Env) (a b : List Tx)
    (ha : a ≠ []) (hb : b ≠ [])
    (hids : IdsAbove 0 (a ++ b))
    (hok : ∀ tx ∈ a ++ b, TxOk sp env tx)
    (hinj : sp.injective = false) :
    ∃ t1 t2, runBulks sp env {} [a ++ b] = .ok t1 ∧ runBulks sp env {} [a, b] = .ok t2 ∧
      ∀ k, versions t1.m k = versions t2.m k :=
  RefineAux.indexBulk_append sp env a b ha hb hids hok hinj

/-- The newest version in the view is the LAST committed event for the key (nothing later touches it),
and every older version has a smaller tx id. -/
theorem logview_latest (sp : Spec) (env : Env) (txs : List Tx) (k : Key)
    (hids : IdsAbove 0 txs) (hok : ∀ tx ∈ txs, TxOk sp env tx)
    (t : Nat) (v : IVal) (older : Vers IVal)
    (hv : LogView sp env txs k = (t, v) :: older) :
    (∃ pre post, logEvents sp env txs = pre ++ ⟨k, v, t⟩ :: post ∧ ∀ kv ∈ post, kv.k ≠ k) ∧
    ∀ x ∈ older, x.1 < t :=
  ReadsAux.logview_latest sp env txs k hids hok t v older hv

/-- **Get returns the latest committed version** (value ref, metadata, tx id, revision = number of versions). -/
theorem get_latest {tr : Tree IVal} {sp : Spec} {env : Env} {txs : List Tx}
    (h : Refines tr sp env txs) (now : Nat) (k : Key) (t : Nat) (v : IVal) (older : Vers IVal)
    (hv : LogView sp env txs k = (t, v) :: older)
    (hexp : v.md.expiredAt now = false) (hdel : v.md.deleted = false) :
    storeGet tr.m now k = .ok ⟨t, older.length + 1, v⟩ :=
  ReadsAux.get_latest h now k t v older hv hexp hdel

/-- a key never written is not found -/
theorem get_absent_notfound {tr : Tree IVal} {sp : Spec} {env : Env} {txs : List Tx}
    (h : Refines tr sp env txs) (now : Nat) (k : Key) (hv : LogView sp env txs k = []) :
    storeGet tr.m now k = .error .notFound :=
  ReadsAux.get_absent_notfound h now k hv

/-- **Logical delete ⇒ not found** (unless it is also expired: `IgnoreExpired` runs first). -/
theorem get_deleted_notfound {tr : Tree IVal} {sp : Spec} {env : Env} {txs : List Tx}
    (h : Refines tr sp env txs) (now : Nat) (k : Key) (t : Nat) (v : IVal) (older : Vers IVal)
    (hv : LogView sp env txs k = (t, v) :: older)
    (hexp : v.md.expiredAt now = false) (hdel : v.md.deleted = true) :
    storeGet tr.m now k = .error .notFound :=
  ReadsAux.get_deleted_notfound h now k t v older hv hexp hdel

/-- **Expired ⇒ `ErrExpiredEntry`** (an `ErrKeyNotFound`). -/
theorem get_expired_notfound {tr : Tree IVal} {sp : Spec} {env : Env} {txs : List Tx}
    (h : Refines tr sp env txs) (now : Nat) (k : Key) (t : Nat) (v : IVal) (older : Vers IVal)
    (hv : LogView sp env txs k = (t, v) :: older)
    (hexp : v.md.expiredAt now = true) :
    storeGet tr.m now k = .error .expired :=
  ReadsAux.get_expired_notfound h now k t v older hv hexp

/-- **GetBetween** returns the newest version with `init <= tx <= fin` together with its revision
(= its position in commit order), or not-found when there is none. -/
theorem getBetween_exact {tr : Tree IVal} {sp : Spec} {env : Env} {txs : List Tx}
    (h : Refines tr sp env txs) (hids : IdsAbove 0 txs) (hok : ∀ tx ∈ txs, TxOk sp env tx)
    (k : Key) (init fin : Nat) (hif : init ≤ fin) (hfin : 0 < fin) :
    match storeGetBetween tr.m k init fin with
    | .ok r =>
        (LogView sp env txs k).reverse[r.hc - 1]? = some (r.tx, r.v) ∧ 1 ≤ r.hc ∧ init ≤ r.tx ∧ r.tx ≤ fin ∧
        ∀ x ∈ LogView sp env txs k, x.1 ≤ fin → x.1 ≤ r.tx
    | .error e => e = .notFound ∧ ∀ x ∈ LogView sp env txs k, ¬ (init ≤ x.1 ∧ x.1 ≤ fin) :=
  ReadsAux.getBetween_exact h hids hok k init fin hif hfin

/-- **History lists every committed version in commit order with consecutive revision numbers.**
The `i`-th returned reference has revision `offset+1+i` (ascending) or `hCount-offset-i` (descending),
and the reference with revision `r` IS the `r`-th committed version of the key. -/
theorem history_consecutive_revisions {tr : Tree IVal} {sp : Spec} {env : Env} {txs : List Tx}
    (h : Refines tr sp env txs) (k : Key) (offset : Nat) (desc : Bool) (limit : Nat)
    (refs : List Ref) (hc : Nat)
    (hres : storeHistory tr.m k offset desc limit = .ok (refs, hc)) :
    hc = (LogView sp env txs k).length ∧ refs.length = min limit (hc - offset) ∧ offset < hc ∧
    ∀ i, (hi : i < refs.length) →
      let rev := if desc then hc - offset - i else offset + 1 + i
      refs[i].hc = rev ∧ 1 ≤ rev ∧ rev ≤ hc ∧
      (LogView sp env txs k).reverse[rev - 1]? = some (refs[i].tx, refs[i].v) :=
  ReadsAux.history_consecutive_revisions h k offset desc limit refs hc hres

/-- the error classes of History -/
theorem history_errors {tr : Tree IVal} {sp : Spec} {env : Env} {txs : List Tx}
    (h : Refines tr sp env txs) (k : Key) (offset : Nat) (desc : Bool) (limit : Nat) (hl : 1 ≤ limit) :
    let n := (LogView sp env txs k).length
    (n = 0 → storeHistory tr.m k offset desc limit = .error .notFound) ∧
    (0 < n → offset = n → storeHistory tr.m k offset desc limit = .error .noMoreEntries) ∧
    (0 < n → n < offset → storeHistory tr.m k offset desc limit = .error .offsetOutOfRange) :=
  ReadsAux.history_errors h k offset desc limit hl

/-- **`Snapshot.History` numbers revisions like `ImmuStore.History`**: the statement of
`history_consecutive_revisions` for the snapshot's own implementation (key_reader.go). -/
theorem snapshot_history_consecutive_revisions {tr : Tree IVal} {sp : Spec} {env : Env} {txs : List Tx}
    (h : Refines tr sp env txs) (k : Key) (offset : Nat) (desc : Bool) (limit : Nat)
    (refs : List Ref) (hc : Nat)
    (hres : snapHistory tr.m k offset desc limit = .ok (refs, hc)) :
    hc = (LogView sp env txs k).length ∧ refs.length = min limit (hc - offset) ∧ offset < hc ∧
    ∀ i, (hi : i < refs.length) →
      let rev := if desc then hc - offset - i else offset + 1 + i
      refs[i].hc = rev ∧ 1 ≤ rev ∧ rev ≤ hc ∧
      (LogView sp env txs k).reverse[rev - 1]? = some (refs[i].tx, refs[i].v) :=
  ReadsAux.history_consecutive_revisions h k offset desc limit refs hc hres

/-- **Scans return exactly the matching live keys, in key order.**  Without offset the reader yields a
strictly sorted list (reversed when descending); a pair `(k, ref)` is in it iff `k` is in the range, has
the prefix, its newest version passes the filters and `ref` is that newest version with its revision;
an offset just drops that many results. -/
theorem scan_exact_sorted {tr : Tree IVal} {sp : Spec} {env : Env} {txs : List Tx}
    (h : Refines tr sp env txs) (now : Nat) (r : Range) (fs : List Filter) (offset : Nat) :
    let out := storeScan tr.m now r fs 0
    (out.map (fun kr => kr.1)).Pairwise (fun a b => if r.desc then lexLt b a = true else lexLt a b = true) ∧
    (∀ k ref, (k, ref) ∈ out ↔
        (r.visits k = true ∧ ∃ t v older, LogView sp env txs k = (t, v) :: older ∧
          ref = ⟨t, older.length + 1, v⟩ ∧ passes fs now ref = true)) ∧
    storeScan tr.m now r fs offset = out.drop offset :=
  ReadsAux.scan_exact_sorted h now r fs offset

/-- **Prefix lookup**: `GetWithPrefix(prefix, neq)` answers with the smallest written key that has the
prefix and is `> neq` — if that key's newest version is live; it does NOT move on to the next key. -/
theorem prefix_lookup_exact {tr : Tree IVal} {sp : Spec} {env : Env} {txs : List Tx}
    (h : Refines tr sp env txs) (now : Nat) (pfx neq : Bytes) (k : Key) (ref : Ref)
    (hres : storeGetWithPrefix tr.m now pfx neq = .ok (k, ref)) :
    hasPrefix k pfx = true ∧ (neq = [] ∨ lexLt neq k = true) ∧
    (∃ older, LogView sp env txs k = (ref.tx, ref.v) :: older ∧ ref.hc = older.length + 1) ∧
    ref.v.md.deleted = false ∧ ref.v.md.expiredAt now = false ∧
    ∀ k', LogView sp env txs k' ≠ [] → hasPrefix k' pfx = true → (neq = [] ∨ lexLt neq k' = true) →
      k' = k ∨ lexLt k k' = true :=
  ReadsAux.prefix_lookup_exact h now pfx neq k ref hres

/-- **Injective mapping: at most one live mapped key per row.**  Secondary index `sp` (target mapper `f`,
no source mapper) over the rows of the plain index on `sp.srcPrefix`; the mapped key determines its row.
Then, after any history — previous row versions may carry any metadata (expirations, deletes) — two live
mapped keys of the same row coincide.
PARTIAL w.r.t. the design statement: source mappers (two-level SQL shape) are exercised by the
correspondence only. -/
theorem one_live_mapped_key_per_row_partial (sp : Spec) (f : Mapper) (txs : List Tx)
    (hsp : sp.injective = true ∧ sp.smap = none ∧ sp.tmap = some f)
    (hids : IdsAbove 0 txs)
    (hrow : ∀ r r' v v', f r v = f r' v' → r = r')
    (hkeys : ∀ tx ∈ txs, (tx.entries.map (fun e => e.key)).Nodup)
    (r v1 v2 : Bytes)
    (h1 : Live (LogView sp (envOfLog sp.srcPrefix txs) txs (f r v1)))
    (h2 : Live (LogView sp (envOfLog sp.srcPrefix txs) txs (f r v2))) :
    f r v1 = f r v2 :=
  InjectiveAux.one_live_mapped_key_per_row sp f txs hsp hids hrow hkeys r v1 v2 h1 h2

/-- **The pre-allocated `idx._kvs` is never overrun.**  `newIndexer` allocates `2 * MaxTxEntries * MaxBulkSize`
slots; a bulk the indexer can gather (at most `sp.maxBulk B` transactions of at most `E = MaxTxEntries` entries)
yields at most two KVTs per entry, so the bounded indexer never panics: it IS the indexer of the main theorems. -/
theorem kvs_never_overflows (E B : Nat) (hB : 1 ≤ B) (sp : Spec) (env : Env) (tr : Tree IVal) (txs : List Tx)
    (hlen : txs.length ≤ sp.maxBulk B) (hent : ∀ tx ∈ txs, tx.entries.length ≤ E) :
    indexBulkCap (kvsLen E B) sp env tr txs = indexBulk sp env tr txs :=
  InjectiveAux.kvs_never_overflows E B hB sp env tr txs hlen hent

/-- with enough room the bounded indexer is exactly the indexer of the main theorems (any capacity) -/
theorem indexBulkCap_eq_of_room (cap : Nat) (sp : Spec) (env : Env) (tr : Tree IVal) (txs : List Tx)
    (h : ∀ kvts, txsKVTs sp env (match txs with | [] => 0 | tx0 :: _ => tx0.id) txs = .ok kvts → kvts.length ≤ cap) :
    indexBulkCap cap sp env tr txs = indexBulk sp env tr txs :=
  InjectiveAux.indexBulkCap_eq cap sp env tr txs h

/-! ### compaction interleaved with the indexer -/

/-- **Compaction + restart preserves index = log.**  `dump` is the index as of the dumped snapshot root: it holds
the transactions `pre` and its ts is the last of them; `rest` is everything committed later — the transactions the
live tree indexed WHILE the dump was written (lost by the restart) and those committed afterwards.  The index
restarted by `CompactIndex` (`compactRestart`: the dump with the ts its TIMESTAMP file claims = `snap.Ts()`)
followed by the resumed indexer — any grouping of `pending ts log` into bulks the code can form — never fails and
holds exactly the whole log again, whatever ts `liveTs` the live tree had reached. -/
theorem compaction_restart_preserves_refinement (sp : Spec) (env : Env) (B : Nat) (pre rest : List Tx)
    (dump : Tree IVal) (liveTs : Nat) (bulks : List (List Tx))
    (href : Refines dump sp env pre) (hts : dump.ts = lastId pre)
    (hids : IdsAbove 0 (pre ++ rest)) (hok : ∀ tx ∈ rest, TxOk sp env tx)
    (hb : BulksOf sp B bulks)
    (hflat : bulks.flatten = pending (compactRestart dump liveTs).ts (pre ++ rest)) :
    ∃ tr, runBulks sp env (compactRestart dump liveTs) bulks = .ok tr ∧ Refines tr sp env (pre ++ rest) ∧
      tr.ts ≤ lastId (pre ++ rest) := by
  have e : compactRestart dump liveTs = reopenDump dump dump.ts := rfl
  rw [e] at hflat ⊢
  exact CompactionAux.restart_refines sp env B pre rest dump dump.ts bulks href hts (Nat.le_refl _) hids hok hb hflat

/-- the same for ANY claimed ts that does not exceed the dump's (`OpenWith` only ever raises the root's ts) -/
theorem restart_preserves_refinement_of_claim_le (sp : Spec) (env : Env) (B : Nat) (pre rest : List Tx)
    (dump : Tree IVal) (c : Nat) (bulks : List (List Tx))
    (href : Refines dump sp env pre) (hts : dump.ts = lastId pre) (hc : c ≤ dump.ts)
    (hids : IdsAbove 0 (pre ++ rest)) (hok : ∀ tx ∈ rest, TxOk sp env tx)
    (hb : BulksOf sp B bulks)
    (hflat : bulks.flatten = pending (reopenDump dump c).ts (pre ++ rest)) :
    ∃ tr, runBulks sp env (reopenDump dump c) bulks = .ok tr ∧ Refines tr sp env (pre ++ rest) ∧
      tr.ts ≤ lastId (pre ++ rest) :=
  CompactionAux.restart_refines sp env B pre rest dump c bulks href hts hc hids hok hb hflat

/-- **A dump that claims a later ts than the one it was taken at loses transactions for good** (the converse):
with `c > dump.ts` — e.g. `c` = the ts of the live tree when the dump ended — the resumed indexer never fails
either, but the tree it ends with holds the log WITHOUT the transactions `dump.ts < id ≤ c`; as soon as one of
them has an indexable entry of this index the tree is not the log, and nothing is left to be indexed. -/
theorem restart_with_overclaimed_ts_loses_transactions (sp : Spec) (env : Env) (B : Nat) (pre rest : List Tx)
    (dump : Tree IVal) (c : Nat) (bulks : List (List Tx))
    (href : Refines dump sp env pre) (hts : dump.ts = lastId pre) (hc : dump.ts < c)
    (hids : IdsAbove 0 (pre ++ rest)) (hok : ∀ tx ∈ rest, TxOk sp env tx)
    (hb : BulksOf sp B bulks)
    (hflat : bulks.flatten = pending (reopenDump dump c).ts (pre ++ rest)) :
    ∃ tr, runBulks sp env (reopenDump dump c) bulks = .ok tr ∧
      Refines tr sp env (pre ++ rest.filter (fun tx => decide (c < tx.id))) ∧
      ((∃ tx ∈ rest, tx.id ≤ c ∧ txEvents sp env tx ≠ []) → ¬ Refines tr sp env (pre ++ rest)) :=
  CompactionAux.restart_overclaim sp env B pre rest dump c bulks href hts hc hids hok hb hflat

/-- The places of tbtree.go / indexer.go the compaction model relies on read as the model says (extracted by
`extract/c04.go`; a change there breaks this theorem): `Compact` snapshots `t.root` under the lock, `fullDump`
names the TIMESTAMP file after `snap.Ts()` and writes `snap.Ts()` INTO it (`dumpTsFile` = the snapshot's ts, not the
live tree's), `OpenWith` raises the reloaded root's ts to the file's value when that is larger (`reopenDump`), and
`doIndexing` resumes with `indexSince(idx.index.Ts() + 1)` (`pending`). -/
theorem compaction_facts_match_code :
    Gen.C04.compactSnapshotRoot = "t.root" ∧
    Gen.C04.fullDumpTsFileId = "snap.Ts()" ∧
    Gen.C04.fullDumpTsFileValue = "snap.Ts()" ∧
    Gen.C04.openWithTsFileRule = "ts := t.readTsFile(); ts > t.root.ts() => setTs(ts)" ∧
    Gen.C04.doIndexingLastIndexed = "idx.index.Ts()" ∧
    Gen.C04.doIndexingResumeFrom = "lastIndexedTx + 1" ∧
    (∀ snapTs liveTs, dumpTsFile snapTs liveTs = snapTs) ∧
    (∀ dump c, (reopenDump dump c).ts = max dump.ts c ∧ (reopenDump dump c).m = dump.m) ∧
    (∀ ts log, pending ts log = log.filter (fun tx => decide (ts + 1 ≤ tx.id))) :=
  ⟨by decide, by decide, by decide, by decide, by decide, by decide, fun _ _ => rfl,
    fun dump c => ⟨CompactionAux.reopenDump_ts dump c, by unfold reopenDump; split <;> rfl⟩,
    fun _ _ => rfl⟩

/-! ### facts regenerated from /repo at every run -/

/-- name of a filter in key_reader.go -/
def filterGoName : Filter → String
  | .ignoreDeleted => "IgnoreDeleted"
  | .ignoreExpired => "IgnoreExpired"

/-- The filters (and their order — an expired entry answers `ErrExpiredEntry` even when it is also deleted)
that the read model applies are the ones the code passes: `ImmuStore.Get`, `ImmuStore.GetWithPrefix`,
`Snapshot.Get`, `db.Scan` (`db.Count` passes none today — `Gen.C04.dbCountFilters`, a reported finding, is
deliberately not pinned here; the harness follows whatever the code does).  The right-hand sides are extracted from the source tree
(`extract/c04.go`); a change there breaks this theorem. -/
theorem read_filters_match_code :
    (∀ now vs, Vers.storeGet now vs =
      (match liftRd vs.get with
       | .error e => .error e
       | .ok (v, t, hc) => applyFilters [.ignoreExpired, .ignoreDeleted] now ⟨t, hc, v⟩)) ∧
    [Filter.ignoreExpired, Filter.ignoreDeleted].map filterGoName = Gen.C04.storeGetFilters ∧
    [Filter.ignoreExpired, Filter.ignoreDeleted].map filterGoName = Gen.C04.storeGetWithPrefixFilters ∧
    [Filter.ignoreExpired, Filter.ignoreDeleted].map filterGoName = Gen.C04.snapshotGetFilters ∧
    [Filter.ignoreExpired, Filter.ignoreDeleted].map filterGoName = Gen.C04.dbScanFilters :=
  ⟨fun _ _ => rfl, by decide, by decide, by decide, by decide⟩

/-- The three places of indexer.go the indexer model relies on read as the model says (extracted from the
source tree by `extract/c04.go`; a change there breaks this theorem): the KVT gets a COPY of the target key
(no aliasing of the reused tx buffers), `_kvs` has `2 * MaxTxEntries * MaxBulkSize` slots (`kvsLen`), and the
previous row version is looked up as of `txID - 1` (right because `Spec.maxBulk` = 1 for injective indexes). -/
theorem indexer_facts_match_code :
    Gen.C04.indexSinceKeyAssign = "append(idx._kvs[indexableEntries].K[:0], targetKey...)" ∧
    Gen.C04.newIndexerKvsLen = "2 * store.maxTxEntries * opts.IndexOpts.MaxBulkSize" ∧
    Gen.C04.indexSincePrevLookupBound = "txID - 1" ∧
    Gen.C04.indexSinceInjectiveBulkCap = "1" ∧
    (∀ E B, kvsLen E B = 2 * E * B) ∧ (∀ sp B, sp.injective = true → Spec.maxBulk sp B = 1) :=
  ⟨by decide, by decide, by decide, by decide, fun _ _ => rfl, fun sp B h => by simp [Spec.maxBulk, h]⟩

/-! ### non-vacuity -/

section Examples

private def ex_sp : Spec := {}
private def ex_env : Env := { srcPrev := fun _ _ => none, readEntry := fun _ _ => none }
private def ex_e (k v : UInt8) : Entry := { key := [k], value := [v], hval := [v], md := {} }
private def ex_txs : List Tx := [⟨1, [ex_e 1 10, ex_e 2 20]⟩, ⟨2, [ex_e 1 11]⟩, ⟨3, [ex_e 3 30]⟩]

/-- the hypotheses of `index_refines_log` are satisfiable with a non-trivial grouping -/
example : IdsAbove 0 ex_txs ∧ (∀ tx ∈ ex_txs, TxOk ex_sp ex_env tx) := by
  refine ⟨by simp [ex_txs, IdsAbove], ?_⟩
  intro tx htx
  simp [ex_txs] at htx
  rcases htx with rfl | rfl | rfl <;>
    simp [TxOk, txEvents, entryEvents, ex_sp, ex_env, ex_e, hasPrefix, mapKey]

example : BulksOf ex_sp 2 [[ex_txs[0], ex_txs[1]], [ex_txs[2]]] := by
  intro b hb
  simp at hb
  rcases hb with rfl | rfl <;> simp [Spec.maxBulk, ex_sp]

example : ∃ tr, runBulks ex_sp ex_env {} [[ex_txs[0], ex_txs[1]], [ex_txs[2]]] = .ok tr ∧
    versions tr.m [1] = LogView ex_sp ex_env ex_txs [1] ∧ (LogView ex_sp ex_env ex_txs [1]).length = 2 := by
  refine ⟨_, rfl, ?_⟩
  decide

open InjectiveAux in
/-- injective index, a row updated by three consecutive transactions (the former failing input of the
bulk-start lookup): the bulks the code forms are single transactions and only the last mapped key is live -/
example : BulksOf spW 4 (txsB.map fun tx => [tx]) ∧
    ∃ tr, runBulks spW (envOfLog spW.srcPrefix txsB) {} (txsB.map fun tx => [tx]) = .ok tr ∧
      storeGet tr.m 0 (fW [1] [10]) = .error .notFound ∧ storeGet tr.m 0 (fW [1] [20]) = .error .notFound ∧
      (storeGet tr.m 0 (fW [1] [30])).isOk = true := by
  refine ⟨?_, _, rfl, rfl, rfl, rfl⟩
  intro b hb
  simp [txsB] at hb
  rcases hb with rfl | rfl | rfl <;> simp [Spec.maxBulk, spW]

open InjectiveAux in
/-- previous row version with an expiration (the former failing input of the tombstone metadata): the old
mapped key is tombstoned — deleted flag set, expiration kept -/
example : ∃ tr, runBulks spW (envOfLog spW.srcPrefix txsE) {} (txsE.map fun tx => [tx]) = .ok tr ∧
    versions tr.m (fW [1] [10]) =
      [(2, ⟨1, [], { deleted := true, expiresAt := some 1000 }⟩), (1, ⟨1, [], { expiresAt := some 1000 }⟩)] ∧
    storeGet tr.m 0 (fW [1] [10]) = .error .notFound := by
  refine ⟨_, rfl, by decide, rfl⟩

open InjectiveAux in
/-- `MaxTxEntries = 2`, `MaxBulkSize = 1`: a transaction that updates two rows of an injective index needs four
KVTs (the former panic) — they fit into `kvsLen 2 1 = 4` slots -/
example : ∃ tr, indexBulkCap (kvsLen 2 1) spW (envOfLog spW.srcPrefix txsK) {} [txsK[1]] = .ok tr := ⟨_, rfl⟩

/-- compaction: the dump is taken after tx 1, the live tree indexes tx 2 meanwhile, tx 3 is committed afterwards.
Restarted with the ts the code claims (`compactRestart`) the indexer re-reads txs 2, 3 and the index is the log;
restarted with the live tree's ts (2) it only reads tx 3 and key 1 keeps its version of tx 1 for good. -/
example : ∃ dump, runBulks ex_sp ex_env {} [[ex_txs[0]]] = .ok dump ∧ dump.ts = 1 ∧
    pending (compactRestart dump 2).ts ex_txs = [ex_txs[1], ex_txs[2]] ∧
    (∃ tr, runBulks ex_sp ex_env (compactRestart dump 2) [[ex_txs[1]], [ex_txs[2]]] = .ok tr ∧
      versions tr.m [1] = LogView ex_sp ex_env ex_txs [1]) ∧
    pending (reopenDump dump 2).ts ex_txs = [ex_txs[2]] ∧
    (∃ tr, runBulks ex_sp ex_env (reopenDump dump 2) [[ex_txs[2]]] = .ok tr ∧ tr.ts = 3 ∧
      versions tr.m [1] ≠ LogView ex_sp ex_env ex_txs [1] ∧ (versions tr.m [1]).length = 1) := by
  refine ⟨_, rfl, rfl, rfl, ⟨_, rfl, by decide⟩, rfl, ⟨_, rfl, rfl, by decide, by decide⟩⟩

/-- `Snapshot.History(offset = 1, ascending, limit = 2)` over three versions reports revisions 2, 3 -/
example : ∃ refs, Vers.snapHistory 1 false 2 [(3, (⟨0, [], {}⟩ : IVal)), (2, ⟨0, [], {}⟩), (1, ⟨0, [], {}⟩)] = .ok (refs, 3) ∧
    refs.map (fun r => r.hc) = [2, 3] := ⟨_, rfl, rfl⟩

end Examples

end ImmuModel.Props.C04
