/-
C13 — SQL transactions are atomic and isolated, incl. rollback and savepoints.

ONLY property theorems and non-vacuity examples live here; helper lemmas are in
ImmuModel/Sql/Proofs/TxProg*.lean.  Model: ImmuModel/Sql/TxProg.lean — `step`/`run` mirror `SQLTx`
(one store transaction, counters, savepoints AS THE CODE DOES THEM: counters only) and
`Engine.execPreparedStmts` (a statement error cancels the transaction); `Spec.step`/`Spec.run` is the
reference interpreter (savepoint = copy of the pending state).

`savepoint_refines_spec` is FALSE of the code: witness `savepoint_keeps_writes` (finding K1) and
`second_rollback_to_fails`; the refinement is proved for programs without ROLLBACK TO / RELEASE
(`tx_refines_spec_partial`).  Isolation between concurrent sessions is the store's MVCC (C05), not
modelled here; the harness checks it on the engine.
-/
import ImmuModel.Sql.Proofs.TxProgMain

namespace ImmuModel.Props.C13
open ImmuModel ImmuModel.Sql ImmuModel.Sql.TxProgMainAux

/-- **Nothing but COMMIT changes what others see**: a program without COMMIT leaves the committed
state untouched, whatever it does (statements, failures, savepoints, ROLLBACK). -/
theorem commit_all_or_nothing (sc : Schema) (s : Sess) (ops : List Op)
    (h : ∀ o, o ∈ ops → o.isCommit = false) :
    (run sc s ops).1.committed = s.committed :=
  run_committed sc ops s h

/-- COMMIT publishes exactly the transaction's pending state (all its statements together). -/
theorem commit_publishes_pending (sc : Schema) (s : Sess) (t : OpenTx) (ht : s.tx = some t) :
    (step sc s .commit).1.committed = t.db ∧ (step sc s .commit).1.tx = none := by
  rw [step_commit_some sc s t ht]
  exact ⟨rfl, rfl⟩

/-- **ROLLBACK, a failing statement, a failing savepoint operation leave no trace.** -/
theorem rollback_no_trace (sc : Schema) (s : Sess) (o : Op) (ho : o.isCommit = false) :
    (step sc s o).1.committed = s.committed ∧
    ((step sc s o).2.toOption = none → (step sc s o).1.tx = none ∨ (step sc s o).1.tx = s.tx) ∧
    (o = .rollback → (step sc s o).1.tx = none) := by
  refine ⟨step_committed sc s o ho, step_fail_tx sc s o, ?_⟩
  intro h
  subst h
  exact step_rollback_tx sc s

/-- **Own writes are visible**: inside the transaction the session sees exactly the result of its
statements applied in order to its snapshot. -/
theorem own_writes_visible (sc : Schema) (s : Sess) (t : OpenTx) (st : Stmt) (db' : DB)
    (ht : s.tx = some t) (he : exec sc t.db st = .ok db') :
    (step sc s (.stmt st)).1.ownView = db'.rows ∧ (step sc s (.stmt st)).1.visible = s.visible := by
  rw [step_stmt_ok sc s t st db' ht he]
  exact ⟨rfl, rfl⟩

/-- **Counts match what was applied**: without savepoint operations the count reported at COMMIT is
the count after the last statement, and each statement's outcome is the running count. -/
theorem counts_match_applied (sc : Schema) (s : Sess) (t : OpenTx) (st : Stmt) (db' : DB)
    (ht : s.tx = some t) (he : exec sc t.db st = .ok db') :
    (step sc s (.stmt st)).2 = .ok db'.updated ∧
    (step sc (step sc s (.stmt st)).1 .commit).2 = .ok db'.updated := by
  rw [step_stmt_ok sc s t st db' ht he]
  refine ⟨rfl, ?_⟩
  rw [step_commit_some sc _ { t with db := db' } rfl]

/-- **Refinement of the reference interpreter** for programs without ROLLBACK TO SAVEPOINT and
RELEASE SAVEPOINT: same outcomes, same committed state, same own view. -/
theorem tx_refines_spec_partial (sc : Schema) (db : DB) (ops : List Op)
    (h : ∀ o, o ∈ ops → (match o with | .rollbackTo _ | .release _ => false | _ => true) = true) :
    (run sc { committed := db } ops).2 = (Spec.run sc { committed := db } ops).2 ∧
    (run sc { committed := db } ops).1.committed = (Spec.run sc { committed := db } ops).1.committed := by
  have hs := run_sim sc ops { committed := db } { committed := db } (rel_init db)
    (fun o ho => by
      have := h o ho
      cases o <;> first | rfl | simp at this)
  exact ⟨hs.2, hs.1.1⟩
/- Full statement (`savepoint_refines_spec`, FALSE of the code): the same for all programs. -/

def wSchema : Schema :=
  { cols := [{ col := ⟨.integer, 8⟩, notNull := false, autoInc := false }], pk := [0], idx := [], check := none }

def wProg : List Op :=
  [.begin, .stmt (.ins .insert [0] [[.int 1]]), .savepoint "s", .stmt (.ins .insert [0] [[.int 2]]),
   .rollbackTo "s", .commit]

/-- **Finding K1.** `BEGIN; INSERT 1; SAVEPOINT s; INSERT 2; ROLLBACK TO SAVEPOINT s; COMMIT`
commits row 2 (the code restores the counters only) while the reference commits row 1 alone; the
committed transaction reports ONE affected row. -/
theorem savepoint_keeps_writes :
    (run wSchema {} wProg).1.committed.rows = [[.int 1], [.int 2]] ∧
    (run wSchema {} wProg).2 = [.ok 0, .ok 1, .ok 1, .ok 2, .ok 1, .ok 1] ∧
    (Spec.run wSchema {} wProg).1.committed.rows = [[.int 1]] := by
  decide

/-- **Finding.** A second ROLLBACK TO the same savepoint fails (the first one deleted it) and cancels
the transaction; the reference keeps the savepoint. -/
theorem second_rollback_to_fails :
    (run wSchema {} [.begin, .savepoint "s", .rollbackTo "s", .rollbackTo "s"]).2 =
      [.ok 0, .ok 0, .ok 0, .error .noSavepoint] ∧
    (Spec.run wSchema {} [.begin, .savepoint "s", .rollbackTo "s", .rollbackTo "s"]).2 =
      [.ok 0, .ok 0, .ok 0, .ok 0] := by
  decide

-- ---------------------------------------------------------------- non-vacuity

/-- `BEGIN; INSERT 1; COMMIT` commits the row, reports one affected row and closes the transaction. -/
example :
    (run wSchema {} [.begin, .stmt (.ins .insert [0] [[.int 1]]), .commit]).1.committed.rows = [[.int 1]] ∧
    (run wSchema {} [.begin, .stmt (.ins .insert [0] [[.int 1]]), .commit]).2 = [.ok 0, .ok 1, .ok 1] ∧
    (run wSchema {} [.begin, .stmt (.ins .insert [0] [[.int 1]]), .commit]).1.tx.isNone = true := by
  decide

/-- `commit_all_or_nothing` is not vacuous: a COMMIT-free program with a FAILING statement (duplicate
key: the error cancels the transaction) on top of a committed row leaves the committed rows unchanged,
and the hypothesis of the theorem holds of that program. -/
example :
    (∀ o, o ∈ [Op.begin, .stmt (.ins .insert [0] [[.int 2]]), .stmt (.ins .insert [0] [[.int 1]])] →
      o.isCommit = false) ∧
    (run wSchema (run wSchema {} [.begin, .stmt (.ins .insert [0] [[.int 1]]), .commit]).1
      [.begin, .stmt (.ins .insert [0] [[.int 2]]), .stmt (.ins .insert [0] [[.int 1]])]).2 =
        [.ok 0, .ok 1, .error .dupKey] ∧
    (run wSchema (run wSchema {} [.begin, .stmt (.ins .insert [0] [[.int 1]]), .commit]).1
      [.begin, .stmt (.ins .insert [0] [[.int 2]]), .stmt (.ins .insert [0] [[.int 1]])]).1.committed.rows =
        [[.int 1]] ∧
    (run wSchema (run wSchema {} [.begin, .stmt (.ins .insert [0] [[.int 1]]), .commit]).1
      [.begin, .stmt (.ins .insert [0] [[.int 2]]), .stmt (.ins .insert [0] [[.int 1]])]).1.tx.isNone = true := by
  refine ⟨?_, by decide, by decide, by decide⟩
  intro o ho
  simp only [List.mem_cons, List.not_mem_nil, or_false] at ho
  rcases ho with rfl | rfl | rfl <;> rfl

/-- the whole-program statement including COMMITs: the failing transaction of
`BEGIN; INSERT 1; COMMIT; BEGIN; INSERT 2; INSERT 1 (fails); COMMIT (no transaction)` leaves no trace. -/
example :
    (run wSchema {} [.begin, .stmt (.ins .insert [0] [[.int 1]]), .commit,
      .begin, .stmt (.ins .insert [0] [[.int 2]]), .stmt (.ins .insert [0] [[.int 1]]), .commit]).2 =
        [.ok 0, .ok 1, .ok 1, .ok 0, .ok 1, .error .dupKey, .error .noTx] ∧
    (run wSchema {} [.begin, .stmt (.ins .insert [0] [[.int 1]]), .commit,
      .begin, .stmt (.ins .insert [0] [[.int 2]]), .stmt (.ins .insert [0] [[.int 1]]), .commit]).1.committed.rows =
        [[.int 1]] := by
  decide

/-- the hypotheses of `commit_publishes_pending`, `own_writes_visible`, `counts_match_applied` are jointly
satisfiable: after BEGIN there is an open transaction in which `INSERT 1` succeeds; the session then sees
the row, the outside does not. -/
example :
    ∃ (t : OpenTx) (db' : DB),
      (step wSchema {} .begin).1.tx = some t ∧
      exec wSchema t.db (.ins .insert [0] [[.int 1]]) = .ok db' ∧
      db'.rows = [[.int 1]] ∧ db'.updated = 1 ∧
      (step wSchema (step wSchema {} .begin).1 (.stmt (.ins .insert [0] [[.int 1]]))).1.ownView = [[.int 1]] ∧
      (step wSchema (step wSchema {} .begin).1 (.stmt (.ins .insert [0] [[.int 1]]))).1.visible = [] := by
  have ht : ((step wSchema {} .begin).1.tx).isSome = true := by decide
  have he : ∀ t, (step wSchema {} .begin).1.tx = some t →
      (exec wSchema t.db (.ins .insert [0] [[.int 1]])).toOption.isSome = true := by
    intro t h
    have : (((step wSchema {} .begin).1.tx).bind
        (fun t => (exec wSchema t.db (.ins .insert [0] [[.int 1]])).toOption)).isSome = true := by decide
    rw [h] at this
    exact this
  cases h : (step wSchema {} .begin).1.tx with
  | none => rw [h] at ht; cases ht
  | some t =>
    have he' := he t h
    cases hx : exec wSchema t.db (.ins .insert [0] [[.int 1]]) with
    | error e => rw [hx] at he'; cases he'
    | ok db' =>
      have hv := own_writes_visible wSchema (step wSchema {} .begin).1 t _ db' h hx
      refine ⟨t, db', rfl, hx, ?_, ?_, by decide, by decide⟩
      · rw [← hv.1]; decide
      · have hc := (counts_match_applied wSchema (step wSchema {} .begin).1 t _ db' h hx).1
        have : (step wSchema (step wSchema {} .begin).1 (.stmt (.ins .insert [0] [[.int 1]]))).2 = .ok 1 := by
          decide
        rw [this] at hc
        exact (Except.ok.inj hc).symm

/-- `rollback_no_trace`: ROLLBACK after a write leaves the committed state empty and closes the
transaction; `tx_refines_spec_partial`: a program with SAVEPOINT (but no ROLLBACK TO / RELEASE)
satisfies the hypothesis. -/
example :
    (run wSchema {} [.begin, .stmt (.ins .insert [0] [[.int 1]]), .rollback]).1.committed.rows = [] ∧
    (run wSchema {} [.begin, .stmt (.ins .insert [0] [[.int 1]]), .rollback]).1.tx.isNone = true ∧
    (run wSchema {} [.begin, .stmt (.ins .insert [0] [[.int 1]]), .rollback]).2 = [.ok 0, .ok 1, .ok 0] ∧
    (∀ o, o ∈ [Op.begin, .savepoint "s", .stmt (.ins .insert [0] [[.int 1]]), .commit] →
      (match o with | .rollbackTo _ | .release _ => false | _ => true) = true) ∧
    (Spec.run wSchema {} [.begin, .savepoint "s", .stmt (.ins .insert [0] [[.int 1]]), .commit]).1.committed.rows =
      [[.int 1]] := by
  refine ⟨by decide, by decide, by decide, ?_, by decide⟩
  intro o ho
  simp only [List.mem_cons, List.not_mem_nil, or_false] at ho
  rcases ho with rfl | rfl | rfl | rfl <;> rfl

end ImmuModel.Props.C13
