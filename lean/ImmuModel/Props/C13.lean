/-
C13 — SQL transactions are atomic and isolated, incl. rollback and savepoints.

ONLY property theorems and non-vacuity examples live here; helper lemmas are in
ImmuModel/Sql/Proofs/TxProg*.lean.  Model: ImmuModel/Sql/TxProg.lean — `step`/`run` mirror `SQLTx`
(one store transaction, counters, savepoints AS THE CODE DOES THEM: counters only) and
`Engine.execPreparedStmts` (a statement error cancels the transaction); `Spec.step`/`Spec.run` is the
reference interpreter (savepoint = copy of the pending state).

`savepoint_refines_spec` is FALSE of the code: witness `savepoint_keeps_writes` (finding K1) and
`second_rollback_to_fails`; the refinement is proved for programs without ROLLBACK TO / RELEASE
(`tx_refines_spec_partial`).  Isolation between concurrent sessions is the store's MVCC (C05), not
modelled here; the harness checks it on the engine.

Second model (added for seeded change c13-a): ImmuModel/Sql/CatalogCache.lean — the engine-level catalog
cache under schedules of several sessions (`NewTx`, DDL/DML statements, `Commit`, `Cancel`, re-open).
"A committed DDL transaction is visible to every later transaction and is never undone by the COMMIT of a
transaction that executed no DDL" is `cache_coherent` / `new_tx_sees_committed_catalog` /
`commit_without_ddl_keeps_schema`; `catalog_cache_facts_match_code` pins the model to the extracted code
fragments; the `coherence_needs_…` theorems show that each guard of the protocol is necessary (dropping it has
a concrete failing schedule); `ro_fill_not_atomic_stale` is a FINDING about the code as it is (the read-only
fill of `NewTx` has no version check: a DDL commit between its two critical sections leaves a stale cache).

Third model (added for seeded change c13-b): ImmuModel/Sql/CatalogClone.lean — the catalog of a read-write
transaction is a CLONE of the cached catalog, and DDL mutates the clone's per-table maps and slices in place.  The cache
model above takes "the DDL of a transaction stays private until COMMIT" for granted; here it is a theorem about a heap of
containers, under the extracted fact that `cloneTable` rebuilds EVERY container-typed field of `Table`
(`clone_rebuilds_every_container`, `clone_facts_match_code`): `uncommitted_ddl_leaves_cached_catalog_untouched`; a single
shared container breaks it (`shared_container_leaks_uncommitted_ddl`).

Fourth model (added for seeded change c13-c): ImmuModel/Sql/Sessions.lean (namespace `Mv`, built for C12) — concurrent SQL
sessions with per-index snapshots, the MVCC read-set of the constraint checks and COMMIT = `checkPreconditions` (`probeOK`)
+ apply the write-set.  Isolation of WRITERS OF THE SAME UNIQUE TUPLE: `overlapping_unique_writers_second_commit_conflicts`
(a live entry under a written unique prefix makes the COMMIT fail, store unchanged),
`overlapping_unique_writers_never_both_commit_partial` (of two open transactions that wrote the same unique tuple, once one
commits the other's COMMIT is a read conflict — side conditions: each key written once, no deleted entry under the prefix,
finding R2), atomicity: `failed_commit_leaves_no_trace`, `rollback_leaves_no_trace`, `uncommitted_statements_invisible`,
`committed_reads_valid_at_commit_point_partial`; witnesses `c13c_demo_second_committer_conflicts`,
`c13c_demo_symmetric_order`, `c13c_demo_multi_column_unique`, necessity `isolation_needs_routing_by_probed_prefix`.  The model validates a "nothing under this prefix" read on the
index THE PROBE was made on; `readset_routing_facts_match_code` pins that routing to the guards of `checkPreconditions`.
Full commit-order serializability of the statement fragment is NOT proved (see the comment at the end of that section).
-/
import ImmuModel.Sql.Proofs.TxProgMain
import ImmuModel.Sql.Proofs.CatalogCacheMain
import ImmuModel.Sql.Proofs.CatalogCloneMain
import ImmuModel.Sql.Proofs.SessionsSer
import ImmuModel.Gen.C13

namespace ImmuModel.Props.C13
open ImmuModel ImmuModel.Sql ImmuModel.Sql.TxProgMainAux

/-- **Nothing but COMMIT changes what others see**: a program without COMMIT leaves the committed
state untouched, whatever it does (statements, failures, savepoints, ROLLBACK). -/
theorem commit_all_or_nothing (sc : Schema) (s : Sess) (ops : List Op)
    (h : ∀ o, o ∈ ops → o.isCommit = false) :
    (run sc s ops).1.committed = s.committed :=
  run_committed sc ops s h

/-- COMMIT publishes exactly the transaction's pending state (all its statements together). -/
theorem commit_publishes_pending (sc : Schema) (s : Sess) (t : OpenTx) (ht : s.tx = some t) :
    (step sc s .commit).1.committed = t.db ∧ (step sc s .commit).1.tx = none := by
  rw [step_commit_some sc s t ht]
  exact ⟨rfl, rfl⟩

/-- **ROLLBACK, a failing statement, a failing savepoint operation leave no trace.** -/
theorem rollback_no_trace (sc : Schema) (s : Sess) (o : Op) (ho : o.isCommit = false) :
    (step sc s o).1.committed = s.committed ∧
    ((step sc s o).2.toOption = none → (step sc s o).1.tx = none ∨ (step sc s o).1.tx = s.tx) ∧
    (o = .rollback → (step sc s o).1.tx = none) := by
  refine ⟨step_committed sc s o ho, step_fail_tx sc s o, ?_⟩
  intro h
  subst h
  exact step_rollback_tx sc s

/-- **Own writes are visible**: inside the transaction the session sees exactly the result of its
statements applied in order to its snapshot. -/
theorem own_writes_visible (sc : Schema) (s : Sess) (t : OpenTx) (st : Stmt) (db' : DB)
    (ht : s.tx = some t) (he : exec sc t.db st = .ok db') :
    (step sc s (.stmt st)).1.ownView = db'.rows ∧ (step sc s (.stmt st)).1.visible = s.visible := by
  rw [step_stmt_ok sc s t st db' ht he]
  exact ⟨rfl, rfl⟩

/-- **Counts match what was applied**: without savepoint operations the count reported at COMMIT is
the count after the last statement, and each statement's outcome is the running count. -/
theorem counts_match_applied (sc : Schema) (s : Sess) (t : OpenTx) (st : Stmt) (db' : DB)
    (ht : s.tx = some t) (he : exec sc t.db st = .ok db') :
    (step sc s (.stmt st)).2 = .ok db'.updated ∧
    (step sc (step sc s (.stmt st)).1 .commit).2 = .ok db'.updated := by
  rw [step_stmt_ok sc s t st db' ht he]
  refine ⟨rfl, ?_⟩
  rw [step_commit_some sc _ { t with db := db' } rfl]

/-- **Refinement of the reference interpreter** for programs without ROLLBACK TO SAVEPOINT and
RELEASE SAVEPOINT: same outcomes, same committed state, same own view. -/
theorem tx_refines_spec_partial (sc : Schema) (db : DB) (ops : List Op)
    (h : ∀ o, o ∈ ops → (match o with | .rollbackTo _ | .release _ => false | _ => true) = true) :
    (run sc { committed := db } ops).2 = (Spec.run sc { committed := db } ops).2 ∧
    (run sc { committed := db } ops).1.committed = (Spec.run sc { committed := db } ops).1.committed := by
  have hs := run_sim sc ops { committed := db } { committed := db } (rel_init db)
    (fun o ho => by
      have := h o ho
      cases o <;> first | rfl | simp at this)
  exact ⟨hs.2, hs.1.1⟩
/- Full statement (`savepoint_refines_spec`, FALSE of the code): the same for all programs. -/

def wSchema : Schema :=
  { cols := [{ col := ⟨.integer, 8⟩, notNull := false, autoInc := false }], pk := [0], idx := [], check := none }

def wProg : List Op :=
  [.begin, .stmt (.ins .insert [0] [[.int 1]]), .savepoint "s", .stmt (.ins .insert [0] [[.int 2]]),
   .rollbackTo "s", .commit]

/-- **Finding K1.** `BEGIN; INSERT 1; SAVEPOINT s; INSERT 2; ROLLBACK TO SAVEPOINT s; COMMIT`
commits row 2 (the code restores the counters only) while the reference commits row 1 alone; the
committed transaction reports ONE affected row. -/
theorem savepoint_keeps_writes :
    (run wSchema {} wProg).1.committed.rows = [[.int 1], [.int 2]] ∧
    (run wSchema {} wProg).2 = [.ok 0, .ok 1, .ok 1, .ok 2, .ok 1, .ok 1] ∧
    (Spec.run wSchema {} wProg).1.committed.rows = [[.int 1]] := by
  decide

/-- **Finding.** A second ROLLBACK TO the same savepoint fails (the first one deleted it) and cancels
the transaction; the reference keeps the savepoint. -/
theorem second_rollback_to_fails :
    (run wSchema {} [.begin, .savepoint "s", .rollbackTo "s", .rollbackTo "s"]).2 =
      [.ok 0, .ok 0, .ok 0, .error .noSavepoint] ∧
    (Spec.run wSchema {} [.begin, .savepoint "s", .rollbackTo "s", .rollbackTo "s"]).2 =
      [.ok 0, .ok 0, .ok 0, .ok 0] := by
  decide

-- ---------------------------------------------------------------- non-vacuity

/-- `BEGIN; INSERT 1; COMMIT` commits the row, reports one affected row and closes the transaction. -/
example :
    (run wSchema {} [.begin, .stmt (.ins .insert [0] [[.int 1]]), .commit]).1.committed.rows = [[.int 1]] ∧
    (run wSchema {} [.begin, .stmt (.ins .insert [0] [[.int 1]]), .commit]).2 = [.ok 0, .ok 1, .ok 1] ∧
    (run wSchema {} [.begin, .stmt (.ins .insert [0] [[.int 1]]), .commit]).1.tx.isNone = true := by
  decide

/-- `commit_all_or_nothing` is not vacuous: a COMMIT-free program with a FAILING statement (duplicate
key: the error cancels the transaction) on top of a committed row leaves the committed rows unchanged,
and the hypothesis of the theorem holds of that program. -/
example :
    (∀ o, o ∈ [Op.begin, .stmt (.ins .insert [0] [[.int 2]]), .stmt (.ins .insert [0] [[.int 1]])] →
      o.isCommit = false) ∧
    (run wSchema (run wSchema {} [.begin, .stmt (.ins .insert [0] [[.int 1]]), .commit]).1
      [.begin, .stmt (.ins .insert [0] [[.int 2]]), .stmt (.ins .insert [0] [[.int 1]])]).2 =
        [.ok 0, .ok 1, .error .dupKey] ∧
    (run wSchema (run wSchema {} [.begin, .stmt (.ins .insert [0] [[.int 1]]), .commit]).1
      [.begin, .stmt (.ins .insert [0] [[.int 2]]), .stmt (.ins .insert [0] [[.int 1]])]).1.committed.rows =
        [[.int 1]] ∧
    (run wSchema (run wSchema {} [.begin, .stmt (.ins .insert [0] [[.int 1]]), .commit]).1
      [.begin, .stmt (.ins .insert [0] [[.int 2]]), .stmt (.ins .insert [0] [[.int 1]])]).1.tx.isNone = true := by
  refine ⟨?_, by decide, by decide, by decide⟩
  intro o ho
  simp only [List.mem_cons, List.not_mem_nil, or_false] at ho
  rcases ho with rfl | rfl | rfl <;> rfl

/-- the whole-program statement including COMMITs: the failing transaction of
`BEGIN; INSERT 1; COMMIT; BEGIN; INSERT 2; INSERT 1 (fails); COMMIT (no transaction)` leaves no trace. -/
example :
    (run wSchema {} [.begin, .stmt (.ins .insert [0] [[.int 1]]), .commit,
      .begin, .stmt (.ins .insert [0] [[.int 2]]), .stmt (.ins .insert [0] [[.int 1]]), .commit]).2 =
        [.ok 0, .ok 1, .ok 1, .ok 0, .ok 1, .error .dupKey, .error .noTx] ∧
    (run wSchema {} [.begin, .stmt (.ins .insert [0] [[.int 1]]), .commit,
      .begin, .stmt (.ins .insert [0] [[.int 2]]), .stmt (.ins .insert [0] [[.int 1]]), .commit]).1.committed.rows =
        [[.int 1]] := by
  decide

/-- the hypotheses of `commit_publishes_pending`, `own_writes_visible`, `counts_match_applied` are jointly
satisfiable: after BEGIN there is an open transaction in which `INSERT 1` succeeds; the session then sees
the row, the outside does not. -/
example :
    ∃ (t : OpenTx) (db' : DB),
      (step wSchema {} .begin).1.tx = some t ∧
      exec wSchema t.db (.ins .insert [0] [[.int 1]]) = .ok db' ∧
      db'.rows = [[.int 1]] ∧ db'.updated = 1 ∧
      (step wSchema (step wSchema {} .begin).1 (.stmt (.ins .insert [0] [[.int 1]]))).1.ownView = [[.int 1]] ∧
      (step wSchema (step wSchema {} .begin).1 (.stmt (.ins .insert [0] [[.int 1]]))).1.visible = [] := by
  have ht : ((step wSchema {} .begin).1.tx).isSome = true := by decide
  have he : ∀ t, (step wSchema {} .begin).1.tx = some t →
      (exec wSchema t.db (.ins .insert [0] [[.int 1]])).toOption.isSome = true := by
    intro t h
    have : (((step wSchema {} .begin).1.tx).bind
        (fun t => (exec wSchema t.db (.ins .insert [0] [[.int 1]])).toOption)).isSome = true := by decide
    rw [h] at this
    exact this
  cases h : (step wSchema {} .begin).1.tx with
  | none => rw [h] at ht; cases ht
  | some t =>
    have he' := he t h
    cases hx : exec wSchema t.db (.ins .insert [0] [[.int 1]]) with
    | error e => rw [hx] at he'; cases he'
    | ok db' =>
      have hv := own_writes_visible wSchema (step wSchema {} .begin).1 t _ db' h hx
      refine ⟨t, db', rfl, hx, ?_, ?_, by decide, by decide⟩
      · rw [← hv.1]; decide
      · have hc := (counts_match_applied wSchema (step wSchema {} .begin).1 t _ db' h hx).1
        have : (step wSchema (step wSchema {} .begin).1 (.stmt (.ins .insert [0] [[.int 1]]))).2 = .ok 1 := by
          decide
        rw [this] at hc
        exact (Except.ok.inj hc).symm

/-- `rollback_no_trace`: ROLLBACK after a write leaves the committed state empty and closes the
transaction; `tx_refines_spec_partial`: a program with SAVEPOINT (but no ROLLBACK TO / RELEASE)
satisfies the hypothesis. -/
example :
    (run wSchema {} [.begin, .stmt (.ins .insert [0] [[.int 1]]), .rollback]).1.committed.rows = [] ∧
    (run wSchema {} [.begin, .stmt (.ins .insert [0] [[.int 1]]), .rollback]).1.tx.isNone = true ∧
    (run wSchema {} [.begin, .stmt (.ins .insert [0] [[.int 1]]), .rollback]).2 = [.ok 0, .ok 1, .ok 0] ∧
    (∀ o, o ∈ [Op.begin, .savepoint "s", .stmt (.ins .insert [0] [[.int 1]]), .commit] →
      (match o with | .rollbackTo _ | .release _ => false | _ => true) = true) ∧
    (Spec.run wSchema {} [.begin, .savepoint "s", .stmt (.ins .insert [0] [[.int 1]]), .commit]).1.committed.rows =
      [[.int 1]] := by
  refine ⟨by decide, by decide, by decide, ?_, by decide⟩
  intro o ho
  simp only [List.mem_cons, List.not_mem_nil, or_false] at ho
  rcases ho with rfl | rfl | rfl | rfl <;> rfl

-- ================================================================ catalog cache (DDL visibility)

section CatalogCache
open ImmuModel.Sql.CatCache ImmuModel.Sql.CatCache.MainAux

/-- **The model mirrors the code fragments it was written against** (regenerated from the source tree by
`extract/c13.go` at every run; an edit of `invalidateCatalogCache`, `tryPopulateCatalogCache`, the cache step
of `SQLTx.Commit` or the cache handling of `Engine.NewTx` breaks this theorem): invalidate = clear + version
bump, unconditionally; populate = three guards (nil, warm cache, version moved) then store; Commit = store
commit, `ErrNoEntriesProvided` tolerated, then invalidate iff the transaction mutated the catalog; NewTx reads
the (catalog, version) pair, shares / clones / loads, and a read-only transaction fills an empty cache. -/
theorem catalog_cache_facts_match_code :
    Gen.C13.invalidateBody = ["e.cachedCatalog = nil", "e.cachedCatalogVersion.Add(1)"] ∧
    Gen.C13.tryPopulateBody =
      ["if catalog == nil { return }", "if e.cachedCatalog != nil { return }",
       "if e.cachedCatalogVersion.Load() != openVersion { return }", "e.cachedCatalog = catalog"] ∧
    Gen.C13.commitCacheStep =
      ["sqlTx.txHeader, err = sqlTx.tx.AsyncCommit(ctx)",
       "if err != nil && !errors.Is(err, store.ErrNoEntriesProvided) { return err }",
       "if sqlTx.mutatedCatalog { sqlTx.engine.invalidateCatalogCache() } else { sqlTx.engine.tryPopulateCatalogCache(sqlTx.catalog, sqlTx.openCatalogVersion) }"] ∧
    Gen.C13.newTxCacheRead =
      ["cached := e.cachedCatalog", "openVersion := e.cachedCatalogVersion.Load()",
       "if cached != nil && opts.ReadOnly { share }", "if cached != nil { clone } else { load }"] ∧
    Gen.C13.newTxReadOnlyFill = ["if e.cachedCatalog == nil { e.cachedCatalog = catalog }"] ∧
    codeCfg = { bumpAlways := true, checkVersion := true, invalidateOnDDL := true } :=
  ⟨rfl, rfl, rfl, rfl, rfl, rfl⟩

/-- **Cache coherence along every schedule**: whatever the sessions do (any number of sessions, any
interleaving of BEGIN read-only / read-write, DDL, DML, COMMIT incl. conflicting and EMPTY ones, ROLLBACK,
engine re-open), a cached catalog is the committed one, and every open transaction that could still publish
its catalog holds the committed one. -/
theorem cache_coherent (ops : List CatCache.Op) : Inv (CatCache.run codeCfg {} ops).1 :=
  run_inv ops {} inv_init

/-- **A new transaction sees every committed DDL**: after any schedule, the catalog a transaction opened
now works with is the committed generation (cache hit or miss, read-only or read-write). -/
theorem new_tx_sees_committed_catalog (ops : List CatCache.Op) (sid : Nat) (ro : Bool)
    (hfree : findTx sid (CatCache.run codeCfg {} ops).1.txs = none) :
    ∃ hit, (CatCache.step codeCfg (CatCache.run codeCfg {} ops).1 (.newTx sid ro)).2 =
      .opened (CatCache.run codeCfg {} ops).1.committed hit := by
  have hi := cache_coherent ops
  generalize (CatCache.run codeCfg {} ops).1 = e at *
  simp only [CatCache.step, hfree]
  cases hc : e.cache with
  | none => exact ⟨false, by simp [openTx, hc]⟩
  | some c =>
    have := hi.1 c hc
    subst this
    exact ⟨true, by simp [openTx, hc]⟩

/-- **The COMMIT of a transaction that executed no DDL changes nothing others see**: the committed generation
is unchanged, and what a new transaction would see is the same before and after — in particular a DDL
committed earlier by another session is not undone by an older, empty transaction's COMMIT. -/
theorem commit_without_ddl_keeps_schema (ops : List CatCache.Op) (sid : Nat) (t : Tx)
    (ht : findTx sid (CatCache.run codeCfg {} ops).1.txs = some t) (hm : t.mutated = false) :
    (CatCache.step codeCfg (CatCache.run codeCfg {} ops).1 (.commit sid)).1.committed =
      (CatCache.run codeCfg {} ops).1.committed ∧
    (CatCache.step codeCfg (CatCache.run codeCfg {} ops).1 (.commit sid)).1.fresh =
      (CatCache.run codeCfg {} ops).1.fresh := by
  have hi := cache_coherent ops
  have hi' : Inv (CatCache.step codeCfg (CatCache.run codeCfg {} ops).1 (.commit sid)).1 := step_inv _ _ hi
  generalize (CatCache.run codeCfg {} ops).1 = e at *
  have hc : (CatCache.step codeCfg e (.commit sid)).1.committed = e.committed := by
    simp only [CatCache.step, ht, hm]
    split
    · rfl
    · split
      · rfl
      · simp only [Bool.false_eq_true, if_false]
        unfold tryPopulate
        split
        · rfl
        · split <;> rfl
  exact ⟨hc, by rw [fresh_of_inv _ hi', fresh_of_inv _ hi, hc]⟩

/-- committed DDL is never undone: the committed generation only grows (any configuration) -/
theorem committed_ddl_never_undone (cfg : Cfg) (e : Eng) (ops : List CatCache.Op) :
    e.committed ≤ (CatCache.run cfg e ops).1.committed :=
  run_committed_mono cfg ops e

/-- **The version bump must be unconditional.** With `invalidateCatalogCache` skipping the bump when the cache
is already empty, the schedule "S1 BEGIN; S0 BEGIN; S0 DDL; S0 COMMIT; S1 COMMIT (empty)" on a cold cache ends
with generation 0 cached while generation 1 is committed: the next transaction does not see the DDL. -/
theorem coherence_needs_unconditional_bump :
    let e := (CatCache.run { codeCfg with bumpAlways := false } {}
      [.newTx 1 false, .newTx 0 false, .ddl 0, .commit 0, .commit 1]).1
    e.committed = 1 ∧ e.cache = some 0 ∧ e.fresh = 0 := by
  decide

/-- the same schedule on the code as it is: the empty COMMIT publishes nothing -/
theorem empty_commit_after_ddl_publishes_nothing :
    let e := (CatCache.run codeCfg {} [.newTx 1 false, .newTx 0 false, .ddl 0, .commit 0, .commit 1]).1
    e.committed = 1 ∧ e.cache = none ∧ e.fresh = 1 := by
  decide

/-- **The version check of `tryPopulateCatalogCache` is necessary** (same schedule). -/
theorem coherence_needs_version_check :
    let e := (CatCache.run { codeCfg with checkVersion := false } {}
      [.newTx 1 false, .newTx 0 false, .ddl 0, .commit 0, .commit 1]).1
    e.committed = 1 ∧ e.cache = some 0 := by
  decide

/-- **Invalidation on a DDL commit is necessary**: a warm cache would survive the DDL. -/
theorem coherence_needs_invalidate_on_ddl :
    let e := (CatCache.run { codeCfg with invalidateOnDDL := false } {}
      [.newTx 2 true, .cancel 2, .newTx 0 false, .ddl 0, .commit 0]).1
    e.committed = 1 ∧ e.cache = some 0 := by
  decide

/-- **Finding (race in the code as it is).** `Engine.NewTx` fills the cache for a read-only transaction in a
SECOND critical section (`if e.cachedCatalog == nil { e.cachedCatalog = catalog }`) without comparing
`cachedCatalogVersion` with the value read in the first one.  If another goroutine commits DDL between the two
(after the read-only transaction loaded generation 0 from its snapshot), the stale generation 0 is cached while
generation 1 is committed, and stays cached until the next DDL commit.  `cache_coherent` is about schedules in
which `NewTx` is one step (statement-level interleavings, what the harness drives). -/
theorem ro_fill_not_atomic_stale :
    let e0 : Eng := {}
    let (t, hit) := openTx e0 true
    let e1 := (CatCache.run codeCfg e0 [.newTx 0 false, .ddl 0, .commit 0]).1
    let e2 := populateRO e1 t hit
    e2.committed = 1 ∧ e2.cache = some 0 ∧ e2.fresh = 0 := by
  decide

/-- non-vacuity of `new_tx_sees_committed_catalog` / `commit_without_ddl_keeps_schema`: after the schedule of
the seeded change (cold cache, S1 BEGIN, S0 commits DDL, S1 commits empty, an autocommit reader warms the cache)
session 3 is free, a new transaction sees generation 1 through a cache HIT, and S1's transaction was open and
non-mutated when it committed. -/
example :
    findTx 3 (CatCache.run codeCfg {} [.newTx 1 false, .newTx 0 false, .ddl 0, .commit 0, .commit 1, .newTx 2 true, .cancel 2]).1.txs = none ∧
    (CatCache.step codeCfg (CatCache.run codeCfg {} [.newTx 1 false, .newTx 0 false, .ddl 0, .commit 0, .commit 1, .newTx 2 true, .cancel 2]).1
      (.newTx 3 false)).2 = .opened 1 true ∧
    (findTx 1 (CatCache.run codeCfg {} [.newTx 1 false, .newTx 0 false, .ddl 0, .commit 0]).1.txs).map (·.mutated) = some false ∧
    (CatCache.run codeCfg {} [.newTx 1 false, .dml 1, .newTx 0 false, .ddl 0, .commit 0, .commit 1]).2 =
      [.opened 0 false, .ok, .opened 0 false, .ok, .ok, .conflict] := by
  decide

end CatalogCache

-- ================================================================ catalog clone (uncommitted DDL stays private)

section CatalogClone
open ImmuModel.Sql.CatClone ImmuModel.Sql.CatClone.MainAux

/-- **The clone model mirrors the code it was written against** (regenerated from `embedded/sql/catalog.go` by
`extract/c13.go` at every run): the fields of `Table` / `Index` with their kinds, how the literals `&Table{…}` /
`&Index{…}` of `cloneTable` initialise each field (`make` = a container of its own, `source.f` = taken from the
source), the loops that fill the rebuilt containers (columns are copied by value: `nc := *c … &nc`; index objects are
new: `ni := &Index{…}`), and `Catalog.Clone`.  A new map / slice field of `Table`, a field that is no longer rebuilt, a
loop that stops copying: this theorem (or the next one) no longer holds. -/
theorem clone_facts_match_code :
    Gen.C13.tableFields = ["catalog:ptr", "id:value", "name:value", "cols:slice", "colsByID:map", "colsByName:map", "indexes:slice", "indexesByName:map", "indexesByColID:map", "checkConstraints:map", "primaryIndex:ptr", "autoIncrementPK:value", "maxPK:value", "maxColID:value", "maxIndexID:value", "systemScan:func"] ∧
    Gen.C13.indexFields = ["table:ptr", "id:value", "unique:value", "cols:slice", "colsByID:map", "predicate:value"] ∧
    Gen.C13.columnFields = ["table:ptr", "id:value", "colName:value", "colType:value", "maxLen:value", "autoIncrement:value", "notNull:value", "defaultValue:value"] ∧
    Gen.C13.cloneTableInit = ["id:source.id", "catalog:var.newCatalog", "name:source.name", "autoIncrementPK:source.autoIncrementPK", "maxPK:source.maxPK", "maxColID:source.maxColID", "maxIndexID:source.maxIndexID", "cols:make", "colsByID:make", "colsByName:make", "indexes:make", "indexesByName:make", "indexesByColID:make", "checkConstraints:make"] ∧
    Gen.C13.cloneIndexInit = ["id:source.id", "table:var.nt", "unique:source.unique", "predicate:source.predicate", "cols:make", "colsByID:make"] ∧
    Gen.C13.cloneTableLoops = ["for name, cc := range t.checkConstraints { nt.checkConstraints[name] = cc }", "for _, c := range t.cols { nc := *c nc.table = nt nt.cols = append(nt.cols, &nc) nt.colsByID[nc.id] = &nc nt.colsByName[nc.colName] = &nc }", "for _, idx := range t.indexes { ni := &Index{ id: idx.id, table: nt, unique: idx.unique, predicate: idx.predicate, cols: make([]*Column, len(idx.cols)), colsByID: make(map[uint32]*Column, len(idx.colsByID)), } for i, c := range idx.cols { ni.cols[i] = nt.colsByID[c.id] } for id := range idx.colsByID { ni.colsByID[id] = nt.colsByID[id] } nt.indexes = append(nt.indexes, ni) nt.indexesByName[ni.Name()] = ni if idx == t.primaryIndex { nt.primaryIndex = ni } }", "for _, ni := range nt.indexes { for _, c := range ni.cols { nt.indexesByColID[c.id] = append(nt.indexesByColID[c.id], ni) } }"] ∧
    Gen.C13.catalogCloneBody = ["cp := newCatalog(catlg.enginePrefix)", "cp.maxTableID = catlg.maxTableID", "if len(catlg.tables) > 0 { cp.tables = make([]*Table, 0, len(catlg.tables)) }", "for _, t := range catlg.tables { nt := cloneTable(t, cp) cp.tables = append(cp.tables, nt) cp.tablesByID[nt.id] = nt cp.tablesByName[nt.name] = nt }", "return cp"] :=
  ⟨rfl, rfl, rfl, rfl, rfl, rfl, rfl⟩

/-- **`cloneTable` gives the clone a container of its own for EVERY map / slice field of `Table` (and of the `Index`
objects it builds)** — the list of fields and the way each is initialised are extracted from the source tree. -/
theorem clone_rebuilds_every_container :
    Gen.C13.tableContainerRebuilt.length = 7 ∧
    (∀ b, b ∈ flagsOf Gen.C13.tableContainerRebuilt → b = true) ∧
    (∀ b, b ∈ flagsOf Gen.C13.indexContainerRebuilt → b = true) := by
  decide

/-- **Uncommitted DDL leaves no trace in the cached catalog** (atomicity and isolation of DDL at the level of the
catalog VALUE): let a read-write transaction clone the cached catalog `c` (heap `h`, any number of tables, any contents)
and execute ANY sequence of in-place mutations of the containers of ITS catalog (`ms`: DROP CONSTRAINT, DROP COLUMN,
CREATE / DROP INDEX, RENAME, …).  Then (1) the transaction started from what the cache shows, (2) the cached catalog —
which every read-only transaction shares and every other read-write transaction clones WHILE the first one is open —
still shows what it showed, and (3) so does the clone a later transaction takes: after ROLLBACK / a failed statement /
a failed COMMIT / a closed session (none of which publishes a catalog, `Sql/CatalogCache.lean`) nothing is left. -/
theorem uncommitted_ddl_leaves_cached_catalog_untouched (h : Heap) (c : List CatClone.Table) (hwf : WF h c)
    (hshape : ∀ t, t ∈ c → t.length ≤ Gen.C13.tableContainerRebuilt.length) (ms : List Mut) :
    let flags := flagsOf Gen.C13.tableContainerRebuilt
    let tx := cloneCatalog flags h c
    let h' := applyMuts tx.2 tx.1 ms
    view tx.1 tx.2 = view h c ∧ view h' c = view h c ∧
    view (cloneCatalog flags h' c).1 (cloneCatalog flags h' c).2 = view h c := by
  intro flags tx h'
  have hall : ∀ b, b ∈ flags → b = true := clone_rebuilds_every_container.2.1
  have hshape' : ∀ t, t ∈ c → t.length ≤ flags.length := by
    intro t ht
    have := hshape t ht
    simpa [flags, flagsOf] using this
  have hiso := fresh_clone_isolated flags hall h c hwf hshape' ms
  refine ⟨cloneCatalog_view flags h c hwf, hiso.1, ?_⟩
  rw [cloneCatalog_view flags h' c hiso.2]
  exact hiso.1

/-- **One shared container is enough to break it** (the necessity of the fact above; the behaviour of seeded change
c13-b): the second container of the table is shared with the source (`checkConstraints: t.checkConstraints`); the
transaction empties it (`ALTER TABLE … DROP CONSTRAINT`) and is never committed — the cached catalog has lost the entry. -/
theorem shared_container_leaks_uncommitted_ddl :
    let h : Heap := { cells := [[1], [7]] }
    let c : List CatClone.Table := [[0, 1]]
    let tx := cloneCatalog [true, false] h c
    let h' := applyMuts tx.2 tx.1 [{ tbl := 0, fld := 1, v := [] }]
    view h c = [[[1], [7]]] ∧ view h' c = [[[1], []]] ∧
    view (cloneCatalog [true, false] h' c).1 (cloneCatalog [true, false] h' c).2 = [[[1], []]] := by
  decide

/-- non-vacuity of `uncommitted_ddl_leaves_cached_catalog_untouched`: a cached catalog with one table of seven
containers is well formed and has the shape of the code's `Table`; the same DROP CONSTRAINT through a clone that
rebuilds everything leaves the cached catalog alone. -/
example :
    let h : Heap := { cells := [[1], [2], [3], [4], [5], [6], [7]] }
    let c : List CatClone.Table := [[0, 1, 2, 3, 4, 5, 6]]
    WF h c ∧ (∀ t, t ∈ c → t.length ≤ Gen.C13.tableContainerRebuilt.length) ∧
    view (applyMuts (cloneCatalog (flagsOf Gen.C13.tableContainerRebuilt) h c).2
      (cloneCatalog (flagsOf Gen.C13.tableContainerRebuilt) h c).1 [{ tbl := 0, fld := 6, v := [] }]) c = view h c ∧
    view (applyMuts (cloneCatalog (flagsOf Gen.C13.tableContainerRebuilt) h c).2
      (cloneCatalog (flagsOf Gen.C13.tableContainerRebuilt) h c).1 [{ tbl := 0, fld := 6, v := [] }])
      (cloneCatalog (flagsOf Gen.C13.tableContainerRebuilt) h c).2 = [[[1], [2], [3], [4], [5], [6], []]] := by
  decide

end CatalogClone

-- ================================================================ Fourth model (added for seeded change c13-c): concurrent sessions, ImmuModel/Sql/Sessions.lean

section ConcurrentSessions

/-- **Of two overlapping transactions that write the same unique tuple the second committer fails, and its failed COMMIT
leaves no trace.**  For EVERY schedule of BEGIN / statement / COMMIT / ROLLBACK events of any number of sessions: a session
with an open transaction that has written rows and holds the transient entry `(idx, v)` of a UNIQUE index, whose COMMIT
finds a live first entry under that prefix in the committed store (another transaction committed that tuple meanwhile), is
answered `ErrTxReadConflict`, and the committed store is what it was.  (The "nothing under this prefix" read is in the
read-set — `run_probed` — and `checkPreconditions` re-evaluates it on the index it was made on; the seeded change c13-c
routes it by `expectedKey`, which is nil for such a read, so it is never re-evaluated.) -/
theorem overlapping_unique_writers_second_commit_conflicts (sc : Schema) (evs : List Mv.Ev) (i idx : Nat)
    (v : Bytes) (e : Mv.UEntry)
    (ha : ((Mv.run sc {} evs).1.get i).active = true)
    (hw : ((Mv.run sc {} evs).1.get i).wrows ≠ [])
    (hu : (idx, v) ∈ ((Mv.run sc {} evs).1.get i).wuniq)
    (hl : (Mv.run sc {} evs).1.st.pgetLive idx v = some e) :
    (Mv.step sc (Mv.run sc {} evs).1 (.commit i)).2 = .err .readConflict ∧
    (Mv.step sc (Mv.run sc {} evs).1 (.commit i)).1.st = (Mv.run sc {} evs).1.st := by
  have hp := SessionsAux.run_probed sc evs {} SessionsAux.allProbed_init i (idx, v) hu
  have hc := SessionsAux.commit_stale_probe sc _ _ idx v e hw hp hl
  simp only [Mv.step, ha, hc]
  exact ⟨rfl, rfl⟩

/-- **No schedule commits two overlapping writers of the same unique tuple.**  For EVERY schedule and two different
sessions `i`, `j` whose open transactions both hold the transient entry `(idx, v)` of a UNIQUE index (they wrote rows —
under whatever primary keys — with the same unique value, both uniqueness lookups having found nothing): if COMMIT of `i`
succeeds, then COMMIT of `j` in the resulting world is answered `ErrTxReadConflict` and changes nothing.  So the committed
state of the c13-c demo (both rows live) is unreachable in the model.
Side conditions (hence `_partial`): `hnd` — the write-set of `i` names every key once (the statements of the model
refuse a second write to a key of the write-set — `outOfModel` — but UPDATE checks the key of the WHERE and writes under
the key re-encoded from the row; that they coincide needs the store invariant "an entry's key is the encoding of its
row", not proved); `hfresh` — the committed store holds NO entry, not even a deleted one, under the prefix: a deleted
entry with a smaller primary key hides the new one from `GetWithPrefix` (finding R2, C12 `unique_violated_after_delete`)
and then BOTH commit, in the model and in the code. -/
theorem overlapping_unique_writers_never_both_commit_partial (sc : Schema) (evs : List Mv.Ev) (i j idx n : Nat)
    (v : Bytes) (hij : i ≠ j)
    (haj : ((Mv.run sc {} evs).1.get j).active = true)
    (hui : (idx, v) ∈ ((Mv.run sc {} evs).1.get i).wuniq)
    (huj : (idx, v) ∈ ((Mv.run sc {} evs).1.get j).wuniq)
    (hnd : (((Mv.run sc {} evs).1.get i).wrows.map (·.1)).Nodup)
    (hfresh : (Mv.run sc {} evs).1.st.firstU idx v = none)
    (hci : (Mv.step sc (Mv.run sc {} evs).1 (.commit i)).2 = .ok n) :
    (Mv.step sc (Mv.step sc (Mv.run sc {} evs).1 (.commit i)).1 (.commit j)).2 = .err .readConflict ∧
    (Mv.step sc (Mv.step sc (Mv.run sc {} evs).1 (.commit i)).1 (.commit j)).1.st =
      (Mv.step sc (Mv.run sc {} evs).1 (.commit i)).1.st := by
  have hlink := Mv.SerAux.run_linked sc evs {} (Mv.SerAux.allLinked_init sc)
  have hprob := SessionsAux.run_probed sc evs {} SessionsAux.allProbed_init
  obtain ⟨_, st', hc, hst⟩ := Mv.SerAux.step_commit_ok hci
  obtain ⟨e, hlive⟩ := Mv.SerAux.commit_makes_unique_live (hlink i) hui hnd hfresh hc
  have hj := Mv.SerAux.step_commit_others sc (Mv.run sc {} evs).1 i j hij
  obtain ⟨_, _, _, hm, _⟩ := hlink j (idx, v) huj
  have hwj : ((Mv.run sc {} evs).1.get j).wrows ≠ [] := by intro h; rw [h] at hm; cases hm
  have hcj := SessionsAux.commit_stale_probe sc st' _ idx v e hwj (hprob j (idx, v) huj) hlive
  generalize Mv.step sc (Mv.run sc {} evs).1 (.commit i) = r at hst hj ⊢
  rw [← hst] at hcj
  simp only [Mv.step, hj, haj, hcj]
  exact ⟨rfl, rfl⟩
/- Full statement (NOT proved; FALSE without `hfresh` because of finding R2): the same without `hnd` and with
   `hfresh` weakened to "no deleted entry under the prefix"; and its extension over arbitrary events between the two
   COMMITs (covered only through `overlapping_unique_writers_second_commit_conflicts`: whenever `j` commits while a live
   first entry is under the prefix). -/

/-- **A failed COMMIT leaves no trace**, whatever the world (so after every schedule): the committed store is unchanged,
the other sessions are untouched, and the session has no open transaction any more. -/
theorem failed_commit_leaves_no_trace (sc : Schema) (w : Mv.World) (i : Nat) (e : Mv.MvErr)
    (h : (Mv.step sc w (.commit i)).2 = .err e) :
    (Mv.step sc w (.commit i)).1.st = w.st ∧
    (∀ j, i ≠ j → (Mv.step sc w (.commit i)).1.get j = w.get j) ∧
    ((Mv.step sc w (.commit i)).1.get i).active = false := by
  refine ⟨Mv.SerAux.step_commit_err_st sc w i e h, fun j hij => Mv.SerAux.step_commit_others sc w i j hij, ?_⟩
  by_cases ha : (w.get i).active = true
  · cases hc : Mv.commit sc w.st (w.get i) with
    | ok st' => simp [Mv.step, ha, hc] at h
    | error e' => simp [Mv.step, ha, hc, SessionsAux.get_set]
  · have ha' : (w.get i).active = false := by simpa using ha
    simp [Mv.step, ha']

/-- **ROLLBACK leaves no trace**: committed store and other sessions untouched, the session's transaction is gone. -/
theorem rollback_leaves_no_trace (sc : Schema) (w : Mv.World) (i : Nat) :
    (Mv.step sc w (.rollback i)).1.st = w.st ∧
    (∀ j, i ≠ j → (Mv.step sc w (.rollback i)).1.get j = w.get j) ∧
    ((Mv.step sc w (.rollback i)).1.get i).active = false ∧
    ((Mv.step sc w (.rollback i)).1.get i).wrows = [] := by
  refine ⟨rfl, fun j hij => ?_, ?_, ?_⟩
  · simp only [Mv.step]; rw [SessionsAux.get_set]; simp [hij]
  · simp only [Mv.step]; rw [SessionsAux.get_set]; simp
  · simp only [Mv.step]; rw [SessionsAux.get_set]; simp

/-- **Nothing but COMMIT changes what others see**: BEGIN, statements (successful or failing) and ROLLBACK of any session
leave the committed store — what every snapshot taken later contains — unchanged. -/
theorem uncommitted_statements_invisible (sc : Schema) (w : Mv.World) (e : Mv.Ev) (h : ∀ i, e ≠ .commit i) :
    (Mv.step sc w e).1.st = w.st :=
  Mv.SerAux.step_noncommit_st sc w e h

/-- **The reads of a committed transaction are valid at its commit point**: if COMMIT of a transaction with a non-empty
write-set succeeds, every read it recorded (primary-key existence, "nothing under this unique prefix", the row readers
of UPDATE / DELETE / UPSERT, `loadMaxPK`) re-evaluates on the committed store AS OF THE COMMIT to what the transaction
saw on its snapshots. -/
theorem committed_reads_valid_at_commit_point_partial (sc : Schema) (w : Mv.World) (i n : Nat)
    (hw : (w.get i).wrows ≠ []) (h : (Mv.step sc w (.commit i)).2 = .ok n) :
    ∀ p ∈ (w.get i).probes, Mv.probeOK w.st p = true := by
  obtain ⟨_, st', hc, _⟩ := Mv.SerAux.step_commit_ok h
  have hv := (Mv.SerAux.commit_ok_apply hw hc).1
  unfold Mv.validate at hv
  exact List.all_eq_true.1 hv
/- NOT proved: the full C13 statement for this model, "the committed outcome of every schedule equals that of executing the
   COMMITTED transactions alone, one after the other, in commit order": for every committed transaction, each statement
   outcome (affected rows / error class) and the write-set equal those of re-executing its statements on the store as of
   its commit point.  What is missing: (1) a determinacy lemma "`execStmt` on two snapshots that agree on every recorded
   probe yields the same session up to snapshots" — every branch of `insOne` / `updOne` / `delOne` / `chkIdx` would have to
   be shown to depend on the snapshots ONLY through the probes it records (true by inspection for `tx.get` and
   `getWithPrefix`; the row reader records the raw entry's version, not the row, so it additionally needs "same version ⇒
   same row", a store invariant); (2) per-index snapshots acquired at first use are DIFFERENT stores, so the serial
   re-execution has to be compared with a mixed snapshot; (3) a transaction with an empty write-set commits without
   validation (it is serialised at its snapshot, not at its commit point).  `committed_reads_valid_at_commit_point_partial`
   is the half that needs none of these. -/

/-- **The routing the model assumes is the routing of the code** (regenerated from `embedded/store/ongoing_tx.go` by
`extract/c13.go` at every run).  `checkPreconditions` validates the read-set once per index snapshot `txSnap`; each of
its three loops starts with `if <guard> { continue }`, and the guard compares the prefix of WHAT WAS READ — the key of an
`expectedGet`, the PREFIX of an `expectedGetWithPrefix`, the reader's prefix — with the snapshot's index prefix.  This is
what `Mv.probeOK` does when it evaluates `pget idx v …` on the index `idx` the probe was made on.  An edit of a guard
(the seeded change c13-c makes the second one `!hasPrefix(e.expectedKey, txSnap.prefix)`: a "found nothing" expectation has
no expected key and is then re-validated on NO index) breaks this theorem. -/
theorem readset_routing_facts_match_code :
    Gen.C13.readSetRoutingGuards =
      [("expectedGets", "!hasPrefix(e.key, txSnap.prefix)"),
       ("expectedGetsWithPrefix", "!hasPrefix(e.prefix, txSnap.prefix)"),
       ("expectedReaders", "!hasPrefix(eReader.spec.Prefix, txSnap.prefix)")] := by
  decide

def wSchemaQ : Schema :=
  { cols := [{ col := ⟨.integer, 8⟩, notNull := false, autoInc := false },
             { col := ⟨.integer, 8⟩, notNull := false, autoInc := false }],
    pk := [0], idx := [(true, [1])], check := none }

/-- the schedule of the c13-c demo: `t(id PRIMARY KEY, u UNIQUE)`; S0 BEGIN, S1 BEGIN, S0 INSERT (10, 7), S1 INSERT (20, 7),
then the two COMMITs -/
def wDemo (first second : Nat) : List Mv.Ev :=
  [.begin 0, .begin 1,
   .stmt 0 (.ins .insert [0, 1] [[.int 10, .int 7]]),
   .stmt 1 (.ins .insert [0, 1] [[.int 20, .int 7]]),
   .commit first, .commit second]

/-- **The c13-c demo on the model of the code as it is**: S0 commits, S1's COMMIT is a read conflict, only row 10 is
committed (under the seeded change both COMMITs succeed and rows 10 and 20 share the UNIQUE value). -/
theorem c13c_demo_second_committer_conflicts :
    (Mv.run wSchemaQ {} (wDemo 0 1)).1.st.rows = [[.int 10, .int 7]] ∧
    (∃ w' : Mv.World, Mv.run wSchemaQ {} (wDemo 0 1) =
      (w', [.ok 0, .ok 0, .ok 1, .ok 1, .ok 1, .err .readConflict])) := by
  constructor
  · rfl
  · exact ⟨_, rfl⟩

/-- the symmetric commit order: S1 commits first, S0 gets the conflict, only row 20 is committed -/
theorem c13c_demo_symmetric_order :
    (Mv.run wSchemaQ {} (wDemo 1 0)).1.st.rows = [[.int 20, .int 7]] ∧
    (∃ w' : Mv.World, Mv.run wSchemaQ {} (wDemo 1 0) =
      (w', [.ok 0, .ok 0, .ok 1, .ok 1, .ok 1, .err .readConflict])) := by
  constructor
  · rfl
  · exact ⟨_, rfl⟩

/-- **Routing by the probed prefix is necessary** (what the seeded change c13-c does): with the second loop of
`checkPreconditions` routed by the EXPECTED KEY (`Mv.SerAux.commitByExpectedKey`: a "nothing under this prefix" read has no
expected key and is validated on no index), the second COMMIT of the demo succeeds and two live rows share the UNIQUE
value; `Mv.commit` (the code as it is) refuses it. -/
theorem isolation_needs_routing_by_probed_prefix :
    (∃ st', Mv.SerAux.commitByExpectedKey wSchemaQ (Mv.run wSchemaQ {} ((wDemo 0 1).take 5)).1.st
        ((Mv.run wSchemaQ {} ((wDemo 0 1).take 5)).1.get 1) = .ok st' ∧
      st'.rows = [[.int 10, .int 7], [.int 20, .int 7]]) ∧
    (∃ e, Mv.commit wSchemaQ (Mv.run wSchemaQ {} ((wDemo 0 1).take 5)).1.st
        ((Mv.run wSchemaQ {} ((wDemo 0 1).take 5)).1.get 1) = .error e ∧
      (match e with | .readConflict => true | _ => false) = true) :=
  ⟨⟨_, rfl, rfl⟩, ⟨_, rfl, rfl⟩⟩

def wSchemaQ2 : Schema :=
  { cols := [{ col := ⟨.integer, 8⟩, notNull := false, autoInc := false },
             { col := ⟨.integer, 8⟩, notNull := false, autoInc := false },
             { col := ⟨.integer, 8⟩, notNull := false, autoInc := false }],
    pk := [0], idx := [(true, [1, 2])], check := none }

/-- the same with a two-column `UNIQUE(a, b)`: equal pairs conflict, a pair differing in one column commits -/
theorem c13c_demo_multi_column_unique :
    (∃ w' : Mv.World, Mv.run wSchemaQ2 {}
      [.begin 0, .begin 1, .begin 2,
       .stmt 0 (.ins .insert [0, 1, 2] [[.int 10, .int 7, .int 8]]),
       .stmt 1 (.ins .insert [0, 1, 2] [[.int 20, .int 7, .int 8]]),
       .stmt 2 (.ins .insert [0, 1, 2] [[.int 30, .int 7, .int 9]]),
       .commit 0, .commit 1, .commit 2] =
      (w', [.ok 0, .ok 0, .ok 0, .ok 1, .ok 1, .ok 1, .ok 1, .err .readConflict, .ok 1]) ∧
      w'.st.rows = [[.int 10, .int 7, .int 8], [.int 30, .int 7, .int 9]]) :=
  ⟨_, rfl, rfl⟩

/-- non-vacuity of `overlapping_unique_writers_never_both_commit_partial` (and of
`overlapping_unique_writers_second_commit_conflicts`, `committed_reads_valid_at_commit_point_partial`): after the first
four events of the demo, sessions 0 and 1 satisfy every hypothesis for the unique tuple `(index 0, enc 7)`, and COMMIT of
session 0 answers ok. -/
example :
    (0 : Nat) ≠ 1 ∧
    ((Mv.run wSchemaQ {} ((wDemo 0 1).take 4)).1.get 1).active = true ∧
    (0, [128, 128, 0, 0, 0, 0, 0, 0, 7]) ∈ ((Mv.run wSchemaQ {} ((wDemo 0 1).take 4)).1.get 0).wuniq ∧
    (0, [128, 128, 0, 0, 0, 0, 0, 0, 7]) ∈ ((Mv.run wSchemaQ {} ((wDemo 0 1).take 4)).1.get 1).wuniq ∧
    (((Mv.run wSchemaQ {} ((wDemo 0 1).take 4)).1.get 0).wrows.map (·.1)).Nodup ∧
    (Mv.run wSchemaQ {} ((wDemo 0 1).take 4)).1.st.firstU 0 [128, 128, 0, 0, 0, 0, 0, 0, 7] = none ∧
    (Mv.step wSchemaQ (Mv.run wSchemaQ {} ((wDemo 0 1).take 4)).1 (.commit 0)).2 = .ok 1 ∧
    ((Mv.run wSchemaQ {} ((wDemo 0 1).take 4)).1.get 0).wrows ≠ [] ∧
    (∃ e, (Mv.run wSchemaQ {} ((wDemo 0 1).take 5)).1.st.pgetLive 0 [128, 128, 0, 0, 0, 0, 0, 0, 7] = some e) :=
  ⟨by decide, rfl, by decide, by decide, by decide, rfl, rfl, by decide, _, rfl⟩

/-- non-vacuity of `failed_commit_leaves_no_trace`: the second COMMIT of the demo fails -/
example : (Mv.step wSchemaQ (Mv.run wSchemaQ {} ((wDemo 0 1).take 5)).1 (.commit 1)).2 = .err .readConflict := rfl

end ConcurrentSessions

end ImmuModel.Props.C13
