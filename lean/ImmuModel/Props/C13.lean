/-
C13 — SQL transactions are atomic and isolated, incl. rollback and savepoints.

ONLY property theorems and non-vacuity examples live here; helper lemmas are in
ImmuModel/Sql/Proofs/TxProg*.lean.  Model: ImmuModel/Sql/TxProg.lean — `step`/`run` mirror `SQLTx`
(one store transaction, counters, savepoints AS THE CODE DOES THEM: counters only) and
`Engine.execPreparedStmts` (a statement error cancels the transaction); `Spec.step`/`Spec.run` is the
reference interpreter (savepoint = copy of the pending state).

`savepoint_refines_spec` is FALSE of the code: witness `savepoint_keeps_writes` (finding K1) and
`second_rollback_to_fails`; the refinement is proved for programs without ROLLBACK TO / RELEASE
(`tx_refines_spec_partial`).  Isolation between concurrent sessions is the store's MVCC (C05), not
modelled here; the harness checks it on the engine.

Second model (added for seeded change c13-a): ImmuModel/Sql/CatalogCache.lean — the engine-level catalog
cache under schedules of several sessions (`NewTx`, DDL/DML statements, `Commit`, `Cancel`, re-open).
"A committed DDL transaction is visible to every later transaction and is never undone by the COMMIT of a
transaction that executed no DDL" is `cache_coherent` / `new_tx_sees_committed_catalog` /
`commit_without_ddl_keeps_schema`; `catalog_cache_facts_match_code` pins the model to the extracted code
fragments; the `coherence_needs_…` theorems show that each guard of the protocol is necessary (dropping it has
a concrete failing schedule); `ro_fill_not_atomic_stale` is a FINDING about the code as it is (the read-only
fill of `NewTx` has no version check: a DDL commit between its two critical sections leaves a stale cache).

Third model (added for seeded change c13-b): ImmuModel/Sql/CatalogClone.lean — the catalog of a read-write
transaction is a CLONE of the cached catalog, and DDL mutates the clone's per-table maps and slices in place.  The cache
model above takes "the DDL of a transaction stays private until COMMIT" for granted; here it is a theorem about a heap of
containers, under the extracted fact that `cloneTable` rebuilds EVERY container-typed field of `Table`
(`clone_rebuilds_every_container`, `clone_facts_match_code`): `uncommitted_ddl_leaves_cached_catalog_untouched`; a single
shared container breaks it (`shared_container_leaks_uncommitted_ddl`).
-/
import ImmuModel.Sql.Proofs.TxProgMain
import ImmuModel.Sql.Proofs.CatalogCacheMain
import ImmuModel.Sql.Proofs.CatalogCloneMain
import ImmuModel.Gen.C13

namespace ImmuModel.Props.C13
open ImmuModel ImmuModel.Sql ImmuModel.Sql.TxProgMainAux

/-- **Nothing but COMMIT changes what others see**: a program without COMMIT leaves the committed
state untouched, whatever it does (statements, failures, savepoints, ROLLBACK). -/
theorem commit_all_or_nothing (sc : Schema) (s : Sess) (ops : List Op)
    (h : ∀ o, o ∈ ops → o.isCommit = false) :
    (run sc s ops).1.committed = s.committed :=
  run_committed sc ops s h

/-- COMMIT publishes exactly the transaction's pending state (all its statements together). -/
theorem commit_publishes_pending (sc : Schema) (s : Sess) (t : OpenTx) (ht : s.tx = some t) :
    (step sc s .commit).1.committed = t.db ∧ (step sc s .commit).1.tx = none := by
  rw [step_commit_some sc s t ht]
  exact ⟨rfl, rfl⟩

/-- **ROLLBACK, a failing statement, a failing savepoint operation leave no trace.** -/
theorem rollback_no_trace (sc : Schema) (s : Sess) (o : Op) (ho : o.isCommit = false) :
    (step sc s o).1.committed = s.committed ∧
    ((step sc s o).2.toOption = none → (step sc s o).1.tx = none ∨ (step sc s o).1.tx = s.tx) ∧
    (o = .rollback → (step sc s o).1.tx = none) := by
  refine ⟨step_committed sc s o ho, step_fail_tx sc s o, ?_⟩
  intro h
  subst h
  exact step_rollback_tx sc s

/-- **Own writes are visible**: inside the transaction the session sees exactly the result of its
statements applied in order to its snapshot. -/
theorem own_writes_visible (sc : Schema) (s : Sess) (t : OpenTx) (st : Stmt) (db' : DB)
    (ht : s.tx = some t) (he : exec sc t.db st = .ok db') :
    (step sc s (.stmt st)).1.ownView = db'.rows ∧ (step sc s (.stmt st)).1.visible = s.visible := by
  rw [step_stmt_ok sc s t st db' ht he]
  exact ⟨rfl, rfl⟩

/-- **Counts match what was applied**: without savepoint operations the count reported at COMMIT is
the count after the last statement, and each statement's outcome is the running count. -/
theorem counts_match_applied (sc : Schema) (s : Sess) (t : OpenTx) (st : Stmt) (db' : DB)
    (ht : s.tx = some t) (he : exec sc t.db st = .ok db') :
    (step sc s (.stmt st)).2 = .ok db'.updated ∧
    (step sc (step sc s (.stmt st)).1 .commit).2 = .ok db'.updated := by
  rw [step_stmt_ok sc s t st db' ht he]
  refine ⟨rfl, ?_⟩
  rw [step_commit_some sc _ { t with db := db' } rfl]

/-- **Refinement of the reference interpreter** for programs without ROLLBACK TO SAVEPOINT and
RELEASE SAVEPOINT: same outcomes, same committed state, same own view. -/
theorem tx_refines_spec_partial (sc : Schema) (db : DB) (ops : List Op)
    (h : ∀ o, o ∈ ops → (match o with | .rollbackTo _ | .release _ => false | _ => true) = true) :
    (run sc { committed := db } ops).2 = (Spec.run sc { committed := db } ops).2 ∧
    (run sc { committed := db } ops).1.committed = (Spec.run sc { committed := db } ops).1.committed := by
  have hs := run_sim sc ops { committed := db } { committed := db } (rel_init db)
    (fun o ho => by
      have := h o ho
      cases o <;> first | rfl | simp at this)
  exact ⟨hs.2, hs.1.1⟩
/- Full statement (`savepoint_refines_spec`, FALSE of the code): the same for all programs. -/

def wSchema : Schema :=
  { cols := [{ col := ⟨.integer, 8⟩, notNull := false, autoInc := false }], pk := [0], idx := [], check := none }

def wProg : List Op :=
  [.begin, .stmt (.ins .insert [0] [[.int 1]]), .savepoint "s", .stmt (.ins .insert [0] [[.int 2]]),
   .rollbackTo "s", .commit]

/-- **Finding K1.** `BEGIN; INSERT 1; SAVEPOINT s; INSERT 2; ROLLBACK TO SAVEPOINT s; COMMIT`
commits row 2 (the code restores the counters only) while the reference commits row 1 alone; the
committed transaction reports ONE affected row. -/
theorem savepoint_keeps_writes :
    (run wSchema {} wProg).1.committed.rows = [[.int 1], [.int 2]] ∧
    (run wSchema {} wProg).2 = [.ok 0, .ok 1, .ok 1, .ok 2, .ok 1, .ok 1] ∧
    (Spec.run wSchema {} wProg).1.committed.rows = [[.int 1]] := by
  decide

/-- **Finding.** A second ROLLBACK TO the same savepoint fails (the first one deleted it) and cancels
the transaction; the reference keeps the savepoint. -/
theorem second_rollback_to_fails :
    (run wSchema {} [.begin, .savepoint "s", .rollbackTo "s", .rollbackTo "s"]).2 =
      [.ok 0, .ok 0, .ok 0, .error .noSavepoint] ∧
    (Spec.run wSchema {} [.begin, .savepoint "s", .rollbackTo "s", .rollbackTo "s"]).2 =
      [.ok 0, .ok 0, .ok 0, .ok 0] := by
  decide

-- ---------------------------------------------------------------- non-vacuity

/-- `BEGIN; INSERT 1; COMMIT` commits the row, reports one affected row and closes the transaction. -/
example :
    (run wSchema {} [.begin, .stmt (.ins .insert [0] [[.int 1]]), .commit]).1.committed.rows = [[.int 1]] ∧
    (run wSchema {} [.begin, .stmt (.ins .insert [0] [[.int 1]]), .commit]).2 = [.ok 0, .ok 1, .ok 1] ∧
    (run wSchema {} [.begin, .stmt (.ins .insert [0] [[.int 1]]), .commit]).1.tx.isNone = true := by
  decide

/-- `commit_all_or_nothing` is not vacuous: a COMMIT-free program with a FAILING statement (duplicate
key: the error cancels the transaction) on top of a committed row leaves the committed rows unchanged,
and the hypothesis of the theorem holds of that program. -/
example :
    (∀ o, o ∈ [Op.begin, .stmt (.ins .insert [0] [[.int 2]]), .stmt (.ins .insert [0] [[.int 1]])] →
      o.isCommit = false) ∧
    (run wSchema (run wSchema {} [.begin, .stmt (.ins .insert [0] [[.int 1]]), .commit]).1
      [.begin, .stmt (.ins .insert [0] [[.int 2]]), .stmt (.ins .insert [0] [[.int 1]])]).2 =
        [.ok 0, .ok 1, .error .dupKey] ∧
    (run wSchema (run wSchema {} [.begin, .stmt (.ins .insert [0] [[.int 1]]), .commit]).1
      [.begin, .stmt (.ins .insert [0] [[.int 2]]), .stmt (.ins .insert [0] [[.int 1]])]).1.committed.rows =
        [[.int 1]] ∧
    (run wSchema (run wSchema {} [.begin, .stmt (.ins .insert [0] [[.int 1]]), .commit]).1
      [.begin, .stmt (.ins .insert [0] [[.int 2]]), .stmt (.ins .insert [0] [[.int 1]])]).1.tx.isNone = true := by
  refine ⟨?_, by decide, by decide, by decide⟩
  intro o ho
  simp only [List.mem_cons, List.not_mem_nil, or_false] at ho
  rcases ho with rfl | rfl | rfl <;> rfl

/-- the whole-program statement including COMMITs: the failing transaction of
`BEGIN; INSERT 1; COMMIT; BEGIN; INSERT 2; INSERT 1 (fails); COMMIT (no transaction)` leaves no trace. -/
example :
    (run wSchema {} [.begin, .stmt (.ins .insert [0] [[.int 1]]), .commit,
      .begin, .stmt (.ins .insert [0] [[.int 2]]), .stmt (.ins .insert [0] [[.int 1]]), .commit]).2 =
        [.ok 0, .ok 1, .ok 1, .ok 0, .ok 1, .error .dupKey, .error .noTx] ∧
    (run wSchema {} [.begin, .stmt (.ins .insert [0] [[.int 1]]), .commit,
      .begin, .stmt (.ins .insert [0] [[.int 2]]), .stmt (.ins .insert [0] [[.int 1]]), .commit]).1.committed.rows =
        [[.int 1]] := by
  decide

/-- the hypotheses of `commit_publishes_pending`, `own_writes_visible`, `counts_match_applied` are jointly
satisfiable: after BEGIN there is an open transaction in which `INSERT 1` succeeds; the session then sees
the row, the outside does not. -/
example :
    ∃ (t : OpenTx) (db' : DB),
      (step wSchema {} .begin).1.tx = some t ∧
      exec wSchema t.db (.ins .insert [0] [[.int 1]]) = .ok db' ∧
      db'.rows = [[.int 1]] ∧ db'.updated = 1 ∧
      (step wSchema (step wSchema {} .begin).1 (.stmt (.ins .insert [0] [[.int 1]]))).1.ownView = [[.int 1]] ∧
      (step wSchema (step wSchema {} .begin).1 (.stmt (.ins .insert [0] [[.int 1]]))).1.visible = [] := by
  have ht : ((step wSchema {} .begin).1.tx).isSome = true := by decide
  have he : ∀ t, (step wSchema {} .begin).1.tx = some t →
      (exec wSchema t.db (.ins .insert [0] [[.int 1]])).toOption.isSome = true := by
    intro t h
    have : (((step wSchema {} .begin).1.tx).bind
        (fun t => (exec wSchema t.db (.ins .insert [0] [[.int 1]])).toOption)).isSome = true := by decide
    rw [h] at this
    exact this
  cases h : (step wSchema {} .begin).1.tx with
  | none => rw [h] at ht; cases ht
  | some t =>
    have he' := he t h
    cases hx : exec wSchema t.db (.ins .insert [0] [[.int 1]]) with
    | error e => rw [hx] at he'; cases he'
    | ok db' =>
      have hv := own_writes_visible wSchema (step wSchema {} .begin).1 t _ db' h hx
      refine ⟨t, db', rfl, hx, ?_, ?_, by decide, by decide⟩
      · rw [← hv.1]; decide
      · have hc := (counts_match_applied wSchema (step wSchema {} .begin).1 t _ db' h hx).1
        have : (step wSchema (step wSchema {} .begin).1 (.stmt (.ins .insert [0] [[.int 1]]))).2 = .ok 1 := by
          decide
        rw [this] at hc
        exact (Except.ok.inj hc).symm

/-- `rollback_no_trace`: ROLLBACK after a write leaves the committed state empty and closes the
transaction; `tx_refines_spec_partial`: a program with SAVEPOINT (but no ROLLBACK TO / RELEASE)
satisfies the hypothesis. -/
example :
    (run wSchema {} [.begin, .stmt (.ins .insert [0] [[.int 1]]), .rollback]).1.committed.rows = [] ∧
    (run wSchema {} [.begin, .stmt (.ins .insert [0] [[.int 1]]), .rollback]).1.tx.isNone = true ∧
    (run wSchema {} [.begin, .stmt (.ins .insert [0] [[.int 1]]), .rollback]).2 = [.ok 0, .ok 1, .ok 0] ∧
    (∀ o, o ∈ [Op.begin, .savepoint "s", .stmt (.ins .insert [0] [[.int 1]]), .commit] →
      (match o with | .rollbackTo _ | .release _ => false | _ => true) = true) ∧
    (Spec.run wSchema {} [.begin, .savepoint "s", .stmt (.ins .insert [0] [[.int 1]]), .commit]).1.committed.rows =
      [[.int 1]] := by
  refine ⟨by decide, by decide, by decide, ?_, by decide⟩
  intro o ho
  simp only [List.mem_cons, List.not_mem_nil, or_false] at ho
  rcases ho with rfl | rfl | rfl | rfl <;> rfl

-- ================================================================ catalog cache (DDL visibility)

section CatalogCache
open ImmuModel.Sql.CatCache ImmuModel.Sql.CatCache.MainAux

/-- **The model mirrors the code fragments it was written against** (regenerated from the source tree by
`extract/c13.go` at every run; an edit of `invalidateCatalogCache`, `tryPopulateCatalogCache`, the cache step
of `SQLTx.Commit` or the cache handling of `Engine.NewTx` breaks this theorem): invalidate = clear + version
bump, unconditionally; populate = three guards (nil, warm cache, version moved) then store; Commit = store
commit, `ErrNoEntriesProvided` tolerated, then invalidate iff the transaction mutated the catalog; NewTx reads
the (catalog, version) pair, shares / clones / loads, and a read-only transaction fills an empty cache. -/
theorem catalog_cache_facts_match_code :
    Gen.C13.invalidateBody = ["e.cachedCatalog = nil", "e.cachedCatalogVersion.Add(1)"] ∧
    Gen.C13.tryPopulateBody =
      ["if catalog == nil { return }", "if e.cachedCatalog != nil { return }",
       "if e.cachedCatalogVersion.Load() != openVersion { return }", "e.cachedCatalog = catalog"] ∧
    Gen.C13.commitCacheStep =
      ["sqlTx.txHeader, err = sqlTx.tx.AsyncCommit(ctx)",
       "if err != nil && !errors.Is(err, store.ErrNoEntriesProvided) { return err }",
       "if sqlTx.mutatedCatalog { sqlTx.engine.invalidateCatalogCache() } else { sqlTx.engine.tryPopulateCatalogCache(sqlTx.catalog, sqlTx.openCatalogVersion) }"] ∧
    Gen.C13.newTxCacheRead =
      ["cached := e.cachedCatalog", "openVersion := e.cachedCatalogVersion.Load()",
       "if cached != nil && opts.ReadOnly { share }", "if cached != nil { clone } else { load }"] ∧
    Gen.C13.newTxReadOnlyFill = ["if e.cachedCatalog == nil { e.cachedCatalog = catalog }"] ∧
    codeCfg = { bumpAlways := true, checkVersion := true, invalidateOnDDL := true } :=
  ⟨rfl, rfl, rfl, rfl, rfl, rfl⟩

/-- **Cache coherence along every schedule**: whatever the sessions do (any number of sessions, any
interleaving of BEGIN read-only / read-write, DDL, DML, COMMIT incl. conflicting and EMPTY ones, ROLLBACK,
engine re-open), a cached catalog is the committed one, and every open transaction that could still publish
its catalog holds the committed one. -/
theorem cache_coherent (ops : List CatCache.Op) : Inv (CatCache.run codeCfg {} ops).1 :=
  run_inv ops {} inv_init

/-- **A new transaction sees every committed DDL**: after any schedule, the catalog a transaction opened
now works with is the committed generation (cache hit or miss, read-only or read-write). -/
theorem new_tx_sees_committed_catalog (ops : List CatCache.Op) (sid : Nat) (ro : Bool)
    (hfree : findTx sid (CatCache.run codeCfg {} ops).1.txs = none) :
    ∃ hit, (CatCache.step codeCfg (CatCache.run codeCfg {} ops).1 (.newTx sid ro)).2 =
      .opened (CatCache.run codeCfg {} ops).1.committed hit := by
  have hi := cache_coherent ops
  generalize (CatCache.run codeCfg {} ops).1 = e at *
  simp only [CatCache.step, hfree]
  cases hc : e.cache with
  | none => exact ⟨false, by simp [openTx, hc]⟩
  | some c =>
    have := hi.1 c hc
    subst this
    exact ⟨true, by simp [openTx, hc]⟩

/-- **The COMMIT of a transaction that executed no DDL changes nothing others see**: the committed generation
is unchanged, and what a new transaction would see is the same before and after — in particular a DDL
committed earlier by another session is not undone by an older, empty transaction's COMMIT. -/
theorem commit_without_ddl_keeps_schema (ops : List CatCache.Op) (sid : Nat) (t : Tx)
    (ht : findTx sid (CatCache.run codeCfg {} ops).1.txs = some t) (hm : t.mutated = false) :
    (CatCache.step codeCfg (CatCache.run codeCfg {} ops).1 (.commit sid)).1.committed =
      (CatCache.run codeCfg {} ops).1.committed ∧
    (CatCache.step codeCfg (CatCache.run codeCfg {} ops).1 (.commit sid)).1.fresh =
      (CatCache.run codeCfg {} ops).1.fresh := by
  have hi := cache_coherent ops
  have hi' : Inv (CatCache.step codeCfg (CatCache.run codeCfg {} ops).1 (.commit sid)).1 := step_inv _ _ hi
  generalize (CatCache.run codeCfg {} ops).1 = e at *
  have hc : (CatCache.step codeCfg e (.commit sid)).1.committed = e.committed := by
    simp only [CatCache.step, ht, hm]
    split
    · rfl
    · split
      · rfl
      · simp only [Bool.false_eq_true, if_false]
        unfold tryPopulate
        split
        · rfl
        · split <;> rfl
  exact ⟨hc, by rw [fresh_of_inv _ hi', fresh_of_inv _ hi, hc]⟩

/-- committed DDL is never undone: the committed generation only grows (any configuration) -/
theorem committed_ddl_never_undone (cfg : Cfg) (e : Eng) (ops : List CatCache.Op) :
    e.committed ≤ (CatCache.run cfg e ops).1.committed :=
  run_committed_mono cfg ops e

/-- **The version bump must be unconditional.** With `invalidateCatalogCache` skipping the bump when the cache
is already empty, the schedule "S1 BEGIN; S0 BEGIN; S0 DDL; S0 COMMIT; S1 COMMIT (empty)" on a cold cache ends
with generation 0 cached while generation 1 is committed: the next transaction does not see the DDL. -/
theorem coherence_needs_unconditional_bump :
    let e := (CatCache.run { codeCfg with bumpAlways := false } {}
      [.newTx 1 false, .newTx 0 false, .ddl 0, .commit 0, .commit 1]).1
    e.committed = 1 ∧ e.cache = some 0 ∧ e.fresh = 0 := by
  decide

/-- the same schedule on the code as it is: the empty COMMIT publishes nothing -/
theorem empty_commit_after_ddl_publishes_nothing :
    let e := (CatCache.run codeCfg {} [.newTx 1 false, .newTx 0 false, .ddl 0, .commit 0, .commit 1]).1
    e.committed = 1 ∧ e.cache = none ∧ e.fresh = 1 := by
  decide

/-- **The version check of `tryPopulateCatalogCache` is necessary** (same schedule). -/
theorem coherence_needs_version_check :
    let e := (CatCache.run { codeCfg with checkVersion := false } {}
      [.newTx 1 false, .newTx 0 false, .ddl 0, .commit 0, .commit 1]).1
    e.committed = 1 ∧ e.cache = some 0 := by
  decide

/-- **Invalidation on a DDL commit is necessary**: a warm cache would survive the DDL. -/
theorem coherence_needs_invalidate_on_ddl :
    let e := (CatCache.run { codeCfg with invalidateOnDDL := false } {}
      [.newTx 2 true, .cancel 2, .newTx 0 false, .ddl 0, .commit 0]).1
    e.committed = 1 ∧ e.cache = some 0 := by
  decide

/-- **Finding (race in the code as it is).** `Engine.NewTx` fills the cache for a read-only transaction in a
SECOND critical section (`if e.cachedCatalog == nil { e.cachedCatalog = catalog }`) without comparing
`cachedCatalogVersion` with the value read in the first one.  If another goroutine commits DDL between the two
(after the read-only transaction loaded generation 0 from its snapshot), the stale generation 0 is cached while
generation 1 is committed, and stays cached until the next DDL commit.  `cache_coherent` is about schedules in
which `NewTx` is one step (statement-level interleavings, what the harness drives). -/
theorem ro_fill_not_atomic_stale :
    let e0 : Eng := {}
    let (t, hit) := openTx e0 true
    let e1 := (CatCache.run codeCfg e0 [.newTx 0 false, .ddl 0, .commit 0]).1
    let e2 := populateRO e1 t hit
    e2.committed = 1 ∧ e2.cache = some 0 ∧ e2.fresh = 0 := by
  decide

/-- non-vacuity of `new_tx_sees_committed_catalog` / `commit_without_ddl_keeps_schema`: after the schedule of
the seeded change (cold cache, S1 BEGIN, S0 commits DDL, S1 commits empty, an autocommit reader warms the cache)
session 3 is free, a new transaction sees generation 1 through a cache HIT, and S1's transaction was open and
non-mutated when it committed. -/
example :
    findTx 3 (CatCache.run codeCfg {} [.newTx 1 false, .newTx 0 false, .ddl 0, .commit 0, .commit 1, .newTx 2 true, .cancel 2]).1.txs = none ∧
    (CatCache.step codeCfg (CatCache.run codeCfg {} [.newTx 1 false, .newTx 0 false, .ddl 0, .commit 0, .commit 1, .newTx 2 true, .cancel 2]).1
      (.newTx 3 false)).2 = .opened 1 true ∧
    (findTx 1 (CatCache.run codeCfg {} [.newTx 1 false, .newTx 0 false, .ddl 0, .commit 0]).1.txs).map (·.mutated) = some false ∧
    (CatCache.run codeCfg {} [.newTx 1 false, .dml 1, .newTx 0 false, .ddl 0, .commit 0, .commit 1]).2 =
      [.opened 0 false, .ok, .opened 0 false, .ok, .ok, .conflict] := by
  decide

end CatalogCache

-- ================================================================ catalog clone (uncommitted DDL stays private)

section CatalogClone
open ImmuModel.Sql.CatClone ImmuModel.Sql.CatClone.MainAux

/-- **The clone model mirrors the code it was written against** (regenerated from `embedded/sql/catalog.go` by
`extract/c13.go` at every run): the fields of `Table` / `Index` with their kinds, how the literals `&Table{…}` /
`&Index{…}` of `cloneTable` initialise each field (`make` = a container of its own, `source.f` = taken from the
source), the loops that fill the rebuilt containers (columns are copied by value: `nc := *c … &nc`; index objects are
new: `ni := &Index{…}`), and `Catalog.Clone`.  A new map / slice field of `Table`, a field that is no longer rebuilt, a
loop that stops copying: this theorem (or the next one) no longer holds. -/
theorem clone_facts_match_code :
    Gen.C13.tableFields = ["catalog:ptr", "id:value", "name:value", "cols:slice", "colsByID:map", "colsByName:map", "indexes:slice", "indexesByName:map", "indexesByColID:map", "checkConstraints:map", "primaryIndex:ptr", "autoIncrementPK:value", "maxPK:value", "maxColID:value", "maxIndexID:value", "systemScan:func"] ∧
    Gen.C13.indexFields = ["table:ptr", "id:value", "unique:value", "cols:slice", "colsByID:map", "predicate:value"] ∧
    Gen.C13.columnFields = ["table:ptr", "id:value", "colName:value", "colType:value", "maxLen:value", "autoIncrement:value", "notNull:value", "defaultValue:value"] ∧
    Gen.C13.cloneTableInit = ["id:source.id", "catalog:var.newCatalog", "name:source.name", "autoIncrementPK:source.autoIncrementPK", "maxPK:source.maxPK", "maxColID:source.maxColID", "maxIndexID:source.maxIndexID", "cols:make", "colsByID:make", "colsByName:make", "indexes:make", "indexesByName:make", "indexesByColID:make", "checkConstraints:make"] ∧
    Gen.C13.cloneIndexInit = ["id:source.id", "table:var.nt", "unique:source.unique", "predicate:source.predicate", "cols:make", "colsByID:make"] ∧
    Gen.C13.cloneTableLoops = ["for name, cc := range t.checkConstraints { nt.checkConstraints[name] = cc }", "for _, c := range t.cols { nc := *c nc.table = nt nt.cols = append(nt.cols, &nc) nt.colsByID[nc.id] = &nc nt.colsByName[nc.colName] = &nc }", "for _, idx := range t.indexes { ni := &Index{ id: idx.id, table: nt, unique: idx.unique, predicate: idx.predicate, cols: make([]*Column, len(idx.cols)), colsByID: make(map[uint32]*Column, len(idx.colsByID)), } for i, c := range idx.cols { ni.cols[i] = nt.colsByID[c.id] } for id := range idx.colsByID { ni.colsByID[id] = nt.colsByID[id] } nt.indexes = append(nt.indexes, ni) nt.indexesByName[ni.Name()] = ni if idx == t.primaryIndex { nt.primaryIndex = ni } }", "for _, ni := range nt.indexes { for _, c := range ni.cols { nt.indexesByColID[c.id] = append(nt.indexesByColID[c.id], ni) } }"] ∧
    Gen.C13.catalogCloneBody = ["cp := newCatalog(catlg.enginePrefix)", "cp.maxTableID = catlg.maxTableID", "if len(catlg.tables) > 0 { cp.tables = make([]*Table, 0, len(catlg.tables)) }", "for _, t := range catlg.tables { nt := cloneTable(t, cp) cp.tables = append(cp.tables, nt) cp.tablesByID[nt.id] = nt cp.tablesByName[nt.name] = nt }", "return cp"] :=
  ⟨rfl, rfl, rfl, rfl, rfl, rfl, rfl⟩

/-- **`cloneTable` gives the clone a container of its own for EVERY map / slice field of `Table` (and of the `Index`
objects it builds)** — the list of fields and the way each is initialised are extracted from the source tree. -/
theorem clone_rebuilds_every_container :
    Gen.C13.tableContainerRebuilt.length = 7 ∧
    (∀ b, b ∈ flagsOf Gen.C13.tableContainerRebuilt → b = true) ∧
    (∀ b, b ∈ flagsOf Gen.C13.indexContainerRebuilt → b = true) := by
  decide

/-- **Uncommitted DDL leaves no trace in the cached catalog** (atomicity and isolation of DDL at the level of the
catalog VALUE): let a read-write transaction clone the cached catalog `c` (heap `h`, any number of tables, any contents)
and execute ANY sequence of in-place mutations of the containers of ITS catalog (`ms`: DROP CONSTRAINT, DROP COLUMN,
CREATE / DROP INDEX, RENAME, …).  Then (1) the transaction started from what the cache shows, (2) the cached catalog —
which every read-only transaction shares and every other read-write transaction clones WHILE the first one is open —
still shows what it showed, and (3) so does the clone a later transaction takes: after ROLLBACK / a failed statement /
a failed COMMIT / a closed session (none of which publishes a catalog, `Sql/CatalogCache.lean`) nothing is left. -/
theorem uncommitted_ddl_leaves_cached_catalog_untouched (h : Heap) (c : List CatClone.Table) (hwf : WF h c)
    (hshape : ∀ t, t ∈ c → t.length ≤ Gen.C13.tableContainerRebuilt.length) (ms : List Mut) :
    let flags := flagsOf Gen.C13.tableContainerRebuilt
    let tx := cloneCatalog flags h c
    let h' := applyMuts tx.2 tx.1 ms
    view tx.1 tx.2 = view h c ∧ view h' c = view h c ∧
    view (cloneCatalog flags h' c).1 (cloneCatalog flags h' c).2 = view h c := by
  intro flags tx h'
  have hall : ∀ b, b ∈ flags → b = true := clone_rebuilds_every_container.2.1
  have hshape' : ∀ t, t ∈ c → t.length ≤ flags.length := by
    intro t ht
    have := hshape t ht
    simpa [flags, flagsOf] using this
  have hiso := fresh_clone_isolated flags hall h c hwf hshape' ms
  refine ⟨cloneCatalog_view flags h c hwf, hiso.1, ?_⟩
  rw [cloneCatalog_view flags h' c hiso.2]
  exact hiso.1

/-- **One shared container is enough to break it** (the necessity of the fact above; the behaviour of seeded change
c13-b): the second container of the table is shared with the source (`checkConstraints: t.checkConstraints`); the
transaction empties it (`ALTER TABLE … DROP CONSTRAINT`) and is never committed — the cached catalog has lost the entry. -/
theorem shared_container_leaks_uncommitted_ddl :
    let h : Heap := { cells := [[1], [7]] }
    let c : List CatClone.Table := [[0, 1]]
    let tx := cloneCatalog [true, false] h c
    let h' := applyMuts tx.2 tx.1 [{ tbl := 0, fld := 1, v := [] }]
    view h c = [[[1], [7]]] ∧ view h' c = [[[1], []]] ∧
    view (cloneCatalog [true, false] h' c).1 (cloneCatalog [true, false] h' c).2 = [[[1], []]] := by
  decide

/-- non-vacuity of `uncommitted_ddl_leaves_cached_catalog_untouched`: a cached catalog with one table of seven
containers is well formed and has the shape of the code's `Table`; the same DROP CONSTRAINT through a clone that
rebuilds everything leaves the cached catalog alone. -/
example :
    let h : Heap := { cells := [[1], [2], [3], [4], [5], [6], [7]] }
    let c : List CatClone.Table := [[0, 1, 2, 3, 4, 5, 6]]
    WF h c ∧ (∀ t, t ∈ c → t.length ≤ Gen.C13.tableContainerRebuilt.length) ∧
    view (applyMuts (cloneCatalog (flagsOf Gen.C13.tableContainerRebuilt) h c).2
      (cloneCatalog (flagsOf Gen.C13.tableContainerRebuilt) h c).1 [{ tbl := 0, fld := 6, v := [] }]) c = view h c ∧
    view (applyMuts (cloneCatalog (flagsOf Gen.C13.tableContainerRebuilt) h c).2
      (cloneCatalog (flagsOf Gen.C13.tableContainerRebuilt) h c).1 [{ tbl := 0, fld := 6, v := [] }])
      (cloneCatalog (flagsOf Gen.C13.tableContainerRebuilt) h c).2 = [[[1], [2], [3], [4], [5], [6], []]] := by
  decide

end CatalogClone

end ImmuModel.Props.C13
