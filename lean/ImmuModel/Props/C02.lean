/-
C02 — Committed history is append-only and immutable.

ONLY property theorems and non-vacuity examples live here.  The model is
`ImmuModel/Store/Commit.lean` (the commit state machine of embedded/store/immustore.go at LOCK
granularity: one `step` = one critical section under `s.mutex` / `commitStateRWMutex`), the
invariants are in `Store/CommitInv.lean`, the proofs in `Store/CommitLog.lean`,
`Store/CommitBl.lean`, `Store/CommitWitness.lean`, `Store/CommitWrite.lean` (in-place tx-log write),
`Store/CommitReload.lean` (what `Open` reloads), `Store/CommitBlZero.lean` (the zero `BlRoot` of a tx
with `BlTxID = 0`).

`hs : Hs D` is an ARBITRARY hash (nothing is assumed about it), `z` the zero digest.

What "committed history" means in the model: `committedRecs s` = for every commit-log entry up to
`committedTxID`, the tx-log record it points to.  Ids are positions (tx `k` is entry `k-1`).
-/
import ImmuModel.Store.CommitLog
import ImmuModel.Store.CommitBl
import ImmuModel.Store.CommitWitness
import ImmuModel.Store.CommitReload
import ImmuModel.Store.CommitBlZero
import ImmuModel.Store.TruncateRun
import ImmuModel.Store.TruncateWalk
import ImmuModel.Store.Proofs.TruncateRunProofs

namespace ImmuModel.Props.C02
open ImmuModel ImmuModel.Tx ImmuModel.Merkle ImmuModel.Store ImmuModel.Store.Commit

variable {D : Type} [DecidableEq D]

/-! ### append-only, immutable -/

omit [DecidableEq D] in
/-- A fresh store satisfies the whole invariant. -/
theorem init_inv (hs : Hs D) (cfg : Cfg) (useExt : Bool) : Inv hs (init hs cfg useExt) :=
  ⟨init_invLog hs cfg useExt, init_invBl hs cfg useExt⟩

/-- **One step.** Whatever critical section runs next (own or replicated precommit, successful or
failing, sync, discard, allowance, close, open), the committed list of the new state has the old
committed list as a prefix: committed txs are never removed, re-ordered, re-assigned or altered
(their records are looked up in the NEW tx log through the NEW commit log). -/
theorem step_committed_prefix (hs : Hs D) (z : D) (s : St D) (op : Op D) (h : InvLog hs s) :
    committedRecs s <+: committedRecs (step hs z s op).1 :=
  step_committed_prefix' hs z s op h

/-- The extents/chain invariant is preserved by every step (including `Open`). -/
theorem step_preserves_invLog (hs : Hs D) (z : D) (s : St D) (op : Op D) (h : InvLog hs s) :
    InvLog hs (step hs z s op).1 :=
  step_invLog hs z s op h

/-- Every state reachable from a state satisfying it does. -/
theorem run_preserves_invLog (hs : Hs D) (z : D) (s : St D) (ops : List (Op D)) (h : InvLog hs s) :
    InvLog hs (run hs z s ops) := by
  induction ops generalizing s with
  | nil => exact h
  | cons op ops ih => exact ih _ (step_invLog hs z s op h)

/-- **Every reachable state** of every store configuration satisfies the extents/chain invariant. -/
theorem reachable_invLog (hs : Hs D) (z : D) (cfg : Cfg) (useExt : Bool) (ops : List (Op D)) :
    InvLog hs (run hs z (init hs cfg useExt) ops) :=
  run_preserves_invLog hs z _ ops (init_invLog hs cfg useExt)

/-- **Any op sequence.** The committed list only ever grows at the end, over any number of further
steps (unbounded; close/reopen cycles, discards, failing commits and replication included). -/
theorem run_committed_mono (hs : Hs D) (z : D) (s : St D) (ops : List (Op D)) (h : InvLog hs s) :
    committedRecs s <+: committedRecs (run hs z s ops) := by
  induction ops generalizing s with
  | nil => exact List.prefix_refl _
  | cons op ops ih =>
    exact List.IsPrefix.trans (step_committed_prefix' hs z s op h) (ih _ (step_invLog hs z s op h))

/-- The same from the fresh store: what is committed after `ops₁` is still there, unchanged and at
the same ids, after `ops₁ ++ ops₂`. -/
theorem reachable_committed_mono (hs : Hs D) (z : D) (cfg : Cfg) (useExt : Bool) (ops₁ ops₂ : List (Op D)) :
    committedRecs (run hs z (init hs cfg useExt) ops₁) <+:
      committedRecs (run hs z (init hs cfg useExt) (ops₁ ++ ops₂)) := by
  have hrun : ∀ (s : St D) (a b : List (Op D)), run hs z s (a ++ b) = run hs z (run hs z s a) b := by
    intro s a b
    induction a generalizing s with
    | nil => rfl
    | cons op a ih => exact ih _
  rw [hrun]
  exact run_committed_mono hs z _ ops₂ (reachable_invLog hs z cfg useExt ops₁)

omit [DecidableEq D] in
/-- **Shape of the committed history.** It is a list of real records (no dangling commit-log entry),
exactly `committedTxID` many; ids are dense `1..n`; every accumulated hash is the one computed
from the stored header; `PrevAlh` chains from `H []`; and **the reported state (`CommittedAlh`) is the
accumulated hash of the last committed tx**. -/
theorem committed_history_wellformed (hs : Hs D) (s : St D) (h : InvLog hs s) :
    ∃ recs : List (Rec D), committedRecs s = recs.map some ∧ recs.length = s.committed ∧
      (∀ k (hk : k < recs.length), (recs[k]).hdr.id = k + 1 ∧ alh hs (recs[k]).hdr = some (recs[k]).alh) ∧
      (∀ (_ : 0 < recs.length), (recs[0]).hdr.prevAlh = hs.H []) ∧
      (∀ k (hk : k + 1 < recs.length), (recs[k + 1]).hdr.prevAlh = (recs[k]'(by omega)).alh) ∧
      s.comAlh = (match recs.getLast? with | some r => r.alh | none => hs.H []) :=
  committed_chain hs s h

omit [DecidableEq D] in
/-- **Discarding never touches committed txs**: `DiscardPrecommittedTxsSince` (any argument, any
outcome) leaves the tx log, `precommittedTxLogSize`, the commit log, the commit frontier and the
reported state exactly as they were. -/
theorem discard_never_touches_committed (s : St D) (t : Nat) :
    (discard s t).1.log = s.log ∧ (discard s t).1.logEnd = s.logEnd ∧ (discard s t).1.clog = s.clog ∧
    (discard s t).1.committed = s.committed ∧ (discard s t).1.comAlh = s.comAlh :=
  discard_untouched s t

omit [DecidableEq D] in
/-- … hence the committed list is literally the same. -/
theorem discard_committed_eq (s : St D) (t : Nat) :
    committedRecs (discard s t).1 = committedRecs s := by
  obtain ⟨h1, _, h3, h4, _⟩ := discard_untouched s t
  unfold committedRecs
  rw [h1, h3, h4]

omit [DecidableEq D] in
/-- An additional `Sync()` is a no-op (the harness issues one after every step in synced mode to
make the asynchronous syncer's effect observable deterministically). -/
theorem sync_idempotent (hs : Hs D) (s : St D) (h : InvLog hs s) :
    (syncOp (syncOp s).1).1 = (syncOp s).1 :=
  syncOp_idem hs s h

/-! ### what `Open` reloads (pre-committed txs) -/

omit [DecidableEq D] in
/-- **Shape of the pre-committed part.** In every state satisfying the extents/chain invariant
(hence in every reachable state, `reachable_invLog`) the pre-committed txs are real records of the
tx log with the ids `committed+1, committed+2, …`; every accumulated hash is the one computed from
the stored header; the first one's `PrevAlh` is the reported committed state, every other one's
is the accumulated hash of its predecessor; `PrecommittedAlh` is the hash of the last of them. -/
theorem precommitted_history_wellformed (hs : Hs D) (s : St D) (h : InvLog hs s) :
    ∃ recs : List (Rec D), s.buf.map (fun e => s.log[e.off]?) = recs.map some ∧
      s.committed + recs.length = s.preID ∧
      (∀ k (hk : k < recs.length),
        (recs[k]).hdr.id = s.committed + k + 1 ∧ alh hs (recs[k]).hdr = some (recs[k]).alh) ∧
      (∀ (_ : 0 < recs.length), (recs[0]).hdr.prevAlh = s.comAlh) ∧
      (∀ k (hk : k + 1 < recs.length), (recs[k + 1]).hdr.prevAlh = (recs[k]'(by omega)).alh) ∧
      s.preAlh = (match recs.getLast? with | some r => r.alh | none => s.comAlh) :=
  precommitted_chain hs s h

/-- **Every tx reloaded by `Open` chains to its predecessor**: whatever lies in the tx log behind
the last committed record (records of discarded branches, overwritten in place or not), the txs
`Open` puts back into cLogBuf have dense ids and a `PrevAlh` chain starting at the last committed
tx — the statement the seeded change c02-a (`||` → `&&` in the reload loop) breaks. -/
theorem open_reloaded_txs_chain (hs : Hs D) (s : St D) (cfg : Cfg) (useExt : Bool) (h : InvLog hs s) :
    ∃ recs : List (Rec D),
      (openStore hs s cfg useExt).1.buf.map (fun e => (openStore hs s cfg useExt).1.log[e.off]?)
        = recs.map some ∧
      (openStore hs s cfg useExt).1.committed + recs.length = (openStore hs s cfg useExt).1.preID ∧
      (∀ k (hk : k < recs.length),
        (recs[k]).hdr.id = (openStore hs s cfg useExt).1.committed + k + 1 ∧
        alh hs (recs[k]).hdr = some (recs[k]).alh) ∧
      (∀ (_ : 0 < recs.length), (recs[0]).hdr.prevAlh = (openStore hs s cfg useExt).1.comAlh) ∧
      (∀ k (hk : k + 1 < recs.length), (recs[k + 1]).hdr.prevAlh = (recs[k]'(by omega)).alh) ∧
      (openStore hs s cfg useExt).1.preAlh =
        (match recs.getLast? with | some r => r.alh | none => (openStore hs s cfg useExt).1.comAlh) :=
  precommitted_chain hs _ (step_invLog hs (hs.H []) s (.open_ cfg useExt) h)

/-- **The reload loop takes exactly the longest chaining prefix** of the records `recs` lying behind
the last committed one: `n` of them are reloaded (ids `preID+1 …`, entries at consecutive
positions with the stored hashes); each has the next id AND its predecessor's accumulated hash as
`PrevAlh`; and record `n`, if there is one, fails the id test or the `PrevAlh` test. -/
theorem reload_takes_longest_chaining_prefix (s : St D) (recs : List (Rec D)) :
    ∃ n, n ≤ recs.length ∧ (scan s recs).preID = s.preID + n ∧
      (scan s recs).preAlh = prevOf s.preAlh recs n ∧
      (scan s recs).logEnd = s.logEnd + n ∧
      (∃ added : List (Ent D), (scan s recs).buf = s.buf ++ added ∧ added.length = n ∧
        ∀ k e, added[k]? = some e → ∃ r, recs[k]? = some r ∧ e.txID = s.preID + k + 1 ∧
          e.alh = r.alh ∧ e.off = s.logEnd + k) ∧
      (∀ k r, k < n → recs[k]? = some r →
        r.hdr.id = s.preID + k + 1 ∧ r.hdr.prevAlh = prevOf s.preAlh recs k) ∧
      (∀ r, recs[n]? = some r →
        ¬ (r.hdr.id = s.preID + n + 1 ∧ r.hdr.prevAlh = prevOf s.preAlh recs n)) :=
  scan_longest_chaining_prefix s recs

/-- A record failing EITHER test (wrong id, or a `PrevAlh` that is not the accumulated hash of the
last reloaded tx) ends the reload: it and everything behind it stay out of the history. -/
theorem reload_rejects_nonchaining_record (s : St D) (r : Rec D) (rest : List (Rec D))
    (h : r.hdr.id ≠ s.preID + 1 ∨ r.hdr.prevAlh ≠ s.preAlh) : scan s (r :: rest) = s := by
  unfold scan
  rw [if_neg]
  intro ⟨a, b⟩
  rcases h with h | h
  · exact h a
  · exact h b

/-- **The id test alone is not enough** (why the `PrevAlh` test of the reload loop is needed).
There are a hash, a configuration and an op sequence from the fresh store — 1A precommitted and
discarded; 1B, 2B precommitted; close; open; 1A discarded again; 1C, of the size of 1B,
precommitted in place of 1B and committed; close; open — after which the record lying right at
`precommittedTxLogSize` carries exactly the next id but does not chain to the last committed tx,
and `Open` has not reloaded it. -/
theorem stale_record_with_next_id_reachable :
    ∃ (hs : Hs Digest) (z : Digest) (cfg : Cfg) (ops : List (Op Digest)) (r : Rec Digest),
      (run hs z (init hs cfg true) ops).log[(run hs z (init hs cfg true) ops).logEnd]? = some r ∧
      r.hdr.id = (run hs z (init hs cfg true) ops).preID + 1 ∧
      r.hdr.prevAlh ≠ (run hs z (init hs cfg true) ops).preAlh ∧
      (run hs z (init hs cfg true) ops).preID = (run hs z (init hs cfg true) ops).committed ∧
      (run hs z (init hs cfg true) ops).committed = 1 :=
  ⟨Witness.toyHs, Witness.zeroD, Witness.cfgW, Stale.opsS, _, Stale.stale_rec_at_logEnd,
   Stale.stale_rec_facts.1, Stale.stale_rec_facts.2.1, Stale.stale_rec_facts.2.2.1,
   Stale.stale_rec_facts.2.2.2⟩

/-! ### binary linking -/

/-- **Replication.** A precommit with a supplied header (`ReplicateTx`), accepted or rejected at any
of its checks, preserves the whole invariant. -/
theorem replicated_precommit_preserves_inv (hs : Hs D) (z : D) (s : St D) (q : RepReq D) (h : Inv hs s) :
    Inv hs (precommitRep hs z s q).1 :=
  ⟨step_invLog hs z s (.rep q) h.1,
   step_invBl hs z s (.rep q) h.1 h.2 (by intro c e hne; cases hne)⟩

omit [DecidableEq D] in
/-- **`BlTxID = 0` goes with the zero `BlRoot` (own commits).** An own commit accepted while the
binary-linking tree is empty — tx 1, and the first tx precommitted after
`DiscardPrecommittedTxsSince(1)` emptied the store — writes, at `precommittedTxLogSize`, a record with
the acknowledged id and Alh, `BlTxID = 0` and `BlRoot = z` (the zero digest), whatever ran before.
(Before the repair of `performPrecommit` the stored `BlRoot` was what the pooled tx holder held: an
input of the model, finding `C02:history:bltxid0-nonzero-blroot`.) -/
theorem own_commit_empty_tree_zero_blroot (hs : Hs D) (z : D) (s : St D) (q : OwnReq D) (id : Nat) (a : D)
    (h : InvLog hs s) (h0 : s.aht.size = 0) (hok : (precommitOwn hs z s q).2 = Out.okTx id a) :
    ∃ r, (precommitOwn hs z s q).1.log[s.logEnd]? = some r ∧
      r.hdr.id = id ∧ r.alh = a ∧ r.hdr.blTxID = 0 ∧ r.hdr.blRoot = z :=
  precommitOwn_blTxID_zero z q id a h h0 hok

/-- **`BlTxID = 0` goes with the zero `BlRoot` (replicated commits).** An accepted `ReplicateTx` whose
header carries `BlTxID = 0` (checked against the zero `BlRoot`) stores the zero `BlRoot`: the stored
header is the one that was validated. -/
theorem replicated_bltxid_zero_stores_zero_blroot (hs : Hs D) (z : D) (s : St D) (q : RepReq D) (id : Nat) (a : D)
    (h : InvLog hs s) (h0 : q.hdr.blTxID = 0) (hok : (precommitRep hs z s q).2 = Out.okTx id a) :
    ∃ r, (precommitRep hs z s q).1.log[s.logEnd]? = some r ∧
      r.hdr.id = id ∧ r.alh = a ∧ r.hdr.blTxID = 0 ∧ r.hdr.blRoot = z ∧ r.hdr.blRoot = q.hdr.blRoot :=
  precommitRep_blTxID_zero z q id a h h0 hok

/-- **Every step except `Open` preserves the whole invariant** (chain + binary linking + tree).

Full statement (every step, `Open` included) is FALSE for the code as it is:
`open_breaks_binary_linking` below.  What is missing in the code: `Open` keeps the binary-linking
tree whenever its size matches the number of reloaded txs, although the tx-log scan may have
reloaded an older, discarded tx at an id whose leaf was since replaced. -/
theorem step_preserves_inv_partial (hs : Hs D) (z : D) (s : St D) (op : Op D) (h : Inv hs s)
    (hop : ∀ c e, op ≠ Op.open_ c e) : Inv hs (step hs z s op).1 :=
  ⟨step_invLog hs z s op h.1, step_invBl hs z s op h.1 h.2 hop⟩

/-- `Open` preserves the whole invariant when nothing is pending at `Close` (no precommitted tx,
no leftover commit-log entry, no discarded record after the last committed one): the situation of
every store that does not use the external commit allowance. -/
theorem open_preserves_inv_quiescent (hs : Hs D) (s : St D) (cfg : Cfg) (useExt : Bool)
    (h : Inv hs s) (hq : Quiescent s) : Inv hs (openStore hs s cfg useExt).1 :=
  ⟨step_invLog hs (hs.H []) s (.open_ cfg useExt) h.1, open_invBl_quiescent hs s cfg useExt h.1 h.2 hq⟩

/-- **Finding (negation of the full statement).** There are a hash, a configuration and an op
sequence from the fresh store — tx 1 committed; tx 2 precommitted, discarded and replaced by a
different tx 2; close; open; tx 2 allowed; tx 3 committed — after which three txs are committed and
the binary-linking invariant does NOT hold: the `BlRoot` of the committed tx 3 is not the reference
root over the accumulated hashes of the committed txs 1 and 2 (it covers the replaced tx). -/
theorem open_breaks_binary_linking :
    ∃ (hs : Hs Digest) (z : Digest) (cfg : Cfg) (ops : List (Op Digest)),
      (run hs z (init hs cfg true) ops).committed = 3 ∧ ¬ InvBl hs (run hs z (init hs cfg true) ops) :=
  ⟨Witness.toyHs, Witness.zeroD, Witness.cfgW, Witness.opsW, Witness.sF_committed.1, Witness.sF_not_invBl⟩

omit [DecidableEq D] in
/-- **Tie to C01.** Under the invariant the live (committed, then precommitted) records form a
well-formed history in the sense of `Store/History.lean`: ids dense, `PrevAlh` chain,
`BlTxID < ID`, `BlRoot_k = mth (alhs.take BlTxID_k)` — the hypothesis of C01's completeness
theorems. -/
theorem inv_gives_hist (hs : Hs D) (s : St D) (h : Inv hs s) :
    Hist hs (liveHdrs s) (liveAlhs s) :=
  inv_hist hs s h.1 h.2

/-! ### concurrency at lock granularity -/

/-- What a committer does: prepare outside the lock (build the tx, write its values), run the
critical section, later observe the acknowledgement. -/
inductive Ev
  | prepare (i : Nat)
  | critical (i : Nat)
  | ack (i : Nat)

/-- ATOMICITY ASSUMPTION (what `s.mutex` provides): the critical section of committer `i` is one
atomic `step`; preparing and waiting for the acknowledgement do not write the commit state. -/
def evStep (hs : Hs D) (z : D) (ops : Nat → Op D) (s : St D) : Ev → St D
  | .prepare _ => s
  | .critical i => (step hs z s (ops i)).1
  | .ack _ => s

def runEv (hs : Hs D) (z : D) (ops : Nat → Op D) (s : St D) : List Ev → St D
  | [] => s
  | e :: es => runEv hs z ops (evStep hs z ops s e) es

/-- The order in which the critical sections ran. -/
def criticalOrder : List Ev → List Nat
  | [] => []
  | .critical i :: es => i :: criticalOrder es
  | _ :: es => criticalOrder es

/-- **Any interleaving equals the serial execution** of the committers' critical sections in the
order in which they ran — which is the order of the ids they were assigned.  In particular two
schedules with the same critical order end in the same state, and the committed list of an
interleaved run is the committed list of that serial run. -/
theorem interleave_eq_serial (hs : Hs D) (z : D) (ops : Nat → Op D) (s : St D) (sched : List Ev) :
    runEv hs z ops s sched = run hs z s ((criticalOrder sched).map ops) := by
  induction sched generalizing s with
  | nil => rfl
  | cons e es ih =>
    cases e with
    | prepare i => exact ih s
    | critical i => exact ih _
    | ack i => exact ih s

omit [DecidableEq D] in
/-- A committer whose critical section succeeds is assigned the next id, whatever ran before
(own commit: `id = inmemPrecommittedTxID + 1`). -/
theorem own_commit_assigns_next_id (hs : Hs D) (z : D) (s : St D) (q : OwnReq D) (id : Nat) (a : D)
    (h : (precommitOwn hs z s q).2 = Out.okTx id a) : id = s.preID + 1 := by
  have pp : ∀ (z : D) (tx : TxIn D) (ts bl : Nat), (performPrecommit hs z s tx ts bl).2 = Out.okTx id a →
      id = s.preID + 1 := by
    intro z tx ts bl h
    unfold performPrecommit at h
    simp only at h
    split at h
    · cases h
    · split at h
      · cases h
      · split at h
        · cases h
        · split at h
          · cases h
          · split at h
            · cases h
            · split at h
              · cases h
              · split at h
                · cases h
                · split at h
                  · injection h with h1 _
                    exact h1.symm
                  · split at h
                    · injection h with h1 _
                      exact h1.symm
                    · cases h
  unfold precommitOwn at h
  split at h
  · cases h
  · split at h
    · cases h
    · split at h
      · cases h
      · split at h
        · cases h
        · split at h
          · cases h
          · split at h
            · cases h
            · exact pp _ _ _ _ h

/-! ### values under maintenance: value-log truncation, index maintenance, restart

The theorems above are about the tx log / commit log (`Store/Commit.lean`, which has no value logs).  These are
about the VALUES: `Store/TruncateRun.lean` runs committers in two phases (`stage` = values appended to a value log,
no id yet; `commit k` = the k-th staged committer gets the next id — any order) interleaved with
`TruncateUptoTx(n)` (`Truncate.truncateUpto`, C14's statement-by-statement mirror), index maintenance and restarts.
No bound on the number of ops, committers in flight, value logs or chunk size. -/

/-- **The values of a committed tx survive every maintenance history.**  From ANY state in which tx `id` is committed
with entries `tx` and the value of its entry `e` is readable, after ANY sequence of further staged / committing
committers, truncations, index maintenance and restarts whose cut points are all `≤ id`: tx `id` still has exactly the
entries `tx` (same value locations, lengths) and the value of `e` is still readable.  (`Placed tx`: the entries were
written by one `appendValuesIntoAnyVLog` call — holds in every reachable state, `reachable_values_placed`.) -/
theorem committed_values_survive_maintenance (s : TruncateRun.St) (ops : List TruncateRun.Op) (id : Nat)
    (tx : Truncate.TxEnts) (e : Truncate.Ent) (h1 : 1 ≤ id) (htx : s.store.txs[id - 1]? = some tx)
    (hpl : Truncate.Placed tx) (he : e ∈ tx) (hr : s.store.readable e)
    (hc : ∀ n ∈ TruncateRun.cuts ops, n ≤ id) :
    (TruncateRun.run s ops).store.txs[id - 1]? = some tx ∧ (TruncateRun.run s ops).store.readable e :=
  TruncateRunAux.run_keeps ops s id tx e h1 htx hpl he hr hc

/-- In every state reachable from a fresh store, every committed tx and every staged committer satisfies `Placed`. -/
theorem reachable_values_placed (F io : Nat) (ops : List TruncateRun.Op) :
    (∀ tx ∈ (TruncateRun.run (TruncateRun.init F io) ops).store.txs, Truncate.Placed tx) ∧
    (∀ tx ∈ (TruncateRun.run (TruncateRun.init F io) ops).staged, Truncate.Placed tx) :=
  TruncateRunAux.run_allPlaced ops _ (TruncateRunAux.init_allPlaced F io)

/-- **What was readable when the commit was acknowledged stays readable** (the form the harness checks: record at
acknowledgement, re-read after every later op).  Any history `ops₁` from a fresh store after which tx `id` is
committed and the value of its entry `e` readable, any continuation `ops₂` that never cuts above `id`. -/
theorem acked_values_survive_maintenance (F io : Nat) (ops₁ ops₂ : List TruncateRun.Op) (id : Nat)
    (tx : Truncate.TxEnts) (e : Truncate.Ent) (h1 : 1 ≤ id)
    (htx : (TruncateRun.run (TruncateRun.init F io) ops₁).store.txs[id - 1]? = some tx) (he : e ∈ tx)
    (hr : (TruncateRun.run (TruncateRun.init F io) ops₁).store.readable e)
    (hc : ∀ n ∈ TruncateRun.cuts ops₂, n ≤ id) :
    (TruncateRun.run (TruncateRun.init F io) (ops₁ ++ ops₂)).store.txs[id - 1]? = some tx ∧
    (TruncateRun.run (TruncateRun.init F io) (ops₁ ++ ops₂)).store.readable e := by
  rw [TruncateRunAux.run_append]
  exact TruncateRunAux.run_keeps ops₂ _ id tx e h1 htx
    ((reachable_values_placed F io ops₁).1 tx (List.mem_of_getElem? htx)) he hr hc

/-- **No maintenance history removes or alters a tx-log entry**: the committed txs (with their value locations)
before any op sequence are a prefix of those after it. -/
theorem maintenance_keeps_tx_log (s : TruncateRun.St) (ops : List TruncateRun.Op) :
    s.store.txs <+: (TruncateRun.run s ops).store.txs :=
  TruncateRunAux.run_txs_prefix ops s

/-- The hypothesis "readable when acknowledged" cannot be dropped on the code as it is (**known finding**, C14's K6 in
this op language): a committer that has staged its values is invisible to `TruncateUptoTx`.  Chunk size 64: tx 1; A
stages 50 bytes at 50; B stages at 100 and commits as tx 2; `TruncateUptoTx(2)` removes chunk 0; A commits as tx 3 —
every cut is `≤ 3`, and its value is unreadable from the moment it is committed. -/
theorem inflight_values_not_covered :
    let ops : List TruncateRun.Op :=
      [.stage 1 [50], .commit 0, .stage 1 [50], .stage 1 [50], .commit 1, .truncate 2, .commit 0]
    let s := TruncateRun.run (TruncateRun.init 64 1) ops
    s.store.txs[3 - 1]? = some [⟨1, 50, 50⟩] ∧ (∀ n ∈ TruncateRun.cuts ops, n ≤ 3) ∧
    ¬ s.store.readable ⟨1, 50, 50⟩ := by
  decide

/-- **The forward walk must reach the LAST committed tx.**  `truncateUpto` (the code) walks `n … last`; the same
truncation with the walk ending at `last - 1` (`truncateUptoWalkingTo`, not the code) loses a committed value: tx 1 has
64 bytes at offset 64, tx 2 — a committer that staged first and got its id last — 64 bytes at offset 0; truncating up
to 1 answers ok and deletes chunk 0, the value of tx `2 ≥ 1`.  (Harness side: such a store is a correspondence
mismatch on the surviving chunk files and an oracle failure on the re-read value.) -/
theorem walk_must_reach_last_committed :
    let s := Truncate.lateCommitterStore 0
    s.last = 2 ∧ s.readable ⟨1, 0, 64⟩ ∧
    (Truncate.truncateUptoWalkingTo s 1 (s.last - 1)).out = .ok ∧
    ¬ (Truncate.truncateUptoWalkingTo s 1 (s.last - 1)).store.readable ⟨1, 0, 64⟩ ∧
    (Truncate.truncateUpto s 1).store.readable ⟨1, 0, 64⟩ := by
  decide

/-! ### non-vacuity -/

/-- The hypotheses of `acked_values_survive_maintenance` are satisfiable by a history with a value-log / id inversion
and a truncation that really deletes: chunk size 64; tx 1; A stages at 64, B at 128; B commits as tx 2, A as tx 3; tx 4;
`TruncateUptoTx(2)` removes chunk 0 and keeps chunk 1 for tx 3. -/
example :
    let ops : List TruncateRun.Op :=
      [.stage 1 [64], .commit 0, .stage 1 [64], .stage 1 [64], .commit 1, .commit 0, .stage 1 [10], .commit 0,
       .indexMaint, .truncate 2, .reopen]
    let s := TruncateRun.run (TruncateRun.init 64 1) ops
    (s.store.vlogs 1).present = [1, 2, 3] ∧ s.store.txs[3 - 1]? = some [⟨1, 64, 64⟩] ∧
    s.store.readable ⟨1, 64, 64⟩ := by
  decide

/-- The invariant is satisfiable … -/
example (hs : Hs D) (cfg : Cfg) : Inv hs (init hs cfg false) := init_inv hs cfg false

/-- … by states with a non-empty committed history (the witness run commits three txs and satisfies
the extents/chain invariant), so the theorems above are not about the empty store only. -/
example : InvLog Witness.toyHs Witness.sF ∧ Witness.sF.committed = 3 :=
  ⟨reachable_invLog Witness.toyHs Witness.zeroD Witness.cfgW true Witness.opsW, Witness.sF_committed.1⟩

/-- A quiescent closed state exists (fresh store closed): the hypothesis of
`open_preserves_inv_quiescent` is satisfiable. -/
example (hs : Hs D) (cfg : Cfg) : Quiescent (closeStore (init hs cfg false)).1 := by
  refine ⟨rfl, rfl, rfl⟩

end ImmuModel.Props.C02
