/-
C17 — Appendable files behave as a persistent byte log.

ONLY property theorems and non-vacuity examples live here; helper lemmas are in ImmuModel/Log/*Lemmas.lean.

Models (mirrors of the code that exists, uncompressed format):
  `SingleApp` = singleapp.AppendableFile (Log/SingleApp.lean), `MultiApp` = multiapp.MultiFileAppendable with its
  SIEVE handle cache (Log/MultiApp.lean).  Spec: `ByteLog` (Log/ByteLog.lean), one growable byte array.
Refinement: `SingleApp.abs`, `MultiApp.abs : Impl → ByteLog`.

Two parts of the intended property are FALSE of the current code and are proved false here by concrete witnesses
(`readAt_stale_witness`, `reopen_stale_tail_witness`, `multi_*_witness`); the theorems named `…_partial` carry
the exact extra hypothesis under which the statement holds; the full statement is kept in a comment next to them.
-/
import ImmuModel.Log.ByteLog
import ImmuModel.Log.SingleApp
import ImmuModel.Log.SingleTrace
import ImmuModel.Log.SingleAppLemmas
import ImmuModel.Log.SingleTraceLemmas
import ImmuModel.Log.MultiApp
import ImmuModel.Log.MultiTrace
import ImmuModel.Log.MultiBase
import ImmuModel.Log.MultiReadLemmas
import ImmuModel.Log.MultiWriteLemmas
import ImmuModel.Log.MultiTraceLemmas
import ImmuModel.Log.Faults
import ImmuModel.Log.FaultLemmas

namespace ImmuModel.Props.C17
open ImmuModel ImmuModel.Log

/-! ## singleapp -/
section Single
open SingleApp

/-- Every state reachable from a freshly created (or opened) file by any sequence of interface calls —
including failing fsyncs, rejected calls, rewinds and close/reopen with other valid options — satisfies the
invariant relating buffer and file. -/
theorem single_reachable_inv (o : SOpts) (ho : SOpts.Valid o) (prealloc : Nat) (md : Bytes) (ops : List SOp)
    (hv : ValidOps ops) : SingleApp.Inv (run (create o prealloc md) ops) :=
  (run_wf ops _ ⟨openFile_inv _ _ _, ho⟩ hv).1

/-- **Append refines**: the returned offset is the previous size; the content grows by exactly the first `n`
bytes of `bs`, where `n` is the count returned; without an error `n = len(bs)`; the only possible errors are
ErrBufferFull (retryable sync without auto-sync) and a failed fsync; with a working fsync and auto-sync or
non-retryable mode there is no error. -/
theorem append_refines {s : SingleApp} (h : SingleApp.Inv s) (hcap : 0 < s.cap) (hc : s.closed = false)
    (hro : s.readOnly = false) (bs : Bytes) (hne : bs ≠ []) (syncOk : Bool) :
    (s.append bs syncOk).2.1 = (abs s).size ∧
    (abs (s.append bs syncOk).1).bytes = (abs s).bytes ++ bs.take (s.append bs syncOk).2.2.1 ∧
    ((s.append bs syncOk).2.2.2 = none → (s.append bs syncOk).2.2.1 = bs.length ∧
        abs (s.append bs syncOk).1 = ((abs s).append bs).1) ∧
    ((s.append bs syncOk).2.2.2 = none ∨ (s.append bs syncOk).2.2.2 = some .bufferFull ∨
        (s.append bs syncOk).2.2.2 = some .syncFailed) ∧
    (syncOk = true → (s.autoSync = true ∨ s.retryableSync = false) → (s.append bs syncOk).2.2.2 = none) ∧
    SingleApp.Inv (s.append bs syncOk).1 := by
  obtain ⟨ai, _, aoff, _, ab, anone, acls, aok, _⟩ := append_spec h hcap hc hro bs hne syncOk
  refine ⟨aoff, ab, ?_, acls, aok, ai⟩
  intro hn
  have hk := anone hn
  refine ⟨hk, ?_⟩
  rw [hk, List.take_length] at ab
  cases hx : abs (s.append bs syncOk).1
  rw [hx] at ab
  simp only at ab
  simp [ByteLog.append, ab]

/-- A rejected Append (closed, read-only, empty argument) changes nothing. -/
theorem append_rejected_unchanged (s : SingleApp) (bs : Bytes) (syncOk : Bool)
    (h : s.closed = true ∨ s.readOnly = true ∨ bs = []) :
    (s.append bs syncOk).1 = s ∧ (s.append bs syncOk).2.2.2 ≠ none :=
  append_rejects s bs syncOk h

/-- **ReadAt refines (partial)**: a read returns exactly the bytes of the byte log in `[off, off+n)` and the
EOF class of the spec — across the file/buffer boundary — PROVIDED the range does not straddle the flushed end of a
file that has rolled-back bytes behind it (`ReadSafe`: ends inside the flushed part, or starts in the buffer, or
the physical file ends at `fileOffset`).
Full statement (FALSE of the current code, see `readAt_stale_witness`):
  `Inv s → readAtCore s n off = specRead (abs s) off n`  for all `off n`. -/
theorem readAt_refines_partial {s : SingleApp} (h : SingleApp.Inv s) (hc : s.closed = false) (off n : Nat)
    (hs : ReadSafe s off n) :
    s.readAt (some n) (off : Int) = specRead (abs s) off n := by
  simp only [SingleApp.readAt, hc, Bool.false_eq_true, ↓reduceIte]
  exact readAtCore_spec h off n hs

/-- Negative offsets and `nil` buffers are rejected, a closed file answers ErrAlreadyClosed. -/
theorem readAt_guards (s : SingleApp) (n : Nat) (off : Int) :
    (s.closed = true → s.readAt (some n) off = ([], some .alreadyClosed)) ∧
    (s.closed = false → s.readAt none off = ([], some .illegalArguments)) ∧
    (s.closed = false → off < 0 → s.readAt (some n) off = ([], some .negativeOffset)) := by
  refine ⟨?_, ?_, ?_⟩
  · intro h; simp [SingleApp.readAt, h]
  · intro h; simp [SingleApp.readAt, h]
  · intro h ho; simp [SingleApp.readAt, h, readAtCore, ho]

/-- **SetOffset refines**: for `off ≤ size` the content is truncated to `off` (in memory or by moving the file
offset back); later appends therefore overwrite what followed. -/
theorem setOffset_refines {s : SingleApp} (h : SingleApp.Inv s) (hc : s.closed = false) (hro : s.readOnly = false)
    (off : Nat) (hle : off ≤ (abs s).size) :
    (s.setOffset (off : Int)).2 = none ∧ some (abs (s.setOffset (off : Int)).1) = (abs s).setOffset off ∧
    SingleApp.Inv (s.setOffset (off : Int)).1 := by
  obtain ⟨e, i, _, a, _⟩ := setOffset_spec h hc hro off hle
  refine ⟨e, ?_, i⟩
  simp [ByteLog.setOffset, hle, a]

/-- **In-memory rewind, exactly.** When the target lies in the part of the log that has not reached the file
(`fileOffset ≤ off < offset`), `SetOffset` only shortens the write buffer — and it keeps the `flushed` bytes that
retryable sync still holds at the front of the buffer (`Flush` without a successful `Sync`): the buffer becomes
`buf[: flushed + (off - fileOffset)]`, file, `fileOffset` and `flushed` are untouched, `Offset()` is `off` and the
next `Append` starts at `off`.  (Cutting the buffer to `off - fileOffset` instead — the same thing only while
`flushed = 0` — is the regression of seeded change c17-a; see `setOffset_flushedPrefix_witness`.) -/
theorem setOffset_inMemory_exact {s : SingleApp} (h : SingleApp.Inv s) (hc : s.closed = false)
    (hro : s.readOnly = false) (off : Nat) (hlo : s.fileOffset ≤ off) (hlt : off < s.offset) :
    (s.setOffset (off : Int)).2 = none ∧
    (s.setOffset (off : Int)).1 = { s with buf := s.buf.take (s.flushed + (off - s.fileOffset)) } ∧
    (s.setOffset (off : Int)).1.offset = off ∧
    (∀ bs : Bytes, bs ≠ [] → ((s.setOffset (off : Int)).1.append bs true).2.1 = off) := by
  have hfl := h.fl_le
  have hneg : ¬ ((off : Int) < 0) := by omega
  have hoff : s.offset = s.fileOffset + (s.buf.length - s.flushed) := rfl
  have h1 : ¬ (off > s.offset) := by omega
  have h2 : ¬ (off = s.offset) := by omega
  have h3 : off ≥ s.fileOffset := hlo
  have hst : (s.setOffset (off : Int)) =
      ({ s with buf := s.buf.take (s.buf.length - (s.offset - off)) }, none) := by
    simp only [setOffset, hc, hro, hneg, Bool.false_eq_true, ↓reduceIte, Int.toNat_natCast, h1, h2, h3]
  have hlen : s.buf.length - (s.offset - off) = s.flushed + (off - s.fileOffset) := by omega
  rw [hst, hlen]
  refine ⟨rfl, rfl, ?_, ?_⟩
  · simp only [offset, List.length_take]; omega
  · intro bs hne
    have : bs.isEmpty = false := by cases bs <;> simp_all
    simp only [append, hc, hro, this, Bool.false_eq_true, ↓reduceIte, offset, List.length_take]
    omega

theorem setOffset_rejects {s : SingleApp} (h : SingleApp.Inv s) (off : Nat) (hgt : (abs s).size < off) :
    (s.setOffset (off : Int)).1 = s ∧ (s.setOffset (off : Int)).2 ≠ none ∧ (abs s).setOffset off = none := by
  obtain ⟨a, b⟩ := setOffset_rejects_beyond h off hgt
  refine ⟨a, b, ?_⟩
  simp [ByteLog.setOffset]; omega

/-- **Flush / Sync leave the content unchanged** — also when fsync FAILS in retryable mode (the flushed bytes are
kept in the buffer and `fileOffset` is moved back: nothing is lost). -/
theorem flush_sync_abs_unchanged {s : SingleApp} (h : SingleApp.Inv s) (ok : Bool) :
    abs s.apiFlush.1 = abs s ∧ abs (s.apiSync ok).1 = abs s ∧ abs (s.sync ok).1 = abs s ∧ abs s.flush = abs s ∧
    SingleApp.Inv s.apiFlush.1 ∧ SingleApp.Inv (s.apiSync ok).1 :=
  ⟨(apiFlush_spec h).2.1, (apiSync_spec h ok).2.1, (sync_spec h ok).2.1, (flush_spec h).2.1,
   (apiFlush_spec h).1, (apiSync_spec h ok).1⟩

/-- SwitchToReadOnlyMode and Copy leave the content unchanged; Copy returns the PHYSICAL file. -/
theorem switchRO_copy_abs_unchanged {s : SingleApp} (h : SingleApp.Inv s) (ok : Bool) :
    abs (s.switchRO ok).1 = abs s ∧ abs s.copy.1 = abs s :=
  ⟨(switchRO_spec h ok).2.1, (copy_spec h).2.1⟩

/-- **DiscardUpto preserves** everything (singleapp: a bounds check only): every later read is unchanged. -/
theorem discardUpto_preserves (s : SingleApp) (off : Int) (n : Option Nat) (o : Int) :
    (s.discardUpto off).1 = s ∧ (s.discardUpto off).1.readAt n o = s.readAt n o := by
  rw [discardUpto_spec]; exact ⟨rfl, rfl⟩

/-- **Reopen refines (partial)**: after Close, re-Open (any valid options) finds the same bytes at the same
offsets, the same size and the same metadata — PROVIDED no rolled-back bytes lie behind the logical end of the
file (`NoStaleTail`: the physical file ends at `fileOffset`).
Full statement (FALSE of the current code, see `reopen_stale_tail_witness`):
  `Inv s → s.closed = false → abs ((s.close).1.reopen o) = abs s`. -/
theorem reopen_refines_partial {s : SingleApp} (h : SingleApp.Inv s) (hc : s.closed = false)
    (hn : NoStaleTail s) (o : SOpts) :
    (s.close).2 = none ∧ abs ((s.close).1.reopen o) = abs s ∧ ((s.close).1.reopen o).mdata = s.mdata ∧
    SingleApp.Inv ((s.close).1.reopen o) ∧ NoStaleTail ((s.close).1.reopen o) := by
  obtain ⟨_, ca, cn, cb⟩ := close_spec h
  refine ⟨(cb hc).1, ?_, ?_, openFile_inv _ _ _, openFile_noStale _ _ _⟩
  · rw [reopen_abs_of_clean _ o (cn hn) (cb hc).2, ca]
  · show (s.close).1.mdata = s.mdata
    unfold SingleApp.close
    simp only [hc, Bool.false_eq_true, ↓reduceIte]
    cases s.readOnly
    · exact (flush_sameCfg s).2.2.2.2.2
    · rfl

/-- **Refinement over all histories without a file rewind.** For every sequence of calls (append, setOffset
within the buffer, flush, sync, discardUpto, switchReadOnly, copy, reads, close+reopen with any valid options) in
which no SetOffset goes below the flushed part and no fsync fails, the content is the byte-log run of the same
calls, and afterwards EVERY read (any offset, any length, also past the end) answers like the byte log. -/
theorem history_refines (s : SingleApp) (h : SingleApp.Inv s) (hcap : s.readOnly = false → 0 < s.cap)
    (hc : s.closed = false) (hn : NoStaleTail s) (ops : List SOp) (hv : ValidOps ops) (hr : RewindFree s ops) :
    abs (run s ops) = specRun s (abs s) ops ∧
    ∀ (off n : Nat), (run s ops).readAt (some n) (off : Int) = specRead (abs (run s ops)) off n := by
  obtain ⟨ra, rn, rw, rc⟩ := run_refines ops s ⟨h, hcap⟩ hc hv hn hr
  refine ⟨ra, fun off n => ?_⟩
  exact readAt_refines_partial rw.1 rc off n (Or.inr (Or.inr rn))

/-- **Refinement over all histories with arbitrary rewinds** (and failing fsyncs), as long as the file is not
reopened: the CONTENT always is the byte-log run (reads are covered by `readAt_refines_partial`). -/
theorem history_refines_noReopen (s : SingleApp) (h : SingleApp.Inv s) (hcap : s.readOnly = false → 0 < s.cap)
    (ops : List SOp) (hno : ∀ op ∈ ops, ∀ o, op ≠ .closeReopen o) :
    abs (run s ops) = specRun s (abs s) ops ∧ SingleApp.Inv (run s ops) := by
  obtain ⟨a, w⟩ := run_abs_noReopen ops s ⟨h, hcap⟩ hno
  exact ⟨a, w.1⟩

/-! ### fault paths: failing fsync, failing write (reached on the real code by fault injection; seeded change c17-b) -/

/-- **A failed Sync refines the identity on the byte log.** On an open, writable handle `Sync()` with a failing
fsync returns the error and the content, `Offset()`, `Size()` and the offset returned by the next Append are what
they were; the invariant is preserved.  Retryable mode, statement by statement (`else` branch of `sync()`): the
buffer is kept whole, `wbufFlushedOffset = 0`, a seek is requested and `fileOffset` has gone back by the number of
buffered bytes that had reached the file — by the `wbufFlushedOffset` of BEFORE its reset — so that
`fileOffset + len(buffer) = Offset()`: the next flush rewrites the buffer exactly where it was written.
Non-retryable mode: the state is the one left by the flush (buffer freed), only the error is reported. -/
theorem syncFail_refines {s : SingleApp} (h : SingleApp.Inv s) (hcap : 0 < s.cap) (hc : s.closed = false)
    (hro : s.readOnly = false) :
    (s.apiSync false).2 = some .syncFailed ∧
    abs (s.apiSync false).1 = abs s ∧ SingleApp.Inv (s.apiSync false).1 ∧
    (s.apiSync false).1.offset = s.offset ∧ (s.apiSync false).1.size = s.size ∧
    (∀ bs ok, bs ≠ [] → ((s.apiSync false).1.append bs ok).2.1 = (abs s).size) ∧
    (s.retryableSync = true →
      (s.apiSync false).1.buf = s.buf ∧ (s.apiSync false).1.flushed = 0 ∧
      (s.apiSync false).1.seekRequired = true ∧
      (s.apiSync false).1.fileOffset = s.fileOffset - s.flushed ∧
      (s.apiSync false).1.fileOffset + (s.apiSync false).1.buf.length = s.offset ∧
      (s.apiSync false).1.file = s.flush.file) ∧
    (s.retryableSync = false → (s.apiSync false).1 = s.flush) := by
  have he : s.apiSync false = s.sync false := by simp [apiSync, hc, hro]
  obtain ⟨si, sa, sc, _⟩ := apiSync_spec h false
  have hoff : (s.apiSync false).1.offset = s.offset := by rw [← abs_size si, sa, abs_size h]
  have hcl : (s.apiSync false).1.closed = false := by rw [sc.2.2.2.2.1, hc]
  have hro' : (s.apiSync false).1.readOnly = false := by rw [sc.2.2.2.1, hro]
  have hcap' : 0 < (s.apiSync false).1.cap := by rw [sc.1]; exact hcap
  refine ⟨?_, sa, si, hoff, ?_, ?_, ?_, ?_⟩
  · rw [he]
    cases hr : s.retryableSync
    · rw [sync_fail_nonretry s hr]
    · exact (sync_fail_retry h hr).1
  · simp [SingleApp.size, hcl, hc, hoff]
  · intro bs ok hne
    rw [(append_refines si hcap' hcl hro' bs hne ok).1, sa]
  · intro hr
    obtain ⟨_, _, b, f, sk, fo, sum, fl, _⟩ := sync_fail_retry h hr
    rw [he]; exact ⟨b, f, sk, fo, sum, fl⟩
  · intro hr
    rw [he, sync_fail_nonretry s hr]

/-- **The retry.** Retryable mode, nothing rolled back behind the logical end before: after a failed Sync a successful
Sync frees the buffer, leaves no stale bytes behind the logical end (the buffer was rewritten in place), and
Close + Open (any options) finds exactly the same bytes at the same offsets. -/
theorem syncFail_retry_reopen {s : SingleApp} (h : SingleApp.Inv s) (hr : s.retryableSync = true)
    (hc : s.closed = false) (hro : s.readOnly = false) (hn : NoStaleTail s) (o : SOpts) :
    ((s.apiSync false).1.apiSync true).2 = none ∧
    abs ((s.apiSync false).1.apiSync true).1 = abs s ∧
    ((s.apiSync false).1.apiSync true).1.buf = [] ∧
    NoStaleTail ((s.apiSync false).1.apiSync true).1 ∧
    abs ((((s.apiSync false).1.apiSync true).1.close).1.reopen o) = abs s := by
  have he : s.apiSync false = s.sync false := by simp [apiSync, hc, hro]
  obtain ⟨si, _, sc, _⟩ := apiSync_spec h false
  have hcl : (s.apiSync false).1.closed = false := by rw [sc.2.2.2.2.1, hc]
  have hro' : (s.apiSync false).1.readOnly = false := by rw [sc.2.2.2.1, hro]
  have gen : ∀ (t : SingleApp) (ok : Bool), t.closed = false → t.readOnly = false → t.apiSync ok = t.sync ok := by
    intro t ok a b; simp [apiSync, a, b]
  have he2 : (s.apiSync false).1.apiSync true = (s.sync false).1.sync true := by
    rw [gen _ true hcl hro', he]
  obtain ⟨ui, _, uc, _⟩ := apiSync_spec si true
  have hcl2 : ((s.apiSync false).1.apiSync true).1.closed = false := by rw [uc.2.2.2.2.1, hcl]
  obtain ⟨r1, r2, r3, r4, r5⟩ := sync_retry_noStale h hr hn
  rw [← he2] at r1 r2 r3 r4 r5
  refine ⟨r1, r2, r4, r5, ?_⟩
  rw [(reopen_refines_partial ui hcl2 r5 o).2.1, r2]

/-- **A failing write that writes nothing** (`Flush()` / `Sync()` while `f.Write` returns `(0, err)`) changes neither
the content nor `Offset()` nor the file; the invariant is preserved. -/
theorem writeFail_unchanged {s : SingleApp} (h : SingleApp.Inv s) (ok : Bool) :
    abs s.apiFlushW0.1 = abs s ∧ SingleApp.Inv s.apiFlushW0.1 ∧ s.apiFlushW0.1.offset = s.offset ∧
    s.apiFlushW0.1.file = s.file ∧
    abs (s.apiSyncW0 ok).1 = abs s ∧ SingleApp.Inv (s.apiSyncW0 ok).1 :=
  ⟨(apiFlushW0_spec h).2.1, (apiFlushW0_spec h).1, (apiFlushW0_spec h).2.2.2.2, (apiFlushW0_spec h).2.2.2.1,
   (apiSyncW0_spec h ok).2.1, (apiSyncW0_spec h ok).1⟩

/-- default options, 64-byte buffer: `Append(10×'A'); Flush` — the 10 bytes are in the file and still in the buffer -/
def wFS : SingleApp :=
  run (create { cap := 64, retryableSync := true, autoSync := true, readOnly := false } 0 [])
    [.append [65, 65, 65, 65, 65, 65, 65, 65, 65, 65] true, .flush]

/-- **The state in which the order of the statements of the failure branch matters is reachable**: on `wFS`
(`flushed = 10`) a failed Sync leaves `Offset() = 10`, `fileOffset = 0`, and the next Append returns 10 — whereas
resetting `wbufFlushedOffset` without having moved `fileOffset` back reports `Offset() = 20` (the ten bytes counted
once in the file and once in the buffer).  The harness reaches this state in every run (op `syncfail`). -/
theorem syncFail_rollback_witness :
    SingleApp.Inv wFS ∧ wFS.flushed = 10 ∧ wFS.fileOffset = 10 ∧ wFS.offset = 10 ∧
    (wFS.apiSync false).2 = some .syncFailed ∧ (wFS.apiSync false).1.fileOffset = 0 ∧
    (wFS.apiSync false).1.offset = 10 ∧ ((wFS.apiSync false).1.append [98] true).2.1 = 10 ∧
    ({ wFS with seekRequired := true, flushed := 0 } : SingleApp).offset = 20 := by
  refine ⟨?_, by decide, by decide, by decide, by decide, by decide, by decide, by decide, by decide⟩
  exact (run_wf _ _ ⟨openFile_inv _ _ _, fun _ => by decide⟩ (by simp [ValidOps])).1

/-! ### the two known defects, as witnesses on the mirror model -/

/-- write buffer of 8 bytes, non-retryable sync -/
def w0 : SingleApp := create { cap := 8, retryableSync := false, autoSync := false, readOnly := false } 0 []

/-- `Append(1..6); Flush; SetOffset(3); Append(9,9)` -/
def wF2 : SingleApp := run w0 [.append [1, 2, 3, 4, 5, 6] true, .flush, .setOffset 3, .append [9, 9] true]

/-- **F2 (stale bytes after rewind).** The content is `1 2 3 9 9`, yet a read of 4 bytes at offset 1 — entirely
inside the logical size — returns `2 3 4 5`: file bytes beyond the logical end of the flushed part instead of the
buffered `9 9`; and a read past the end returns stale bytes followed by buffer bytes with NO EOF.
(Same shape as the harness probe `Append(100×'A'); Flush; SetOffset(50); Append("bbbbb"); ReadAt(15, 40)`.) -/
theorem readAt_stale_witness :
    (abs wF2).bytes = [1, 2, 3, 9, 9] ∧ SingleApp.Inv wF2 ∧
    wF2.readAt (some 4) 1 = ([2, 3, 4, 5], none) ∧ specRead (abs wF2) 1 4 = ([2, 3, 9, 9], none) ∧
    wF2.readAt (some 7) 1 = ([2, 3, 4, 5, 6, 9, 9], none) ∧ specRead (abs wF2) 1 7 = ([2, 3, 9, 9], some .eof) ∧
    ¬ ReadSafe wF2 1 4 := by
  refine ⟨by decide, ?_, by decide, by decide, by decide, by decide, ?_⟩
  · exact (run_wf _ _ ⟨openFile_inv _ _ _, fun _ => by decide⟩ (by simp [ValidOps])).1
  · unfold ReadSafe NoStaleTail; decide

/-- **Stale tail after SetOffset.** `SetOffset` never truncates the file and `Open` takes the size from the
physical file: after Close + Open the size is 6 (not 5) and the rolled-back byte `6` is content again. -/
theorem reopen_stale_tail_witness :
    (abs wF2).bytes = [1, 2, 3, 9, 9] ∧
    (abs (step wF2 (.closeReopen { cap := 8, retryableSync := false, autoSync := false, readOnly := false }))).bytes
      = [1, 2, 3, 9, 9, 6] ∧ ¬ NoStaleTail wF2 := by
  refine ⟨by decide, by decide, ?_⟩
  unfold NoStaleTail; decide

/-- **Failed fsync variant of F2 (model-derived, not reproducible without fault injection).** With retryable
sync, a failed fsync moves `fileOffset` back over bytes that ARE in the file; a later read that starts in the file
and runs past them returns buffer bytes at the wrong position. -/
def wSync : SingleApp :=
  run (create { cap := 8, retryableSync := true, autoSync := true, readOnly := false } 0 [])
    [.append [1, 2, 3] true, .sync true, .append [4, 5, 6] true, .sync false, .append [7, 8] true]

theorem readAt_after_failed_sync_witness :
    (abs wSync).bytes = [1, 2, 3, 4, 5, 6, 7, 8] ∧
    wSync.readAt (some 8) 0 = ([1, 2, 3, 4, 5, 6, 4, 5], none) := by
  refine ⟨by decide, by decide⟩

/-- default options (retryable + auto sync), 64-byte buffer: `Append("AAAA"); Flush; Append("BBBBBBCCCCCC")` — the
flushed `AAAA` is in the file AND still at the front of the buffer (`flushed = 4`), 12 bytes are buffered only. -/
def wRetry : SingleApp :=
  run (create { cap := 64, retryableSync := true, autoSync := true, readOnly := false } 0 [])
    [.append [65, 65, 65, 65] true, .flush, .append [66, 66, 66, 66, 66, 66, 67, 67, 67, 67, 67, 67] true]

/-- **The state in which the two ways of computing the in-memory rewind differ is reachable** (hypotheses of
`setOffset_inMemory_exact` with `flushed > 0`): `SetOffset(10)` on `wRetry` takes the in-memory branch, the log
is `AAAABBBBBB`, `Offset()` is 10 and the next `Append` returns 10 — whereas a buffer cut to
`newOffset - fileOffset` bytes would report `Offset() = 6`.  The harness reaches this state in every run (op
words `append; flush; append; setoff` of the small-scope enumeration, profile "buffer tail"). -/
theorem setOffset_flushedPrefix_witness :
    SingleApp.Inv wRetry ∧ wRetry.flushed = 4 ∧ wRetry.fileOffset = 4 ∧ wRetry.offset = 16 ∧
    (wRetry.setOffset 10).1.offset = 10 ∧
    (abs (wRetry.setOffset 10).1).bytes = [65, 65, 65, 65, 66, 66, 66, 66, 66, 66] ∧
    ((wRetry.setOffset 10).1.append [68, 68] true).2.1 = 10 ∧
    ({ wRetry with buf := wRetry.buf.take (10 - wRetry.fileOffset) } : SingleApp).offset = 6 := by
  refine ⟨?_, by decide, by decide, by decide, by decide, by decide, by decide, by decide⟩
  exact (run_wf _ _ ⟨openFile_inv _ _ _, fun _ => by decide⟩ (by simp [ValidOps])).1

/-! ### non-vacuity -/

example : SingleApp.Inv w0 ∧ NoStaleTail w0 ∧ w0.closed = false ∧ (w0.readOnly = false → 0 < w0.cap) :=
  ⟨openFile_inv _ _ _, openFile_noStale _ _ _, rfl, by decide⟩

/-- a history with an in-buffer rewind, a flush, a reopen with other options: all hypotheses of `history_refines` hold -/
example : ValidOps [SOp.append [1, 2, 3] true, .setOffset 2, .flush, .append [4, 5, 6, 7, 8, 9, 10, 11, 12] true,
      .closeReopen { cap := 2, retryableSync := true, autoSync := true, readOnly := false }, .append [7] true] ∧
    RewindFree w0 [SOp.append [1, 2, 3] true, .setOffset 2, .flush, .append [4, 5, 6, 7, 8, 9, 10, 11, 12] true,
      .closeReopen { cap := 2, retryableSync := true, autoSync := true, readOnly := false }, .append [7] true] := by
  constructor
  · simp [ValidOps, SOpts.Valid]
  · simp only [RewindFree]; decide

/-- `ReadSafe` is satisfiable on a state WITH a stale tail (read of the flushed part only / of the buffer only) -/
example : ReadSafe wF2 0 3 ∧ ReadSafe wF2 3 2 := by
  unfold ReadSafe NoStaleTail; decide

end Single


/-! ## multiapp -/
section Multi
open MultiApp

/-- A freshly created multi-file appendable satisfies the invariant; with `prealloc` its content is the
`fileSize` zero bytes of the preallocated first chunk (the code counts them as content). -/
theorem multi_create_inv (o : MOpts) (md : Bytes) (hfs : 0 < o.fileSize) (hcap : o.readOnly = false → 0 < o.cap) :
    MInv (MultiApp.create o md) ∧ (MultiApp.create o md).closed = false ∧ Present (MultiApp.create o md) 0 ∧
    (MultiApp.abs (MultiApp.create o md)).bytes = List.replicate (if o.prealloc then o.fileSize else 0) 0 :=
  create_inv o md hfs hcap

/-- **Every reachable state satisfies the invariant**: any sequence of append / setOffset / flush / sync (also
failing) / switchReadOnly / discardUpto / reads (any offset and length, through the SIEVE handle cache with any
`maxOpenedFiles`), provided every Append that passes the guards succeeds and no rewind targets a discarded chunk. -/
theorem multi_reachable_inv (m : MultiApp) (h : MInv m) (hc : m.closed = false) (ops : List MOp) (hl : Legal m ops) :
    MInv (MultiApp.run m ops) :=
  (run_inv ops m h hc hl).1

/-- **Append refines across chunk boundaries**: the returned offset is the previous size, `n = len(bs)`, and the
content grows by exactly `bs`, however many chunk rotations (incl. reuse of stale or preallocated chunk files and
handle-cache evictions) the append spans. -/
theorem multi_append_refines {m : MultiApp} (h : MInv m) (hc : m.closed = false) (hro : m.readOnly = false)
    (bs : Bytes) (hne : bs ≠ []) (hmode : m.autoSync = true ∨ m.retryableSync = false) :
    (m.append bs true).2.2.2 = none ∧ (m.append bs true).2.1 = (MultiApp.abs m).size ∧
    (m.append bs true).2.2.1 = bs.length ∧
    MultiApp.abs (m.append bs true).1 = ((MultiApp.abs m).append bs).1 ∧ MInv (m.append bs true).1 := by
  obtain ⟨a1, a2, a3, a4, a5, _⟩ := MultiApp.append_spec h hc hro bs hne hmode
  refine ⟨a1, a2, a3, ?_, a5⟩
  cases hx : MultiApp.abs (m.append bs true).1
  rw [hx] at a4
  simp only at a4
  simp [ByteLog.append, a4]

/-- Append with any fsync outcome and any sync mode: the invariant is kept, the content grows by a prefix of
`bs` (all of it when no error is returned), the only errors are ErrBufferFull and a failed fsync. -/
theorem multi_append_refines_general {m : MultiApp} (h : MInv m) (hc : m.closed = false) (hro : m.readOnly = false)
    (bs : Bytes) (hne : bs ≠ []) (syncOk : Bool) :
    MInv (m.append bs syncOk).1 ∧
    (∃ k, k ≤ bs.length ∧ (MultiApp.abs (m.append bs syncOk).1).bytes = (MultiApp.abs m).bytes ++ bs.take k ∧
      ((m.append bs syncOk).2.2.2 = none → k = bs.length)) ∧
    ((m.append bs syncOk).2.2.2 = none →
      (m.append bs syncOk).2.2.1 = bs.length ∧ (m.append bs syncOk).2.1 = (MultiApp.abs m).size) ∧
    ((m.append bs syncOk).2.2.2 = none ∨ (m.append bs syncOk).2.2.2 = some .bufferFull ∨
      (m.append bs syncOk).2.2.2 = some .syncFailed) := by
  obtain ⟨a1, _, _, a4, a5, a6, _⟩ := append_spec_general h hc hro bs hne syncOk
  exact ⟨a1, a4, a5, a6⟩

/-- **ReadAt refines (partial)**: a read entirely inside the logical size returns exactly the bytes of the byte
log — routed over any number of chunk boundaries, through cached or freshly opened handles — PROVIDED no chunk in
the range was discarded (`Present`) and the part that falls into the current chunk does not straddle rolled-back
file bytes (`CurSafe`).  A read changes nothing but the handle cache.
Full statement (FALSE of the current code, see `multi_readAt_stale_witness` / `multi_readAt_prealloc_witness`):
without `CurSafe`, and with the EOF class for reads reaching past the logical size. -/
theorem multi_readAt_refines_partial {m : MultiApp} (h : MInv m) (hc : m.closed = false) (off n : Nat) (hn : 0 < n)
    (hin : off + n ≤ (MultiApp.abs m).size) (hp : Present m off) (hs : CurSafe m off n) :
    (m.readAt n off).2 = (((MultiApp.abs m).readAt off n).1, none) ∧ ((MultiApp.abs m).readAt off n).2 = false ∧
    MInv (m.readAt n off).1 ∧ MultiApp.abs (m.readAt n off).1 = MultiApp.abs m := by
  obtain ⟨r1, r2, r3, _⟩ := MultiApp.readAt_spec h hc off n hn hin hp hs
  have hle : ¬ (off > (MultiApp.abs m).size) := by omega
  refine ⟨?_, ?_, r2, r3⟩
  · rw [r1]; simp [ByteLog.readAt, hle]
  · simp [ByteLog.readAt, hle]
    unfold ByteLog.size at hin; omega

/-- **SetOffset refines across chunks**: truncation to `off`; the chunk of `off` becomes the current one; later
chunk files stay on disk (harmless for the logical content, see the stale-tail witness for reopen). -/
theorem multi_setOffset_refines {m : MultiApp} (h : MInv m) (hc : m.closed = false) (hro : m.readOnly = false)
    (off : Nat) (hle : off ≤ (MultiApp.abs m).size)
    (hp : off / m.fileSize < m.curId → m.disk (off / m.fileSize) ≠ none) :
    (m.setOffset off).2 = none ∧ some (MultiApp.abs (m.setOffset off).1) = (MultiApp.abs m).setOffset off ∧
    MInv (m.setOffset off).1 := by
  obtain ⟨s1, s2, s3, _⟩ := MultiApp.setOffset_spec h hc hro off hle hp
  refine ⟨s1, ?_, s3⟩
  simp [ByteLog.setOffset, hle, s2]

/-- **Flush / Sync / SwitchToReadOnlyMode leave the content unchanged** (all outcomes, also a failing fsync). -/
theorem multi_flush_sync_abs_unchanged {m : MultiApp} (h : MInv m) (ok : Bool) :
    MultiApp.abs m.flush.1 = MultiApp.abs m ∧ MultiApp.abs (m.sync ok).1 = MultiApp.abs m ∧
    MultiApp.abs (m.switchRO ok).1 = MultiApp.abs m ∧
    MInv m.flush.1 ∧ MInv (m.sync ok).1 ∧ MInv (m.switchRO ok).1 :=
  ⟨(MultiApp.flush_spec h).2.1, (MultiApp.sync_spec h ok).2.1, (MultiApp.switchRO_spec h ok).2.1,
   (MultiApp.flush_spec h).1, (MultiApp.sync_spec h ok).1, (MultiApp.switchRO_spec h ok).1⟩

/-- **A failed Sync of a multi-file appendable refines the identity on the byte log**: the error of the current
chunk's fsync is returned; content, `Offset()` and the invariant are unchanged (whatever the sync mode). -/
theorem multi_syncFail_refines {m : MultiApp} (h : MInv m) (hc : m.closed = false) (hro : m.readOnly = false) :
    (m.sync false).2 = some .syncFailed ∧ MultiApp.abs (m.sync false).1 = MultiApp.abs m ∧
    MInv (m.sync false).1 ∧ (m.sync false).1.offset = m.offset := by
  obtain ⟨si, sa, _⟩ := MultiApp.sync_spec h false
  refine ⟨MultiApp.sync_fail_err h hc hro, sa, si, ?_⟩
  rw [← MultiApp.abs_size si, sa, MultiApp.abs_size h]

/-- **A failing write that writes nothing** leaves content and invariant of a multi-file appendable unchanged. -/
theorem multi_writeFail_unchanged {m : MultiApp} (h : MInv m) (ok : Bool) :
    MultiApp.abs m.flushW0.1 = MultiApp.abs m ∧ MInv m.flushW0.1 ∧
    MultiApp.abs (m.syncW0 ok).1 = MultiApp.abs m ∧ MInv (m.syncW0 ok).1 :=
  ⟨(MultiApp.flushW0_spec h).2.1, (MultiApp.flushW0_spec h).1, (MultiApp.syncW0_spec h ok).2.1,
   (MultiApp.syncW0_spec h ok).1⟩

/-- **DiscardUpto preserves** the bytes at or after `off`: only whole chunk files strictly below the chunk of
`off` are removed, never the current one; size and every in-range read at `o ≥ off` are unchanged. -/
theorem multi_discardUpto_preserves {m : MultiApp} (h : MInv m) (hc : m.closed = false) (off : Nat)
    (hle : off ≤ (MultiApp.abs m).size) :
    (m.discardUpto off).2 = none ∧ MInv (m.discardUpto off).1 ∧
    (MultiApp.abs (m.discardUpto off).1).suffixFrom off = (MultiApp.abs m).suffixFrom off ∧
    (MultiApp.abs (m.discardUpto off).1).size = (MultiApp.abs m).size ∧
    (∀ i, off / m.fileSize ≤ i → (m.discardUpto off).1.disk i = m.disk i) ∧
    (∀ o n, 0 < n → o + n ≤ (MultiApp.abs m).size → Present m o → CurSafe m o n → off ≤ o →
        ((m.discardUpto off).1.readAt n o).2 = (m.readAt n o).2) := by
  obtain ⟨d1, d2, d3, d4, _, _, _, d8⟩ := MultiApp.discardUpto_spec h hc off hle
  exact ⟨d1, d2, d3, d4, d8, fun o n hn hin hp hs ho => discardUpto_preserves_reads h hc off o n hn hin hp hs ho⟩

/-- **Reopen refines (partial)**: Close + Open (any valid options with the same chunk size) finds the same content
— PROVIDED nothing rolled back is left on disk (`NoStale`: no stale tail in the current chunk file, no later chunk
files).  Full statement (FALSE of the current code, see `multi_reopen_stale_tail_witness`): without `NoStale`. -/
theorem multi_reopen_refines_partial {m : MultiApp} (h : MInv m) (hc : m.closed = false) (hns : NoStale m) (o : MOpts)
    (hfs : o.fileSize = m.fileSize) (hcap : o.readOnly = false → 0 < o.cap) :
    MultiApp.abs ((m.close).1.reopen o) = MultiApp.abs m ∧ MInv ((m.close).1.reopen o) :=
  MultiApp.reopen_spec h hc hns o hfs hcap

/-- **Refinement over all histories that do not discard a prefix**: the content after any sequence of calls is
the byte-log run of the same calls. -/
theorem multi_history_refines (m : MultiApp) (h : MInv m) (hc : m.closed = false) (hp : Present m 0)
    (ops : List MOp) (hl : Legal m ops) (hnd : ∀ op ∈ ops, isDiscard op = false) :
    MultiApp.abs (MultiApp.run m ops) = MultiApp.specRun m (MultiApp.abs m) ops ∧ MInv (MultiApp.run m ops) := by
  obtain ⟨a, i, _⟩ := MultiApp.run_refines ops m h hc hp hl hnd
  exact ⟨a, i⟩

/-! ### the known defects on the multiapp mirror -/

/-- chunks of 4 bytes, write buffer 8, at most 2 cached handles -/
def mw0 : MultiApp := MultiApp.create { fileSize := 4, cap := 8, maxOpenedFiles := 2, retryableSync := false,
                                        autoSync := false, readOnly := false, prealloc := false } []

/-- `Append(1..10)` (chunks `1 2 3 4 | 5 6 7 8 | 9 10`), then `SetOffset(2)` -/
def mwRewound : MultiApp := MultiApp.run mw0 [.append [1, 2, 3, 4, 5, 6, 7, 8, 9, 10], .setOffset 2]

/-- **Stale bytes after a cross-chunk rewind.** The content is `1 2`, but a read of 6 bytes at 0 returns
`1 2 3 4 5 6` with NO EOF: the rest of chunk 0 and the later chunk file left on disk are served. -/
theorem multi_readAt_stale_witness :
    (MultiApp.abs mwRewound).bytes = [1, 2] ∧ (mwRewound.readAt 6 0).2 = ([1, 2, 3, 4, 5, 6], none) ∧
    (MultiApp.abs mwRewound).readAt 0 6 = ([1, 2], true) := by
  refine ⟨by decide, by decide, by decide⟩

/-- **Stale tail after SetOffset.** After one more byte, Close and Open, the highest-numbered chunk file is the
current chunk again: the size is 10 (not 3) and the rolled-back bytes are content. -/
theorem multi_reopen_stale_tail_witness :
    (MultiApp.abs (MultiApp.run mwRewound [.append [7]])).bytes = [1, 2, 7] ∧
    (MultiApp.abs (((MultiApp.run mwRewound [.append [7]]).close).1.reopen
        { fileSize := 4, cap := 8, maxOpenedFiles := 2, retryableSync := false, autoSync := false,
          readOnly := false, prealloc := false })).bytes = [1, 2, 7, 4, 5, 6, 7, 8, 9, 10] := by
  refine ⟨by decide, by decide⟩

/-- **Preallocated chunks.** With `prealloc`, Append rotates into a zero-filled chunk file and rewinds it with
`SetOffset(0)`; without any user rewind a read spanning flushed and buffered bytes of the current chunk returns the
preallocated zero instead of the buffered byte. -/
def mwPre : MultiApp :=
  MultiApp.run (MultiApp.create { fileSize := 4, cap := 8, maxOpenedFiles := 2, retryableSync := false,
                                  autoSync := false, readOnly := false, prealloc := true } [])
    [.append [1, 2], .flush, .append [3]]

theorem multi_readAt_prealloc_witness :
    (MultiApp.abs mwPre).bytes = [0, 0, 0, 0, 1, 2, 3] ∧ (mwPre.readAt 3 4).2 = ([1, 2, 0], none) ∧
    (MultiApp.abs mwPre).readAt 4 3 = ([1, 2, 3], false) := by
  refine ⟨by decide, by decide, by decide⟩

/-! ### non-vacuity -/

example : MInv mw0 ∧ mw0.closed = false ∧ Present mw0 0 :=
  let h := create_inv { fileSize := 4, cap := 8, maxOpenedFiles := 2, retryableSync := false, autoSync := false,
                        readOnly := false, prealloc := false } [] (by decide) (by decide)
  ⟨h.1, h.2.1, h.2.2.1⟩

/-- a legal history spanning three chunks with a cross-chunk rewind and reads through the handle cache -/
example : Legal mw0 [.append [1, 2, 3, 4, 5, 6, 7, 8, 9, 10], .read 7 1, .setOffset 6, .append [11, 12, 13], .flush,
                     .read 5 3, .sync false, .switchRO] := by
  simp only [Legal, legal]; decide

end Multi

end ImmuModel.Props.C17
