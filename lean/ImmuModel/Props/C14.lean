/-
C14 — Value-log truncation keeps everything at or after the cut readable.
ONLY the property theorems and their non-vacuity examples; helper lemmas are in
ImmuModel/Store/Proofs/Truncate*.lean, the model (a statement-by-statement mirror of
`TruncateUptoTx`, `appendValuesInto`, `DiscardUpto`, `readValueAt`, the entry loop of `ExportTx`)
in ImmuModel/Store/Truncate.lean.

Quantification: the store `s` is ARBITRARY — any chunk size `F`, any `MaxIOConcurrency`, any tx log,
any set of chunk files; the only thing assumed about a transaction is what ONE call of
`appendValuesIntoAnyVLog` guarantees (`Placed`: one vlog, ascending from some offset, empty values at
offset 0). Different transactions may sit anywhere (every commit schedule / IO concurrency).
-/
import ImmuModel.Store.Truncate
import ImmuModel.Store.Proofs.TruncateProofs
import ImmuModel.Store.Proofs.TruncateMono
import ImmuModel.Store.TruncateWalk
import ImmuModel.Gen.C14
import ImmuModel.Store.Proofs.TruncateWalkProofs
import ImmuModel.Store.TruncateDb
import ImmuModel.Gen.C14Db
import ImmuModel.Store.Proofs.TruncateDbProofs

namespace ImmuModel.Props.C14
open ImmuModel.Store.Truncate ImmuModel.Store.TruncateAux

/-- **Safety.** `TruncateUptoTx(n)` never makes a value of a COMMITTED transaction `id ≥ n`
unreadable: every entry of such a transaction that was readable before is readable afterwards —
for every placement of the transactions in the value logs, every chunk size, every cut point,
whatever the truncation returns (ok / error / panic part-way). -/
theorem truncate_safe (s : Store) (n id : Nat) (tx : TxEnts) (e : Ent)
    (h1 : 1 ≤ id) (hn : n ≤ id) (hid : id ≤ s.last) (htx : s.txs[id - 1]? = some tx)
    (hpl : Placed tx) (he : e ∈ tx) (hr : s.readable e) :
    (truncateUpto s n).store.readable e := by
  unfold truncateUpto
  split
  · exact hr
  · split
    · exact hr
    · rename_i t ht
      by_cases h0 : e.len = 0
      · unfold Store.readable Store.readValue; simp [h0]
      · apply readable_discardAll _ _ _ _ _ hr
        unfold tombstones at ht
        split at ht
        · cases ht
        · rename_i t0 _
          obtain ⟨_, hb⟩ := frontWalk_spec s _ _ _ _ ht
          cases tx with
          | nil => cases he
          | cons f rest =>
            have hfe : s.firstEntry id = .ok f := by
              unfold Store.firstEntry
              have : ¬ id = 0 := by omega
              have h2 : ¬ s.last < id := by omega
              simp [this, h2, htx]
            have hbf := hb id f hn (by omega) hfe
            obtain ⟨hv, ho⟩ := placed_first hpl rfl he
            intro p hp hpv
            exact Nat.le_trans (hbf p hp (hpv.trans hv.symm)) (ho (by omega))

/-- The hypotheses of `truncate_safe` are satisfiable with a truncation that really deletes. -/
example :
    let s : Store := { F := 64, maxIO := 1, txs := [appendValues 1 0 [60, 0, 10], appendValues 1 70 [100]],
                       vlogs := fun _ => { cur := 2, offset := 170, present := [0, 1, 2] } }
    ((truncateUpto s 2).store.vlogs 1).present = [1, 2] ∧ (truncateUpto s 2).store.readable ⟨1, 70, 100⟩ := by
  decide

/-- **The walks the model transcribes are the walks of the code** (facts regenerated from `embedded/store/immustore.go`
`TruncateUptoTx` at every run by extract/c14.go): the backward walk `backWalk`, the forward walk `frontWalk` from `minTxID`
up to a variable that is DEFINED as `s.LastCommittedTxID()` and written nowhere else in the function (no cap, no window:
`tombstones` passes `last + 1 - n` steps), and no third `for` loop.  If the code's walks change shape this stops
elaborating and the property is reported as no longer shown. -/
theorem walks_as_in_code :
    ImmuModel.Gen.C14.truncBackLoop =
      "var i uint64 = minTxID; for i > 0 && len(tombstones) != s.MaxIOConcurrency() { …; i-- }" ∧
    ImmuModel.Gen.C14.truncFrontLoop = "j := minTxID; j <= maxTxID; j++" ∧
    ImmuModel.Gen.C14.truncFrontBound = "maxTxID" ∧
    ImmuModel.Gen.C14.truncFrontBoundDef = "s.LastCommittedTxID()" ∧
    ImmuModel.Gen.C14.truncFrontBoundWrites = 1 ∧
    ImmuModel.Gen.C14.truncForLoops = 2 :=
  ⟨rfl, rfl, rfl, rfl, rfl, rfl⟩

/-- **The forward walk of the code ends at the LAST committed tx** (`maxTxID := s.LastCommittedTxID()`;
`for j := minTxID; j <= maxTxID; j++`): the model's `truncateUpto` is the walk-to-`hi` truncation with `hi = last`, by
definition.  (The harness compares the tombstones the real store logs with `tombstones` on histories whose value-log
order and id order differ by more than MaxConcurrency: a walk that stops earlier is a correspondence mismatch.) -/
theorem front_walk_ends_at_last (s : Store) (n : Nat) :
    tombstones s n = tombstonesUpTo s n s.last ∧ truncateUpto s n = truncateUptoWalkingTo s n s.last :=
  ⟨rfl, rfl⟩

/-- **… hence it covers EVERY later transaction**: whatever tombstones `TruncateUptoTx(n)` computes, the tombstone of a
value log is at or below the first value of every committed tx `n ≤ id ≤ last` that uses that log — however far `id`
is from `n` (no bound by MaxConcurrency or anything else), for every placement. This is what `truncate_safe` rests on. -/
theorem front_walk_covers_every_later_tx (s : Store) (n : Nat) (t : Tomb) (h : tombstones s n = .ok t)
    (id : Nat) (f : Ent) (hn : n ≤ id) (hid : id ≤ s.last) (hf : s.firstEntry id = .ok f) :
    ∀ p ∈ t, p.1 = f.vlog → p.2 ≤ f.off := by
  unfold tombstones at h
  split at h
  · cases h
  · obtain ⟨_, hb⟩ := frontWalk_spec s _ _ _ _ h
    exact hb id f hn (by omega) hf

/-- **A forward walk cut short at `n + c` is unsafe, for EVERY constant `c`** (MaxConcurrency, MaxActiveTransactions, …
— "values can only overlap within the max concurrency range" is false: `c` bounds the committers in flight at one
instant, not by how many ids a committer that has already written its values can be overtaken).  Witness, for each `c`:
chunk size 64, one value log; a committer writes 64 bytes at offset 0 and stalls; tx 1 (64 bytes at 64) and `c` more txs
(8 bytes each, from 128) commit; the stalled one commits as tx `c + 2`.  Everything is committed and readable.
`TruncateUptoTx(1)` with the walk stopping at `1 + c` answers ok and deletes chunk 0 — the value of tx `c + 2 ≥ 1` is
gone — while the walk of the code (`truncateUpto`) keeps it. -/
theorem short_front_walk_unsafe (c : Nat) :
    ∃ (s : Store) (n id : Nat) (tx : TxEnts) (e : Ent),
      (∀ tx' ∈ s.txs, Placed tx') ∧ 1 ≤ n ∧ n + c < id ∧ id ≤ s.last ∧ s.txs[id - 1]? = some tx ∧ e ∈ tx ∧
      s.readable e ∧
      (truncateUptoWalkingTo s n (n + c)).out = .ok ∧
      ¬ (truncateUptoWalkingTo s n (n + c)).store.readable e ∧
      (truncateUpto s n).store.readable e := by
  open ImmuModel.Store.TruncateWalkAux in
  have hpl : ∀ tx' ∈ (lateCommitterStore c).txs, Placed tx' := late_placed c
  have hlast := late_last c
  have htx : (lateCommitterStore c).txs[c + 2 - 1]? = some [⟨1, 0, 64⟩] := by
    have : c + 2 - 1 = c + 1 := by omega
    rw [this]; exact late_txLate c
  have hr := late_readable_before c
  refine ⟨lateCommitterStore c, 1, c + 2, [⟨1, 0, 64⟩], ⟨1, 0, 64⟩, hpl, Nat.le_refl _, by omega, by omega, htx,
    List.mem_singleton.mpr rfl, hr, ?_, ?_, ?_⟩
  · rw [late_trunc_eq]
  · rw [late_trunc_eq]; exact late_unreadable_after c
  · exact truncate_safe _ 1 (c + 2) _ _ (by omega) (by omega) (by omega) htx
      (hpl _ (List.mem_of_getElem? htx)) (List.mem_singleton.mpr rfl) hr

/-- The witness with `c = 4` (the configuration of the replica recipe: MaxConcurrency 4), computed. -/
example :
    ((truncateUptoWalkingTo (lateCommitterStore 4) 1 5).store.vlogs 1).present = [1, 2] ∧
    ((truncateUpto (lateCommitterStore 4) 1).store.vlogs 1).present = [0, 1, 2] ∧
    ¬ (truncateUptoWalkingTo (lateCommitterStore 4) 1 5).store.readable ⟨1, 0, 64⟩ ∧
    (truncateUpto (lateCommitterStore 4) 1).store.readable ⟨1, 0, 64⟩ := by
  decide

/-- **Repeating a truncation is harmless**: the second run removes nothing and answers the same. -/
theorem truncate_idempotent (s : Store) (n : Nat) :
    (truncateUpto (truncateUpto s n).store n).store = (truncateUpto s n).store ∧
    (truncateUpto (truncateUpto s n).store n).out = (truncateUpto s n).out := by
  unfold truncateUpto
  by_cases he : s.embedded = true
  · simp [he]
  · simp only [he]
    cases ht : tombstones s n with
    | error e => simp [he, ht]
    | ok t =>
      simp only [Bool.false_eq_true, if_false]
      obtain ⟨hs, _⟩ := discardAll_spec t s []
      have hemb : (discardAll s [] t).store.embedded = false := by rw [hs.embedded]; simpa using he
      simp only [hemb, Bool.false_eq_true, if_false, tombstones_same hs, ht]
      exact ⟨discardAll_idem s t [] [], discardAll_out_same t _ _ [] hs⟩

/-- **Monotone in the cut point**: for `n ≤ m ≤ lastCommitted`, whatever `TruncateUptoTx(n)` deletes,
`TruncateUptoTx(m)` deletes too — any location readable after truncating up to `m` is readable after
truncating up to `n`. (`hwf`: first entries name an existing vlog and lie inside it — what a store
written through `appendValuesIntoAnyVLog` satisfies.) -/
theorem truncate_monotone (s : Store) (n m : Nat) (e : Ent) (hnm : n ≤ m) (hm : m ≤ s.last)
    (hwf : ∀ i f, s.firstEntry i = .ok f → 1 ≤ f.vlog ∧ f.vlog ≤ s.maxIO ∧ f.off ≤ (s.vlogs f.vlog).offset)
    (hr : (truncateUpto s m).store.readable e) : (truncateUpto s n).store.readable e :=
  ImmuModel.Store.TruncateMonoAux.truncate_monotone_aux s n m e hnm hm hwf hr

/-- **Headers, hashes, proofs untouched (structural).** Truncation changes nothing but the set of
chunk files of the value logs, and only ever removes files: the tx log (headers, Alh, entries,
digests), the configuration and the geometry of the logs are the same. -/
theorem headers_untouched (s : Store) (n : Nat) :
    (truncateUpto s n).store.txs = s.txs ∧ (truncateUpto s n).store.F = s.F ∧
    (truncateUpto s n).store.maxIO = s.maxIO ∧ (truncateUpto s n).store.valBsLocked = s.valBsLocked ∧
    ∀ v, ((truncateUpto s n).store.vlogs v).cur = (s.vlogs v).cur ∧
         ((truncateUpto s n).store.vlogs v).offset = (s.vlogs v).offset ∧
         ∀ c ∈ ((truncateUpto s n).store.vlogs v).present, c ∈ (s.vlogs v).present := by
  have key : Same s (truncateUpto s n).store ∧
      ∀ v, ∀ c ∈ ((truncateUpto s n).store.vlogs v).present, c ∈ (s.vlogs v).present := by
    unfold truncateUpto
    split
    · exact ⟨Same.refl _, fun _ _ h => h⟩
    · split
      · exact ⟨Same.refl _, fun _ _ h => h⟩
      · rename_i t _
        obtain ⟨hs, hp⟩ := discardAll_spec t s []
        refine ⟨hs, fun v c hc => ?_⟩
        rw [hp v] at hc
        exact (List.mem_filter.mp hc).1
  obtain ⟨hs, hsub⟩ := key
  exact ⟨hs.txs, hs.F, hs.maxIO, hs.locked, fun v => ⟨hs.cur v, hs.offset v, hsub v⟩⟩

/-- The active chunk of a value log is never removed. -/
theorem current_chunk_kept (s : Store) (n v : Nat) (h : (s.vlogs v).cur ∈ (s.vlogs v).present) :
    (s.vlogs v).cur ∈ ((truncateUpto s n).store.vlogs v).present := by
  unfold truncateUpto
  split
  · exact h
  · split
    · exact h
    · rename_i t _
      obtain ⟨_, hp⟩ := discardAll_spec t s []
      rw [hp v]
      refine List.mem_filter.mpr ⟨h, ?_⟩
      rw [List.all_eq_true]
      intro p _
      simp [removes, VLog.removedBy]

/-- **ExportTx terminates with one of the designed answers** when `_valBsMux` is free: all values,
all digests, the explicit "partially truncated" error, or no-such-tx — never a block. -/
theorem export_total (s : Store) (id : Nat) (h : s.valBsLocked = false) :
    (s.exportTx id).2 = .values ∨ (s.exportTx id).2 = .digests ∨
    (s.exportTx id).2 = .errPartial ∨ (s.exportTx id).2 = .errTx := by
  unfold Store.exportTx
  split
  · simp
  · split
    · simp
    · split
      · simp
      · rename_i tx _ _
        simp only [h, Bool.false_eq_true, if_false]
        have := exportRun_model_outcomes s tx
        rcases this with h | h | h <;> simp [h]

/-- **Full export at or after the cut**: a committed tx `id ≥ n` whose values were readable is
exported with all its values after `TruncateUptoTx(n)`, and the mutex is free afterwards. -/
theorem export_full_after_truncate (s : Store) (n id : Nat) (tx : TxEnts)
    (h1 : 1 ≤ id) (hn : n ≤ id) (hid : id ≤ s.last) (htx : s.txs[id - 1]? = some tx)
    (hpl : Placed tx) (hr : ∀ e ∈ tx, s.readable e) (hl : s.valBsLocked = false) :
    ((truncateUpto s n).store.exportTx id).2 = .values ∧
    ((truncateUpto s n).store.exportTx id).1.valBsLocked = false := by
  obtain ⟨htxs, _, _, hlk, _⟩ := headers_untouched s n
  have hr' : ∀ e ∈ tx, (truncateUpto s n).store.readValue e = .ok :=
    fun e he => truncate_safe s n id tx e h1 hn hid htx hpl he (hr e he)
  unfold Store.exportTx
  have a : ¬ (id = 0 ∨ (truncateUpto s n).store.last < id) := by
    unfold Store.last; rw [htxs]; unfold Store.last at hid; omega
  simp only [a, if_false, htxs, htx, hlk, hl]
  split
  · exact ⟨rfl, by rw [hlk, hl]⟩
  · have : exportRun (tx.map (fun e => (e.len, (truncateUpto s n).store.readValue e))) = ⟨.values, false⟩ := by
      apply exportRun_all_ok
      intro r hr
      obtain ⟨e, he, rfl⟩ := List.mem_map.mp hr
      exact hr' e he
    simp [this]

/-- **Lock discipline.** Every exit of the entry loop of `ExportTx` — all values, all digests, a read
error, and both "partially truncated transaction" errors — has released `_valBsMux` (and the pass in
front of the loop never takes it). -/
theorem export_releases_lock (rs : List (Nat × Rd)) (i : Nat) (tr : Bool) :
    (exportLoop i tr rs).locked = false ∧ (exportRun rs).locked = false :=
  ⟨exportLoop_unlocked rs i tr, exportRun_unlocked rs⟩

/-- … hence `ExportTx` hands the store back with the mutex free, whatever it answers: by `export_total`
no sequence of `ExportTx` calls ever blocks. -/
theorem export_keeps_mutex_free (s : Store) (id : Nat) (h : s.valBsLocked = false) :
    (s.exportTx id).1.valBsLocked = false := by
  unfold Store.exportTx
  split
  · exact h
  · split
    · exact h
    · split
      · exact h
      · simp only [h, Bool.false_eq_true, if_false]
        exact exportRun_unlocked _

/-- The histories that used to leak the mutex (former finding F4).  Chunk size 64, one value log,
tx1 = values of 60, 10, 30 bytes (the third lies in chunk 1), tx2, tx3; `TruncateUptoTx(2)` removes chunk 0:
`ExportTx(1)` answers "partially truncated", the mutex is free, and tx 2 and tx 3 are exported in full. -/
example :
    let s : Store := { F := 64, maxIO := 1,
                       txs := [appendValues 1 0 [60, 10, 30], appendValues 1 100 [10], appendValues 1 110 [100]],
                       vlogs := fun _ => { cur := 3, offset := 210, present := [0, 1, 2, 3] } }
    let s1 := (truncateUpto s 2).store
    (s1.exportTx 1).2 = .errPartial ∧ (s1.exportTx 1).1.valBsLocked = false ∧
    ((s1.exportTx 1).1.exportTx 2).2 = .values ∧ ((s1.exportTx 1).1.exportTx 3).2 = .values := by
  decide

/-- **A wholly truncated transaction is exported by digest, empty values included.**  Every non-empty
value of the tx answers `io.EOF` (deleted by `TruncateUptoTx`), the empty ones "read" fine (nothing to
read): `ExportTx` answers with all digests — the empty values go out as the digest stored in their
entry — wherever the empty values stand.  (Before the repair of `ExportTx` such a tx took a "partially
truncated" exit and could never be exported again: former finding
`C15:ExportTx:wholly-truncated-tx-with-empty-value-not-exportable`.) -/
theorem export_wholly_truncated_by_digest (s : Store) (id : Nat) (tx : TxEnts)
    (h1 : 1 ≤ id) (hid : id ≤ s.last) (htx : s.txs[id - 1]? = some tx) (hl : s.valBsLocked = false)
    (hgone : ∀ e ∈ tx, e.len ≠ 0 → s.readValue e = .eof) (hne : ∃ e ∈ tx, e.len ≠ 0) :
    (s.exportTx id).2 = .digests ∧ (s.exportTx id).1.valBsLocked = false := by
  have hrun : exportRun (tx.map (fun e => (e.len, s.readValue e))) = ⟨.digests, false⟩ := by
    apply exportRun_wholly_truncated
    · intro p hp
      obtain ⟨e, he, rfl⟩ := List.mem_map.mp hp
      refine ⟨fun h0 => hgone e he (by simp at h0; omega), fun h0 => ?_⟩
      simp at h0
      simp [Store.readValue, h0]
    · obtain ⟨e, he, h0⟩ := hne
      exact ⟨_, List.mem_map.mpr ⟨e, he, rfl⟩, by simp; omega⟩
  have hemp : tx.isEmpty = false := by
    obtain ⟨e, he, _⟩ := hne
    cases tx with
    | nil => cases he
    | cons _ _ => rfl
  unfold Store.exportTx
  have a : ¬ (id = 0 ∨ s.last < id) := by omega
  simp only [a, if_false, htx, hl, hemp, Bool.false_eq_true, hrun]
  exact ⟨trivial, trivial⟩

/-- **A genuinely partially truncated transaction is still refused**: when some non-empty value is
readable and some non-empty value answers `io.EOF`, `ExportTx` answers "partially truncated
transaction" (and has released the mutex), whatever the order of the entries and wherever empty values
stand. -/
theorem export_partially_truncated_refused (s : Store) (id : Nat) (tx : TxEnts)
    (h1 : 1 ≤ id) (hid : id ≤ s.last) (htx : s.txs[id - 1]? = some tx) (hl : s.valBsLocked = false)
    (hok : ∃ e ∈ tx, e.len ≠ 0 ∧ s.readValue e = .ok) (heof : ∃ e ∈ tx, e.len ≠ 0 ∧ s.readValue e = .eof) :
    (s.exportTx id).2 = .errPartial ∧ (s.exportTx id).1.valBsLocked = false := by
  have hrun : exportRun (tx.map (fun e => (e.len, s.readValue e))) = ⟨.errPartial, false⟩ := by
    apply exportRun_partially_truncated
    · intro p hp
      obtain ⟨e, _, rfl⟩ := List.mem_map.mp hp
      exact readValue_ne_err s e
    · obtain ⟨e, he, h0, hr⟩ := hok
      exact ⟨_, List.mem_map.mpr ⟨e, he, rfl⟩, by simp; omega, hr⟩
    · obtain ⟨e, he, h0, hr⟩ := heof
      exact ⟨_, List.mem_map.mpr ⟨e, he, rfl⟩, by simp; omega, hr⟩
  have hemp : tx.isEmpty = false := by
    obtain ⟨e, he, _⟩ := hok
    cases tx with
    | nil => cases he
    | cons _ _ => rfl
  unfold Store.exportTx
  have a : ¬ (id = 0 ∨ s.last < id) := by omega
  simp only [a, if_false, htx, hl, hemp, Bool.false_eq_true, hrun]
  exact ⟨trivial, trivial⟩

/-- The same without any chunk straddling, the history of the former finding: a wholly truncated tx that
contains an empty value next to a non-empty one (either order) goes out by digest (an empty value always
"reads" fine and is neutral for both "all or none" guards), a tx whose NON-EMPTY values are partly there is
refused as before, an untruncated tx with an empty value goes out with its values; later exports are served. -/
example :
    exportRun [(30, .eof), (0, .ok)] = ⟨.digests, false⟩ ∧ exportRun [(0, .ok), (30, .eof)] = ⟨.digests, false⟩ ∧
    exportRun [(0, .ok), (30, .eof), (5, .ok)] = ⟨.errPartial, false⟩ ∧
    exportRun [(0, .ok), (30, .ok), (5, .eof)] = ⟨.errPartial, false⟩ ∧
    exportRun [(0, .ok), (30, .ok), (0, .ok)] = ⟨.values, false⟩ ∧ exportRun [(0, .ok), (0, .ok)] = ⟨.values, false⟩ ∧
    (let s : Store := { F := 64, maxIO := 1,
                        txs := [appendValues 1 0 [30, 0], appendValues 1 30 [60], appendValues 1 90 [60]],
                        vlogs := fun _ => { cur := 2, offset := 150, present := [0, 1, 2] } }
     let s1 := (truncateUpto s 3).store
     (s1.exportTx 1).2 = .digests ∧ ((s1.exportTx 1).1.exportTx 3).2 = .values) := by
  decide

/-- FULL STATEMENT THAT FAILS ON THE CURRENT CODE: `truncate_safe` for a tx that commits AFTER the
truncation but wrote its values BEFORE it (`precommit` appends the values before taking the commit
lock; `TruncateUptoTx` looks only at txs `≤ LastCommittedTxID()`).
**Finding K6 (witness).** Chunk size 64: tx1 committed (50 bytes at 0); writer A appends 50 bytes at
50 and stalls; writer B appends 50 bytes at 100 and commits as tx2; `TruncateUptoTx(2)` computes the
tombstone 100 and removes chunk 0; A commits as tx3 (`3 ≥ 2`) — its value is unreadable. -/
theorem truncate_unsafe_for_inflight_writer :
    let s0 : Store := { F := 64, maxIO := 1, txs := [appendValues 1 0 [50]],
                        vlogs := fun _ => { cur := 0, offset := 50, present := [0] } }
    let (sA, txA) := s0.appendInto 1 [50]
    let (sB, txB) := sA.appendInto 1 [50]
    let s2 := sB.commitTx txB
    let s3 := ((truncateUpto s2 2).store).commitTx txA
    Placed txA ∧ (∀ e ∈ txA, s2.readable e) ∧ (truncateUpto s2 2).out = .ok ∧
    s3.txs[3 - 1]? = some txA ∧ ¬ (∀ e ∈ txA, s3.readable e) := by
  refine ⟨⟨1, 50, [50], by decide⟩, by decide, by decide, by decide, by decide⟩

/-- **Effectiveness gap (not a safety issue).** Because an empty value is recorded with offset 0 in the
tx's vlog, a committed tx `id ≥ n` whose FIRST value is empty pins its whole value log: truncation
removes no chunk of it. -/
theorem empty_first_value_blocks_truncation (s : Store) (n id : Nat) (f : Ent) (rest : TxEnts)
    (h1 : 1 ≤ id) (hn : n ≤ id) (hid : id ≤ s.last) (htx : s.txs[id - 1]? = some (f :: rest))
    (hf : f.off = 0) :
    ((truncateUpto s n).store.vlogs f.vlog).present = (s.vlogs f.vlog).present := by
  unfold truncateUpto
  split
  · rfl
  · split
    · rfl
    · rename_i t ht
      obtain ⟨_, hp⟩ := discardAll_spec t s []
      rw [hp]
      apply filter_triv
      intro c
      rw [List.all_eq_true]
      intro p hpin
      unfold tombstones at ht
      split at ht
      · cases ht
      · obtain ⟨_, hb⟩ := frontWalk_spec s _ _ _ _ ht
        have hfe : s.firstEntry id = .ok f := by
          unfold Store.firstEntry
          have : ¬ id = 0 := by omega
          have h2 : ¬ s.last < id := by omega
          simp [this, h2, htx]
        have hbf := hb id f hn (by omega) hfe p (okPrefix_sub s t p hpin)
        by_cases hv : p.1 = f.vlog
        · have : p.2 = 0 := by have := hbf hv; omega
          simp [removes, VLog.removedBy, chunkOf, this]
        · simp [removes, hv]

/-! ### Database level: the catalog copy in front of the truncation (pkg/database/truncator.go, `Store/TruncateDb.lean`) -/

section DatabaseLevel
open ImmuModel.Store.TruncateDb ImmuModel.Store.TruncateDbAux

/-- **The order the model transcribes is the order of the code** (facts regenerated from
`pkg/database/truncator.go vlogTruncator.TruncateUptoTx` at every run by extract/c14db.go): ONE catalog copy; the statement
after it is the guard `if err != nil { …; return err }` — its last statement LEAVES the function, it has no `else`;
no store truncation is called before the end of that guard and exactly one after it.  (`dbTruncate` = copy,
`truncationRuns`, `truncateUpto`.)  If the guard stops returning, the copy moves behind the truncation or a second
truncation call appears, this stops elaborating and the property is reported as no longer shown. -/
theorem db_truncator_as_in_code :
    ImmuModel.Gen.C14Db.dbTruncCopyStmt = "sqlCatalogTxID, err := v.db.CopySQLCatalog(ctx, txID)" ∧
    ImmuModel.Gen.C14Db.dbTruncCopyCalls = 1 ∧
    ImmuModel.Gen.C14Db.dbTruncCopyGuard = "if err != nil { …; return err }" ∧
    ImmuModel.Gen.C14Db.dbTruncStoreCallsBeforeGuardEnd = 0 ∧
    ImmuModel.Gen.C14Db.dbTruncStoreCallsAfterGuard = 1 :=
  ⟨rfl, rfl, rfl, rfl, rfl⟩

/-- **One database-level truncation keeps the catalog loadable**, whatever `CopySQLCatalog` answers (failed before
writing, failed at commit after staging its values, committed into any value log), for every cut `n` (also beyond the
last tx), every store geometry and whatever the store truncation answers: every catalog entry readable before is
readable afterwards — where "the catalog" afterwards is the COPY when the copy committed.  By the copy-before-truncate
order: the copy is tx `last + 1 ≥ n`, its values have just been written, and `truncate_safe` keeps them. -/
theorem db_truncate_keeps_catalog (d : Db) (c : Copy) (n : Nat) (hwf : StoreWF d.store) (hcat : CatalogReadable d) :
    CatalogReadable (dbTruncate d c n).1 ∧ StoreWF (dbTruncate d c n).1.store := by
  have := dbTruncate_inv d c n ⟨hwf, hcat⟩
  exact ⟨this.2, this.1⟩

/-- **After ANY sequence of database-level truncations** — interleaved with ordinary writes, DDL transactions that
replace any part of the catalog, and restarts; every copy outcome, every cut — **the catalog entries are readable.** -/
theorem db_truncations_keep_catalog (ops : List Op) (d : Db) (hwf : StoreWF d.store) (hcat : CatalogReadable d) :
    CatalogReadable (run d ops) :=
  (run_inv ops d ⟨hwf, hcat⟩).2

/-- **A refused truncation removes nothing**: when the truncator returns the error of the copy, every chunk file of
every value log is still there, and the tx log is what it was. -/
theorem db_truncate_refused_removes_nothing (d : Db) (c : Copy) (n : Nat) (h : (dbTruncate d c n).2 = .copyErr) :
    (dbTruncate d c n).1.store.txs = d.store.txs ∧ (dbTruncate d c n).1.catalog = d.catalog ∧
    ∀ v ch, ch ∈ (d.store.vlogs v).present → ch ∈ ((dbTruncate d c n).1.store.vlogs v).present := by
  cases c with
  | fail => exact ⟨rfl, rfl, fun _ _ hc => hc⟩
  | failStaged k =>
    exact ⟨rfl, rfl, fun v ch hc => ImmuModel.Store.TruncateRunAux.appendInto_present _ _ _ _ _ hc⟩
  | ok k => simp [dbTruncate, copyCatalog, truncationRuns] at h

/-- **Witness: truncating after a FAILED copy loses the catalog** (the counterfactual `dbTruncateNoAbort`: "log the error
and go on").  Chunk size 64; tx1 = a DDL (two catalog values of 20 bytes in chunk 0), tx2 = a 64-byte filler,
tx3 = a 30-byte value in chunk 1; cut 3.  The database is well formed and its catalog loads.  With a failed copy the
code (`dbTruncate`) refuses and the catalog still loads; with a committed copy it removes chunk 0 and the catalog — now
the copy, tx4 — loads; going on after the failed copy removes chunk 0 as well, answers ok, and NO catalog entry can be
read any more. -/
theorem truncate_after_failed_copy_loses_catalog :
    let d : Db := { store := { F := 64, maxIO := 1,
                               txs := [appendValues 1 0 [20, 20], appendValues 1 40 [64], appendValues 1 104 [30]],
                               vlogs := fun _ => { cur := 2, offset := 134, present := [0, 1, 2] } },
                    catalog := appendValues 1 0 [20, 20] }
    StoreWF d.store ∧ CatalogReadable d ∧
    (dbTruncate d .fail 3).2 = .copyErr ∧ CatalogReadable (dbTruncate d .fail 3).1 ∧
    (dbTruncate d (.ok 0) 3).2 = .trunc .ok ∧ ((dbTruncate d (.ok 0) 3).1.store.vlogs 1).present = [1, 2] ∧
      CatalogReadable (dbTruncate d (.ok 0) 3).1 ∧
    (dbTruncateNoAbort d .fail 3).2 = .trunc .ok ∧ ((dbTruncateNoAbort d .fail 3).1.store.vlogs 1).present = [1, 2] ∧
      (∀ e ∈ (dbTruncateNoAbort d .fail 3).1.catalog, ¬ (dbTruncateNoAbort d .fail 3).1.store.readable e) := by
  refine ⟨fun v => ⟨by show 2 ∈ [0, 1, 2]; decide, by show 2 ≤ chunkOf 64 134; decide⟩, ?_, by decide, ?_, by decide, by decide, ?_, by decide, by decide, by decide⟩
  · unfold CatalogReadable; decide
  · unfold CatalogReadable; decide
  · unfold CatalogReadable; decide

end DatabaseLevel

end ImmuModel.Props.C14
