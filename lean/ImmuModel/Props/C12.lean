/-
C12 — SQL integrity constraints hold in every reachable state.

ONLY property theorems and non-vacuity examples live here; helper lemmas are in
ImmuModel/Sql/Proofs/Dml*.lean.  Model: ImmuModel/Sql/Dml.lean (`exec`, mirror of
`UpsertIntoStmt.execAt` / `UpdateStmt.execAt` / `DeleteFromStmt.execAt` / `doUpsert`),
ImmuModel/Sql/TxProg.lean (`step`, `run`: transactions), vocabulary: Sql/DmlSpec.lean.

The code does NOT maintain the full invariant `Inv`: the negation is proved on concrete witnesses
(`update_sets_null_in_not_null`, `unique_violated_after_delete`); what it does maintain is `Inv0`
(primary key unique, declared lengths, auto-increment high-water mark, key bookkeeping) — theorems
`exec_preserves_inv_partial`, `reachable_inv_partial`.

Concurrent sessions (added for the seeded change c12-a; model ImmuModel/Sql/Sessions.lean, namespace `Mv`:
per-index snapshots at first use, the read-set of the constraint checks, `checkPreconditions`' loop body
`probeOK`, COMMIT = validate + apply the write-set): `unique_writes_are_probed`,
`stale_unique_lookup_conflicts`, `unique_race_second_committer_fails_partial`, witnesses
`concurrent_insert_insert_conflict`, `concurrent_update_insert_conflict`.

Concurrency is inherited from the store's MVCC (C05): `OngoingTx.GetWithFilters` records the primary
key existence read (found: `expectedGet{expectedTx}`, not found: `expectedGet{}`) and
`GetWithPrefixAndFilters` records the unique-prefix read (`expectedGetsWithPrefix`) in the read-set;
Constraints ADDED while sessions are active (added for the seeded change c12-b; `Sql/CatalogDml.lean` joins the DML
model with the catalog-cache protocol `Sql/CatalogCache.lean` whose coherence is proved in
`Sql/Proofs/CatalogCacheMain.lean`): `new_tx_checks_against_committed_schema`,
`insert_after_committed_unique_index_rejects_duplicate`, `insert_after_committed_not_null_enforced_partial`,
witnesses `stale_schema_admits_duplicate` / `same_schedule_code_rejects_duplicate`.

Values AS WRITTEN (added for the seeded change c12-c; `Sql/Conv.lean`: the TIMESTAMP converters, the key the
statement probes and the key the indexer derives from the stored row): `probe_key_is_indexer_key`,
`timestamp_from_string_probe_key_is_indexer_key`, `timestamp_spellings_of_one_stored_value_probe_one_key`, witness
`untruncated_timestamp_probe_key_differs`.

both are issued by `execAt`/`doUpsert` through the SQL transaction's `OngoingTx` (`tx.get`,
`tx.getWithPrefix`).  In model terms this is `uniqueness_reads_in_readset`: the uniqueness decision
depends on nothing but the entries under the read prefix.
-/
import ImmuModel.Sql.Proofs.DmlMain
import ImmuModel.Sql.Proofs.SessionsMain
import ImmuModel.Sql.Proofs.CatalogDmlMain
import ImmuModel.Sql.Proofs.ConvMain

namespace ImmuModel.Props.C12
open ImmuModel ImmuModel.Sql

/-- **What every successful statement preserves.** -/
theorem exec_preserves_inv_partial (s : Schema) (db db' : DB) (st : Stmt)
    (h : Inv0 s db) (he : exec s db st = .ok db') : Inv0 s db' :=
  DmlMainAux.exec_inv0 h he
/- Full statement (FALSE of the code, see the two witnesses below):
   `Inv s db → exec s db st = .ok db' → Inv s db'`. -/

/-- The INSERT family enforces NOT NULL: rows it writes have no NULL in a NOT NULL column — provided
that (for UPSERT) every NOT NULL auto-increment column belongs to the primary key, as `CREATE TABLE`
demands (`ErrLimitedAutoIncrement`): an UPSERT that leaves an auto-increment column out writes NULL
into it, and only `encodedKey` (`ErrPKCanNotBeNull`) rejects that. -/
theorem insert_enforces_not_null_partial (s : Schema) (db db' : DB) (k : InsKind) (cols : List Nat)
    (rows : List (List Val))
    (hauto : k ≠ .upsert ∨ ∀ (c : Nat) (cs : ColSpec), s.cols[c]? = some cs → cs.autoInc = true →
      cs.notNull = true → c ∈ s.pk)
    (h : notNullOK s db) (he : exec s db (.ins k cols rows) = .ok db') :
    notNullOK s db' :=
  DmlMainAux.exec_ins_notNull hauto h he
/- Full statement (FALSE of the model without `hauto`): `insert_enforces_not_null`
   `notNullOK s db → exec s db (.ins k cols rows) = .ok db' → notNullOK s db'`.
   What is missing: the `Schema` structure does not force an auto-increment column to be the primary
   key.  With a NOT NULL auto-increment column OUTSIDE the key, `UPSERT` without that column takes
   the last branch of `build` (`k != .upsert && cs.autoInc` is false) and stores NULL; see the
   counterexample right below.  (Not reachable through `CREATE TABLE` of the code.) -/

/-- the counterexample to the statement without `hauto` -/
example : ∃ (s : Schema) (db' : DB), notNullOK s {} ∧
    exec s {} (.ins .upsert [0] [[.int 1]]) = .ok db' ∧ db'.rows = [[.int 1, .null]] ∧
    ¬ notNullOK s db' := by
  refine ⟨{ cols := [{ col := ⟨.integer, 8⟩, notNull := false, autoInc := false },
                      { col := ⟨.integer, 8⟩, notNull := true, autoInc := true }],
            pk := [0], idx := [], check := none },
    { rows := [[.int 1, .null]], known := [[128, 128, 0, 0, 0, 0, 0, 0, 1]], updated := 1 },
    fun r hr => (by cases hr), rfl, rfl, ?_⟩
  intro h
  exact h [.int 1, .null] (List.mem_singleton.2 rfl) 1 _ rfl rfl rfl

/-- **A failing statement has no effect**: the transaction is cancelled, the committed state and what
others see are unchanged. -/
theorem exec_fail_no_effect (sc : Schema) (s : Sess) (t : OpenTx) (st : Stmt) (e : DmlErr)
    (ht : s.tx = some t) (he : exec sc t.db st = .error e) :
    (step sc s (.stmt st)).1.committed = s.committed ∧ (step sc s (.stmt st)).1.tx = none ∧
    (step sc s (.stmt st)).2 = .error e :=
  DmlMainAux.stmt_fail sc s t st e ht he

/-- **Every reachable committed state satisfies `Inv0`**, whatever sequence of transactions,
statements, failures, rollbacks and savepoint operations led to it. -/
theorem reachable_inv_partial (sc : Schema) (ops : List Op) (db0 : DB)
    (h : beginTx sc (run sc {} ops).1.committed = .ok db0) : Inv0 sc db0 :=
  DmlMainAux.reachable_inv0 sc ops db0 h

/-- The uniqueness decision reads nothing but the entries under the index-value prefix: two states
that agree on them decide alike (this is what the MVCC read-set has to protect). -/
theorem uniqueness_reads_in_readset (s : Schema) (db1 db2 : DB) (i : Nat) (cs : List Nat)
    (vals self : Bytes)
    (hrows : ∀ r, (r ∈ db1.rows ∧ idxEnc s cs r = .ok vals) ↔ (r ∈ db2.rows ∧ idxEnc s cs r = .ok vals))
    (hsame : db1.rows.filter (fun r => idxEnc s cs r == .ok vals) = db2.rows.filter (fun r => idxEnc s cs r == .ok vals))
    (htomb : db1.tombs.filter (fun t => t.idx = i ∧ t.vals = vals) = db2.tombs.filter (fun t => t.idx = i ∧ t.vals = vals))
    (hok1 : ∀ r, r ∈ db1.rows → ∃ v k, idxEnc s cs r = .ok v ∧ pkEnc s r = .ok k)
    (hok2 : ∀ r, r ∈ db2.rows → ∃ v k, idxEnc s cs r = .ok v ∧ pkEnc s r = .ok k) :
    uniqueHit s db1 i cs vals self = uniqueHit s db2 i cs vals self := by
  -- `hrows` follows from `hsame` (membership in the two filtered lists); it is not needed
  have _ := hrows
  exact DmlMainAux.uniqueHit_congr s db1 db2 i cs vals self hsame htomb hok1 hok2

/-- **UPDATE / DELETE touch only rows that satisfy their WHERE.**  Whatever index the statement's plan
chooses (`Plan.planIndex`: primary key, or the secondary index with the longest equality-covered prefix)
and whatever key window it derives from the WHERE, the rows the statement reads are rows of the table —
each at most once — and the WHERE is true on every one of them. -/
theorem dml_reads_only_matching_rows (s : Schema) (rows hit : List Row) (p : Pred)
    (h : selectRows s rows (some p) = .ok hit) :
    (∃ l : List Row, l.Perm rows ∧ hit.Sublist l) ∧ ∀ r ∈ hit, keeps p r = .ok true :=
  DmlMainAux.selectRows_sound h
/- Full statement (FALSE of the code, see `delete_where_negzero_misses_poszero`): the statement reads ALL
   rows satisfying the WHERE, `hit.Perm (rowsWhere p rows)`.  It holds in the fragment of C11
   (`plan_independent_fragment`: constants and stored values without −0.0 / NaN), because there the key
   window contains every row the predicate accepts. -/

-- ---------------------------------------------------------------- witnesses of the negation

def wSchemaF : Schema :=
  { cols := [{ col := ⟨.float64, 8⟩, notNull := false, autoInc := false },
             { col := ⟨.integer, 8⟩, notNull := false, autoInc := false }],
    pk := [0], idx := [], check := none }

/-- **Finding (R13 / C15 F5 in DML).** `DELETE FROM t WHERE id = -0.0` on a FLOAT key does not read the
row whose key is +0.0 although the WHERE is true on it (`Float64.Compare` = 0): the scan window is made
of key bytes, and the two zeros encode differently.  Likewise a row with key −0.0 can be inserted next to
one with key +0.0 (two live rows with equal keys). -/
theorem delete_where_negzero_misses_poszero :
    keeps (.cmp 0 .eq false (.float 0x8000000000000000)) [.float 0, .int 10] = .ok true ∧
    selectRows wSchemaF [[.float 0, .int 10]] (some (.cmp 0 .eq false (.float 0x8000000000000000))) = .ok [] ∧
    (∃ db db', exec wSchemaF {} (.ins .insert [0, 1] [[.float 0, .int 10]]) = .ok db ∧
      exec wSchemaF db (.ins .insert [0, 1] [[.float 0x8000000000000000, .int 5]]) = .ok db' ∧
      db'.rows = [[.float 0, .int 10], [.float 0x8000000000000000, .int 5]] ∧
      sqlCompare (.float 0) (.float 0x8000000000000000) = .ok 0) := by
  refine ⟨by decide, by decide, ?_⟩
  exact ⟨_, _, rfl, rfl, rfl, by decide⟩

def wSchemaNN : Schema :=
  { cols := [{ col := ⟨.integer, 8⟩, notNull := false, autoInc := false },
             { col := ⟨.integer, 8⟩, notNull := true, autoInc := false }],
    pk := [0], idx := [], check := none }

/-- **Finding.** `UPDATE t SET a = NULL` on a NOT NULL column succeeds and stores the NULL. -/
theorem update_sets_null_in_not_null :
    ∃ db db', exec wSchemaNN {} (.ins .insert [0, 1] [[.int 1, .int 10]]) = .ok db ∧
      notNullOK wSchemaNN db ∧
      exec wSchemaNN db (.upd [{ col := 1, incr := false, v := .null }] none) = .ok db' ∧
      db'.rows = [[.int 1, .null]] := by
  refine ⟨{ rows := [[.int 1, .int 10]], known := [[128, 128, 0, 0, 0, 0, 0, 0, 1]], updated := 1 },
    { rows := [[.int 1, .null]], known := [[128, 128, 0, 0, 0, 0, 0, 0, 1]], updated := 2 },
    rfl, ?_, rfl, rfl⟩
  intro row hrow c cs hc hnn
  simp only [List.mem_singleton] at hrow
  subst hrow
  match c, hc with
  | 0, hc => simp [wSchemaNN] at hc; subst hc; simp at hnn
  | 1, _ => simp
  | c + 2, hc => simp [wSchemaNN] at hc

def wSchemaU : Schema :=
  { cols := [{ col := ⟨.integer, 8⟩, notNull := false, autoInc := false },
             { col := ⟨.integer, 8⟩, notNull := false, autoInc := false }],
    pk := [0], idx := [(true, [1])], check := none }

def wProgU : List Op :=
  [.begin, .stmt (.ins .insert [0, 1] [[.int 1, .int 5]]), .commit,
   .begin, .stmt (.del none), .commit,
   .begin, .stmt (.ins .insert [0, 1] [[.int 2, .int 5]]), .commit,
   .begin, .stmt (.ins .insert [0, 1] [[.int 3, .int 5]]), .commit]

/-- **Finding.** After a row was deleted, a UNIQUE index allows two live rows with its value: the
deleted entry (smallest key under the prefix) hides the live one from `getWithPrefix`. -/
theorem unique_violated_after_delete :
    (run wSchemaU {} wProgU).1.committed.rows = [[.int 2, .int 5], [.int 3, .int 5]] ∧
    (run wSchemaU {} wProgU).2 = [.ok 0, .ok 1, .ok 1, .ok 0, .ok 1, .ok 1, .ok 0, .ok 1, .ok 1, .ok 0, .ok 1, .ok 1] := by
  constructor <;> rfl

-- ---------------------------------------------------------------- concurrent sessions

/-- **Every unique tuple a transaction writes is protected by a recorded read.**  In every schedule of
BEGIN / statement / COMMIT / ROLLBACK events of any number of sessions, each transient entry `(index,
values)` an open transaction has written into a UNIQUE index is covered by an
`expectedGetWithPrefix{prefix = values, expectedTx = 0}` ("nothing live first under this prefix") in its
read-set. -/
theorem unique_writes_are_probed (sc : Schema) (evs : List Mv.Ev) (i : Nat) (p : Nat × Bytes)
    (hp : p ∈ ((Mv.run sc {} evs).1.get i).wuniq) :
    Mv.Probe.pget p.1 p.2 none 0 ∈ ((Mv.run sc {} evs).1.get i).probes :=
  SessionsAux.run_probed sc evs {} SessionsAux.allProbed_init i p hp

/-- **A uniqueness lookup that found nothing is invalidated by any entry that is live first under the
prefix at COMMIT**: the transaction fails with `ErrTxReadConflict`.  (This is the branch of
`checkPreconditions` the seeded change c12-a removes.) -/
theorem stale_unique_lookup_conflicts (sc : Schema) (st : Mv.Store) (se : Mv.Sess) (i : Nat) (v : Bytes)
    (e : Mv.UEntry) (hw : se.wrows ≠ []) (hp : Mv.Probe.pget i v none 0 ∈ se.probes)
    (hl : st.pgetLive i v = some e) : Mv.commit sc st se = .error .readConflict :=
  SessionsAux.commit_stale_probe sc st se i v e hw hp hl

/-- **Of two overlapping transactions that write the same unique tuple the second committer fails**: in
every schedule, a session that has written `(index, values)` and whose COMMIT finds a live first entry
under that prefix in the committed store gets a read conflict, and the committed store is unchanged. -/
theorem unique_race_second_committer_fails_partial (sc : Schema) (evs : List Mv.Ev) (i idx : Nat)
    (v : Bytes) (e : Mv.UEntry)
    (ha : ((Mv.run sc {} evs).1.get i).active = true)
    (hw : ((Mv.run sc {} evs).1.get i).wrows ≠ [])
    (hu : (idx, v) ∈ ((Mv.run sc {} evs).1.get i).wuniq)
    (hl : (Mv.run sc {} evs).1.st.pgetLive idx v = some e) :
    (Mv.step sc (Mv.run sc {} evs).1 (.commit i)).2 = .err .readConflict ∧
    (Mv.step sc (Mv.run sc {} evs).1 (.commit i)).1.st = (Mv.run sc {} evs).1.st := by
  have hc := stale_unique_lookup_conflicts sc _ _ idx v e hw
    (unique_writes_are_probed sc evs i (idx, v) hu) hl
  simp only [Mv.step, ha, hc]
  exact ⟨rfl, rfl⟩
/- Full statement (not proved; FALSE of the code in general because of finding R2, see
   `unique_violated_after_delete`): `∀ evs, uniqueOK`-style duplicate freedom of the live rows of
   `(Mv.run sc {} evs).1.st` for every unique index.  What is missing for schedules that never leave a
   deleted entry under a written prefix: (1) the link between the write-set (`wrows`) and `wuniq` at COMMIT
   (the row an UPDATE/UPSERT replaces is the one its validated reader saw), (2) the consistency invariant
   "every live row has its live index entry" across `applyWrites`.  With a deleted first entry under the
   prefix `pgetLive` is `none` although live entries may follow (R2): then no conflict is raised. -/

def wProgII : List Mv.Ev :=
  [.begin 0, .begin 1,
   .stmt 0 (.ins .insert [0, 1] [[.int 1, .int 5]]),
   .stmt 1 (.ins .insert [0, 1] [[.int 2, .int 5]]),
   .commit 0, .commit 1]

/-- witness (and non-vacuity of the hypotheses above): two sessions insert the same unique value under
different primary keys, both uniqueness lookups run before the first COMMIT; the second COMMIT fails. -/
theorem concurrent_insert_insert_conflict :
    (Mv.run wSchemaU {} wProgII).1.st.rows = [[.int 1, .int 5]] ∧
    (∃ st' : Mv.World, (Mv.run wSchemaU {} wProgII) =
      (st', [.ok 0, .ok 0, .ok 1, .ok 1, .ok 1, .err .readConflict])) := by
  constructor
  · rfl
  · exact ⟨_, rfl⟩

def wProgUI : List Mv.Ev :=
  [.begin 0, .stmt 0 (.ins .insert [0, 1] [[.int 1, .int 4]]), .commit 0,
   .begin 0, .begin 1,
   .stmt 0 (.upd [{ col := 1, incr := false, v := .int 5 }] (some (.cmp 0 .eq false (.int 1)))),
   .stmt 1 (.ins .insert [0, 1] [[.int 2, .int 5]]),
   .commit 1, .commit 0]

/-- witness: UPDATE of an indexed column to the value a concurrent INSERT commits first -/
theorem concurrent_update_insert_conflict :
    (Mv.run wSchemaU {} wProgUI).1.st.rows = [[.int 1, .int 4], [.int 2, .int 5]] ∧
    (∃ st' : Mv.World, (Mv.run wSchemaU {} wProgUI) =
      (st', [.ok 0, .ok 1, .ok 1, .ok 0, .ok 0, .ok 1, .ok 1, .ok 1, .err .readConflict])) := by
  constructor
  · rfl
  · exact ⟨_, rfl⟩

/-- non-vacuity of `unique_race_second_committer_fails_partial`: its hypotheses hold for session 1 after
the first five events of `wProgII` -/
example : ∃ (e : Mv.UEntry) (v : Bytes),
    ((Mv.run wSchemaU {} (wProgII.take 5)).1.get 1).active = true ∧
    ((Mv.run wSchemaU {} (wProgII.take 5)).1.get 1).wrows ≠ [] ∧
    (0, v) ∈ ((Mv.run wSchemaU {} (wProgII.take 5)).1.get 1).wuniq ∧
    (Mv.run wSchemaU {} (wProgII.take 5)).1.st.pgetLive 0 v = some e :=
  ⟨_, [128, 128, 0, 0, 0, 0, 0, 0, 5], rfl, by decide, by decide, rfl⟩

-- ---------------------------------------------------------------- non-vacuity of the hypotheses

/-- non-vacuity: the empty table satisfies `Inv0`, and a statement succeeds on it -/
example : Inv0 wSchemaU {} ∧
    ∃ db', exec wSchemaU {} (.ins .insert [0, 1] [[.int 1, .int 5]]) = .ok db' ∧
      db'.rows = [[.int 1, .int 5]] :=
  ⟨DmlMainAux.inv0_empty _, _, rfl, rfl⟩

/-- non-vacuity: the hypotheses hold on a concrete INSERT into a table with a NOT NULL column -/
example : (InsKind.insert ≠ .upsert ∨ ∀ (c : Nat) (cs : ColSpec), wSchemaNN.cols[c]? = some cs →
      cs.autoInc = true → cs.notNull = true → c ∈ wSchemaNN.pk) ∧ notNullOK wSchemaNN {} ∧
    ∃ db', exec wSchemaNN {} (.ins .insert [0, 1] [[.int 1, .int 10]]) = .ok db' ∧
      db'.rows = [[.int 1, .int 10]] :=
  ⟨Or.inl (by decide), fun r hr => (by cases hr), _, rfl, rfl⟩

/-- non-vacuity: an INSERT leaving the NOT NULL column out fails inside an open transaction -/
example : ∃ (s : Sess) (t : OpenTx), s.tx = some t ∧
    exec wSchemaNN t.db (.ins .insert [0] [[.int 1]]) = .error .notNull :=
  ⟨{ tx := some { db := {}, sps := [] } }, { db := {}, sps := [] }, rfl, rfl⟩

/-- non-vacuity: a program with two committed transactions, after which `beginTx` succeeds -/
example : ∃ db0, beginTx wSchemaU (run wSchemaU {}
      [.begin, .stmt (.ins .insert [0, 1] [[.int 1, .int 5]]), .commit,
       .begin, .stmt (.ins .insert [0, 1] [[.int 2, .int 6]]), .commit]).1.committed = .ok db0 ∧
    db0.rows = [[.int 1, .int 5], [.int 2, .int 6]] :=
  ⟨_, rfl, rfl⟩


/-- non-vacuity: two states that differ in a row under ANOTHER index value satisfy the hypotheses
(and the decision is "duplicate" in both) -/
example : ∃ (db1 db2 : DB) (vals : Bytes),
    (∀ r, (r ∈ db1.rows ∧ idxEnc wSchemaU [1] r = .ok vals) ↔ (r ∈ db2.rows ∧ idxEnc wSchemaU [1] r = .ok vals)) ∧
    db1.rows.filter (fun r => idxEnc wSchemaU [1] r == .ok vals) = db2.rows.filter (fun r => idxEnc wSchemaU [1] r == .ok vals) ∧
    db1.tombs.filter (fun t => t.idx = 0 ∧ t.vals = vals) = db2.tombs.filter (fun t => t.idx = 0 ∧ t.vals = vals) ∧
    (∀ r, r ∈ db1.rows → ∃ v k, idxEnc wSchemaU [1] r = .ok v ∧ pkEnc wSchemaU r = .ok k) ∧
    (∀ r, r ∈ db2.rows → ∃ v k, idxEnc wSchemaU [1] r = .ok v ∧ pkEnc wSchemaU r = .ok k) ∧
    db1.rows ≠ db2.rows ∧ uniqueHit wSchemaU db1 0 [1] vals [] = .ok true := by
  refine ⟨{ rows := [[.int 1, .int 5]] }, { rows := [[.int 1, .int 5], [.int 2, .int 6]] },
    [128, 128, 0, 0, 0, 0, 0, 0, 5], ?_, by decide, rfl, ?_, ?_, by decide, rfl⟩
  · intro r
    constructor
    · rintro ⟨hr, he⟩
      simp only [List.mem_singleton] at hr; subst hr
      exact ⟨List.mem_cons_self, he⟩
    · rintro ⟨hr, he⟩
      simp only [List.mem_cons, List.not_mem_nil, or_false] at hr
      rcases hr with rfl | rfl
      · exact ⟨List.mem_singleton.2 rfl, he⟩
      · exact absurd he (by decide)
  · intro r hr
    simp only [List.mem_singleton] at hr; subst hr
    exact ⟨_, _, rfl, rfl⟩
  · intro r hr
    simp only [List.mem_cons, List.not_mem_nil, or_false] at hr
    rcases hr with rfl | rfl <;> exact ⟨_, _, rfl, rfl⟩

-- ---------------------------------------------------------------- constraints added while sessions are active

section CatalogGenerations
open ImmuModel.Sql.CatCache ImmuModel.Sql.CatDml

/-- **A transaction that begins after a DDL commit checks its statements against the committed schema.**  For
EVERY schedule of any number of sessions (BEGIN read-only / read-write, DDL, DML, COMMIT incl. conflicting and
EMPTY ones, ROLLBACK, engine re-open; cold or warm engine-wide catalog cache) and every schema history `h`: the
transaction `NewTx` opens now is registered with the committed catalog generation, so every statement executed in
it runs `exec` under `h committed` — the schema that contains every constraint declared by a committed
CREATE TABLE / CREATE UNIQUE INDEX / ALTER TABLE. -/
theorem new_tx_checks_against_committed_schema (h : Hist) (ops : List CatCache.Op) (sid : Nat) (ro : Bool)
    (hfree : findTx sid (CatCache.run codeCfg {} ops).1.txs = none) :
    ∃ t, findTx sid (CatCache.step codeCfg (CatCache.run codeCfg {} ops).1 (.newTx sid ro)).1.txs = some t ∧
      txSchema h t = h (CatCache.run codeCfg {} ops).1.committed ∧
      (∀ db st, execIn h (CatCache.step codeCfg (CatCache.run codeCfg {} ops).1 (.newTx sid ro)).1 sid db st =
        some (exec (h (CatCache.run codeCfg {} ops).1.committed) db st)) ∧
      (∀ db row reuse, upsertIn h (CatCache.step codeCfg (CatCache.run codeCfg {} ops).1 (.newTx sid ro)).1 sid db row reuse =
        some (doUpsert (h (CatCache.run codeCfg {} ops).1.committed) db row reuse)) := by
  have hi : CatCache.Inv (CatCache.run codeCfg {} ops).1 := CatCache.MainAux.run_inv ops {} CatCache.MainAux.inv_init
  obtain ⟨t, _, _, hf, hc⟩ := CatDmlAux.newTx_registers codeCfg (CatCache.run codeCfg {} ops).1 sid ro hfree
  have hfresh : (openTx (CatCache.run codeCfg {} ops).1 ro).1.cat = (CatCache.run codeCfg {} ops).1.committed := by
    have := CatCache.MainAux.fresh_of_inv _ hi
    generalize (CatCache.run codeCfg {} ops).1 = e at *
    cases hcache : e.cache with
    | none => simp [openTx, hcache]
    | some c => simp [openTx, hcache, hi.1 c hcache]
  have hcat : t.cat = (CatCache.run codeCfg {} ops).1.committed := hc.trans hfresh
  refine ⟨t, hf, by simp [txSchema, hcat], ?_, ?_⟩
  · intro db st; simp [execIn, hf, txSchema, hcat]
  · intro db row reuse; simp [upsertIn, hf, txSchema, hcat]

/-- **After a committed CREATE UNIQUE INDEX no later transaction can insert a duplicate of a live tuple.**  If the
committed schema `h committed` declares the UNIQUE index `(true, cs)` (position `j`), then in the transaction opened
now — whatever open / empty / reader transactions of other sessions committed before, on a cold or warm cache — the
write path `doUpsert` of INSERT refuses every row whose index values `vals` are held by a live row `r` with another
primary key (no deleted entry under the prefix: the R2 case is excluded by `hdead`).  This is what the seeded change
c12-b breaks: there the transaction is registered with an OLDER generation (see `stale_schema_admits_duplicate`). -/
theorem insert_after_committed_unique_index_rejects_duplicate (h : Hist) (ops : List CatCache.Op) (sid : Nat)
    (hfree : findTx sid (CatCache.run codeCfg {} ops).1.txs = none)
    (db db' : DB) (row r : Row) (j : Nat) (cs : List Nat) (vals k k' : Bytes)
    (hidx : (h (CatCache.run codeCfg {} ops).1.committed).idx[j]? = some (true, cs))
    (hok : ∀ r, r ∈ db.rows → ∃ v k, idxEnc (h (CatCache.run codeCfg {} ops).1.committed) cs r = .ok v ∧
      pkEnc (h (CatCache.run codeCfg {} ops).1.committed) r = .ok k)
    (hr : r ∈ db.rows) (hv : idxEnc (h (CatCache.run codeCfg {} ops).1.committed) cs r = .ok vals)
    (hk' : pkEnc (h (CatCache.run codeCfg {} ops).1.committed) r = .ok k')
    (hrow : idxEnc (h (CatCache.run codeCfg {} ops).1.committed) cs row = .ok vals)
    (hk : pkEnc (h (CatCache.run codeCfg {} ops).1.committed) row = .ok k) (hne : k' ≠ k)
    (hdead : db.tombs.filter (fun t => t.idx = j ∧ t.vals = vals) = []) :
    upsertIn h (CatCache.step codeCfg (CatCache.run codeCfg {} ops).1 (.newTx sid false)).1 sid db row false ≠
      some (.ok db') := by
  obtain ⟨_, _, _, _, hu⟩ := new_tx_checks_against_committed_schema h ops sid false hfree
  rw [hu db row false]
  intro heq
  exact CatDmlAux.doUpsert_rejects_live_duplicate _ db db' row r j cs vals k k' hidx hok hr hv hk' hrow hk hne hdead
    (Option.some.inj heq)

/-- **After a committed NOT NULL declaration every later INSERT enforces it** (composition with
`insert_enforces_not_null_partial`; same side condition on auto-increment columns). -/
theorem insert_after_committed_not_null_enforced_partial (h : Hist) (ops : List CatCache.Op) (sid : Nat)
    (hfree : findTx sid (CatCache.run codeCfg {} ops).1.txs = none)
    (db db' : DB) (k : InsKind) (cols : List Nat) (rows : List (List Val))
    (hauto : k ≠ .upsert ∨ ∀ (c : Nat) (cs : ColSpec),
      (h (CatCache.run codeCfg {} ops).1.committed).cols[c]? = some cs → cs.autoInc = true →
      cs.notNull = true → c ∈ (h (CatCache.run codeCfg {} ops).1.committed).pk)
    (hnn : notNullOK (h (CatCache.run codeCfg {} ops).1.committed) db)
    (he : execIn h (CatCache.step codeCfg (CatCache.run codeCfg {} ops).1 (.newTx sid false)).1 sid db
      (.ins k cols rows) = some (.ok db')) :
    notNullOK (h (CatCache.run codeCfg {} ops).1.committed) db' := by
  obtain ⟨_, _, _, hx, _⟩ := new_tx_checks_against_committed_schema h ops sid false hfree
  rw [hx db (.ins k cols rows)] at he
  exact insert_enforces_not_null_partial _ db db' k cols rows hauto hnn (Option.some.inj he)

/-- the schema history of the witness: generation 0 = the table without secondary index, from generation 1 on with
`UNIQUE(u)` (the committed `CREATE UNIQUE INDEX ON t(u)`) -/
def wHist : Hist := fun g => if g = 0 then { wSchemaU with idx := [] } else wSchemaU

/-- the schedule of c12-b / c13-a: cold cache, session 1 BEGINs, session 0 commits the DDL, session 1 commits EMPTY -/
def wOpsStale : List CatCache.Op := [.newTx 1 false, .newTx 0 false, .ddl 0, .commit 0, .commit 1]

/-- **Necessity witness (what the seeded change c12-b does).**  With the version bump of `invalidateCatalogCache`
skipped on a cold cache, the transaction opened after that schedule is registered with generation 0 although
generation 1 (with `UNIQUE(u)`) is committed, and `doUpsert` ACCEPTS the row (2,5) next to the live row (1,5). -/
theorem stale_schema_admits_duplicate :
    let e := (CatCache.step { codeCfg with bumpAlways := false }
      (CatCache.run { codeCfg with bumpAlways := false } {} wOpsStale).1 (.newTx 2 false)).1
    (CatCache.run { codeCfg with bumpAlways := false } {} wOpsStale).1.committed = 1 ∧
    (findTx 2 e.txs).map (·.cat) = some 0 ∧
    (wHist 1).idx = [(true, [1])] ∧
    (upsertIn wHist e 2 { rows := [[.int 1, .int 5]] } [.int 2, .int 5] false).map
      (fun x => x.toOption.map (·.rows)) = some (some [[.int 1, .int 5], [.int 2, .int 5]]) := by
  refine ⟨by decide, by decide, rfl, ?_⟩
  rfl

/-- the same schedule on the code as it is: the new transaction has generation 1 and the duplicate is refused -/
theorem same_schedule_code_rejects_duplicate :
    let e := (CatCache.step codeCfg (CatCache.run codeCfg {} wOpsStale).1 (.newTx 2 false)).1
    (findTx 2 e.txs).map (·.cat) = some 1 ∧
    (upsertIn wHist e 2 { rows := [[.int 1, .int 5]] } [.int 2, .int 5] false).map
      (fun x => match x with | .error .dupKey => true | _ => false) = some true := by
  refine ⟨by decide, ?_⟩
  rfl

/-- non-vacuity of `insert_after_committed_unique_index_rejects_duplicate`: its hypotheses hold after `wOpsStale`
for session 2, the live row (1,5) and the new row (2,5) -/
example : findTx 2 (CatCache.run codeCfg {} wOpsStale).1.txs = none ∧
    (wHist (CatCache.run codeCfg {} wOpsStale).1.committed).idx[0]? = some (true, [1]) ∧
    idxEnc (wHist 1) [1] [.int 1, .int 5] = .ok [128, 128, 0, 0, 0, 0, 0, 0, 5] ∧
    idxEnc (wHist 1) [1] [.int 2, .int 5] = .ok [128, 128, 0, 0, 0, 0, 0, 0, 5] ∧
    pkEnc (wHist 1) [.int 1, .int 5] = .ok [128, 128, 0, 0, 0, 0, 0, 0, 1] ∧
    pkEnc (wHist 1) [.int 2, .int 5] = .ok [128, 128, 0, 0, 0, 0, 0, 0, 2] :=
  ⟨by decide, rfl, rfl, rfl, rfl, rfl⟩

end CatalogGenerations

-- =============================================================== values as written (c12-c)

/-- **A value at the stored precision has ONE key.** For every column type: if the value the statement works with
is reproduced exactly by the row codec (`truncMicros v = v`: no digits below the microsecond), the key the indexer
derives from the committed row (`EncodeValueAsKey (DecodeValue (EncodeValue v))`) is the key the statement probes
(`EncodeValueAsKey v`) — the primary-key existence read and the UNIQUE prefix read look exactly where the committed
entry of an equal stored value is. -/
theorem probe_key_is_indexer_key (ty : SqlType) (maxLen keyLen : Int) (v : Val)
    (hv : validValue ty maxLen v = true) (hnn : v ≠ .null) (hp : truncMicros v = v) :
    Conv.indexerKey v ty maxLen keyLen = Conv.probeKey v ty keyLen :=
  Conv.MainAux.indexerKey_eq_probeKey hv hnn hp

/-- **TIMESTAMP from text** (string literal, VARCHAR parameter, CAST, every layout and every number of fractional
digits: `(sec, nsec)` is the instant `time.ParseInLocation` returned): the converter truncates to the microsecond
BEFORE the key is encoded, so probe key = indexer key. The same holds for a `time.Time` parameter
(`Conv.timeParamToTs` is the same function). -/
theorem timestamp_from_string_probe_key_is_indexer_key (sec : Int) (nsec : Nat) (hn : nsec < 1000000000)
    (hr : GoInt.InI64 (sec * 1000000 + ((nsec / 1000 : Nat) : Int))) :
    Conv.indexerKey (Conv.strToTs sec nsec) .timestamp 0 8 = Conv.probeKey (Conv.strToTs sec nsec) .timestamp 8 :=
  Conv.MainAux.indexerKey_eq_probeKey (Conv.MainAux.validValue_strToTs hn hr 0) (by simp [Conv.strToTs])
    (Conv.MainAux.truncMicros_strToTs sec nsec)

/-- Two texts denoting instants within the same microsecond are converted to the same value: they probe the same
key, whatever their sub-microsecond digits. -/
theorem timestamp_spellings_of_one_stored_value_probe_one_key (sec : Int) (n1 n2 : Nat) (h : n1 / 1000 = n2 / 1000) :
    Conv.probeKey (Conv.strToTs sec n1) .timestamp 8 = Conv.probeKey (Conv.strToTs sec n2) .timestamp 8 := by
  have e : n1 - n1 % 1000 = n2 - n2 % 1000 := by omega
  simp [Conv.strToTs, Conv.truncMicro, e]

/-- **Witness: without the truncation the two keys differ.** `'2024-05-06 07:08:09.123456789'` converted WITHOUT
`Truncate(time.Microsecond)`: the statement probes the nanosecond key `…5b0715`, the committed entry of the row
it stores — which is also the entry of the row written as `…09.123456` — is `…5b0400`: the existence check misses
the live row (duplicate under a UNIQUE index, silent overwrite of a primary key). With the truncation the probe is
`…5b0400` (last conjunct). -/
theorem untruncated_timestamp_probe_key_differs :
    ∃ kp ki, Conv.probeKey (Conv.strToTsNoTrunc 1714979289 123456789) .timestamp 8 = .ok (kp, 8) ∧
      Conv.indexerKey (Conv.strToTsNoTrunc 1714979289 123456789) .timestamp 0 8 = .ok (ki, 8) ∧
      Conv.indexerKey (Conv.strToTs 1714979289 123456000) .timestamp 0 8 = .ok (ki, 8) ∧ kp ≠ ki ∧
      Conv.probeKey (Conv.strToTs 1714979289 123456789) .timestamp 8 = .ok (ki, 8) :=
  ⟨[128, 151, 204, 212, 147, 189, 91, 7, 21], [128, 151, 204, 212, 147, 189, 91, 4, 0],
    by decide, by decide, by decide, by decide, by decide⟩

example : validValue .timestamp 0 (Conv.strToTs 1714979289 123456789) = true ∧
    truncMicros (Conv.strToTs 1714979289 123456789) = Conv.strToTs 1714979289 123456789 ∧
    Conv.strToTs 1714979289 123456789 ≠ .null := by decide


end ImmuModel.Props.C12
