/-
C11 — fragment model of the PLANNER of single-table SELECTs in `embedded/sql`:
`SelectStmt.genScanSpecs` (index choice and the "is a sort step needed" decision), with the parts it
calls: `typedValueRange.unitary` (needs the `inclusive` flags of the semi ranges, which `Query.lean`
leaves out because the scan never reads them: here the flagged ranges `RangeF` are derived by the same
walk over the predicate, `Pred.rangesF`, and `RangeMapF.erase` gives back `Pred.ranges`),
`Index.coversOrdCols` = `ordExpsHaveSameDirection` ∧ (`hasPrefix` ∨ `sortableUsing`),
`selectSortingIndex` (first index of `table.indexes` — primary first, then creation order — that
covers the ORDER BY), `selectINLJIndex`/`countEqualityCoveredCols` (equality-lookup fallback: a secondary
index whose leading columns are bound by point ranges replaces the PRIMARY index) and the execution
of the plan (`runPlan`): range window on the chosen index, `DescOrder`, WHERE, then either
OFFSET/LIMIT on the stream (no sort step) or the sort step (`sortRowReader` over all kept rows) followed
by OFFSET/LIMIT.

The model mirrors the ORDER of the decisions in `genScanSpecs`:
  1. preferred index (USE INDEX ON) or `selectSortingIndex`, default primary;
  2. if the result IS the primary index: INLJ fallback (also when the primary index was forced by a hint,
     `sortingIndex == table.primaryIndex` is a pointer comparison);
  3. only then: `sortingIndex.coversOrdCols(orderBy)` ⇒ no sort step, `DescOrder = orderBy[0].descOrder`.
Fragment: no GROUP BY, no history/diff, ORDER BY over plain columns.  Core Lean only (used by the driver).

Relation to `Sql/Plan.lean` (C12: the plan of the SelectStmt behind UPDATE / DELETE — no ORDER BY, no hint): that
file carries its own flagged walk (`Pred.rangesI`, `IRange.unitary`, `pickINLJ`); both walks erase to
`Pred.ranges`.  The names here carry an `F` (`SemiF`, `RangeF`, `rangesF`) so that the two files coexist; they can
be unified once `minSemiRange`'s flag (`inclusive = a || b` in the code, as below) is the same in both.
-/
import ImmuModel.Sql.Query
namespace ImmuModel.Sql
open ImmuModel

-- ---------------------------------------------------------------- ranges with `inclusive` flags

/-- `typedValueSemiRange` -/
structure SemiF where
  val : Val
  incl : Bool
  deriving Repr

/-- `typedValueRange` -/
structure RangeF where
  lo : Option SemiF := none
  hi : Option SemiF := none
  deriving Repr

abbrev RangeMapF := List (Nat × RangeF)

def RangeMapF.get (m : RangeMapF) (c : Nat) : Option RangeF :=
  match m with
  | [] => none
  | (k, r) :: rest => if k = c then some r else RangeMapF.get rest c

def RangeMapF.set (m : RangeMapF) (c : Nat) (r : RangeF) : RangeMapF :=
  match m with
  | [] => [(c, r)]
  | (k, x) :: rest => if k = c then (k, r) :: rest else (k, x) :: RangeMapF.set rest c r

def RangeF.erase (r : RangeF) : Range := { lo := r.lo.map (·.val), hi := r.hi.map (·.val) }

/-- forgetting the flags: the range map of `Query.lean` -/
def RangeMapF.erase (m : RangeMapF) : RangeMap := m.map (fun (c, r) => (c, r.erase))

/-- `maxSemiRange`: the larger value, `inclusive = or1.inclusive && or2.inclusive`. -/
def maxSemiF (a b : SemiF) : Except EvalErr SemiF :=
  match cmpVals a.val b.val with
  | .error e => .error e
  | .ok r => .ok { val := if r < 0 then b.val else a.val, incl := a.incl && b.incl }

/-- `minSemiRange`: the smaller value, `inclusive = or1.inclusive || or2.inclusive`. -/
def minSemiF (a b : SemiF) : Except EvalErr SemiF :=
  match cmpVals a.val b.val with
  | .error e => .error e
  | .ok r => .ok { val := if r > 0 then b.val else a.val, incl := a.incl || b.incl }

def optCombineF (f : SemiF → SemiF → Except EvalErr SemiF) : Option SemiF → Option SemiF → Except EvalErr (Option SemiF)
  | none, y => .ok y
  | some x, none => .ok (some x)
  | some x, some y =>
    match f x y with
    | .error e => .error e
    | .ok v => .ok (some v)

/-- `typedValueRange.refineWith`. -/
def RangeF.refine (r n : RangeF) : Except EvalErr RangeF :=
  match optCombineF maxSemiF r.lo n.lo with
  | .error e => .error e
  | .ok lo =>
    match optCombineF minSemiF r.hi n.hi with
    | .error e => .error e
    | .ok hi => .ok { lo := lo, hi := hi }

def optExtendF (f : SemiF → SemiF → Except EvalErr SemiF) : Option SemiF → Option SemiF → Except EvalErr (Option SemiF)
  | some x, some y =>
    match f x y with
    | .error e => .error e
    | .ok v => .ok (some v)
  | _, _ => .ok none

/-- `typedValueRange.extendWith`. -/
def RangeF.extend (r n : RangeF) : Except EvalErr RangeF :=
  match optExtendF minSemiF r.lo n.lo with
  | .error e => .error e
  | .ok lo =>
    match optExtendF maxSemiF r.hi n.hi with
    | .error e => .error e
    | .ok hi => .ok { lo := lo, hi := hi }

/-- `updateRangeFor(colID, val, cmp, rangesByColID)` with the flags: `=`/`<=`/`>=` inclusive, `<`/`>` not. -/
def updateRangeForF (c : Nat) (v : Val) (op : CmpOp) (m : RangeMapF) : Except EvalErr RangeMapF :=
  let new : Option RangeF :=
    match op with
    | .eq => some { lo := some ⟨v, true⟩, hi := some ⟨v, true⟩ }
    | .lt => some { hi := some ⟨v, false⟩ }
    | .le => some { hi := some ⟨v, true⟩ }
    | .gt => some { lo := some ⟨v, false⟩ }
    | .ge => some { lo := some ⟨v, true⟩ }
    | .ne => none
  match new with
  | none => .ok m
  | some n =>
    match m.get c with
    | none => .ok (m.set c n)
    | some cur =>
      match cur.refine n with
      | .error e => .error e
      | .ok r => .ok (m.set c r)

def mergeOrF (l r : RangeMapF) : RangeMapF → Except EvalErr RangeMapF := fun m =>
  l.foldl (fun acc (c, lr) =>
    match acc with
    | .error e => .error e
    | .ok m =>
      match RangeMapF.get r c with
      | none => .ok m
      | some rr =>
        match lr.extend rr with
        | .error e => .error e
        | .ok h => .ok (m.set c h)) (.ok m)

/-- `selectorRanges` with the flags (same walk as `Pred.ranges`). -/
def Pred.rangesF : Pred → RangeMapF → Except EvalErr RangeMapF
  | .cmp c op left v, m => if left then .ok m else updateRangeForF c v op m
  | .inList c neg vs, m =>
    if neg then .ok m
    else
      match listMinMax vs with
      | none => .ok m
      | some (mn, mx) =>
        let m1 := match updateRangeForF c mn .ge m with | .ok x => x | .error _ => m
        let m2 := match updateRangeForF c mx .le m1 with | .ok x => x | .error _ => m1
        .ok m2
  | .boolCol _, m => .ok m
  | .not _, m => .ok m
  | .and p q, m =>
    match p.rangesF m with
    | .error e => .error e
    | .ok m1 => q.rangesF m1
  | .or p q, m =>
    match p.rangesF [] with
    | .error e => .error e
    | .ok l =>
      match q.rangesF [] with
      | .error e => .error e
      | .ok r => mergeOrF l r m
  | .isNullE _, m => .ok m
  | .const _, m => .ok m

/-- `typedValueRange.unitary`: `res, _ := l.val.Compare(h.val); res == 0 && l.inclusive && h.inclusive`
(a failed comparison leaves `res = 0`: every `Compare` returns `0, ErrNotComparableValues`). -/
def RangeF.unitary (r : RangeF) : Bool :=
  match r.lo, r.hi with
  | some l, some h =>
    (match sqlCompare l.val h.val with
      | .ok c => c == 0
      | .error _ => true) && l.incl && h.incl
  | _, _ => false

def RangeMapF.unitaryAt (m : RangeMapF) (c : Nat) : Bool :=
  match m.get c with
  | some r => r.unitary
  | none => false

-- ---------------------------------------------------------------- the planner

/-- `OrdExp` over a plain column -/
structure OrdCol where
  col : Nat
  desc : Bool
  deriving Repr, DecidableEq

/-- `ordExpsHaveSameDirection` -/
def sameDir : List OrdCol → Bool
  | [] => true
  | o :: os => os.all (fun e => e.desc == o.desc)

/-- `Index.hasPrefix(columns, ordExps)`: the ORDER BY columns are the first columns of `columns`. -/
def hasPrefix : List Nat → List OrdCol → Bool
  | _, [] => true
  | [], _ :: _ => false
  | c :: cs, o :: os => o.col == c && hasPrefix cs os

/-- `Index.sortableUsing(columns, ranges)`: walk the index columns; the columns before the first ORDER BY
column must all be bound by unitary ranges, from there on the ORDER BY must be a prefix. -/
def sortableUsing (m : RangeMapF) (o : List OrdCol) : List Nat → Bool
  | [] => false
  | c :: cs =>
    match o with
    | [] => false            -- not reached: `coversOrdCols` is only called with a non-empty list
    | f :: _ =>
      if c == f.col then hasPrefix (c :: cs) o
      else if m.unitaryAt c then sortableUsing m o cs
      else false

/-- `Index.coversOrdCols` -/
def coversOrd (m : RangeMapF) (idx : List Nat) (o : List OrdCol) : Bool :=
  sameDir o && (hasPrefix idx o || sortableUsing m o idx)

/-- `selectSortingIndex` (no GROUP BY in the fragment): first index of `table.indexes` covering the ORDER BY. -/
def selectSorting (m : RangeMapF) (ixs : List (List Nat)) (o : List OrdCol) : Option (List Nat) :=
  if o.isEmpty then none else ixs.find? (fun ix => coversOrd m ix o)

/-- `Index.countEqualityCoveredCols` -/
def countEq (m : RangeMapF) : List Nat → Nat
  | [] => 0
  | c :: cs => if m.unitaryAt c then countEq m cs + 1 else 0

/-- `selectINLJIndex` over the secondary indexes: strictly more covered leading columns wins. -/
def selectINLJ (m : RangeMapF) (secs : List (List Nat)) : Option (List Nat) :=
  (secs.foldl (fun (acc : Option (List Nat) × Nat) ix =>
    let k := countEq m ix
    if k > acc.2 then (some ix, k) else acc) (none, 0)).1

structure Plan where
  idx : List Nat      -- `ScanSpecs.Index`
  desc : Bool         -- `ScanSpecs.DescOrder`
  sort : Bool         -- `len(ScanSpecs.orderBySortExps) > 0`: a `sortRowReader` is put on top
  deriving Repr, DecidableEq

/-- `genScanSpecs` for `SELECT … FROM t [USE INDEX ON hint] WHERE p ORDER BY o` -/
def planOf (pk : List Nat) (secs : List (List Nat)) (hint : Option (List Nat)) (o : List OrdCol)
    (m : RangeMapF) : Plan :=
  let s0 : List Nat :=
    match hint with
    | some h => h
    | none =>
      match selectSorting m (pk :: secs) o with
      | some ix => ix
      | none => pk
  let s1 : List Nat :=
    if s0 == pk then
      match selectINLJ m secs with
      | some ix => ix
      | none => s0
    else s0
  if !o.isEmpty && coversOrd m s1 o then
    { idx := s1, desc := match o with | f :: _ => f.desc | [] => false, sort := false }
  else
    { idx := s1, desc := false, sort := !o.isEmpty }

-- ---------------------------------------------------------------- execution of the plan

/-- comparison of two rows by the ORDER BY list (`sortRowReader`'s comparator: column by column,
`Compare`, negated for DESC) -/
def ordCmp : List OrdCol → Row → Row → Except EvalErr Int
  | [], _, _ => .ok 0
  | o :: os, a, b =>
    match getCol a o.col, getCol b o.col with
    | .error e, _ => .error e
    | _, .error e => .error e
    | .ok x, .ok y =>
      match cmpVals x y with
      | .error e => .error e
      | .ok c => if c = 0 then ordCmp os a b else .ok (if o.desc then -c else c)

def insertRow (o : List OrdCol) (r : Row) : List Row → Except EvalErr (List Row)
  | [] => .ok [r]
  | x :: xs =>
    match ordCmp o r x with
    | .error e => .error e
    | .ok c =>
      if c ≤ 0 then .ok (r :: x :: xs)
      else
        match insertRow o r xs with
        | .error e => .error e
        | .ok l => .ok (x :: l)

/-- the sort step (insertion sort; which of several equal rows comes first is not specified by the engine:
the harness compares lists only when the ORDER BY is total) -/
def sortRows (o : List OrdCol) : List Row → Except EvalErr (List Row)
  | [] => .ok []
  | r :: rs =>
    match sortRows o rs with
    | .error e => .error e
    | .ok s => insertRow o r s

structure PQuery where
  hint : Option (List Nat)
  order : List OrdCol
  limit : Nat             -- 0 = none
  offset : Nat
  where_ : Pred

def limitRows (n : Nat) (l : List Row) : List Row := if n = 0 then l else l.take n

/-- `SELECT * FROM t [USE INDEX ON hint] WHERE p [ORDER BY …] [LIMIT n] [OFFSET m]` as planned by
`planOf`, over the secondary indexes `secs` (creation order). -/
def runPlan (t : Table) (secs : List (List Nat)) (q : PQuery) : Except EvalErr (Plan × List Row) :=
  match q.where_.rangesF [] with
  | .error e => .error e
  | .ok mF =>
    let pl := planOf t.pk secs q.hint q.order mF
    match keyBounds t.cols mF.erase pl.idx [] [] false false with
    | .error e => .error e
    | .ok (lo, hi) =>
      match indexView t pl.idx with
      | .error e => .error e
      | .ok view =>
        let inside := view.filter (fun kr => inWindow lo hi kr.1)
        let ordered := if pl.desc then inside.reverse else inside
        if pl.sort then
          match takeWhere q.where_ (ordered.map (·.2)) 0 0 0 with
          | .error e => .error e
          | .ok kept =>
            match sortRows q.order kept with
            | .error e => .error e
            | .ok s => .ok (pl, limitRows q.limit (s.drop q.offset))
        else
          match takeWhere q.where_ (ordered.map (·.2)) q.offset q.limit 0 with
          | .error e => .error e
          | .ok rows => .ok (pl, rows)

end ImmuModel.Sql
