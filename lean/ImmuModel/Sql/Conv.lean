/-
C12 — conversion of a TIMESTAMP value AS WRITTEN in a statement to the value the statement works with, and
the two encodings the engine derives from it (`embedded/sql/type_conversion.go` `getConverter`,
`embedded/sql/stmt.go` `Param.substitute`, `embedded/sql/catalog.go` `EncodeRawValueAsKey` / `EncodeRawValue`):

* the STATEMENT side builds the key it probes (primary-key existence read `tx.get(mappedPKey)` of
  `UpsertIntoStmt.execAt`, UNIQUE prefix read `tx.getWithPrefix` of `doUpsert`) with `EncodeRawValueAsKey` on the
  converted value: `probeKey`, nanosecond resolution (`UnixNano()`);
* the ROW stores the value with `EncodeRawValue` (`TimeToInt64`: microseconds) and the indexer derives the
  committed primary / secondary index entries from the stored row (`DecodeValue`, then `EncodeValueAsKey`):
  `indexerKey`.

The constraint checks find a committed row only if the two keys are the same bytes.  Parsing the text
(`time.ParseInLocation` over the list of layouts) is Go's library and is modelled by its RESULT, the instant
`(sec, nsec)` the text denotes; what the engine's own code does with that instant is the model:
`strToTs` (VARCHAR → TIMESTAMP: `t.Truncate(time.Microsecond).UTC()`), `timeParamToTs` (a `time.Time` parameter,
the same expression in `Param.substitute`), `intToTs` (INTEGER → TIMESTAMP: `time.Unix(i, 0).Truncate(…)`).
`strToTsNoTrunc` is the converter without the truncation (the class of regression the key agreement excludes).
Core Lean only (used by the executable driver).
-/
import ImmuModel.Sql.ValueCodec
namespace ImmuModel.Sql.Conv
open ImmuModel ImmuModel.GoInt ImmuModel.Sql

/-- `t.Truncate(time.Microsecond)` on the instant `(t.Unix(), t.Nanosecond())`: for a duration below one second
that divides it, `Truncate` subtracts `nsec % d` (`time.go`, `div`'s fast path) — the seconds are unchanged, also
before 1970. -/
def truncMicro (sec : Int) (nsec : Nat) : Int × Nat := (sec, nsec - nsec % 1000)

/-- VARCHAR → TIMESTAMP (`getConverter`), after `time.ParseInLocation` returned the instant `(sec, nsec)`. -/
def strToTs (sec : Int) (nsec : Nat) : Val :=
  let t := truncMicro sec nsec
  .ts t.1 t.2

/-- `Param.substitute` for a `time.Time` parameter: the same expression. -/
def timeParamToTs (sec : Int) (nsec : Nat) : Val := strToTs sec nsec

/-- INTEGER → TIMESTAMP: `time.Unix(i, 0).Truncate(time.Microsecond).UTC()`. -/
def intToTs (i : Int) : Val :=
  let u := timeUnix i 0
  strToTs u.1 u.2

/-- The converter WITHOUT the truncation: the parsed instant as it is. -/
def strToTsNoTrunc (sec : Int) (nsec : Nat) : Val := .ts sec nsec

/-- Key the statement probes for a column `(ty, keyLen)`: `EncodeValueAsKey` on the converted value. -/
def probeKey (v : Val) (ty : SqlType) (keyLen : Int) : Except Err (Bytes × Nat) := encodeKey v ty keyLen

/-- What a reader of the committed row obtains: `DecodeValue (EncodeValue v)`. -/
def storedOf (v : Val) (ty : SqlType) (maxLen : Int) : Except Err Val :=
  match encodeValue v ty maxLen false with
  | .error e => .error e
  | .ok b =>
    match decodeValue b ty false with
    | .error e => .error e
    | .ok (w, _) => .ok w

/-- Key of the index entry the indexer derives from the committed row. -/
def indexerKey (v : Val) (ty : SqlType) (maxLen keyLen : Int) : Except Err (Bytes × Nat) :=
  match storedOf v ty maxLen with
  | .error e => .error e
  | .ok w => encodeKey w ty keyLen

end ImmuModel.Sql.Conv
