/-
C13 — the engine-level catalog cache of `embedded/sql` (engine.go `NewTx`, `invalidateCatalogCache`,
`tryPopulateCatalogCache`; sql_tx.go `Commit`) under schedules of several sessions.

Why it belongs to C13: a committed DDL transaction must be visible to every later transaction, and the
COMMIT of a transaction that executed no DDL must not change the schema others see.  Whether that holds
is decided by this protocol, not by the store: every new transaction takes its catalog from the cache
when one is there.

Abstraction.  A catalog is identified by its GENERATION = the number of DDL transactions committed to
the store when it was read (`Eng.committed`).  What a transaction's own DDL does to its private catalog
is irrelevant here: a transaction that mutated the catalog never publishes it (Commit invalidates).

Code side (`step`, one engine call per step; `cfg` = `codeCfg` is the code as it is):
* `NewTx`: reads `(cachedCatalog, cachedCatalogVersion)` under `catalogMu.RLock`; cached ∧ ReadOnly ⇒ shares
  it; cached ⇒ `Clone` (+ `seedCatalogReadSet`, which reads the catalog rows of the CURRENT store snapshot
  into the MVCC read-set: `Tx.base`); otherwise `catalog.load` from the store snapshot; a read-only tx that
  loaded the catalog itself stores it when the cache is still empty (`openTx` then `populateRO`: two critical
  sections in the code, one step here — see `Props/C13.lean ro_fill_not_atomic_stale` for what happens when a
  DDL commit falls between them);
* statements: DDL sets `mutatedCatalog`; DDL and DML put entries into the store transaction;
* `Commit`: store commit first — a transaction WITH entries whose catalog read-set no longer matches
  (`base ≠ committed`: another DDL transaction committed since) fails with a read conflict (store MVCC, C05;
  taken as given here, exercised by the harness); a transaction WITHOUT entries is not validated at all
  (`ErrNoEntriesProvided` is swallowed).  Then `mutatedCatalog` ⇒ `invalidateCatalogCache` (clear, version+1)
  else `tryPopulateCatalogCache(tx.catalog, tx.openCatalogVersion)` (no-op when the cache is warm or the
  version moved);
* `Cancel` / ROLLBACK: nothing; engine re-open: empty cache, version 0, no open transactions.
Core Lean only.
-/
namespace ImmuModel.Sql.CatCache

/-- the three guards of the protocol; `codeCfg` is the code, the others are used by the necessity witnesses -/
structure Cfg where
  bumpAlways : Bool        -- invalidateCatalogCache bumps the version even when the cache is already empty
  checkVersion : Bool      -- tryPopulateCatalogCache compares the version with the one read at NewTx
  invalidateOnDDL : Bool   -- Commit invalidates when the transaction mutated the catalog (false: leaves the cache alone)
  deriving Repr, DecidableEq

def codeCfg : Cfg := { bumpAlways := true, checkVersion := true, invalidateOnDDL := true }

structure Tx where
  ro : Bool
  cat : Nat          -- generation of the catalog the transaction resolves names with
  base : Nat         -- generation of the catalog rows in its store snapshot (what the MVCC read-set holds)
  openVer : Nat      -- openCatalogVersion
  mutated : Bool     -- mutatedCatalog
  wrote : Bool       -- the store transaction has entries
  deriving Repr, DecidableEq

structure Eng where
  committed : Nat := 0              -- DDL transactions committed to the store
  cache : Option Nat := none        -- cachedCatalog
  ver : Nat := 0                    -- cachedCatalogVersion
  txs : List (Nat × Tx) := []       -- open transactions by session
  deriving Repr, DecidableEq

inductive Op
  | newTx (sid : Nat) (ro : Bool)
  | ddl (sid : Nat)
  | dml (sid : Nat)
  | commit (sid : Nat)
  | cancel (sid : Nat)
  | reopen
  deriving Repr, DecidableEq

inductive Ans
  | opened (cat : Nat) (hit : Bool)   -- generation the new transaction sees, cache hit/miss
  | ok
  | conflict                          -- COMMIT failed with a read conflict: nothing committed
  | noTx
  | busy
  | readOnly
  deriving Repr, DecidableEq

def findTx (sid : Nat) (l : List (Nat × Tx)) : Option Tx :=
  (l.find? (fun p => p.1 == sid)).map (·.2)

def eraseTx (sid : Nat) (l : List (Nat × Tx)) : List (Nat × Tx) :=
  l.filter (fun p => p.1 != sid)

def setTx (sid : Nat) (t : Tx) (l : List (Nat × Tx)) : List (Nat × Tx) :=
  (sid, t) :: eraseTx sid l

/-- first critical section of `NewTx` (+ obtaining the catalog): the tx and whether the cache was hit -/
def openTx (e : Eng) (ro : Bool) : Tx × Bool :=
  match e.cache with
  | some c => ({ ro := ro, cat := c, base := e.committed, openVer := e.ver, mutated := false, wrote := false }, true)
  | none => ({ ro := ro, cat := e.committed, base := e.committed, openVer := e.ver, mutated := false, wrote := false }, false)

/-- second critical section of `NewTx`: `if opts.ReadOnly { if e.cachedCatalog == nil { e.cachedCatalog = catalog } }`
(only reached when the catalog was loaded, i.e. on a miss) -/
def populateRO (e : Eng) (t : Tx) (hit : Bool) : Eng :=
  if t.ro && !hit then
    match e.cache with
    | none => { e with cache := some t.cat }
    | some _ => e
  else e

def invalidate (cfg : Cfg) (e : Eng) : Eng :=
  if cfg.bumpAlways || e.cache.isSome then { e with cache := none, ver := e.ver + 1 } else e

def tryPopulate (cfg : Cfg) (e : Eng) (cat openVer : Nat) : Eng :=
  if e.cache.isSome then e
  else if cfg.checkVersion && e.ver != openVer then e
  else { e with cache := some cat }

def step (cfg : Cfg) (e : Eng) : Op → Eng × Ans
  | .newTx sid ro =>
    match findTx sid e.txs with
    | some _ => (e, .busy)
    | none =>
      let (t, hit) := openTx e ro
      let e1 := populateRO e t hit
      ({ e1 with txs := setTx sid t e1.txs }, .opened t.cat hit)
  | .ddl sid =>
    match findTx sid e.txs with
    | none => (e, .noTx)
    | some t =>
      if t.ro then (e, .readOnly)
      else ({ e with txs := setTx sid { t with mutated := true, wrote := true } e.txs }, .ok)
  | .dml sid =>
    match findTx sid e.txs with
    | none => (e, .noTx)
    | some t =>
      if t.ro then (e, .readOnly)
      else ({ e with txs := setTx sid { t with wrote := true } e.txs }, .ok)
  | .commit sid =>
    match findTx sid e.txs with
    | none => (e, .noTx)
    | some t =>
      if t.ro then (e, .readOnly)     -- read-only transactions are cancelled by the engine, never committed
      else
        let e1 := { e with txs := eraseTx sid e.txs }
        if t.wrote && t.base != e.committed then (e1, .conflict)
        else if t.mutated then
          let e2 := { e1 with committed := e1.committed + 1 }
          ((if cfg.invalidateOnDDL then invalidate cfg e2 else e2), .ok)
        else (tryPopulate cfg e1 t.cat t.openVer, .ok)
  | .cancel sid =>
    match findTx sid e.txs with
    | none => (e, .noTx)
    | some _ => ({ e with txs := eraseTx sid e.txs }, .ok)
  | .reopen => ({ committed := e.committed, cache := none, ver := 0, txs := [] }, .ok)

def run (cfg : Cfg) (e : Eng) : List Op → Eng × List Ans
  | [] => (e, [])
  | o :: os =>
    let (e1, a) := step cfg e o
    let (e2, as) := run cfg e1 os
    (e2, a :: as)

/-- the generation a transaction opened now would see -/
def Eng.fresh (e : Eng) : Nat := (openTx e false).1.cat

-- ---------------------------------------------------------------- specification

/-- what the property needs from one open transaction -/
def TxOK (e : Eng) (t : Tx) : Prop :=
  t.openVer ≤ e.ver ∧ (t.mutated = false → t.openVer = e.ver → t.cat = e.committed)

/-- cache coherence: a cached catalog is the committed one, and every open transaction that could still
publish its catalog (no DDL of its own, version unchanged since it opened) holds the committed one -/
def Inv (e : Eng) : Prop :=
  (∀ c, e.cache = some c → c = e.committed) ∧ ∀ p, p ∈ e.txs → TxOK e p.2

end ImmuModel.Sql.CatCache
