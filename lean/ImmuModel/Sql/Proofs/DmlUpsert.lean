/-
C12 helper lemmas: what a successful `doUpsert` does to the rows, the keys and the bookkeeping,
and that it preserves `Inv0`.
-/
import ImmuModel.Sql.Proofs.DmlList
namespace ImmuModel.Sql.DmlUpsertAux
open ImmuModel ImmuModel.Sql ImmuModel.Sql.DmlListAux

/-- keys of the pairs `findRow` / `pkOrdered` build -/
theorem mapM_pair_keys (s : Schema) : ∀ {rows : List Row} {kr : List (Bytes × Row)},
    rows.mapM (fun r => do let x ← pkEnc s r; pure (x, r)) = .ok kr →
    rows.mapM (pkEnc s) = .ok (kr.map (·.1)) ∧ kr.map (·.2) = rows
  | [], kr, h => by
    rw [mapM_nil] at h; cases h; exact ⟨mapM_nil _, rfl⟩
  | r :: rows, kr, h => by
    obtain ⟨p, kr', hp, hkr, rfl⟩ := mapM_cons_ok.1 h
    obtain ⟨x, hx, hp⟩ := bind_ok hp
    simp only [pure, Except.pure, Except.ok.injEq] at hp
    subst hp
    obtain ⟨ih1, ih2⟩ := mapM_pair_keys s hkr
    exact ⟨mapM_cons_ok.2 ⟨x, _, hx, ih1, rfl⟩, by simp [ih2]⟩

/-- `findRow` finds nothing only if no live row has the key -/
theorem findRow_none {s : Schema} {rows : List Row} {k : Bytes}
    (h : findRow s rows k = .ok none) {ks : List Bytes} (hks : rows.mapM (pkEnc s) = .ok ks) :
    k ∉ ks := by
  unfold findRow at h
  obtain ⟨kr, hkr, h⟩ := bind_ok h
  simp only [pure, Except.pure, Except.ok.injEq, Option.map_eq_none_iff] at h
  obtain ⟨h1, _⟩ := mapM_pair_keys s hkr
  rw [hks] at h1; cases h1
  intro hk
  obtain ⟨p, hp, hpk⟩ := List.mem_map.1 hk
  have := List.find?_eq_none.1 h p hp
  simp [hpk] at this

/-- in-place replacement of the rows with key `k` by a row with key `k` -/
theorem replace_spec (s : Schema) {row : Row} {k : Bytes} (hk : pkEnc s row = .ok k) :
    ∀ {rows rows' : List Row},
    rows.mapM (fun r => do let x ← pkEnc s r; pure (if x = k then row else r)) = .ok rows' →
    (∀ r ∈ rows', r ∈ rows ∨ r = row) ∧
    (∀ ks, rows.mapM (pkEnc s) = .ok ks → rows'.mapM (pkEnc s) = .ok ks)
  | [], rows', h => by
    rw [mapM_nil] at h; cases h
    exact ⟨fun r hr => (by cases hr), fun ks h => h⟩
  | r :: rows, rows', h => by
    obtain ⟨r1, rs1, hr1, hrs1, rfl⟩ := mapM_cons_ok.1 h
    obtain ⟨x, hx, hr1⟩ := bind_ok hr1
    simp only [pure, Except.pure, Except.ok.injEq] at hr1
    obtain ⟨ih1, ih2⟩ := replace_spec s hk hrs1
    constructor
    · intro r' hr'
      rcases List.mem_cons.1 hr' with rfl | hr'
      · by_cases hxk : x = k
        · right; simp [hxk] at hr1; exact hr1.symm
        · left; simp [hxk] at hr1; simp [hr1]
      · rcases ih1 r' hr' with h | h
        · left; exact List.mem_cons_of_mem _ h
        · right; exact h
    · intro ks hks
      obtain ⟨y, ys, hy, hys, rfl⟩ := mapM_cons_ok.1 hks
      rw [hx] at hy; cases hy
      refine mapM_cons_ok.2 ⟨x, ys, ?_, ih2 ys hys, rfl⟩
      by_cases hxk : x = k
      · simp [hxk] at hr1; subst hr1; rw [hxk]; exact hk
      · simp [hxk] at hr1; subst hr1; exact hx

/-- the observable effect of a successful `doUpsert` -/
structure UpsertSpec (s : Schema) (db db' : DB) (row : Row) : Prop where
  key : ∃ k, pkEnc s row = .ok k ∧ k ∈ db'.known ∧
    ∀ ks, db.rows.mapM (pkEnc s) = .ok ks →
      db'.rows.mapM (pkEnc s) = .ok ks ∨ (k ∉ ks ∧ db'.rows.mapM (pkEnc s) = .ok (ks ++ [k]))
  value : rowValueOK s row = .ok ()
  mem : ∀ r ∈ db'.rows, r ∈ db.rows ∨ r = row
  maxMono : db.maxEver ≤ db'.maxEver
  maxRow : ∀ i, autoKeyOf s row = some i → i ≤ db'.maxEver
  knownMono : ∀ x ∈ db.known, x ∈ db'.known

theorem doUpsert_spec {s : Schema} {db db' : DB} {row : Row} {reuse : Bool}
    (h : doUpsert s db row reuse = .ok db') : UpsertSpec s db db' row := by
  unfold doUpsert at h
  obtain ⟨k, hk, h⟩ := bind_ok h
  obtain ⟨cur, hcur, h⟩ := bind_ok h
  obtain ⟨u, hrv, h⟩ := bind_ok h
  obtain ⟨u2, _, h⟩ := bind_ok h
  obtain ⟨dead, _, h⟩ := bind_ok h
  obtain ⟨rows', hrows, h⟩ := bind_ok h
  obtain ⟨tombs', _, h⟩ := bind_ok h
  simp only [pure, Except.pure, Except.ok.injEq] at h
  subst h
  have hknown : k ∈ (if db.known.contains k = true then db.known else db.known ++ [k]) := by
    split
    · next hc => simpa using hc
    · simp
  have hmono : ∀ x ∈ db.known, x ∈ (if db.known.contains k = true then db.known else db.known ++ [k]) := by
    intro x hx; split
    · exact hx
    · exact List.mem_append_left _ hx
  refine ⟨⟨k, hk, hknown, ?_⟩, hrv, ?_, ?_, ?_, hmono⟩
  · intro ks hks
    cases cur with
    | none =>
      simp only [pure, Except.pure, Except.ok.injEq] at hrows
      subst hrows
      right
      exact ⟨findRow_none hcur hks, mapM_append_ok.2 ⟨ks, [k], hks, mapM_singleton_ok hk, rfl⟩⟩
    | some old =>
      left
      exact (replace_spec s hk hrows).2 ks hks
  · intro r hr
    cases cur with
    | none =>
      simp only [pure, Except.pure, Except.ok.injEq] at hrows
      subst hrows
      rcases List.mem_append.1 hr with h | h
      · left; exact h
      · right; simpa using h
    | some old => exact (replace_spec s hk hrows).1 r hr
  · show db.maxEver ≤ (match autoKeyOf s row with
      | some i => if i > db.maxEver then i else db.maxEver
      | none => db.maxEver)
    split
    · split <;> omega
    · omega
  · intro i hi
    show i ≤ (match autoKeyOf s row with
      | some i => if i > db.maxEver then i else db.maxEver
      | none => db.maxEver)
    rw [hi]
    simp only
    split <;> omega

/-- a state with encodable keys has a key list -/
theorem keys_exist {s : Schema} {db : DB} (h : keysOK s db) :
    ∃ ks, db.rows.mapM (pkEnc s) = .ok ks :=
  mapM_ok_of_forall (fun r hr => h r hr)

theorem upsertSpec_inv0 {s : Schema} {db db' : DB} {row : Row}
    (hinv : Inv0 s db) (hs : UpsertSpec s db db' row) : Inv0 s db' := by
  obtain ⟨k, hk, hkn, hkeys⟩ := hs.key
  refine ⟨?_, ?_, ?_, ?_, ?_⟩
  · intro r hr
    rcases hs.mem r hr with h | rfl
    · exact hinv.keys r h
    · exact ⟨k, hk⟩
  · intro ks' hks'
    obtain ⟨ks, hks⟩ := keys_exist hinv.keys
    have hnd := hinv.pk ks hks
    rcases hkeys ks hks with h | ⟨hnot, h⟩
    · rw [h] at hks'; cases hks'; exact hnd
    · rw [h] at hks'; cases hks'
      rw [List.nodup_append]
      refine ⟨hnd, by simp, ?_⟩
      intro a ha b hb
      simp only [List.mem_singleton] at hb
      subst hb
      intro hab; subst hab; exact hnot ha
  · intro r hr
    rcases hs.mem r hr with h | rfl
    · exact hinv.len r h
    · exact hs.value
  · intro r hr i hi
    rcases hs.mem r hr with h | rfl
    · exact Int.le_trans (hinv.auto r h i hi) hs.maxMono
    · exact hs.maxRow i hi
  · intro r hr x hx
    rcases hs.mem r hr with h | rfl
    · exact hs.knownMono x (hinv.known r h x hx)
    · rw [hk] at hx; cases hx; exact hkn

theorem doUpsert_inv0 {s : Schema} {db db' : DB} {row : Row} {reuse : Bool}
    (hinv : Inv0 s db) (h : doUpsert s db row reuse = .ok db') : Inv0 s db' :=
  upsertSpec_inv0 hinv (doUpsert_spec h)

end ImmuModel.Sql.DmlUpsertAux
