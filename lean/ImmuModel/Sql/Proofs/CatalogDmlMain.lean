/-
C12 — proofs for `Sql/CatalogDml.lean`: `doUpsert` under a schema with a UNIQUE index refuses a row whose index
values are held by a live row with another key (no deleted entry under the prefix: outside finding R2); a transaction
opened through `NewTx` is registered with the generation `openTx` chose.
-/
import ImmuModel.Sql.CatalogDml
import ImmuModel.Sql.Proofs.DmlMain
import ImmuModel.Sql.Proofs.CatalogCacheMain
namespace ImmuModel.Sql.CatDmlAux
open ImmuModel ImmuModel.Sql ImmuModel.Sql.DmlListAux ImmuModel.Sql.DmlMainAux

/-- a successful run of the index loop of `doUpsert` has asked `getWithPrefix` for every UNIQUE index (INSERT path:
`reuse = false`, nothing is skipped) and was told "nothing live first under this prefix" -/
theorem chk_ok_unique (s : Schema) (db : DB) (row : Row) (k : Bytes) (cur : Option Row) :
    ∀ (l : List (Bool × List Nat)) (i : Nat),
      doUpsert.chk s db row false k cur i l = .ok () →
      ∀ (j : Nat) (cs : List Nat), l[j]? = some (true, cs) →
        ∃ v, idxEnc s cs row = .ok v ∧ uniqueHit s db (i + j) cs v k = .ok false
  | [], _, _, j, cs, hj => by simp at hj
  | (u, cs0) :: rest, i, h, j, cs, hj => by
    unfold doUpsert.chk at h
    simp only [Bool.false_and, if_false, Bool.false_eq_true] at h
    obtain ⟨same, hsame, h⟩ := bind_ok h
    simp only [pure, Except.pure, Except.ok.injEq] at hsame
    subst hsame
    cases u with
    | true =>
      simp only [Bool.not_false, Bool.and_true, if_true] at h
      obtain ⟨v0, hv0, h⟩ := bind_ok h
      obtain ⟨b, hb, h⟩ := bind_ok h
      cases b with
      | true => simp [throw, throwThe, MonadExceptOf.throw, bind, Except.bind] at h
      | false =>
        simp only [Bool.false_eq_true, if_false] at h
        cases j with
        | zero =>
          simp only [List.getElem?_cons_zero, Option.some.injEq, Prod.mk.injEq, true_and] at hj
          subst hj
          exact ⟨v0, hv0, by simpa using hb⟩
        | succ j =>
          simp only [List.getElem?_cons_succ] at hj
          obtain ⟨v, hv, hu⟩ := chk_ok_unique s db row k cur rest (i + 1) h j cs hj
          refine ⟨v, hv, ?_⟩
          have : i + 1 + j = i + (j + 1) := by omega
          rw [← this]
          exact hu
    | false =>
      simp only [Bool.false_and, Bool.false_eq_true, if_false] at h
      obtain ⟨_, _, h⟩ := bind_ok h
      cases j with
      | zero => simp at hj
      | succ j =>
        simp only [List.getElem?_cons_succ] at hj
        obtain ⟨v, hv, hu⟩ := chk_ok_unique s db row k cur rest (i + 1) h j cs hj
        refine ⟨v, hv, ?_⟩
        have : i + 1 + j = i + (j + 1) := by omega
        rw [← this]
        exact hu

/-- the live-entry list of `uniqueHit` contains the key of every live row with these index values and another key -/
theorem hit_mem (s : Schema) (cs : List Nat) (vals self : Bytes) : ∀ (rows : List Row),
    (∀ r, r ∈ rows → ∃ v k, idxEnc s cs r = .ok v ∧ pkEnc s r = .ok k) →
    ∃ live, rows.filterMapM (hitF s cs vals self) = .ok live ∧
      ∀ r k', r ∈ rows → idxEnc s cs r = .ok vals → pkEnc s r = .ok k' → k' ≠ self → k' ∈ live
  | [], _ => ⟨[], rfl, fun _ _ hr => by cases hr⟩
  | r :: rows, h => by
    obtain ⟨v, k, hv, hk⟩ := h r List.mem_cons_self
    obtain ⟨live, hl, hmem⟩ := hit_mem s cs vals self rows (fun r' hr' => h r' (List.mem_cons_of_mem _ hr'))
    by_cases hc : v = vals ∧ k ≠ self
    · have hF : hitF s cs vals self r = .ok (some k) := by
        simp [hitF, hv, hk, hc, bind, Except.bind, pure, Except.pure]
      refine ⟨k :: live, ?_, ?_⟩
      · rw [List.filterMapM_cons, hF]
        simp [hl, bind, Except.bind, pure, Except.pure]
      · intro r' k' hr' hv' hk' hne
        rcases List.mem_cons.1 hr' with rfl | hr'
        · rw [hk] at hk'; cases hk'; exact List.mem_cons_self
        · exact List.mem_cons_of_mem _ (hmem r' k' hr' hv' hk' hne)
    · have hF : hitF s cs vals self r = .ok none := by
        simp [hitF, hv, hk, hc, bind, Except.bind, pure, Except.pure]
      refine ⟨live, ?_, ?_⟩
      · rw [List.filterMapM_cons, hF]
        simpa [bind, Except.bind] using hl
      · intro r' k' hr' hv' hk' hne
        rcases List.mem_cons.1 hr' with rfl | hr'
        · exfalso
          rw [hv] at hv'; rw [hk] at hk'; cases hv'; cases hk'
          exact hc ⟨rfl, hne⟩
        · exact hmem r' k' hr' hv' hk' hne

/-- with a live holder and no deleted entry under the prefix, `getWithPrefix` reports the duplicate -/
theorem uniqueHit_true (s : Schema) (db : DB) (i : Nat) (cs : List Nat) (vals self : Bytes) (r : Row) (k' : Bytes)
    (hok : ∀ r, r ∈ db.rows → ∃ v k, idxEnc s cs r = .ok v ∧ pkEnc s r = .ok k)
    (hr : r ∈ db.rows) (hv : idxEnc s cs r = .ok vals) (hk : pkEnc s r = .ok k') (hne : k' ≠ self)
    (hdead : db.tombs.filter (fun t => t.idx = i ∧ t.vals = vals) = []) :
    uniqueHit s db i cs vals self = .ok true := by
  obtain ⟨live, hl, hmem⟩ := hit_mem s cs vals self db.rows hok
  have hin := hmem r k' hr hv hk hne
  unfold uniqueHit
  unfold hitF at hl
  rw [hl, hdead]
  cases live with
  | nil => cases hin
  | cons l ls => simp [bind, Except.bind, pure, Except.pure]

/-- **`doUpsert` (INSERT path) refuses a duplicate under a UNIQUE index of ITS schema** -/
theorem doUpsert_rejects_live_duplicate (s : Schema) (db db' : DB) (row r : Row) (j : Nat) (cs : List Nat)
    (vals k k' : Bytes)
    (hidx : s.idx[j]? = some (true, cs))
    (hok : ∀ r, r ∈ db.rows → ∃ v k, idxEnc s cs r = .ok v ∧ pkEnc s r = .ok k)
    (hr : r ∈ db.rows) (hv : idxEnc s cs r = .ok vals) (hk' : pkEnc s r = .ok k')
    (hrow : idxEnc s cs row = .ok vals) (hk : pkEnc s row = .ok k) (hne : k' ≠ k)
    (hdead : db.tombs.filter (fun t => t.idx = j ∧ t.vals = vals) = []) :
    doUpsert s db row false ≠ .ok db' := by
  intro h
  unfold doUpsert at h
  obtain ⟨k0, hk0, h⟩ := bind_ok h
  rw [hk] at hk0; cases hk0
  obtain ⟨cur, _, h⟩ := bind_ok h
  obtain ⟨_, _, h⟩ := bind_ok h
  obtain ⟨u, hchk, _⟩ := bind_ok h
  cases u
  obtain ⟨v, hv', hu⟩ := chk_ok_unique s db row k cur s.idx 0 hchk j cs hidx
  rw [hrow] at hv'; cases hv'
  have ht := uniqueHit_true s db j cs vals k r k' hok hr hv hk' hne hdead
  rw [Nat.zero_add] at hu
  rw [ht] at hu
  cases hu

open ImmuModel.Sql.CatCache in
theorem findTx_setTx (sid : Nat) (t : Tx) (l : List (Nat × Tx)) : findTx sid (setTx sid t l) = some t := by
  simp [findTx, setTx]

/-- `NewTx` registers the transaction with the catalog generation it answers -/
theorem newTx_registers (cfg : CatCache.Cfg) (e : CatCache.Eng) (sid : Nat) (ro : Bool)
    (hfree : CatCache.findTx sid e.txs = none) :
    ∃ t hit, (CatCache.step cfg e (.newTx sid ro)).2 = .opened t.cat hit ∧
      CatCache.findTx sid (CatCache.step cfg e (.newTx sid ro)).1.txs = some t ∧
      t.cat = (CatCache.openTx e ro).1.cat := by
  refine ⟨(CatCache.openTx e ro).1, (CatCache.openTx e ro).2, ?_, ?_, rfl⟩
  · simp only [CatCache.step, hfree]
  · simp only [CatCache.step, hfree]
    exact findTx_setTx sid _ _

end ImmuModel.Sql.CatDmlAux
