/-
`Plan.lean` carries the `inclusive` flags of the scan ranges along; forgetting them gives exactly the
ranges of `Query.lean` (`Pred.ranges`), so the two models of `selectorRanges` cannot drift apart.
-/
import ImmuModel.Sql.Plan
import ImmuModel.Sql.Proofs.QueryScan
namespace ImmuModel.Sql.PlanAux
open ImmuModel ImmuModel.Sql

def eraseR (r : IRange) : Range := { lo := r.lo.map (·.val), hi := r.hi.map (·.val) }

def eraseM (m : IMap) : RangeMap := m.map (fun p => (p.1, eraseR p.2))

def mapE {α β : Type} (f : α → β) : Except EvalErr α → Except EvalErr β
  | .ok a => .ok (f a)
  | .error e => .error e

theorem get_erase (m : IMap) (c : Nat) : RangeMap.get (eraseM m) c = (IMap.get m c).map eraseR := by
  induction m with
  | nil => rfl
  | cons p rest ih =>
    obtain ⟨k, r⟩ := p
    simp only [eraseM, List.map_cons, RangeMap.get, IMap.get]
    split
    · rfl
    · exact ih

theorem set_erase (m : IMap) (c : Nat) (r : IRange) :
    RangeMap.set (eraseM m) c (eraseR r) = eraseM (IMap.set m c r) := by
  induction m with
  | nil => rfl
  | cons p rest ih =>
    obtain ⟨k, x⟩ := p
    simp only [eraseM, List.map_cons, RangeMap.set, IMap.set]
    split
    · rfl
    · simp only [List.map_cons, List.cons.injEq, true_and]
      exact ih

theorem maxSemi_erase (a b : Semi) : mapE (·.val) (maxSemi a b) = maxVal a.val b.val := by
  unfold maxSemi maxVal
  cases cmpVals a.val b.val <;> rfl

theorem minSemi_erase (a b : Semi) : mapE (·.val) (minSemi a b) = minVal a.val b.val := by
  unfold minSemi minVal
  cases cmpVals a.val b.val <;> rfl

theorem combine_erase (f : Semi → Semi → Except EvalErr Semi) (g : Val → Val → Except EvalErr Val)
    (hfg : ∀ a b, mapE (·.val) (f a b) = g a.val b.val) (x y : Option Semi) :
    mapE (Option.map (·.val)) (semiCombine f x y) = optCombine g (x.map (·.val)) (y.map (·.val)) := by
  cases x with
  | none => cases y <;> rfl
  | some a =>
    cases y with
    | none => rfl
    | some b =>
      simp only [semiCombine, optCombine, Option.map_some, ← hfg a b]
      cases f a b <;> rfl

theorem extend_erase (f : Semi → Semi → Except EvalErr Semi) (g : Val → Val → Except EvalErr Val)
    (hfg : ∀ a b, mapE (·.val) (f a b) = g a.val b.val) (x y : Option Semi) :
    mapE (Option.map (·.val)) (semiExtend f x y) = optExtend g (x.map (·.val)) (y.map (·.val)) := by
  cases x with
  | none => cases y <;> rfl
  | some a =>
    cases y with
    | none => rfl
    | some b =>
      simp only [semiExtend, optExtend, Option.map_some, ← hfg a b]
      cases f a b <;> rfl

theorem refine_erase (r n : IRange) : mapE eraseR (r.refine n) = (eraseR r).refine (eraseR n) := by
  have h1 := combine_erase maxSemi maxVal maxSemi_erase r.lo n.lo
  have h2 := combine_erase minSemi minVal minSemi_erase r.hi n.hi
  unfold IRange.refine Range.refine
  simp only [eraseR] at *
  rw [← h1, ← h2]
  cases semiCombine maxSemi r.lo n.lo with
  | error e => rfl
  | ok lo =>
    cases semiCombine minSemi r.hi n.hi with
    | error e => rfl
    | ok hi => rfl

theorem extendR_erase (r n : IRange) : mapE eraseR (r.extend n) = (eraseR r).extend (eraseR n) := by
  have h1 := extend_erase minSemi minVal minSemi_erase r.lo n.lo
  have h2 := extend_erase maxSemi maxVal maxSemi_erase r.hi n.hi
  unfold IRange.extend Range.extend
  simp only [eraseR] at *
  rw [← h1, ← h2]
  cases semiExtend minSemi r.lo n.lo with
  | error e => rfl
  | ok lo =>
    cases semiExtend maxSemi r.hi n.hi with
    | error e => rfl
    | ok hi => rfl

/-- the common tail of `updateRangeFor` -/
def updTailI (c : Nat) (m : IMap) (n : IRange) : Except EvalErr IMap :=
  match m.get c with
  | none => .ok (m.set c n)
  | some cur =>
    match cur.refine n with
    | .error e => .error e
    | .ok r => .ok (m.set c r)

def updTail (c : Nat) (m : RangeMap) (n : Range) : Except EvalErr RangeMap :=
  match m.get c with
  | none => .ok (m.set c n)
  | some cur =>
    match cur.refine n with
    | .error e => .error e
    | .ok r => .ok (m.set c r)

theorem updTail_erase (c : Nat) (m : IMap) (n : IRange) :
    mapE eraseM (updTailI c m n) = updTail c (eraseM m) (eraseR n) := by
  unfold updTailI updTail
  rw [get_erase]
  cases hg : IMap.get m c with
  | none => simp only [Option.map_none, mapE]; rw [← set_erase]
  | some cur =>
    simp only [Option.map_some]
    rw [← refine_erase cur n]
    cases IRange.refine cur n with
    | error e => rfl
    | ok r => simp only [mapE]; rw [← set_erase]

theorem update_erase (c : Nat) (v : Val) (op : CmpOp) (m : IMap) :
    mapE eraseM (updateRangeForI c v op m) = updateRangeFor c v op (eraseM m) := by
  cases op
  · exact updTail_erase c m { lo := some ⟨v, true⟩, hi := some ⟨v, true⟩ }
  · rfl
  · exact updTail_erase c m { hi := some ⟨v, false⟩ }
  · exact updTail_erase c m { hi := some ⟨v, true⟩ }
  · exact updTail_erase c m { lo := some ⟨v, false⟩ }
  · exact updTail_erase c m { lo := some ⟨v, true⟩ }

/-- `updateRangeFor` with the error dropped (`_ = updateRangeFor(…)` of `InListExp.selectorRanges`) -/
def updOrI (c : Nat) (v : Val) (op : CmpOp) (m : IMap) : IMap :=
  match updateRangeForI c v op m with | .ok x => x | .error _ => m

def updOr (c : Nat) (v : Val) (op : CmpOp) (m : RangeMap) : RangeMap :=
  match updateRangeFor c v op m with | .ok x => x | .error _ => m

theorem update_or_erase (c : Nat) (v : Val) (op : CmpOp) (m : IMap) :
    eraseM (updOrI c v op m) = updOr c v op (eraseM m) := by
  unfold updOrI updOr
  rw [← update_erase]
  cases updateRangeForI c v op m <;> rfl

theorem mergeOr_erase (l r : IMap) (m : IMap) :
    mapE eraseM (mergeOrI l r m) = mergeOr (eraseM l) (eraseM r) (eraseM m) := by
  unfold mergeOrI mergeOr
  -- generalise the accumulator
  suffices h : ∀ (acc : Except EvalErr IMap),
      mapE eraseM (l.foldl (fun acc (p : Nat × IRange) =>
        match acc with
        | .error e => .error e
        | .ok m =>
          match IMap.get r p.1 with
          | none => .ok m
          | some rr =>
            match p.2.extend rr with
            | .error e => .error e
            | .ok h => .ok (m.set p.1 h)) acc) =
      (eraseM l).foldl (fun acc (p : Nat × Range) =>
        match acc with
        | .error e => .error e
        | .ok m =>
          match RangeMap.get (eraseM r) p.1 with
          | none => .ok m
          | some rr =>
            match p.2.extend rr with
            | .error e => .error e
            | .ok h => .ok (m.set p.1 h)) (mapE eraseM acc) from h (.ok m)
  induction l with
  | nil => intro acc; rfl
  | cons p rest ih =>
    intro acc
    obtain ⟨c, lr⟩ := p
    simp only [eraseM, List.map_cons, List.foldl_cons]
    rw [show List.map (fun p : Nat × IRange => (p.1, eraseR p.2)) rest = eraseM rest from rfl]
    rw [show List.map (fun p : Nat × IRange => (p.1, eraseR p.2)) r = eraseM r from rfl]
    rw [ih]
    congr 1
    cases acc with
    | error e => rfl
    | ok m0 =>
      simp only [mapE]
      rw [get_erase]
      cases IMap.get r c with
      | none => rfl
      | some rr =>
        simp only [Option.map_some]
        rw [← extendR_erase lr rr]
        cases IRange.extend lr rr with
        | error e => rfl
        | ok h => simp only [mapE]; rw [← set_erase]

/-- **Forgetting the `inclusive` flags gives the ranges of `Query.lean`.** -/
theorem rangesI_erase : ∀ (p : Pred) (m : IMap),
    mapE eraseM (p.rangesI m) = p.ranges (eraseM m)
  | .cmp c op left v, m => by
    unfold Pred.rangesI Pred.ranges
    cases left
    · simp only [Bool.false_eq_true, if_false]; exact update_erase c v op m
    · rfl
  | .inList c neg vs, m => by
    unfold Pred.rangesI Pred.ranges
    cases neg
    · simp only [Bool.false_eq_true, if_false]
      cases listMinMax vs with
      | none => rfl
      | some mm =>
        obtain ⟨mn, mx⟩ := mm
        show Except.ok (eraseM (updOrI c mx .le (updOrI c mn .ge m))) =
          Except.ok (updOr c mx .le (updOr c mn .ge (eraseM m)))
        rw [update_or_erase, update_or_erase]
    · rfl
  | .boolCol _, m => rfl
  | .not _, m => rfl
  | .and p q, m => by
    unfold Pred.rangesI Pred.ranges
    rw [← rangesI_erase p m]
    cases hp : p.rangesI m with
    | error e => rfl
    | ok m1 => simp only [mapE]; exact rangesI_erase q m1
  | .or p q, m => by
    unfold Pred.rangesI Pred.ranges
    have hp := rangesI_erase p []
    have hq := rangesI_erase q []
    rw [show eraseM [] = [] from rfl] at hp hq
    rw [← hp]
    cases p.rangesI [] with
    | error e => rfl
    | ok l =>
      simp only [mapE]
      rw [← hq]
      cases q.rangesI [] with
      | error e => rfl
      | ok r => simp only [mapE]; exact mergeOr_erase l r m
  | .isNullE _, m => rfl
  | .const _, m => rfl

-- ---------------------------------------------------------------- the rows a plan reads

open ImmuModel.Sql.QueryScanAux in
/-- whatever index the plan chooses and whatever window it derives: the rows read are rows of the table (each at
most once: a sub-list of a permutation of the table) and every one of them satisfies the WHERE -/
theorem planRows_sound {cols : List Col} {pk : List Nat} {sec : List (List Nat)} {rows hit : List Row} {p : Pred}
    (h : planRows cols pk sec rows p = .ok hit) :
    (∃ l : List Row, l.Perm rows ∧ hit.Sublist l) ∧ ∀ r ∈ hit, keeps p r = .ok true := by
  unfold planRows at h
  cases hi : planIndex pk sec p with
  | error e => simp [hi] at h
  | ok idx =>
    simp only [hi] at h
    rw [runIndex_eq] at h
    simp only at h
    cases hm : p.ranges [] with
    | error e => simp [hm] at h
    | ok m =>
      simp only [hm] at h
      cases hb : keyBounds cols m idx [] [] false false with
      | error e => simp [hb] at h
      | ok lh =>
        obtain ⟨lo, hi'⟩ := lh
        simp only [hb] at h
        cases hv : indexView { cols := cols, pk := pk, rows := rows } idx with
        | error e => simp [hv] at h
        | ok view =>
          simp only [hv, Bool.false_eq_true, if_false] at h
          obtain ⟨hperm, _, _⟩ := indexView_spec hv
          have hall := takeWhere_all p _ _ hit h
          subst hall
          refine ⟨⟨view.map (·.2), hperm, ?_⟩, ?_⟩
          · unfold rowsWhere
            exact (List.filter_sublist).trans ((List.filter_sublist).map _)
          · intro r hr
            unfold rowsWhere at hr
            have := (List.mem_filter.mp hr).2
            cases hk : keeps p r with
            | error e => simp [hk] at this
            | ok b => cases b <;> simp_all

end ImmuModel.Sql.PlanAux
