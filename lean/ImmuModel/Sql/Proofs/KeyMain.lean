/-
C15 helper lemmas: the key encoder in closed form (`keyForm`), its inverse, widths, order,
and composite keys.  The property statements are in Props/C15.lean.
-/
import ImmuModel.Sql.Proofs.KeyOrder
namespace ImmuModel.Sql
open ImmuModel ImmuModel.GoInt

theorem tag_ne : tagNull ≠ tagNotNull := by decide
theorem tag_lt : tagNull < tagNotNull := by decide
theorem encLenLen_eq : encLenLen = 4 := by decide
theorem maxKeyLen_small : Gen.sqlMaxKeyLen < 4294967296 := by decide

/-- Closed form of the encoder's output on valid input. -/
def keyForm (n : Nat) : Val → Bytes
  | .null => [tagNull]
  | .str s => tagNotNull :: (padTo n s ++ beN 4 s.length)
  | .blob s => tagNotNull :: (padTo n s ++ beN 4 s.length)
  | .int i => tagNotNull :: be64 (biased i)
  | .bool b => [tagNotNull, if b then 1 else 0]
  | .uuid u => tagNotNull :: u
  | .ts sec nsec => tagNotNull :: be64 (biased (sec * 1000000000 + (nsec : Int)))
  | .float bits => tagNotNull :: be64 (fenc bits)

def keyN : Val → Nat
  | .null => 0
  | .str s => s.length
  | .blob s => s.length
  | .int _ => 8
  | .bool _ => 1
  | .uuid _ => 16
  | .ts _ _ => 8
  | .float _ => 8

theorem validKey_guards {ty : SqlType} {n : Int} {v : Val} (h : validKey ty n v = true) :
    0 < n ∧ n ≤ (Gen.sqlMaxKeyLen : Int) := by
  unfold validKey at h
  simp only [Bool.and_eq_true, decide_eq_true_eq] at h
  exact ⟨h.1.1, h.1.2⟩

theorem encodeKey_eq {ty : SqlType} {n : Int} {v : Val} (h : validKey ty n v = true) :
    encodeKey v ty n = .ok (keyForm n.toNat v, keyN v) := by
  obtain ⟨h0, h1⟩ := validKey_guards h
  have g0 : ¬ n ≤ 0 := by omega
  have g1 : ¬ n > (Gen.sqlMaxKeyLen : Int) := by omega
  cases v with
  | null => cases ty <;> simp [encodeKey, g0, g1, keyForm, keyN]
  | str s =>
    cases ty <;> try (simp [validKey] at h; done)
    simp only [validKey, Bool.and_eq_true, decide_eq_true_eq] at h
    have : ¬ (s.length > n.toNat) := by omega
    simp [encodeKey, g0, g1, keyForm, keyN, encLenLen_eq, this]
  | blob s =>
    cases ty <;> try (simp [validKey] at h; done)
    simp only [validKey, Bool.and_eq_true, decide_eq_true_eq] at h
    have : ¬ (s.length > n.toNat) := by omega
    simp [encodeKey, g0, g1, keyForm, keyN, encLenLen_eq, this]
  | int i =>
    cases ty <;> try (simp [validKey] at h; done)
    simp only [validKey, Bool.and_eq_true, decide_eq_true_eq] at h
    obtain ⟨_, h8, hi⟩ := h
    subst h8
    simp [encodeKey, g1, keyForm, keyN, flipSign_be64_u64 hi]
  | bool b =>
    cases ty <;> try (simp [validKey] at h; done)
    simp only [validKey, Bool.and_eq_true, decide_eq_true_eq] at h
    obtain ⟨_, h8⟩ := h
    subst h8
    simp [encodeKey, g1, keyForm, keyN]
  | uuid u =>
    cases ty <;> try (simp [validKey] at h; done)
    simp [encodeKey, g0, g1, keyForm, keyN]
  | ts sec nsec =>
    cases ty <;> try (simp [validKey] at h; done)
    simp only [validKey, Bool.and_eq_true, decide_eq_true_eq] at h
    obtain ⟨_, ⟨h8, _⟩, hi⟩ := h
    subst h8
    simp [encodeKey, g1, keyForm, keyN, unixNano, wrap64_of_in hi, flipSign_be64_u64 hi]
  | float bits =>
    cases ty <;> try (simp [validKey] at h; done)
    simp only [validKey, Bool.and_eq_true, decide_eq_true_eq] at h
    obtain ⟨_, _, hb⟩ := h
    simp [encodeKey, g0, g1, keyForm, keyN, mangleFloat_be64 hb]

theorem decode_int' {i : Int} (h : InI64 i) :
    i64 (beVal (flipSign (be64 (biased i)))) = i := by
  rw [flipSign_be64_biased h, beVal_be64 _ (u64_lt i), i64_u64 h]

theorem decode_float' {bits : Nat} (h : bits < two64) :
    beVal (unmangleFloat (be64 (fenc bits))) = bits := by
  rw [unmangleFloat_be64 h, beVal_be64 _ h]

theorem dec_var_len (s rest : Bytes) (n : Nat) (hs : s.length ≤ n) (hn : n < 256 ^ 4) :
    beVal (((padTo n s ++ beN 4 s.length ++ rest).drop n).take 4) = s.length := by
  rw [List.append_assoc, drop_pad hs, List.take_append_of_le_length (by simp)]
  rw [List.take_of_length_le (by simp), beVal_beN]
  exact Nat.mod_eq_of_lt (by omega)

theorem dec_var_val (s rest : Bytes) (n : Nat) :
    (padTo n s ++ beN 4 s.length ++ rest).take s.length = s := by
  rw [List.append_assoc, take_pad]

theorem keyForm_length {ty : SqlType} {n : Int} {v : Val} (h : validKey ty n v = true)
    (hv : v ≠ .null) : (keyForm n.toNat v).length = keyWidth ty n := by
  cases v with
  | null => exact absurd rfl hv
  | str s =>
    cases ty <;> try (simp [validKey] at h; done)
    simp only [validKey, Bool.and_eq_true, decide_eq_true_eq] at h
    simp [keyForm, keyWidth, padTo_length h.2, encLenLen_eq]; omega
  | blob s =>
    cases ty <;> try (simp [validKey] at h; done)
    simp only [validKey, Bool.and_eq_true, decide_eq_true_eq] at h
    simp [keyForm, keyWidth, padTo_length h.2, encLenLen_eq]; omega
  | int i => cases ty <;> try (simp [validKey] at h; done)
             simp [keyForm, keyWidth]
  | bool b => cases ty <;> try (simp [validKey] at h; done)
              simp [keyForm, keyWidth]
  | uuid u =>
    cases ty <;> try (simp [validKey] at h; done)
    simp only [validKey, Bool.and_eq_true, decide_eq_true_eq] at h
    simp [keyForm, keyWidth, h.2.2]
  | ts sec nsec => cases ty <;> try (simp [validKey] at h; done)
                   simp [keyForm, keyWidth]
  | float bits => cases ty <;> try (simp [validKey] at h; done)
                  simp [keyForm, keyWidth]

theorem decodeKey_keyForm {ty : SqlType} {n : Int} {v : Val} (h : validKey ty n v = true)
    (rest : Bytes) :
    decodeKey (keyForm n.toNat v ++ rest) ty n = .ok (v, (keyForm n.toNat v).length) := by
  obtain ⟨h0, h1⟩ := validKey_guards h
  have hk := maxKeyLen_small
  have g0 : ¬ n ≤ 0 := by omega
  have g1 : ¬ n ≥ 4611686018427387904 := by omega
  have hn4 : n.toNat < 256 ^ 4 := by
    have : (256 : Nat) ^ 4 = 4294967296 := by decide
    omega
  cases v with
  | null => simp [decodeKey, g0, g1, keyForm]
  | str s =>
    cases ty <;> try (simp [validKey] at h; done)
    simp only [validKey, Bool.and_eq_true, decide_eq_true_eq] at h
    have hl := padTo_length h.2
    simp only [decodeKey, g0, g1, if_false, keyForm, List.cons_append, tag_ne.symm, ne_eq,
      not_true_eq_false, encLenLen_eq]
    rw [dec_var_len s rest _ h.2 hn4, dec_var_val]
    have c1 : ¬ ((tagNotNull :: (padTo n.toNat s ++ beN 4 s.length ++ rest)).length < 1 + n.toNat + 4) := by
      simp [hl]; omega
    have c2 : ¬ (s.length > n.toNat) := by omega
    rw [if_neg c1, if_neg c2]
    simp [hl]; omega
  | blob s =>
    cases ty <;> try (simp [validKey] at h; done)
    simp only [validKey, Bool.and_eq_true, decide_eq_true_eq] at h
    have hl := padTo_length h.2
    simp only [decodeKey, g0, g1, if_false, keyForm, List.cons_append, tag_ne.symm, ne_eq,
      not_true_eq_false, encLenLen_eq]
    rw [dec_var_len s rest _ h.2 hn4, dec_var_val]
    have c1 : ¬ ((tagNotNull :: (padTo n.toNat s ++ beN 4 s.length ++ rest)).length < 1 + n.toNat + 4) := by
      simp [hl]; omega
    have c2 : ¬ (s.length > n.toNat) := by omega
    rw [if_neg c1, if_neg c2]
    simp [hl]; omega
  | int i =>
    cases ty <;> try (simp [validKey] at h; done)
    simp only [validKey, Bool.and_eq_true, decide_eq_true_eq] at h
    obtain ⟨_, h8, hi⟩ := h
    subst h8
    have c : ¬ (8 + rest.length + 1 < 9) := by omega
    simp [decodeKey, keyForm, tag_ne.symm, decode_int' hi, c]
  | bool b =>
    cases ty <;> try (simp [validKey] at h; done)
    simp only [validKey, Bool.and_eq_true, decide_eq_true_eq] at h
    obtain ⟨_, h8⟩ := h
    subst h8
    cases b <;> simp [decodeKey, keyForm, tag_ne.symm]
  | uuid u =>
    cases ty <;> try (simp [validKey] at h; done)
    simp only [validKey, Bool.and_eq_true, decide_eq_true_eq] at h
    obtain ⟨_, h8, hu⟩ := h
    subst h8
    have : (u ++ rest).take 16 = u := by
      rw [List.take_append_of_le_length (by omega), List.take_of_length_le (by omega)]
    simp [decodeKey, keyForm, tag_ne.symm, hu, this]
  | ts sec nsec =>
    cases ty <;> try (simp [validKey] at h; done)
    simp only [validKey, Bool.and_eq_true, decide_eq_true_eq] at h
    obtain ⟨_, ⟨h8, hns⟩, hi⟩ := h
    subst h8
    have c : ¬ (8 + rest.length + 1 < 9) := by omega
    simp [decodeKey, keyForm, tag_ne.symm, decode_int' hi, timeUnix_nano hns, c]
  | float bits =>
    cases ty <;> try (simp [validKey] at h; done)
    simp only [validKey, Bool.and_eq_true, decide_eq_true_eq] at h
    obtain ⟨_, h8, hb⟩ := h
    subst h8
    have c : ¬ (8 + rest.length + 1 < 9) := by omega
    simp [decodeKey, keyForm, tag_ne.symm, decode_float' hb, c]

theorem bc_null_lt (r : Bytes) : bytesCompare [tagNull] (tagNotNull :: r) = -1 :=
  bytesCompare_eq_neg_one.mpr (lexLt_cons_lt tag_lt [] r)

theorem bc_gt_null (r : Bytes) : bytesCompare (tagNotNull :: r) [tagNull] = 1 :=
  bytesCompare_eq_one.mpr (lexLt_cons_lt tag_lt [] r)

theorem bc_bool (a b : Bool) :
    bytesCompare [tagNotNull, if a then 1 else 0] [tagNotNull, if b then 1 else 0] = boolCompare a b := by
  cases a <;> cases b <;> decide

/-- SQL comparison of two valid values of a column equals the byte order of their keys. -/
theorem keyForm_order {ty : SqlType} {n : Int} {a b : Val} (ha : validKey ty n a = true)
    (hb : validKey ty n b = true) (hs : orderSafe a b = true) :
    sqlCompare a b = .ok (bytesCompare (keyForm n.toNat a) (keyForm n.toNat b)) := by
  obtain ⟨h0, h1⟩ := validKey_guards ha
  have hk := maxKeyLen_small
  have hn4 : n.toNat < 256 ^ 4 := by
    have : (256 : Nat) ^ 4 = 4294967296 := by decide
    omega
  cases a with
  | null =>
    cases b with
    | null => simp [sqlCompare, keyForm]
    | _ => simp [sqlCompare, keyForm, bc_null_lt]
  | str s =>
    cases b with
    | null => simp [sqlCompare, keyForm, bc_gt_null]
    | str t =>
      cases ty <;> try (simp [validKey] at ha; done)
      simp only [validKey, Bool.and_eq_true, decide_eq_true_eq] at ha hb
      simp only [sqlCompare, keyForm, bytesCompare_cons_same]
      rw [bytesCompare_pad s t _ ha.2 hb.2 hn4]
    | _ => cases ty <;> simp [validKey] at ha hb
  | blob s =>
    cases b with
    | null => simp [sqlCompare, keyForm, bc_gt_null]
    | blob t =>
      cases ty <;> try (simp [validKey] at ha; done)
      simp only [validKey, Bool.and_eq_true, decide_eq_true_eq] at ha hb
      simp only [sqlCompare, keyForm, bytesCompare_cons_same]
      rw [bytesCompare_pad s t _ ha.2 hb.2 hn4]
    | _ => cases ty <;> simp [validKey] at ha hb
  | int i =>
    cases b with
    | null => simp [sqlCompare, keyForm, bc_gt_null]
    | int j =>
      cases ty <;> try (simp [validKey] at ha; done)
      simp only [validKey, Bool.and_eq_true, decide_eq_true_eq] at ha hb
      simp only [sqlCompare, keyForm, bytesCompare_cons_same]
      rw [bytesCompare_biased ha.2.2 hb.2.2]
    | _ => cases ty <;> simp [validKey] at ha hb
  | bool x =>
    cases b with
    | null => simp [sqlCompare, keyForm, bc_gt_null]
    | bool y =>
      cases ty <;> try (simp [validKey] at ha; done)
      simp only [sqlCompare, keyForm, bc_bool]
    | _ => cases ty <;> simp [validKey] at ha hb
  | uuid u =>
    cases b with
    | null => simp [sqlCompare, keyForm, bc_gt_null]
    | uuid w =>
      cases ty <;> try (simp [validKey] at ha; done)
      simp only [sqlCompare, keyForm, bytesCompare_cons_same]
    | _ => cases ty <;> simp [validKey] at ha hb
  | ts s1 n1 =>
    cases b with
    | null => simp [sqlCompare, keyForm, bc_gt_null]
    | ts s2 n2 =>
      cases ty <;> try (simp [validKey] at ha; done)
      simp only [validKey, Bool.and_eq_true, decide_eq_true_eq] at ha hb
      simp only [sqlCompare, keyForm, bytesCompare_cons_same]
      rw [bytesCompare_biased ha.2.2 hb.2.2, tsCompare_nano ha.2.1.2 hb.2.1.2]
    | _ => cases ty <;> simp [validKey] at ha hb
  | float x =>
    cases b with
    | null => simp [sqlCompare, keyForm, bc_gt_null]
    | float y =>
      cases ty <;> try (simp [validKey] at ha; done)
      simp only [validKey, Bool.and_eq_true, decide_eq_true_eq] at ha hb
      simp only [sqlCompare, keyForm, bytesCompare_cons_same]
      rw [bytesCompare_fenc ha.2.2 hb.2.2 hs]
    | _ => cases ty <;> simp [validKey] at ha hb

/-- Keys of two valid values of one column never stand in a proper-prefix relation. -/
theorem keyForm_decisive {ty : SqlType} {n : Int} {a b : Val} (ha : validKey ty n a = true)
    (hb : validKey ty n b = true) : Decisive (keyForm n.toNat a) (keyForm n.toNat b) := by
  by_cases na : a = .null
  · by_cases nb : b = .null
    · subst na; subst nb; exact decisive_refl _
    · subst na
      cases b <;> first | exact absurd rfl nb | exact decisive_of_head_ne tag_ne _ _
  · by_cases nb : b = .null
    · subst nb
      cases a <;> first | exact absurd rfl na | exact decisive_of_head_ne tag_ne.symm _ _
    · exact decisive_of_length_eq (by rw [keyForm_length ha na, keyForm_length hb nb])

theorem encodeTuple_eq : ∀ {cols : List Col} {vs : List Val}, validTuple cols vs = true →
    encodeTuple cols vs = .ok ((List.zipWith (fun c v => keyForm c.maxLen.toNat v) cols vs).flatten)
  | [], [], _ => rfl
  | [], _ :: _, h => by simp [validTuple] at h
  | _ :: _, [], h => by simp [validTuple] at h
  | c :: cs, v :: vs, h => by
    simp only [validTuple, Bool.and_eq_true] at h
    simp only [encodeTuple, encodeKey_eq h.1, encodeTuple_eq h.2, List.zipWith_cons_cons,
      List.flatten_cons]

/-- Composite keys: byte order of the concatenation = lexicographic order of the rows. -/
theorem tuple_order : ∀ {cols : List Col} {as bs : List Val}, validTuple cols as = true →
    validTuple cols bs = true → orderSafeTuple as bs = true →
    tupleCompare as bs = .ok (bytesCompare
      ((List.zipWith (fun c v => keyForm c.maxLen.toNat v) cols as).flatten)
      ((List.zipWith (fun c v => keyForm c.maxLen.toNat v) cols bs).flatten))
  | [], [], [], _, _, _ => by simp [tupleCompare]
  | [], _ :: _, _, h, _, _ => by simp [validTuple] at h
  | [], [], _ :: _, _, h, _ => by simp [validTuple] at h
  | _ :: _, [], _, h, _, _ => by simp [validTuple] at h
  | _ :: _, _ :: _, [], _, h, _ => by simp [validTuple] at h
  | c :: cs, a :: as, b :: bs, ha, hb, hs => by
    simp only [validTuple, Bool.and_eq_true] at ha hb
    simp only [orderSafeTuple, Bool.and_eq_true] at hs
    have ih := tuple_order ha.2 hb.2 hs.2
    have h1 := keyForm_order ha.1 hb.1 hs.1
    have d1 := keyForm_decisive ha.1 hb.1
    have d2 := keyForm_decisive hb.1 ha.1
    simp only [tupleCompare, h1, ih, List.zipWith_cons_cons, List.flatten_cons]
    rw [bytesCompare_append_decisive d1 d2]
    split <;> rfl

theorem decodeTuple_eq : ∀ {cols : List Col} {vs : List Val}, validTuple cols vs = true →
    ∀ rest, decodeTuple cols
      ((List.zipWith (fun c v => keyForm c.maxLen.toNat v) cols vs).flatten ++ rest) = .ok vs
  | [], [], _, _ => rfl
  | [], _ :: _, h, _ => by simp [validTuple] at h
  | _ :: _, [], h, _ => by simp [validTuple] at h
  | c :: cs, v :: vs, h, rest => by
    simp only [validTuple, Bool.and_eq_true] at h
    simp only [List.zipWith_cons_cons, List.flatten_cons, List.append_assoc, decodeTuple,
      decodeKey_keyForm h.1, List.drop_left, decodeTuple_eq h.2 rest]

end ImmuModel.Sql
