/-
C11 planner lemmas, part 1: the flagged range walk `Pred.rangesF` of Plan.lean is the walk `Pred.ranges`
of Query.lean once the `inclusive` flags are forgotten (errors correspond too).
-/
import ImmuModel.Sql.SelectPlanSpec
import ImmuModel.Sql.Proofs.QueryMain
namespace ImmuModel.Sql.SelectPlanRangeAux
open ImmuModel ImmuModel.Sql

@[simp] theorem mapE_ok {α β : Type} (f : α → β) (x : α) : exceptMap f (.ok x) = .ok (f x) := rfl
@[simp] theorem mapE_error {α β : Type} (f : α → β) (e : EvalErr) :
    exceptMap f (.error e : Except EvalErr α) = .error e := rfl

-- ---------------------------------------------------------------- maps

theorem erase_nil : RangeMapF.erase [] = [] := rfl

theorem erase_cons (k : Nat) (r : RangeF) (m : RangeMapF) :
    RangeMapF.erase ((k, r) :: m) = (k, r.erase) :: RangeMapF.erase m := rfl

theorem get_erase : ∀ (m : RangeMapF) (c : Nat),
    RangeMap.get (RangeMapF.erase m) c = (RangeMapF.get m c).map RangeF.erase
  | [], _ => rfl
  | (k, r) :: rest, c => by
    rw [erase_cons]
    simp only [RangeMap.get, RangeMapF.get]
    by_cases e : k = c
    · simp [e]
    · simp only [e, if_false]
      exact get_erase rest c

theorem set_erase : ∀ (m : RangeMapF) (c : Nat) (r : RangeF),
    RangeMapF.erase (RangeMapF.set m c r) = RangeMap.set (RangeMapF.erase m) c r.erase
  | [], _, _ => rfl
  | (k, x) :: rest, c, r => by
    rw [erase_cons]
    simp only [RangeMap.set, RangeMapF.set]
    by_cases e : k = c
    · simp only [e, if_true, erase_cons]
    · simp only [e, if_false, erase_cons]
      rw [set_erase rest c r]

-- ---------------------------------------------------------------- semi ranges

theorem maxSemi_val (a b : SemiF) : exceptMap SemiF.val (maxSemiF a b) = maxVal a.val b.val := by
  unfold maxSemiF maxVal
  cases cmpVals a.val b.val with
  | error e => rfl
  | ok r => by_cases h : r < 0 <;> simp [h]

theorem minSemi_val (a b : SemiF) : exceptMap SemiF.val (minSemiF a b) = minVal a.val b.val := by
  unfold minSemiF minVal
  cases cmpVals a.val b.val with
  | error e => rfl
  | ok r => by_cases h : r > 0 <;> simp [h]

theorem optCombineF_val {f : SemiF → SemiF → Except EvalErr SemiF} {g : Val → Val → Except EvalErr Val}
    (hfg : ∀ a b, exceptMap SemiF.val (f a b) = g a.val b.val) (x y : Option SemiF) :
    exceptMap (Option.map SemiF.val) (optCombineF f x y) = optCombine g (x.map SemiF.val) (y.map SemiF.val) := by
  cases x with
  | none => rfl
  | some a =>
    cases y with
    | none => rfl
    | some b =>
      have := hfg a b
      simp only [optCombineF, optCombine, Option.map_some]
      rw [← this]
      cases f a b <;> rfl

theorem optExtendF_val {f : SemiF → SemiF → Except EvalErr SemiF} {g : Val → Val → Except EvalErr Val}
    (hfg : ∀ a b, exceptMap SemiF.val (f a b) = g a.val b.val) (x y : Option SemiF) :
    exceptMap (Option.map SemiF.val) (optExtendF f x y) = optExtend g (x.map SemiF.val) (y.map SemiF.val) := by
  cases x with
  | none => cases y <;> rfl
  | some a =>
    cases y with
    | none => rfl
    | some b =>
      have := hfg a b
      simp only [optExtendF, optExtend, Option.map_some]
      rw [← this]
      cases f a b <;> rfl

theorem refine_erase (r n : RangeF) : exceptMap RangeF.erase (r.refine n) = r.erase.refine n.erase := by
  have h1 := optCombineF_val maxSemi_val r.lo n.lo
  have h2 := optCombineF_val minSemi_val r.hi n.hi
  unfold RangeF.refine Range.refine
  simp only [RangeF.erase]
  rw [← h1, ← h2]
  cases optCombineF maxSemiF r.lo n.lo with
  | error e => rfl
  | ok lo =>
    cases optCombineF minSemiF r.hi n.hi with
    | error e => rfl
    | ok hi => rfl

theorem extend_erase (r n : RangeF) : exceptMap RangeF.erase (r.extend n) = r.erase.extend n.erase := by
  have h1 := optExtendF_val minSemi_val r.lo n.lo
  have h2 := optExtendF_val maxSemi_val r.hi n.hi
  unfold RangeF.extend Range.extend
  simp only [RangeF.erase]
  rw [← h1, ← h2]
  cases optExtendF minSemiF r.lo n.lo with
  | error e => rfl
  | ok lo =>
    cases optExtendF maxSemiF r.hi n.hi with
    | error e => rfl
    | ok hi => rfl

-- ---------------------------------------------------------------- updateRangeFor

/-- the new flagged range of `updateRangeForF` -/
def newRangeF (v : Val) : CmpOp → Option RangeF
  | .eq => some { lo := some ⟨v, true⟩, hi := some ⟨v, true⟩ }
  | .lt => some { hi := some ⟨v, false⟩ }
  | .le => some { hi := some ⟨v, true⟩ }
  | .gt => some { lo := some ⟨v, false⟩ }
  | .ge => some { lo := some ⟨v, true⟩ }
  | .ne => none

theorem updateRangeForF_eq (c : Nat) (v : Val) (op : CmpOp) (m : RangeMapF) :
    updateRangeForF c v op m =
      match newRangeF v op with
      | none => .ok m
      | some n =>
        match m.get c with
        | none => .ok (m.set c n)
        | some cur =>
          match cur.refine n with
          | .error e => .error e
          | .ok r => .ok (m.set c r) := by
  cases op <;> rfl

theorem newRangeF_erase (v : Val) (op : CmpOp) :
    (newRangeF v op).map RangeF.erase = QueryRangeAux.newRange v op := by
  cases op <;> rfl

theorem update_erase (c : Nat) (v : Val) (op : CmpOp) (m : RangeMapF) :
    exceptMap RangeMapF.erase (updateRangeForF c v op m) = updateRangeFor c v op (RangeMapF.erase m) := by
  rw [updateRangeForF_eq, QueryRangeAux.updateRangeFor_eq, ← newRangeF_erase, get_erase]
  cases newRangeF v op with
  | none => rfl
  | some n =>
    simp only [Option.map_some]
    cases m.get c with
    | none => simp only [Option.map_none, mapE_ok, set_erase]
    | some cur =>
      simp only [Option.map_some]
      rw [← refine_erase]
      cases cur.refine n with
      | error e => rfl
      | ok r => simp only [mapE_ok, set_erase]

-- ---------------------------------------------------------------- OR

def orStepF (r : RangeMapF) (acc : Except EvalErr RangeMapF) (x : Nat × RangeF) : Except EvalErr RangeMapF :=
  match acc with
  | .error e => .error e
  | .ok m =>
    match RangeMapF.get r x.1 with
    | none => .ok m
    | some rr =>
      match x.2.extend rr with
      | .error e => .error e
      | .ok h => .ok (m.set x.1 h)

theorem mergeOrF_eq (l r m : RangeMapF) : mergeOrF l r m = l.foldl (orStepF r) (.ok m) := rfl

theorem orStep_erase (r : RangeMapF) (acc : Except EvalErr RangeMapF) (c : Nat) (lr : RangeF) :
    exceptMap RangeMapF.erase (orStepF r acc (c, lr)) =
      QuerySelAux.orStep (RangeMapF.erase r) (exceptMap RangeMapF.erase acc) (c, lr.erase) := by
  cases acc with
  | error e => rfl
  | ok m =>
    simp only [orStepF, QuerySelAux.orStep, mapE_ok, get_erase]
    cases RangeMapF.get r c with
    | none => rfl
    | some rr =>
      simp only [Option.map_some]
      rw [← extend_erase]
      cases lr.extend rr with
      | error e => rfl
      | ok h => simp only [mapE_ok, set_erase]

theorem foldl_orStep_erase (r : RangeMapF) : ∀ (l : RangeMapF) (acc : Except EvalErr RangeMapF),
    exceptMap RangeMapF.erase (l.foldl (orStepF r) acc) =
      (RangeMapF.erase l).foldl (QuerySelAux.orStep (RangeMapF.erase r)) (exceptMap RangeMapF.erase acc)
  | [], _ => rfl
  | (c, lr) :: l, acc => by
    rw [erase_cons, List.foldl_cons, List.foldl_cons, foldl_orStep_erase r l, orStep_erase]

theorem mergeOr_erase (l r m : RangeMapF) :
    exceptMap RangeMapF.erase (mergeOrF l r m) =
      mergeOr (RangeMapF.erase l) (RangeMapF.erase r) (RangeMapF.erase m) := by
  rw [mergeOrF_eq, QuerySelAux.mergeOr_eq, foldl_orStep_erase]
  rfl

-- ---------------------------------------------------------------- the walk

/-- **T1**: forgetting the flags of the flagged walk gives the walk of Query.lean -/
theorem rangesF_erase : ∀ (p : Pred) (m : RangeMapF),
    exceptMap RangeMapF.erase (p.rangesF m) = p.ranges (RangeMapF.erase m)
  | .cmp c op left v, m => by
    cases left with
    | true => rfl
    | false =>
      simp only [Pred.rangesF, Pred.ranges, Bool.false_eq_true, if_false]
      exact update_erase c v op m
  | .inList c neg vs, m => by
    cases neg with
    | true => rfl
    | false =>
      simp only [Pred.rangesF, Pred.ranges, Bool.false_eq_true, if_false]
      cases listMinMax vs with
      | none => rfl
      | some mm =>
        obtain ⟨mn, mx⟩ := mm
        simp only [mapE_ok]
        have e1 := update_erase c mn .ge m
        generalize updateRangeFor c mn .ge (RangeMapF.erase m) = y1 at e1 ⊢
        generalize updateRangeForF c mn .ge m = x1 at e1 ⊢
        subst e1
        cases x1 with
        | error e =>
          simp only [mapE_error]
          have e2 := update_erase c mx .le m
          generalize updateRangeFor c mx .le (RangeMapF.erase m) = y2 at e2 ⊢
          generalize updateRangeForF c mx .le m = x2 at e2 ⊢
          subst e2
          cases x2 <;> rfl
        | ok a =>
          simp only [mapE_ok]
          have e2 := update_erase c mx .le a
          generalize updateRangeFor c mx .le (RangeMapF.erase a) = y2 at e2 ⊢
          generalize updateRangeForF c mx .le a = x2 at e2 ⊢
          subst e2
          cases x2 <;> rfl
  | .boolCol _, _ => rfl
  | .not _, _ => rfl
  | .isNullE _, _ => rfl
  | .const _, _ => rfl
  | .and p q, m => by
    have h1 := rangesF_erase p m
    simp only [Pred.rangesF, Pred.ranges]
    rw [← h1]
    cases p.rangesF m with
    | error e => rfl
    | ok m1 => exact rangesF_erase q m1
  | .or p q, m => by
    have h1 := rangesF_erase p []
    have h2 := rangesF_erase q []
    simp only [Pred.rangesF, Pred.ranges]
    rw [erase_nil] at h1 h2
    rw [← h1, ← h2]
    cases p.rangesF [] with
    | error e => rfl
    | ok l =>
      cases q.rangesF [] with
      | error e => rfl
      | ok r => exact mergeOr_erase l r m

theorem rangesF_ok {p : Pred} {m mF : RangeMapF} (h : p.rangesF m = .ok mF) :
    p.ranges (RangeMapF.erase m) = .ok (RangeMapF.erase mF) := by
  rw [← rangesF_erase, h]
  rfl

theorem rangesF_error {p : Pred} {m : RangeMapF} {e : EvalErr} (h : p.rangesF m = .error e) :
    p.ranges (RangeMapF.erase m) = .error e := by
  rw [← rangesF_erase, h]
  rfl

end ImmuModel.Sql.SelectPlanRangeAux
