/-
C13 — proofs about `Sql/CatalogClone.lean`: a clone whose containers are all rebuilt shares nothing with its source, so no
sequence of in-place mutations through the clone changes what the source shows.
-/
import ImmuModel.Sql.CatalogClone
namespace ImmuModel.Sql.CatClone.MainAux
open ImmuModel.Sql.CatClone

/-- `h'` extends `h`: same cells, possibly more -/
def Ext (h h' : Heap) : Prop := ∃ ext, h'.cells = h.cells ++ ext

theorem ext_refl (h : Heap) : Ext h h := ⟨[], by simp⟩

theorem ext_trans {a b c : Heap} (h1 : Ext a b) (h2 : Ext b c) : Ext a c := by
  obtain ⟨e1, h1⟩ := h1
  obtain ⟨e2, h2⟩ := h2
  exact ⟨e1 ++ e2, by rw [h2, h1, List.append_assoc]⟩

theorem ext_len {a b : Heap} (h : Ext a b) : a.cells.length ≤ b.cells.length := by
  obtain ⟨e, h⟩ := h
  rw [h, List.length_append]
  exact Nat.le_add_right _ _

theorem ext_get {a b : Heap} (h : Ext a b) {r : Nat} (hr : r < a.cells.length) : b.get r = a.get r := by
  obtain ⟨e, h⟩ := h
  unfold Heap.get
  rw [h, List.getElem?_append_left hr]

theorem alloc_ext (h : Heap) (v : List Nat) : Ext h (h.alloc v).1 := ⟨[v], rfl⟩

theorem alloc_len (h : Heap) (v : List Nat) : (h.alloc v).1.cells.length = h.cells.length + 1 := by
  simp [Heap.alloc]

theorem alloc_ref (h : Heap) (v : List Nat) : (h.alloc v).2 = h.cells.length := rfl

theorem alloc_get (h : Heap) (v : List Nat) : (h.alloc v).1.get (h.alloc v).2 = v := by
  simp [Heap.alloc, Heap.get]

theorem cloneTable_ext (bs : List Bool) (h : Heap) (t : Table) : Ext h (cloneTable bs h t).1 := by
  induction bs generalizing h t with
  | nil => cases t <;> exact ext_refl h
  | cons b bs ih =>
    cases t with
    | nil => exact ext_refl h
    | cons r rs =>
      cases b with
      | false => simpa [cloneTable] using ih h rs
      | true =>
        simp only [cloneTable, if_true]
        exact ext_trans (alloc_ext h (h.get r)) (ih _ rs)

/-- the clone shows what the source shows -/
theorem cloneTable_view (bs : List Bool) (h : Heap) (t : Table) (hwf : ∀ r, r ∈ t → r < h.cells.length) :
    viewT (cloneTable bs h t).1 (cloneTable bs h t).2 = viewT h t := by
  induction bs generalizing h t with
  | nil => cases t <;> rfl
  | cons b bs ih =>
    cases t with
    | nil => rfl
    | cons r rs =>
      have hr : r < h.cells.length := hwf r (List.mem_cons_self ..)
      have hrs : ∀ x, x ∈ rs → x < h.cells.length := fun x hx => hwf x (List.mem_cons_of_mem _ hx)
      cases b with
      | false =>
        simp only [cloneTable, Bool.false_eq_true, if_false, viewT, List.map_cons]
        have := ih h rs hrs
        simp only [viewT] at this
        rw [this, ext_get (cloneTable_ext bs h rs) hr]
      | true =>
        simp only [cloneTable, if_true, viewT, List.map_cons]
        have hp := alloc_ext h (h.get r)
        have hrs' : ∀ x, x ∈ rs → x < (h.alloc (h.get r)).1.cells.length := fun x hx =>
          Nat.lt_of_lt_of_le (hrs x hx) (ext_len hp)
        have := ih (h.alloc (h.get r)).1 rs hrs'
        simp only [viewT] at this
        rw [this]
        have hnew : (h.alloc (h.get r)).2 < (h.alloc (h.get r)).1.cells.length := by
          rw [alloc_ref, alloc_len]; exact Nat.lt_succ_self _
        rw [ext_get (cloneTable_ext bs _ rs) hnew, alloc_get]
        congr 1
        exact List.map_congr_left (fun x hx => ext_get hp (hrs x hx))

/-- all containers rebuilt ⇒ every reference of the clone is a NEW one -/
theorem cloneTable_fresh (bs : List Bool) (hall : ∀ b, b ∈ bs → b = true) (h : Heap) (t : Table)
    (hlen : t.length ≤ bs.length) :
    ∀ r, r ∈ (cloneTable bs h t).2 → h.cells.length ≤ r := by
  induction bs generalizing h t with
  | nil =>
    cases t with
    | nil => intro r hr; cases hr
    | cons _ _ => simp at hlen
  | cons b bs ih =>
    cases t with
    | nil => intro r hr; cases hr
    | cons r0 rs =>
      have hb : b = true := hall b (List.mem_cons_self ..)
      subst hb
      have hall' : ∀ b, b ∈ bs → b = true := fun b hb => hall b (List.mem_cons_of_mem _ hb)
      have hlen' : rs.length ≤ bs.length := by simpa using hlen
      intro r hr
      simp only [cloneTable, if_true] at hr
      rcases List.mem_cons.mp hr with hr | hr
      · rw [hr, alloc_ref]; exact Nat.le_refl _
      · have := ih hall' (h.alloc (h.get r0)).1 rs hlen' r hr
        rw [alloc_len] at this
        exact Nat.le_of_succ_le this

/-- every reference of a clone is allocated -/
theorem cloneTable_refs_lt (bs : List Bool) (h : Heap) (t : Table) (hwf : ∀ r, r ∈ t → r < h.cells.length) :
    ∀ r, r ∈ (cloneTable bs h t).2 → r < (cloneTable bs h t).1.cells.length := by
  induction bs generalizing h t with
  | nil => cases t <;> exact hwf
  | cons b bs ih =>
    cases t with
    | nil => exact hwf
    | cons r0 rs =>
      have hr0 : r0 < h.cells.length := hwf r0 (List.mem_cons_self ..)
      have hrs : ∀ x, x ∈ rs → x < h.cells.length := fun x hx => hwf x (List.mem_cons_of_mem _ hx)
      cases b with
      | false =>
        intro r hr
        simp only [cloneTable, Bool.false_eq_true, if_false] at hr ⊢
        rcases List.mem_cons.mp hr with hr | hr
        · rw [hr]; exact Nat.lt_of_lt_of_le hr0 (ext_len (cloneTable_ext bs h rs))
        · exact ih h rs hrs r hr
      | true =>
        intro r hr
        simp only [cloneTable, if_true] at hr ⊢
        have hp := alloc_ext h (h.get r0)
        have hrs' : ∀ x, x ∈ rs → x < (h.alloc (h.get r0)).1.cells.length := fun x hx =>
          Nat.lt_of_lt_of_le (hrs x hx) (ext_len hp)
        rcases List.mem_cons.mp hr with hr | hr
        · rw [hr, alloc_ref]
          have : h.cells.length < (h.alloc (h.get r0)).1.cells.length := by rw [alloc_len]; exact Nat.lt_succ_self _
          exact Nat.lt_of_lt_of_le this (ext_len (cloneTable_ext bs _ rs))
        · exact ih _ rs hrs' r hr

theorem cloneCatalog_ext (bs : List Bool) (h : Heap) (c : List Table) : Ext h (cloneCatalog bs h c).1 := by
  induction c generalizing h with
  | nil => exact ext_refl h
  | cons t ts ih =>
    simp only [cloneCatalog]
    exact ext_trans (cloneTable_ext bs h t) (ih _)

theorem wf_ext {h h' : Heap} {c : List Table} (he : Ext h h') (hwf : WF h c) : WF h' c :=
  fun t ht r hr => Nat.lt_of_lt_of_le (hwf t ht r hr) (ext_len he)

theorem view_ext {h h' : Heap} {c : List Table} (he : Ext h h') (hwf : WF h c) : view h' c = view h c := by
  unfold view viewT
  exact List.map_congr_left (fun t ht => List.map_congr_left (fun r hr => ext_get he (hwf t ht r hr)))

theorem cloneCatalog_view (bs : List Bool) (h : Heap) (c : List Table) (hwf : WF h c) :
    view (cloneCatalog bs h c).1 (cloneCatalog bs h c).2 = view h c := by
  induction c generalizing h with
  | nil => rfl
  | cons t ts ih =>
    have ht : ∀ r, r ∈ t → r < h.cells.length := hwf t (List.mem_cons_self ..)
    have hts : WF h ts := fun t' ht' => hwf t' (List.mem_cons_of_mem _ ht')
    have he := cloneTable_ext bs h t
    have hts' : WF (cloneTable bs h t).1 ts := wf_ext he hts
    simp only [cloneCatalog, view, List.map_cons]
    have ih' := ih (cloneTable bs h t).1 hts'
    simp only [view] at ih'
    rw [ih']
    have hv := view_ext he hts
    simp only [view] at hv
    rw [hv]
    congr 1
    -- the head table: its clone was made in `(cloneTable bs h t).1`; the later clones only extend the heap
    have hfreshlen : ∀ r, r ∈ (cloneTable bs h t).2 → r < (cloneTable bs h t).1.cells.length := by
      intro r hr
      exact cloneTable_refs_lt bs h t ht r hr
    have he2 := cloneCatalog_ext bs (cloneTable bs h t).1 ts
    unfold viewT
    rw [List.map_congr_left (fun r hr => ext_get he2 (hfreshlen r hr))]
    exact cloneTable_view bs h t ht

theorem cloneCatalog_fresh (bs : List Bool) (hall : ∀ b, b ∈ bs → b = true) (h : Heap) (c : List Table)
    (hshape : ∀ t, t ∈ c → t.length ≤ bs.length) :
    ∀ t, t ∈ (cloneCatalog bs h c).2 → ∀ r, r ∈ t → h.cells.length ≤ r := by
  induction c generalizing h with
  | nil => intro t ht; cases ht
  | cons t0 ts ih =>
    intro t ht r hr
    simp only [cloneCatalog] at ht
    rcases List.mem_cons.mp ht with ht | ht
    · rw [ht] at hr
      exact cloneTable_fresh bs hall h t0 (hshape t0 (List.mem_cons_self ..)) r hr
    · have := ih (cloneTable bs h t0).1 (fun t' ht' => hshape t' (List.mem_cons_of_mem _ ht')) t ht r hr
      exact Nat.le_trans (ext_len (cloneTable_ext bs h t0)) this

theorem set_len (h : Heap) (r : Nat) (v : List Nat) : (h.set r v).cells.length = h.cells.length := by
  simp [Heap.set]

theorem set_get_ne (h : Heap) {r r0 : Nat} (v : List Nat) (hne : r ≠ r0) : (h.set r v).get r0 = h.get r0 := by
  simp [Heap.set, Heap.get, List.getElem?_set_ne hne]

/-- a mutation through a catalog whose references are all ≥ n0 leaves every container below n0 alone -/
theorem applyMut_low (cat : List Table) (n0 : Nat) (hcat : ∀ t, t ∈ cat → ∀ r, r ∈ t → n0 ≤ r) (h : Heap) (m : Mut) :
    (applyMut cat h m).cells.length = h.cells.length ∧ ∀ r0, r0 < n0 → (applyMut cat h m).get r0 = h.get r0 := by
  unfold applyMut
  split
  · exact ⟨rfl, fun _ _ => rfl⟩
  · rename_i t ht
    split
    · exact ⟨rfl, fun _ _ => rfl⟩
    · rename_i r hr
      have htm : t ∈ cat := List.mem_of_getElem? ht
      have hrm : r ∈ t := List.mem_of_getElem? hr
      have hge := hcat t htm r hrm
      refine ⟨set_len h r m.v, fun r0 hr0 => set_get_ne h m.v ?_⟩
      intro heq
      rw [heq] at hge
      exact Nat.lt_irrefl _ (Nat.lt_of_lt_of_le hr0 hge)

theorem applyMuts_low (cat : List Table) (n0 : Nat) (hcat : ∀ t, t ∈ cat → ∀ r, r ∈ t → n0 ≤ r) (ms : List Mut) (h : Heap) :
    (applyMuts cat h ms).cells.length = h.cells.length ∧ ∀ r0, r0 < n0 → (applyMuts cat h ms).get r0 = h.get r0 := by
  induction ms generalizing h with
  | nil => exact ⟨rfl, fun _ _ => rfl⟩
  | cons m ms ih =>
    have h1 := applyMut_low cat n0 hcat h m
    have h2 := ih (applyMut cat h m)
    simp only [applyMuts, List.foldl_cons] at h2 ⊢
    exact ⟨h2.1.trans h1.1, fun r0 hr0 => (h2.2 r0 hr0).trans (h1.2 r0 hr0)⟩

theorem view_of_low {h h' : Heap} {c : List Table} (n0 : Nat) (hc : ∀ t, t ∈ c → ∀ r, r ∈ t → r < n0)
    (hlow : ∀ r0, r0 < n0 → h'.get r0 = h.get r0) : view h' c = view h c := by
  unfold view viewT
  exact List.map_congr_left (fun t ht => List.map_congr_left (fun r hr => hlow r (hc t ht r hr)))

/-- **isolation of a clone that shares nothing**: whatever the transaction does to its catalog, the source shows what it showed -/
theorem fresh_clone_isolated (bs : List Bool) (hall : ∀ b, b ∈ bs → b = true) (h : Heap) (c : List Table)
    (hwf : WF h c) (hshape : ∀ t, t ∈ c → t.length ≤ bs.length) (ms : List Mut) :
    view (applyMuts (cloneCatalog bs h c).2 (cloneCatalog bs h c).1 ms) c = view h c ∧
    WF (applyMuts (cloneCatalog bs h c).2 (cloneCatalog bs h c).1 ms) c := by
  have hfresh := cloneCatalog_fresh bs hall h c hshape
  have hlow := applyMuts_low (cloneCatalog bs h c).2 h.cells.length hfresh ms (cloneCatalog bs h c).1
  have he := cloneCatalog_ext bs h c
  constructor
  · rw [view_of_low h.cells.length hwf hlow.2]
    exact view_ext he hwf
  · intro t ht r hr
    rw [hlow.1]
    exact Nat.lt_of_lt_of_le (hwf t ht r hr) (ext_len he)

end ImmuModel.Sql.CatClone.MainAux
