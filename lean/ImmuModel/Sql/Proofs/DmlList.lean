/-
Generic lemmas about `List.mapM` / `foldlM` / `filterM` / `filterMapM` in the `Except` monad
(helpers of the C12 proofs).
-/
import ImmuModel.Sql.DmlSpec
namespace ImmuModel.Sql.DmlListAux

variable {ε α β : Type}

theorem bind_ok {x : Except ε α} {f : α → Except ε β} {b : β}
    (h : (x >>= f) = .ok b) : ∃ a, x = .ok a ∧ f a = .ok b := by
  cases x with
  | error e => simp [bind, Except.bind] at h
  | ok a => exact ⟨a, rfl, h⟩

theorem bind_ok_iff {x : Except ε α} {f : α → Except ε β} {b : β} :
    (x >>= f) = .ok b ↔ ∃ a, x = .ok a ∧ f a = .ok b := by
  constructor
  · exact bind_ok
  · rintro ⟨a, rfl, h⟩; exact h

theorem mapM_nil (f : α → Except ε β) : List.mapM f [] = .ok [] := by
  simp [pure, Except.pure]

theorem mapM_cons_ok {f : α → Except ε β} {a : α} {l : List α} {ys : List β} :
    List.mapM f (a :: l) = .ok ys ↔
      ∃ y ys', f a = .ok y ∧ List.mapM f l = .ok ys' ∧ ys = y :: ys' := by
  rw [List.mapM_cons]
  constructor
  · intro h
    obtain ⟨y, hy, h⟩ := bind_ok h
    obtain ⟨ys', hys, h⟩ := bind_ok h
    simp only [pure, Except.pure, Except.ok.injEq] at h
    exact ⟨y, ys', hy, hys, h.symm⟩
  · rintro ⟨y, ys', hy, hys, rfl⟩
    simp [hy, hys, bind, Except.bind, pure, Except.pure]

theorem mapM_append_ok {f : α → Except ε β} {l₁ l₂ : List α} {ys : List β} :
    List.mapM f (l₁ ++ l₂) = .ok ys ↔
      ∃ y₁ y₂, List.mapM f l₁ = .ok y₁ ∧ List.mapM f l₂ = .ok y₂ ∧ ys = y₁ ++ y₂ := by
  rw [List.mapM_append]
  constructor
  · intro h
    obtain ⟨y, hy, h⟩ := bind_ok h
    obtain ⟨ys', hys, h⟩ := bind_ok h
    simp only [pure, Except.pure, Except.ok.injEq] at h
    exact ⟨y, ys', hy, hys, h.symm⟩
  · rintro ⟨y, ys', hy, hys, rfl⟩
    simp [hy, hys, bind, Except.bind, pure, Except.pure]

theorem mapM_singleton_ok {f : α → Except ε β} {a : α} {y : β} (h : f a = .ok y) :
    List.mapM f [a] = .ok [y] := by
  rw [mapM_cons_ok]; exact ⟨y, [], h, mapM_nil f, rfl⟩

/-- every element maps successfully ⇒ `mapM` succeeds -/
theorem mapM_ok_of_forall {f : α → Except ε β} : ∀ {l : List α},
    (∀ a ∈ l, ∃ y, f a = .ok y) → ∃ ys, List.mapM f l = .ok ys
  | [], _ => ⟨[], mapM_nil f⟩
  | a :: l, h => by
    obtain ⟨y, hy⟩ := h a (List.mem_cons_self)
    obtain ⟨ys, hys⟩ := mapM_ok_of_forall (l := l) (fun b hb => h b (List.mem_cons_of_mem _ hb))
    exact ⟨y :: ys, mapM_cons_ok.2 ⟨y, ys, hy, hys, rfl⟩⟩

theorem mapM_ok_forall {f : α → Except ε β} : ∀ {l : List α} {ys : List β},
    List.mapM f l = .ok ys → ∀ a ∈ l, ∃ y, y ∈ ys ∧ f a = .ok y
  | [], _, _ => by intro a ha; cases ha
  | a :: l, ys, h => by
    obtain ⟨y, ys', hy, hys, rfl⟩ := mapM_cons_ok.1 h
    intro b hb
    rcases List.mem_cons.1 hb with rfl | hb
    · exact ⟨y, List.mem_cons_self, hy⟩
    · obtain ⟨z, hz, hfz⟩ := mapM_ok_forall hys b hb
      exact ⟨z, List.mem_cons_of_mem _ hz, hfz⟩

/-- every element of the result comes from an element of the input -/
theorem mapM_ok_mem {f : α → Except ε β} : ∀ {l : List α} {ys : List β},
    List.mapM f l = .ok ys → ∀ y ∈ ys, ∃ a, a ∈ l ∧ f a = .ok y
  | [], ys, h => by
    rw [mapM_nil] at h; cases h; intro y hy; cases hy
  | a :: l, ys, h => by
    obtain ⟨y, ys', hy, hys, rfl⟩ := mapM_cons_ok.1 h
    intro z hz
    rcases List.mem_cons.1 hz with rfl | hz
    · exact ⟨a, List.mem_cons_self, hy⟩
    · obtain ⟨b, hb, hfb⟩ := mapM_ok_mem hys z hz
      exact ⟨b, List.mem_cons_of_mem _ hb, hfb⟩

theorem mapM_ok_length {f : α → Except ε β} : ∀ {l : List α} {ys : List β},
    List.mapM f l = .ok ys → ys.length = l.length
  | [], ys, h => by rw [mapM_nil] at h; cases h; rfl
  | a :: l, ys, h => by
    obtain ⟨y, ys', _, hys, rfl⟩ := mapM_cons_ok.1 h
    simp [mapM_ok_length hys]

/-- `mapM` over a sublist yields a sublist of the results -/
theorem mapM_sublist {f : α → Except ε β} : ∀ {l l' : List α} {ys ys' : List β},
    l'.Sublist l → List.mapM f l = .ok ys → List.mapM f l' = .ok ys' → ys'.Sublist ys := by
  intro l l' ys ys' hsub
  induction hsub generalizing ys ys' with
  | slnil => intro h h'; rw [mapM_nil] at h h'; cases h; cases h'; exact List.Sublist.slnil
  | cons a _ ih =>
    intro h h'
    obtain ⟨y, ys1, _, hys, rfl⟩ := mapM_cons_ok.1 h
    exact List.Sublist.cons _ (ih hys h')
  | cons_cons a _ ih =>
    intro h h'
    obtain ⟨y, ys1, hy, hys, rfl⟩ := mapM_cons_ok.1 h
    obtain ⟨y', ys2, hy', hys', rfl⟩ := mapM_cons_ok.1 h'
    rw [hy] at hy'; cases hy'
    exact List.Sublist.cons_cons _ (ih hys hys')

/-- two functions that agree on the list give the same `mapM` -/
theorem mapM_congr {f g : α → Except ε β} : ∀ {l : List α},
    (∀ a ∈ l, f a = g a) → List.mapM f l = List.mapM g l
  | [], _ => by rw [mapM_nil, mapM_nil]
  | a :: l, h => by
    rw [List.mapM_cons, List.mapM_cons, h a List.mem_cons_self,
      mapM_congr (l := l) (fun b hb => h b (List.mem_cons_of_mem _ hb))]

/-- `foldlM` invariant -/
theorem foldlM_inv {f : β → α → Except ε β} (P : β → Prop)
    (hstep : ∀ b a b', P b → f b a = .ok b' → P b') : ∀ {l : List α} {b b' : β},
    P b → List.foldlM f b l = .ok b' → P b'
  | [], b, b', hb, h => by
    simp only [List.foldlM_nil, pure, Except.pure, Except.ok.injEq] at h; exact h ▸ hb
  | a :: l, b, b', hb, h => by
    rw [List.foldlM_cons] at h
    obtain ⟨b1, h1, h2⟩ := bind_ok h
    exact foldlM_inv P hstep (hstep b a b1 hb h1) h2

/-- `foldlM` invariant, with membership -/
theorem foldlM_inv_mem {f : β → α → Except ε β} (P : β → Prop) : ∀ {l : List α} {b b' : β},
    (∀ b a b', a ∈ l → P b → f b a = .ok b' → P b') →
    P b → List.foldlM f b l = .ok b' → P b'
  | [], b, b', _, hb, h => by
    simp only [List.foldlM_nil, pure, Except.pure, Except.ok.injEq] at h; exact h ▸ hb
  | a :: l, b, b', hstep, hb, h => by
    rw [List.foldlM_cons] at h
    obtain ⟨b1, h1, h2⟩ := bind_ok h
    exact foldlM_inv_mem P (fun b a' b' ha => hstep b a' b' (List.mem_cons_of_mem _ ha))
      (hstep b a b1 List.mem_cons_self hb h1) h2

/-- the Boolean a successful test returns (false on error) -/
def okTrue (p : α → Except ε Bool) (a : α) : Bool :=
  match p a with
  | .ok b => b
  | .error _ => false

theorem filterAuxM_ok {p : α → Except ε Bool} : ∀ {l acc l' : List α},
    List.filterAuxM p l acc = .ok l' → l' = (l.filter (okTrue p)).reverse ++ acc
  | [], acc, l', h => by
    simp only [List.filterAuxM, pure, Except.pure, Except.ok.injEq] at h; simp [h]
  | a :: l, acc, l', h => by
    simp only [List.filterAuxM] at h
    obtain ⟨b, hb, h⟩ := bind_ok h
    have := filterAuxM_ok h
    cases b <;> simp [okTrue, hb, this]

theorem filterM_ok {p : α → Except ε Bool} {l l' : List α}
    (h : List.filterM p l = .ok l') : l' = l.filter (okTrue p) := by
  unfold List.filterM at h
  obtain ⟨r, hr, h⟩ := bind_ok h
  simp only [pure, Except.pure, Except.ok.injEq] at h
  have := filterAuxM_ok hr
  subst this; subst h; simp

theorem filterM_sublist {p : α → Except ε Bool} {l l' : List α}
    (h : List.filterM p l = .ok l') : l'.Sublist l := by
  rw [filterM_ok h]; exact List.filter_sublist

theorem filterAuxM_total {p : α → Except ε Bool} : ∀ {l acc : List α},
    (∀ a ∈ l, ∃ b, p a = .ok b) → ∃ l', List.filterAuxM p l acc = .ok l'
  | [], acc, _ => ⟨acc, rfl⟩
  | a :: l, acc, h => by
    obtain ⟨b, hb⟩ := h a List.mem_cons_self
    simp only [List.filterAuxM, hb, bind, Except.bind]
    exact filterAuxM_total (fun c hc => h c (List.mem_cons_of_mem _ hc))

theorem filterM_total {p : α → Except ε Bool} {l : List α}
    (h : ∀ a ∈ l, ∃ b, p a = .ok b) : List.filterM p l = .ok (l.filter (okTrue p)) := by
  obtain ⟨r, hr⟩ := filterAuxM_total (acc := []) h
  have h2 : List.filterM p l = .ok r.reverse := by
    unfold List.filterM; simp [hr, bind, Except.bind, pure, Except.pure]
  rw [h2, ← filterM_ok h2]

end ImmuModel.Sql.DmlListAux
