/-
C11 helper lemmas, part 5: the index view (insertion sort by key), WHERE/OFFSET/LIMIT over a row stream.
-/
import ImmuModel.Sql.Proofs.QueryWindow
namespace ImmuModel.Sql.QueryScanAux
open ImmuModel ImmuModel.Sql ImmuModel.Sql.QueryOrderAux ImmuModel.Sql.QueryRangeAux
open ImmuModel.Sql.QueryWindowAux

-- ---------------------------------------------------------------- keeps

theorem keeps_true_iff {p : Pred} {r : Row} : keeps p r = .ok true ↔ p.eval r = .ok (some true) := by
  unfold keeps
  cases h : p.eval r with
  | error e => simp
  | ok o =>
    cases o with
    | none => simp
    | some b => cases b <;> simp

theorem keeps_of_eval {p : Pred} {r : Row} {b : Bool} (h : p.eval r = .ok (some b)) :
    keeps p r = .ok b := by
  unfold keeps
  rw [h]
  cases b <;> rfl

-- ---------------------------------------------------------------- insertion sort by key

theorem insertByKey_perm (kr : Bytes × Row) : ∀ l : List (Bytes × Row), (insertByKey kr l).Perm (kr :: l)
  | [] => List.Perm.refl _
  | x :: xs => by
    simp only [insertByKey]
    split
    · exact List.Perm.refl _
    · exact ((insertByKey_perm kr xs).cons x).trans (List.Perm.swap kr x xs)

theorem sortByKey_perm : ∀ l : List (Bytes × Row), (sortByKey l).Perm l
  | [] => List.Perm.refl _
  | x :: xs => by
    show (insertByKey x (sortByKey xs)).Perm (x :: xs)
    exact (insertByKey_perm x _).trans ((sortByKey_perm xs).cons x)

/-- non-decreasing keys -/
def KeyLe (x y : Bytes × Row) : Prop := lexLt y.1 x.1 = false

theorem insertByKey_sorted (kr : Bytes × Row) : ∀ l : List (Bytes × Row), l.Pairwise KeyLe →
    (insertByKey kr l).Pairwise KeyLe
  | [], _ => by simp [insertByKey]
  | x :: xs, h => by
    obtain ⟨h1, h2⟩ := List.pairwise_cons.mp h
    simp only [insertByKey]
    split
    · rename_i hlt
      refine List.pairwise_cons.mpr ⟨?_, h⟩
      intro y hy
      rcases List.mem_cons.mp hy with hy | hy
      · subst hy; exact lexLt_asymm hlt
      · exact lt_nlt_trans hlt (h1 y hy)
    · rename_i hlt
      refine List.pairwise_cons.mpr ⟨?_, insertByKey_sorted kr xs h2⟩
      intro y hy
      rcases List.mem_cons.mp ((insertByKey_perm kr xs).subset hy) with hy | hy
      · subst hy
        cases h' : lexLt y.1 x.1 with
        | false => exact h'
        | true => exact absurd h' hlt
      · exact h1 y hy

theorem sortByKey_sorted : ∀ l : List (Bytes × Row), (sortByKey l).Pairwise KeyLe
  | [] => List.Pairwise.nil
  | x :: xs => by
    show (insertByKey x (sortByKey xs)).Pairwise KeyLe
    exact insertByKey_sorted x _ (sortByKey_sorted xs)

-- ---------------------------------------------------------------- the index view

/-- the keyed rows before sorting -/
def keyed (t : Table) (idx : List Nat) : Except EvalErr (List (Bytes × Row)) :=
  t.rows.mapM (fun r => do let k ← indexKey t idx r; pure (k, r))

theorem indexView_eq (t : Table) (idx : List Nat) :
    indexView t idx = match keyed t idx with
      | .error e => .error e
      | .ok ks => .ok (sortByKey ks) := by
  unfold indexView keyed
  cases t.rows.mapM (fun r => do let k ← indexKey t idx r; pure (k, r)) <;> rfl

theorem keyed_spec (t : Table) (idx : List Nat) : ∀ (rows : List Row) (ks : List (Bytes × Row)),
    rows.mapM (fun r => do let k ← indexKey t idx r; pure (k, r)) = .ok ks →
    ks.map (·.2) = rows ∧ ∀ kr ∈ ks, indexKey t idx kr.2 = .ok kr.1
  | [], ks, h => by
    rw [mapM_nil_ok.mp h]
    exact ⟨rfl, fun kr h => by cases h⟩
  | r :: rows, ks, h => by
    obtain ⟨y, ks', h1, h2, h3⟩ := mapM_cons_ok.mp h
    obtain ⟨i1, i2⟩ := keyed_spec t idx rows ks' h2
    subst h3
    cases hk : indexKey t idx r with
    | error e => simp [hk, bind, Except.bind] at h1
    | ok k =>
      simp only [hk, bind, Except.bind, pure, Except.pure, Except.ok.injEq] at h1
      subst h1
      refine ⟨by simp [i1], ?_⟩
      intro kr hkr
      rcases List.mem_cons.mp hkr with hkr | hkr
      · subst hkr; exact hk
      · exact i2 kr hkr

theorem indexView_spec {t : Table} {idx : List Nat} {view : List (Bytes × Row)}
    (h : indexView t idx = .ok view) :
    (view.map (·.2)).Perm t.rows ∧ view.Pairwise KeyLe ∧
      ∀ kr ∈ view, kr.2 ∈ t.rows ∧ indexKey t idx kr.2 = .ok kr.1 := by
  rw [indexView_eq] at h
  cases hk : keyed t idx with
  | error e => simp [hk] at h
  | ok ks =>
    simp only [hk, Except.ok.injEq] at h
    subst h
    obtain ⟨i1, i2⟩ := keyed_spec t idx t.rows ks hk
    have hp := sortByKey_perm ks
    refine ⟨?_, sortByKey_sorted ks, ?_⟩
    · have := hp.map (·.2)
      rwa [i1] at this
    · intro kr hkr
      have hm : kr ∈ ks := hp.subset hkr
      refine ⟨?_, i2 kr hm⟩
      rw [← i1]
      exact List.mem_map_of_mem hm

theorem indexKey_ok {t : Table} {idx : List Nat} {row : Row} {k : Bytes}
    (h : indexKey t idx row = .ok k) :
    ∃ ic iv pc pv a b, pickCols t.cols idx = .ok ic ∧ pick row idx = .ok iv ∧
      pickCols t.cols t.pk = .ok pc ∧ pick row t.pk = .ok pv ∧
      encTuple ic iv = .ok a ∧ encTuple pc pv = .ok b ∧ k = a ++ b := by
  unfold indexKey at h
  cases h1 : pickCols t.cols idx with
  | error e => simp [h1, bind, Except.bind] at h
  | ok ic =>
    cases h2 : pick row idx with
    | error e => simp [h1, h2, bind, Except.bind] at h
    | ok iv =>
      cases h3 : pickCols t.cols t.pk with
      | error e => simp [h1, h2, h3, bind, Except.bind] at h
      | ok pc =>
        cases h4 : pick row t.pk with
        | error e => simp [h1, h2, h3, h4, bind, Except.bind] at h
        | ok pv =>
          cases h5 : encTuple ic iv with
          | error e => simp [h1, h2, h3, h4, h5, bind, Except.bind] at h
          | ok a =>
            cases h6 : encTuple pc pv with
            | error e => simp [h1, h2, h3, h4, h5, h6, bind, Except.bind] at h
            | ok b =>
              simp only [h1, h2, h3, h4, h5, h6, bind, Except.bind, pure, Except.pure,
                Except.ok.injEq] at h
              exact ⟨ic, iv, pc, pv, a, b, rfl, rfl, rfl, rfl, h5, h6, h.symm⟩

-- ---------------------------------------------------------------- takeWhere

theorem takeWhere_done (p : Pred) (l : List Row) (skip limit taken : Nat)
    (h : limit ≠ 0 ∧ taken ≥ limit) : takeWhere p l skip limit taken = .ok [] := by
  cases l with
  | nil => rfl
  | cons r rs => rw [takeWhere, if_pos h]

/-- rows the predicate rejects may be removed from the stream -/
theorem takeWhere_filter (p : Pred) (f : Bytes × Row → Bool) :
    ∀ (L : List (Bytes × Row)), (∀ kr ∈ L, f kr = false → keeps p kr.2 = .ok false) →
    ∀ (skip limit taken : Nat),
      takeWhere p ((L.filter f).map (·.2)) skip limit taken = takeWhere p (L.map (·.2)) skip limit taken
  | [], _, _, _, _ => rfl
  | kr :: L, hL, skip, limit, taken => by
    have ih := takeWhere_filter p f L (fun x hx => hL x (List.mem_cons_of_mem _ hx))
    cases hf : f kr with
    | true =>
      simp only [List.filter_cons, hf, if_true, List.map_cons, takeWhere, ih]
    | false =>
      have hk := hL kr List.mem_cons_self hf
      simp only [List.filter_cons, hf, Bool.false_eq_true, if_false, List.map_cons, takeWhere, hk]
      by_cases hc : limit ≠ 0 ∧ taken ≥ limit
      · rw [if_pos hc, takeWhere_done p _ _ _ _ hc]
      · rw [if_neg hc, ih]

theorem takeWhere_sublist (p : Pred) : ∀ (l : List Row) (skip limit taken : Nat) (out : List Row),
    takeWhere p l skip limit taken = .ok out → out.Sublist l
  | [], _, _, _, out, h => by
    simp only [takeWhere, Except.ok.injEq] at h
    subst h; exact List.Sublist.refl _
  | r :: rs, skip, limit, taken, out, h => by
    simp only [takeWhere] at h
    by_cases hc : limit ≠ 0 ∧ taken ≥ limit
    · rw [if_pos hc] at h
      cases h
      exact List.nil_sublist _
    · rw [if_neg hc] at h
      cases hk : keeps p r with
      | error e => simp [hk] at h
      | ok b =>
        cases b with
        | false =>
          simp only [hk] at h
          exact (takeWhere_sublist p rs _ _ _ out h).cons _
        | true =>
          simp only [hk] at h
          by_cases hs : skip > 0
          · rw [if_pos hs] at h
            exact (takeWhere_sublist p rs _ _ _ out h).cons _
          · rw [if_neg hs] at h
            cases ht : takeWhere p rs 0 limit (taken + 1) with
            | error e => simp [ht] at h
            | ok o =>
              simp only [ht, Except.ok.injEq] at h
              subst h
              exact (takeWhere_sublist p rs _ _ _ o ht).cons_cons _

/-- without LIMIT/OFFSET a successful run is the filter -/
theorem takeWhere_all (p : Pred) : ∀ (l : List Row) (taken : Nat) (out : List Row),
    takeWhere p l 0 0 taken = .ok out → out = rowsWhere p l
  | [], _, out, h => by
    simp only [takeWhere, Except.ok.injEq] at h
    subst h; rfl
  | r :: rs, taken, out, h => by
    simp only [takeWhere, ne_eq, not_true_eq_false, false_and, if_false, Nat.lt_irrefl,
      gt_iff_lt] at h
    cases hk : keeps p r with
    | error e => simp [hk] at h
    | ok b =>
      cases b with
      | false =>
        simp only [hk] at h
        rw [takeWhere_all p rs _ out h]
        simp [rowsWhere, hk]
      | true =>
        simp only [hk] at h
        cases ht : takeWhere p rs 0 0 (taken + 1) with
        | error e => simp [ht] at h
        | ok o =>
          simp only [ht, Except.ok.injEq] at h
          subst h
          rw [takeWhere_all p rs _ o ht]
          simp [rowsWhere, hk]

/-- LIMIT/OFFSET is a slice of the unlimited output -/
theorem takeWhere_slice (p : Pred) : ∀ (l : List Row) (t0 : Nat) (all : List Row),
    takeWhere p l 0 0 t0 = .ok all →
    ∀ (skip limit taken : Nat),
      takeWhere p l skip limit taken =
        .ok (if limit = 0 then all.drop skip else (all.drop skip).take (limit - taken))
  | [], _, all, h, skip, limit, taken => by
    simp only [takeWhere, Except.ok.injEq] at h
    subst h
    simp [takeWhere]
  | r :: rs, t0, all, h, skip, limit, taken => by
    simp only [takeWhere, ne_eq, not_true_eq_false, false_and, if_false, Nat.lt_irrefl,
      gt_iff_lt] at h
    by_cases hc : limit ≠ 0 ∧ taken ≥ limit
    · rw [takeWhere_done p _ _ _ _ hc]
      have : limit - taken = 0 := by omega
      simp [hc.1, this]
    · simp only [takeWhere]
      rw [if_neg hc]
      cases hk : keeps p r with
      | error e => simp [hk] at h
      | ok b =>
        cases b with
        | false =>
          simp only [hk] at h ⊢
          exact takeWhere_slice p rs _ all h skip limit taken
        | true =>
          simp only [hk] at h ⊢
          cases ht : takeWhere p rs 0 0 (t0 + 1) with
          | error e => simp [ht] at h
          | ok o =>
            simp only [ht, Except.ok.injEq] at h
            subst h
            by_cases hs : skip > 0
            · rw [if_pos hs, takeWhere_slice p rs _ o ht (skip - 1) limit taken]
              obtain ⟨s', rfl⟩ : ∃ s', skip = s' + 1 := ⟨skip - 1, by omega⟩
              simp
            · rw [if_neg hs, takeWhere_slice p rs _ o ht 0 limit (taken + 1)]
              have hs0 : skip = 0 := by omega
              subst hs0
              by_cases hl : limit = 0
              · simp [hl]
              · have : limit - taken = (limit - (taken + 1)) + 1 := by omega
                simp only [hl, if_false, List.drop_zero]
                rw [this, List.take_succ_cons]

-- ---------------------------------------------------------------- runFull / runIndex unfolded

theorem runFull_eq (t : Table) (q : Query) :
    runFull t q = match indexView t q.idx with
      | .error e => .error e
      | .ok view =>
        takeWhere q.where_ ((if q.desc then view.reverse else view).map (·.2)) q.offset q.limit 0 := by
  unfold runFull
  cases indexView t q.idx <;> rfl

theorem runIndex_eq (t : Table) (q : Query) :
    runIndex t q = match q.where_.ranges [] with
      | .error e => .error e
      | .ok m =>
        match keyBounds t.cols m q.idx [] [] false false with
        | .error e => .error e
        | .ok (lo, hi) =>
          match indexView t q.idx with
          | .error e => .error e
          | .ok view =>
            takeWhere q.where_
              ((if q.desc then (view.filter (fun kr => inWindow lo hi kr.1)).reverse
                else view.filter (fun kr => inWindow lo hi kr.1)).map (·.2)) q.offset q.limit 0 := by
  unfold runIndex
  cases q.where_.ranges [] with
  | error e => rfl
  | ok m =>
    simp only [bind, Except.bind]
    cases keyBounds t.cols m q.idx [] [] false false with
    | error e => rfl
    | ok lh =>
      obtain ⟨lo, hi⟩ := lh
      simp only []
      cases indexView t q.idx <;> rfl

end ImmuModel.Sql.QueryScanAux
