/-
C15 helper lemmas: round trip of the row-value codec.
-/
import ImmuModel.Sql.ValueCodec
import ImmuModel.Sql.Proofs.KeyMain
namespace ImmuModel.Sql
open ImmuModel ImmuModel.GoInt

theorem tdivmod_cases (t : Int) :
    (0 ≤ t ∧ Int.tdiv t 1000000 = t / 1000000 ∧ Int.tmod t 1000000 = t % 1000000) ∨
    (t < 0 ∧ Int.tdiv t 1000000 = -((-t) / 1000000) ∧ Int.tmod t 1000000 = -((-t) % 1000000)) := by
  by_cases h : 0 ≤ t
  · exact Or.inl ⟨h, Int.tdiv_eq_ediv_of_nonneg h, Int.tmod_eq_emod_of_nonneg h⟩
  · refine Or.inr ⟨by omega, ?_, ?_⟩
    · have : t = -(-t) := by omega
      rw [this, Int.neg_tdiv, Int.tdiv_eq_ediv_of_nonneg (by omega)]
      simp
    · have : t = -(-t) := by omega
      rw [this, Int.neg_tmod, Int.tmod_eq_emod_of_nonneg (by omega)]
      simp

/-- `TimeFromInt64 ∘ TimeToInt64` truncates the instant to microseconds. -/
theorem timeFrom_timeTo {sec : Int} {nsec : Nat} (hn : nsec < 1000000000)
    (hr : InI64 (sec * 1000000 + ((nsec / 1000 : Nat) : Int))) :
    timeFromInt64 (timeToInt64 sec nsec) = (sec, nsec / 1000 * 1000) := by
  unfold timeFromInt64 timeToInt64
  rw [wrap64_of_in hr, timeUnix_eq]
  rcases tdivmod_cases (sec * 1000000 + ((nsec / 1000 : Nat) : Int)) with ⟨h0, e1, e2⟩ | ⟨h0, e1, e2⟩
  · rw [e1, e2]
    apply Prod.ext <;> simp only <;> omega
  · rw [e1, e2]
    apply Prod.ext <;> simp only <;> omega

theorem be32_small {n : Nat} (h : n < 4294967296) : beVal (beN 4 n) = n := by
  rw [beVal_beN]
  exact Nat.mod_eq_of_lt (by simpa using h)

theorem take4_append (x y : Bytes) (h : x.length = 4) : (x ++ y).take 4 = x := by
  rw [List.take_append_of_le_length (by omega), List.take_of_length_le (by omega)]

theorem drop4_append (x y : Bytes) (h : x.length = 4) : (x ++ y).drop 4 = y := by
  rw [← h]; exact List.drop_left

theorem takeN_append (x y : Bytes) : (x ++ y).take x.length = x := List.take_left

theorem decode_encode_value {ty : SqlType} {maxLen : Int} {v : Val} {nullable : Bool}
    (hv : validValue ty maxLen v = true) (hnull : v = .null → nullable = true)
    (hamb : nullable = true → nullAmbiguous v = false) (rest : Bytes) :
    ∃ e, encodeValue v ty maxLen nullable = .ok e ∧
      decodeValue (e ++ rest) ty nullable = .ok (truncMicros v, e.length) := by
  cases v with
  | null =>
    have hn := hnull rfl
    subst hn
    refine ⟨beN 4 0, ?_, ?_⟩
    · cases ty <;> simp [encodeValue, encLenLen_eq]
    · have c : ¬ (rest.length + 1 + 1 + 1 + 1 < 4) := by omega
      simp [decodeValue, encLenLen_eq, truncMicros, beN, beVal, c]
  | str s =>
    cases ty <;> try (simp [validValue] at hv; done)
    simp only [validValue, Bool.and_eq_true, decide_eq_true_eq] at hv
    have c : ¬ (maxLen > 0 ∧ (s.length : Int) > maxLen) := by omega
    refine ⟨beN 4 s.length ++ s, by simp [encodeValue, encLenLen_eq, c], ?_⟩
    have hz : ¬ (s.length = 0 ∧ nullable = true) := by
      intro ⟨h1, h2⟩
      have := hamb h2
      simp [nullAmbiguous] at this
      exact this (List.eq_nil_of_length_eq_zero h1)
    simp only [decodeValue, encLenLen_eq, List.append_assoc, take4_append _ _ (beN_length 4 _),
      drop4_append _ _ (beN_length 4 _), be32_small hv.1, List.length_append, beN_length, hz,
      if_false, takeN_append, truncMicros]
    have c1 : ¬ (4 + (s.length + rest.length) < 4) := by omega
    have c2 : ¬ (4 + (s.length + rest.length) < 4 + s.length) := by omega
    simp [c1, c2]
  | blob s =>
    cases ty <;> try (simp [validValue] at hv; done)
    simp only [validValue, Bool.and_eq_true, decide_eq_true_eq] at hv
    have c : ¬ (maxLen > 0 ∧ (s.length : Int) > maxLen) := by omega
    refine ⟨beN 4 s.length ++ s, by simp [encodeValue, encLenLen_eq, c], ?_⟩
    have hz : ¬ (s.length = 0 ∧ nullable = true) := by
      intro ⟨h1, h2⟩
      have := hamb h2
      simp [nullAmbiguous] at this
      exact this (List.eq_nil_of_length_eq_zero h1)
    simp only [decodeValue, encLenLen_eq, List.append_assoc, take4_append _ _ (beN_length 4 _),
      drop4_append _ _ (beN_length 4 _), be32_small hv.1, List.length_append, beN_length, hz,
      if_false, takeN_append, truncMicros]
    have c1 : ¬ (4 + (s.length + rest.length) < 4) := by omega
    have c2 : ¬ (4 + (s.length + rest.length) < 4 + s.length) := by omega
    simp [c1, c2]
  | int i =>
    cases ty <;> try (simp [validValue] at hv; done)
    simp only [validValue, decide_eq_true_eq] at hv
    refine ⟨beN 4 8 ++ be64 (u64 i), by simp [encodeValue, encLenLen_eq], ?_⟩
    have e8 : (be64 (u64 i) ++ rest).take 8 = be64 (u64 i) := by
      rw [List.take_append_of_le_length (by simp), List.take_of_length_le (by simp)]
    simp only [decodeValue, encLenLen_eq, List.append_assoc, take4_append _ _ (beN_length 4 _),
      drop4_append _ _ (beN_length 4 _), be32_small (show 8 < 4294967296 by decide),
      List.length_append, beN_length, be64_length, e8, beVal_be64 _ (u64_lt i), i64_u64 hv, truncMicros]
    have c1 : ¬ (4 + (8 + rest.length) < 4) := by omega
    have c2 : ¬ (4 + (8 + rest.length) < 4 + 8) := by omega
    simp [c1, c2]
  | bool b =>
    cases ty <;> try (simp [validValue] at hv; done)
    refine ⟨beN 4 1 ++ [if b then 1 else 0], by simp [encodeValue, encLenLen_eq], ?_⟩
    simp only [decodeValue, encLenLen_eq, List.append_assoc, take4_append _ _ (beN_length 4 _),
      drop4_append _ _ (beN_length 4 _), be32_small (show 1 < 4294967296 by decide),
      List.length_append, beN_length, truncMicros]
    have c1 : ¬ (4 + (1 + rest.length) < 4) := by omega
    have c2 : ¬ (4 + (1 + rest.length) < 4 + 1) := by omega
    cases b <;> simp [c1, c2]
  | uuid u =>
    cases ty <;> try (simp [validValue] at hv; done)
    simp only [validValue, decide_eq_true_eq] at hv
    refine ⟨beN 4 16 ++ u, by simp [encodeValue, encLenLen_eq], ?_⟩
    have e16 : (u ++ rest).take 16 = u := by
      rw [List.take_append_of_le_length (by omega), List.take_of_length_le (by omega)]
    simp only [decodeValue, encLenLen_eq, List.append_assoc, take4_append _ _ (beN_length 4 _),
      drop4_append _ _ (beN_length 4 _), be32_small (show 16 < 4294967296 by decide),
      List.length_append, beN_length, hv, e16, truncMicros]
    have c1 : ¬ (4 + (16 + rest.length) < 4) := by omega
    have c2 : ¬ (4 + (16 + rest.length) < 4 + 16) := by omega
    simp [c1, c2]
  | ts sec nsec =>
    cases ty <;> try (simp [validValue] at hv; done)
    simp only [validValue, Bool.and_eq_true, decide_eq_true_eq] at hv
    obtain ⟨hn, hr⟩ := hv
    refine ⟨beN 4 8 ++ be64 (u64 (timeToInt64 sec nsec)), by simp [encodeValue, encLenLen_eq], ?_⟩
    have e8 : (be64 (u64 (timeToInt64 sec nsec)) ++ rest).take 8 = be64 (u64 (timeToInt64 sec nsec)) := by
      rw [List.take_append_of_le_length (by simp), List.take_of_length_le (by simp)]
    have hin : InI64 (timeToInt64 sec nsec) := by
      unfold timeToInt64; rw [wrap64_of_in hr]; exact hr
    simp only [decodeValue, encLenLen_eq, List.append_assoc, take4_append _ _ (beN_length 4 _),
      drop4_append _ _ (beN_length 4 _), be32_small (show 8 < 4294967296 by decide),
      List.length_append, beN_length, be64_length, e8, beVal_be64 _ (u64_lt _), i64_u64 hin,
      timeFrom_timeTo hn hr, truncMicros]
    have c1 : ¬ (4 + (8 + rest.length) < 4) := by omega
    have c2 : ¬ (4 + (8 + rest.length) < 4 + 8) := by omega
    simp [c1, c2]
  | float bits =>
    cases ty <;> try (simp [validValue] at hv; done)
    simp only [validValue, decide_eq_true_eq] at hv
    refine ⟨beN 4 8 ++ be64 bits, by simp [encodeValue, encLenLen_eq], ?_⟩
    have e8 : (be64 bits ++ rest).take 8 = be64 bits := by
      rw [List.take_append_of_le_length (by simp), List.take_of_length_le (by simp)]
    simp only [decodeValue, encLenLen_eq, List.append_assoc, take4_append _ _ (beN_length 4 _),
      drop4_append _ _ (beN_length 4 _), be32_small (show 8 < 4294967296 by decide),
      List.length_append, beN_length, be64_length, e8, beVal_be64 _ hv, truncMicros]
    have c1 : ¬ (4 + (8 + rest.length) < 4) := by omega
    have c2 : ¬ (4 + (8 + rest.length) < 4 + 8) := by omega
    simp [c1, c2]

end ImmuModel.Sql
