/-
C11 planner lemmas, final assembly: the statements about `planOf` / `runPlan` of Props/C11.lean in terms
of the parts (PlanRange: flagged walk = un-flagged walk; PlanOrder: comparator, sort step, index keys
column by column; Query*: ranges, window, index view, WHERE/OFFSET/LIMIT).
-/
import ImmuModel.Sql.Proofs.SelectPlanRange
import ImmuModel.Sql.Proofs.SelectPlanOrder
namespace ImmuModel.Sql.SelectPlanMainAux
open ImmuModel ImmuModel.Sql ImmuModel.Sql.QueryOrderAux ImmuModel.Sql.QueryRangeAux
open ImmuModel.Sql.QuerySelAux ImmuModel.Sql.QueryWindowAux ImmuModel.Sql.QueryScanAux
open ImmuModel.Sql.QueryMainAux ImmuModel.Sql.SelectPlanRangeAux ImmuModel.Sql.SelectPlanOrderAux

-- ---------------------------------------------------------------- T1

theorem rangesF_erase_match (p : Pred) (mF : RangeMapF) :
    (match p.rangesF mF with
      | .ok m => Except.ok (RangeMapF.erase m)
      | .error e => .error e) = p.ranges (RangeMapF.erase mF) := by
  rw [← rangesF_erase]
  cases p.rangesF mF <;> rfl

-- ---------------------------------------------------------------- takeWhere

theorem takeWhere_keeps (p : Pred) : ∀ (l : List Row) (skip limit taken : Nat) (out : List Row),
    takeWhere p l skip limit taken = .ok out → ∀ r ∈ out, keeps p r = .ok true
  | [], _, _, _, out, h => by
    simp only [takeWhere, Except.ok.injEq] at h
    subst h
    intro r hr; cases hr
  | r :: rs, skip, limit, taken, out, h => by
    simp only [takeWhere] at h
    by_cases hc : limit ≠ 0 ∧ taken ≥ limit
    · rw [if_pos hc] at h
      cases h
      intro r hr; cases hr
    · rw [if_neg hc] at h
      cases hk : keeps p r with
      | error e => simp [hk] at h
      | ok b =>
        cases b with
        | false =>
          simp only [hk] at h
          exact takeWhere_keeps p rs _ _ _ out h
        | true =>
          simp only [hk] at h
          by_cases hs : skip > 0
          · rw [if_pos hs] at h
            exact takeWhere_keeps p rs _ _ _ out h
          · rw [if_neg hs] at h
            cases ht : takeWhere p rs 0 limit (taken + 1) with
            | error e => simp [ht] at h
            | ok o =>
              simp only [ht, Except.ok.injEq] at h
              subst h
              intro x hx
              rcases List.mem_cons.mp hx with hx | hx
              · subst hx; exact hk
              · exact takeWhere_keeps p rs _ _ _ o ht x hx

theorem limitRows_sublist (n : Nat) (l : List Row) : (limitRows n l).Sublist l := by
  unfold limitRows
  split
  · exact List.Sublist.refl _
  · exact List.take_sublist _ _

-- ---------------------------------------------------------------- the planner's decision

/-- first ORDER BY direction (the `DescOrder` of a scan that needs no sort step) -/
def headDesc (o : List OrdCol) : Bool := match o with | f :: _ => f.desc | [] => false

/-- the final shape of `genScanSpecs`: whatever index `s1` was settled on, the sort step is dropped
iff that index covers the ORDER BY -/
theorem planOf_shape (pk : List Nat) (secs : List (List Nat)) (hint : Option (List Nat))
    (o : List OrdCol) (m : RangeMapF) : ∃ s1, planOf pk secs hint o m =
      if !o.isEmpty && coversOrd m s1 o then { idx := s1, desc := headDesc o, sort := false }
      else { idx := s1, desc := false, sort := !o.isEmpty } := ⟨_, rfl⟩

/-- when the sort step is dropped for a non-empty ORDER BY, the chosen index covers it and the scan
direction is the (common) direction of the ORDER BY columns -/
theorem planOf_nosort (pk : List Nat) (secs : List (List Nat)) (hint : Option (List Nat))
    (o : List OrdCol) (m : RangeMapF) (hs : (planOf pk secs hint o m).sort = false) (ho : o ≠ []) :
    coversOrd m (planOf pk secs hint o m).idx o = true ∧
      ∀ x ∈ o, x.desc = (planOf pk secs hint o m).desc := by
  obtain ⟨s1, e⟩ := planOf_shape pk secs hint o m
  rw [e] at hs ⊢
  by_cases hc : (!o.isEmpty && coversOrd m s1 o) = true
  · rw [if_pos hc]
    simp only [Bool.and_eq_true] at hc
    refine ⟨hc.2, ?_⟩
    have hsd : sameDir o = true := by
      have := hc.2
      simp only [coversOrd, Bool.and_eq_true] at this
      exact this.1
    cases o with
    | nil => exact absurd rfl ho
    | cons f os =>
      intro x hx
      rcases List.mem_cons.mp hx with hx | hx
      · subst hx; rfl
      · simp only [sameDir, List.all_eq_true, beq_iff_eq] at hsd
        exact hsd x hx
  · rw [if_neg hc] at hs
    cases o with
    | nil => exact absurd rfl ho
    | cons f os => simp at hs

/-- a unitary range pins the key of its column: two rows bounded by the map agree on it -/
theorem unitary_key_eq {cols : List Col} {m : RangeMapF} {a b : Row}
    (ha : rowOK cols a = true) (hb : rowOK cols b = true)
    (hv : MAll (RValid cols) (RangeMapF.erase m))
    (hba : MAll (RHolds a) (RangeMapF.erase m)) (hbb : MAll (RHolds b) (RangeMapF.erase m))
    (c : Nat) (hu : m.unitaryAt c = true) : colKey cols a c = colKey cols b c := by
  unfold RangeMapF.unitaryAt at hu
  cases hg : m.get c with
  | none => simp [hg] at hu
  | some r =>
    simp only [hg] at hu
    unfold RangeF.unitary at hu
    cases hl : r.lo with
    | none => simp [hl] at hu
    | some l =>
      cases hh : r.hi with
      | none => simp [hl, hh] at hu
      | some h =>
        simp only [hl, hh, Bool.and_eq_true] at hu
        have hge : RangeMap.get (RangeMapF.erase m) c = some r.erase := by
          rw [get_erase, hg]; rfl
        obtain ⟨col, hc, hrv⟩ := MAll_get hv hge
        have elo : r.erase.lo = some l.val := by simp [RangeF.erase, hl]
        have ehi : r.erase.hi = some h.val := by simp [RangeF.erase, hh]
        have okl := hrv.1 l.val elo
        have okh := hrv.2 h.val ehi
        have hlh : K col l.val = K col h.val := by
          have h0 := hu.1.1
          rw [cmp_key okl okh] at h0
          simp only [beq_iff_eq] at h0
          exact bytesCompare_eq_zero.mp h0
        have key : ∀ (x : Row), rowOK cols x = true → MAll (RHolds x) (RangeMapF.erase m) →
            colKey cols x c = K col l.val := by
          intro x hx hbx
          obtain ⟨v, hv', hh'⟩ := MAll_get hbx hge
          have ov := rowOK_get hx hc hv'
          have kh := (holds_iff hrv ov).mp hh'
          have k1 := kh.1 l.val elo
          have k2 := kh.2 h.val ehi
          rw [← hlh] at k2
          have : colKey cols x c = K col v := by simp [colKey, hc, hv']
          rw [this]
          exact lexLt_connex k1 k2
        rw [key a ha hba, key b hb hbb]

/-- `coversOrdCols`: on rows that agree on the unitary columns, index order implies ORDER BY order -/
theorem covers_le {cols : List Col} {m : RangeMapF} {idx : List Nat} {o : List OrdCol} {a b : Row}
    (hcov : coversOrd m idx o = true)
    (heq : ∀ c, m.unitaryAt c = true → colKey cols a c = colKey cols b c)
    (hle : colsCmp cols idx a b ≤ 0) : colsCmp cols (o.map (·.col)) a b ≤ 0 := by
  simp only [coversOrd, Bool.and_eq_true, Bool.or_eq_true] at hcov
  rcases hcov.2 with h | h
  · exact colsCmp_prefix cols a b idx o h hle
  · exact colsCmp_sortable cols m a b heq o idx h hle

-- ---------------------------------------------------------------- runPlan unfolded

/-- the stream the WHERE filter reads: window on the index view, reversed for `DescOrder` -/
def orderedOf (pl : Plan) (lo hi : Bytes) (view : List (Bytes × Row)) : List (Bytes × Row) :=
  if pl.desc then (view.filter (fun kr => inWindow lo hi kr.1)).reverse
  else view.filter (fun kr => inWindow lo hi kr.1)

theorem runPlan_ok {t : Table} {secs : List (List Nat)} {q : PQuery} {pl : Plan} {rows : List Row}
    (h : runPlan t secs q = .ok (pl, rows)) :
    ∃ mF lo hi view, q.where_.rangesF [] = .ok mF ∧ pl = planOf t.pk secs q.hint q.order mF ∧
      keyBounds t.cols (RangeMapF.erase mF) pl.idx [] [] false false = .ok (lo, hi) ∧
      indexView t pl.idx = .ok view ∧
      (pl.sort = true → ∃ kept s,
        takeWhere q.where_ ((orderedOf pl lo hi view).map (·.2)) 0 0 0 = .ok kept ∧
        sortRows q.order kept = .ok s ∧ rows = limitRows q.limit (s.drop q.offset)) ∧
      (pl.sort = false →
        takeWhere q.where_ ((orderedOf pl lo hi view).map (·.2)) q.offset q.limit 0 = .ok rows) := by
  unfold runPlan at h
  cases h1 : q.where_.rangesF [] with
  | error e => simp [h1] at h
  | ok mF =>
    simp only [h1] at h
    generalize hpl : planOf t.pk secs q.hint q.order mF = pl0 at h
    cases h2 : keyBounds t.cols (RangeMapF.erase mF) pl0.idx [] [] false false with
    | error e => simp [h2] at h
    | ok lh =>
      obtain ⟨lo, hi⟩ := lh
      simp only [h2] at h
      cases h3 : indexView t pl0.idx with
      | error e => simp [h3] at h
      | ok view =>
        simp only [h3] at h
        cases hs : pl0.sort with
        | true =>
          simp only [hs, if_true] at h
          cases k1 : takeWhere q.where_ ((orderedOf pl0 lo hi view).map (·.2)) 0 0 0 with
          | error e =>
            unfold orderedOf at k1
            simp [k1] at h
          | ok kept =>
            unfold orderedOf at k1
            simp only [k1] at h
            cases k2 : sortRows q.order kept with
            | error e => simp [k2] at h
            | ok s =>
              simp only [k2, Except.ok.injEq, Prod.mk.injEq] at h
              obtain ⟨e1, e2⟩ := h
              subst e1
              refine ⟨mF, lo, hi, view, rfl, hpl.symm, h2, h3, ?_, ?_⟩
              · intro _
                exact ⟨kept, s, by unfold orderedOf; exact k1, k2, e2.symm⟩
              · intro hf
                rw [hs] at hf
                cases hf
        | false =>
          simp only [hs, Bool.false_eq_true, if_false] at h
          cases k1 : takeWhere q.where_ ((orderedOf pl0 lo hi view).map (·.2)) q.offset q.limit 0 with
          | error e =>
            unfold orderedOf at k1
            simp [k1] at h
          | ok out =>
            unfold orderedOf at k1
            simp only [k1, Except.ok.injEq, Prod.mk.injEq] at h
            obtain ⟨e1, e2⟩ := h
            subst e1; subst e2
            refine ⟨mF, lo, hi, view, rfl, hpl.symm, h2, h3, ?_, ?_⟩
            · intro hf
              rw [hs] at hf
              cases hf
            · intro _
              unfold orderedOf
              exact k1

theorem orderedOf_mem {pl : Plan} {lo hi : Bytes} {view : List (Bytes × Row)} {x : Bytes × Row}
    (h : x ∈ orderedOf pl lo hi view) : x ∈ view := by
  unfold orderedOf at h
  split at h
  · exact (List.mem_filter.mp (List.mem_reverse.mp h)).1
  · exact (List.mem_filter.mp h).1

-- ---------------------------------------------------------------- T2

theorem order_by_sorted_plan (t : Table) (secs : List (List Nat)) (q : PQuery) (pl : Plan)
    (rows : List Row) (ht : t.wf = true)
    (hord : ∀ o ∈ q.order, o.col < t.cols.length)
    (hp : q.where_.wt t.cols = true) (hpl : q.where_.plain = true)
    (h : runPlan t secs q = .ok (pl, rows)) :
    rows.Pairwise (ordLe q.order) := by
  obtain ⟨mF, lo, hi, view, h1, hplan, h2, h3, hsort, hnosort⟩ := runPlan_ok h
  obtain ⟨_, hsorted, hmem⟩ := indexView_spec h3
  have hviewOK : ∀ x ∈ view, rowOK t.cols x.2 = true := fun x hx => wf_rowOK ht (hmem x hx).1
  have hstream : ∀ r ∈ (orderedOf pl lo hi view).map (·.2), rowOK t.cols r = true := by
    intro r hr
    obtain ⟨x, hx, rfl⟩ := List.mem_map.mp hr
    exact hviewOK x (orderedOf_mem hx)
  cases hs : pl.sort with
  | true =>
    obtain ⟨kept, s, k1, k2, k3⟩ := hsort hs
    subst k3
    have hkept : ∀ r ∈ kept, rowOK t.cols r = true :=
      fun r hr => hstream r ((takeWhere_sublist _ _ _ _ _ _ k1).subset hr)
    have hsrt := sortRows_sorted hord kept s hkept k2
    have hsok : ∀ r ∈ s, rowOK t.cols r = true :=
      fun r hr => hkept r ((sortRows_perm _ kept s k2).subset hr)
    exact (pairwise_ordLe hord hsok hsrt).sublist
      ((limitRows_sublist _ _).trans (List.drop_sublist _ _))
  | false =>
    have k := hnosort hs
    by_cases ho : q.order = []
    · rw [ho]
      exact List.pairwise_of_forall (fun a b => ⟨0, rfl, Int.le_refl 0⟩)
    · rw [hplan] at hs
      obtain ⟨hcov, hdir⟩ := planOf_nosort t.pk secs q.hint q.order mF hs ho
      rw [← hplan] at hcov hdir
      -- the ranges of the un-flagged walk
      have hr : q.where_.ranges [] = .ok (RangeMapF.erase mF) := rangesF_ok (m := []) h1
      obtain ⟨m', e1, hv, hb⟩ := ranges_spec t.cols q.where_ [] hp hpl (MAll_nil _)
      rw [hr] at e1
      cases e1
      have hrowsOK : ∀ r ∈ rows, rowOK t.cols r = true :=
        fun r hr => hstream r ((takeWhere_sublist _ _ _ _ _ _ k).subset hr)
      have hkeeps := takeWhere_keeps _ _ _ _ _ _ k
      -- the stream is sorted for kept rows
      have hstr : ((orderedOf pl lo hi view).map (·.2)).Pairwise (fun a b =>
          keeps q.where_ a = .ok true → keeps q.where_ b = .ok true → LeK t.cols q.order a b) := by
        rw [List.pairwise_map]
        have core : ∀ x ∈ view, ∀ y ∈ view, KeyLe x y →
            keeps q.where_ x.2 = .ok true → keeps q.where_ y.2 = .ok true →
            colsCmp t.cols (q.order.map (·.col)) x.2 y.2 ≤ 0 := by
          intro x hx y hy hxy kx ky
          have ox := hviewOK x hx
          have oy := hviewOK y hy
          have bx := hb x.2 ox (keeps_true_iff.mp kx) (MAll_nil _)
          have by' := hb y.2 oy (keeps_true_iff.mp ky) (MAll_nil _)
          exact covers_le hcov (unitary_key_eq ox oy hv bx by')
            (colsCmp_of_keyLe ox oy (hmem x hx).2 (hmem y hy).2 hxy)
        have hin : (view.filter (fun kr => inWindow lo hi kr.1)).Pairwise KeyLe :=
          hsorted.sublist List.filter_sublist
        unfold orderedOf
        cases hd : pl.desc with
        | false =>
          simp only [Bool.false_eq_true, if_false]
          refine List.Pairwise.imp_of_mem ?_ hin
          intro x y hx hy hxy kx ky
          show ordCmpK t.cols q.order x.2 y.2 ≤ 0
          rw [ordCmpK_asc t.cols x.2 y.2 q.order (fun z hz => by rw [hdir z hz, hd])]
          exact core x (List.mem_filter.mp hx).1 y (List.mem_filter.mp hy).1 hxy kx ky
        | true =>
          simp only [if_true]
          rw [List.pairwise_reverse]
          refine List.Pairwise.imp_of_mem ?_ hin
          intro x y hx hy hxy ky kx
          show ordCmpK t.cols q.order y.2 x.2 ≤ 0
          rw [ordCmpK_desc t.cols y.2 x.2 q.order (fun z hz => by rw [hdir z hz, hd])]
          exact core x (List.mem_filter.mp hx).1 y (List.mem_filter.mp hy).1 hxy kx ky
      have hout := hstr.sublist (takeWhere_sublist _ _ _ _ _ _ k)
      refine List.Pairwise.imp_of_mem ?_ hout
      intro a b ha hb' hab
      exact ordLe_of_LeK hord (hrowsOK a ha) (hrowsOK b hb') (hab (hkeeps a ha) (hkeeps b hb'))

-- ---------------------------------------------------------------- T3 / T4

theorem rowsWhere_cons_true {p : Pred} {r : Row} (h : keeps p r = .ok true) (l : List Row) :
    rowsWhere p (r :: l) = r :: rowsWhere p l := by
  simp [rowsWhere, h]

theorem rowsWhere_cons_false {p : Pred} {r : Row} (h : keeps p r ≠ .ok true) (l : List Row) :
    rowsWhere p (r :: l) = rowsWhere p l := by
  cases hk : keeps p r with
  | error e => simp [rowsWhere, hk]
  | ok b =>
    cases b with
    | false => simp [rowsWhere, hk]
    | true => exact absurd hk h

theorem rowsWhere_perm (p : Pred) {l1 l2 : List Row} (h : l1.Perm l2) :
    (rowsWhere p l1).Perm (rowsWhere p l2) := h.filter _

/-- dropping from the stream rows the predicate does not keep anyway -/
theorem rowsWhere_window (p : Pred) (w : Bytes × Row → Bool) : ∀ (V : List (Bytes × Row)),
    (∀ x ∈ V, keeps p x.2 = .ok true → w x = true) →
    rowsWhere p ((V.filter w).map (·.2)) = rowsWhere p (V.map (·.2))
  | [], _ => rfl
  | x :: V, h => by
    have ih := rowsWhere_window p w V (fun y hy => h y (List.mem_cons_of_mem _ hy))
    by_cases hk : keeps p x.2 = .ok true
    · have hw := h x List.mem_cons_self hk
      simp only [List.filter_cons, hw, if_true, List.map_cons]
      rw [rowsWhere_cons_true hk, rowsWhere_cons_true hk, ih]
    · cases hw : w x with
      | true =>
        simp only [List.filter_cons, hw, if_true, List.map_cons]
        rw [rowsWhere_cons_false hk, rowsWhere_cons_false hk, ih]
      | false =>
        simp only [List.filter_cons, hw, Bool.false_eq_true, if_false, List.map_cons]
        rw [rowsWhere_cons_false hk, ih]

theorem plan_rows_perm (t : Table) (secs : List (List Nat)) (q : PQuery) (pl : Plan) (rows : List Row)
    (ht : t.wf = true) (hp : q.where_.wt t.cols = true) (hpl : q.where_.plain = true)
    (hl : q.limit = 0) (ho : q.offset = 0)
    (h : runPlan t secs q = .ok (pl, rows)) :
    rows.Perm (rowsWhere q.where_ t.rows) := by
  obtain ⟨mF, lo, hi, view, h1, hplan, h2, h3, hsort, hnosort⟩ := runPlan_ok h
  obtain ⟨hperm, _, hmem⟩ := indexView_spec h3
  have hr : q.where_.ranges [] = .ok (RangeMapF.erase mF) := rangesF_ok (m := []) h1
  -- the rows kept from the stream
  have hk : ∃ kept, takeWhere q.where_ ((orderedOf pl lo hi view).map (·.2)) 0 0 0 = .ok kept ∧
      rows.Perm kept := by
    cases hs : pl.sort with
    | true =>
      obtain ⟨kept, s, k1, k2, k3⟩ := hsort hs
      refine ⟨kept, k1, ?_⟩
      rw [k3, hl, ho]
      simp only [limitRows, if_true, List.drop_zero]
      exact sortRows_perm _ kept s k2
    | false =>
      have k := hnosort hs
      rw [hl, ho] at k
      exact ⟨rows, k, List.Perm.refl _⟩
  obtain ⟨kept, k1, k2⟩ := hk
  refine k2.trans ?_
  rw [takeWhere_all _ _ _ kept k1]
  have hwin : ∀ x ∈ view, keeps q.where_ x.2 = .ok true →
      (fun kr : Bytes × Row => inWindow lo hi kr.1) x = true := by
    intro x hx hkeep
    obtain ⟨hm, hkx⟩ := hmem x hx
    exact window_sound t pl.idx q.where_ x.2 _ lo hi x.1 ht hm hp hpl hr h2 hkx
      (keeps_true_iff.mp hkeep)
  have hstream : ((orderedOf pl lo hi view).map (·.2)).Perm
      ((view.filter (fun kr => inWindow lo hi kr.1)).map (·.2)) := by
    unfold orderedOf
    split
    · exact (List.reverse_perm _).map _
    · exact List.Perm.refl _
  refine (rowsWhere_perm _ hstream).trans ?_
  rw [rowsWhere_window _ _ view hwin]
  exact rowsWhere_perm _ hperm

theorem plan_hint_independent (t : Table) (secs : List (List Nat)) (q1 q2 : PQuery) (pl1 pl2 : Plan)
    (r1 r2 : List Row)
    (ht : t.wf = true) (hp : q1.where_.wt t.cols = true) (hpl : q1.where_.plain = true)
    (hw : q2.where_ = q1.where_)
    (hl1 : q1.limit = 0) (ho1 : q1.offset = 0) (hl2 : q2.limit = 0) (ho2 : q2.offset = 0)
    (h1 : runPlan t secs q1 = .ok (pl1, r1)) (h2 : runPlan t secs q2 = .ok (pl2, r2)) :
    r1.Perm r2 := by
  have p1 := plan_rows_perm t secs q1 pl1 r1 ht hp hpl hl1 ho1 h1
  have p2 := plan_rows_perm t secs q2 pl2 r2 ht (by rw [hw]; exact hp) (by rw [hw]; exact hpl) hl2 ho2 h2
  rw [hw] at p2
  exact p1.trans p2.symm

-- ---------------------------------------------------------------- T5

theorem plan_limit_offset (t : Table) (secs : List (List Nat)) (q : PQuery) (pl : Plan)
    (all : List Row) (h0 : runPlan t secs q.unlimited = .ok (pl, all)) :
    runPlan t secs q = .ok (pl, limitRows q.limit (all.drop q.offset)) := by
  obtain ⟨mF, lo, hi, view, h1, hplan, h2, h3, hsort, hnosort⟩ := runPlan_ok h0
  simp only [PQuery.unlimited] at h1 hplan hsort hnosort
  unfold runPlan
  simp only [h1, ← hplan, h2, h3]
  cases hs : pl.sort with
  | true =>
    obtain ⟨kept, s, k1, k2, k3⟩ := hsort hs
    unfold orderedOf at k1
    simp only [limitRows, if_true, List.drop_zero] at k3
    subst k3
    simp only [if_true, k1, k2]
  | false =>
    have k := hnosort hs
    unfold orderedOf at k
    simp only [Bool.false_eq_true, if_false]
    rw [takeWhere_slice _ _ _ _ k q.offset q.limit 0]
    simp [limitRows]

end ImmuModel.Sql.SelectPlanMainAux
