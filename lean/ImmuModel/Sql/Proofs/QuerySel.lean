/-
C11 helper lemmas, part 3: IN lists, OR hulls and the main induction over `Pred.ranges`.
-/
import ImmuModel.Sql.Proofs.QueryRange
namespace ImmuModel.Sql.QuerySelAux
open ImmuModel ImmuModel.Sql ImmuModel.Sql.QueryOrderAux ImmuModel.Sql.QueryRangeAux

-- ---------------------------------------------------------------- IN lists

/-- one step of the fold of `listMinMax` -/
def mmStep (acc : Option (Val × Val)) (x : Val) : Option (Val × Val) :=
  match acc with
  | none => none
  | some (mn, mx) =>
    match cmpVals x mn, cmpVals x mx with
    | .ok c1, .ok c2 => some (if c1 < 0 then x else mn, if c2 > 0 then x else mx)
    | _, _ => none

theorem listMinMax_cons (v : Val) (vs : List Val) :
    listMinMax (v :: vs) = vs.foldl mmStep (some (v, v)) := rfl

theorem mmStep_ok {col : Col} {a b x : Val} (ha : okVal col a) (hb : okVal col b) (hx : okVal col x) :
    ∃ a' b', mmStep (some (a, b)) x = some (a', b') ∧ okVal col a' ∧ okVal col b' ∧
      lexLt (K col a) (K col a') = false ∧ lexLt (K col x) (K col a') = false ∧
      lexLt (K col b') (K col b) = false ∧ lexLt (K col b') (K col x) = false := by
  simp only [mmStep, cmpVals_key hx ha, cmpVals_key hx hb]
  refine ⟨_, _, rfl, ?_, ?_, ?_, ?_, ?_, ?_⟩
  · split <;> assumption
  · split <;> assumption
  · split
    · rename_i h; exact lexLt_asymm (bytesCompare_neg.mp h)
    · exact lexLt_irrefl _
  · split
    · exact lexLt_irrefl _
    · rename_i h
      cases h' : lexLt (K col x) (K col a) with
      | false => rfl
      | true => exact absurd (bytesCompare_neg.mpr h') h
  · split
    · rename_i h; exact lexLt_asymm (bytesCompare_pos.mp h)
    · exact lexLt_irrefl _
  · split
    · exact lexLt_irrefl _
    · rename_i h
      cases h' : lexLt (K col b) (K col x) with
      | false => rfl
      | true => exact absurd (bytesCompare_pos.mpr h') h

theorem foldl_mmStep {col : Col} : ∀ (xs : List Val) (a b mn mx : Val),
    okVal col a → okVal col b → (∀ x ∈ xs, okVal col x) →
    xs.foldl mmStep (some (a, b)) = some (mn, mx) →
    okVal col mn ∧ okVal col mx ∧
      lexLt (K col a) (K col mn) = false ∧ lexLt (K col mx) (K col b) = false ∧
      ∀ e ∈ xs, lexLt (K col e) (K col mn) = false ∧ lexLt (K col mx) (K col e) = false
  | [], a, b, mn, mx, ha, hb, _, h => by
    simp only [List.foldl_nil, Option.some.injEq, Prod.mk.injEq] at h
    obtain ⟨h1, h2⟩ := h
    subst h1; subst h2
    exact ⟨ha, hb, lexLt_irrefl _, lexLt_irrefl _, fun e he => by cases he⟩
  | x :: xs, a, b, mn, mx, ha, hb, hxs, h => by
    have hx := hxs x List.mem_cons_self
    obtain ⟨a', b', hs, ha', hb', h1, h2, h3, h4⟩ := mmStep_ok ha hb hx
    rw [List.foldl_cons, hs] at h
    obtain ⟨vmn, vmx, i1, i2, i3⟩ :=
      foldl_mmStep xs a' b' mn mx ha' hb' (fun y hy => hxs y (List.mem_cons_of_mem _ hy)) h
    refine ⟨vmn, vmx, nlt_trans i1 h1, nlt_trans h3 i2, ?_⟩
    intro e he
    rcases List.mem_cons.mp he with he | he
    · subst he
      exact ⟨nlt_trans i1 h2, nlt_trans h4 i2⟩
    · exact i3 e he

theorem listMinMax_spec {col : Col} {vs : List Val} {mn mx : Val}
    (hvs : ∀ x ∈ vs, okVal col x) (h : listMinMax vs = some (mn, mx)) :
    okVal col mn ∧ okVal col mx ∧
      ∀ e ∈ vs, lexLt (K col e) (K col mn) = false ∧ lexLt (K col mx) (K col e) = false := by
  cases vs with
  | nil => simp [listMinMax] at h
  | cons v vs =>
    rw [listMinMax_cons] at h
    have hv := hvs v List.mem_cons_self
    obtain ⟨vmn, vmx, i1, i2, i3⟩ :=
      foldl_mmStep vs v v mn mx hv hv (fun y hy => hvs y (List.mem_cons_of_mem _ hy)) h
    refine ⟨vmn, vmx, ?_⟩
    intro e he
    rcases List.mem_cons.mp he with he | he
    · subst he; exact ⟨i1, i2⟩
    · exact i3 e he

/-- a positive IN is TRUE only if the value equals (has the key of) an element -/
theorem inListEval_true {col : Col} {x : Val} (hx : okVal col x) :
    ∀ {vs : List Val}, (∀ e ∈ vs, okVal col e) → inListEval x false vs = .ok true →
      ∃ e ∈ vs, K col x = K col e
  | [], _, h => by simp [inListEval] at h
  | y :: ys, hvs, h => by
    have hy := hvs y List.mem_cons_self
    simp only [inListEval, cmpVals_key hx hy] at h
    by_cases hc : bytesCompare (K col x) (K col y) = 0
    · exact ⟨y, List.mem_cons_self, bytesCompare_eq_zero.mp hc⟩
    · simp only [hc, if_false] at h
      obtain ⟨e, he, hk⟩ := inListEval_true hx (fun e he => hvs e (List.mem_cons_of_mem _ he)) h
      exact ⟨e, List.mem_cons_of_mem _ he, hk⟩

-- ---------------------------------------------------------------- OR

/-- one step of the fold of `mergeOr` -/
def orStep (r : RangeMap) (acc : Except EvalErr RangeMap) (x : Nat × Range) : Except EvalErr RangeMap :=
  match acc with
  | .error e => .error e
  | .ok m =>
    match RangeMap.get r x.1 with
    | none => .ok m
    | some rr =>
      match x.2.extend rr with
      | .error e => .error e
      | .ok h => .ok (m.set x.1 h)

theorem mergeOr_eq (l r m : RangeMap) : mergeOr l r m = l.foldl (orStep r) (.ok m) := rfl

theorem mergeOr_spec {cols : List Col} {r : RangeMap} (hr : MAll (RValid cols) r) :
    ∀ (l m : RangeMap), MAll (RValid cols) l → MAll (RValid cols) m →
    ∃ m', l.foldl (orStep r) (.ok m) = .ok m' ∧ MAll (RValid cols) m' ∧
      ∀ (row : Row), rowOK cols row = true → (MAll (RHolds row) l ∨ MAll (RHolds row) r) →
        MAll (RHolds row) m → MAll (RHolds row) m'
  | [], m, _, hm => ⟨m, rfl, hm, fun _ _ _ h => h⟩
  | (c, lr) :: l, m, hl, hm => by
    have hl' : MAll (RValid cols) l := fun c' r' h => hl c' r' (List.mem_cons_of_mem _ h)
    obtain ⟨col, hc, hlr⟩ := hl c lr List.mem_cons_self
    rw [List.foldl_cons]
    cases hg : RangeMap.get r c with
    | none =>
      have e : orStep r (.ok m) (c, lr) = .ok m := by simp [orStep, hg]
      rw [e]
      obtain ⟨m', h1, h2, h3⟩ := mergeOr_spec hr l m hl' hm
      refine ⟨m', h1, h2, ?_⟩
      intro row hrow hor hb
      refine h3 row hrow ?_ hb
      rcases hor with hor | hor
      · exact Or.inl (fun c' r' h => hor c' r' (List.mem_cons_of_mem _ h))
      · exact Or.inr hor
    | some rr =>
      obtain ⟨col', hc', hrr⟩ := MAll_get hr hg
      rw [hc] at hc'
      cases hc'
      obtain ⟨h, he, hv, hh⟩ := extend_ok hlr hrr
      have e : orStep r (.ok m) (c, lr) = .ok (m.set c h) := by simp [orStep, hg, he]
      rw [e]
      obtain ⟨m', h1, h2, h3⟩ := mergeOr_spec hr l (m.set c h) hl' (MAll_set hm ⟨col, hc, hv⟩)
      refine ⟨m', h1, h2, ?_⟩
      intro row hrow hor hb
      have hor' : MAll (RHolds row) l ∨ MAll (RHolds row) r := by
        rcases hor with hor | hor
        · exact Or.inl (fun c' r' h => hor c' r' (List.mem_cons_of_mem _ h))
        · exact Or.inr hor
      refine h3 row hrow hor' (MAll_set hb ?_)
      rcases hor with hor | hor
      · obtain ⟨x, hx, hxh⟩ := hor c lr List.mem_cons_self
        exact ⟨x, hx, hh x (rowOK_get hrow hc hx) (Or.inl hxh)⟩
      · obtain ⟨x, hx, hxh⟩ := MAll_get hor hg
        exact ⟨x, hx, hh x (rowOK_get hrow hc hx) (Or.inr hxh)⟩

-- ---------------------------------------------------------------- the main induction

theorem getCol_ok {row : Row} {c : Nat} {x : Val} (h : getCol row c = .ok x) : row[c]? = some x := by
  unfold getCol at h
  cases h' : row[c]? with
  | none => rw [h'] at h; cases h
  | some v => rw [h'] at h; cases h; rfl

theorem getCol_of_get {row : Row} {c : Nat} {x : Val} (h : row[c]? = some x) : getCol row c = .ok x := by
  simp [getCol, h]

/-- `selectorRanges` on a well-typed plain predicate: total, keeps validity, sound on TRUE rows -/
theorem ranges_spec (cols : List Col) : ∀ (p : Pred) (m0 : RangeMap),
    p.wt cols = true → p.plain = true → MAll (RValid cols) m0 →
    ∃ m, p.ranges m0 = .ok m ∧ MAll (RValid cols) m ∧
      ∀ (row : Row), rowOK cols row = true → p.eval row = .ok (some true) →
        MAll (RHolds row) m0 → MAll (RHolds row) m
  | .cmp c op left v, m0, hwt, hpl, hm => by
    simp only [Pred.wt] at hwt
    cases hc : cols[c]? with
    | none => simp [hc] at hwt
    | some col =>
      simp only [hc] at hwt
      simp only [Pred.plain] at hpl
      have hv : okVal col v := ⟨hwt, hpl⟩
      cases left with
      | true => exact ⟨m0, rfl, hm, fun _ _ _ h => h⟩
      | false =>
        obtain ⟨m, h1, h2, h3⟩ := update_spec op hc hv hm
        refine ⟨m, by simpa [Pred.ranges] using h1, h2, ?_⟩
        intro row hrow he hb
        simp only [Pred.eval] at he
        cases hg : getCol row c with
        | error e => simp [hg] at he
        | ok x =>
          have hx := getCol_ok hg
          have hxo := rowOK_get hrow hc hx
          simp only [hg, Bool.false_eq_true, if_false, cmpVals_key hxo hv, Except.ok.injEq,
            Option.some.injEq] at he
          exact h3 row x hx hxo he hb
  | .inList c neg vs, m0, hwt, hpl, hm => by
    simp only [Pred.wt] at hwt
    cases hc : cols[c]? with
    | none => simp [hc] at hwt
    | some col =>
      simp only [hc] at hwt
      simp only [Pred.plain] at hpl
      have hvs : ∀ e ∈ vs, okVal col e := fun e he =>
        ⟨List.all_eq_true.mp hwt e he, List.all_eq_true.mp hpl e he⟩
      cases neg with
      | true => exact ⟨m0, rfl, hm, fun _ _ _ h => h⟩
      | false =>
        cases hmm : listMinMax vs with
        | none => exact ⟨m0, by simp [Pred.ranges, hmm], hm, fun _ _ _ h => h⟩
        | some mm =>
          obtain ⟨mn, mx⟩ := mm
          obtain ⟨hmn, hmx, hall⟩ := listMinMax_spec hvs hmm
          obtain ⟨m1, a1, a2, a3⟩ := update_spec .ge hc hmn hm
          obtain ⟨m2, b1, b2, b3⟩ := update_spec .le hc hmx a2
          refine ⟨m2, by simp [Pred.ranges, hmm, a1, b1], b2, ?_⟩
          intro row hrow he hb
          simp only [Pred.eval] at he
          cases hg : getCol row c with
          | error e => simp [hg] at he
          | ok x =>
            have hx := getCol_ok hg
            have hxo := rowOK_get hrow hc hx
            simp only [hg] at he
            cases hi : inListEval x false vs with
            | error e => simp [hi] at he
            | ok b =>
              simp only [hi, Except.ok.injEq, Option.some.injEq] at he
              subst he
              obtain ⟨e, hev, hek⟩ := inListEval_true hxo hvs hi
              obtain ⟨k1, k2⟩ := hall e hev
              rw [← hek] at k1 k2
              refine b3 row x hx hxo ?_ (a3 row x hx hxo ?_ hb)
              · simp only [CmpOp.holds, decide_eq_true_eq]
                exact bytesCompare_le_zero.mpr k2
              · simp only [CmpOp.holds, decide_eq_true_eq]
                exact bytesCompare_nonneg.mpr k1
  | .boolCol _, m0, _, _, hm => ⟨m0, rfl, hm, fun _ _ _ h => h⟩
  | .not _, m0, _, _, hm => ⟨m0, rfl, hm, fun _ _ _ h => h⟩
  | .isNullE _, m0, _, _, hm => ⟨m0, rfl, hm, fun _ _ _ h => h⟩
  | .const _, m0, _, _, hm => ⟨m0, rfl, hm, fun _ _ _ h => h⟩
  | .and p q, m0, hwt, hpl, hm => by
    simp only [Pred.wt, Bool.and_eq_true] at hwt
    simp only [Pred.plain, Bool.and_eq_true] at hpl
    obtain ⟨m1, a1, a2, a3⟩ := ranges_spec cols p m0 hwt.1 hpl.1 hm
    obtain ⟨m2, b1, b2, b3⟩ := ranges_spec cols q m1 hwt.2 hpl.2 a2
    refine ⟨m2, by simp [Pred.ranges, a1, b1], b2, ?_⟩
    intro row hrow he hb
    simp only [Pred.eval] at he
    cases hp : p.eval row with
    | error e => simp [hp] at he
    | ok o =>
      cases o with
      | none => simp [hp] at he
      | some bp =>
        cases bp with
        | false => simp [hp] at he
        | true =>
          simp only [hp] at he
          cases hq : q.eval row with
          | error e => simp [hq] at he
          | ok o2 =>
            cases o2 with
            | none => simp [hq] at he
            | some bq =>
              simp only [hq, Except.ok.injEq, Option.some.injEq] at he
              subst he
              exact b3 row hrow hq (a3 row hrow hp hb)
  | .or p q, m0, hwt, hpl, hm => by
    simp only [Pred.wt, Bool.and_eq_true] at hwt
    simp only [Pred.plain, Bool.and_eq_true] at hpl
    obtain ⟨l, a1, a2, a3⟩ := ranges_spec cols p [] hwt.1 hpl.1 (MAll_nil _)
    obtain ⟨r, b1, b2, b3⟩ := ranges_spec cols q [] hwt.2 hpl.2 (MAll_nil _)
    obtain ⟨m, c1, c2, c3⟩ := mergeOr_spec b2 l m0 a2 hm
    refine ⟨m, by simp [Pred.ranges, a1, b1, mergeOr_eq, c1], c2, ?_⟩
    intro row hrow he hb
    refine c3 row hrow ?_ hb
    simp only [Pred.eval] at he
    cases hp : p.eval row with
    | error e => simp [hp] at he
    | ok o =>
      cases o with
      | none => simp [hp] at he
      | some bp =>
        cases bp with
        | true => exact Or.inl (a3 row hrow hp (MAll_nil _))
        | false =>
          simp only [hp] at he
          cases hq : q.eval row with
          | error e => simp [hq] at he
          | ok o2 =>
            cases o2 with
            | none => simp [hq] at he
            | some bq =>
              simp only [hq, Except.ok.injEq, Option.some.injEq] at he
              subst he
              exact Or.inr (b3 row hrow hq (MAll_nil _))

end ImmuModel.Sql.QuerySelAux
