/-
C11 planner lemmas, part 2: the ORDER BY comparator `ordCmp` on rows of a table is the column-by-column
comparison of key bytes (hence total, antisymmetric, transitive); the sort step `sortRows` returns a
sorted permutation; the byte order of index keys is the column-by-column order of the index columns.
-/
import ImmuModel.Sql.SelectPlanSpec
import ImmuModel.Sql.Proofs.QueryMain
namespace ImmuModel.Sql.SelectPlanOrderAux
open ImmuModel ImmuModel.Sql ImmuModel.Sql.QueryOrderAux ImmuModel.Sql.QueryWindowAux

-- ---------------------------------------------------------------- bytesCompare as a signed value

theorem bc_swap (x y : Bytes) : bytesCompare y x = - bytesCompare x y := by
  unfold bytesCompare
  by_cases h : lexLt x y = true
  · simp [h, lexLt_asymm h]
  · by_cases h2 : lexLt y x = true <;> simp [h, h2]

theorem bc_cases (x y : Bytes) :
    (bytesCompare x y = -1 ∧ lexLt x y = true) ∨ (bytesCompare x y = 0 ∧ x = y) ∨
      (bytesCompare x y = 1 ∧ lexLt y x = true) := by
  by_cases h : lexLt x y = true
  · exact Or.inl ⟨bytesCompare_eq_neg_one.mpr h, h⟩
  · by_cases h2 : lexLt y x = true
    · exact Or.inr (Or.inr ⟨bytesCompare_eq_one.mpr h2, h2⟩)
    · have e : x = y := lexLt_connex (by simpa using h) (by simpa using h2)
      exact Or.inr (Or.inl ⟨bytesCompare_eq_zero.mpr e, e⟩)

/-- one column of the comparator: `c` decides unless it is 0; DESC negates -/
def stepCmp (d : Bool) (c rest : Int) : Int := if c = 0 then rest else if d then -c else c

theorem stepCmp_swap (d : Bool) (x y : Bytes) (r : Int) :
    stepCmp d (bytesCompare y x) (-r) = - stepCmp d (bytesCompare x y) r := by
  rw [bc_swap x y]
  unfold stepCmp
  by_cases h : bytesCompare x y = 0
  · simp [h]
  · have : ¬ (- bytesCompare x y = 0) := by omega
    simp only [h, this, if_false]
    cases d <;> simp

theorem stepCmp_ne (d : Bool) {c : Int} (h : c ≠ 0) (r r' : Int) : stepCmp d c r = stepCmp d c r' := by
  simp [stepCmp, h]

theorem stepCmp_trans (d : Bool) (x y z : Bytes) (r1 r2 r3 : Int) (hr : r1 ≤ 0 → r2 ≤ 0 → r3 ≤ 0)
    (h1 : stepCmp d (bytesCompare x y) r1 ≤ 0) (h2 : stepCmp d (bytesCompare y z) r2 ≤ 0) :
    stepCmp d (bytesCompare x z) r3 ≤ 0 := by
  rcases bc_cases x y with ⟨e1, l1⟩ | ⟨e1, l1⟩ | ⟨e1, l1⟩
  · -- x < y
    rcases bc_cases y z with ⟨e2, l2⟩ | ⟨e2, l2⟩ | ⟨e2, l2⟩
    · have := bytesCompare_eq_neg_one.mpr (lexLt_trans l1 l2)
      rw [this]
      rw [e1] at h1
      rw [stepCmp_ne d (by omega) r3 r1]
      exact h1
    · subst l2
      rw [stepCmp_ne d (by omega) r3 r1]
      exact h1
    · rw [e1] at h1; rw [e2] at h2
      cases d <;> simp [stepCmp] at h1 h2
  · subst l1
    rcases bc_cases x z with ⟨e2, l2⟩ | ⟨e2, l2⟩ | ⟨e2, l2⟩
    · rw [stepCmp_ne d (by omega) r3 r2]
      exact h2
    · subst l2
      simp only [stepCmp, bytesCompare_self, if_true] at h1 h2 ⊢
      exact hr h1 h2
    · rw [stepCmp_ne d (by omega) r3 r2]
      exact h2
  · -- y < x
    rcases bc_cases y z with ⟨e2, l2⟩ | ⟨e2, l2⟩ | ⟨e2, l2⟩
    · rw [e1] at h1; rw [e2] at h2
      cases d <;> simp [stepCmp] at h1 h2
    · subst l2
      rw [stepCmp_ne d (by omega) r3 r1]
      exact h1
    · have := bytesCompare_eq_one.mpr (lexLt_trans l2 l1)
      rw [this]
      rw [e1] at h1
      rw [stepCmp_ne d (by omega) r3 r1]
      exact h1

-- ---------------------------------------------------------------- the comparator in key bytes

/-- key bytes of column `c` of a row -/
def colKey (cols : List Col) (r : Row) (c : Nat) : Bytes :=
  match cols[c]?, r[c]? with
  | some col, some v => K col v
  | _, _ => []

/-- `ordCmp` in key-byte terms -/
def ordCmpK (cols : List Col) : List OrdCol → Row → Row → Int
  | [], _, _ => 0
  | o :: os, a, b =>
    stepCmp o.desc (bytesCompare (colKey cols a o.col) (colKey cols b o.col)) (ordCmpK cols os a b)

/-- ascending column-by-column comparison over a list of columns -/
def colsCmp (cols : List Col) : List Nat → Row → Row → Int
  | [], _, _ => 0
  | c :: cs, a, b =>
    stepCmp false (bytesCompare (colKey cols a c) (colKey cols b c)) (colsCmp cols cs a b)

theorem row_get {cols : List Col} {r : Row} (hr : rowOK cols r = true) {c : Nat} (hc : c < cols.length) :
    ∃ col v, cols[c]? = some col ∧ r[c]? = some v ∧ okVal col v := by
  have hl : cols.length = r.length := by
    simp only [rowOK, Bool.and_eq_true] at hr
    exact validTuple_length hr.1
  have h1 : cols[c]? = some cols[c] := List.getElem?_eq_getElem hc
  have h2 : r[c]? = some (r[c]'(by omega)) := List.getElem?_eq_getElem (by omega)
  exact ⟨_, _, h1, h2, rowOK_get hr h1 h2⟩

theorem ordCmp_eq {cols : List Col} {a b : Row} (ha : rowOK cols a = true) (hb : rowOK cols b = true) :
    ∀ (o : List OrdCol), (∀ x ∈ o, x.col < cols.length) → ordCmp o a b = .ok (ordCmpK cols o a b)
  | [], _ => rfl
  | f :: os, ho => by
    obtain ⟨col, x, c1, a1, ox⟩ := row_get ha (ho f List.mem_cons_self)
    obtain ⟨col', y, c2, b1, oy⟩ := row_get hb (ho f List.mem_cons_self)
    rw [c1] at c2
    cases c2
    have ih := ordCmp_eq ha hb os (fun x hx => ho x (List.mem_cons_of_mem _ hx))
    simp only [ordCmp, QuerySelAux.getCol_of_get a1, QuerySelAux.getCol_of_get b1, cmpVals_key ox oy, ih,
      ordCmpK, colKey, c1, a1, b1, stepCmp]
    split <;> rfl

theorem ordCmpK_swap (cols : List Col) (a b : Row) : ∀ (o : List OrdCol),
    ordCmpK cols o b a = - ordCmpK cols o a b
  | [] => rfl
  | f :: os => by
    simp only [ordCmpK]
    rw [ordCmpK_swap cols a b os, stepCmp_swap]

theorem ordCmpK_trans (cols : List Col) (a b c : Row) : ∀ (o : List OrdCol),
    ordCmpK cols o a b ≤ 0 → ordCmpK cols o b c ≤ 0 → ordCmpK cols o a c ≤ 0
  | [], _, _ => Int.le_refl 0
  | f :: os, h1, h2 => by
    simp only [ordCmpK] at h1 h2 ⊢
    exact stepCmp_trans _ _ _ _ _ _ _ (ordCmpK_trans cols a b c os) h1 h2

/-- ascending ORDER BY = ascending column comparison -/
theorem ordCmpK_asc (cols : List Col) (a b : Row) : ∀ (o : List OrdCol), (∀ x ∈ o, x.desc = false) →
    ordCmpK cols o a b = colsCmp cols (o.map (·.col)) a b
  | [], _ => rfl
  | f :: os, h => by
    simp only [ordCmpK, List.map_cons, colsCmp, h f List.mem_cons_self]
    rw [ordCmpK_asc cols a b os (fun x hx => h x (List.mem_cons_of_mem _ hx))]

/-- descending ORDER BY = ascending column comparison of the swapped rows -/
theorem ordCmpK_desc (cols : List Col) (a b : Row) : ∀ (o : List OrdCol), (∀ x ∈ o, x.desc = true) →
    ordCmpK cols o a b = colsCmp cols (o.map (·.col)) b a
  | [], _ => rfl
  | f :: os, h => by
    simp only [ordCmpK, List.map_cons, colsCmp, h f List.mem_cons_self]
    rw [ordCmpK_desc cols a b os (fun x hx => h x (List.mem_cons_of_mem _ hx))]
    rw [bc_swap (colKey cols a f.col) (colKey cols b f.col)]
    unfold stepCmp
    by_cases h0 : bytesCompare (colKey cols a f.col) (colKey cols b f.col) = 0
    · simp [h0]
    · have : ¬ (- bytesCompare (colKey cols a f.col) (colKey cols b f.col) = 0) := by omega
      simp [h0, this]

-- ---------------------------------------------------------------- the sort step

/-- sortedness in key-byte terms -/
abbrev LeK (cols : List Col) (o : List OrdCol) (a b : Row) : Prop := ordCmpK cols o a b ≤ 0

theorem insertRow_perm (o : List OrdCol) (r : Row) : ∀ (xs l : List Row),
    insertRow o r xs = .ok l → l.Perm (r :: xs)
  | [], l, h => by
    simp only [insertRow, Except.ok.injEq] at h
    subst h; exact List.Perm.refl _
  | x :: xs, l, h => by
    simp only [insertRow] at h
    cases hc : ordCmp o r x with
    | error e => simp [hc] at h
    | ok c =>
      simp only [hc] at h
      by_cases hle : c ≤ 0
      · rw [if_pos hle] at h
        cases h
        exact List.Perm.refl _
      · rw [if_neg hle] at h
        cases hi : insertRow o r xs with
        | error e => simp [hi] at h
        | ok l' =>
          simp only [hi, Except.ok.injEq] at h
          subst h
          exact ((insertRow_perm o r xs l' hi).cons x).trans (List.Perm.swap r x xs)

theorem sortRows_perm (o : List OrdCol) : ∀ (rs s : List Row), sortRows o rs = .ok s → s.Perm rs
  | [], s, h => by
    simp only [sortRows, Except.ok.injEq] at h
    subst h; exact List.Perm.refl _
  | r :: rs, s, h => by
    simp only [sortRows] at h
    cases hs : sortRows o rs with
    | error e => simp [hs] at h
    | ok s' =>
      simp only [hs] at h
      exact (insertRow_perm o r s' s h).trans ((sortRows_perm o rs s' hs).cons r)

theorem insertRow_sorted {cols : List Col} {o : List OrdCol} (ho : ∀ x ∈ o, x.col < cols.length)
    {r : Row} (hr : rowOK cols r = true) : ∀ (xs l : List Row), (∀ x ∈ xs, rowOK cols x = true) →
    xs.Pairwise (LeK cols o) → insertRow o r xs = .ok l → l.Pairwise (LeK cols o)
  | [], l, _, _, h => by
    simp only [insertRow, Except.ok.injEq] at h
    subst h; simp
  | x :: xs, l, hxs, hp, h => by
    obtain ⟨p1, p2⟩ := List.pairwise_cons.mp hp
    have hx := hxs x List.mem_cons_self
    simp only [insertRow, ordCmp_eq hr hx o ho] at h
    by_cases hle : ordCmpK cols o r x ≤ 0
    · rw [if_pos hle] at h
      cases h
      refine List.pairwise_cons.mpr ⟨?_, hp⟩
      intro y hy
      rcases List.mem_cons.mp hy with hy | hy
      · subst hy; exact hle
      · exact ordCmpK_trans cols r x y o hle (p1 y hy)
    · rw [if_neg hle] at h
      cases hi : insertRow o r xs with
      | error e => simp [hi] at h
      | ok l' =>
        simp only [hi, Except.ok.injEq] at h
        subst h
        refine List.pairwise_cons.mpr ⟨?_, insertRow_sorted ho hr xs l'
          (fun y hy => hxs y (List.mem_cons_of_mem _ hy)) p2 hi⟩
        intro y hy
        rcases List.mem_cons.mp ((insertRow_perm o r xs l' hi).subset hy) with hy | hy
        · subst hy
          show ordCmpK cols o x y ≤ 0
          rw [ordCmpK_swap]
          omega
        · exact p1 y hy

theorem sortRows_sorted {cols : List Col} {o : List OrdCol} (ho : ∀ x ∈ o, x.col < cols.length) :
    ∀ (rs s : List Row), (∀ x ∈ rs, rowOK cols x = true) → sortRows o rs = .ok s →
      s.Pairwise (LeK cols o)
  | [], s, _, h => by
    simp only [sortRows, Except.ok.injEq] at h
    subst h; exact List.Pairwise.nil
  | r :: rs, s, hrs, h => by
    simp only [sortRows] at h
    cases hs : sortRows o rs with
    | error e => simp [hs] at h
    | ok s' =>
      simp only [hs] at h
      have hrs' : ∀ x ∈ rs, rowOK cols x = true := fun x hx => hrs x (List.mem_cons_of_mem _ hx)
      refine insertRow_sorted ho (hrs r List.mem_cons_self) s' s ?_ (sortRows_sorted ho rs s' hrs' hs) h
      intro x hx
      exact hrs' x ((sortRows_perm o rs s' hs).subset hx)

/-- from key-byte sortedness to the specification relation -/
theorem ordLe_of_LeK {cols : List Col} {o : List OrdCol} (ho : ∀ x ∈ o, x.col < cols.length)
    {a b : Row} (ha : rowOK cols a = true) (hb : rowOK cols b = true) (h : LeK cols o a b) :
    ordLe o a b :=
  ⟨_, ordCmp_eq ha hb o ho, h⟩

theorem pairwise_ordLe {cols : List Col} {o : List OrdCol} (ho : ∀ x ∈ o, x.col < cols.length)
    {l : List Row} (hl : ∀ x ∈ l, rowOK cols x = true) (h : l.Pairwise (LeK cols o)) :
    l.Pairwise (ordLe o) :=
  List.Pairwise.imp_of_mem (fun {a b} ha hb hab => ordLe_of_LeK ho (hl a ha) (hl b hb) hab) h

-- ---------------------------------------------------------------- index keys, column by column

/-- byte order of two concatenated index keys = column-by-column order, then the tails -/
theorem keysCat_cmp {cols : List Col} {a b : Row} (ha : rowOK cols a = true) (hb : rowOK cols b = true) :
    ∀ (cs : List Nat) (ic : List Col) (iva ivb : List Val) (Ta Tb : Bytes),
      pickCols cols cs = .ok ic → pick a cs = .ok iva → pick b cs = .ok ivb →
      bytesCompare (keysCat ic iva ++ Ta) (keysCat ic ivb ++ Tb) =
        stepCmp false (colsCmp cols cs a b) (bytesCompare Ta Tb)
  | [], ic, iva, ivb, Ta, Tb, h1, h2, h3 => by
    rw [pickCols_nil h1, pick_nil h2, pick_nil h3]
    simp [keysCat, colsCmp, stepCmp]
  | c :: cs, ic, iva, ivb, Ta, Tb, h1, h2, h3 => by
    obtain ⟨col, ic', c1, c2, c3⟩ := pickCols_cons h1
    obtain ⟨x, iva', a1, a2, a3⟩ := pick_cons h2
    obtain ⟨y, ivb', b1, b2, b3⟩ := pick_cons h3
    subst c3; subst a3; subst b3
    have ox : okVal col x := rowOK_get ha c1 a1
    have oy : okVal col y := rowOK_get hb c1 b1
    have ih := keysCat_cmp ha hb cs ic' iva' ivb' Ta Tb c2 a2 b2
    rw [keysCat_cons, keysCat_cons, List.append_assoc, List.append_assoc,
      bytesCompare_append_decisive (K_decisive ox oy) (K_decisive oy ox), ih]
    have ka : colKey cols a c = K col x := by simp [colKey, c1, a1]
    have kb : colKey cols b c = K col y := by simp [colKey, c1, b1]
    simp only [colsCmp, ka, kb, stepCmp]
    by_cases h0 : bytesCompare (K col x) (K col y) = 0
    · simp [h0]
    · simp [h0]

/-- `key a ≤ key b` in the index `idx` ⇒ `a ≤ b` column by column on the index columns -/
theorem colsCmp_of_keyLe {t : Table} {idx : List Nat} {a b : Row} {ka kb : Bytes}
    (ha : rowOK t.cols a = true) (hb : rowOK t.cols b = true)
    (hka : indexKey t idx a = .ok ka) (hkb : indexKey t idx b = .ok kb)
    (hle : lexLt kb ka = false) : colsCmp t.cols idx a b ≤ 0 := by
  obtain ⟨ic, iva, pc, pva, xa, ya, e1, e2, e3, e4, e5, e6, e7⟩ := QueryScanAux.indexKey_ok hka
  obtain ⟨ic', ivb, pc', pvb, xb, yb, f1, f2, f3, f4, f5, f6, f7⟩ := QueryScanAux.indexKey_ok hkb
  rw [e1] at f1; cases f1
  rw [e3] at f3; cases f3
  rw [encTuple_eq (pick_valid ha idx ic iva e1 e2)] at e5
  rw [encTuple_eq (pick_valid hb idx ic ivb e1 f2)] at f5
  cases e5; cases f5
  subst e7; subst f7
  have h := bytesCompare_le_zero.mpr hle
  rw [keysCat_cmp ha hb idx ic iva ivb ya yb e1 e2 f2] at h
  unfold stepCmp at h
  by_cases h0 : colsCmp t.cols idx a b = 0
  · omega
  · simpa [h0] using h

/-- a prefix of a lexicographic order -/
theorem colsCmp_prefix (cols : List Col) (a b : Row) : ∀ (idx : List Nat) (o : List OrdCol),
    hasPrefix idx o = true → colsCmp cols idx a b ≤ 0 → colsCmp cols (o.map (·.col)) a b ≤ 0
  | _, [], _, _ => Int.le_refl 0
  | [], _ :: _, h, _ => by simp [hasPrefix] at h
  | c :: cs, f :: os, h, hle => by
    simp only [hasPrefix, Bool.and_eq_true, beq_iff_eq] at h
    obtain ⟨hc, hp⟩ := h
    simp only [List.map_cons, colsCmp, hc] at hle ⊢
    unfold stepCmp at hle ⊢
    by_cases h0 : bytesCompare (colKey cols a c) (colKey cols b c) = 0
    · simp only [h0, if_true] at hle ⊢
      exact colsCmp_prefix cols a b cs os hp hle
    · simpa [h0] using hle

/-- `sortableUsing`: leading index columns on which the two rows have equal keys may be skipped -/
theorem colsCmp_sortable (cols : List Col) (m : RangeMapF) (a b : Row)
    (heq : ∀ c, m.unitaryAt c = true → colKey cols a c = colKey cols b c) (o : List OrdCol) :
    ∀ (idx : List Nat), sortableUsing m o idx = true → colsCmp cols idx a b ≤ 0 →
      colsCmp cols (o.map (·.col)) a b ≤ 0
  | [], h, _ => by simp [sortableUsing] at h
  | c :: cs, h, hle => by
    cases o with
    | nil => simp [sortableUsing] at h
    | cons f os =>
      simp only [sortableUsing] at h
      by_cases hc : (c == f.col) = true
      · rw [if_pos hc] at h
        exact colsCmp_prefix cols a b (c :: cs) (f :: os) h hle
      · rw [if_neg hc] at h
        by_cases hu : m.unitaryAt c = true
        · rw [if_pos hu] at h
          refine colsCmp_sortable cols m a b heq (f :: os) cs h ?_
          simp only [colsCmp, heq c hu, bytesCompare_self, stepCmp, if_true] at hle
          exact hle
        · rw [if_neg hu] at h
          cases h

end ImmuModel.Sql.SelectPlanOrderAux
